/-
The second export equals the first: for a record in the writer's domain the reader rebuilds, list
for list, the record that was written minus its empty branch vectors (`rtCov c = dropEmpty c`), and
an empty vector contributes nothing to the report – no BRDA record, 0 to BRF and BRH. Hence
`printLcov (roundtrip rs) = printLcov rs` byte for byte, summary lines included.
-/
import GrcovModel.Lemmas.LcovWriter
import GrcovModel.Lemmas.LcovFunctions
import GrcovModel.Lemmas.LcovUtf8
namespace Grcov.Lcov
open Grcov AList Grcov.Lcov.Spec

/-! ### association lists -/

theorem keys_append {κ α : Type} (m n : List (κ × α)) : keys (m ++ n) = keys m ++ keys n := by
  simp [keys]

theorem get?_append_new {κ α : Type} [DecidableEq κ] (m r : List (κ × α)) (k : κ) (h : k ∉ keys m) :
    get? (m ++ r) k = get? r k := by
  induction m with
  | nil => rfl
  | cons kv m ih =>
    obtain ⟨k0, w⟩ := kv
    simp only [keys, List.map_cons, List.mem_cons, not_or] at h
    have hne : ¬ k0 = k := fun e => h.1 e.symm
    simp only [List.cons_append, get?_cons, hne, if_false]
    exact ih (by simpa [keys] using h.2)

/-- replacing the value of a key that first occurs after `m` -/
theorem set_append_at {κ α : Type} [DecidableEq κ] (m r : List (κ × α)) (k : κ) (v v' : α)
    (h : k ∉ keys m) : set (m ++ (k, v) :: r) k v' = m ++ (k, v') :: r := by
  induction m with
  | nil => simp [AList.set]
  | cons kv m ih =>
    obtain ⟨k0, w⟩ := kv
    simp only [keys, List.map_cons, List.mem_cons, not_or] at h
    have hne : ¬ k0 = k := fun e => h.1 e.symm
    simp only [List.cons_append, AList.set, hne, if_false]
    rw [ih (by simpa [keys] using h.2)]

theorem nodup_cons_keys {κ α : Type} {k : κ} {v : α} {m : List (κ × α)} (h : NodupKeys ((k, v) :: m)) :
    k ∉ keys m ∧ NodupKeys m := by
  unfold NodupKeys keys at *
  simpa using h

/-! ### lines -/

theorem linesFold_append (m ls : List (Nat × Nat)) (hn : NodupKeys ls)
    (hd : ∀ k ∈ keys ls, k ∉ keys m) (hfit : ∀ kv ∈ ls, kv.2 ≤ U64MAX) :
    linesFold m ls = m ++ ls := by
  induction ls generalizing m with
  | nil => simp [linesFold]
  | cons lc ls ih =>
    obtain ⟨l, c⟩ := lc
    obtain ⟨hl, hn'⟩ := nodup_cons_keys hn
    have hlm : l ∉ keys m := hd l (by simp [keys])
    have hc : c ≤ U64MAX := hfit (l, c) (by simp)
    have hg : get? m l = none := (get?_eq_none_iff m l).mpr hlm
    have step : linesFold m ((l, c) :: ls) = linesFold (set m l (satAdd ((get? m l).getD 0) c)) ls := rfl
    have hs : satAdd 0 c = c := by unfold satAdd; omega
    rw [step, hg, Option.getD_none, hs, set_append_new m l c hlm,
      ih (m ++ [(l, c)]) hn' ?_ fun kv h => hfit kv (List.mem_cons_of_mem _ h)]
    · simp
    · intro k hk
      rw [keys_append]
      simp only [keys, List.map_cons, List.map_nil, List.mem_append, List.mem_singleton, not_or]
      refine ⟨hd k (by simp only [keys, List.map_cons, List.mem_cons]; exact Or.inr hk), ?_⟩
      intro e; subst e; exact hl hk

/-! ### functions -/

theorem declFold_append (m fs : List (Name × Fn)) (hn : NodupKeys fs) (hd : ∀ k ∈ keys fs, k ∉ keys m) :
    declFold m fs = m ++ fs.map fun nf => (nf.1, ⟨nf.2.start, false⟩) := by
  induction fs generalizing m with
  | nil => simp [declFold]
  | cons nf fs ih =>
    obtain ⟨k, f⟩ := nf
    obtain ⟨hk, hn'⟩ := nodup_cons_keys hn
    have hkm : k ∉ keys m := hd k (by simp [keys])
    have step : declFold m ((k, f) :: fs) = declFold (set m k ⟨f.start, false⟩) fs := rfl
    rw [step, set_append_new m k _ hkm, ih (m ++ [(k, (⟨f.start, false⟩ : Fn))]) hn' ?_]
    · simp
    · intro x hx
      rw [keys_append]
      simp only [keys, List.map_cons, List.map_nil, List.mem_append, List.mem_singleton, not_or]
      refine ⟨hd x (by simp only [keys, List.map_cons, List.mem_cons]; exact Or.inr hx), ?_⟩
      intro e; subst e; exact hk hx

theorem execFold_decl (pre fs : List (Name × Fn)) (hn : NodupKeys fs) (hd : ∀ k ∈ keys fs, k ∉ keys pre) :
    execFold (pre ++ fs.map fun nf => (nf.1, (⟨nf.2.start, false⟩ : Fn))) fs = pre ++ fs := by
  induction fs generalizing pre with
  | nil => simp [execFold]
  | cons nf fs ih =>
    obtain ⟨k, ⟨st, ex⟩⟩ := nf
    obtain ⟨hk, hn'⟩ := nodup_cons_keys hn
    have hkp : k ∉ keys pre := hd k (by simp [keys])
    have hg : get? (pre ++ (k, (⟨st, false⟩ : Fn)) :: fs.map fun nf => (nf.1, (⟨nf.2.start, false⟩ : Fn))) k
        = some ⟨st, false⟩ := by
      rw [get?_append_new _ _ _ hkp]; simp
    have step : execFold (pre ++ ((k, (⟨st, ex⟩ : Fn)) :: fs).map fun nf => (nf.1, (⟨nf.2.start, false⟩ : Fn)))
          ((k, ⟨st, ex⟩) :: fs)
        = execFold (pre ++ (k, ⟨st, ex⟩) :: fs.map fun nf => (nf.1, (⟨nf.2.start, false⟩ : Fn))) fs := by
      simp only [List.map_cons, execFold, List.foldl_cons, hg, Bool.false_or]
      rw [set_append_at _ _ _ _ _ hkp]
    rw [step]
    have := ih (pre ++ [(k, ⟨st, ex⟩)]) hn' (by
      intro x hx
      rw [keys_append]
      simp only [keys, List.map_cons, List.map_nil, List.mem_append, List.mem_singleton, not_or]
      refine ⟨hd x (by simp only [keys, List.map_cons, List.mem_cons]; exact Or.inr hx), ?_⟩
      intro e; subst e; exact hk hx)
    simpa using this

theorem functions_roundtrip_eq (fs : List (Name × Fn)) (hn : NodupKeys fs) :
    execFold (declFold [] fs) fs = fs := by
  rw [declFold_append [] fs hn (by simp [keys])]
  simpa using execFold_decl [] fs hn (by simp [keys])

/-! ### branches -/

theorem brdaFold_append (m : List (Nat × List Bool)) (xs ys : List (Nat × Nat × Bool)) :
    brdaFold m (xs ++ ys) = brdaFold (brdaFold m xs) ys := by
  simp [brdaFold, List.foldl_append]

theorem brdaFold_slots_cont (m : List (Nat × List Bool)) (l : Nat) (hl : l ∉ keys m)
    (v u : List Bool) (n : Nat) (hu : u.length = n) :
    brdaFold (m ++ [(l, u)]) (slotRecords l n v) = m ++ [(l, u ++ v)] := by
  induction v generalizing u n with
  | nil => simp [slotRecords, brdaFold]
  | cons t v ih =>
    have hg : get? (m ++ [(l, u)]) l = some u := by rw [get?_append_new _ _ _ hl]; simp
    have step : brdaFold (m ++ [(l, u)]) (slotRecords l n (t :: v))
        = brdaFold (addBranch (m ++ [(l, u)]) l n t) (slotRecords l (n + 1) v) := rfl
    have ha : addBranch (m ++ [(l, u)]) l n t = m ++ [(l, u ++ [t])] := by
      unfold addBranch
      rw [hg]; simp only [hu, if_true]
      exact set_append_at m [] l u (u ++ [t]) hl
    rw [step, ha, ih (u ++ [t]) (n + 1) (by simp [hu])]
    simp

theorem brdaFold_slots (m : List (Nat × List Bool)) (l : Nat) (hl : l ∉ keys m) (v : List Bool) :
    brdaFold m (slotRecords l 0 v) = if v.isEmpty then m else m ++ [(l, v)] := by
  cases v with
  | nil => simp [slotRecords, brdaFold]
  | cons t v =>
    have hg : get? m l = none := (get?_eq_none_iff m l).mpr hl
    have step : brdaFold m (slotRecords l 0 (t :: v))
        = brdaFold (addBranch m l 0 t) (slotRecords l 1 v) := rfl
    have ha : addBranch m l 0 t = m ++ [(l, [t])] := by
      unfold addBranch; rw [hg]; simpa using set_append_new m l [t] hl
    rw [step, ha, brdaFold_slots_cont m l hl v [t] 1 rfl]
    simp

/-- the branch vectors that have at least one slot -/
def nonEmptyVecs (bs : List (Nat × List Bool)) : List (Nat × List Bool) :=
  bs.filter fun lv => !lv.2.isEmpty

theorem keys_nonEmptyVecs_subset (bs : List (Nat × List Bool)) (k : Nat) (h : k ∈ keys (nonEmptyVecs bs)) :
    k ∈ keys bs := by
  simp only [keys, nonEmptyVecs, List.mem_map, List.mem_filter] at h ⊢
  obtain ⟨a, ⟨ha, _⟩, e⟩ := h; exact ⟨a, ha, e⟩

theorem brdaFold_records (m bs : List (Nat × List Bool)) (hn : NodupKeys bs)
    (hd : ∀ k ∈ keys bs, k ∉ keys m) :
    brdaFold m (brdaRecords bs) = m ++ nonEmptyVecs bs := by
  induction bs generalizing m with
  | nil => simp [brdaRecords, brdaFold, nonEmptyVecs]
  | cons lv bs ih =>
    obtain ⟨l, v⟩ := lv
    obtain ⟨hl, hn'⟩ := nodup_cons_keys hn
    have hlm : l ∉ keys m := hd l (by simp [keys])
    have e : brdaRecords ((l, v) :: bs) = slotRecords l 0 v ++ brdaRecords bs := by simp [brdaRecords]
    rw [e, brdaFold_append, brdaFold_slots m l hlm v]
    have hrest : ∀ k ∈ keys bs, k ∉ keys m :=
      fun k hk => hd k (by simp only [keys, List.map_cons, List.mem_cons]; exact Or.inr hk)
    cases hv : v.isEmpty with
    | true => simp only [if_true, nonEmptyVecs, List.filter_cons, hv, Bool.not_true, Bool.false_eq_true, if_false]
              exact ih m hn' hrest
    | false =>
      simp only [Bool.false_eq_true, if_false, nonEmptyVecs, List.filter_cons, hv, Bool.not_false, if_true]
      rw [ih (m ++ [(l, v)]) hn' ?_]
      · simp [nonEmptyVecs]
      · intro k hk
        rw [keys_append]
        simp only [keys, List.map_cons, List.map_nil, List.mem_append, List.mem_singleton, not_or]
        refine ⟨hrest k hk, ?_⟩
        intro e; subst e; exact hl hk

/-! ### the re-imported record -/

/-- the record without its empty branch vectors (`output_lcov` writes nothing for them) -/
def dropEmpty (c : Cov) : Cov := { c with branches := nonEmptyVecs c.branches }

/-- **What the reader rebuilds is, list for list, what was written** – up to branch lines that
carry no branch at all. -/
theorem rtCov_eq (c : Cov) (h : c.WF) : rtCov c = dropEmpty c := by
  unfold rtCov dropEmpty
  rw [linesFold_append [] c.lines h.linesNodup (by simp [keys]) h.countsFit,
    brdaFold_records [] c.branches h.branchesNodup (by simp [keys]),
    functions_roundtrip_eq c.functions h.functionsNodup]
  simp

theorem brdaRecords_nonEmptyVecs (bs : List (Nat × List Bool)) :
    brdaRecords (nonEmptyVecs bs) = brdaRecords bs := by
  induction bs with
  | nil => rfl
  | cons lv bs ih =>
    obtain ⟨l, v⟩ := lv
    have e : ∀ xs : List (Nat × List Bool), brdaRecords ((l, v) :: xs) = slotRecords l 0 v ++ brdaRecords xs := by
      intro xs; simp [brdaRecords]
    cases v with
    | nil => simp only [nonEmptyVecs, List.filter_cons, List.isEmpty_nil, Bool.not_true, Bool.false_eq_true,
               if_false] at ih ⊢
             rw [e, ih]; simp [slotRecords]
    | cons t v =>
      simp only [nonEmptyVecs, List.filter_cons, List.isEmpty_cons, Bool.not_false, if_true] at ih ⊢
      rw [e, e, ih]

theorem sum_length_nonEmptyVecs (bs : List (Nat × List Bool)) :
    ((nonEmptyVecs bs).map fun lv => lv.2.length).sum = (bs.map fun lv => lv.2.length).sum := by
  induction bs with
  | nil => rfl
  | cons lv bs ih =>
    obtain ⟨l, v⟩ := lv
    cases v with
    | nil => simpa [nonEmptyVecs] using ih
    | cons t v => simpa [nonEmptyVecs] using ih

theorem sum_taken_nonEmptyVecs (bs : List (Nat × List Bool)) :
    ((nonEmptyVecs bs).map fun lv => (lv.2.filter id).length).sum
      = (bs.map fun lv => (lv.2.filter id).length).sum := by
  induction bs with
  | nil => rfl
  | cons lv bs ih =>
    obtain ⟨l, v⟩ := lv
    cases v with
    | nil => simpa [nonEmptyVecs] using ih
    | cons t v => simpa [nonEmptyVecs] using ih

/-- an empty branch vector contributes nothing to the report: the records written are the same -/
theorem writerRecs_dropEmpty (c : Cov) : writerRecs (dropEmpty c) = writerRecs c := by
  simp only [writerRecs, dropEmpty, brdaRecs, brdaRecords_nonEmptyVecs, sum_length_nonEmptyVecs,
    sum_taken_nonEmptyVecs]
  rfl

/-- what `parse true ∘ printLcov` returns (`C05_roundtrip_bytes`) -/
def roundtrip (rs : List (Bytes × Cov)) : List (Bytes × Cov) :=
  rs.map fun pc => (utf8Lossy pc.1, rtCov pc.2)

theorem writerSections_roundtrip (first : Bool) (rs : List (Bytes × Cov))
    (h : ∀ pc ∈ rs, pc.2.WF ∧ utf8Lossy pc.1 = pc.1) :
    writerSections first (roundtrip rs) = writerSections first rs := by
  induction rs generalizing first with
  | nil => rfl
  | cons pc rs ih =>
    obtain ⟨p, c⟩ := pc
    obtain ⟨hw, hp⟩ := h (p, c) (by simp)
    simp only [roundtrip, List.map_cons, writerSections] at ih ⊢
    rw [ih false fun q hq => h q (List.mem_cons_of_mem _ hq)]
    simp only [writerSection, hp, rtCov_eq c hw, writerRecs_dropEmpty]

/-- **The second export equals the first, byte for byte.** -/
theorem printLcov_roundtrip (rs : List (Bytes × Cov)) (h : ∀ pc ∈ rs, pc.2.WF ∧ utf8Lossy pc.1 = pc.1) :
    printLcov (roundtrip rs) = printLcov rs := by
  cases rs with
  | nil => rfl
  | cons pc rs =>
    have := writerSections_roundtrip true (pc :: rs) h
    simp only [roundtrip, List.map_cons] at this
    simp only [printLcov, roundtrip, List.map_cons, this]

/-- the writer's domain is closed under the round trip -/
theorem writerOK_roundtrip (p : Bytes) (c : Cov) (h : WriterOK p c) (hp : utf8Lossy p = p) :
    WriterOK (utf8Lossy p) (rtCov c) := by
  rw [hp, rtCov_eq c h.wf]
  have hw := rtCov_wf c
  rw [rtCov_eq c h.wf] at hw
  refine ⟨hw, h.path, h.lineNos, fun lv hlv => h.branchLines lv ?_, h.fnNames⟩
  simp only [dropEmpty, nonEmptyVecs, List.mem_filter] at hlv
  exact hlv.1

/-! ### export/import rounds -/

/-- one export/import round: the report is written and read back (`None`: the reader rejected it) -/
def reimport (rs : List (Bytes × Cov)) : Option (List (Bytes × Cov)) :=
  match parse true (printLcov rs) with
  | .ok r => some r
  | _ => none

/-- `k` export/import rounds -/
def reimportIter : Nat → List (Bytes × Cov) → Option (List (Bytes × Cov))
  | 0, rs => some rs
  | k + 1, rs => (reimport rs).bind (reimportIter k)

/-! ### re-import with branch parsing off -/

theorem applyRecs_brda_off (a : Acc) (bs : List (Nat × List Bool)) :
    applyRecs false a (brdaRecs bs) = a := by
  unfold brdaRecs
  generalize brdaRecords bs = rs
  induction rs generalizing a with
  | nil => rfl
  | cons r rs ih => simp only [List.map_cons, applyRecs_cons, applyRec]; exact ih a

/-- the record read back without `--branch`: everything but the branch data -/
def rtCovOff (c : Cov) : Cov := { rtCov c with branches := [] }

theorem applyRecs_writer_off (R : List (Bytes × Cov)) (cf : Option Bytes) (c : Cov)
    (hu : ∀ nf ∈ c.functions, utf8Lossy nf.1 = nf.1) (hn : NodupKeys c.functions) :
    applyRecs false { results := R, curFile := cf, cur := {}, pending := [] } (writerRecs c)
      = { results := R, curFile := cf, cur := rtCovOff c, pending := [] } := by
  have hsum : ∀ (a : Acc), applyRecs false a
      (if c.functions.isEmpty then [] else
        [keyedSummary [70, 78, 70] c.functions.length,
         keyedSummary [70, 78, 72] (c.functions.filter fun nf => nf.2.executed).length]) = a := by
    intro a
    apply applyRecs_inert
    intro r hr
    split at hr
    · simp at hr
    · simp only [List.mem_cons, List.mem_singleton, List.not_mem_nil, or_false] at hr
      rcases hr with hr | hr <;> subst hr <;> rfl
  have hdecl : ∀ nf ∈ c.functions, (get? (declFold [] c.functions) nf.1).isSome := by
    intro nf hnf
    rw [get?_declFold _ _ hn]
    have : get? c.functions nf.1 = some nf.2 := get?_of_mem hn (by cases nf; exact hnf)
    simp [this]
  simp only [writerRecs, applyRecs_append]
  rw [applyRecs_fn false _ c.functions hu rfl]
  rw [applyRecs_fnda false _ c.functions hu (by simpa using hdecl)]
  simp only [hsum]
  rw [applyRecs_brda_off]
  rw [applyRecs_inert false _ _ (by
    intro r hr
    simp only [List.mem_cons, List.mem_singleton, List.not_mem_nil, or_false] at hr
    rcases hr with hr | hr <;> subst hr <;> rfl)]
  rw [applyRecs_da, daFold_eq]
  rw [applyRecs_inert false _ _ (by
    intro r hr
    simp only [List.mem_cons, List.mem_singleton, List.not_mem_nil, or_false] at hr
    rcases hr with hr | hr <;> subst hr <;> rfl)]
  rfl

theorem semSection_writer_off (first : Bool) (path : Bytes) (c : Cov) (h : WriterOK path c) :
    semSection false (writerSection first path c) = some (utf8Lossy path, rtCovOff c) := by
  have e := applyRecs_writer_off [] (some (utf8Lossy path)) c (fun nf hnf => (h.fnNames nf hnf).2.1)
    h.wf.functionsNodup
  simp only [semSection, writerSection, e]
  rfl

theorem semAll_writer_off (first : Bool) (rs : List (Bytes × Cov)) (h : ∀ pc ∈ rs, WriterOK pc.1 pc.2) :
    semAll false (writerSections first rs) = some (rs.map fun pc => (utf8Lossy pc.1, rtCovOff pc.2)) := by
  induction rs generalizing first with
  | nil => rfl
  | cons pc rs ih =>
    obtain ⟨p, c⟩ := pc
    simp only [writerSections, semAll, semSection_writer_off first p c (h (p, c) (by simp)),
      ih false fun q hq => h q (List.mem_cons_of_mem _ hq)]
    rfl

/-- the written report read back with branch parsing off: the same files, lines and functions, no
branch data -/
theorem parse_printLcov_off (rs : List (Bytes × Cov)) (h : ∀ pc ∈ rs, WriterOK pc.1 pc.2) :
    parse false (printLcov rs) = .ok (rs.map fun pc => (utf8Lossy pc.1, rtCovOff pc.2)) := by
  cases rs with
  | nil => decide +kernel
  | cons pc rs' =>
    have := file_bytes false [LF] (Or.inl rfl) (writerSections true (pc :: rs'))
      (writerSections_wf true (pc :: rs') h) _ (semAll_writer_off true (pc :: rs') h) [] none
    unfold parse printLcov
    have e : ({} : St) = ⟨.dispatch, { results := [], curFile := none, cur := {}, pending := [] }⟩ := rfl
    simp only
    rw [e, this]
    simp [finish]

end Grcov.Lcov

namespace Grcov.Props.C05
open Grcov Grcov.Lcov

/-- what the writer can write and the reader returns unchanged as a file name: every record is in
the writer's domain and every path is (as any Rust `String`) a fixed point of the name decoding -/
def ReportOK (rs : List (Bytes × Cov)) : Prop :=
  ∀ pc ∈ rs, WriterOK pc.1 pc.2 ∧ utf8Lossy pc.1 = pc.1

end Grcov.Props.C05
