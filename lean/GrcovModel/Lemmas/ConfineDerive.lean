/-
Lemmas deriving the hypotheses of the C19 confinement theorems from the Producer model:
the stem of a canonical relative name is a well-formed stem (`stemOK_of_splitExt`); the maps that
`explore` builds of a layout with canonical names have pairwise distinct keys and well-formed
stems (`MapsOK`); hence every extraction of `extractsOf` has a well-formed stem and one of the four
extensions (`extractsOf_ok`), and every (stem, number, extension) belongs to one archive
(`extractsOf_owner`).
-/
import GrcovModel.Lemmas.ConfineExtract
import GrcovModel.Lemmas.ProducerZip
namespace Grcov.Confine
open Grcov.UPath (Bytes RealName)
open Grcov.Producer (Arch Maps Name File RArg Opts splitExt splitExtAux classify handleFile explore
  entries archives insertVec zipListed canonName bGcno bGcda bProfdata bProfraw)
open Grcov.AList (NodupKeys keys)

theorem renameLast_snoc (f : Bytes → Bytes) (l : List Bytes) (s : Bytes) :
    renameLast f (l.map Comp.normal ++ [Comp.normal s]) = l.map Comp.normal ++ [Comp.normal (f s)] := by
  induction l with
  | nil => simp [renameLast]
  | cons a t ih =>
    have hne : t.map Comp.normal ++ [Comp.normal s] ≠ [] := by simp
    cases hrest : t.map Comp.normal ++ [Comp.normal s] with
    | nil => exact absurd hrest hne
    | cons c p =>
      simp only [List.map_cons, List.cons_append, hrest, renameLast]
      rw [← hrest, ih]

/-! ### the stem of a canonical name -/

/-- a `/`-joined list of real names (possibly none: the empty string) -/
def CanonLike (p : Name) : Prop := ∃ names : List Bytes, p = UPath.join names ∧ ∀ s ∈ names, RealName s

theorem splitExtAux_noSlash {b : Bool} {p s e : Name} (h : splitExtAux b p = some (s, e)) : 47 ∉ e := by
  induction p generalizing b s e with
  | nil => simp [splitExtAux] at h
  | cons c cs ih =>
    unfold splitExtAux at h
    split at h
    · rename_i s' e' hrec
      cases h
      exact ih hrec
    · split at h
      · rename_i hc
        cases h
        simp only [Bool.and_eq_true, Bool.not_eq_eq_eq_not, Bool.not_true] at hc
        intro hm
        have : cs.contains 47 = true := by simpa using hm
        rw [this] at hc
        exact absurd hc.2 (by simp)
      · cases h

theorem splitExtAux_stem_last {b : Bool} {p s e : Name} (h : splitExtAux b p = some (s, e)) :
    (s = [] ∧ b = true) ∨ (∃ c, s.getLast? = some c ∧ c ≠ 47) := by
  induction p generalizing b s e with
  | nil => simp [splitExtAux] at h
  | cons c cs ih =>
    unfold splitExtAux at h
    split at h
    · rename_i s' e' hrec
      cases h
      rcases ih hrec with ⟨rfl, hb⟩ | ⟨c', hc', hne⟩
      · refine Or.inr ⟨c, by simp, ?_⟩
        intro hc; subst hc; simp at hb
      · refine Or.inr ⟨c', ?_, hne⟩
        cases s' with
        | nil => simp at hc'
        | cons x xs => simpa [List.getLast?_cons_cons] using hc'
    · split at h
      · rename_i hc
        cases h
        simp only [Bool.and_eq_true] at hc
        exact Or.inl ⟨rfl, hc.1.2⟩
      · cases h

theorem pfx_getLast (pre : List Bytes) (h : pre ≠ []) : (pfx pre).getLast? = some 47 := by
  obtain ⟨l, x, rfl⟩ : ∃ l x, pre = l ++ [x] :=
    ⟨pre.dropLast, pre.getLast h, (List.dropLast_concat_getLast h).symm⟩
  simp [pfx, List.flatMap_append]

/-- `with_extension("")` of a canonical relative name is a well-formed stem, and the extension
has no separator -/
theorem stemOK_of_splitExt {p s e : Name} (hp : CanonLike p) (h : splitExt p = some (s, e)) :
    StemOK s ∧ 47 ∉ e := by
  obtain ⟨names, hpn, hreal⟩ := hp
  have hpe : p = s ++ 46 :: e := Grcov.Producer.splitExt_eq h
  have he : 47 ∉ e := splitExtAux_noSlash h
  have hlast : ∃ c, s.getLast? = some c ∧ c ≠ 47 := by
    rcases splitExtAux_stem_last h with ⟨_, hb⟩ | h2
    · cases hb
    · exact h2
  refine ⟨?_, he⟩
  have hSne := UPath.split_ne_nil s
  obtain ⟨pre', B, hS⟩ : ∃ pre' B, UPath.split s = pre' ++ [B] :=
    ⟨(UPath.split s).dropLast, (UPath.split s).getLast hSne, (List.dropLast_concat_getLast hSne).symm⟩
  have hsl : ∀ x ∈ pre' ++ [B], 47 ∉ x := fun x hx => UPath.mem_split_noSlash (by rw [hS]; exact hx)
  have hs : s = UPath.join (pre' ++ [B]) := by rw [← hS, UPath.join_split]
  have hp2 : p = UPath.join (pre' ++ [B ++ 46 :: e]) := by
    rw [hpe, hs, join_snoc, join_snoc]; simp
  have hnames : names ≠ [] := by
    intro hn; subst hn
    rw [hpn] at hpe
    simp [UPath.join] at hpe
  have hBe : ∀ x ∈ pre' ++ [B ++ 46 :: e], 47 ∉ x := by
    intro x hx
    rcases List.mem_append.1 hx with h1 | h1
    · exact hsl x (by simp [h1])
    · simp at h1; subst h1
      intro hm
      simp only [List.mem_append, List.mem_cons] at hm
      rcases hm with hm | hm | hm
      · exact hsl B (by simp) hm
      · cases hm
      · exact he hm
  have heq : pre' ++ [B ++ 46 :: e] = names := by
    have h1 := UPath.split_join (S := pre' ++ [B ++ 46 :: e]) (by simp) hBe
    have h2 := UPath.split_join hnames (fun x hx => (hreal x hx).2.1)
    rw [← hp2, hpn] at h1
    rw [← h1, h2]
  refine ⟨pre', B, hs, ?_, ?_, hsl B (by simp)⟩
  · intro x hx
    exact hreal x (by rw [← heq]; simp [hx])
  · intro hB
    subst hB
    obtain ⟨c, hc, hne⟩ := hlast
    rw [hs, join_snoc] at hc
    simp only [List.append_nil] at hc
    by_cases hpre : pre' = []
    · subst hpre; simp [pfx] at hc
    · rw [pfx_getLast pre' hpre] at hc
      injection hc with hc
      exact hne hc.symm

/-! ### the maps of `explore` -/

def ShapeOK (ext : Name) (m : List (Name × List Arch)) : Prop :=
  ∀ p ∈ m, ∀ a ∈ p.2, a.kind ≠ .plain → ∃ s, splitExt p.1 = some (s, ext) ∧ StemOK s

structure MapsOK (m : Maps) : Prop where
  pd : NodupKeys m.profdata
  pr : NodupKeys m.profraw
  gc : NodupKeys m.gcno
  pdS : ShapeOK bProfdata m.profdata
  prS : ShapeOK bProfraw m.profraw
  gcS : ∀ p ∈ m.gcno, p.2.kind ≠ .plain → StemOK p.1.1

theorem keys_insertVec {α : Type} (m : List (Name × List α)) (k : Name) (a : α) :
    keys (insertVec m k a) = if k ∈ keys m then keys m else keys m ++ [k] := by
  induction m with
  | nil => simp [insertVec, keys]
  | cons p m ih =>
    obtain ⟨k', as⟩ := p
    unfold insertVec
    by_cases h : k' = k
    · subst h; simp [keys]
    · simp only [h, if_false]
      simp only [keys, List.map_cons, List.mem_cons] at ih ⊢
      rw [ih]
      have hne : ¬ k = k' := fun e => h e.symm
      by_cases hm : k ∈ List.map (fun x => x.1) m
      · simp [hm]
      · simp [hm, hne]

theorem nodupKeys_insertVec {α : Type} {m : List (Name × List α)} (h : NodupKeys m) (k : Name) (a : α) :
    NodupKeys (insertVec m k a) := by
  unfold NodupKeys at *
  rw [keys_insertVec]
  split
  · exact h
  · rename_i hk
    exact List.nodup_append.2 ⟨h, by simp, by
      intro x hx y hy
      simp at hy; subst hy
      intro e; subst e; exact hk hx⟩

theorem mem_insertVec {α : Type} {m : List (Name × List α)} {k : Name} {a : α} {p : Name × List α}
    (h : p ∈ insertVec m k a) :
    p ∈ m ∨ (p.1 = k ∧ ∀ x ∈ p.2, x = a ∨ ∃ q ∈ m, q.1 = k ∧ x ∈ q.2) := by
  induction m with
  | nil =>
    simp [insertVec] at h; subst h
    exact Or.inr ⟨rfl, fun x hx => Or.inl (by simpa using hx)⟩
  | cons q m ih =>
    obtain ⟨k', as⟩ := q
    unfold insertVec at h
    split at h
    · rename_i hk; subst hk
      rcases List.mem_cons.1 h with h | h
      · subst h
        refine Or.inr ⟨rfl, fun x hx => ?_⟩
        rcases List.mem_append.1 hx with hx | hx
        · exact Or.inr ⟨(k', as), by simp, rfl, hx⟩
        · exact Or.inl (by simpa using hx)
      · exact Or.inl (List.mem_cons_of_mem _ h)
    · rcases List.mem_cons.1 h with h | h
      · exact Or.inl (h ▸ List.mem_cons_self)
      · rcases ih h with h | ⟨h1, h2⟩
        · exact Or.inl (List.mem_cons_of_mem _ h)
        · refine Or.inr ⟨h1, fun x hx => ?_⟩
          rcases h2 x hx with h3 | ⟨q, hq, hq1, hq2⟩
          · exact Or.inl h3
          · exact Or.inr ⟨q, List.mem_cons_of_mem _ hq, hq1, hq2⟩

theorem shapeOK_insertVec {ext : Name} {m : List (Name × List Arch)} (h : ShapeOK ext m) (k : Name)
    (a : Arch) (hk : a.kind ≠ .plain → ∃ s, splitExt k = some (s, ext) ∧ StemOK s) :
    ShapeOK ext (insertVec m k a) := by
  intro p hp x hx hxk
  rcases mem_insertVec hp with hp | ⟨hp1, hp2⟩
  · exact h p hp x hx hxk
  · rcases hp2 x hx with rfl | ⟨q, hq, hq1, hq2⟩
    · rw [hp1]; exact hk hxk
    · have := h q hq x hq2 hxk
      rwa [hq1, ← hp1] at this

theorem classify_profraw_path {L : Bool} {f : File} (h : classify L f = .profraw) :
    ∃ s, splitExt f.path = some (s, bProfraw) := by
  unfold classify at h
  split at h
  · cases h
  · rename_i stem ext hs
    by_cases he : ext = bProfraw
    · subst he; exact ⟨stem, hs⟩
    · exfalso
      repeat' split at h
      all_goals first | cases h | (rename_i h'; exact he h')

theorem classify_profdata_path {L : Bool} {f : File} (h : classify L f = .profdata) :
    ∃ s, splitExt f.path = some (s, bProfdata) := by
  unfold classify at h
  split at h
  · cases h
  · rename_i stem ext hs
    by_cases he : ext = bProfdata
    · subst he; exact ⟨stem, hs⟩
    · exfalso
      repeat' split at h
      all_goals first | cases h | (rename_i h'; exact he h')

theorem classify_gcno_split {L : Bool} {f : File} {s : Name} {l : Bool}
    (h : classify L f = .gcno s l) : splitExt f.path = some (s, bGcno) := by
  unfold classify at h
  split at h
  · cases h
  · rename_i stem ext hs
    split at h
    · rename_i he; cases h; subst he; exact hs
    all_goals (repeat' split at h) <;> cases h

theorem handleFile_ok {L : Bool} {m : Maps} (hm : MapsOK m) (af : Arch × File)
    (hc : af.1.kind ≠ .plain → CanonLike af.2.path) : MapsOK (handleFile L m af) := by
  unfold handleFile
  split
  · rename_i stem llvm hcl
    refine { hm with gc := Grcov.AList.nodupKeys_set hm.gc _ _, gcS := ?_ }
    intro p hp hk
    rcases Grcov.Producer.mem_set hp with rfl | hp
    · exact (stemOK_of_splitExt (hc hk) (classify_gcno_split hcl)).1
    · exact hm.gcS p hp hk
  · exact { hm with }
  · rename_i hcl
    obtain ⟨s, hs⟩ := classify_profdata_path hcl
    exact { hm with pd := nodupKeys_insertVec hm.pd _ _,
                    pdS := shapeOK_insertVec hm.pdS _ _ (fun hk => ⟨s, hs, (stemOK_of_splitExt (hc hk) hs).1⟩) }
  · rename_i hcl
    obtain ⟨s, hs⟩ := classify_profraw_path hcl
    exact { hm with pr := nodupKeys_insertVec hm.pr _ _,
                    prS := shapeOK_insertVec hm.prS _ _ (fun hk => ⟨s, hs, (stemOK_of_splitExt (hc hk) hs).1⟩) }
  · exact { hm with }
  · exact { hm with }
  · exact { hm with }
  · exact hm

theorem foldl_handleFile_ok {L : Bool} (E : List (Arch × File)) {m : Maps} (hm : MapsOK m)
    (hE : ∀ af ∈ E, af.1.kind ≠ .plain → CanonLike af.2.path) : MapsOK (E.foldl (handleFile L) m) := by
  induction E generalizing m with
  | nil => exact hm
  | cons af E ih =>
    exact ih (handleFile_ok hm af (hE af (by simp))) (fun x hx => hE x (List.mem_cons_of_mem _ hx))

theorem mapsOK_empty : MapsOK {} :=
  { pd := (by simp [NodupKeys, keys]), pr := (by simp [NodupKeys, keys]), gc := (by simp [NodupKeys, keys]),
    pdS := (by intro p hp; cases hp), prS := (by intro p hp; cases hp), gcS := (by intro p hp; cases hp) }

/-- the files of every directory argument have canonical relative names (what `WalkDir` and
`strip_prefix` yield) -/
def LayoutOK (rargs : List RArg) : Prop :=
  ∀ r ∈ rargs, ∀ l fs, r = RArg.dir l fs → ∀ f ∈ fs, CanonLike f.path

theorem canonLike_zipListed (es : List Grcov.Producer.RawEntry) : ∀ f ∈ zipListed es, CanonLike f.path := by
  intro f hf
  have : ∀ (ix : List Grcov.Producer.RawEntry) (seen : List Name) (l : List Grcov.Producer.RawEntry),
      ∀ f ∈ Grcov.Producer.listGo ix seen l, CanonLike f.path := by
    intro ix seen l
    induction l generalizing seen with
    | nil => intro f hf; simp [Grcov.Producer.listGo] at hf
    | cons e l ih =>
      intro f hf
      unfold Grcov.Producer.listGo at hf
      split at hf
      · exact ih seen f hf
      · split at hf
        · exact ih seen f hf
        · rename_i c hc
          split at hf
          · exact ih seen f hf
          · rcases List.mem_cons.1 hf with rfl | hf
            · obtain ⟨names, h1, h2, _⟩ := Grcov.Producer.canonName_spec hc
              exact ⟨names, h1, h2⟩
            · exact ih _ f hf
  exact this _ _ _ f hf

theorem entries_canon {rargs : List RArg} (hl : LayoutOK rargs) :
    ∀ af ∈ entries (archives (rargs.map RArg.toArg)), af.1.kind ≠ .plain → CanonLike af.2.path := by
  intro af haf hk
  unfold entries at haf
  obtain ⟨a, ha, haf⟩ := List.mem_flatMap.1 haf
  obtain ⟨f, hf, rfl⟩ := List.mem_map.1 haf
  unfold archives at ha
  rcases List.mem_append.1 ha with h | h
  · obtain ⟨x, hx, hxa⟩ := List.mem_filterMap.1 h
    obtain ⟨r, hr, rfl⟩ := List.mem_map.1 hx
    cases r with
    | dir l fs =>
      simp [RArg.toArg, Grcov.Producer.Arg.toArch?] at hxa; subst hxa
      exact hl _ hr l fs rfl f hf
    | zip l es =>
      simp [RArg.toArg, Grcov.Producer.Arg.toArch?] at hxa; subst hxa
      exact canonLike_zipListed es f hf
    | plain g => simp [RArg.toArg, Grcov.Producer.Arg.toArch?] at hxa
  · split at h
    · cases h
    · simp at h; subst h; exact absurd rfl hk

theorem explore_ok (L : Bool) {rargs : List RArg} (hl : LayoutOK rargs) :
    MapsOK (explore L (archives (rargs.map RArg.toArg))) :=
  foldl_handleFile_ok _ mapsOK_empty (entries_canon hl)

/-! ### the extractions -/

theorem numberFrom_ge {s k : Nat} {l : List Arch} {a : Arch} (h : (k, a) ∈ numberFrom s l) : s ≤ k := by
  induction l generalizing s with
  | nil => simp [numberFrom] at h
  | cons x t ih =>
    simp only [numberFrom, List.mem_cons, Prod.mk.injEq] at h
    rcases h with ⟨rfl, _⟩ | h
    · exact Nat.le_refl _
    · have := ih h; omega

theorem numberFrom_mem {s k : Nat} {l : List Arch} {a : Arch} (h : (k, a) ∈ numberFrom s l) : a ∈ l := by
  induction l generalizing s with
  | nil => simp [numberFrom] at h
  | cons x t ih =>
    simp only [numberFrom, List.mem_cons, Prod.mk.injEq] at h
    rcases h with ⟨_, rfl⟩ | h
    · simp
    · exact List.mem_cons_of_mem _ (ih h)

theorem numberFrom_fun {s k : Nat} {l : List Arch} {a a' : Arch} (h : (k, a) ∈ numberFrom s l)
    (h' : (k, a') ∈ numberFrom s l) : a = a' := by
  induction l generalizing s with
  | nil => simp [numberFrom] at h
  | cons x t ih =>
    simp only [numberFrom, List.mem_cons, Prod.mk.injEq] at h h'
    rcases h with ⟨rfl, rfl⟩ | h <;> rcases h' with ⟨hk, rfl⟩ | h'
    · rfl
    · have := numberFrom_ge h'; omega
    · have := numberFrom_ge h; omega
    · exact ih h h'

theorem stemOf_of_split {n s e : Name} (h : splitExt n = some (s, e)) : stemOf n = s := by
  unfold stemOf; rw [h]

theorem mem_profileExtracts {ext : Bytes} {m : List (Name × List Arch)} {e : Extract}
    (h : e ∈ profileExtracts ext m) :
    ∃ p ∈ m, ∃ k a, (k, a) ∈ numberFrom 1 p.2 ∧ a.kind ≠ .plain ∧
      e = ⟨isZip a, stemOf p.1, k, ext, []⟩ := by
  unfold profileExtracts at h
  obtain ⟨p, hp, h⟩ := List.mem_flatMap.1 h
  obtain ⟨ka, hka, h⟩ := List.mem_filterMap.1 h
  split at h
  · cases h
  · rename_i hpl
    injection h with h
    refine ⟨p, hp, ka.1, ka.2, hka, ?_, h.symm⟩
    intro hk; apply hpl; simp [isPlain, hk]

theorem mem_gcnoExtracts {io : Bool} {gcno : List ((Name × Bool) × Arch)}
    {gcda : List (Name × List Arch)} {e : Extract} (h : e ∈ gcnoExtracts io gcno gcda) :
    ∃ p ∈ gcno, p.1.2 = false ∧ p.2.kind ≠ .plain ∧ e.stem = p.1.1 ∧
      ((e.ext = bGcno ∧ e.fromZip = isZip p.2) ∨
       (e.ext = bGcda ∧ e.hardlinks = [] ∧ ∃ ds a, Grcov.AList.get? gcda p.1.1 = some ds ∧
          (e.n, a) ∈ numberFrom 1 ds ∧ e.fromZip = isZip a)) := by
  unfold gcnoExtracts at h
  obtain ⟨p, hp, h⟩ := List.mem_flatMap.1 h
  unfold gcnoKeyExtracts at h
  split at h
  · cases h
  · rename_i hc
    simp only [Bool.or_eq_true, not_or, Bool.not_eq_true] at hc
    have hpl : p.2.kind ≠ .plain := by
      intro hk; have := hc.2; simp [isPlain, hk] at this
    refine ⟨p, hp, hc.1, hpl, ?_⟩
    split at h
    · rename_i ds hds
      rcases List.mem_cons.1 h with rfl | h
      · exact ⟨rfl, Or.inl ⟨rfl, rfl⟩⟩
      · obtain ⟨kd, hkd, h⟩ := List.mem_filterMap.1 h
        split at h
        · cases h
        · injection h with h
          subst h
          exact ⟨rfl, Or.inr ⟨rfl, rfl, ds, kd.2, hds, hkd, rfl⟩⟩
    · split at h
      · cases h
      · simp at h; subst h
        exact ⟨rfl, Or.inl ⟨rfl, rfl⟩⟩

theorem stem_ext_ok (ext : Name) (h : ext = bGcno ∨ ext = bGcda ∨ ext = bProfdata ∨ ext = bProfraw) :
    47 ∉ ext ∧ 46 ∉ ext := by
  rcases h with rfl | rfl | rfl | rfl <;> decide

theorem extractsOfMaps_ok (io : Bool) {m : Maps} (hm : MapsOK m) :
    ∀ e ∈ extractsOfMaps io m, StemOK e.stem ∧ 47 ∉ e.ext ∧ 46 ∉ e.ext := by
  intro e he
  unfold extractsOfMaps at he
  rcases List.mem_append.1 he with he | he
  · rcases List.mem_append.1 he with he | he
    · obtain ⟨p, hp, k, a, hka, hpl, rfl⟩ := mem_profileExtracts he
      obtain ⟨s, hs, hok⟩ := hm.pdS p hp a (numberFrom_mem hka) hpl
      exact ⟨by simpa [stemOf_of_split hs] using hok, stem_ext_ok _ (by simp)⟩
    · obtain ⟨p, hp, k, a, hka, hpl, rfl⟩ := mem_profileExtracts he
      obtain ⟨s, hs, hok⟩ := hm.prS p hp a (numberFrom_mem hka) hpl
      exact ⟨by simpa [stemOf_of_split hs] using hok, stem_ext_ok _ (by simp)⟩
  · obtain ⟨p, hp, _, hpl, hst, hx⟩ := mem_gcnoExtracts he
    refine ⟨by rw [hst]; exact hm.gcS p hp hpl, ?_⟩
    rcases hx with ⟨hx, _⟩ | ⟨hx, _⟩ <;> rw [hx] <;> exact stem_ext_ok _ (by simp)

theorem key_unique {β : Type} {m : List (Name × β)} (h : NodupKeys m) {p q : Name × β} (hp : p ∈ m)
    (hq : q ∈ m) (hk : p.1 = q.1) : p = q := by
  obtain ⟨k, v⟩ := p
  obtain ⟨k', w⟩ := q
  simp only at hk; subst hk
  rw [Grcov.Producer.eq_of_mem_nodupKeys h hp hq]

theorem profile_owner {ext : Bytes} {m : List (Name × List Arch)} (hn : NodupKeys m)
    (hs : ShapeOK ext m) {e e' : Extract} (he : e ∈ profileExtracts ext m)
    (he' : e' ∈ profileExtracts ext m) (hst : e.stem = e'.stem) (hk : e.n = e'.n) :
    e.fromZip = e'.fromZip := by
  obtain ⟨p, hp, k, a, hka, hpl, rfl⟩ := mem_profileExtracts he
  obtain ⟨p', hp', k', a', hka', hpl', rfl⟩ := mem_profileExtracts he'
  simp only at hst hk
  obtain ⟨s, hsp, _⟩ := hs p hp a (numberFrom_mem hka) hpl
  obtain ⟨s', hsp', _⟩ := hs p' hp' a' (numberFrom_mem hka') hpl'
  rw [stemOf_of_split hsp, stemOf_of_split hsp'] at hst
  have hname : p.1 = p'.1 := by
    rw [Grcov.Producer.splitExt_eq hsp, Grcov.Producer.splitExt_eq hsp', hst]
  have := key_unique hn hp hp' hname
  subst this
  subst hk
  rw [numberFrom_fun hka hka']

theorem extractsOfMaps_owner (io : Bool) {m : Maps} (hm : MapsOK m) :
    ∀ e ∈ extractsOfMaps io m, ∀ e' ∈ extractsOfMaps io m,
      ∀ k ∈ e.n :: e.hardlinks, ∀ k' ∈ e'.n :: e'.hardlinks,
      e.stem = e'.stem → k = k' → e.ext = e'.ext → e.fromZip = e'.fromZip := by
  intro e he e' he' k hk k' hk' hst hkk hext
  -- which producer an extraction comes from is decided by its extension
  have fam : ∀ x ∈ extractsOfMaps io m,
      (x ∈ profileExtracts bProfdata m.profdata ∧ x.ext = bProfdata ∧ x.hardlinks = []) ∨
      (x ∈ profileExtracts bProfraw m.profraw ∧ x.ext = bProfraw ∧ x.hardlinks = []) ∨
      (x ∈ gcnoExtracts io m.gcno m.gcda ∧ (x.ext = bGcno ∨ x.ext = bGcda)) := by
    intro x hx
    unfold extractsOfMaps at hx
    rcases List.mem_append.1 hx with hx | hx
    · rcases List.mem_append.1 hx with hx | hx
      · obtain ⟨p, _, k, a, _, _, h⟩ := mem_profileExtracts hx
        exact Or.inl ⟨hx, by rw [h], by rw [h]⟩
      · obtain ⟨p, _, k, a, _, _, h⟩ := mem_profileExtracts hx
        exact Or.inr (Or.inl ⟨hx, by rw [h], by rw [h]⟩)
    · obtain ⟨p, _, _, _, _, h⟩ := mem_gcnoExtracts hx
      exact Or.inr (Or.inr ⟨hx, by rcases h with ⟨h, _⟩ | ⟨h, _⟩ <;> simp [h]⟩)
  have d1 : bProfdata ≠ bProfraw := by decide
  have d2 : bProfdata ≠ bGcno := by decide
  have d3 : bProfdata ≠ bGcda := by decide
  have d4 : bProfraw ≠ bGcno := by decide
  have d5 : bProfraw ≠ bGcda := by decide
  have d6 : bGcno ≠ bGcda := by decide
  rcases fam e he with ⟨h1, x1, l1⟩ | ⟨h1, x1, l1⟩ | ⟨h1, x1⟩ <;>
    rcases fam e' he' with ⟨h2, x2, l2⟩ | ⟨h2, x2, l2⟩ | ⟨h2, x2⟩
  · rw [l1] at hk; rw [l2] at hk'; simp at hk hk'
    exact profile_owner hm.pd hm.pdS h1 h2 hst (by rw [← hk, ← hk', hkk])
  · rw [x1, x2] at hext; exact absurd hext d1
  · rw [x1] at hext; rcases x2 with x2 | x2 <;> rw [x2] at hext
    · exact absurd hext d2
    · exact absurd hext d3
  · rw [x1, x2] at hext; exact absurd hext.symm d1
  · rw [l1] at hk; rw [l2] at hk'; simp at hk hk'
    exact profile_owner hm.pr hm.prS h1 h2 hst (by rw [← hk, ← hk', hkk])
  · rw [x1] at hext; rcases x2 with x2 | x2 <;> rw [x2] at hext
    · exact absurd hext d4
    · exact absurd hext d5
  · rw [x2] at hext; rcases x1 with x1 | x1 <;> rw [x1] at hext
    · exact absurd hext.symm d2
    · exact absurd hext.symm d3
  · rw [x2] at hext; rcases x1 with x1 | x1 <;> rw [x1] at hext
    · exact absurd hext.symm d4
    · exact absurd hext.symm d5
  · -- both from `gcno_gcda_producer`: the same key, hence the same archives
    obtain ⟨p, hp, hl, _, hs1, hc1⟩ := mem_gcnoExtracts h1
    obtain ⟨p', hp', hl', _, hs1', hc1'⟩ := mem_gcnoExtracts h2
    have hkey : p.1 = p'.1 := by
      obtain ⟨⟨a, b⟩, c⟩ := p
      obtain ⟨⟨a', b'⟩, c'⟩ := p'
      simp only at hl hl' hs1 hs1'
      subst hl; subst hl'
      have : a = a' := by rw [← hs1, ← hs1', hst]
      subst this; rfl
    have hpp : p = p' := by
      obtain ⟨kp, vp⟩ := p
      obtain ⟨kp', vp'⟩ := p'
      simp only at hkey; subst hkey
      rw [Grcov.Producer.eq_of_mem_nodupKeys hm.gc hp hp']
    subst hpp
    rcases hc1 with ⟨y1, z1⟩ | ⟨y1, hh1, ds, a, hds, hka, z1⟩ <;>
      rcases hc1' with ⟨y2, z2⟩ | ⟨y2, hh2, ds', a', hds', hka', z2⟩
    · rw [z1, z2]
    · rw [y1, y2] at hext; exact absurd hext d6
    · rw [y1, y2] at hext; exact absurd hext.symm d6
    · rw [hds] at hds'; injection hds' with hds'; subst hds'
      rw [hh1] at hk; rw [hh2] at hk'; simp at hk hk'
      have : e.n = e'.n := by rw [← hk, ← hk', hkk]
      rw [this] at hka
      rw [z1, z2, numberFrom_fun hka hka']

theorem extractsOf_ok (o : Opts) (rargs : List RArg) (hl : LayoutOK rargs) :
    ∀ e ∈ extractsOf o rargs, StemOK e.stem ∧ 47 ∉ e.ext ∧ 46 ∉ e.ext :=
  extractsOfMaps_ok _ (explore_ok _ hl)

theorem extractsOf_owner (o : Opts) (rargs : List RArg) (hl : LayoutOK rargs) :
    ∀ e ∈ extractsOf o rargs, ∀ e' ∈ extractsOf o rargs,
      ∀ k ∈ e.n :: e.hardlinks, ∀ k' ∈ e'.n :: e'.hardlinks,
      e.stem = e'.stem → k = k' → e.ext = e'.ext → e.fromZip = e'.fromZip :=
  extractsOfMaps_owner _ (explore_ok _ hl)

end Grcov.Confine
