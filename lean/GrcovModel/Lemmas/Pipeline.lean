/-
Invariants of the pipeline transition system (GrcovModel/Pipeline.lean).
-/
import GrcovModel.Pipeline
namespace Grcov.Pipeline

/-- contribution of one worker slot to the multiset of held items -/
def cntW (w : W) (x : Item) : Nat :=
  match w with
  | .holding y => if y = x then 1 else 0
  | _ => 0

theorem held_cons (w : W) (ws : List W) (x : Item) :
    (held (w :: ws)).count x = cntW w x + (held ws).count x := by
  cases w <;> simp [held, cntW, List.count_cons]
  rename_i y
  by_cases h : y = x <;> simp [h] <;> omega

/-- replacing slot `w` exchanges its contribution -/
theorem held_set (ws : List W) (w : Nat) (new : W) (x : Item) (hw : w < ws.length) :
    (held (ws.set w new)).count x + cntW (ws.getD w .exited) x = (held ws).count x + cntW new x := by
  induction ws generalizing w with
  | nil => simp at hw
  | cons a ws ih =>
    cases w with
    | zero => simp [held_cons]; omega
    | succ w =>
      have := ih w (by simpa using hw)
      simp only [List.set_cons_succ, held_cons, List.getD_cons_succ] at this ⊢
      omega

theorem getD_ne_default_lt {ws : List W} {w : Nat} (h : ws.getD w .exited ≠ .exited) :
    w < ws.length := by
  by_cases hw : w < ws.length
  · exact hw
  · exfalso; apply h
    simp [List.getD_eq_getElem?_getD, List.getElem?_eq_none (Nat.le_of_not_lt hw)]

def cnt (s : State) (x : Item) : Nat := (everywhere s).count x

theorem cnt_eq (s : State) (x : Item) :
    cnt s x = s.todo.count x + (queueItems s).count x + (held s.workers).count x
      + s.merged.count x + s.rejected.count x + s.lost.count x := by
  simp only [cnt, everywhere, List.count_append]

/-- one enabled step never creates, duplicates or destroys an item -/
theorem step_cnt (fate : Item → Fate) (s : State) (st : Step) (he : enabled s st = true) (x : Item) :
    cnt (step fate s st) x = cnt s x := by
  rw [cnt_eq, cnt_eq]
  cases st with
  | prodSend =>
    simp only [step]
    cases htodo : s.todo with
    | nil => simp [htodo]
    | cons y rest =>
      simp only
      split
      · simp [queueItems, List.filterMap_append, List.count_append, List.count_cons]
        omega
      · simp [htodo, queueItems]
  | prodExit => simp [step, queueItems]
  | recv w =>
    simp only [enabled, Bool.and_eq_true, beq_iff_eq] at he
    have hidle := he.1.2
    have hw : w < s.workers.length := getD_ne_default_lt (by rw [hidle]; decide)
    simp only [step]
    cases hq : s.queue with
    | nil => simp [hq]
    | cons h q =>
      cases h with
      | some y =>
        have := held_set s.workers w (.holding y) x hw
        rw [hidle] at this
        simp [queueItems, hq, List.count_cons, cntW] at this ⊢
        omega
      | none =>
        have := held_set s.workers w .exited x hw
        rw [hidle] at this
        simp [queueItems, hq, cntW] at this ⊢
        omega
  | finish w =>
    simp only [step]
    cases hh : s.workers.getD w .exited with
    | holding y =>
      have hw : w < s.workers.length := getD_ne_default_lt (by rw [hh]; intro h; cases h)
      simp only
      cases fate y with
      | ok =>
        have := held_set s.workers w .idle x hw
        rw [hh] at this
        simp [queueItems, List.count_append, List.count_cons, cntW] at this ⊢
        omega
      | reject =>
        have := held_set s.workers w .idle x hw
        rw [hh] at this
        simp [queueItems, List.count_append, List.count_cons, cntW] at this ⊢
        omega
      | die =>
        have := held_set s.workers w .dead x hw
        rw [hh] at this
        simp [queueItems, List.count_append, List.count_cons, cntW] at this ⊢
        omega
    | idle => simp
    | exited => simp
    | dead => simp
  | main =>
    simp only [step]
    split
    · split <;> simp [queueItems]
    · split
      · simp [queueItems]
      · split <;> simp [queueItems, List.filterMap_append]
    · split
      · simp [queueItems]
      · split <;> simp [queueItems]
    · rfl

theorem run_cnt {fate : Item → Fate} {s s' : State} {tr : List Step} (h : Run fate s tr s')
    (x : Item) : cnt s' x = cnt s x := by
  induction h with
  | nil => rfl
  | cons he _ ih => rw [ih, step_cnt _ _ _ he]

theorem held_replicate_idle (n : Nat) : held (List.replicate n W.idle) = [] := by
  induction n with
  | zero => rfl
  | succ n ih => simp [List.replicate_succ, held] at ih ⊢

theorem cnt_init (n : Nat) (rx : Bool) (items : List Item) (x : Item) :
    cnt (init n rx items) x = items.count x := by
  simp [cnt, everywhere, init, queueItems, held_replicate_idle]

end Grcov.Pipeline

namespace Grcov.Pipeline

/-! ### counting stop markers (needed for progress) -/

def nExited (ws : List W) : Nat := ws.count .exited
def nNones (q : List (Option Item)) : Nat := q.count none
def anyAlive (s : State) : Bool := s.workers.any W.alive

theorem count_set_W (ws : List W) (w : Nat) (new v : W) (hw : w < ws.length) :
    (ws.set w new).count v + (if ws.getD w .exited = v then 1 else 0)
      = ws.count v + (if new = v then 1 else 0) := by
  induction ws generalizing w with
  | nil => simp at hw
  | cons a ws ih =>
    cases w with
    | zero =>
      simp only [List.set_cons_zero, List.count_cons, List.getD_cons_zero, beq_iff_eq]
      split <;> split <;> omega
    | succ w =>
      have := ih w (by simpa using hw)
      simp only [List.set_cons_succ, List.count_cons, List.getD_cons_succ] at this ⊢
      omega

/-- the stop-marker bookkeeping: markers in the queue + workers that consumed one = markers sent -/
def StopInv (s : State) : Prop :=
  s.workers.length = s.n ∧
  match s.mainPc with
  | .joinProd => nNones s.queue + nExited s.workers = 0
  | .stops k => k ≤ s.n ∧ nNones s.queue + nExited s.workers = k
  | .joinWorkers _ => anyAlive s = false ∨ nNones s.queue + nExited s.workers = s.n
  | .done _ => True

theorem stopInv_init (n : Nat) (rx : Bool) (items : List Item) : StopInv (init n rx items) := by
  refine ⟨by simp [init], ?_⟩
  simp [init, nNones, nExited, List.count_replicate]

theorem any_alive_of_getD {ws : List W} {w : Nat} (h : (ws.getD w .exited).alive = true) :
    ws.any W.alive = true := by
  have hw : w < ws.length := getD_ne_default_lt (by intro e; rw [e] at h; simp [W.alive] at h)
  rw [List.any_eq_true]
  refine ⟨ws[w], List.getElem_mem hw, ?_⟩
  simpa [List.getD_eq_getElem?_getD, List.getElem?_eq_getElem hw] using h

theorem step_stopInv (fate : Item → Fate) (s : State) (st : Step) (he : enabled s st = true)
    (h : StopInv s) : StopInv (step fate s st) := by
  obtain ⟨hlen, hm⟩ := h
  cases st with
  | prodSend =>
    simp only [step]
    cases htodo : s.todo with
    | nil => exact ⟨hlen, hm⟩
    | cons y rest =>
      simp only
      split
      · refine ⟨hlen, ?_⟩
        simp only [nNones, List.count_append, anyAlive] at hm ⊢
        have : List.count none [some y] = 0 := by simp
        simp only [this, Nat.add_zero]
        exact hm
      · exact ⟨hlen, hm⟩
  | prodExit => exact ⟨hlen, hm⟩
  | recv w =>
    simp only [enabled, Bool.and_eq_true, beq_iff_eq] at he
    have hidle := he.1.2
    have hw : w < s.workers.length := getD_ne_default_lt (by rw [hidle]; decide)
    have halive : anyAlive s = true := any_alive_of_getD (by rw [hidle]; rfl)
    simp only [step]
    cases hq : s.queue with
    | nil => exact ⟨hlen, hm⟩
    | cons e q =>
      cases e with
      | some y =>
        have hc := count_set_W s.workers w (.holding y) .exited hw
        rw [hidle] at hc
        simp only [reduceCtorEq, if_false, Nat.add_zero] at hc
        refine ⟨by simpa using hlen, ?_⟩
        simp only [nNones, nExited, hq, anyAlive] at hm ⊢
        have h1 : List.count none (some y :: q) = List.count none q := by simp
        rw [h1] at hm
        rw [hc]
        cases hpc : s.mainPc with
        | joinProd => simpa [hpc] using hm
        | stops k => simpa [hpc] using hm
        | joinWorkers i =>
          rw [hpc] at hm; simp only at hm ⊢
          rcases hm with hm | hm
          · exact absurd halive (by unfold anyAlive at *; rw [hm]; decide)
          · exact Or.inr hm
        | done c => trivial
      | none =>
        have hc := count_set_W s.workers w .exited .exited hw
        rw [hidle] at hc
        simp only [reduceCtorEq, if_false, if_true, Nat.add_zero] at hc
        refine ⟨by simpa using hlen, ?_⟩
        simp only [nNones, nExited, hq, anyAlive] at hm ⊢
        have h1 : List.count none (none :: q) = List.count none q + 1 := by simp
        rw [h1] at hm
        rw [hc]
        cases hpc : s.mainPc with
        | joinProd => rw [hpc] at hm; simp only at hm; omega
        | stops k => rw [hpc] at hm; simp only at hm ⊢; omega
        | joinWorkers i =>
          rw [hpc] at hm; simp only at hm ⊢
          rcases hm with hm | hm
          · exact absurd halive (by unfold anyAlive at *; rw [hm]; decide)
          · exact Or.inr (by omega)
        | done c => trivial
  | finish w =>
    simp only [step]
    cases hh : s.workers.getD w .exited with
    | holding y =>
      have hw : w < s.workers.length := getD_ne_default_lt (by rw [hh]; intro h; cases h)
      have halive : anyAlive s = true := any_alive_of_getD (by rw [hh]; rfl)
      have key : ∀ new : W, new ≠ .exited →
          StopInv { s with workers := s.workers.set w new } →
          True := fun _ _ _ => trivial
      have mk : ∀ new : W, new ≠ .exited →
          (match s.mainPc with
            | .joinProd => nNones s.queue + nExited (s.workers.set w new) = 0
            | .stops k => k ≤ s.n ∧ nNones s.queue + nExited (s.workers.set w new) = k
            | .joinWorkers _ => (s.workers.set w new).any W.alive = false ∨
                nNones s.queue + nExited (s.workers.set w new) = s.n
            | .done _ => True) := by
        intro new hne
        have hc := count_set_W s.workers w new .exited hw
        rw [hh] at hc
        simp only [reduceCtorEq, if_false, hne, Nat.add_zero] at hc
        simp only [nExited, hc]
        cases hpc : s.mainPc with
        | joinProd => simpa [hpc, nExited] using hm
        | stops k => simpa [hpc, nExited] using hm
        | joinWorkers i =>
          rw [hpc] at hm; simp only at hm ⊢
          rcases hm with hm | hm
          · exact absurd halive (by unfold anyAlive at *; rw [hm]; decide)
          · exact Or.inr (by simpa [nExited] using hm)
        | done c => trivial
      simp only
      cases fate y with
      | ok => exact ⟨by simpa using hlen, mk .idle (by decide)⟩
      | reject => exact ⟨by simpa using hlen, mk .idle (by decide)⟩
      | die => exact ⟨by simpa using hlen, mk .dead (by decide)⟩
    | idle => exact ⟨hlen, hm⟩
    | exited => exact ⟨hlen, hm⟩
    | dead => exact ⟨hlen, hm⟩
  | main =>
    simp only [step]
    cases hpc : s.mainPc with
    | joinProd =>
      rw [hpc] at hm
      simp only
      split
      · exact ⟨hlen, trivial⟩
      · exact ⟨hlen, Nat.zero_le _, hm⟩
    | stops k =>
      rw [hpc] at hm
      simp only
      split
      · rename_i hk
        refine ⟨hlen, Or.inr ?_⟩
        have : k = s.n := by omega
        simpa [this] using hm.2
      · split
        · rename_i hk _
          have hk' : k + 1 ≤ s.n := by omega
          refine ⟨hlen, hk', ?_⟩
          simp only [nNones, List.count_append] at hm ⊢
          have : List.count none [(none : Option Item)] = 1 := by simp
          rw [this]; omega
        · rename_i hk hr
          refine ⟨hlen, Or.inl ?_⟩
          simp only [receiversAlive, Bool.or_eq_true, not_or] at hr
          simpa [anyAlive] using hr.2
    | joinWorkers i =>
      simp only
      split
      · exact ⟨hlen, trivial⟩
      · split
        · exact ⟨hlen, trivial⟩
        · rw [hpc] at hm; exact ⟨hlen, hm⟩
    | done c => simp only; rw [hpc] at hm; exact ⟨hlen, by rw [hpc]; trivial⟩

end Grcov.Pipeline

namespace Grcov.Pipeline

/-! ### progress -/

theorem alive_witness {ws : List W} (h : ws.any W.alive = true) :
    ∃ w, w < ws.length ∧ (ws.getD w .exited).alive = true := by
  rw [List.any_eq_true] at h
  obtain ⟨x, hx, ha⟩ := h
  obtain ⟨i, hi, rfl⟩ := List.getElem_of_mem hx
  exact ⟨i, hi, by simpa [List.getD_eq_getElem?_getD, List.getElem?_eq_getElem hi] using ha⟩

theorem recv_mem_allSteps (s : State) (w : Nat) (hw : w < s.n) : Step.recv w ∈ allSteps s := by
  simp only [allSteps, List.mem_append, List.mem_flatMap, List.mem_range]
  exact Or.inr ⟨w, hw, by simp⟩

theorem finish_mem_allSteps (s : State) (w : Nat) (hw : w < s.n) : Step.finish w ∈ allSteps s := by
  simp only [allSteps, List.mem_append, List.mem_flatMap, List.mem_range]
  exact Or.inr ⟨w, hw, by simp⟩

/-- an alive worker can move unless it is idle on an empty queue -/
theorem worker_can_move (s : State) (ht : terminal s = false) (hlen : s.workers.length = s.n)
    (halive : anyAlive s = true) (hq : s.queue ≠ []) :
    ∃ st ∈ allSteps s, enabled s st = true := by
  obtain ⟨w, hw, ha⟩ := alive_witness halive
  rw [hlen] at hw
  cases hh : s.workers.getD w .exited with
  | idle =>
    refine ⟨.recv w, recv_mem_allSteps s w hw, ?_⟩
    have hh' : s.workers[w]?.getD W.exited = W.idle := by
      rw [← List.getD_eq_getElem?_getD]; exact hh
    simp [enabled, ht, hh', hq]
  | holding y =>
    refine ⟨.finish w, finish_mem_allSteps s w hw, ?_⟩
    have hh' : s.workers[w]?.getD W.exited = W.holding y := by
      rw [← List.getD_eq_getElem?_getD]; exact hh
    simp [enabled, ht, hh']
  | exited => rw [hh] at ha; simp [W.alive] at ha
  | dead => rw [hh] at ha; simp [W.alive] at ha

theorem mem_allSteps_main (s : State) : Step.main ∈ allSteps s := by simp [allSteps]
theorem mem_allSteps_prodSend (s : State) : Step.prodSend ∈ allSteps s := by simp [allSteps]
theorem mem_allSteps_prodExit (s : State) : Step.prodExit ∈ allSteps s := by simp [allSteps]

/-- With `main`'s receiver dropped (the repaired code) no reachable non-terminal state is stuck,
whatever the faults. -/
theorem progress (s : State) (hinv : StopInv s) (hrx : s.rxMain = false) (hn : 1 ≤ s.n)
    (ht : terminal s = false) : ∃ st ∈ allSteps s, enabled s st = true := by
  obtain ⟨hlen, hm⟩ := hinv
  have hra : receiversAlive s = anyAlive s := by simp [receiversAlive, anyAlive, hrx]
  -- a full queue is non-empty
  have full_ne : ¬ s.queue.length < cap s → s.queue ≠ [] := by
    intro hfull he; rw [he] at hfull; simp [cap] at hfull; omega
  cases hpc : s.mainPc with
  | done c => simp [terminal, hpc] at ht
  | joinProd =>
    by_cases hp : s.prodDone = true ∨ s.prodDead = true
    · refine ⟨.main, mem_allSteps_main s, ?_⟩
      rcases hp with hp | hp <;> simp [enabled, hpc, hp]
    · have hpd : s.prodDone = false := by
        cases h : s.prodDone <;> simp [h] at hp ⊢
      have hpx : s.prodDead = false := by
        cases h : s.prodDead <;> simp [h] at hp ⊢
      cases htodo : s.todo with
      | nil =>
        exact ⟨.prodExit, mem_allSteps_prodExit s, by simp [enabled, ht, hpd, hpx, htodo]⟩
      | cons x rest =>
        by_cases hroom : s.queue.length < cap s
        · exact ⟨.prodSend, mem_allSteps_prodSend s, by simp [enabled, ht, hpd, hpx, htodo, hroom]⟩
        · by_cases ha : anyAlive s = true
          · exact worker_can_move s ht hlen ha (full_ne hroom)
          · exact ⟨.prodSend, mem_allSteps_prodSend s,
              by simp [enabled, ht, hpd, hpx, htodo, hra, ha]⟩
  | stops k =>
    by_cases hk : k ≥ s.n
    · exact ⟨.main, mem_allSteps_main s, by simp [enabled, hpc, hk]⟩
    · by_cases hroom : s.queue.length < cap s
      · exact ⟨.main, mem_allSteps_main s, by simp [enabled, hpc, hroom]⟩
      · by_cases ha : anyAlive s = true
        · exact worker_can_move s ht hlen ha (full_ne hroom)
        · exact ⟨.main, mem_allSteps_main s, by simp [enabled, hpc, hra, ha]⟩
  | joinWorkers i =>
    by_cases hi : i ≥ s.n
    · exact ⟨.main, mem_allSteps_main s, by simp [enabled, hpc, hi]⟩
    · by_cases hw : (s.workers.getD i .exited).alive = true
      · -- worker i is alive: it can move unless idle on an empty queue, which the bookkeeping excludes
        have ha : anyAlive s = true := any_alive_of_getD hw
        by_cases hq : s.queue = []
        · exfalso
          rw [hpc] at hm
          rcases hm with hm | hm
          · rw [hm] at ha; cases ha
          · -- all markers consumed ⇒ every worker exited, but worker i is alive
            rw [hq] at hm
            simp only [nNones, List.count_nil, Nat.zero_add, nExited] at hm
            have hall : ∀ x ∈ s.workers, x = W.exited := by
              have : List.count W.exited s.workers = s.workers.length := by omega
              exact fun x hx => ((List.count_eq_length.mp this) x hx).symm
            have hil : i < s.workers.length := by omega
            have : s.workers.getD i .exited = .exited := by
              simp only [List.getD_eq_getElem?_getD, List.getElem?_eq_getElem hil, Option.getD_some]
              exact hall _ (List.getElem_mem hil)
            rw [this] at hw; simp [W.alive] at hw
        · exact worker_can_move s ht hlen ha hq
      · have hw' : (s.workers[i]?.getD W.exited).alive = false := by
          rw [← List.getD_eq_getElem?_getD]; simpa using hw
        exact ⟨.main, mem_allSteps_main s, by simp [enabled, hpc, hw']⟩

/-! ### every run is finite: a measure that every enabled step decreases -/

def wWeight : W → Nat
  | .idle => 2 | .holding _ => 3 | _ => 0

def mainWeight (n : Nat) : MainPc → Nat
  | .joinProd => 4 * n + 3
  | .stops k => 3 * (n - k) + n + 2
  | .joinWorkers i => (n - i) + 1
  | .done _ => 0

def mu (s : State) : Nat :=
  3 * s.todo.length + (if s.prodDone || s.prodDead then 0 else 1) + 2 * s.queue.length
    + (s.workers.map wWeight).sum + mainWeight s.n s.mainPc

theorem sum_set_weight (ws : List W) (w : Nat) (new : W) (hw : w < ws.length) :
    ((ws.set w new).map wWeight).sum + wWeight (ws.getD w .exited)
      = (ws.map wWeight).sum + wWeight new := by
  induction ws generalizing w with
  | nil => simp at hw
  | cons a ws ih =>
    cases w with
    | zero => simp; omega
    | succ w =>
      have := ih w (by simpa using hw)
      simp only [List.set_cons_succ, List.map_cons, List.sum_cons, List.getD_cons_succ] at this ⊢
      omega

theorem step_mu (fate : Item → Fate) (s : State) (st : Step) (he : enabled s st = true) :
    mu (step fate s st) < mu s := by
  cases st with
  | prodSend =>
    simp only [enabled, Bool.and_eq_true, Bool.not_eq_true'] at he
    obtain ⟨⟨⟨⟨_, hpd⟩, hpx⟩, _⟩, _⟩ := he
    simp only [step]
    cases htodo : s.todo with
    | nil => simp_all
    | cons y rest =>
      simp only
      split
      · simp [mu, htodo]; omega
      · simp [mu, htodo, hpd, hpx]
  | prodExit =>
    simp only [enabled, Bool.and_eq_true, Bool.not_eq_true'] at he
    obtain ⟨⟨⟨_, hpd⟩, hpx⟩, _⟩ := he
    simp [step, mu, hpd, hpx]
  | recv w =>
    simp only [enabled, Bool.and_eq_true, beq_iff_eq] at he
    have hidle := he.1.2
    have hw : w < s.workers.length := getD_ne_default_lt (by rw [hidle]; decide)
    simp only [step]
    cases hq : s.queue with
    | nil => simp [hq] at he
    | cons e q =>
      cases e with
      | some y =>
        have := sum_set_weight s.workers w (.holding y) hw
        rw [hidle] at this
        simp [mu, hq, wWeight] at this ⊢; omega
      | none =>
        have := sum_set_weight s.workers w .exited hw
        rw [hidle] at this
        simp [mu, hq, wWeight] at this ⊢; omega
  | finish w =>
    simp only [step]
    cases hh : s.workers.getD w .exited with
    | holding y =>
      have hw : w < s.workers.length := getD_ne_default_lt (by rw [hh]; intro h; cases h)
      simp only
      cases fate y with
      | ok =>
        have := sum_set_weight s.workers w .idle hw
        rw [hh] at this; simp [mu, wWeight] at this ⊢; omega
      | reject =>
        have := sum_set_weight s.workers w .idle hw
        rw [hh] at this; simp [mu, wWeight] at this ⊢; omega
      | die =>
        have := sum_set_weight s.workers w .dead hw
        rw [hh] at this; simp [mu, wWeight] at this ⊢; omega
    | idle => simp only [enabled, hh] at he; simp at he
    | exited => simp only [enabled, hh] at he; simp at he
    | dead => simp only [enabled, hh] at he; simp at he
  | main =>
    simp only [step]
    cases hpc : s.mainPc with
    | joinProd =>
      simp only
      split <;> simp [mu, hpc, mainWeight] <;> omega
    | stops k =>
      simp only
      split
      · simp [mu, hpc, mainWeight]; omega
      · split
        · simp [mu, hpc, mainWeight]; omega
        · simp [mu, hpc, mainWeight]; omega
    | joinWorkers i =>
      simp only
      split
      · simp [mu, hpc, mainWeight]
      · split <;> simp [mu, hpc, mainWeight] <;> omega
    | done c => simp [enabled, hpc] at he

theorem run_length_le_mu {fate : Item → Fate} {s s' : State} {tr : List Step}
    (h : Run fate s tr s') : tr.length + mu s' ≤ mu s := by
  induction h with
  | nil => simp
  | cons he _ ih =>
    have := step_mu fate _ _ he
    simp only [List.length_cons]; omega

theorem run_stopInv {fate : Item → Fate} {s s' : State} {tr : List Step} (h : Run fate s tr s')
    (hi : StopInv s) : StopInv s' := by
  induction h with
  | nil => exact hi
  | cons he _ ih => exact ih (step_stopInv _ _ _ he hi)

theorem step_n (fate : Item → Fate) (s : State) (st : Step) :
    (step fate s st).n = s.n ∧ (step fate s st).rxMain = s.rxMain := by
  cases st <;> simp only [step] <;> repeat' split
  all_goals first | exact ⟨rfl, rfl⟩ | simp

theorem run_n {fate : Item → Fate} {s s' : State} {tr : List Step} (h : Run fate s tr s') :
    s'.n = s.n ∧ s'.rxMain = s.rxMain := by
  induction h with
  | nil => exact ⟨rfl, rfl⟩
  | cons _ _ ih =>
    rename_i s0 st _ _ _ _
    have := step_n ‹Item → Fate› s0 st
    exact ⟨ih.1.trans this.1, ih.2.trans this.2⟩

end Grcov.Pipeline
