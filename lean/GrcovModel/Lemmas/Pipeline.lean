/-
Invariants of the pipeline transition system (GrcovModel/Pipeline.lean).
-/
import GrcovModel.Pipeline
namespace Grcov.Pipeline

/-- contribution of one worker slot to the multiset of held items -/
def cntW (w : W) (x : Item) : Nat :=
  match w with
  | .holding y => if y = x then 1 else 0
  | .batch y => if y = x then 1 else 0
  | _ => 0

theorem held_cons (w : W) (ws : List W) (x : Item) :
    (held (w :: ws)).count x = cntW w x + (held ws).count x := by
  cases w <;> simp [held, cntW, List.count_cons]
  all_goals
    rename_i y
    by_cases h : y = x <;> simp [h] <;> omega

/-- replacing slot `w` exchanges its contribution -/
theorem held_set (ws : List W) (w : Nat) (new : W) (x : Item) (hw : w < ws.length) :
    (held (ws.set w new)).count x + cntW (ws.getD w .exited) x = (held ws).count x + cntW new x := by
  induction ws generalizing w with
  | nil => simp at hw
  | cons a ws ih =>
    cases w with
    | zero => simp [held_cons]; omega
    | succ w =>
      have := ih w (by simpa using hw)
      simp only [List.set_cons_succ, held_cons, List.getD_cons_succ] at this ⊢
      omega

theorem getD_ne_default_lt {ws : List W} {w : Nat} (h : ws.getD w .exited ≠ .exited) :
    w < ws.length := by
  by_cases hw : w < ws.length
  · exact hw
  · exfalso; apply h
    simp [List.getD_eq_getElem?_getD, List.getElem?_eq_none (Nat.le_of_not_lt hw)]

def cnt (s : State) (x : Item) : Nat := (everywhere s).count x

theorem cnt_eq (s : State) (x : Item) :
    cnt s x = s.todo.count x + (queueItems s).count x + (held s.workers).count x
      + s.merged.count x + s.rejected.count x + s.lost.count x := by
  simp only [cnt, everywhere, List.count_append]

/-- a step that rewrites one worker slot and appends to the three result lists -/
theorem cnt_slot (s : State) (w : Nat) (old new : W) (m r l : List Item) (o : Option Nat) (p : Bool)
    (lg : List (Item × Nat)) (x : Item) (hh : s.workers.getD w .exited = old) (hne : old ≠ .exited) :
    cnt { s with workers := s.workers.set w new, merged := s.merged ++ m, rejected := s.rejected ++ r,
                 lost := s.lost ++ l, owner := o, poisoned := p, log := lg } x + cntW old x
      = cnt s x + cntW new x + m.count x + r.count x + l.count x := by
  have hw : w < s.workers.length := getD_ne_default_lt (by rw [hh]; exact hne)
  have := held_set s.workers w new x hw
  rw [hh] at this
  rw [cnt_eq, cnt_eq]
  simp only [queueItems, List.count_append]
  omega

/-- one enabled step never creates, duplicates or destroys an item -/
theorem step_cnt (fate : Item → Fate) (size : Item → Nat) (s : State) (st : Step)
    (he : enabled size s st = true) (x : Item) :
    cnt (step fate s st) x = cnt s x := by
  cases st with
  | prodSend =>
    rw [cnt_eq, cnt_eq]
    simp only [step]
    cases htodo : s.todo with
    | nil => simp [htodo]
    | cons y rest =>
      simp only
      split
      · simp [queueItems, List.filterMap_append, List.count_append, List.count_cons]
        omega
      · simp [htodo, queueItems]
  | prodExit => rw [cnt_eq, cnt_eq]; simp [step, queueItems]
  | prodDies => rw [cnt_eq, cnt_eq]; simp [step, queueItems]
  | recv w =>
    rw [cnt_eq, cnt_eq]
    simp only [enabled, Bool.and_eq_true, beq_iff_eq] at he
    have hidle := he.1.2
    have hw : w < s.workers.length := getD_ne_default_lt (by rw [hidle]; decide)
    simp only [step]
    cases hq : s.queue with
    | nil => simp [hq]
    | cons h q =>
      cases h with
      | some y =>
        have := held_set s.workers w (.holding y) x hw
        rw [hidle] at this
        simp [queueItems, hq, List.count_cons, cntW] at this ⊢
        omega
      | none =>
        have := held_set s.workers w .exited x hw
        rw [hidle] at this
        simp [queueItems, hq, cntW] at this ⊢
        omega
  | parsed w =>
    simp only [step]
    cases hh : s.workers.getD w .exited with
    | holding y =>
      simp only
      cases fate y with
      | ok =>
        have := cnt_slot s w _ (.batch y) [] [] [] s.owner s.poisoned s.log x hh (by simp)
        simp [cntW] at this ⊢; omega
      | reject =>
        have := cnt_slot s w _ .idle [] [y] [] s.owner s.poisoned s.log x hh (by simp)
        simp [cntW, List.count_cons] at this ⊢; omega
      | die =>
        have := cnt_slot s w _ .dead [] [] [y] s.owner s.poisoned s.log x hh (by simp)
        simp [cntW, List.count_cons] at this ⊢; omega
    | idle => simp
    | batch _ => simp
    | merging _ _ => simp
    | exited => simp
    | dead => simp
  | lock w =>
    simp only [step]
    cases hh : s.workers.getD w .exited with
    | batch y =>
      simp only
      split
      · have := cnt_slot s w _ .dead [] [] [y] s.owner s.poisoned s.log x hh (by simp)
        simp [cntW, List.count_cons] at this ⊢; omega
      · have := cnt_slot s w _ (.merging y 0) [y] [] [] (some w) s.poisoned s.log x hh (by simp)
        simp [cntW, List.count_cons] at this ⊢; omega
    | idle => simp
    | holding _ => simp
    | merging _ _ => simp
    | exited => simp
    | dead => simp
  | mergeEntry w =>
    simp only [step]
    cases hh : s.workers.getD w .exited with
    | merging y j =>
      have := cnt_slot s w _ (.merging y (j + 1)) [] [] [] s.owner s.poisoned (s.log ++ [(y, j)]) x hh (by simp)
      simp [cntW] at this ⊢; omega
    | idle => simp
    | holding _ => simp
    | batch _ => simp
    | exited => simp
    | dead => simp
  | unlock w =>
    simp only [step]
    cases hh : s.workers.getD w .exited with
    | merging y j =>
      have := cnt_slot s w _ .idle [] [] [] none s.poisoned s.log x hh (by simp)
      simp [cntW] at this ⊢; omega
    | idle => simp
    | holding _ => simp
    | batch _ => simp
    | exited => simp
    | dead => simp
  | workerDies w =>
    simp only [step]
    cases hh : s.workers.getD w .exited with
    | idle =>
      have := cnt_slot s w _ .dead [] [] [] s.owner s.poisoned s.log x hh (by simp)
      simp [cntW] at this ⊢; omega
    | holding y =>
      have := cnt_slot s w _ .dead [] [] [y] s.owner s.poisoned s.log x hh (by simp)
      simp [cntW, List.count_cons] at this ⊢; omega
    | batch y =>
      have := cnt_slot s w _ .dead [] [] [y] s.owner s.poisoned s.log x hh (by simp)
      simp [cntW, List.count_cons] at this ⊢; omega
    | merging y j =>
      have := cnt_slot s w _ .dead [] [] [] none true s.log x hh (by simp)
      simp [cntW] at this ⊢; omega
    | exited => simp
    | dead => simp
  | main =>
    rw [cnt_eq, cnt_eq]
    simp only [step]
    split
    · split <;> simp [queueItems]
    · split
      · simp [queueItems]
      · split <;> simp [queueItems, List.filterMap_append]
    · split
      · simp [queueItems]
      · split <;> simp [queueItems]
    · rfl

theorem run_cnt {fate : Item → Fate} {size : Item → Nat} {s s' : State} {tr : List Step}
    (h : Run fate size s tr s') (x : Item) : cnt s' x = cnt s x := by
  induction h with
  | nil => rfl
  | cons he _ ih => rw [ih, step_cnt _ _ _ _ he]

theorem held_replicate_idle (n : Nat) : held (List.replicate n W.idle) = [] := by
  induction n with
  | zero => rfl
  | succ n ih => simp [List.replicate_succ, held] at ih ⊢

theorem cnt_init (n : Nat) (rx : Bool) (items : List Item) (x : Item) :
    cnt (init n rx items) x = items.count x := by
  simp [cnt, everywhere, init, queueItems, held_replicate_idle]

end Grcov.Pipeline

namespace Grcov.Pipeline

/-! ### the worker-local steps all have one shape -/

def isSlotStep (w : Nat) : Step → Bool
  | .parsed v | .lock v | .mergeEntry v | .unlock v | .workerDies v => v == w
  | _ => false

/-- `parsed`, `lock`, `mergeEntry`, `unlock`, `workerDies` either do nothing or rewrite the slot of
one alive worker to a state other than `exited`, leaving producer, queue and main untouched -/
theorem slot_step (fate : Item → Fate) (s : State) (st : Step) (w : Nat) (hst : isSlotStep w st = true) :
    step fate s st = s ∨ ∃ new : W, new ≠ .exited ∧ (s.workers.getD w .exited).alive = true ∧
      (step fate s st).workers = s.workers.set w new ∧ (step fate s st).queue = s.queue ∧
      (step fate s st).mainPc = s.mainPc ∧ (step fate s st).n = s.n ∧ (step fate s st).todo = s.todo ∧
      (step fate s st).prodDone = s.prodDone ∧ (step fate s st).prodDead = s.prodDead ∧
      (step fate s st).rxMain = s.rxMain := by
  cases st <;> simp only [isSlotStep, beq_iff_eq, Bool.false_eq_true] at hst
  all_goals subst hst
  all_goals simp only [step]
  all_goals cases hh : s.workers.getD _ .exited
  all_goals first
    | exact Or.inl rfl
    | (simp only; split <;> exact Or.inr ⟨_, by simp, by simp [W.alive], rfl, rfl, rfl, rfl, rfl, rfl, rfl, rfl⟩)
    | exact Or.inr ⟨_, by simp, by simp [W.alive], rfl, rfl, rfl, rfl, rfl, rfl, rfl, rfl⟩

/-! ### counting stop markers (needed for progress) -/

def nExited (ws : List W) : Nat := ws.count .exited
def nNones (q : List (Option Item)) : Nat := q.count none
def anyAlive (s : State) : Bool := s.workers.any W.alive

theorem count_set_W (ws : List W) (w : Nat) (new v : W) (hw : w < ws.length) :
    (ws.set w new).count v + (if ws.getD w .exited = v then 1 else 0)
      = ws.count v + (if new = v then 1 else 0) := by
  induction ws generalizing w with
  | nil => simp at hw
  | cons a ws ih =>
    cases w with
    | zero =>
      simp only [List.set_cons_zero, List.count_cons, List.getD_cons_zero, beq_iff_eq]
      split <;> split <;> omega
    | succ w =>
      have := ih w (by simpa using hw)
      simp only [List.set_cons_succ, List.count_cons, List.getD_cons_succ] at this ⊢
      omega

/-- the stop-marker bookkeeping: markers in the queue + workers that consumed one = markers sent -/
def StopInv (s : State) : Prop :=
  s.workers.length = s.n ∧
  match s.mainPc with
  | .joinProd => nNones s.queue + nExited s.workers = 0
  | .stops k => k ≤ s.n ∧ nNones s.queue + nExited s.workers = k
  | .joinWorkers _ => anyAlive s = false ∨ nNones s.queue + nExited s.workers = s.n
  | .done _ => True

theorem stopInv_init (n : Nat) (rx : Bool) (items : List Item) : StopInv (init n rx items) := by
  refine ⟨by simp [init], ?_⟩
  simp [init, nNones, nExited, List.count_replicate]

theorem any_alive_of_getD {ws : List W} {w : Nat} (h : (ws.getD w .exited).alive = true) :
    ws.any W.alive = true := by
  have hw : w < ws.length := getD_ne_default_lt (by intro e; rw [e] at h; simp [W.alive] at h)
  rw [List.any_eq_true]
  refine ⟨ws[w], List.getElem_mem hw, ?_⟩
  simpa [List.getD_eq_getElem?_getD, List.getElem?_eq_getElem hw] using h

theorem alive_ne_exited {v : W} (h : v.alive = true) : v ≠ .exited := by
  intro e; rw [e] at h; simp [W.alive] at h

/-- rewriting the slot of an alive worker to a non-`exited` state keeps the bookkeeping -/
theorem stopInv_slot (s s' : State) (w : Nat) (new : W) (hnew : new ≠ .exited)
    (hold : (s.workers.getD w .exited).alive = true) (hws : s'.workers = s.workers.set w new)
    (hq : s'.queue = s.queue) (hpc : s'.mainPc = s.mainPc) (hn : s'.n = s.n) (h : StopInv s) :
    StopInv s' := by
  obtain ⟨hlen, hm⟩ := h
  have hw : w < s.workers.length := getD_ne_default_lt (alive_ne_exited hold)
  have halive : anyAlive s = true := any_alive_of_getD hold
  have hc := count_set_W s.workers w new .exited hw
  have hne : ¬ s.workers.getD w .exited = .exited := alive_ne_exited hold
  simp only [hne, if_false, hnew, Nat.add_zero] at hc
  refine ⟨by rw [hws, hn]; simpa using hlen, ?_⟩
  rw [hpc]
  cases hpc' : s.mainPc with
  | joinProd => rw [hpc'] at hm; simpa [nExited, hws, hq, hc] using hm
  | stops k => rw [hpc'] at hm; simpa [nExited, hws, hq, hc, hn] using hm
  | joinWorkers i =>
    rw [hpc'] at hm; simp only at hm ⊢
    rcases hm with hm | hm
    · rw [hm] at halive; cases halive
    · exact Or.inr (by simpa [nExited, hws, hq, hc, hn] using hm)
  | done c => trivial

theorem step_stopInv (fate : Item → Fate) (size : Item → Nat) (s : State) (st : Step)
    (he : enabled size s st = true) (h : StopInv s) : StopInv (step fate s st) := by
  have slot : ∀ w, isSlotStep w st = true → StopInv (step fate s st) := by
    intro w hst
    rcases slot_step fate s st w hst with e | ⟨new, hnew, hold, hws, hq, hpc, hn, _⟩
    · rw [e]; exact h
    · exact stopInv_slot s _ w new hnew hold hws hq hpc hn h
  obtain ⟨hlen, hm⟩ := h
  cases st with
  | parsed w => exact slot w (by simp [isSlotStep])
  | lock w => exact slot w (by simp [isSlotStep])
  | mergeEntry w => exact slot w (by simp [isSlotStep])
  | unlock w => exact slot w (by simp [isSlotStep])
  | workerDies w => exact slot w (by simp [isSlotStep])
  | prodSend =>
    simp only [step]
    cases htodo : s.todo with
    | nil => exact ⟨hlen, hm⟩
    | cons y rest =>
      simp only
      split
      · refine ⟨hlen, ?_⟩
        simp only [nNones, List.count_append, anyAlive] at hm ⊢
        have : List.count none [some y] = 0 := by simp
        simp only [this, Nat.add_zero]
        exact hm
      · exact ⟨hlen, hm⟩
  | prodExit => exact ⟨hlen, hm⟩
  | prodDies => exact ⟨hlen, hm⟩
  | recv w =>
    simp only [enabled, Bool.and_eq_true, beq_iff_eq] at he
    have hidle := he.1.2
    have hw : w < s.workers.length := getD_ne_default_lt (by rw [hidle]; decide)
    have halive : anyAlive s = true := any_alive_of_getD (by rw [hidle]; rfl)
    simp only [step]
    cases hq : s.queue with
    | nil => exact ⟨hlen, hm⟩
    | cons e q =>
      cases e with
      | some y =>
        have hc := count_set_W s.workers w (.holding y) .exited hw
        rw [hidle] at hc
        simp only [reduceCtorEq, if_false, Nat.add_zero] at hc
        refine ⟨by simpa using hlen, ?_⟩
        simp only [nNones, nExited, hq, anyAlive] at hm ⊢
        have h1 : List.count none (some y :: q) = List.count none q := by simp
        rw [h1] at hm
        rw [hc]
        cases hpc : s.mainPc with
        | joinProd => simpa [hpc] using hm
        | stops k => simpa [hpc] using hm
        | joinWorkers i =>
          rw [hpc] at hm; simp only at hm ⊢
          rcases hm with hm | hm
          · exact absurd halive (by unfold anyAlive at *; rw [hm]; decide)
          · exact Or.inr hm
        | done c => trivial
      | none =>
        have hc := count_set_W s.workers w .exited .exited hw
        rw [hidle] at hc
        simp only [reduceCtorEq, if_false, if_true, Nat.add_zero] at hc
        refine ⟨by simpa using hlen, ?_⟩
        simp only [nNones, nExited, hq, anyAlive] at hm ⊢
        have h1 : List.count none (none :: q) = List.count none q + 1 := by simp
        rw [h1] at hm
        rw [hc]
        cases hpc : s.mainPc with
        | joinProd => rw [hpc] at hm; simp only at hm; omega
        | stops k => rw [hpc] at hm; simp only at hm ⊢; omega
        | joinWorkers i =>
          rw [hpc] at hm; simp only at hm ⊢
          rcases hm with hm | hm
          · exact absurd halive (by unfold anyAlive at *; rw [hm]; decide)
          · exact Or.inr (by omega)
        | done c => trivial
  | main =>
    simp only [step]
    cases hpc : s.mainPc with
    | joinProd =>
      rw [hpc] at hm
      simp only
      split
      · exact ⟨hlen, trivial⟩
      · exact ⟨hlen, Nat.zero_le _, hm⟩
    | stops k =>
      rw [hpc] at hm
      simp only
      split
      · rename_i hk
        refine ⟨hlen, Or.inr ?_⟩
        have : k = s.n := by omega
        simpa [this] using hm.2
      · split
        · rename_i hk _
          have hk' : k + 1 ≤ s.n := by omega
          refine ⟨hlen, hk', ?_⟩
          simp only [nNones, List.count_append] at hm ⊢
          have : List.count none [(none : Option Item)] = 1 := by simp
          rw [this]; omega
        · rename_i hk hr
          refine ⟨hlen, Or.inl ?_⟩
          simp only [receiversAlive, Bool.or_eq_true, not_or] at hr
          simpa [anyAlive] using hr.2
    | joinWorkers i =>
      simp only
      split
      · exact ⟨hlen, trivial⟩
      · split
        · exact ⟨hlen, trivial⟩
        · rw [hpc] at hm; exact ⟨hlen, hm⟩
    | done c => simp only; rw [hpc] at hm; exact ⟨hlen, by rw [hpc]; trivial⟩

end Grcov.Pipeline

namespace Grcov.Pipeline

/-! ### mutual exclusion on the result map -/

def isMerging : W → Bool
  | .merging _ _ => true
  | _ => false

/-- the mutex has an owner exactly when that worker is inside `add_results`; hence at most one
worker is -/
def MutexInv (s : State) : Prop :=
  (∀ w, s.owner = some w → isMerging (s.workers.getD w .exited) = true) ∧
  (∀ w, isMerging (s.workers.getD w .exited) = true → s.owner = some w)

theorem getD_set_ne (ws : List W) (w j : Nat) (v d : W) (h : w ≠ j) :
    (ws.set w v).getD j d = ws.getD j d := by
  simp [List.getD_eq_getElem?_getD, List.getElem?_set_ne h]

theorem getD_set_eq (ws : List W) (w : Nat) (v d : W) (h : w < ws.length) :
    (ws.set w v).getD w d = v := by
  simp [List.getD_eq_getElem?_getD, List.getElem?_set_self h]

theorem getD_set_cases (ws : List W) (w j : Nat) (v : W) :
    (ws.set w v).getD j .exited = ws.getD j .exited ∨ (j = w ∧ (ws.set w v).getD j .exited = v) := by
  by_cases h : w = j
  · subst h
    by_cases hw : w < ws.length
    · exact Or.inr ⟨rfl, getD_set_eq _ _ _ _ hw⟩
    · left
      have : ws.length ≤ w := Nat.le_of_not_lt hw
      simp [List.getD_eq_getElem?_getD, List.getElem?_eq_none, this]
  · exact Or.inl (getD_set_ne _ _ _ _ _ h)

theorem mutexInv_init (n : Nat) (rx : Bool) (items : List Item) : MutexInv (init n rx items) := by
  constructor
  · intro w h; simp [init] at h
  · intro w h
    simp only [init, List.getD_eq_getElem?_getD] at h
    by_cases hw : w < n
    · simp [List.getElem?_replicate, hw, isMerging] at h
    · simp [List.getElem?_replicate, hw, isMerging] at h

/-- a slot that was not merging and is not merging afterwards, owner untouched -/
theorem mutexInv_plain (s s' : State) (w : Nat) (new : W)
    (hold : isMerging (s.workers.getD w .exited) = false) (hnew : isMerging new = false)
    (hws : s'.workers = s.workers.set w new) (ho : s'.owner = s.owner) (h : MutexInv s) : MutexInv s' := by
  obtain ⟨h1, h2⟩ := h
  constructor
  · intro v hv
    rw [ho] at hv
    have := h1 v hv
    rw [hws]
    rcases getD_set_cases s.workers w v new with e | ⟨rfl, _⟩
    · rw [e]; exact this
    · rw [hold] at this; cases this
  · intro v hv
    rw [hws] at hv
    rw [ho]
    rcases getD_set_cases s.workers w v new with e | ⟨rfl, e⟩
    · rw [e] at hv; exact h2 v hv
    · rw [e, hnew] at hv; cases hv

/-- the owner leaves `add_results` (unlock, or death inside it) -/
theorem mutexInv_release (s s' : State) (w : Nat) (new : W)
    (hold : isMerging (s.workers.getD w .exited) = true) (hnew : isMerging new = false)
    (hws : s'.workers = s.workers.set w new) (ho : s'.owner = none) (h : MutexInv s) : MutexInv s' := by
  obtain ⟨h1, h2⟩ := h
  have how := h2 w hold
  constructor
  · intro v hv; rw [ho] at hv; cases hv
  · intro v hv
    rw [hws] at hv
    by_cases hvw : w = v
    · subst hvw
      have hw : w < s.workers.length := getD_ne_default_lt (by intro e; rw [e] at hold; cases hold)
      rw [getD_set_eq _ _ _ _ hw, hnew] at hv; cases hv
    · rw [getD_set_ne _ _ _ _ _ hvw] at hv
      have := h2 v hv
      rw [how] at this
      exact absurd (by simpa using this) hvw

theorem step_mutexInv (fate : Item → Fate) (size : Item → Nat) (s : State) (st : Step)
    (he : enabled size s st = true) (h : MutexInv s) : MutexInv (step fate s st) := by
  cases st with
  | prodSend =>
    simp only [step]
    split
    · exact h
    · split <;> exact h
  | prodExit => exact h
  | prodDies => exact h
  | main =>
    simp only [step]
    split
    · split <;> exact h
    · split
      · exact h
      · split <;> exact h
    · split
      · exact h
      · split <;> exact h
    · exact h
  | recv w =>
    simp only [enabled, Bool.and_eq_true, beq_iff_eq] at he
    have hidle := he.1.2
    simp only [step]
    split
    · exact h
    · exact mutexInv_plain s _ w _ (by rw [hidle]; rfl) rfl rfl rfl h
    · exact mutexInv_plain s _ w _ (by rw [hidle]; rfl) rfl rfl rfl h
  | parsed w =>
    simp only [step]
    cases hh : s.workers.getD w .exited with
    | holding y =>
      simp only
      cases fate y with
      | ok => exact mutexInv_plain s _ w _ (by rw [hh]; rfl) rfl rfl rfl h
      | reject => exact mutexInv_plain s _ w _ (by rw [hh]; rfl) rfl rfl rfl h
      | die => exact mutexInv_plain s _ w _ (by rw [hh]; rfl) rfl rfl rfl h
    | idle => exact h
    | batch _ => exact h
    | merging _ _ => exact h
    | exited => exact h
    | dead => exact h
  | lock w =>
    simp only [enabled, Bool.and_eq_true] at he
    have hfree : s.owner = none := by simpa using he.1.2
    simp only [step]
    cases hh : s.workers.getD w .exited with
    | batch y =>
      simp only
      split
      · exact mutexInv_plain s _ w _ (by rw [hh]; rfl) rfl rfl rfl h
      · -- the mutex was free: nobody was merging
        obtain ⟨h1, h2⟩ := h
        have hw : w < s.workers.length := getD_ne_default_lt (by rw [hh]; simp)
        constructor
        · intro v hv
          have hvw : w = v := by simpa using hv
          subst hvw
          show isMerging ((s.workers.set w (.merging y 0)).getD w .exited) = true
          rw [getD_set_eq _ _ _ _ hw]; rfl
        · intro v hv
          show some w = some v
          rcases getD_set_cases s.workers w v (.merging y 0) with e | ⟨rfl, _⟩
          · have hv' : isMerging (s.workers.getD v .exited) = true := by
              have : isMerging ((s.workers.set w (.merging y 0)).getD v .exited) = true := hv
              rw [e] at this; exact this
            have := h2 v hv'
            rw [hfree] at this; cases this
          · rfl
    | idle => exact h
    | holding _ => exact h
    | merging _ _ => exact h
    | exited => exact h
    | dead => exact h
  | mergeEntry w =>
    simp only [step]
    cases hh : s.workers.getD w .exited with
    | merging y j =>
      obtain ⟨h1, h2⟩ := h
      have hw : w < s.workers.length := getD_ne_default_lt (by rw [hh]; simp)
      constructor
      · intro v hv
        have hv' : s.owner = some v := hv
        have := h1 v hv'
        show isMerging ((s.workers.set w (.merging y (j + 1))).getD v .exited) = true
        rcases getD_set_cases s.workers w v (.merging y (j + 1)) with e | ⟨rfl, e⟩
        · rw [e]; exact this
        · rw [e]; rfl
      · intro v hv
        show s.owner = some v
        have hv' : isMerging ((s.workers.set w (.merging y (j + 1))).getD v .exited) = true := hv
        rcases getD_set_cases s.workers w v (.merging y (j + 1)) with e | ⟨rfl, e⟩
        · rw [e] at hv'; exact h2 v hv'
        · exact h2 v (by rw [hh]; rfl)
    | idle => exact h
    | holding _ => exact h
    | batch _ => exact h
    | exited => exact h
    | dead => exact h
  | unlock w =>
    simp only [step]
    cases hh : s.workers.getD w .exited with
    | merging y j => exact mutexInv_release s _ w _ (by rw [hh]; rfl) rfl rfl rfl h
    | idle => exact h
    | holding _ => exact h
    | batch _ => exact h
    | exited => exact h
    | dead => exact h
  | workerDies w =>
    simp only [step]
    cases hh : s.workers.getD w .exited with
    | merging y j => exact mutexInv_release s _ w _ (by rw [hh]; rfl) rfl rfl rfl h
    | idle => exact mutexInv_plain s _ w _ (by rw [hh]; rfl) rfl rfl rfl h
    | holding _ => exact mutexInv_plain s _ w _ (by rw [hh]; rfl) rfl rfl rfl h
    | batch _ => exact mutexInv_plain s _ w _ (by rw [hh]; rfl) rfl rfl rfl h
    | exited => exact h
    | dead => exact h

/-! ### progress -/

theorem alive_witness {ws : List W} (h : ws.any W.alive = true) :
    ∃ w, w < ws.length ∧ (ws.getD w .exited).alive = true := by
  rw [List.any_eq_true] at h
  obtain ⟨x, hx, ha⟩ := h
  obtain ⟨i, hi, rfl⟩ := List.getElem_of_mem hx
  exact ⟨i, hi, by simpa [List.getD_eq_getElem?_getD, List.getElem?_eq_getElem hi] using ha⟩

theorem slot_mem_allSteps (s : State) (w : Nat) (hw : w < s.n) :
    Step.recv w ∈ allSteps s ∧ Step.parsed w ∈ allSteps s ∧ Step.lock w ∈ allSteps s ∧
      Step.mergeEntry w ∈ allSteps s ∧ Step.unlock w ∈ allSteps s := by
  simp only [allSteps, List.mem_append, List.mem_flatMap, List.mem_range]
  refine ⟨Or.inr ⟨w, hw, by simp⟩, Or.inr ⟨w, hw, by simp⟩, Or.inr ⟨w, hw, by simp⟩,
    Or.inr ⟨w, hw, by simp⟩, Or.inr ⟨w, hw, by simp⟩⟩

/-- a worker inside `add_results` can always go on -/
theorem merging_can_move (size : Item → Nat) (s : State) (ht : terminal s = false)
    (hlen : s.workers.length = s.n) (w : Nat) (y : Item) (j : Nat)
    (hh : s.workers.getD w .exited = .merging y j) :
    ∃ st ∈ allSteps s, enabled size s st = true := by
  have hw : w < s.n := by rw [← hlen]; exact getD_ne_default_lt (by rw [hh]; simp)
  have hh' : s.workers[w]?.getD W.exited = W.merging y j := by
    rw [← List.getD_eq_getElem?_getD]; exact hh
  by_cases hj : j < size y
  · exact ⟨.mergeEntry w, (slot_mem_allSteps s w hw).2.2.2.1, by simp [enabled, ht, hh', hj]⟩
  · exact ⟨.unlock w, (slot_mem_allSteps s w hw).2.2.2.2, by simp [enabled, ht, hh']; omega⟩

/-- an alive worker can move unless it is idle on an empty queue (a worker waiting for the mutex
lets its holder move) -/
theorem worker_can_move (size : Item → Nat) (s : State) (ht : terminal s = false)
    (hlen : s.workers.length = s.n) (hmx : MutexInv s) (halive : anyAlive s = true) (hq : s.queue ≠ []) :
    ∃ st ∈ allSteps s, enabled size s st = true := by
  obtain ⟨w, hw, ha⟩ := alive_witness halive
  rw [hlen] at hw
  cases hh : s.workers.getD w .exited with
  | idle =>
    refine ⟨.recv w, (slot_mem_allSteps s w hw).1, ?_⟩
    have hh' : s.workers[w]?.getD W.exited = W.idle := by
      rw [← List.getD_eq_getElem?_getD]; exact hh
    simp [enabled, ht, hh', hq]
  | holding y =>
    refine ⟨.parsed w, (slot_mem_allSteps s w hw).2.1, ?_⟩
    have hh' : s.workers[w]?.getD W.exited = W.holding y := by
      rw [← List.getD_eq_getElem?_getD]; exact hh
    simp [enabled, ht, hh']
  | batch y =>
    cases ho : s.owner with
    | none =>
      refine ⟨.lock w, (slot_mem_allSteps s w hw).2.2.1, ?_⟩
      have hh' : s.workers[w]?.getD W.exited = W.batch y := by
        rw [← List.getD_eq_getElem?_getD]; exact hh
      simp [enabled, ht, hh', ho]
    | some o =>
      have := hmx.1 o ho
      cases ho' : s.workers.getD o .exited with
      | merging z j => exact merging_can_move size s ht hlen o z j ho'
      | idle => rw [ho'] at this; cases this
      | holding _ => rw [ho'] at this; cases this
      | batch _ => rw [ho'] at this; cases this
      | exited => rw [ho'] at this; cases this
      | dead => rw [ho'] at this; cases this
  | merging y j => exact merging_can_move size s ht hlen w y j hh
  | exited => rw [hh] at ha; simp [W.alive] at ha
  | dead => rw [hh] at ha; simp [W.alive] at ha

theorem mem_allSteps_main (s : State) : Step.main ∈ allSteps s := by simp [allSteps]
theorem mem_allSteps_prodSend (s : State) : Step.prodSend ∈ allSteps s := by simp [allSteps]
theorem mem_allSteps_prodExit (s : State) : Step.prodExit ∈ allSteps s := by simp [allSteps]

theorem n_pos_of_alive (s : State) (hlen : s.workers.length = s.n) (ha : anyAlive s = true) : 1 ≤ s.n := by
  obtain ⟨w, hw, _⟩ := alive_witness ha
  omega

/-- With `main`'s receiver dropped (the repaired code) no reachable non-terminal state is stuck,
whatever the faults: some NON-FAULT step is enabled. Holds for every worker count, 0 included. -/
theorem progress (size : Item → Nat) (s : State) (hinv : StopInv s) (hmx : MutexInv s)
    (hrx : s.rxMain = false) (ht : terminal s = false) :
    ∃ st ∈ allSteps s, enabled size s st = true := by
  obtain ⟨hlen, hm⟩ := hinv
  have hra : receiversAlive s = anyAlive s := by simp [receiversAlive, anyAlive, hrx]
  -- a full queue is non-empty (when somebody is alive there is at least one worker)
  have full_ne : anyAlive s = true → ¬ s.queue.length < cap s → s.queue ≠ [] := by
    intro ha hfull he
    have := n_pos_of_alive s hlen ha
    rw [he] at hfull; simp [cap] at hfull; omega
  cases hpc : s.mainPc with
  | done c => simp [terminal, hpc] at ht
  | joinProd =>
    by_cases hp : s.prodDone = true ∨ s.prodDead = true
    · refine ⟨.main, mem_allSteps_main s, ?_⟩
      rcases hp with hp | hp <;> simp [enabled, hpc, hp]
    · have hpd : s.prodDone = false := by
        cases h : s.prodDone <;> simp [h] at hp ⊢
      have hpx : s.prodDead = false := by
        cases h : s.prodDead <;> simp [h] at hp ⊢
      cases htodo : s.todo with
      | nil =>
        exact ⟨.prodExit, mem_allSteps_prodExit s, by simp [enabled, ht, hpd, hpx, htodo]⟩
      | cons x rest =>
        by_cases hroom : s.queue.length < cap s
        · exact ⟨.prodSend, mem_allSteps_prodSend s, by simp [enabled, ht, hpd, hpx, htodo, hroom]⟩
        · by_cases ha : anyAlive s = true
          · exact worker_can_move size s ht hlen hmx ha (full_ne ha hroom)
          · exact ⟨.prodSend, mem_allSteps_prodSend s,
              by simp [enabled, ht, hpd, hpx, htodo, hra, ha]⟩
  | stops k =>
    by_cases hk : k ≥ s.n
    · exact ⟨.main, mem_allSteps_main s, by simp [enabled, hpc, hk]⟩
    · by_cases hroom : s.queue.length < cap s
      · exact ⟨.main, mem_allSteps_main s, by simp [enabled, hpc, hroom]⟩
      · by_cases ha : anyAlive s = true
        · exact worker_can_move size s ht hlen hmx ha (full_ne ha hroom)
        · exact ⟨.main, mem_allSteps_main s, by simp [enabled, hpc, hra, ha]⟩
  | joinWorkers i =>
    by_cases hi : i ≥ s.n
    · exact ⟨.main, mem_allSteps_main s, by simp [enabled, hpc, hi]⟩
    · by_cases hw : (s.workers.getD i .exited).alive = true
      · -- worker i is alive: it can move unless idle on an empty queue, which the bookkeeping excludes
        have ha : anyAlive s = true := any_alive_of_getD hw
        by_cases hq : s.queue = []
        · -- an alive worker on an empty queue: not idle for ever – the bookkeeping says all
          -- markers were consumed, i.e. every worker exited; so worker i is busy and can move
          rw [hpc] at hm
          rcases hm with hm | hm
          · rw [hm] at ha; cases ha
          · exfalso
            rw [hq] at hm
            simp only [nNones, List.count_nil, Nat.zero_add, nExited] at hm
            have hall : ∀ x ∈ s.workers, x = W.exited := by
              have : List.count W.exited s.workers = s.workers.length := by omega
              exact fun x hx => ((List.count_eq_length.mp this) x hx).symm
            have hil : i < s.workers.length := by omega
            have : s.workers.getD i .exited = .exited := by
              simp only [List.getD_eq_getElem?_getD, List.getElem?_eq_getElem hil, Option.getD_some]
              exact hall _ (List.getElem_mem hil)
            rw [this] at hw; simp [W.alive] at hw
        · exact worker_can_move size s ht hlen hmx ha hq
      · have hw' : (s.workers[i]?.getD W.exited).alive = false := by
          rw [← List.getD_eq_getElem?_getD]; simpa using hw
        exact ⟨.main, mem_allSteps_main s, by simp [enabled, hpc, hw']⟩

/-! ### every run is finite: a measure that every enabled step decreases -/

def wWeight (size : Item → Nat) : W → Nat
  | .idle => 2
  | .holding x => size x + 6
  | .batch x => size x + 5
  | .merging x j => (size x - j) + 4
  | _ => 0

def qWeight (size : Item → Nat) : Option Item → Nat
  | some x => size x + 7
  | none => 2

def mainWeight (n : Nat) : MainPc → Nat
  | .joinProd => 4 * n + 3
  | .stops k => 3 * (n - k) + n + 2
  | .joinWorkers i => (n - i) + 1
  | .done _ => 0

def mu (size : Item → Nat) (s : State) : Nat :=
  (s.todo.map fun x => size x + 8).sum + (if s.prodDone || s.prodDead then 0 else 1)
    + (s.queue.map (qWeight size)).sum
    + (s.workers.map (wWeight size)).sum + mainWeight s.n s.mainPc

theorem sum_set_weight (size : Item → Nat) (ws : List W) (w : Nat) (new : W) (hw : w < ws.length) :
    ((ws.set w new).map (wWeight size)).sum + wWeight size (ws.getD w .exited)
      = (ws.map (wWeight size)).sum + wWeight size new := by
  induction ws generalizing w with
  | nil => simp at hw
  | cons a ws ih =>
    cases w with
    | zero => simp; omega
    | succ w =>
      have := ih w (by simpa using hw)
      simp only [List.set_cons_succ, List.map_cons, List.sum_cons, List.getD_cons_succ] at this ⊢
      omega

/-- a step that only rewrites slot `w` to something lighter decreases the measure -/
theorem mu_slot (size : Item → Nat) (s s' : State) (w : Nat) (old new : W)
    (hh : s.workers.getD w .exited = old) (hne : old ≠ .exited)
    (hlt : wWeight size new < wWeight size old)
    (hws : s'.workers = s.workers.set w new) (hq : s'.queue = s.queue) (hpc : s'.mainPc = s.mainPc)
    (hn : s'.n = s.n) (htodo : s'.todo = s.todo) (hpd : s'.prodDone = s.prodDone)
    (hpx : s'.prodDead = s.prodDead) : mu size s' < mu size s := by
  have hw : w < s.workers.length := getD_ne_default_lt (by rw [hh]; exact hne)
  have := sum_set_weight size s.workers w new hw
  rw [hh] at this
  simp only [mu, hws, hq, hpc, hn, htodo, hpd, hpx]
  omega

theorem step_mu (fate : Item → Fate) (size : Item → Nat) (s : State) (st : Step)
    (he : enabled size s st = true) : mu size (step fate s st) < mu size s := by
  cases st with
  | prodSend =>
    simp only [enabled, Bool.and_eq_true, Bool.not_eq_true'] at he
    obtain ⟨⟨⟨⟨_, hpd⟩, hpx⟩, _⟩, _⟩ := he
    simp only [step]
    cases htodo : s.todo with
    | nil => simp_all
    | cons y rest =>
      simp only
      split
      · simp [mu, htodo, qWeight]; omega
      · simp [mu, htodo, hpd, hpx]
  | prodExit =>
    simp only [enabled, Bool.and_eq_true, Bool.not_eq_true'] at he
    obtain ⟨⟨⟨_, hpd⟩, hpx⟩, _⟩ := he
    simp [step, mu, hpd, hpx]
  | prodDies =>
    simp only [enabled, Bool.and_eq_true, Bool.not_eq_true'] at he
    obtain ⟨⟨_, hpd⟩, hpx⟩ := he
    simp [step, mu, hpd, hpx]
  | recv w =>
    simp only [enabled, Bool.and_eq_true, beq_iff_eq] at he
    have hidle := he.1.2
    have hw : w < s.workers.length := getD_ne_default_lt (by rw [hidle]; decide)
    simp only [step]
    cases hq : s.queue with
    | nil => simp [hq] at he
    | cons e q =>
      cases e with
      | some y =>
        have := sum_set_weight size s.workers w (.holding y) hw
        rw [hidle] at this
        simp [mu, hq, wWeight, qWeight] at this ⊢; omega
      | none =>
        have := sum_set_weight size s.workers w .exited hw
        rw [hidle] at this
        simp [mu, hq, wWeight, qWeight] at this ⊢; omega
  | parsed w =>
    simp only [step]
    cases hh : s.workers.getD w .exited with
    | holding y =>
      simp only
      cases fate y with
      | ok => exact mu_slot size s _ w _ _ hh (by simp) (by simp [wWeight]) rfl rfl rfl rfl rfl rfl rfl
      | reject => exact mu_slot size s _ w _ _ hh (by simp) (by simp [wWeight] <;> omega) rfl rfl rfl rfl rfl rfl rfl
      | die => exact mu_slot size s _ w _ _ hh (by simp) (by simp [wWeight]) rfl rfl rfl rfl rfl rfl rfl
    | idle => simp only [enabled, hh] at he; simp at he
    | batch _ => simp only [enabled, hh] at he; simp at he
    | merging _ _ => simp only [enabled, hh] at he; simp at he
    | exited => simp only [enabled, hh] at he; simp at he
    | dead => simp only [enabled, hh] at he; simp at he
  | lock w =>
    simp only [step]
    cases hh : s.workers.getD w .exited with
    | batch y =>
      simp only
      split
      · exact mu_slot size s _ w _ _ hh (by simp) (by simp [wWeight]) rfl rfl rfl rfl rfl rfl rfl
      · exact mu_slot size s _ w _ _ hh (by simp) (by simp [wWeight]) rfl rfl rfl rfl rfl rfl rfl
    | idle => simp only [enabled, hh] at he; simp at he
    | holding _ => simp only [enabled, hh] at he; simp at he
    | merging _ _ => simp only [enabled, hh] at he; simp at he
    | exited => simp only [enabled, hh] at he; simp at he
    | dead => simp only [enabled, hh] at he; simp at he
  | mergeEntry w =>
    simp only [step]
    cases hh : s.workers.getD w .exited with
    | merging y j =>
      have hj : j < size y := by
        have hh' : s.workers[w]?.getD W.exited = W.merging y j := by
          rw [← List.getD_eq_getElem?_getD]; exact hh
        have := he
        simp [enabled, hh'] at this
        exact this.2
      exact mu_slot size s _ w _ _ hh (by simp) (by simp [wWeight] <;> omega) rfl rfl rfl rfl rfl rfl rfl
    | idle => simp only [enabled, hh] at he; simp at he
    | holding _ => simp only [enabled, hh] at he; simp at he
    | batch _ => simp only [enabled, hh] at he; simp at he
    | exited => simp only [enabled, hh] at he; simp at he
    | dead => simp only [enabled, hh] at he; simp at he
  | unlock w =>
    simp only [step]
    cases hh : s.workers.getD w .exited with
    | merging y j => exact mu_slot size s _ w _ _ hh (by simp) (by simp [wWeight] <;> omega) rfl rfl rfl rfl rfl rfl rfl
    | idle => simp only [enabled, hh] at he; simp at he
    | holding _ => simp only [enabled, hh] at he; simp at he
    | batch _ => simp only [enabled, hh] at he; simp at he
    | exited => simp only [enabled, hh] at he; simp at he
    | dead => simp only [enabled, hh] at he; simp at he
  | workerDies w =>
    simp only [step]
    cases hh : s.workers.getD w .exited with
    | idle => exact mu_slot size s _ w _ _ hh (by simp) (by simp [wWeight]) rfl rfl rfl rfl rfl rfl rfl
    | holding y => exact mu_slot size s _ w _ _ hh (by simp) (by simp [wWeight]) rfl rfl rfl rfl rfl rfl rfl
    | batch y => exact mu_slot size s _ w _ _ hh (by simp) (by simp [wWeight]) rfl rfl rfl rfl rfl rfl rfl
    | merging y j => exact mu_slot size s _ w _ _ hh (by simp) (by simp [wWeight]) rfl rfl rfl rfl rfl rfl rfl
    | exited => simp only [enabled, hh] at he; simp [W.alive] at he
    | dead => simp only [enabled, hh] at he; simp [W.alive] at he
  | main =>
    simp only [step]
    cases hpc : s.mainPc with
    | joinProd =>
      simp only
      split <;> simp [mu, hpc, mainWeight] <;> omega
    | stops k =>
      simp only
      split
      · simp [mu, hpc, mainWeight]; omega
      · split
        · simp [mu, hpc, mainWeight, qWeight]; omega
        · simp [mu, hpc, mainWeight]; omega
    | joinWorkers i =>
      simp only
      split
      · simp [mu, hpc, mainWeight]
      · split <;> simp [mu, hpc, mainWeight] <;> omega
    | done c => simp [enabled, hpc] at he

theorem run_length_le_mu {fate : Item → Fate} {size : Item → Nat} {s s' : State} {tr : List Step}
    (h : Run fate size s tr s') : tr.length + mu size s' ≤ mu size s := by
  induction h with
  | nil => simp
  | cons he _ ih =>
    have := step_mu fate size _ _ he
    simp only [List.length_cons]; omega

theorem run_stopInv {fate : Item → Fate} {size : Item → Nat} {s s' : State} {tr : List Step}
    (h : Run fate size s tr s') (hi : StopInv s) : StopInv s' := by
  induction h with
  | nil => exact hi
  | cons he _ ih => exact ih (step_stopInv _ _ _ _ he hi)

theorem run_mutexInv {fate : Item → Fate} {size : Item → Nat} {s s' : State} {tr : List Step}
    (h : Run fate size s tr s') (hi : MutexInv s) : MutexInv s' := by
  induction h with
  | nil => exact hi
  | cons he _ ih => exact ih (step_mutexInv _ _ _ _ he hi)

theorem step_n (fate : Item → Fate) (s : State) (st : Step) :
    (step fate s st).n = s.n ∧ (step fate s st).rxMain = s.rxMain := by
  cases st <;> simp only [step] <;> repeat' split
  all_goals first | exact ⟨rfl, rfl⟩ | simp

theorem run_n {fate : Item → Fate} {size : Item → Nat} {s s' : State} {tr : List Step}
    (h : Run fate size s tr s') : s'.n = s.n ∧ s'.rxMain = s.rxMain := by
  induction h with
  | nil => exact ⟨rfl, rfl⟩
  | cons _ _ ih =>
    rename_i s0 st _ _ _ _
    have := step_n ‹Item → Fate› s0 st
    exact ⟨ih.1.trans this.1, ih.2.trans this.2⟩

end Grcov.Pipeline

namespace Grcov.Pipeline

/-- FIFO shape of the queue: no work item behind a stop marker -/
def qShape : List (Option Item) → Bool
  | [] => true
  | some _ :: q => qShape q
  | none :: q => q.all Option.isNone

theorem qShape_of_all_none (q : List (Option Item)) (h : q.all Option.isNone = true) : qShape q = true := by
  induction q with
  | nil => rfl
  | cons e q ih =>
    simp only [List.all_cons, Bool.and_eq_true] at h
    cases e with
    | none => exact h.2
    | some x => simp at h

theorem qShape_append_none (q : List (Option Item)) (h : qShape q = true) : qShape (q ++ [none]) = true := by
  induction q with
  | nil => rfl
  | cons e q ih =>
    cases e with
    | some x => simpa [qShape] using ih (by simpa [qShape] using h)
    | none =>
      simp only [qShape] at h
      simp [qShape, List.all_append, h]

theorem qShape_append_some (q : List (Option Item)) (x : Item) (h : nNones q = 0) :
    qShape (q ++ [some x]) = true := by
  induction q with
  | nil => rfl
  | cons e q ih =>
    cases e with
    | some y =>
      have : nNones q = 0 := by simpa [nNones] using h
      simpa [qShape] using ih this
    | none => simp [nNones] at h

theorem qShape_tail (e : Option Item) (q : List (Option Item)) (h : qShape (e :: q) = true) :
    qShape q = true := by
  cases e with
  | some x => simpa [qShape] using h
  | none => exact qShape_of_all_none q (by simpa [qShape] using h)

structure FlowInv (fate : Item → Fate) (s : State) : Prop where
  stop : StopInv s
  shape : qShape s.queue = true
  doneTodo : s.prodDone = true → s.todo = []
  past : s.mainPc = .joinProd ∨ s.prodDone = true ∨ s.mainPc = .done 1
  exitedNoSome : 0 < nExited s.workers → s.queue.all Option.isNone = true
  joined : ∀ j, (match s.mainPc with
      | .joinWorkers i => j < i
      | .done 0 => j < s.n
      | _ => False) → s.workers.getD j .idle = .exited
  lostDead : s.lost ≠ [] → ∃ j, s.workers.getD j .idle = .dead
  mergedOk : ∀ x ∈ s.merged, fate x = .ok
  rejectedRej : ∀ x ∈ s.rejected, fate x = .reject
  mutex : MutexInv s
  batchOk : ∀ w x, s.workers.getD w .exited = .batch x → fate x = .ok
  poisonDead : s.poisoned = true → ∃ j, s.workers.getD j .idle = .dead

theorem flowInv_init (fate : Item → Fate) (n : Nat) (rx : Bool) (items : List Item) :
    FlowInv fate (init n rx items) := by
  refine ⟨stopInv_init n rx items, rfl, by simp [init], Or.inl rfl, ?_, ?_, by simp [init], by simp [init],
    by simp [init], mutexInv_init n rx items, ?_, by simp [init]⟩
  · intro h; simp [init, nExited, List.count_replicate] at h
  · intro j hj; simp [init] at hj
  · intro w x h
    simp only [init, List.getD_eq_getElem?_getD] at h
    by_cases hw : w < n <;> simp [hw] at h

theorem nNones_zero_all_some (q : List (Option Item)) (h : nNones q = 0) (e) (he : e ∈ q) : e ≠ none := by
  intro hn; subst hn
  have : 0 < List.count none q := List.count_pos_iff.mpr he
  simp [nNones] at h; omega

/-- while the producer may still send, no stop marker was sent and no worker has exited -/
theorem producing_phase (fate : Item → Fate) (s : State) (h : FlowInv fate s)
    (ht : terminal s = false) (hp : s.prodDone = false) :
    nNones s.queue = 0 ∧ nExited s.workers = 0 := by
  have hpc : s.mainPc = .joinProd := by
    rcases h.past with h1 | h1 | h1
    · exact h1
    · rw [hp] at h1; cases h1
    · simp [terminal, h1] at ht
  have := h.stop.2
  rw [hpc] at this
  simp only at this
  omega

/-- a worker that is `exited` or `dead` is not the alive worker whose slot is rewritten -/
theorem keep_slot (ws : List W) (w j : Nat) (new u : W) (hold : (ws.getD w .exited).alive = true)
    (hu : u.alive = false) (hui : u ≠ .idle) (hj : ws.getD j .idle = u) :
    (ws.set w new).getD j .idle = u := by
  by_cases hwj : w = j
  · subst hwj
    exfalso
    have hw : w < ws.length := getD_ne_default_lt (alive_ne_exited hold)
    rw [List.getD_eq_getElem?_getD, List.getElem?_eq_getElem hw] at hj hold
    simp only [Option.getD_some] at hj hold
    rw [hj, hu] at hold; cases hold
  · rw [List.getD_eq_getElem?_getD, List.getElem?_set_ne hwj, ← List.getD_eq_getElem?_getD]; exact hj

/-- the worker-local steps preserve the flow invariant, given what they do to the result lists -/
theorem flowInv_slot (fate : Item → Fate) (s s' : State) (w : Nat) (new : W)
    (hold : (s.workers.getD w .exited).alive = true) (hnew : new ≠ .exited)
    (hws : s'.workers = s.workers.set w new) (hq : s'.queue = s.queue) (hpc : s'.mainPc = s.mainPc)
    (hn : s'.n = s.n) (htodo : s'.todo = s.todo) (hpd : s'.prodDone = s.prodDone)
    (hmx : MutexInv s')
    (hm : ∀ x ∈ s'.merged, fate x = .ok) (hr : ∀ x ∈ s'.rejected, fate x = .reject)
    (hl : s'.lost ≠ [] → s.lost ≠ [] ∨ new = .dead)
    (hb : ∀ x, new = .batch x → fate x = .ok)
    (hpz : s'.poisoned = true → s.poisoned = true ∨ new = .dead)
    (h : FlowInv fate s) : FlowInv fate s' := by
  have hw : w < s.workers.length := getD_ne_default_lt (alive_ne_exited hold)
  have hc := count_set_W s.workers w new .exited hw
  have hne : ¬ s.workers.getD w .exited = .exited := alive_ne_exited hold
  simp only [hne, if_false, hnew, Nat.add_zero] at hc
  refine ⟨stopInv_slot s s' w new hnew hold hws hq hpc hn h.stop, by rw [hq]; exact h.shape,
    by rw [hpd, htodo]; exact h.doneTodo, by rw [hpc, hpd]; exact h.past, ?_, ?_, ?_, hm, hr, hmx, ?_, ?_⟩
  · intro hex
    rw [hws] at hex
    simp only [nExited, hc] at hex
    rw [hq]; exact h.exitedNoSome hex
  · intro j hj
    rw [hpc, hn] at hj
    rw [hws]
    exact keep_slot _ _ _ _ _ hold rfl (by simp) (h.joined j hj)
  · intro hl'
    rcases hl hl' with hl0 | hd
    · obtain ⟨j, hj⟩ := h.lostDead hl0
      exact ⟨j, by rw [hws]; exact keep_slot _ _ _ _ _ hold rfl (by simp) hj⟩
    · subst hd
      refine ⟨w, ?_⟩
      rw [hws, List.getD_eq_getElem?_getD, List.getElem?_set_self hw]; rfl
  · intro v x hv
    rw [hws] at hv
    rcases getD_set_cases s.workers w v new with e | ⟨rfl, e⟩
    · rw [e] at hv; exact h.batchOk v x hv
    · rw [e] at hv; exact hb x hv
  · intro hp'
    rcases hpz hp' with hp0 | hd
    · obtain ⟨j, hj⟩ := h.poisonDead hp0
      exact ⟨j, by rw [hws]; exact keep_slot _ _ _ _ _ hold rfl (by simp) hj⟩
    · subst hd
      refine ⟨w, ?_⟩
      rw [hws, List.getD_eq_getElem?_getD, List.getElem?_set_self hw]; rfl

theorem mem_append_singleton {x y : Item} {l : List Item} (h : x ∈ l ++ [y]) : x ∈ l ∨ x = y := by
  simpa using h

theorem step_flowInv (fate : Item → Fate) (size : Item → Nat) (s : State) (st : Step)
    (he : enabled size s st = true) (h : FlowInv fate s) : FlowInv fate (step fate s st) := by
  have hstop' := step_stopInv fate size s st he h.stop
  have hmx' := step_mutexInv fate size s st he h.mutex
  -- steps that leave the workers alone keep `batchOk`
  cases st with
  | prodSend =>
    simp only [enabled, Bool.and_eq_true, Bool.not_eq_true'] at he
    obtain ⟨⟨⟨⟨ht, hpd⟩, hpx⟩, _⟩, _⟩ := he
    obtain ⟨hn0, he0⟩ := producing_phase fate s h ht hpd
    cases htodo : s.todo with
    | nil =>
      have : step fate s .prodSend = s := by simp [step, htodo]
      rw [this]; exact h
    | cons x rest =>
      by_cases hr : receiversAlive s = true
      · have e : step fate s .prodSend = { s with todo := rest, queue := s.queue ++ [some x] } := by
          simp [step, htodo, hr]
        rw [e] at hstop' hmx' ⊢
        refine ⟨hstop', qShape_append_some _ _ hn0, ?_, h.past, ?_, h.joined, h.lostDead, h.mergedOk,
          h.rejectedRej, hmx', h.batchOk, h.poisonDead⟩
        · intro hd; simp only at hd; rw [hpd] at hd; cases hd
        · intro hex; simp only at hex; omega
      · have e : step fate s .prodSend = { s with prodDead := true } := by
          simp [step, htodo, hr]
        rw [e] at hstop' hmx' ⊢
        exact ⟨hstop', h.shape, h.doneTodo, h.past, h.exitedNoSome, h.joined, h.lostDead, h.mergedOk,
          h.rejectedRej, hmx', h.batchOk, h.poisonDead⟩
  | prodExit =>
    simp only [enabled, Bool.and_eq_true, Bool.not_eq_true'] at he
    obtain ⟨⟨⟨_, _⟩, _⟩, hempty⟩ := he
    have e : step fate s .prodExit = { s with prodDone := true } := rfl
    rw [e] at hstop' hmx' ⊢
    refine ⟨hstop', h.shape, ?_, ?_, h.exitedNoSome, h.joined, h.lostDead, h.mergedOk, h.rejectedRej,
      hmx', h.batchOk, h.poisonDead⟩
    · intro _; simpa using hempty
    · exact Or.inr (Or.inl rfl)
  | prodDies =>
    have e : step fate s .prodDies = { s with prodDead := true } := rfl
    rw [e] at hstop' hmx' ⊢
    exact ⟨hstop', h.shape, h.doneTodo, h.past, h.exitedNoSome, h.joined, h.lostDead, h.mergedOk,
      h.rejectedRej, hmx', h.batchOk, h.poisonDead⟩
  | recv w =>
    simp only [enabled, Bool.and_eq_true, beq_iff_eq] at he
    have hidle := he.1.2
    have hw : w < s.workers.length := getD_ne_default_lt (by rw [hidle]; decide)
    have hidle' : s.workers.getD w .idle = .idle := by
      simpa [List.getD_eq_getElem?_getD, List.getElem?_eq_getElem hw] using hidle
    have keep : ∀ (v : W) (j : Nat) (u : W), u ≠ .idle → s.workers.getD j .idle = u →
        (s.workers.set w v).getD j .idle = u := by
      intro v j u hu hj
      by_cases hwj : w = j
      · subst hwj; rw [hidle'] at hj; exact absurd hj.symm hu
      · rw [getD_set_ne _ _ _ _ _ hwj]; exact hj
    have bok : ∀ (v : W), (∀ x, v ≠ .batch x) → ∀ u x, (s.workers.set w v).getD u .exited = .batch x →
        fate x = .ok := by
      intro v hv u x hu
      rcases getD_set_cases s.workers w u v with e | ⟨rfl, e⟩
      · rw [e] at hu; exact h.batchOk u x hu
      · rw [e] at hu; exact absurd hu (hv x)
    cases hq : s.queue with
    | nil => simp [hq] at he
    | cons e q =>
      cases e with
      | some y =>
        have e1 : step fate s (.recv w) = { s with queue := q, workers := s.workers.set w (.holding y) } := by
          simp [step, hq]
        rw [e1] at hstop' hmx' ⊢
        have hc := count_set_W s.workers w (.holding y) .exited hw
        rw [hidle] at hc
        simp only [reduceCtorEq, if_false, Nat.add_zero] at hc
        refine ⟨hstop', qShape_tail _ _ (hq ▸ h.shape), h.doneTodo, h.past, ?_, ?_, ?_, h.mergedOk,
          h.rejectedRej, hmx', bok _ (by simp),
          fun hp => by obtain ⟨j, hj⟩ := h.poisonDead hp; exact ⟨j, keep _ j .dead (by decide) hj⟩⟩
        · intro hex
          simp only [nExited, hc] at hex
          have := h.exitedNoSome hex
          rw [hq] at this; simp at this
        · intro j hj; exact keep _ j .exited (by decide) (h.joined j hj)
        · intro hl; obtain ⟨j, hj⟩ := h.lostDead hl; exact ⟨j, keep _ j .dead (by decide) hj⟩
      | none =>
        have e1 : step fate s (.recv w) = { s with queue := q, workers := s.workers.set w .exited } := by
          simp [step, hq]
        rw [e1] at hstop' hmx' ⊢
        refine ⟨hstop', qShape_tail _ _ (hq ▸ h.shape), h.doneTodo, h.past, ?_, ?_, ?_, h.mergedOk,
          h.rejectedRej, hmx', bok _ (by simp),
          fun hp => by obtain ⟨j, hj⟩ := h.poisonDead hp; exact ⟨j, keep _ j .dead (by decide) hj⟩⟩
        · intro _
          have := h.shape; rw [hq] at this; simpa [qShape] using this
        · intro j hj
          by_cases hwj : w = j
          · subst hwj; exact getD_set_eq _ _ _ _ hw
          · rw [getD_set_ne _ _ _ _ _ hwj]; exact h.joined j hj
        · intro hl; obtain ⟨j, hj⟩ := h.lostDead hl; exact ⟨j, keep _ j .dead (by decide) hj⟩
  | parsed w =>
    cases hh : s.workers.getD w .exited with
    | holding y =>
      have hh2 : s.workers[w]?.getD W.exited = W.holding y := by
        rw [← List.getD_eq_getElem?_getD]; exact hh
      have hold : (s.workers.getD w .exited).alive = true := by rw [hh]; rfl
      cases hf : fate y with
      | ok =>
        have e1 : step fate s (.parsed w) = { s with workers := s.workers.set w (.batch y) } := by
          simp [step, hh2, hf]
        rw [e1] at hmx' ⊢
        exact flowInv_slot fate s _ w _ hold (by simp) rfl rfl rfl rfl rfl rfl hmx' h.mergedOk h.rejectedRej
          (fun hl => Or.inl hl) (fun x hx => by cases hx; exact hf) (fun hp => Or.inl hp) h
      | reject =>
        have e1 : step fate s (.parsed w) = { s with workers := s.workers.set w .idle, rejected := s.rejected ++ [y] } := by
          simp [step, hh2, hf]
        rw [e1] at hmx' ⊢
        refine flowInv_slot fate s _ w _ hold (by simp) rfl rfl rfl rfl rfl rfl hmx' h.mergedOk ?_
          (fun hl => Or.inl hl) (fun x hx => by cases hx) (fun hp => Or.inl hp) h
        intro x hx
        rcases mem_append_singleton hx with hx | hx
        · exact h.rejectedRej x hx
        · subst hx; exact hf
      | die =>
        have e1 : step fate s (.parsed w) = { s with workers := s.workers.set w .dead, lost := s.lost ++ [y] } := by
          simp [step, hh2, hf]
        rw [e1] at hmx' ⊢
        exact flowInv_slot fate s _ w _ hold (by simp) rfl rfl rfl rfl rfl rfl hmx' h.mergedOk h.rejectedRej
          (fun _ => Or.inr rfl) (fun x hx => by cases hx) (fun hp => Or.inl hp) h
    | idle => simp only [enabled, hh] at he; simp at he
    | batch _ => simp only [enabled, hh] at he; simp at he
    | merging _ _ => simp only [enabled, hh] at he; simp at he
    | exited => simp only [enabled, hh] at he; simp at he
    | dead => simp only [enabled, hh] at he; simp at he
  | lock w =>
    cases hh : s.workers.getD w .exited with
    | batch y =>
      have hh2 : s.workers[w]?.getD W.exited = W.batch y := by
        rw [← List.getD_eq_getElem?_getD]; exact hh
      have hold : (s.workers.getD w .exited).alive = true := by rw [hh]; rfl
      have hy : fate y = .ok := h.batchOk w y hh
      cases hp : s.poisoned with
      | true =>
        have e1 : step fate s (.lock w) = { s with workers := s.workers.set w .dead, lost := s.lost ++ [y] } := by
          simp [step, hh2, hp]
        rw [e1] at hmx' ⊢
        exact flowInv_slot fate s _ w _ hold (by simp) rfl rfl rfl rfl rfl rfl hmx' h.mergedOk h.rejectedRej
          (fun _ => Or.inr rfl) (fun x hx => by cases hx) (fun hp => Or.inl hp) h
      | false =>
        have e1 : step fate s (.lock w) = { s with workers := s.workers.set w (.merging y 0), owner := some w, merged := s.merged ++ [y] } := by
          simp [step, hh2, hp]
        rw [e1] at hmx' ⊢
        refine flowInv_slot fate s _ w _ hold (by simp) rfl rfl rfl rfl rfl rfl hmx' ?_ h.rejectedRej
          (fun hl => Or.inl hl) (fun x hx => by cases hx) (fun hp => Or.inl hp) h
        intro x hx
        rcases mem_append_singleton hx with hx | hx
        · exact h.mergedOk x hx
        · subst hx; exact hy
    | idle => simp only [enabled, hh] at he; simp at he
    | holding _ => simp only [enabled, hh] at he; simp at he
    | merging _ _ => simp only [enabled, hh] at he; simp at he
    | exited => simp only [enabled, hh] at he; simp at he
    | dead => simp only [enabled, hh] at he; simp at he
  | mergeEntry w =>
    cases hh : s.workers.getD w .exited with
    | merging y j =>
      have hh2 : s.workers[w]?.getD W.exited = W.merging y j := by
        rw [← List.getD_eq_getElem?_getD]; exact hh
      have hold : (s.workers.getD w .exited).alive = true := by rw [hh]; rfl
      have e1 : step fate s (.mergeEntry w) = { s with workers := s.workers.set w (.merging y (j + 1)), log := s.log ++ [(y, j)] } := by
        simp [step, hh2]
      rw [e1] at hmx' ⊢
      exact flowInv_slot fate s _ w _ hold (by simp) rfl rfl rfl rfl rfl rfl hmx' h.mergedOk h.rejectedRej
        (fun hl => Or.inl hl) (fun x hx => by cases hx) (fun hp => Or.inl hp) h
    | idle => simp only [enabled, hh] at he; simp at he
    | holding _ => simp only [enabled, hh] at he; simp at he
    | batch _ => simp only [enabled, hh] at he; simp at he
    | exited => simp only [enabled, hh] at he; simp at he
    | dead => simp only [enabled, hh] at he; simp at he
  | unlock w =>
    cases hh : s.workers.getD w .exited with
    | merging y j =>
      have hh2 : s.workers[w]?.getD W.exited = W.merging y j := by
        rw [← List.getD_eq_getElem?_getD]; exact hh
      have hold : (s.workers.getD w .exited).alive = true := by rw [hh]; rfl
      have e1 : step fate s (.unlock w) = { s with workers := s.workers.set w .idle, owner := none } := by
        simp [step, hh2]
      rw [e1] at hmx' ⊢
      exact flowInv_slot fate s _ w _ hold (by simp) rfl rfl rfl rfl rfl rfl hmx' h.mergedOk h.rejectedRej
        (fun hl => Or.inl hl) (fun x hx => by cases hx) (fun hp => Or.inl hp) h
    | idle => simp only [enabled, hh] at he; simp at he
    | holding _ => simp only [enabled, hh] at he; simp at he
    | batch _ => simp only [enabled, hh] at he; simp at he
    | exited => simp only [enabled, hh] at he; simp at he
    | dead => simp only [enabled, hh] at he; simp at he
  | workerDies w =>
    cases hh : s.workers.getD w .exited with
    | idle =>
      have hh2 : s.workers[w]?.getD W.exited = W.idle := by
        rw [← List.getD_eq_getElem?_getD]; exact hh
      have hold : (s.workers.getD w .exited).alive = true := by rw [hh]; rfl
      have e1 : step fate s (.workerDies w) = { s with workers := s.workers.set w .dead } := by
        simp [step, hh2]
      rw [e1] at hmx' ⊢
      exact flowInv_slot fate s _ w _ hold (by simp) rfl rfl rfl rfl rfl rfl hmx' h.mergedOk h.rejectedRej
        (fun hl => Or.inl hl) (fun x hx => by cases hx) (fun hp => Or.inl hp) h
    | holding y =>
      have hh2 : s.workers[w]?.getD W.exited = W.holding y := by
        rw [← List.getD_eq_getElem?_getD]; exact hh
      have hold : (s.workers.getD w .exited).alive = true := by rw [hh]; rfl
      have e1 : step fate s (.workerDies w) = { s with workers := s.workers.set w .dead, lost := s.lost ++ [y] } := by
        simp [step, hh2]
      rw [e1] at hmx' ⊢
      exact flowInv_slot fate s _ w _ hold (by simp) rfl rfl rfl rfl rfl rfl hmx' h.mergedOk h.rejectedRej
        (fun _ => Or.inr rfl) (fun x hx => by cases hx) (fun hp => Or.inl hp) h
    | batch y =>
      have hh2 : s.workers[w]?.getD W.exited = W.batch y := by
        rw [← List.getD_eq_getElem?_getD]; exact hh
      have hold : (s.workers.getD w .exited).alive = true := by rw [hh]; rfl
      have e1 : step fate s (.workerDies w) = { s with workers := s.workers.set w .dead, lost := s.lost ++ [y] } := by
        simp [step, hh2]
      rw [e1] at hmx' ⊢
      exact flowInv_slot fate s _ w _ hold (by simp) rfl rfl rfl rfl rfl rfl hmx' h.mergedOk h.rejectedRej
        (fun _ => Or.inr rfl) (fun x hx => by cases hx) (fun hp => Or.inl hp) h
    | merging y j =>
      have hh2 : s.workers[w]?.getD W.exited = W.merging y j := by
        rw [← List.getD_eq_getElem?_getD]; exact hh
      have hold : (s.workers.getD w .exited).alive = true := by rw [hh]; rfl
      have e1 : step fate s (.workerDies w) = { s with workers := s.workers.set w .dead, owner := none, poisoned := true } := by
        simp [step, hh2]
      rw [e1] at hmx' ⊢
      exact flowInv_slot fate s _ w _ hold (by simp) rfl rfl rfl rfl rfl rfl hmx' h.mergedOk h.rejectedRej
        (fun hl => Or.inl hl) (fun x hx => by cases hx) (fun _ => Or.inr rfl) h
    | exited => simp only [enabled, hh] at he; simp [W.alive] at he
    | dead => simp only [enabled, hh] at he; simp [W.alive] at he
  | main =>
    cases hpc : s.mainPc with
    | joinProd =>
      simp only [enabled, hpc, Bool.or_eq_true] at he
      by_cases hpx : s.prodDead = true
      · have e1 : step fate s .main = { s with mainPc := .done 1 } := by simp [step, hpc, hpx]
        rw [e1] at hstop' hmx' ⊢
        refine ⟨hstop', h.shape, h.doneTodo, Or.inr (Or.inr rfl), h.exitedNoSome, ?_, h.lostDead,
          h.mergedOk, h.rejectedRej, hmx', h.batchOk, h.poisonDead⟩
        intro j hj; simp at hj
      · have hpd : s.prodDone = true := by rcases he with he | he; exact he; exact absurd he hpx
        have e1 : step fate s .main = { s with mainPc := .stops 0 } := by simp [step, hpc, hpx]
        rw [e1] at hstop' hmx' ⊢
        refine ⟨hstop', h.shape, h.doneTodo, Or.inr (Or.inl hpd), h.exitedNoSome, ?_, h.lostDead,
          h.mergedOk, h.rejectedRej, hmx', h.batchOk, h.poisonDead⟩
        intro j hj; simp at hj
    | stops k =>
      have hpast : s.prodDone = true ∨ s.mainPc = .done 1 := by
        rcases h.past with h1 | h1
        · rw [hpc] at h1; cases h1
        · exact h1
      have hpast' : ∀ pc, pc = MainPc.joinProd ∨ s.prodDone = true ∨ pc = .done 1 := by
        intro pc; rcases hpast with h1 | h1
        · exact Or.inr (Or.inl h1)
        · rw [hpc] at h1; cases h1
      by_cases hk : k ≥ s.n
      · have e1 : step fate s .main = { s with mainPc := .joinWorkers 0 } := by simp [step, hpc, hk]
        rw [e1] at hstop' hmx' ⊢
        refine ⟨hstop', h.shape, h.doneTodo, hpast' _, h.exitedNoSome, ?_, h.lostDead, h.mergedOk,
          h.rejectedRej, hmx', h.batchOk, h.poisonDead⟩
        intro j hj; simp at hj
      · by_cases hr : receiversAlive s = true
        · have e1 : step fate s .main = { s with mainPc := .stops (k + 1), queue := s.queue ++ [none] } := by
            simp [step, hpc, hk, hr]
          rw [e1] at hstop' hmx' ⊢
          refine ⟨hstop', qShape_append_none _ h.shape, h.doneTodo, hpast' _, ?_, ?_, h.lostDead,
            h.mergedOk, h.rejectedRej, hmx', h.batchOk, h.poisonDead⟩
          · intro hex; simp only [List.all_append, h.exitedNoSome hex]; rfl
          · intro j hj; simp at hj
        · have e1 : step fate s .main = { s with mainPc := .joinWorkers 0 } := by simp [step, hpc, hk, hr]
          rw [e1] at hstop' hmx' ⊢
          refine ⟨hstop', h.shape, h.doneTodo, hpast' _, h.exitedNoSome, ?_, h.lostDead, h.mergedOk,
            h.rejectedRej, hmx', h.batchOk, h.poisonDead⟩
          intro j hj; simp at hj
    | joinWorkers i =>
      have hpast' : ∀ pc, pc = MainPc.joinProd ∨ s.prodDone = true ∨ pc = .done 1 := by
        intro pc; rcases h.past with h1 | h1 | h1
        · rw [hpc] at h1; cases h1
        · exact Or.inr (Or.inl h1)
        · rw [hpc] at h1; cases h1
      have hj0 : ∀ j, j < i → s.workers.getD j .idle = .exited := by
        intro j hj; have := h.joined j; rw [hpc] at this; exact this hj
      by_cases hi : i ≥ s.n
      · have e1 : step fate s .main = { s with mainPc := .done 0 } := by simp [step, hpc, hi]
        rw [e1] at hstop' hmx' ⊢
        refine ⟨hstop', h.shape, h.doneTodo, hpast' _, h.exitedNoSome, ?_, h.lostDead, h.mergedOk,
          h.rejectedRej, hmx', h.batchOk, h.poisonDead⟩
        intro j hj; simp only at hj; exact hj0 j (by omega)
      · simp only [enabled, hpc, Bool.or_eq_true, decide_eq_true_eq] at he
        have hna : (s.workers.getD i .exited).alive = false := by
          rcases he with he | he
          · exact absurd he hi
          · simpa using he
        have hil : i < s.workers.length := by rw [h.stop.1]; omega
        cases hwi : s.workers.getD i .exited with
        | dead =>
          have hwi2 : s.workers[i]?.getD W.exited = W.dead := by
            rw [← List.getD_eq_getElem?_getD]; exact hwi
          have e1 : step fate s .main = { s with mainPc := .done 1 } := by simp [step, hpc, hi, hwi2]
          rw [e1] at hstop' hmx' ⊢
          refine ⟨hstop', h.shape, h.doneTodo, Or.inr (Or.inr rfl), h.exitedNoSome, ?_, h.lostDead,
            h.mergedOk, h.rejectedRej, hmx', h.batchOk, h.poisonDead⟩
          intro j hj; simp at hj
        | exited =>
          have hwi2 : s.workers[i]?.getD W.exited = W.exited := by
            rw [← List.getD_eq_getElem?_getD]; exact hwi
          have e1 : step fate s .main = { s with mainPc := .joinWorkers (i + 1) } := by simp [step, hpc, hi, hwi2]
          rw [e1] at hstop' hmx' ⊢
          refine ⟨hstop', h.shape, h.doneTodo, hpast' _, h.exitedNoSome, ?_, h.lostDead, h.mergedOk,
            h.rejectedRej, hmx', h.batchOk, h.poisonDead⟩
          intro j hj; simp only at hj
          by_cases hji : j = i
          · subst hji
            simpa [List.getD_eq_getElem?_getD, List.getElem?_eq_getElem hil] using hwi
          · exact hj0 j (by omega)
        | idle => rw [hwi] at hna; simp [W.alive] at hna
        | holding y => rw [hwi] at hna; simp [W.alive] at hna
        | batch y => rw [hwi] at hna; simp [W.alive] at hna
        | merging y j => rw [hwi] at hna; simp [W.alive] at hna
    | done c => simp [enabled, hpc] at he

theorem run_flowInv {fate : Item → Fate} {size : Item → Nat} {s s' : State} {tr : List Step}
    (h : Run fate size s tr s') (hi : FlowInv fate s) : FlowInv fate s' := by
  induction h with
  | nil => exact hi
  | cons he _ ih => exact ih (step_flowInv fate _ _ _ he hi)

theorem held_all_exited (ws : List W) (h : ∀ w ∈ ws, w = W.exited) : held ws = [] := by
  induction ws with
  | nil => rfl
  | cons a ws ih =>
    have ha := h a (by simp)
    subst ha
    simpa [held] using ih fun w hw => h w (List.mem_cons_of_mem _ hw)

/-- at `done 0` everything that was an input has been merged or rejected, every worker has
returned (so none is inside `add_results`) -/
theorem done0_all_accounted (fate : Item → Fate) (s : State) (h : FlowInv fate s) (hn : 1 ≤ s.n)
    (hd : s.mainPc = .done 0) :
    s.todo = [] ∧ queueItems s = [] ∧ held s.workers = [] ∧ s.lost = [] ∧ s.owner = none := by
  have hlen := h.stop.1
  have hall : ∀ w ∈ s.workers, w = W.exited := by
    intro w hw
    obtain ⟨j, hj, rfl⟩ := List.getElem_of_mem hw
    have := h.joined j (by rw [hd]; simp only; omega)
    simpa [List.getD_eq_getElem?_getD, List.getElem?_eq_getElem hj] using this
  have hex : 0 < nExited s.workers := by
    have : List.count W.exited s.workers = s.workers.length := List.count_eq_length.mpr fun w hw => (hall w hw).symm
    simp only [nExited, this, hlen]; omega
  have hq := h.exitedNoSome hex
  have hpd : s.prodDone = true := by
    rcases h.past with h1 | h1 | h1
    · rw [hd] at h1; cases h1
    · exact h1
    · rw [hd] at h1; cases h1
  have hgetD : ∀ j, s.workers.getD j .exited = .exited := by
    intro j
    by_cases hjl : j < s.workers.length
    · rw [List.getD_eq_getElem?_getD, List.getElem?_eq_getElem hjl]; exact hall _ (List.getElem_mem hjl)
    · rw [List.getD_eq_getElem?_getD, List.getElem?_eq_none (Nat.le_of_not_lt hjl)]; rfl
  refine ⟨h.doneTodo hpd, ?_, held_all_exited _ hall, ?_, ?_⟩
  · simp only [queueItems]
    rw [List.filterMap_eq_nil_iff]
    intro e he
    have := (List.all_eq_true.mp hq) e he
    cases e <;> simp_all
  · by_cases hl : s.lost = []
    · exact hl
    · obtain ⟨j, hj⟩ := h.lostDead hl
      by_cases hjl : j < s.workers.length
      · have := hall _ (List.getElem_mem hjl)
        rw [List.getD_eq_getElem?_getD, List.getElem?_eq_getElem hjl] at hj
        simp only [Option.getD_some] at hj
        rw [this] at hj; cases hj
      · rw [List.getD_eq_getElem?_getD, List.getElem?_eq_none (Nat.le_of_not_lt hjl)] at hj
        simp at hj
  · cases ho : s.owner with
    | none => rfl
    | some o =>
      have := h.mutex.1 o ho
      rw [hgetD o] at this; cases this

/-! ### refinement: the writes to the result map are whole batches in lock-acquisition order -/

/-- the writes one batch consists of -/
def entriesOf (size : Item → Nat) (x : Item) : List (Item × Nat) :=
  (List.range (size x)).map fun j => (x, j)

/-- As long as no worker died inside `add_results`: when the mutex is free the write log is the
concatenation of the complete batches of `merged` (the order of the lock acquisitions); when worker
`w` holds it, the log is that for all but the last item of `merged`, followed by the first `j`
writes of the last one, which is the one `w` is merging. -/
def LogInv (size : Item → Nat) (s : State) : Prop :=
  s.poisoned = false →
    match s.owner with
    | none => s.log = s.merged.flatMap (entriesOf size)
    | some w => ∃ pre x j, s.workers.getD w .exited = .merging x j ∧ j ≤ size x ∧
        s.merged = pre ++ [x] ∧
        s.log = pre.flatMap (entriesOf size) ++ (List.range j).map fun i => (x, i)

theorem logInv_init (size : Item → Nat) (n : Nat) (rx : Bool) (items : List Item) :
    LogInv size (init n rx items) := by
  intro _; simp [init]

/-- a step on a worker that is not inside `add_results` and that leaves the map alone -/
theorem logInv_other (size : Item → Nat) (s s' : State) (w : Nat) (new : W)
    (hold : isMerging (s.workers.getD w .exited) = false)
    (hws : s'.workers = s.workers.set w new) (ho : s'.owner = s.owner) (hp : s'.poisoned = s.poisoned)
    (hm : s'.merged = s.merged) (hl : s'.log = s.log) (hmx : MutexInv s) (h : LogInv size s) :
    LogInv size s' := by
  intro hp'
  rw [hp] at hp'
  have := h hp'
  rw [ho, hm, hl]
  cases hown : s.owner with
  | none => rw [hown] at this; exact this
  | some o =>
    rw [hown] at this
    obtain ⟨pre, x, j, h1, h2, h3, h4⟩ := this
    refine ⟨pre, x, j, ?_, h2, h3, h4⟩
    rw [hws]
    have how : w ≠ o := by
      intro e; subst e; rw [h1] at hold; cases hold
    rw [getD_set_ne _ _ _ _ _ how]; exact h1

theorem step_logInv (fate : Item → Fate) (size : Item → Nat) (s : State) (st : Step)
    (he : enabled size s st = true) (hmx : MutexInv s) (h : LogInv size s) :
    LogInv size (step fate s st) := by
  cases st with
  | prodSend =>
    simp only [step]
    split
    · exact h
    · split <;> exact h
  | prodExit => exact h
  | prodDies => exact h
  | main =>
    simp only [step]
    split
    · split <;> exact h
    · split
      · exact h
      · split <;> exact h
    · split
      · exact h
      · split <;> exact h
    · exact h
  | recv w =>
    simp only [enabled, Bool.and_eq_true, beq_iff_eq] at he
    have hidle := he.1.2
    simp only [step]
    split
    · exact h
    · exact logInv_other size s _ w _ (by rw [hidle]; rfl) rfl rfl rfl rfl rfl hmx h
    · exact logInv_other size s _ w _ (by rw [hidle]; rfl) rfl rfl rfl rfl rfl hmx h
  | parsed w =>
    simp only [step]
    cases hh : s.workers.getD w .exited with
    | holding y =>
      simp only
      cases fate y with
      | ok => exact logInv_other size s _ w _ (by rw [hh]; rfl) rfl rfl rfl rfl rfl hmx h
      | reject => exact logInv_other size s _ w _ (by rw [hh]; rfl) rfl rfl rfl rfl rfl hmx h
      | die => exact logInv_other size s _ w _ (by rw [hh]; rfl) rfl rfl rfl rfl rfl hmx h
    | idle => exact h
    | batch _ => exact h
    | merging _ _ => exact h
    | exited => exact h
    | dead => exact h
  | lock w =>
    simp only [enabled, Bool.and_eq_true] at he
    have hfree : s.owner = none := by simpa using he.1.2
    simp only [step]
    cases hh : s.workers.getD w .exited with
    | batch y =>
      simp only
      split
      · exact logInv_other size s _ w _ (by rw [hh]; rfl) rfl rfl rfl rfl rfl hmx h
      · intro hp'
        have hp0 : s.poisoned = false := hp'
        have := h hp0
        rw [hfree] at this
        have hw : w < s.workers.length := getD_ne_default_lt (by rw [hh]; simp)
        refine ⟨s.merged, y, 0, ?_, Nat.zero_le _, rfl, ?_⟩
        · show (s.workers.set w (.merging y 0)).getD w .exited = .merging y 0
          exact getD_set_eq _ _ _ _ hw
        · show s.log = _
          simpa using this
    | idle => exact h
    | holding _ => exact h
    | merging _ _ => exact h
    | exited => exact h
    | dead => exact h
  | mergeEntry w =>
    simp only [step]
    cases hh : s.workers.getD w .exited with
    | merging y j =>
      have hw : w < s.workers.length := getD_ne_default_lt (by rw [hh]; simp)
      have hj : j < size y := by
        have hh' : s.workers[w]?.getD W.exited = W.merging y j := by
          rw [← List.getD_eq_getElem?_getD]; exact hh
        have := he
        simp [enabled, hh'] at this
        exact this.2
      have how : s.owner = some w := hmx.2 w (by rw [hh]; rfl)
      intro hp'
      have hp0 : s.poisoned = false := hp'
      have := h hp0
      rw [how] at this
      obtain ⟨pre, x, j', h1, h2, h3, h4⟩ := this
      rw [hh] at h1
      cases h1
      show match s.owner with | none => _ | some w => _
      rw [how]
      refine ⟨pre, y, j + 1, ?_, by omega, h3, ?_⟩
      · show (s.workers.set w (.merging y (j + 1))).getD w .exited = _
        exact getD_set_eq _ _ _ _ hw
      · show s.log ++ [(y, j)] = _
        rw [h4, List.range_succ, List.map_append, List.append_assoc]; rfl
    | idle => exact h
    | holding _ => exact h
    | batch _ => exact h
    | exited => exact h
    | dead => exact h
  | unlock w =>
    simp only [step]
    cases hh : s.workers.getD w .exited with
    | merging y j =>
      have hj : size y ≤ j := by
        have hh' : s.workers[w]?.getD W.exited = W.merging y j := by
          rw [← List.getD_eq_getElem?_getD]; exact hh
        have := he
        simp [enabled, hh'] at this
        exact this.2
      have how : s.owner = some w := hmx.2 w (by rw [hh]; rfl)
      intro hp'
      have hp0 : s.poisoned = false := hp'
      have := h hp0
      rw [how] at this
      obtain ⟨pre, x, j', h1, h2, h3, h4⟩ := this
      rw [hh] at h1
      cases h1
      have hje : j = size y := by omega
      show s.log = s.merged.flatMap (entriesOf size)
      rw [h4, h3, hje, List.flatMap_append]
      simp [entriesOf]
    | idle => exact h
    | holding _ => exact h
    | batch _ => exact h
    | exited => exact h
    | dead => exact h
  | workerDies w =>
    simp only [step]
    cases hh : s.workers.getD w .exited with
    | merging y j => intro hp'; cases hp'
    | idle => exact logInv_other size s _ w _ (by rw [hh]; rfl) rfl rfl rfl rfl rfl hmx h
    | holding _ => exact logInv_other size s _ w _ (by rw [hh]; rfl) rfl rfl rfl rfl rfl hmx h
    | batch _ => exact logInv_other size s _ w _ (by rw [hh]; rfl) rfl rfl rfl rfl rfl hmx h
    | exited => exact h
    | dead => exact h

theorem run_logInv {fate : Item → Fate} {size : Item → Nat} {s s' : State} {tr : List Step}
    (h : Run fate size s tr s') (hm : MutexInv s) (hi : LogInv size s) : LogInv size s' := by
  induction h with
  | nil => exact hi
  | cons he _ ih => exact ih (step_mutexInv _ _ _ _ he hm) (step_logInv _ _ _ _ he hm hi)

theorem filterMap_range'_getElem? {α : Type} (l pre : List α) :
    (List.range' pre.length l.length).filterMap (fun j => (pre ++ l)[j]?) = l := by
  induction l generalizing pre with
  | nil => simp
  | cons a l ih =>
    have h1 : (pre ++ a :: l)[pre.length]? = some a := by simp
    have h2 := ih (pre ++ [a])
    simp only [List.length_append, List.length_cons, List.length_nil, List.append_assoc,
      List.singleton_append, Nat.zero_add] at h2
    simp only [List.length_cons, List.range'_succ, List.filterMap_cons, h1]
    exact congrArg _ h2

/-- reading a list back through its indices -/
theorem filterMap_range_getElem? {α : Type} (l : List α) :
    (List.range l.length).filterMap (fun j => l[j]?) = l := by
  have := filterMap_range'_getElem? l []
  simpa [List.range_eq_range'] using this

end Grcov.Pipeline
