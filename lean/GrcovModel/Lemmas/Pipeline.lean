/-
Invariants of the pipeline transition system (GrcovModel/Pipeline.lean).
-/
import GrcovModel.Pipeline
namespace Grcov.Pipeline

/-- contribution of one worker slot to the multiset of held items -/
def cntW (w : W) (x : Item) : Nat :=
  match w with
  | .holding y => if y = x then 1 else 0
  | _ => 0

theorem held_cons (w : W) (ws : List W) (x : Item) :
    (held (w :: ws)).count x = cntW w x + (held ws).count x := by
  cases w <;> simp [held, cntW, List.count_cons]
  rename_i y
  by_cases h : y = x <;> simp [h] <;> omega

/-- replacing slot `w` exchanges its contribution -/
theorem held_set (ws : List W) (w : Nat) (new : W) (x : Item) (hw : w < ws.length) :
    (held (ws.set w new)).count x + cntW (ws.getD w .exited) x = (held ws).count x + cntW new x := by
  induction ws generalizing w with
  | nil => simp at hw
  | cons a ws ih =>
    cases w with
    | zero => simp [held_cons]; omega
    | succ w =>
      have := ih w (by simpa using hw)
      simp only [List.set_cons_succ, held_cons, List.getD_cons_succ] at this ⊢
      omega

theorem getD_ne_default_lt {ws : List W} {w : Nat} (h : ws.getD w .exited ≠ .exited) :
    w < ws.length := by
  by_cases hw : w < ws.length
  · exact hw
  · exfalso; apply h
    simp [List.getD_eq_getElem?_getD, List.getElem?_eq_none (Nat.le_of_not_lt hw)]

def cnt (s : State) (x : Item) : Nat := (everywhere s).count x

theorem cnt_eq (s : State) (x : Item) :
    cnt s x = s.todo.count x + (queueItems s).count x + (held s.workers).count x
      + s.merged.count x + s.rejected.count x + s.lost.count x := by
  simp only [cnt, everywhere, List.count_append]

/-- one enabled step never creates, duplicates or destroys an item -/
theorem step_cnt (fate : Item → Fate) (s : State) (st : Step) (he : enabled s st = true) (x : Item) :
    cnt (step fate s st) x = cnt s x := by
  rw [cnt_eq, cnt_eq]
  cases st with
  | prodSend =>
    simp only [step]
    cases htodo : s.todo with
    | nil => simp [htodo]
    | cons y rest =>
      simp only
      split
      · simp [queueItems, List.filterMap_append, List.count_append, List.count_cons]
        omega
      · simp [htodo, queueItems]
  | prodExit => simp [step, queueItems]
  | recv w =>
    simp only [enabled, Bool.and_eq_true, beq_iff_eq] at he
    have hidle := he.1.2
    have hw : w < s.workers.length := getD_ne_default_lt (by rw [hidle]; decide)
    simp only [step]
    cases hq : s.queue with
    | nil => simp [hq]
    | cons h q =>
      cases h with
      | some y =>
        have := held_set s.workers w (.holding y) x hw
        rw [hidle] at this
        simp [queueItems, hq, List.count_cons, cntW] at this ⊢
        omega
      | none =>
        have := held_set s.workers w .exited x hw
        rw [hidle] at this
        simp [queueItems, hq, cntW] at this ⊢
        omega
  | finish w =>
    simp only [step]
    cases hh : s.workers.getD w .exited with
    | holding y =>
      have hw : w < s.workers.length := getD_ne_default_lt (by rw [hh]; intro h; cases h)
      simp only
      cases fate y with
      | ok =>
        have := held_set s.workers w .idle x hw
        rw [hh] at this
        simp [queueItems, List.count_append, List.count_cons, cntW] at this ⊢
        omega
      | reject =>
        have := held_set s.workers w .idle x hw
        rw [hh] at this
        simp [queueItems, List.count_append, List.count_cons, cntW] at this ⊢
        omega
      | die =>
        have := held_set s.workers w .dead x hw
        rw [hh] at this
        simp [queueItems, List.count_append, List.count_cons, cntW] at this ⊢
        omega
    | idle => simp
    | exited => simp
    | dead => simp
  | main =>
    simp only [step]
    split
    · split <;> simp [queueItems]
    · split
      · simp [queueItems]
      · split <;> simp [queueItems, List.filterMap_append]
    · split
      · simp [queueItems]
      · split <;> simp [queueItems]
    · rfl

theorem run_cnt {fate : Item → Fate} {s s' : State} {tr : List Step} (h : Run fate s tr s')
    (x : Item) : cnt s' x = cnt s x := by
  induction h with
  | nil => rfl
  | cons he _ ih => rw [ih, step_cnt _ _ _ he]

theorem held_replicate_idle (n : Nat) : held (List.replicate n W.idle) = [] := by
  induction n with
  | zero => rfl
  | succ n ih => simp [List.replicate_succ, held] at ih ⊢

theorem cnt_init (n : Nat) (rx : Bool) (items : List Item) (x : Item) :
    cnt (init n rx items) x = items.count x := by
  simp [cnt, everywhere, init, queueItems, held_replicate_idle]

end Grcov.Pipeline

namespace Grcov.Pipeline

/-! ### counting stop markers (needed for progress) -/

def nExited (ws : List W) : Nat := ws.count .exited
def nNones (q : List (Option Item)) : Nat := q.count none
def anyAlive (s : State) : Bool := s.workers.any W.alive

theorem count_set_W (ws : List W) (w : Nat) (new v : W) (hw : w < ws.length) :
    (ws.set w new).count v + (if ws.getD w .exited = v then 1 else 0)
      = ws.count v + (if new = v then 1 else 0) := by
  induction ws generalizing w with
  | nil => simp at hw
  | cons a ws ih =>
    cases w with
    | zero =>
      simp only [List.set_cons_zero, List.count_cons, List.getD_cons_zero, beq_iff_eq]
      split <;> split <;> omega
    | succ w =>
      have := ih w (by simpa using hw)
      simp only [List.set_cons_succ, List.count_cons, List.getD_cons_succ] at this ⊢
      omega

/-- the stop-marker bookkeeping: markers in the queue + workers that consumed one = markers sent -/
def StopInv (s : State) : Prop :=
  s.workers.length = s.n ∧
  match s.mainPc with
  | .joinProd => nNones s.queue + nExited s.workers = 0
  | .stops k => k ≤ s.n ∧ nNones s.queue + nExited s.workers = k
  | .joinWorkers _ => anyAlive s = false ∨ nNones s.queue + nExited s.workers = s.n
  | .done _ => True

theorem stopInv_init (n : Nat) (rx : Bool) (items : List Item) : StopInv (init n rx items) := by
  refine ⟨by simp [init], ?_⟩
  simp [init, nNones, nExited, List.count_replicate]

theorem any_alive_of_getD {ws : List W} {w : Nat} (h : (ws.getD w .exited).alive = true) :
    ws.any W.alive = true := by
  have hw : w < ws.length := getD_ne_default_lt (by intro e; rw [e] at h; simp [W.alive] at h)
  rw [List.any_eq_true]
  refine ⟨ws[w], List.getElem_mem hw, ?_⟩
  simpa [List.getD_eq_getElem?_getD, List.getElem?_eq_getElem hw] using h

theorem step_stopInv (fate : Item → Fate) (s : State) (st : Step) (he : enabled s st = true)
    (h : StopInv s) : StopInv (step fate s st) := by
  obtain ⟨hlen, hm⟩ := h
  cases st with
  | prodSend =>
    simp only [step]
    cases htodo : s.todo with
    | nil => exact ⟨hlen, hm⟩
    | cons y rest =>
      simp only
      split
      · refine ⟨hlen, ?_⟩
        simp only [nNones, List.count_append, anyAlive] at hm ⊢
        have : List.count none [some y] = 0 := by simp
        simp only [this, Nat.add_zero]
        exact hm
      · exact ⟨hlen, hm⟩
  | prodExit => exact ⟨hlen, hm⟩
  | recv w =>
    simp only [enabled, Bool.and_eq_true, beq_iff_eq] at he
    have hidle := he.1.2
    have hw : w < s.workers.length := getD_ne_default_lt (by rw [hidle]; decide)
    have halive : anyAlive s = true := any_alive_of_getD (by rw [hidle]; rfl)
    simp only [step]
    cases hq : s.queue with
    | nil => exact ⟨hlen, hm⟩
    | cons e q =>
      cases e with
      | some y =>
        have hc := count_set_W s.workers w (.holding y) .exited hw
        rw [hidle] at hc
        simp only [reduceCtorEq, if_false, Nat.add_zero] at hc
        refine ⟨by simpa using hlen, ?_⟩
        simp only [nNones, nExited, hq, anyAlive] at hm ⊢
        have h1 : List.count none (some y :: q) = List.count none q := by simp
        rw [h1] at hm
        rw [hc]
        cases hpc : s.mainPc with
        | joinProd => simpa [hpc] using hm
        | stops k => simpa [hpc] using hm
        | joinWorkers i =>
          rw [hpc] at hm; simp only at hm ⊢
          rcases hm with hm | hm
          · exact absurd halive (by unfold anyAlive at *; rw [hm]; decide)
          · exact Or.inr hm
        | done c => trivial
      | none =>
        have hc := count_set_W s.workers w .exited .exited hw
        rw [hidle] at hc
        simp only [reduceCtorEq, if_false, if_true, Nat.add_zero] at hc
        refine ⟨by simpa using hlen, ?_⟩
        simp only [nNones, nExited, hq, anyAlive] at hm ⊢
        have h1 : List.count none (none :: q) = List.count none q + 1 := by simp
        rw [h1] at hm
        rw [hc]
        cases hpc : s.mainPc with
        | joinProd => rw [hpc] at hm; simp only at hm; omega
        | stops k => rw [hpc] at hm; simp only at hm ⊢; omega
        | joinWorkers i =>
          rw [hpc] at hm; simp only at hm ⊢
          rcases hm with hm | hm
          · exact absurd halive (by unfold anyAlive at *; rw [hm]; decide)
          · exact Or.inr (by omega)
        | done c => trivial
  | finish w =>
    simp only [step]
    cases hh : s.workers.getD w .exited with
    | holding y =>
      have hw : w < s.workers.length := getD_ne_default_lt (by rw [hh]; intro h; cases h)
      have halive : anyAlive s = true := any_alive_of_getD (by rw [hh]; rfl)
      have key : ∀ new : W, new ≠ .exited →
          StopInv { s with workers := s.workers.set w new } →
          True := fun _ _ _ => trivial
      have mk : ∀ new : W, new ≠ .exited →
          (match s.mainPc with
            | .joinProd => nNones s.queue + nExited (s.workers.set w new) = 0
            | .stops k => k ≤ s.n ∧ nNones s.queue + nExited (s.workers.set w new) = k
            | .joinWorkers _ => (s.workers.set w new).any W.alive = false ∨
                nNones s.queue + nExited (s.workers.set w new) = s.n
            | .done _ => True) := by
        intro new hne
        have hc := count_set_W s.workers w new .exited hw
        rw [hh] at hc
        simp only [reduceCtorEq, if_false, hne, Nat.add_zero] at hc
        simp only [nExited, hc]
        cases hpc : s.mainPc with
        | joinProd => simpa [hpc, nExited] using hm
        | stops k => simpa [hpc, nExited] using hm
        | joinWorkers i =>
          rw [hpc] at hm; simp only at hm ⊢
          rcases hm with hm | hm
          · exact absurd halive (by unfold anyAlive at *; rw [hm]; decide)
          · exact Or.inr (by simpa [nExited] using hm)
        | done c => trivial
      simp only
      cases fate y with
      | ok => exact ⟨by simpa using hlen, mk .idle (by decide)⟩
      | reject => exact ⟨by simpa using hlen, mk .idle (by decide)⟩
      | die => exact ⟨by simpa using hlen, mk .dead (by decide)⟩
    | idle => exact ⟨hlen, hm⟩
    | exited => exact ⟨hlen, hm⟩
    | dead => exact ⟨hlen, hm⟩
  | main =>
    simp only [step]
    cases hpc : s.mainPc with
    | joinProd =>
      rw [hpc] at hm
      simp only
      split
      · exact ⟨hlen, trivial⟩
      · exact ⟨hlen, Nat.zero_le _, hm⟩
    | stops k =>
      rw [hpc] at hm
      simp only
      split
      · rename_i hk
        refine ⟨hlen, Or.inr ?_⟩
        have : k = s.n := by omega
        simpa [this] using hm.2
      · split
        · rename_i hk _
          have hk' : k + 1 ≤ s.n := by omega
          refine ⟨hlen, hk', ?_⟩
          simp only [nNones, List.count_append] at hm ⊢
          have : List.count none [(none : Option Item)] = 1 := by simp
          rw [this]; omega
        · rename_i hk hr
          refine ⟨hlen, Or.inl ?_⟩
          simp only [receiversAlive, Bool.or_eq_true, not_or] at hr
          simpa [anyAlive] using hr.2
    | joinWorkers i =>
      simp only
      split
      · exact ⟨hlen, trivial⟩
      · split
        · exact ⟨hlen, trivial⟩
        · rw [hpc] at hm; exact ⟨hlen, hm⟩
    | done c => simp only; rw [hpc] at hm; exact ⟨hlen, by rw [hpc]; trivial⟩

end Grcov.Pipeline

namespace Grcov.Pipeline

/-! ### progress -/

theorem alive_witness {ws : List W} (h : ws.any W.alive = true) :
    ∃ w, w < ws.length ∧ (ws.getD w .exited).alive = true := by
  rw [List.any_eq_true] at h
  obtain ⟨x, hx, ha⟩ := h
  obtain ⟨i, hi, rfl⟩ := List.getElem_of_mem hx
  exact ⟨i, hi, by simpa [List.getD_eq_getElem?_getD, List.getElem?_eq_getElem hi] using ha⟩

theorem recv_mem_allSteps (s : State) (w : Nat) (hw : w < s.n) : Step.recv w ∈ allSteps s := by
  simp only [allSteps, List.mem_append, List.mem_flatMap, List.mem_range]
  exact Or.inr ⟨w, hw, by simp⟩

theorem finish_mem_allSteps (s : State) (w : Nat) (hw : w < s.n) : Step.finish w ∈ allSteps s := by
  simp only [allSteps, List.mem_append, List.mem_flatMap, List.mem_range]
  exact Or.inr ⟨w, hw, by simp⟩

/-- an alive worker can move unless it is idle on an empty queue -/
theorem worker_can_move (s : State) (ht : terminal s = false) (hlen : s.workers.length = s.n)
    (halive : anyAlive s = true) (hq : s.queue ≠ []) :
    ∃ st ∈ allSteps s, enabled s st = true := by
  obtain ⟨w, hw, ha⟩ := alive_witness halive
  rw [hlen] at hw
  cases hh : s.workers.getD w .exited with
  | idle =>
    refine ⟨.recv w, recv_mem_allSteps s w hw, ?_⟩
    have hh' : s.workers[w]?.getD W.exited = W.idle := by
      rw [← List.getD_eq_getElem?_getD]; exact hh
    simp [enabled, ht, hh', hq]
  | holding y =>
    refine ⟨.finish w, finish_mem_allSteps s w hw, ?_⟩
    have hh' : s.workers[w]?.getD W.exited = W.holding y := by
      rw [← List.getD_eq_getElem?_getD]; exact hh
    simp [enabled, ht, hh']
  | exited => rw [hh] at ha; simp [W.alive] at ha
  | dead => rw [hh] at ha; simp [W.alive] at ha

theorem mem_allSteps_main (s : State) : Step.main ∈ allSteps s := by simp [allSteps]
theorem mem_allSteps_prodSend (s : State) : Step.prodSend ∈ allSteps s := by simp [allSteps]
theorem mem_allSteps_prodExit (s : State) : Step.prodExit ∈ allSteps s := by simp [allSteps]

/-- With `main`'s receiver dropped (the repaired code) no reachable non-terminal state is stuck,
whatever the faults. -/
theorem progress (s : State) (hinv : StopInv s) (hrx : s.rxMain = false) (hn : 1 ≤ s.n)
    (ht : terminal s = false) : ∃ st ∈ allSteps s, enabled s st = true := by
  obtain ⟨hlen, hm⟩ := hinv
  have hra : receiversAlive s = anyAlive s := by simp [receiversAlive, anyAlive, hrx]
  -- a full queue is non-empty
  have full_ne : ¬ s.queue.length < cap s → s.queue ≠ [] := by
    intro hfull he; rw [he] at hfull; simp [cap] at hfull; omega
  cases hpc : s.mainPc with
  | done c => simp [terminal, hpc] at ht
  | joinProd =>
    by_cases hp : s.prodDone = true ∨ s.prodDead = true
    · refine ⟨.main, mem_allSteps_main s, ?_⟩
      rcases hp with hp | hp <;> simp [enabled, hpc, hp]
    · have hpd : s.prodDone = false := by
        cases h : s.prodDone <;> simp [h] at hp ⊢
      have hpx : s.prodDead = false := by
        cases h : s.prodDead <;> simp [h] at hp ⊢
      cases htodo : s.todo with
      | nil =>
        exact ⟨.prodExit, mem_allSteps_prodExit s, by simp [enabled, ht, hpd, hpx, htodo]⟩
      | cons x rest =>
        by_cases hroom : s.queue.length < cap s
        · exact ⟨.prodSend, mem_allSteps_prodSend s, by simp [enabled, ht, hpd, hpx, htodo, hroom]⟩
        · by_cases ha : anyAlive s = true
          · exact worker_can_move s ht hlen ha (full_ne hroom)
          · exact ⟨.prodSend, mem_allSteps_prodSend s,
              by simp [enabled, ht, hpd, hpx, htodo, hra, ha]⟩
  | stops k =>
    by_cases hk : k ≥ s.n
    · exact ⟨.main, mem_allSteps_main s, by simp [enabled, hpc, hk]⟩
    · by_cases hroom : s.queue.length < cap s
      · exact ⟨.main, mem_allSteps_main s, by simp [enabled, hpc, hroom]⟩
      · by_cases ha : anyAlive s = true
        · exact worker_can_move s ht hlen ha (full_ne hroom)
        · exact ⟨.main, mem_allSteps_main s, by simp [enabled, hpc, hra, ha]⟩
  | joinWorkers i =>
    by_cases hi : i ≥ s.n
    · exact ⟨.main, mem_allSteps_main s, by simp [enabled, hpc, hi]⟩
    · by_cases hw : (s.workers.getD i .exited).alive = true
      · -- worker i is alive: it can move unless idle on an empty queue, which the bookkeeping excludes
        have ha : anyAlive s = true := any_alive_of_getD hw
        by_cases hq : s.queue = []
        · exfalso
          rw [hpc] at hm
          rcases hm with hm | hm
          · rw [hm] at ha; cases ha
          · -- all markers consumed ⇒ every worker exited, but worker i is alive
            rw [hq] at hm
            simp only [nNones, List.count_nil, Nat.zero_add, nExited] at hm
            have hall : ∀ x ∈ s.workers, x = W.exited := by
              have : List.count W.exited s.workers = s.workers.length := by omega
              exact fun x hx => ((List.count_eq_length.mp this) x hx).symm
            have hil : i < s.workers.length := by omega
            have : s.workers.getD i .exited = .exited := by
              simp only [List.getD_eq_getElem?_getD, List.getElem?_eq_getElem hil, Option.getD_some]
              exact hall _ (List.getElem_mem hil)
            rw [this] at hw; simp [W.alive] at hw
        · exact worker_can_move s ht hlen ha hq
      · have hw' : (s.workers[i]?.getD W.exited).alive = false := by
          rw [← List.getD_eq_getElem?_getD]; simpa using hw
        exact ⟨.main, mem_allSteps_main s, by simp [enabled, hpc, hw']⟩

/-! ### every run is finite: a measure that every enabled step decreases -/

def wWeight : W → Nat
  | .idle => 2 | .holding _ => 3 | _ => 0

def mainWeight (n : Nat) : MainPc → Nat
  | .joinProd => 4 * n + 3
  | .stops k => 3 * (n - k) + n + 2
  | .joinWorkers i => (n - i) + 1
  | .done _ => 0

def mu (s : State) : Nat :=
  3 * s.todo.length + (if s.prodDone || s.prodDead then 0 else 1) + 2 * s.queue.length
    + (s.workers.map wWeight).sum + mainWeight s.n s.mainPc

theorem sum_set_weight (ws : List W) (w : Nat) (new : W) (hw : w < ws.length) :
    ((ws.set w new).map wWeight).sum + wWeight (ws.getD w .exited)
      = (ws.map wWeight).sum + wWeight new := by
  induction ws generalizing w with
  | nil => simp at hw
  | cons a ws ih =>
    cases w with
    | zero => simp; omega
    | succ w =>
      have := ih w (by simpa using hw)
      simp only [List.set_cons_succ, List.map_cons, List.sum_cons, List.getD_cons_succ] at this ⊢
      omega

theorem step_mu (fate : Item → Fate) (s : State) (st : Step) (he : enabled s st = true) :
    mu (step fate s st) < mu s := by
  cases st with
  | prodSend =>
    simp only [enabled, Bool.and_eq_true, Bool.not_eq_true'] at he
    obtain ⟨⟨⟨⟨_, hpd⟩, hpx⟩, _⟩, _⟩ := he
    simp only [step]
    cases htodo : s.todo with
    | nil => simp_all
    | cons y rest =>
      simp only
      split
      · simp [mu, htodo]; omega
      · simp [mu, htodo, hpd, hpx]
  | prodExit =>
    simp only [enabled, Bool.and_eq_true, Bool.not_eq_true'] at he
    obtain ⟨⟨⟨_, hpd⟩, hpx⟩, _⟩ := he
    simp [step, mu, hpd, hpx]
  | recv w =>
    simp only [enabled, Bool.and_eq_true, beq_iff_eq] at he
    have hidle := he.1.2
    have hw : w < s.workers.length := getD_ne_default_lt (by rw [hidle]; decide)
    simp only [step]
    cases hq : s.queue with
    | nil => simp [hq] at he
    | cons e q =>
      cases e with
      | some y =>
        have := sum_set_weight s.workers w (.holding y) hw
        rw [hidle] at this
        simp [mu, hq, wWeight] at this ⊢; omega
      | none =>
        have := sum_set_weight s.workers w .exited hw
        rw [hidle] at this
        simp [mu, hq, wWeight] at this ⊢; omega
  | finish w =>
    simp only [step]
    cases hh : s.workers.getD w .exited with
    | holding y =>
      have hw : w < s.workers.length := getD_ne_default_lt (by rw [hh]; intro h; cases h)
      simp only
      cases fate y with
      | ok =>
        have := sum_set_weight s.workers w .idle hw
        rw [hh] at this; simp [mu, wWeight] at this ⊢; omega
      | reject =>
        have := sum_set_weight s.workers w .idle hw
        rw [hh] at this; simp [mu, wWeight] at this ⊢; omega
      | die =>
        have := sum_set_weight s.workers w .dead hw
        rw [hh] at this; simp [mu, wWeight] at this ⊢; omega
    | idle => simp only [enabled, hh] at he; simp at he
    | exited => simp only [enabled, hh] at he; simp at he
    | dead => simp only [enabled, hh] at he; simp at he
  | main =>
    simp only [step]
    cases hpc : s.mainPc with
    | joinProd =>
      simp only
      split <;> simp [mu, hpc, mainWeight] <;> omega
    | stops k =>
      simp only
      split
      · simp [mu, hpc, mainWeight]; omega
      · split
        · simp [mu, hpc, mainWeight]; omega
        · simp [mu, hpc, mainWeight]; omega
    | joinWorkers i =>
      simp only
      split
      · simp [mu, hpc, mainWeight]
      · split <;> simp [mu, hpc, mainWeight] <;> omega
    | done c => simp [enabled, hpc] at he

theorem run_length_le_mu {fate : Item → Fate} {s s' : State} {tr : List Step}
    (h : Run fate s tr s') : tr.length + mu s' ≤ mu s := by
  induction h with
  | nil => simp
  | cons he _ ih =>
    have := step_mu fate _ _ he
    simp only [List.length_cons]; omega

theorem run_stopInv {fate : Item → Fate} {s s' : State} {tr : List Step} (h : Run fate s tr s')
    (hi : StopInv s) : StopInv s' := by
  induction h with
  | nil => exact hi
  | cons he _ ih => exact ih (step_stopInv _ _ _ he hi)

theorem step_n (fate : Item → Fate) (s : State) (st : Step) :
    (step fate s st).n = s.n ∧ (step fate s st).rxMain = s.rxMain := by
  cases st <;> simp only [step] <;> repeat' split
  all_goals first | exact ⟨rfl, rfl⟩ | simp

theorem run_n {fate : Item → Fate} {s s' : State} {tr : List Step} (h : Run fate s tr s') :
    s'.n = s.n ∧ s'.rxMain = s.rxMain := by
  induction h with
  | nil => exact ⟨rfl, rfl⟩
  | cons _ _ ih =>
    rename_i s0 st _ _ _ _
    have := step_n ‹Item → Fate› s0 st
    exact ⟨ih.1.trans this.1, ih.2.trans this.2⟩

end Grcov.Pipeline

namespace Grcov.Pipeline

/-- FIFO shape of the queue: no work item behind a stop marker -/
def qShape : List (Option Item) → Bool
  | [] => true
  | some _ :: q => qShape q
  | none :: q => q.all Option.isNone

theorem qShape_of_all_none (q : List (Option Item)) (h : q.all Option.isNone = true) : qShape q = true := by
  induction q with
  | nil => rfl
  | cons e q ih =>
    simp only [List.all_cons, Bool.and_eq_true] at h
    cases e with
    | none => exact h.2
    | some x => simp at h

theorem qShape_append_none (q : List (Option Item)) (h : qShape q = true) : qShape (q ++ [none]) = true := by
  induction q with
  | nil => rfl
  | cons e q ih =>
    cases e with
    | some x => simpa [qShape] using ih (by simpa [qShape] using h)
    | none =>
      simp only [qShape] at h
      simp [qShape, List.all_append, h]

theorem qShape_append_some (q : List (Option Item)) (x : Item) (h : nNones q = 0) :
    qShape (q ++ [some x]) = true := by
  induction q with
  | nil => rfl
  | cons e q ih =>
    cases e with
    | some y =>
      have : nNones q = 0 := by simpa [nNones] using h
      simpa [qShape] using ih this
    | none => simp [nNones] at h

theorem qShape_tail (e : Option Item) (q : List (Option Item)) (h : qShape (e :: q) = true) :
    qShape q = true := by
  cases e with
  | some x => simpa [qShape] using h
  | none => exact qShape_of_all_none q (by simpa [qShape] using h)

theorem getD_set_ne (ws : List W) (w j : Nat) (v d : W) (h : w ≠ j) :
    (ws.set w v).getD j d = ws.getD j d := by
  simp [List.getD_eq_getElem?_getD, List.getElem?_set_ne h]

theorem getD_set_eq (ws : List W) (w : Nat) (v d : W) (h : w < ws.length) :
    (ws.set w v).getD w d = v := by
  simp [List.getD_eq_getElem?_getD, List.getElem?_set_self h]

structure FlowInv (fate : Item → Fate) (s : State) : Prop where
  stop : StopInv s
  shape : qShape s.queue = true
  doneTodo : s.prodDone = true → s.todo = []
  past : s.mainPc = .joinProd ∨ s.prodDone = true ∨ s.mainPc = .done 1
  exitedNoSome : 0 < nExited s.workers → s.queue.all Option.isNone = true
  joined : ∀ j, (match s.mainPc with
      | .joinWorkers i => j < i
      | .done 0 => j < s.n
      | _ => False) → s.workers.getD j .idle = .exited
  lostDead : s.lost ≠ [] → ∃ j, s.workers.getD j .idle = .dead
  mergedOk : ∀ x ∈ s.merged, fate x = .ok
  rejectedRej : ∀ x ∈ s.rejected, fate x = .reject

theorem flowInv_init (fate : Item → Fate) (n : Nat) (rx : Bool) (items : List Item) :
    FlowInv fate (init n rx items) := by
  refine ⟨stopInv_init n rx items, rfl, by simp [init], Or.inl rfl, ?_, ?_, by simp [init], by simp [init], by simp [init]⟩
  · intro h; simp [init, nExited, List.count_replicate] at h
  · intro j hj; simp [init] at hj


theorem nNones_zero_all_some (q : List (Option Item)) (h : nNones q = 0) (e) (he : e ∈ q) : e ≠ none := by
  intro hn; subst hn
  have : 0 < List.count none q := List.count_pos_iff.mpr he
  simp [nNones] at h; omega

/-- while the producer may still send, no stop marker was sent and no worker has exited -/
theorem producing_phase (fate : Item → Fate) (s : State) (h : FlowInv fate s)
    (ht : terminal s = false) (hp : s.prodDone = false) :
    nNones s.queue = 0 ∧ nExited s.workers = 0 := by
  have hpc : s.mainPc = .joinProd := by
    rcases h.past with h1 | h1 | h1
    · exact h1
    · rw [hp] at h1; cases h1
    · simp [terminal, h1] at ht
  have := h.stop.2
  rw [hpc] at this
  simp only at this
  omega

theorem step_flowInv (fate : Item → Fate) (s : State) (st : Step) (he : enabled s st = true)
    (h : FlowInv fate s) : FlowInv fate (step fate s st) := by
  have hstop' := step_stopInv fate s st he h.stop
  cases st with
  | prodSend =>
    simp only [enabled, Bool.and_eq_true, Bool.not_eq_true'] at he
    obtain ⟨⟨⟨⟨ht, hpd⟩, hpx⟩, _⟩, _⟩ := he
    obtain ⟨hn0, he0⟩ := producing_phase fate s h ht hpd
    cases htodo : s.todo with
    | nil =>
      have : step fate s .prodSend = s := by simp [step, htodo]
      rw [this]; exact h
    | cons x rest =>
      by_cases hr : receiversAlive s = true
      · have e : step fate s .prodSend = { s with todo := rest, queue := s.queue ++ [some x] } := by
          simp [step, htodo, hr]
        rw [e] at hstop' ⊢
        refine ⟨hstop', qShape_append_some _ _ hn0, ?_, h.past, ?_, h.joined, h.lostDead, h.mergedOk, h.rejectedRej⟩
        · intro hd; simp only at hd; rw [hpd] at hd; cases hd
        · intro hex; simp only at hex; omega
      · have e : step fate s .prodSend = { s with prodDead := true } := by
          simp [step, htodo, hr]
        rw [e] at hstop' ⊢
        exact ⟨hstop', h.shape, h.doneTodo, h.past, h.exitedNoSome, h.joined, h.lostDead, h.mergedOk, h.rejectedRej⟩
  | prodExit =>
    simp only [enabled, Bool.and_eq_true, Bool.not_eq_true'] at he
    obtain ⟨⟨⟨_, _⟩, _⟩, hempty⟩ := he
    have e : step fate s .prodExit = { s with prodDone := true } := rfl
    rw [e] at hstop' ⊢
    refine ⟨hstop', h.shape, ?_, ?_, h.exitedNoSome, h.joined, h.lostDead, h.mergedOk, h.rejectedRej⟩
    · intro _; simpa using hempty
    · exact Or.inr (Or.inl rfl)
  | recv w =>
    simp only [enabled, Bool.and_eq_true, beq_iff_eq] at he
    have hidle := he.1.2
    have hw : w < s.workers.length := getD_ne_default_lt (by rw [hidle]; decide)
    have hidle' : s.workers.getD w .idle = .idle := by
      simpa [List.getD_eq_getElem?_getD, List.getElem?_eq_getElem hw] using hidle
    have keep : ∀ (v : W) (j : Nat) (u : W), u ≠ .idle → s.workers.getD j .idle = u →
        (s.workers.set w v).getD j .idle = u := by
      intro v j u hu hj
      by_cases hwj : w = j
      · subst hwj; rw [hidle'] at hj; exact absurd hj.symm hu
      · rw [getD_set_ne _ _ _ _ _ hwj]; exact hj
    cases hq : s.queue with
    | nil => simp [hq] at he
    | cons e q =>
      cases e with
      | some y =>
        have e1 : step fate s (.recv w) = { s with queue := q, workers := s.workers.set w (.holding y) } := by
          simp [step, hq]
        rw [e1] at hstop' ⊢
        have hc := count_set_W s.workers w (.holding y) .exited hw
        rw [hidle] at hc
        simp only [reduceCtorEq, if_false, Nat.add_zero] at hc
        refine ⟨hstop', qShape_tail _ _ (hq ▸ h.shape), h.doneTodo, h.past, ?_, ?_, ?_, h.mergedOk, h.rejectedRej⟩
        · intro hex
          simp only [nExited, hc] at hex
          have := h.exitedNoSome hex
          rw [hq] at this; simp at this
        · intro j hj; exact keep _ j .exited (by decide) (h.joined j hj)
        · intro hl; obtain ⟨j, hj⟩ := h.lostDead hl; exact ⟨j, keep _ j .dead (by decide) hj⟩
      | none =>
        have e1 : step fate s (.recv w) = { s with queue := q, workers := s.workers.set w .exited } := by
          simp [step, hq]
        rw [e1] at hstop' ⊢
        refine ⟨hstop', qShape_tail _ _ (hq ▸ h.shape), h.doneTodo, h.past, ?_, ?_, ?_, h.mergedOk, h.rejectedRej⟩
        · intro _
          have := h.shape; rw [hq] at this; simpa [qShape] using this
        · intro j hj
          by_cases hwj : w = j
          · subst hwj; exact getD_set_eq _ _ _ _ hw
          · rw [getD_set_ne _ _ _ _ _ hwj]; exact h.joined j hj
        · intro hl; obtain ⟨j, hj⟩ := h.lostDead hl; exact ⟨j, keep _ j .dead (by decide) hj⟩
  | finish w =>
    cases hh : s.workers.getD w .exited with
    | holding y =>
      have hw : w < s.workers.length := getD_ne_default_lt (by rw [hh]; intro e; cases e)
      have hh' : s.workers.getD w .idle = .holding y := by
        simpa [List.getD_eq_getElem?_getD, List.getElem?_eq_getElem hw] using hh
      have hh2 : s.workers[w]?.getD W.exited = W.holding y := by
        rw [← List.getD_eq_getElem?_getD]; exact hh
      have keep : ∀ (v : W) (j : Nat) (u : W), (∀ z, u ≠ .holding z) → s.workers.getD j .idle = u →
          (s.workers.set w v).getD j .idle = u := by
        intro v j u hu hj
        by_cases hwj : w = j
        · subst hwj; rw [hh'] at hj; exact absurd hj.symm (hu y)
        · rw [getD_set_ne _ _ _ _ _ hwj]; exact hj
      have cnt : ∀ v : W, v ≠ .exited → nExited (s.workers.set w v) = nExited s.workers := by
        intro v hv
        have hc := count_set_W s.workers w v .exited hw
        rw [hh] at hc
        simp only [reduceCtorEq, if_false, hv, Nat.add_zero] at hc
        exact hc
      cases hf : fate y with
      | ok =>
        have e1 : step fate s (.finish w) = { s with workers := s.workers.set w .idle, merged := s.merged ++ [y] } := by
          simp [step, hh2, hf]
        rw [e1] at hstop' ⊢
        refine ⟨hstop', h.shape, h.doneTodo, h.past, ?_, ?_, ?_, ?_, h.rejectedRej⟩
        · intro hex; simp only [cnt .idle (by decide)] at hex; exact h.exitedNoSome hex
        · intro j hj; exact keep _ j .exited (fun z => by intro e; cases e) (h.joined j hj)
        · intro hl; obtain ⟨j, hj⟩ := h.lostDead hl; exact ⟨j, keep _ j .dead (fun z => by intro e; cases e) hj⟩
        · intro x hx; simp only [List.mem_append, List.mem_singleton] at hx
          rcases hx with hx | hx
          · exact h.mergedOk x hx
          · subst hx; exact hf
      | reject =>
        have e1 : step fate s (.finish w) = { s with workers := s.workers.set w .idle, rejected := s.rejected ++ [y] } := by
          simp [step, hh2, hf]
        rw [e1] at hstop' ⊢
        refine ⟨hstop', h.shape, h.doneTodo, h.past, ?_, ?_, ?_, h.mergedOk, ?_⟩
        · intro hex; simp only [cnt .idle (by decide)] at hex; exact h.exitedNoSome hex
        · intro j hj; exact keep _ j .exited (fun z => by intro e; cases e) (h.joined j hj)
        · intro hl; obtain ⟨j, hj⟩ := h.lostDead hl; exact ⟨j, keep _ j .dead (fun z => by intro e; cases e) hj⟩
        · intro x hx; simp only [List.mem_append, List.mem_singleton] at hx
          rcases hx with hx | hx
          · exact h.rejectedRej x hx
          · subst hx; exact hf
      | die =>
        have e1 : step fate s (.finish w) = { s with workers := s.workers.set w .dead, lost := s.lost ++ [y] } := by
          simp [step, hh2, hf]
        rw [e1] at hstop' ⊢
        refine ⟨hstop', h.shape, h.doneTodo, h.past, ?_, ?_, ?_, h.mergedOk, h.rejectedRej⟩
        · intro hex; simp only [cnt .dead (by decide)] at hex; exact h.exitedNoSome hex
        · intro j hj; exact keep _ j .exited (fun z => by intro e; cases e) (h.joined j hj)
        · intro _; exact ⟨w, getD_set_eq _ _ _ _ hw⟩
    | idle => simp only [enabled, hh] at he; simp at he
    | exited => simp only [enabled, hh] at he; simp at he
    | dead => simp only [enabled, hh] at he; simp at he
  | main =>
    cases hpc : s.mainPc with
    | joinProd =>
      simp only [enabled, hpc, Bool.or_eq_true] at he
      by_cases hpx : s.prodDead = true
      · have e1 : step fate s .main = { s with mainPc := .done 1 } := by simp [step, hpc, hpx]
        rw [e1] at hstop' ⊢
        refine ⟨hstop', h.shape, h.doneTodo, Or.inr (Or.inr rfl), h.exitedNoSome, ?_, h.lostDead, h.mergedOk, h.rejectedRej⟩
        intro j hj; simp at hj
      · have hpd : s.prodDone = true := by rcases he with he | he; exact he; exact absurd he hpx
        have e1 : step fate s .main = { s with mainPc := .stops 0 } := by simp [step, hpc, hpx]
        rw [e1] at hstop' ⊢
        refine ⟨hstop', h.shape, h.doneTodo, Or.inr (Or.inl hpd), h.exitedNoSome, ?_, h.lostDead, h.mergedOk, h.rejectedRej⟩
        intro j hj; simp at hj
    | stops k =>
      have hpast : s.prodDone = true ∨ s.mainPc = .done 1 := by
        rcases h.past with h1 | h1
        · rw [hpc] at h1; cases h1
        · exact h1
      have hpast' : ∀ pc, pc = MainPc.joinProd ∨ s.prodDone = true ∨ pc = .done 1 := by
        intro pc; rcases hpast with h1 | h1
        · exact Or.inr (Or.inl h1)
        · rw [hpc] at h1; cases h1
      by_cases hk : k ≥ s.n
      · have e1 : step fate s .main = { s with mainPc := .joinWorkers 0 } := by simp [step, hpc, hk]
        rw [e1] at hstop' ⊢
        refine ⟨hstop', h.shape, h.doneTodo, hpast' _, h.exitedNoSome, ?_, h.lostDead, h.mergedOk, h.rejectedRej⟩
        intro j hj; simp at hj
      · by_cases hr : receiversAlive s = true
        · have e1 : step fate s .main = { s with mainPc := .stops (k + 1), queue := s.queue ++ [none] } := by
            simp [step, hpc, hk, hr]
          rw [e1] at hstop' ⊢
          refine ⟨hstop', qShape_append_none _ h.shape, h.doneTodo, hpast' _, ?_, ?_, h.lostDead, h.mergedOk, h.rejectedRej⟩
          · intro hex; simp only [List.all_append, h.exitedNoSome hex]; rfl
          · intro j hj; simp at hj
        · have e1 : step fate s .main = { s with mainPc := .joinWorkers 0 } := by simp [step, hpc, hk, hr]
          rw [e1] at hstop' ⊢
          refine ⟨hstop', h.shape, h.doneTodo, hpast' _, h.exitedNoSome, ?_, h.lostDead, h.mergedOk, h.rejectedRej⟩
          intro j hj; simp at hj
    | joinWorkers i =>
      have hpast' : ∀ pc, pc = MainPc.joinProd ∨ s.prodDone = true ∨ pc = .done 1 := by
        intro pc; rcases h.past with h1 | h1 | h1
        · rw [hpc] at h1; cases h1
        · exact Or.inr (Or.inl h1)
        · rw [hpc] at h1; cases h1
      have hj0 : ∀ j, j < i → s.workers.getD j .idle = .exited := by
        intro j hj; have := h.joined j; rw [hpc] at this; exact this hj
      by_cases hi : i ≥ s.n
      · have e1 : step fate s .main = { s with mainPc := .done 0 } := by simp [step, hpc, hi]
        rw [e1] at hstop' ⊢
        refine ⟨hstop', h.shape, h.doneTodo, hpast' _, h.exitedNoSome, ?_, h.lostDead, h.mergedOk, h.rejectedRej⟩
        intro j hj; simp only at hj; exact hj0 j (by omega)
      · simp only [enabled, hpc, Bool.or_eq_true, decide_eq_true_eq] at he
        have hna : (s.workers.getD i .exited).alive = false := by
          rcases he with he | he
          · exact absurd he hi
          · simpa using he
        have hil : i < s.workers.length := by rw [h.stop.1]; omega
        cases hwi : s.workers.getD i .exited with
        | dead =>
          have hwi2 : s.workers[i]?.getD W.exited = W.dead := by
            rw [← List.getD_eq_getElem?_getD]; exact hwi
          have e1 : step fate s .main = { s with mainPc := .done 1 } := by simp [step, hpc, hi, hwi2]
          rw [e1] at hstop' ⊢
          refine ⟨hstop', h.shape, h.doneTodo, Or.inr (Or.inr rfl), h.exitedNoSome, ?_, h.lostDead, h.mergedOk, h.rejectedRej⟩
          intro j hj; simp at hj
        | exited =>
          have hwi2 : s.workers[i]?.getD W.exited = W.exited := by
            rw [← List.getD_eq_getElem?_getD]; exact hwi
          have e1 : step fate s .main = { s with mainPc := .joinWorkers (i + 1) } := by simp [step, hpc, hi, hwi2]
          rw [e1] at hstop' ⊢
          refine ⟨hstop', h.shape, h.doneTodo, hpast' _, h.exitedNoSome, ?_, h.lostDead, h.mergedOk, h.rejectedRej⟩
          intro j hj; simp only at hj
          by_cases hji : j = i
          · subst hji
            simpa [List.getD_eq_getElem?_getD, List.getElem?_eq_getElem hil] using hwi
          · exact hj0 j (by omega)
        | idle => rw [hwi] at hna; simp [W.alive] at hna
        | holding y => rw [hwi] at hna; simp [W.alive] at hna
    | done c => simp [enabled, hpc] at he


theorem run_flowInv {fate : Item → Fate} {s s' : State} {tr : List Step} (h : Run fate s tr s')
    (hi : FlowInv fate s) : FlowInv fate s' := by
  induction h with
  | nil => exact hi
  | cons he _ ih => exact ih (step_flowInv fate _ _ he hi)

theorem held_all_exited (ws : List W) (h : ∀ w ∈ ws, w = W.exited) : held ws = [] := by
  induction ws with
  | nil => rfl
  | cons a ws ih =>
    have ha := h a (by simp)
    subst ha
    simpa [held] using ih fun w hw => h w (List.mem_cons_of_mem _ hw)

/-- at `done 0` everything that was an input has been merged or rejected -/
theorem done0_all_accounted (fate : Item → Fate) (s : State) (h : FlowInv fate s) (hn : 1 ≤ s.n)
    (hd : s.mainPc = .done 0) :
    s.todo = [] ∧ queueItems s = [] ∧ held s.workers = [] ∧ s.lost = [] := by
  have hlen := h.stop.1
  have hall : ∀ w ∈ s.workers, w = W.exited := by
    intro w hw
    obtain ⟨j, hj, rfl⟩ := List.getElem_of_mem hw
    have := h.joined j (by rw [hd]; simp only; omega)
    simpa [List.getD_eq_getElem?_getD, List.getElem?_eq_getElem hj] using this
  have hex : 0 < nExited s.workers := by
    have : List.count W.exited s.workers = s.workers.length := List.count_eq_length.mpr fun w hw => (hall w hw).symm
    simp only [nExited, this, hlen]; omega
  have hq := h.exitedNoSome hex
  have hpd : s.prodDone = true := by
    rcases h.past with h1 | h1 | h1
    · rw [hd] at h1; cases h1
    · exact h1
    · rw [hd] at h1; cases h1
  refine ⟨h.doneTodo hpd, ?_, held_all_exited _ hall, ?_⟩
  · simp only [queueItems]
    rw [List.filterMap_eq_nil_iff]
    intro e he
    have := (List.all_eq_true.mp hq) e he
    cases e <;> simp_all
  · by_cases hl : s.lost = []
    · exact hl
    · obtain ⟨j, hj⟩ := h.lostDead hl
      by_cases hjl : j < s.workers.length
      · have := hall _ (List.getElem_mem hjl)
        rw [List.getD_eq_getElem?_getD, List.getElem?_eq_getElem hjl] at hj
        simp only [Option.getD_some] at hj
        rw [this] at hj; cases hj
      · rw [List.getD_eq_getElem?_getD, List.getElem?_eq_none (Nat.le_of_not_lt hjl)] at hj
        simp at hj

end Grcov.Pipeline
