/-
C15, "a mismatching gcda makes the computation fail with an error": the overflow guard
(`counterTotal ds ≤ U64MAX`: all counters of all gcda together fit a u64, so no accumulation can
overflow), the outcome of `read_gcda` up to overflow does not depend on the state, and hence: a
gcda with a mismatching function record makes `compute` an `err`, of a kind that does not depend
on where it stands among the matching ones.
-/
import GrcovModel.Lemmas.GcnoBytes
namespace Grcov.Gcno
open Outcome

/-! ## the overflow guard -/

def DRec.csum : DRec → Nat
  | .arcs _ vs => vs.sum
  | _ => 0

/-- the sum of all counters of a gcda -/
def Gcda.csum (d : Gcda) : Nat := (d.recs.map DRec.csum).sum

/-- the sum of all counters of all gcda of a list -/
def counterTotal (ds : List Gcda) : Nat := (ds.map Gcda.csum).sum

theorem counterTotal_perm {ds ds' : List Gcda} (p : ds.Perm ds') : counterTotal ds = counterTotal ds' :=
  (p.map Gcda.csum).sum_nat

def Cnt.Below (c : Cnt) (B : Nat) : Prop := (∀ j, c.arc j ≤ B) ∧ (∀ j, c.blk j ≤ B)
def State.Below (st : State) (B : Nat) : Prop := ∀ i, (st i).Below B

theorem Cnt.Below.mono {c : Cnt} {B B' : Nat} (h : c.Below B) (hb : B ≤ B') : c.Below B' :=
  ⟨fun j => Nat.le_trans (h.1 j) hb, fun j => Nat.le_trans (h.2 j) hb⟩

theorem accArcs_below (n : Nat) : ∀ (rest : List Arc) (i : Nat) (c : Cnt) (vs : List Nat) (B : Nat),
    (∀ a ∈ rest, a.src < n) → c.Below B → B + vs.sum ≤ U64MAX →
    Sat NoSite False (accArcs n i rest c vs) fun r => r.Below (B + vs.sum) := by
  intro rest
  induction rest with
  | nil => intro i c vs B _ hc _; rw [accArcs_nil]; exact hc.mono (by omega)
  | cons a rest ih =>
    intro i c vs B h hc hB
    have hr : ∀ a ∈ rest, a.src < n := fun b hb => h b (List.mem_cons_of_mem _ hb)
    by_cases ht : a.onTree = true
    · rw [accArcs_tree _ _ _ _ _ ht]; exact ih _ _ _ _ hr hc hB
    · have ht' : a.onTree = false := by simpa using ht
      cases vs with
      | nil => rw [accArcs_short _ _ _ _ ht']; trivial
      | cons v vs =>
        rw [accArcs_real _ _ _ _ _ _ ht']
        simp only [List.sum_cons] at hB ⊢
        have h1 := hc.1 i
        have h2 := hc.2 a.src
        have h3 := h a (by simp)
        rw [if_neg (by omega), if_neg (by omega), if_neg (by omega)]
        have hc' : Cnt.Below ⟨upd c.arc i (c.arc i + v), upd c.blk a.src (c.blk a.src + v)⟩ (B + v) := by
          constructor
          · intro j; simp only [upd]; split
            · omega
            · have := hc.1 j; omega
          · intro j; simp only [upd]; split
            · omega
            · have := hc.2 j; omega
        have := ih (i + 1) _ vs (B + v) hr hc' (by omega)
        refine this.mono fun r hr' => ?_
        exact hr'.mono (by omega)

theorem goRecs_below {g : Notes} (hg : g.WF) : ∀ (recs : List DRec) (cur : Option Nat) (st : State)
    (B : Nat), (∀ r ∈ recs, r.notCrash) → (∀ i, cur = some i → i < g.funcs.length) →
    st.Below B → B + (recs.map DRec.csum).sum ≤ U64MAX →
    Sat NoSite False (goRecs g cur recs st) fun r => r.Below (B + (recs.map DRec.csum).sum) := by
  intro recs
  induction recs with
  | nil => intro cur st B _ _ hs _; simp only [goRecs, sat_ok]; exact fun i => (hs i).mono (by omega)
  | cons d rest ih =>
    intro cur st B hn hcur hs hB
    have hrest : ∀ r ∈ rest, r.notCrash := fun r hr => hn r (List.mem_cons_of_mem _ hr)
    have hd := hn d (by simp)
    simp only [List.map_cons, List.sum_cons] at hB ⊢
    cases d with
    | func len id ls cs =>
      simp only [DRec.csum, Nat.zero_add] at hB ⊢
      simp only [goRecs]
      split
      · exact ih _ _ _ hrest hcur hs hB
      · split
        · trivial
        · cases hi : identToFun g.funcs id with
          | none => trivial
          | some i =>
            have hlt := identToFun_lt hi
            simp only
            rw [List.getElem?_eq_getElem hlt]
            simp only
            split
            · trivial
            · exact ih _ _ _ hrest (fun j hj => by cases hj; exact hlt) hs hB
    | arcs len vs =>
      simp only [DRec.csum] at hB ⊢
      cases cur with
      | none =>
        simp only [goRecs]
        exact (ih _ _ _ hrest hcur hs (by omega)).mono fun r hr i => (hr i).mono (by omega)
      | some i =>
        have hlt := hcur i rfl
        simp only [goRecs]
        rw [List.getElem?_eq_getElem hlt]
        simp only
        split
        · trivial
        · apply Sat.bind
          have hf := hg _ (List.getElem_mem hlt)
          refine (accArcs_below _ _ 0 (st i) vs B (fun a ha => (hf.arcs a ha).1) (hs i)
            (by omega)).mono fun c hc => ?_
          have hs' : (st.set i c).Below (B + vs.sum) := by
            intro j
            simp only [State.set]
            split
            · exact hc
            · exact (hs j).mono (by omega)
          have := ih (some i) (st.set i c) (B + vs.sum) hrest hcur hs' (by omega)
          refine this.mono fun r hr j => (hr j).mono (Nat.le_of_eq (Nat.add_assoc _ _ _))
    | other =>
      simp only [DRec.csum, Nat.zero_add] at hB ⊢
      simp only [goRecs]; exact ih _ _ _ hrest hcur hs hB
    | fail k => simp only [goRecs]; trivial
    | crash s => exact absurd hd (by simp)

theorem addGcda_below {g : Notes} (hg : g.WF) (st : State) (d : Gcda) (B : Nat)
    (h : ∀ r ∈ d.recs, r.notCrash) (hs : st.Below B) (hB : B + d.csum ≤ U64MAX) :
    Sat NoSite False (addGcda g st d) fun r => r.Below (B + d.csum) := by
  unfold addGcda
  split
  · trivial
  · split
    · trivial
    · exact goRecs_below hg _ _ _ _ h (fun i hi => by cases hi) hs hB

/-- **below the guard nothing overflows**: on a well-formed shape, reading gcda files whose
counters all together fit a u64 ends in a state or an error -/
theorem addGcdas_below {g : Notes} (hg : g.WF) : ∀ (ds : List Gcda) (st : State) (B : Nat),
    (∀ d ∈ ds, ∀ r ∈ d.recs, r.notCrash) → st.Below B → B + counterTotal ds ≤ U64MAX →
    Sat NoSite False (addGcdas g st ds) fun r => r.Below (B + counterTotal ds) := by
  intro ds
  induction ds with
  | nil => intro st B _ hs _; exact fun i => (hs i).mono (by simp [counterTotal])
  | cons d ds ih =>
    intro st B h hs hB
    have e : counterTotal (d :: ds) = d.csum + counterTotal ds := by simp [counterTotal]
    rw [e] at hB ⊢
    rw [addGcdas_cons]
    apply Sat.bind
    refine (addGcda_below hg st d B (h d (by simp)) hs (by omega)).mono fun s1 hs1 => ?_
    have := ih s1 (B + d.csum) (fun d' hd' => h d' (List.mem_cons_of_mem _ hd')) hs1 (by omega)
    exact this.mono fun r hr i => (hr i).mono (by omega)

theorem State.zero_below : State.zero.Below 0 := fun _ => ⟨fun _ => Nat.le_refl _, fun _ => Nat.le_refl _⟩

/-! ## a mismatching gcda is never accepted -/

theorem addGcdas_ok_no_mismatch {g : Notes} {d : Gcda} (hm : Mismatch g d) :
    ∀ (ds : List Gcda) (st0 st : State), addGcdas g st0 ds = ok st → d ∉ ds := by
  intro ds
  induction ds with
  | nil => intro _ _ _ hd; cases hd
  | cons d' ds ih =>
    intro st0 st h hd
    rw [addGcdas_cons] at h
    obtain ⟨s1, h1, h2⟩ := bind_eq_ok.1 h
    rcases List.mem_cons.1 hd with e | hd
    · subst e
      unfold addGcda at h1
      split at h1; · cases h1
      split at h1; · cases h1
      rename_i hv hc
      rcases hm with hm | hm | ⟨rec, hrec, hbad⟩
      · exact hv hm
      · exact hc hm
      · exact goRecs_ok_no_bad g _ _ _ _ h1 rec hrec hbad
    · exact ih _ _ h2 hd

/-! ## the outcome of `read_gcda`, overflow aside, does not depend on the state -/

/-- same outcome class and error kind, unless the second run overflows -/
def SameUpToOverflow {α : Type} (o o' : Outcome α) : Prop :=
  o' = crash .overflow ∨
  match o with
  | ok _ => ∃ a, o' = ok a
  | err k => o' = err k
  | crash s => o' = crash s
  | diverge => o' = diverge

theorem accArcs_indep (n : Nat) : ∀ (rest : List Arc) (i : Nat) (c c' : Cnt) (vs : List Nat),
    accArcs n i rest c vs ≠ crash .overflow →
    SameUpToOverflow (accArcs n i rest c vs) (accArcs n i rest c' vs) := by
  intro rest
  induction rest with
  | nil => intro i c c' vs _; rw [accArcs_nil, accArcs_nil]; exact .inr ⟨_, rfl⟩
  | cons a rest ih =>
    intro i c c' vs hno
    by_cases ht : a.onTree = true
    · rw [accArcs_tree _ _ _ _ _ ht] at hno ⊢
      rw [accArcs_tree _ _ _ _ _ ht]
      exact ih _ _ _ _ hno
    · have ht' : a.onTree = false := by simpa using ht
      cases vs with
      | nil => rw [accArcs_short _ _ _ _ ht', accArcs_short _ _ _ _ ht']; exact .inr rfl
      | cons v vs =>
        rw [accArcs_real _ _ _ _ _ _ ht'] at hno ⊢
        rw [accArcs_real _ _ _ _ _ _ ht']
        by_cases h1 : c'.arc i + v > U64MAX
        · rw [if_pos h1]; exact .inl rfl
        rw [if_neg h1]
        by_cases g1 : c.arc i + v > U64MAX
        · rw [if_pos g1] at hno; exact absurd rfl hno
        rw [if_neg g1] at hno ⊢
        by_cases h2 : n ≤ a.src
        · rw [if_pos h2, if_pos h2]; exact .inr rfl
        rw [if_neg h2] at hno ⊢
        rw [if_neg h2]
        by_cases h3 : c'.blk a.src + v > U64MAX
        · rw [if_pos h3]; exact .inl rfl
        rw [if_neg h3]
        by_cases g3 : c.blk a.src + v > U64MAX
        · rw [if_pos g3] at hno; exact absurd rfl hno
        rw [if_neg g3] at hno ⊢
        exact ih _ _ _ _ hno

theorem goRecs_indep (g : Notes) : ∀ (recs : List DRec) (cur : Option Nat) (st st' : State),
    goRecs g cur recs st ≠ crash .overflow →
    SameUpToOverflow (goRecs g cur recs st) (goRecs g cur recs st') := by
  intro recs
  induction recs with
  | nil => intro cur st st' _; rw [goRecs_nil, goRecs_nil]; exact .inr ⟨_, rfl⟩
  | cons d rest ih =>
    intro cur st st' hno
    rw [goRecs_cons] at hno ⊢
    rw [goRecs_cons]
    cases hstep : recStep g cur d with
    | next cur' => rw [hstep] at hno; exact ih _ _ _ hno
    | acc i f vs =>
      rw [hstep] at hno
      simp only at hno ⊢
      have hacc : accArcs f.blocks.length 0 f.arcs (st i) vs ≠ crash .overflow := by
        intro e; rw [e] at hno; exact hno rfl
      rcases accArcs_indep f.blocks.length f.arcs 0 (st i) (st' i) vs hacc with h | h
      · rw [h]; exact .inl rfl
      · cases h1 : accArcs f.blocks.length 0 f.arcs (st i) vs with
        | ok c =>
          rw [h1] at h hno
          obtain ⟨c', hc'⟩ := h
          rw [hc']
          simp only [bind_ok] at hno ⊢
          exact ih _ _ _ hno
        | err k => rw [h1] at h; rw [h]; exact .inr rfl
        | crash s => rw [h1] at h; rw [h]; exact .inr rfl
        | diverge => rw [h1] at h; rw [h]; exact .inr rfl
    | fail k => exact .inr rfl
    | boom s => exact .inr rfl
    | bad => exact .inr rfl

theorem addGcda_indep (g : Notes) (st st' : State) (d : Gcda)
    (hno : addGcda g st d ≠ crash .overflow) :
    SameUpToOverflow (addGcda g st d) (addGcda g st' d) := by
  unfold addGcda at hno ⊢
  split
  · exact .inr rfl
  · split
    · exact .inr rfl
    · rename_i h1 h2
      rw [if_neg h1, if_neg h2] at hno
      exact goRecs_indep g _ _ _ _ hno

end Grcov.Gcno
