/-
Helper lemmas for C18 (model: GrcovModel/Escape.lean). Core Lean only.
-/
import GrcovModel.Escape
namespace Grcov.Escape

/-! ### generic facts about `escapeWith` -/

@[simp] theorem escapeWith_nil (tab) : escapeWith tab [] = [] := rfl

@[simp] theorem escapeWith_cons (tab) (b : Nat) (s : Bytes) :
    escapeWith tab (b :: s) = (tab b).getD [b] ++ escapeWith tab s := by
  simp [escapeWith]

theorem escapeWith_append (tab) (s t : Bytes) :
    escapeWith tab (s ++ t) = escapeWith tab s ++ escapeWith tab t := by
  simp [escapeWith]

/-- a byte that no table entry produces and that is itself replaced never occurs in the output -/
theorem not_mem_escapeWith (tab) (x : Nat) (h : ∀ b, x ∉ (tab b).getD [b]) (s : Bytes) :
    x ∉ escapeWith tab s := by
  induction s with
  | nil => simp
  | cons b s ih =>
    rw [escapeWith_cons]
    intro hm
    rcases List.mem_append.mp hm with hm | hm
    · exact h b hm
    · exact ih hm

/-- every output byte satisfies `p` when every piece does -/
theorem forall_mem_escapeWith (tab) (p : Nat → Prop) (h : ∀ b, ∀ y ∈ (tab b).getD [b], p y ∨ y = b)
    (s : Bytes) : ∀ y ∈ escapeWith tab s, p y ∨ y ∈ s := by
  induction s with
  | nil => simp
  | cons b s ih =>
    intro y hy
    rw [escapeWith_cons] at hy
    rcases List.mem_append.mp hy with hm | hm
    · rcases h b y hm with hp | he
      · exact Or.inl hp
      · exact Or.inr (by simp [he])
    · rcases ih y hm with hp | he
      · exact Or.inl hp
      · exact Or.inr (List.mem_cons_of_mem _ he)

/-! ### the entity reader -/

theorem foldl_dstep_fail (xs : Bytes) : xs.foldl dstep .fail = .fail := by
  induction xs with
  | nil => rfl
  | cons x xs ih => simpa [List.foldl, dstep] using ih

/-- The reader undoes one piece at a time: this is the only fact about a table that the round
trip needs. -/
def PieceOk (tab : Nat → Option Bytes) : Prop :=
  ∀ (b : Nat) (out : Bytes), ((tab b).getD [b]).foldl dstep (.text out) = .text (out ++ [b])

theorem foldl_dstep_escapeWith {tab} (h : PieceOk tab) (s out : Bytes) :
    (escapeWith tab s).foldl dstep (.text out) = .text (out ++ s) := by
  induction s generalizing out with
  | nil => simp
  | cons b s ih =>
    rw [escapeWith_cons, List.foldl_append, h b out, ih]
    simp

theorem unescapeEnt_escapeWith {tab} (h : PieceOk tab) (s : Bytes) :
    unescapeEnt (escapeWith tab s) = some s := by
  unfold unescapeEnt
  rw [foldl_dstep_escapeWith h]
  simp

theorem dstep_plain (out : Bytes) (b : Nat) (h : b ≠ 38) :
    dstep (.text out) b = .text (out ++ [b]) := by
  simp [dstep, h]

theorem pieceOk_xmlAttr : PieceOk xmlAttrTab := by
  intro b out
  unfold xmlAttrTab
  split
  · subst_vars; rfl
  split
  · subst_vars; rfl
  split
  · subst_vars; rfl
  split
  · subst_vars; rfl
  split
  · subst_vars; rfl
  · simp only [Option.getD_none, List.foldl_cons, List.foldl_nil]
    exact dstep_plain out b (by assumption)

theorem pieceOk_xmlPartial : PieceOk xmlPartialTab := by
  intro b out
  unfold xmlPartialTab
  split
  · subst_vars; rfl
  split
  · subst_vars; rfl
  split
  · subst_vars; rfl
  · simp only [Option.getD_none, List.foldl_cons, List.foldl_nil]
    exact dstep_plain out b (by assumption)

theorem pieceOk_html : PieceOk htmlTab := by
  intro b out
  unfold htmlTab
  split
  · subst_vars; rfl
  split
  · subst_vars; rfl
  split
  · subst_vars; rfl
  split
  · subst_vars; rfl
  split
  · subst_vars; rfl
  split
  · subst_vars; rfl
  · simp only [Option.getD_none, List.foldl_cons, List.foldl_nil]
    exact dstep_plain out b (by assumption)

/-! ### bytes that never appear raw -/

theorem xmlAttrTab_no (x : Nat) (hx : x = 60 ∨ x = 62 ∨ x = 34 ∨ x = 39) (b : Nat) :
    x ∉ (xmlAttrTab b).getD [b] := by
  unfold xmlAttrTab
  rcases hx with rfl | rfl | rfl | rfl <;>
  (repeat' split) <;> simp_all <;> omega

theorem xmlPartialTab_no (x : Nat) (hx : x = 60 ∨ x = 62) (b : Nat) :
    x ∉ (xmlPartialTab b).getD [b] := by
  unfold xmlPartialTab
  rcases hx with rfl | rfl <;>
  (repeat' split) <;> simp_all <;> omega

theorem htmlTab_no (x : Nat) (hx : x = 60 ∨ x = 62 ∨ x = 34 ∨ x = 39 ∨ x = 47) (b : Nat) :
    x ∉ (htmlTab b).getD [b] := by
  unfold htmlTab
  rcases hx with rfl | rfl | rfl | rfl | rfl <;>
  (repeat' split) <;> simp_all <;> omega

/-! ### `&` only starts an emitted entity -/

theorem startsWith_append (xs ys p : Bytes) (h : startsWith xs p = true) :
    startsWith (xs ++ ys) p = true := by
  induction p generalizing xs with
  | nil => cases xs <;> cases ys <;> simp [startsWith]
  | cons q p ih =>
    cases xs with
    | nil => simp [startsWith] at h
    | cons x xs =>
      simp only [startsWith, Bool.and_eq_true] at h
      simp only [List.cons_append, startsWith, Bool.and_eq_true]
      exact ⟨h.1, ih xs h.2⟩

/-- every position that holds `&` is the start of one of `ents` -/
def ampOk (ents : List Bytes) : Bytes → Bool
  | [] => true
  | b :: rest => (b != 38 || ents.any fun e => startsWith (b :: rest) e) && ampOk ents rest

theorem ampOk_append (ents : List Bytes) (xs ys : Bytes) (hx : ampOk ents xs = true)
    (hy : ampOk ents ys = true) : ampOk ents (xs ++ ys) = true := by
  induction xs with
  | nil => simpa using hy
  | cons x xs ih =>
    simp only [ampOk, Bool.and_eq_true, Bool.or_eq_true] at hx
    simp only [List.cons_append, ampOk, Bool.and_eq_true, Bool.or_eq_true]
    refine ⟨?_, ih hx.2⟩
    rcases hx.1 with h | h
    · exact Or.inl h
    · right
      rw [List.any_eq_true] at h ⊢
      obtain ⟨e, he, hs⟩ := h
      exact ⟨e, he, by simpa using startsWith_append (x :: xs) ys e hs⟩

theorem ampOk_escapeWith (ents : List Bytes) (tab)
    (h : ∀ b, ampOk ents ((tab b).getD [b]) = true) (s : Bytes) :
    ampOk ents (escapeWith tab s) = true := by
  induction s with
  | nil => rfl
  | cons b s ih => rw [escapeWith_cons]; exact ampOk_append _ _ _ (h b) ih

theorem startsWith_iff_prefix (xs p : Bytes) : startsWith xs p = true ↔ p <+: xs := by
  induction p generalizing xs with
  | nil => cases xs <;> simp [startsWith]
  | cons q p ih =>
    cases xs with
    | nil => simp [startsWith]
    | cons x xs =>
      simp only [startsWith, Bool.and_eq_true, beq_iff_eq, ih, List.cons_prefix_cons]
      constructor
      · rintro ⟨h1, h2⟩; exact ⟨h1.symm, h2⟩
      · rintro ⟨h1, h2⟩; exact ⟨h1.symm, h2⟩

/-- what `ampOk` means, position by position -/
theorem ampOk_spec (ents : List Bytes) (xs : Bytes) (h : ampOk ents xs = true) (i : Nat)
    (hi : xs[i]? = some 38) : ∃ e ∈ ents, e <+: xs.drop i := by
  induction xs generalizing i with
  | nil => simp at hi
  | cons x xs ih =>
    simp only [ampOk, Bool.and_eq_true, Bool.or_eq_true] at h
    cases i with
    | zero =>
      simp only [List.getElem?_cons_zero, Option.some.injEq] at hi
      subst hi
      rcases h.1 with h1 | h1
      · simp at h1
      · rw [List.any_eq_true] at h1
        obtain ⟨e, he, hs⟩ := h1
        exact ⟨e, he, by simpa using (startsWith_iff_prefix _ _).mp hs⟩
    | succ i =>
      simp only [List.getElem?_cons_succ] at hi
      simpa using ih h.2 i hi

theorem ampOk_xmlAttrTab (b : Nat) : ampOk xmlEntities ((xmlAttrTab b).getD [b]) = true := by
  unfold xmlAttrTab
  (repeat' split) <;> first | (subst_vars; decide) | simp_all [ampOk]

theorem ampOk_xmlPartialTab (b : Nat) : ampOk xmlEntities ((xmlPartialTab b).getD [b]) = true := by
  unfold xmlPartialTab
  (repeat' split) <;> first | (subst_vars; decide) | simp_all [ampOk]

theorem ampOk_htmlTab (b : Nat) : ampOk htmlEntities ((htmlTab b).getD [b]) = true := by
  unfold htmlTab
  (repeat' split) <;> first | (subst_vars; decide) | simp_all [ampOk]

/-! ### splitting at the delimiter -/

theorem splitAt1_append (d : Nat) (xs rest : Bytes) (h : d ∉ xs) :
    splitAt1 d (xs ++ d :: rest) = some (xs, rest) := by
  induction xs with
  | nil => simp [splitAt1]
  | cons x xs ih =>
    have hx : x ≠ d := fun e => h (by simp [e])
    have hxs : d ∉ xs := fun m => h (List.mem_cons_of_mem _ m)
    simp [splitAt1, hx, ih hxs]

theorem containsSeq_of_mem_last (p : Bytes) (x : Nat) (xs : Bytes)
    (h : containsSeq (p ++ [x]) xs = true) : x ∈ xs := by
  induction xs with
  | nil => simp [containsSeq] at h
  | cons y ys ih =>
    simp only [containsSeq, Bool.or_eq_true] at h
    rcases h with h | h
    · have := (startsWith_iff_prefix _ _).mp h
      exact this.subset (by simp)
    · exact List.mem_cons_of_mem _ (ih h)

/-! ### attribute-value normalisation is invisible on printable names -/

def NoTabNl (s : Bytes) : Prop := ∀ b ∈ s, b ≠ 9 ∧ b ≠ 10 ∧ b ≠ 13

theorem map_norm_id (xs : Bytes) (h : NoTabNl xs) : xs.map normAttrByte = xs := by
  induction xs with
  | nil => rfl
  | cons x xs ih =>
    have hx := h x (by simp)
    have : normAttrByte x = x := by simp [normAttrByte, hx.1, hx.2.1, hx.2.2]
    rw [List.map_cons, this, ih (fun b hb => h b (List.mem_cons_of_mem _ hb))]

theorem noTabNl_xmlAttr (s : Bytes) (h : NoTabNl s) : NoTabNl (xmlAttr s) := by
  intro y hy
  have key := forall_mem_escapeWith xmlAttrTab (fun y => y ≠ 9 ∧ y ≠ 10 ∧ y ≠ 13) (by
    intro b y hy
    unfold xmlAttrTab at hy
    (repeat' split at hy) <;> simp_all <;> omega) s y hy
  rcases key with k | k
  · exact k
  · exact h y k

/-! ### JSON -/

theorem hexVal_hexDigitLower (n : Nat) (h : n < 16) : hexVal (hexDigitLower n) = some n := by
  unfold hexDigitLower hexVal
  split <;> (repeat' split) <;> first | (congr 1; omega) | omega

theorem jrun_cons_cont {st : JSt} {b : Nat} {st' : JSt} (rest : Bytes)
    (h : jstep st b = .cont st') : jrun st (b :: rest) = jrun st' rest := by
  simp [jrun, h]

/-- the reader undoes one piece of the JSON encoder -/
theorem scanJson_piece (b : Nat) (out tail : Bytes) :
    scanJson out ((jsonTab b).getD [b] ++ tail) = scanJson (out ++ [b]) tail := by
  unfold jsonTab
  split
  · subst_vars; rfl
  split
  · subst_vars; rfl
  split
  · subst_vars; rfl
  split
  · subst_vars; rfl
  split
  · subst_vars; rfl
  split
  · subst_vars; rfl
  split
  · subst_vars; rfl
  split
  · rename_i hlt
    have h1 : b / 16 < 16 := by omega
    have h2 : b % 16 < 16 := by omega
    have hs : isSurrogate b = false := by
      simp only [isSurrogate, Bool.and_eq_false_iff, decide_eq_false_iff_not]; omega
    have hcp : b / 16 * 16 + b % 16 = b := by omega
    have hu : utf8 b = [b] := by simp only [utf8]; rw [if_pos (by omega)]
    have s1 : jstep (.str out) 92 = .cont (.esc out) := rfl
    have s2 : jstep (.esc out) 117 = .cont (.uni out 0 0) := rfl
    have s3 : jstep (.uni out 0 0) 48 = .cont (.uni out 1 0) := rfl
    have s4 : jstep (.uni out 1 0) 48 = .cont (.uni out 2 0) := rfl
    have s5 : jstep (.uni out 2 0) (hexDigitLower (b / 16)) = .cont (.uni out 3 (b / 16)) := by
      simp [jstep, hexVal_hexDigitLower _ h1]
    have s6 : jstep (.uni out 3 (b / 16)) (hexDigitLower (b % 16)) = .cont (.str (out ++ [b])) := by
      simp [jstep, hexVal_hexDigitLower _ h2, hs, hcp, hu]
    simp only [Option.getD_some, List.cons_append, List.nil_append, scanJson]
    rw [jrun_cons_cont _ s1, jrun_cons_cont _ s2, jrun_cons_cont _ s3, jrun_cons_cont _ s4,
      jrun_cons_cont _ s5, jrun_cons_cont _ s6]
  · rename_i h34 h92 _ _ _ _ _ h32
    simp [scanJson, jrun, jstep, h34, h92, h32]

theorem scanJson_jsonStr (s out rest : Bytes) :
    scanJson out (jsonStr s ++ 34 :: rest) = some (out ++ s, rest) := by
  induction s generalizing out with
  | nil => simp [jsonStr, scanJson, jrun, jstep]
  | cons b s ih =>
    have := ih (out ++ [b])
    unfold jsonStr at this ⊢
    rw [escapeWith_cons, List.append_assoc, scanJson_piece, this]
    simp

theorem forall_mem_escapeWith' (tab) (p : Nat → Prop) (h : ∀ b, ∀ y ∈ (tab b).getD [b], p y)
    (s : Bytes) : ∀ y ∈ escapeWith tab s, p y := by
  induction s with
  | nil => simp
  | cons b s ih =>
    intro y hy
    rw [escapeWith_cons] at hy
    rcases List.mem_append.mp hy with hm | hm
    · exact h b y hm
    · exact ih y hm

theorem jsonTab_ge32 (b : Nat) : ∀ y ∈ (jsonTab b).getD [b], 32 ≤ y := by
  intro y hy
  unfold jsonTab at hy
  (repeat' split at hy)
  all_goals first
    | (simp at hy; omega)
    | skip
  · -- \u00XY
    simp only [Option.getD_some, List.mem_cons, List.not_mem_nil, or_false] at hy
    have h1 : b / 16 < 16 := by omega
    have h2 : b % 16 < 16 := by omega
    unfold hexDigitLower at hy
    rcases hy with rfl | rfl | rfl | rfl | rfl | rfl <;> (try split) <;> omega

/-! ### path joining -/

theorem pathJoin_rel (a b : Bytes) (ha : a ≠ []) (hl : a.getLast? ≠ some 47)
    (hb : b.head? ≠ some 47) : pathJoin a b = a ++ [47] ++ b := by
  simp [pathJoin, hb, ha, hl]

theorem mem_contains_false {x : Nat} {xs : Bytes} (h : x ∉ xs) : xs.contains x = false := by
  simpa using h

/-! ### line ends and XML `Char`s -/

theorem eolNorm_cons_ne (b : Nat) (r : Bytes) (hb : b ≠ 13) : eolNorm (b :: r) = b :: eolNorm r := by
  rw [eolNorm.eq_def]
  split
  · rename_i h; cases h
  · rename_i h; cases h; exact absurd rfl hb
  · rename_i h; cases h; exact absurd rfl hb
  · rename_i h; cases h; exact absurd rfl hb
  · rename_i h; cases h; rfl

theorem eolNorm_id (xs : Bytes) (h : 13 ∉ xs) : eolNorm xs = xs := by
  induction xs with
  | nil => rfl
  | cons b r ih =>
    have hb : b ≠ 13 := fun e => h (by simp [e])
    rw [eolNorm_cons_ne b r hb, ih (fun hm => h (List.mem_cons_of_mem _ hm))]

/-- a table whose pieces contain no CR adds none -/
theorem not13_escapeWith (tab) (htab : ∀ b, ∀ y ∈ (tab b).getD [b], y ≠ 13 ∨ y = b) (s : Bytes)
    (h : 13 ∉ s) : 13 ∉ escapeWith tab s := by
  intro hm
  rcases forall_mem_escapeWith tab (fun y => y ≠ 13) htab s 13 hm with k | k
  · exact k rfl
  · exact h k

theorem xmlAttrTab_no13 (b : Nat) : ∀ y ∈ (xmlAttrTab b).getD [b], y ≠ 13 ∨ y = b := by
  intro y hy
  unfold xmlAttrTab at hy
  (repeat' split at hy) <;> simp_all <;> omega

theorem htmlTab_no13 (b : Nat) : ∀ y ∈ (htmlTab b).getD [b], y ≠ 13 ∨ y = b := by
  intro y hy
  unfold htmlTab at hy
  (repeat' split at hy) <;> simp_all <;> omega

theorem printable_ge {v : Bytes} (h : printable v = true) : ∀ b ∈ v, 32 ≤ b := by
  simp only [printable, Bool.and_eq_true, List.all_eq_true, decide_eq_true_eq] at h
  exact h.1

theorem printable_noTabNl {v : Bytes} (h : printable v = true) : NoTabNl v := by
  intro b hb
  have := printable_ge h b hb
  omega

theorem printable_no13 {v : Bytes} (h : printable v = true) : 13 ∉ v := fun hm =>
  (printable_noTabNl h 13 hm).2.2 rfl

theorem printable_xmlCharsOk {v : Bytes} (h : printable v = true) : xmlCharsOk v = true := by
  have hg := printable_ge h
  simp only [printable, Bool.and_eq_true] at h
  simp only [xmlCharsOk, Bool.and_eq_true, h.2, and_true, List.all_eq_true]
  intro b hb
  have := hg b hb
  simp [xmlByteOk, this]

theorem printable_textSafe {v : Bytes} (h : printable v = true) : textSafe v = true := by
  have hg := printable_ge h
  simp only [printable, Bool.and_eq_true] at h
  simp only [textSafe, Bool.and_eq_true, h.2, and_true, List.all_eq_true]
  intro b hb
  have := hg b hb
  simp [this]

theorem textSafe_spec {v : Bytes} (h : textSafe v = true) : xmlCharsOk v = true ∧ 13 ∉ v := by
  simp only [textSafe, Bool.and_eq_true, List.all_eq_true, Bool.or_eq_true, decide_eq_true_eq,
    beq_iff_eq] at h
  refine ⟨?_, ?_⟩
  · simp only [xmlCharsOk, Bool.and_eq_true, h.2, and_true, List.all_eq_true]
    intro b hb
    rcases h.1 b hb with (h1 | h1) | h1 <;> simp [xmlByteOk, h1]
  · intro hm
    rcases h.1 13 hm with (h1 | h1) | h1 <;> omega

/-! ### the scanners on encoder output -/

theorem scanAttr_xmlAttr (s rest : Bytes) (h : printable s = true) :
    scanAttr (xmlAttr s ++ 34 :: rest) = some (s, rest) := by
  have h34 : 34 ∉ xmlAttr s := not_mem_escapeWith _ 34 (xmlAttrTab_no 34 (by simp)) s
  have h60 : 60 ∉ xmlAttr s := not_mem_escapeWith _ 60 (xmlAttrTab_no 60 (by simp)) s
  have h13 : 13 ∉ xmlAttr s := not13_escapeWith _ xmlAttrTab_no13 s (printable_no13 h)
  unfold scanAttr
  rw [splitAt1_append 34 _ rest h34]
  simp only [mem_contains_false h60]
  rw [eolNorm_id _ h13, map_norm_id _ (noTabNl_xmlAttr s (printable_noTabNl h))]
  unfold xmlAttr
  rw [unescapeEnt_escapeWith pieceOk_xmlAttr]
  simp [printable_xmlCharsOk h]

theorem scanXmlText_xmlText (s rest : Bytes) (h : textSafe s = true) :
    scanXmlText (xmlText s ++ 60 :: rest) = some (s, rest) := by
  have h60 : 60 ∉ xmlText s := not_mem_escapeWith _ 60 (xmlAttrTab_no 60 (by simp)) s
  have h62 : 62 ∉ xmlText s := not_mem_escapeWith _ 62 (xmlAttrTab_no 62 (by simp)) s
  have hc : containsSeq [93, 93, 62] (xmlText s) = false := by
    cases hh : containsSeq [93, 93, 62] (xmlText s) with
    | false => rfl
    | true => exact absurd (containsSeq_of_mem_last [93, 93] 62 _ hh) h62
  obtain ⟨hok, h13⟩ := textSafe_spec h
  have h13' : 13 ∉ xmlText s := not13_escapeWith _ xmlAttrTab_no13 s h13
  unfold scanXmlText
  rw [splitAt1_append 60 _ rest h60]
  simp only [hc]
  rw [eolNorm_id _ h13']
  unfold xmlText
  rw [unescapeEnt_escapeWith pieceOk_xmlAttr]
  simp [hok]

/-- bytes that the entity reader copies -/
theorem foldl_dstep_plain (a out : Bytes) (h : 38 ∉ a) :
    a.foldl dstep (.text out) = .text (out ++ a) := by
  induction a generalizing out with
  | nil => simp
  | cons x a ih =>
    have hx : x ≠ 38 := fun e => h (by simp [e])
    rw [List.foldl_cons, dstep_plain out x hx, ih _ (fun m => h (List.mem_cons_of_mem _ m))]
    simp

/-- fixed template text `a`, an escaped value, fixed template text `b`: the reader returns the
three pieces with the value decoded -/
theorem unescapeEnt_wrapped {tab} (htab : PieceOk tab) (a s b : Bytes) (ha : 38 ∉ a) (hb : 38 ∉ b) :
    unescapeEnt (a ++ escapeWith tab s ++ b) = some (a ++ s ++ b) := by
  unfold unescapeEnt
  rw [List.foldl_append, List.foldl_append, foldl_dstep_plain a [] ha, foldl_dstep_escapeWith htab,
    foldl_dstep_plain b _ hb]
  simp

/-- template text without `&`, `<`, `"` or CR -/
def Plain (a : Bytes) : Prop := 38 ∉ a ∧ 60 ∉ a ∧ 34 ∉ a ∧ 13 ∉ a

theorem not_mem_append3 {x : Nat} {a m b : Bytes} (ha : x ∉ a) (hm : x ∉ m) (hb : x ∉ b) :
    x ∉ a ++ m ++ b := by
  simp [ha, hm, hb]

theorem scanHtmlText_wrapped (a s b rest : Bytes) (ha : Plain a) (hb : Plain b) (hs : 13 ∉ s) :
    scanHtmlText (a ++ html s ++ b ++ 60 :: rest) = some (a ++ s ++ b, rest) := by
  have h60 : 60 ∉ a ++ html s ++ b :=
    not_mem_append3 ha.2.1 (not_mem_escapeWith _ 60 (htmlTab_no 60 (by simp)) s) hb.2.1
  have h13 : 13 ∉ a ++ html s ++ b :=
    not_mem_append3 ha.2.2.2 (not13_escapeWith _ htmlTab_no13 s hs) hb.2.2.2
  unfold scanHtmlText
  rw [splitAt1_append 60 _ rest h60]
  simp only []
  rw [eolNorm_id _ h13]
  unfold html
  simp only [unescapeEnt_wrapped pieceOk_html a s b ha.1 hb.1]

theorem scanHtmlAttr_wrapped (a s b rest : Bytes) (ha : Plain a) (hb : Plain b) (hs : 13 ∉ s) :
    scanHtmlAttr (a ++ html s ++ b ++ 34 :: rest) = some (a ++ s ++ b, rest) := by
  have h34 : 34 ∉ a ++ html s ++ b :=
    not_mem_append3 ha.2.2.1 (not_mem_escapeWith _ 34 (htmlTab_no 34 (by simp)) s) hb.2.2.1
  have h13 : 13 ∉ a ++ html s ++ b :=
    not_mem_append3 ha.2.2.2 (not13_escapeWith _ htmlTab_no13 s hs) hb.2.2.2
  unfold scanHtmlAttr
  rw [splitAt1_append 34 _ rest h34]
  simp only []
  rw [eolNorm_id _ h13]
  unfold html
  simp only [unescapeEnt_wrapped pieceOk_html a s b ha.1 hb.1]

theorem plain_nil : Plain [] := by simp [Plain]

theorem scanHtmlAttr_html (s rest : Bytes) (hs : 13 ∉ s) :
    scanHtmlAttr (html s ++ 34 :: rest) = some (s, rest) := by
  simpa using scanHtmlAttr_wrapped [] s [] rest plain_nil plain_nil hs

theorem scanHtmlText_html (s rest : Bytes) (hs : 13 ∉ s) :
    scanHtmlText (html s ++ 60 :: rest) = some (s, rest) := by
  simpa using scanHtmlText_wrapped [] s [] rest plain_nil plain_nil hs

/-! ### the markup skeleton -/

theorem metaOf_append (a b : Bytes) : metaOf (a ++ b) = metaOf a ++ metaOf b := by
  simp [metaOf]

theorem metaOf_cons (b : Nat) (r : Bytes) :
    metaOf (b :: r) = if isMetaByte b then b :: metaOf r else metaOf r := by
  simp [metaOf, List.filter_cons]

@[simp] theorem metaOf_nil : metaOf [] = [] := rfl

theorem html_nil : html [] = [] := rfl

theorem metaOf_html (s : Bytes) : metaOf (html s) = [] := by
  obtain ⟨h60, h62, h34, h39⟩ : 60 ∉ html s ∧ 62 ∉ html s ∧ 34 ∉ html s ∧ 39 ∉ html s :=
    ⟨not_mem_escapeWith _ 60 (htmlTab_no 60 (by simp)) s,
     not_mem_escapeWith _ 62 (htmlTab_no 62 (by simp)) s,
     not_mem_escapeWith _ 34 (htmlTab_no 34 (by simp)) s,
     not_mem_escapeWith _ 39 (htmlTab_no 39 (by simp)) s⟩
  unfold metaOf
  rw [List.filter_eq_nil_iff]
  intro b hb hm
  simp only [isMetaByte, Bool.or_eq_true, beq_iff_eq] at hm
  rcases hm with ((e | e) | e) | e <;> subst e <;> contradiction

theorem metaOf_xmlAttr (s : Bytes) : metaOf (xmlAttr s) = [] := by
  obtain ⟨h60, h62, h34, h39⟩ : 60 ∉ xmlAttr s ∧ 62 ∉ xmlAttr s ∧ 34 ∉ xmlAttr s ∧ 39 ∉ xmlAttr s :=
    ⟨not_mem_escapeWith _ 60 (xmlAttrTab_no 60 (by simp)) s,
     not_mem_escapeWith _ 62 (xmlAttrTab_no 62 (by simp)) s,
     not_mem_escapeWith _ 34 (xmlAttrTab_no 34 (by simp)) s,
     not_mem_escapeWith _ 39 (xmlAttrTab_no 39 (by simp)) s⟩
  unfold metaOf
  rw [List.filter_eq_nil_iff]
  intro b hb hm
  simp only [isMetaByte, Bool.or_eq_true, beq_iff_eq] at hm
  rcases hm with ((e | e) | e) | e <;> subst e <;> contradiction

theorem jsonUnescape_jsonStr (s : Bytes) : jsonUnescape (jsonStr s) = some s := by
  unfold jsonUnescape
  rw [scanJson_jsonStr]
  simp

theorem startsWith_self_append (p xs : Bytes) : startsWith (p ++ xs) p = true := by
  induction p with
  | nil => cases xs <;> simp [startsWith]
  | cons q p ih => simp [startsWith, ih]

/-! ### URL schemes -/

theorem schemeTail_mem (xs : Bytes) (h : schemeTail xs = true) : 58 ∈ xs := by
  induction xs with
  | nil => simp [schemeTail] at h
  | cons x xs ih =>
    unfold schemeTail at h
    split at h
    · subst_vars; simp
    · split at h
      · exact List.mem_cons_of_mem _ (ih h)
      · simp at h

theorem hasScheme_mem (xs : Bytes) (h : hasScheme xs = true) : 58 ∈ xs := by
  unfold hasScheme at h
  split at h
  · simp at h
  · rename_i b rest heq
    simp only [Bool.and_eq_true] at h
    have hm : 58 ∈ b :: rest := List.mem_cons_of_mem _ (schemeTail_mem rest h.2)
    rw [← heq] at hm
    exact (List.dropWhile_sublist _).subset hm

theorem hasScheme_false_of_no_colon (xs : Bytes) (h : 58 ∉ xs) : hasScheme xs = false := by
  cases hh : hasScheme xs with
  | false => rfl
  | true => exact absurd (hasScheme_mem xs hh) h

theorem hasScheme_cons_space (xs : Bytes) : hasScheme (32 :: xs) = hasScheme xs := by
  simp [hasScheme, List.dropWhile]

/-- a `/` right after `p` fixes the answer: nothing behind it matters -/
theorem schemeTail_append_slash (p x : Bytes) : schemeTail (p ++ 47 :: x) = schemeTail p := by
  induction p with
  | nil => simp [schemeTail, isSchemeChar, isAlpha]
  | cons b p ih =>
    simp only [List.cons_append, schemeTail]
    split
    · rfl
    · split
      · exact ih
      · rfl

theorem hasScheme_append_slash (p x : Bytes) : hasScheme (p ++ 47 :: x) = hasScheme p := by
  induction p with
  | nil => simp [hasScheme, List.dropWhile, isAlpha]
  | cons b p ih =>
    by_cases hb : b = 32
    · subst hb
      rw [List.cons_append, hasScheme_cons_space, hasScheme_cons_space, ih]
    · have h1 : (b == 32) = false := by simpa using hb
      simp only [hasScheme, List.cons_append, List.dropWhile, h1, schemeTail_append_slash]

/-- once `p` contains a `/` or a `:`, what follows `p` cannot change whether the reference has a
scheme -/
theorem schemeTail_append_of_mem (p x : Bytes) (h : 47 ∈ p ∨ 58 ∈ p) :
    schemeTail (p ++ x) = schemeTail p := by
  induction p with
  | nil => simp at h
  | cons b p ih =>
    simp only [List.cons_append, schemeTail]
    split
    · rfl
    · rename_i h58
      split
      · rename_i hsc
        apply ih
        rcases h with h | h
        · rcases List.mem_cons.mp h with e | e
          · subst e; simp [isSchemeChar, isAlpha] at hsc
          · exact Or.inl e
        · rcases List.mem_cons.mp h with e | e
          · exact absurd e.symm h58
          · exact Or.inr e
      · rfl

theorem hasScheme_append_of_mem (p x : Bytes) (h : 47 ∈ p ∨ 58 ∈ p) :
    hasScheme (p ++ x) = hasScheme p := by
  induction p with
  | nil => simp at h
  | cons b p ih =>
    by_cases hb : b = 32
    · subst hb
      rw [List.cons_append, hasScheme_cons_space, hasScheme_cons_space]
      apply ih
      rcases h with h | h
      · rcases List.mem_cons.mp h with e | e
        · simp at e
        · exact Or.inl e
      · rcases List.mem_cons.mp h with e | e
        · simp at e
        · exact Or.inr e
    · have h1 : (b == 32) = false := by simpa using hb
      simp only [hasScheme, List.cons_append, List.dropWhile, h1]
      by_cases ha : isAlpha b = true
      · have hp : 47 ∈ p ∨ 58 ∈ p := by
          rcases h with h | h
          · rcases List.mem_cons.mp h with e | e
            · subst e; simp [isAlpha] at ha
            · exact Or.inl e
          · rcases List.mem_cons.mp h with e | e
            · subst e; simp [isAlpha] at ha
            · exact Or.inr e
        rw [schemeTail_append_of_mem p x hp]
      · simp [ha]

theorem hasScheme_dotSlash (x : Bytes) : hasScheme (dotSlash ++ x) = false := by
  simp [hasScheme, dotSlash, List.dropWhile, isAlpha]

theorem pathJoin_eq_append (a b : Bytes) (hb : b.head? ≠ some 47) : ∃ z, pathJoin a b = a ++ z := by
  unfold pathJoin
  simp only [hb, if_false]
  split
  · exact ⟨b, rfl⟩
  · exact ⟨[47] ++ b, by simp⟩

theorem indexHtml_rel : indexHtml.head? ≠ some 47 := by decide

theorem ne_nil_of_mem_or {p : Bytes} (h : 47 ∈ p ∨ 58 ∈ p) : p ≠ [] := by
  intro e; subst e; simp at h

theorem hasScheme_dirRowUrl_some (p item : Bytes) (h : 47 ∈ p ∨ 58 ∈ p) :
    hasScheme (dirRowUrl (some p) item) = hasScheme p := by
  simp only [dirRowUrl, ne_nil_of_mem_or h, if_false, List.append_assoc]
  exact hasScheme_append_of_mem p _ h

theorem hasScheme_fileRowUrl_some (q item : Bytes) :
    hasScheme (fileRowUrl (some q) item) = hasScheme q := by
  unfold fileRowUrl
  simp only
  split
  · subst_vars
    rw [List.append_assoc, hasScheme_dotSlash]
    rfl
  · simp only [List.append_assoc, List.singleton_append]
    exact hasScheme_append_slash q _

theorem hasScheme_fileParentLink_some (p parent : Bytes) (h : 47 ∈ p ∨ 58 ∈ p)
    (hrel : parent.head? ≠ some 47) : hasScheme (fileParentLink (some p) parent) = hasScheme p := by
  obtain ⟨z, hz⟩ := pathJoin_eq_append p parent hrel
  obtain ⟨y, hy⟩ := pathJoin_eq_append (p ++ z) indexHtml indexHtml_rel
  simp only [fileParentLink, hz, hy, List.append_assoc]
  exact hasScheme_append_of_mem p _ h

/-! ### the sinks of the HTML templates -/

theorem printable_noCtl {v : Bytes} (h : printable v = true) : noCtl v = true := by
  simp only [printable, Bool.and_eq_true] at h
  exact h.1

theorem noCtl_ge {v : Bytes} (h : noCtl v = true) : ∀ b ∈ v, 32 ≤ b := by
  simpa [noCtl] using h

theorem noCtl_no13 {v : Bytes} (h : noCtl v = true) : 13 ∉ v := fun hm => by
  have := noCtl_ge h 13 hm
  omega

theorem noCtl_append (a b : Bytes) : noCtl (a ++ b) = (noCtl a && noCtl b) := by
  simp [noCtl]

theorem noCtl_app {a b : Bytes} (ha : noCtl a = true) (hb : noCtl b = true) :
    noCtl (a ++ b) = true := by
  rw [noCtl_append, ha, hb]; rfl

theorem noCtl_slash : noCtl [47] = true := by decide

theorem noCtl_pathJoin (a b : Bytes) (ha : noCtl a = true) (hb : noCtl b = true) :
    noCtl (pathJoin a b) = true := by
  unfold pathJoin
  split
  · exact hb
  · split
    · exact noCtl_app ha hb
    · exact noCtl_app (noCtl_app ha noCtl_slash) hb

theorem noCtl_indexHtml : noCtl indexHtml = true := by decide
theorem noCtl_dotSlash : noCtl dotSlash = true := by decide
theorem noCtl_dotHtml : noCtl dotHtml = true := by decide

theorem noCtl_dirRowUrl (o : Option Bytes) (item : Bytes) (ho : ∀ p, o = some p → noCtl p = true)
    (hi : noCtl item = true) : noCtl (dirRowUrl o item) = true := by
  have hrel : noCtl (dotSlash ++ item ++ [47] ++ indexHtml) = true :=
    noCtl_app (noCtl_app (noCtl_app noCtl_dotSlash hi) noCtl_slash) noCtl_indexHtml
  unfold dirRowUrl
  cases o with
  | none => exact hrel
  | some p =>
    simp only
    split
    · exact hrel
    · exact noCtl_app (noCtl_app (noCtl_app (ho p rfl) hi) noCtl_slash) noCtl_indexHtml

theorem noCtl_fileRowUrl (o : Option Bytes) (item : Bytes) (ho : ∀ p, o = some p → noCtl p = true)
    (hi : noCtl item = true) : noCtl (fileRowUrl o item) = true := by
  have hrel : noCtl (dotSlash ++ item ++ dotHtml) = true :=
    noCtl_app (noCtl_app noCtl_dotSlash hi) noCtl_dotHtml
  unfold fileRowUrl
  cases o with
  | none => exact hrel
  | some p =>
    simp only
    split
    · exact hrel
    · exact noCtl_app (noCtl_app (noCtl_app (ho p rfl) noCtl_slash) hi) noCtl_dotHtml

theorem noCtl_fileParentLink (o : Option Bytes) (parent : Bytes)
    (ho : ∀ p, o = some p → noCtl p = true) (hpar : noCtl parent = true) :
    noCtl (fileParentLink o parent) = true := by
  unfold fileParentLink
  cases o with
  | none => show noCtl ([46, 47] ++ indexHtml) = true; decide
  | some p => exact noCtl_pathJoin _ _ (noCtl_pathJoin _ _ (ho p rfl) hpar) noCtl_indexHtml

theorem noCtl_fileTopLink (o : Option Bytes) (depth : Nat) (ho : ∀ p, o = some p → noCtl p = true) :
    noCtl (fileTopLink o depth) = true := by
  unfold fileTopLink
  cases o with
  | none =>
    refine noCtl_app ?_ noCtl_indexHtml
    induction depth with
    | zero => rfl
    | succ n ih =>
      rw [List.replicate_succ, List.flatten_cons]
      exact noCtl_app (by decide) ih
  | some p => exact noCtl_pathJoin _ _ (ho p rfl) noCtl_indexHtml

/-- `<title>Grcov report - NAME </title>`: the title text is the lead, the name and one blank -/
theorem titleFrag_scan (current rest : Bytes) (h : noCtl current = true) :
    ∃ tail, titleFrag current ++ rest = titleOpen ++ tail ∧
      scanHtmlText tail = some (titleLead ++ current ++ [32], titleClose ++ rest) := by
  refine ⟨titleLead ++ html current ++ [32] ++ 60 :: (titleClose ++ rest), ?_, ?_⟩
  · simp [titleFrag]
  · exact scanHtmlText_wrapped titleLead current [32] _ (by unfold Plain; decide)
      (by unfold Plain; decide) (noCtl_no13 h)

theorem titleFrag_meta (current : Bytes) : metaOf (titleFrag current) = metaOf (titleFrag []) := by
  simp [titleFrag, metaOf_append, metaOf_html, html_nil, metaOf_cons, isMetaByte]

theorem currentItem_scan (current rest : Bytes) (h : noCtl current = true) :
    ∃ tail, currentItem current ++ rest = currentOpen ++ tail ∧
      scanHtmlText tail = some (current, aLiClose ++ rest) := by
  refine ⟨html current ++ 60 :: (aLiClose ++ rest), ?_, ?_⟩
  · simp [currentItem]
  · exact scanHtmlText_html current _ (noCtl_no13 h)

theorem currentItem_meta (current : Bytes) :
    metaOf (currentItem current) = metaOf (currentItem []) := by
  simp [currentItem, metaOf_append, metaOf_html, html_nil, metaOf_cons, isMetaByte]

theorem rowLink_scan (url name rest : Bytes) (hu : noCtl url = true) (hn : noCtl name = true) :
    ∃ tail, rowLink url name ++ rest = rowOpen ++ tail ∧
      scanHtmlAttr tail = some (url, 62 :: (html name ++ 60 :: (aThClose ++ rest))) ∧
      scanHtmlText (html name ++ 60 :: (aThClose ++ rest)) = some (name, aThClose ++ rest) := by
  refine ⟨html url ++ 34 :: 62 :: (html name ++ 60 :: (aThClose ++ rest)), ?_, ?_, ?_⟩
  · simp [rowLink]
  · exact scanHtmlAttr_html url _ (noCtl_no13 hu)
  · exact scanHtmlText_html name _ (noCtl_no13 hn)

theorem rowLink_meta (url name : Bytes) : metaOf (rowLink url name) = metaOf (rowLink [] []) := by
  simp [rowLink, metaOf_append, metaOf_html, html_nil, metaOf_cons, isMetaByte]

theorem preLine_scan (cls text rest : Bytes) (h : noCtl text = true) :
    ∃ tail, preLine cls text ++ rest = preOpen1 ++ cls ++ preOpen2 ++ tail ∧
      scanHtmlText tail = some (text, preClose ++ rest) := by
  refine ⟨html text ++ 60 :: (preClose ++ rest), ?_, ?_⟩
  · simp [preLine]
  · exact scanHtmlText_html text _ (noCtl_no13 h)

theorem preLine_meta (cls text : Bytes) : metaOf (preLine cls text) = metaOf (preLine cls []) := by
  simp [preLine, metaOf_append, metaOf_html, html_nil, metaOf_cons, isMetaByte]

theorem breadcrumbItem_meta (link label : Bytes) :
    metaOf (breadcrumbItem link label) = metaOf (breadcrumbItem [] []) := by
  simp [breadcrumbItem, metaOf_append, metaOf_html, html_nil, metaOf_cons, isMetaByte]

/-- `P~item` (index.html 23) against `P/item` (html.rs 442): they differ whenever `P` does not end
in `/` -/
theorem dirRow_no_separator (p item : Bytes) (hp : p ≠ []) (hl : p.getLast? ≠ some 47)
    (hi : item.head? ≠ some 47) (hne : item ≠ []) (hil : item.getLast? ≠ some 47) :
    dirRowUrl (some p) item = p ++ item ++ [47] ++ indexHtml ∧
    fileParentLink (some p) item = p ++ [47] ++ item ++ [47] ++ indexHtml ∧
    dirRowUrl (some p) item ≠ fileParentLink (some p) item := by
  have h1 : dirRowUrl (some p) item = p ++ item ++ [47] ++ indexHtml := by simp [dirRowUrl, hp]
  have hj : pathJoin p item = p ++ [47] ++ item := pathJoin_rel p item hp hl hi
  have hlast : (p ++ [47] ++ item).getLast? ≠ some 47 := by
    have e : (p ++ [47] ++ item).getLast? = item.getLast? := by
      simp only [List.getLast?_append]
      cases item with
      | nil => contradiction
      | cons x xs => simp [List.getLast?_cons]
    rw [e]; exact hil
  have h2 : fileParentLink (some p) item = p ++ [47] ++ item ++ [47] ++ indexHtml := by
    simp only [fileParentLink, hj]
    rw [pathJoin_rel _ indexHtml (by simp) hlast indexHtml_rel]
  refine ⟨h1, h2, ?_⟩
  rw [h1, h2]
  intro e
  have := congrArg List.length e
  simp at this

end Grcov.Escape
