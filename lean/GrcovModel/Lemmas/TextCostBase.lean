/-
C14, part TextCost – size lemmas about association lists shared by the three text readers.
-/
import GrcovModel.Base
namespace Grcov.TextCost
open Grcov AList

set_option linter.unusedSectionVars false
variable {κ : Type} {α : Type} [DecidableEq κ]

theorem length_set_le (m : List (κ × α)) (x : κ) (v : α) : (set m x v).length ≤ m.length + 1 := by
  induction m with
  | nil => simp [AList.set]
  | cons kv m ih =>
    obtain ⟨k, w⟩ := kv
    unfold AList.set
    split <;> simp <;> omega

theorem length_set_of_some (m : List (κ × α)) (x : κ) (v : α) (h : (get? m x).isSome) :
    (set m x v).length = m.length := by
  induction m with
  | nil => simp at h
  | cons kv m ih =>
    obtain ⟨k, w⟩ := kv
    unfold AList.set
    by_cases hk : k = x
    · simp [hk]
    · simp only [get?_cons, hk, if_false] at h
      simp [hk, ih h]

theorem length_erase_le (m : List (κ × α)) (x : κ) : (erase m x).length ≤ m.length := by
  induction m with
  | nil => simp [AList.erase]
  | cons kv m ih =>
    obtain ⟨k, w⟩ := kv
    unfold AList.erase
    split <;> simp <;> omega

theorem mem_set {m : List (κ × α)} {x : κ} {v : α} {p : κ × α} (h : p ∈ set m x v) :
    p ∈ m ∨ p = (x, v) := by
  induction m with
  | nil => simp [AList.set] at h; exact Or.inr h
  | cons kv m ih =>
    obtain ⟨k, w⟩ := kv
    unfold AList.set at h
    by_cases hk : k = x
    · simp only [hk, if_true, List.mem_cons] at h
      rcases h with h | h
      · exact Or.inr h
      · exact Or.inl (List.mem_cons_of_mem _ h)
    · simp only [hk, if_false, List.mem_cons] at h
      rcases h with h | h
      · exact Or.inl (by simp [h])
      · rcases ih h with h | h
        · exact Or.inl (List.mem_cons_of_mem _ h)
        · exact Or.inr h

theorem mem_erase {m : List (κ × α)} {x : κ} {p : κ × α} (h : p ∈ erase m x) : p ∈ m := by
  induction m with
  | nil => simp [AList.erase] at h
  | cons kv m ih =>
    obtain ⟨k, w⟩ := kv
    unfold AList.erase at h
    by_cases hk : k = x
    · simp only [hk, if_true] at h
      exact List.mem_cons_of_mem _ (ih h)
    · simp only [hk, if_false, List.mem_cons] at h
      rcases h with h | h
      · simp [h]
      · exact List.mem_cons_of_mem _ (ih h)

theorem get?_mem {m : List (κ × α)} {x : κ} {v : α} (h : get? m x = some v) : (x, v) ∈ m := by
  induction m with
  | nil => simp at h
  | cons kv m ih =>
    obtain ⟨k, w⟩ := kv
    simp only [get?_cons] at h
    by_cases hk : k = x
    · simp only [hk, if_true, Option.some.injEq] at h
      simp [hk, h]
    · simp only [hk, if_false] at h
      exact List.mem_cons_of_mem _ (ih h)

/-- a weight summed over the entries of a map -/
def wsum (w : κ × α → Nat) (m : List (κ × α)) : Nat := (m.map w).sum

@[simp] theorem wsum_nil (w : κ × α → Nat) : wsum w ([] : List (κ × α)) = 0 := rfl
@[simp] theorem wsum_cons (w : κ × α → Nat) (p : κ × α) (m : List (κ × α)) :
    wsum w (p :: m) = w p + wsum w m := by simp [wsum]
theorem wsum_append (w : κ × α → Nat) (m n : List (κ × α)) :
    wsum w (m ++ n) = wsum w m + wsum w n := by simp [wsum]

/-- replacing or adding one entry: the weight of the old entry (if any) goes, the new one comes -/
theorem wsum_set (w : κ × α → Nat) (m : List (κ × α)) (x : κ) (v : α) :
    wsum w (set m x v) + (match get? m x with | some u => w (x, u) | none => 0)
      = wsum w m + w (x, v) := by
  induction m with
  | nil => simp [AList.set]
  | cons kv m ih =>
    obtain ⟨k, u⟩ := kv
    unfold AList.set
    by_cases hk : k = x
    · subst hk; simp; omega
    · simp only [hk, if_false, wsum_cons, get?_cons]
      omega

theorem wsum_set_le (w : κ × α → Nat) (m : List (κ × α)) (x : κ) (v : α) :
    wsum w (set m x v) ≤ wsum w m + w (x, v) := by
  have := wsum_set w m x v
  omega

theorem wsum_erase_le (w : κ × α → Nat) (m : List (κ × α)) (x : κ) :
    wsum w (erase m x) ≤ wsum w m := by
  induction m with
  | nil => simp [AList.erase]
  | cons kv m ih =>
    obtain ⟨k, u⟩ := kv
    unfold AList.erase
    split
    · simp only [wsum_cons]; omega
    · simp only [wsum_cons]; omega

/-- a weight that only looks at the key does not change when an existing key gets a new value -/
theorem wsum_set_key (w : κ × α → Nat) (hw : ∀ k u v, w (k, u) = w (k, v)) (m : List (κ × α))
    (x : κ) (v : α) (h : (get? m x).isSome) : wsum w (set m x v) = wsum w m := by
  have := wsum_set w m x v
  cases hg : get? m x with
  | none => simp [hg] at h
  | some u =>
    simp only [hg] at this
    rw [hw x u v] at this
    omega

theorem wsum_le_of_le (w : κ × α → Nat) (m : List (κ × α)) (B : Nat) (h : ∀ p ∈ m, w p ≤ B) :
    wsum w m ≤ B * m.length := by
  induction m with
  | nil => simp
  | cons p m ih =>
    have h1 := h p (by simp)
    have h2 := ih (fun q hq => h q (List.mem_cons_of_mem _ hq))
    simp only [wsum_cons, List.length_cons, Nat.mul_succ]
    omega

theorem le_wsum_of_mem (w : κ × α → Nat) (m : List (κ × α)) (p : κ × α) (h : p ∈ m) :
    w p ≤ wsum w m := by
  induction m with
  | nil => simp at h
  | cons q m ih =>
    simp only [List.mem_cons] at h
    rcases h with h | h
    · subst h; simp
    · have := ih h
      simp only [wsum_cons]; omega

end Grcov.TextCost
