/-
The cost-instrumented functions of Gcno/Cost.lean compute the same results as the originals
(erasing the cost), so what is proved about their costs is a statement about `prop`, `unblock`,
`lookForCircuit` themselves.
-/
import GrcovModel.Gcno.Cost
import GrcovModel.Lemmas.Gcno
namespace Grcov.Gcno
open Outcome

@[simp] theorem Outcome.map_ok {α β : Type} (g : α → β) (a : α) : (ok a).map g = ok (g a) := rfl
@[simp] theorem Outcome.map_err {α β : Type} (g : α → β) (k : ErrKind) : (err k : Outcome α).map g = err k := rfl
@[simp] theorem Outcome.map_crash {α β : Type} (g : α → β) (s : Site) : (crash s : Outcome α).map g = crash s := rfl
@[simp] theorem Outcome.map_diverge {α β : Type} (g : α → β) : (diverge : Outcome α).map g = diverge := rfl

theorem Outcome.map_bind {α β γ δ : Type} (x : Outcome α) (x' : Outcome β) (p : β → α)
    (f : α → Outcome γ) (f' : β → Outcome δ) (q : δ → γ) (hx : x'.map p = x)
    (hf : ∀ b, (f' b).map q = f (p b)) : (x'.bind f').map q = x.bind f := by
  subst hx
  cases x' with
  | ok b => simpa using hf b
  | err k => rfl
  | crash s => rfl
  | diverge => rfl

/-! ## `propagate_counts` -/

theorem arcStepC_fst (arcs : List Arc) (rec : PS → Nat → Nat → Outcome (PS × Nat))
    (recC : PS → Nat → Nat → Outcome ((PS × Nat) × Cost))
    (h : ∀ s w e, (recC s w e).map Prod.fst = rec s w e) (useSrc : Bool) (pred : Option Nat)
    (s : PS) (e : Nat) :
    (arcStepC arcs recC useSrc pred s e).map Prod.fst = arcStep arcs rec useSrc pred s e := by
  unfold arcStepC arcStep
  by_cases hp : pred = some e
  · simp only [if_pos hp]; rfl
  · simp only [if_neg hp]
    cases ha : arcs[e]? with
    | none => rfl
    | some a =>
      simp only
      by_cases ht : a.onTree = true
      · simp only [if_pos ht]; exact h _ _ _
      · simp only [if_neg ht]; rfl

theorem sumArcsC_fst (step : PS → Nat → Outcome (PS × Nat))
    (stepC : PS → Nat → Outcome ((PS × Nat) × Cost))
    (h : ∀ s e, (stepC s e).map Prod.fst = step s e) : ∀ (es : List Nat) (s : PS) (acc : Nat) (k : Cost),
    (sumArcsC stepC es s acc k).map Prod.fst = sumArcs step es s acc := by
  intro es
  induction es with
  | nil => intro s acc k; rfl
  | cons e es ih =>
    intro s acc k
    simp only [sumArcsC, sumArcs]
    refine Outcome.map_bind _ _ Prod.fst _ _ _ (h s e) ?_
    intro r
    obtain ⟨⟨s', x⟩, c⟩ := r
    simp only
    by_cases h3 : acc + x > U64MAX
    · simp only [if_pos h3]; rfl
    · simp only [if_neg h3]; exact ih _ _ _

/-- `propC` is `prop` with a cost -/
theorem propC_fst (f : Func) : ∀ (fuel : Nat) (s : PS) (b : Nat) (pred : Option Nat),
    (propC f fuel s b pred).map Prod.fst = prop f fuel s b pred := by
  intro fuel
  induction fuel with
  | zero => intro s b pred; rfl
  | succ fuel ih =>
    intro s b pred
    simp only [propC, prop]
    by_cases hv : b ∈ s.vis
    · simp only [if_pos hv]; rfl
    · simp only [if_neg hv]
      cases hb : f.blocks[b]? with
      | none => rfl
      | some blk =>
        simp only
        have hstep : ∀ useSrc s e,
            (arcStepC f.arcs (fun s w e => propC f fuel s w (some e)) useSrc pred s e).map Prod.fst =
              arcStep f.arcs (fun s w e => prop f fuel s w (some e)) useSrc pred s e :=
          fun useSrc s e => arcStepC_fst _ _ _ (fun s w e => ih s w (some e)) _ _ _ _
        refine Outcome.map_bind _ _ Prod.fst _ _ _ (sumArcsC_fst _ _ (hstep true) _ _ _ _) ?_
        intro r1
        refine Outcome.map_bind _ _ Prod.fst _ _ _ (sumArcsC_fst _ _ (hstep false) _ _ _ _) ?_
        intro r2
        obtain ⟨⟨s1, pos⟩, c1⟩ := r1
        obtain ⟨⟨s2, neg⟩, c2⟩ := r2
        simp only
        cases pred <;> rfl

theorem propAllC_fst (f : Func) (fuel : Nat) : ∀ (bs : List Nat) (s : PS) (k : Cost),
    (propAllC f fuel bs s k).map Prod.fst = propAll f fuel bs s := by
  intro bs
  induction bs with
  | nil => intro s k; rfl
  | cons b bs ih =>
    intro s k
    simp only [propAllC, propAll]
    refine Outcome.map_bind _ _ Prod.fst _ _ _ (propC_fst f fuel s b none) ?_
    intro r
    exact ih _ _

/-! ## `unblock` -/

theorem foldlC_fst {σ τ α : Type} (step : σ → α → Outcome σ) (stepC : σ × τ → α → Outcome (σ × τ))
    (h : ∀ acc a, (stepC acc a).map Prod.fst = step acc.1 a) : ∀ (l : List α) (acc : σ × τ),
    (Outcome.foldl stepC acc l).map Prod.fst = Outcome.foldl step acc.1 l := by
  intro l
  induction l with
  | nil => intro acc; rfl
  | cons a l ih =>
    intro acc
    simp only [foldl_cons]
    refine Outcome.map_bind _ _ Prod.fst _ _ _ (h acc a) ?_
    intro r
    exact ih r

theorem unblockC_fst : ∀ (fuel b : Nat) (bl : List Nat × List (List Nat)),
    (unblockC fuel b bl).map Prod.fst = unblock fuel b bl := by
  intro fuel
  induction fuel with
  | zero => intro b bl; rfl
  | succ fuel ih =>
    intro b bl
    obtain ⟨blocked, lists⟩ := bl
    simp only [unblockC, unblock]
    cases hp : position blocked b with
    | none => rfl
    | some i =>
      simp only
      cases hl : lists[i]? with
      | none => rfl
      | some l =>
        simp only
        have hf := foldlC_fst (fun bl b' => unblock fuel b' bl)
          (fun (acc : (List Nat × List (List Nat)) × Cost) b' =>
            (unblockC fuel b' acc.1).bind fun r => ok (r.1, acc.2.seq r.2))
          (by
            intro acc a
            have := ih a acc.1
            cases hu : unblockC fuel a acc.1 <;> rw [hu] at this <;> simpa using this) l
            ((blocked.eraseIdx i, lists.eraseIdx i), {})
        rw [← hf]
        cases Outcome.foldl (fun (acc : (List Nat × List (List Nat)) × Cost) b' =>
            (unblockC fuel b' acc.1).bind fun r => ok (r.1, acc.2.seq r.2))
          ((blocked.eraseIdx i, lists.eraseIdx i), {}) l <;> rfl

/-! ## `look_for_circuit` -/

theorem circuitStepC_fst (arcs : List Arc) (bs : List Nat) (start : Nat)
    (rec : Nat → CS → Outcome (CS × Bool × Nat))
    (recC : Nat → CS → Outcome ((CS × Bool × Nat) × CCost))
    (h : ∀ w s, (recC w s).map Prod.fst = rec w s) (acc : (CS × Bool × Nat) × CCost) (e : Nat) :
    (circuitStepC arcs bs start recC acc e).map Prod.fst = circuitStep arcs bs start rec acc.1 e := by
  obtain ⟨⟨s, found, count⟩, k⟩ := acc
  simp only [circuitStepC, circuitStep]
  cases ha : arcs[e]? with
  | none => rfl
  | some a =>
    simp only
    by_cases h1 : a.dst ≥ start ∧ a.dst ∈ bs
    · simp only [if_pos h1]
      by_cases h2 : a.dst = start
      · simp only [if_pos h2]
        cases hc : cycleCount s.cyc (s.path ++ [e]) with
        | ok r =>
          obtain ⟨cy, c⟩ := r
          simp only [bind_ok]
          by_cases h3 : count + c > U64MAX
          · simp only [if_pos h3]; rfl
          · simp only [if_neg h3]; rfl
        | err k => rfl
        | crash s' => rfl
        | diverge => rfl
      · simp only [if_neg h2]
        by_cases h4 : a.dst ∉ s.blocked
        · simp only [if_pos h4]
          refine Outcome.map_bind _ _ Prod.fst _ _ _ (h _ _) ?_
          intro r
          obtain ⟨⟨s', f', c⟩, k'⟩ := r
          simp only
          by_cases h3 : count + c > U64MAX
          · simp only [if_pos h3]; rfl
          · simp only [if_neg h3]; rfl
        · simp only [if_neg h4]; rfl
    · simp only [if_neg h1]; rfl

theorem lookForCircuitC_fst (f : Func) (bs : List Nat) (start : Nat) : ∀ (fuel v : Nat) (s : CS),
    (lookForCircuitC f bs start fuel v s).map Prod.fst = lookForCircuit f bs start fuel v s := by
  intro fuel
  induction fuel with
  | zero => intro v s; rfl
  | succ fuel ih =>
    intro v s
    simp only [lookForCircuitC, lookForCircuit]
    cases hb : f.blocks[v]? with
    | none => rfl
    | some blk =>
      simp only
      have hf := foldlC_fst (circuitStep f.arcs bs start (lookForCircuit f bs start fuel))
        (circuitStepC f.arcs bs start (lookForCircuitC f bs start fuel))
        (fun acc a => circuitStepC_fst _ _ _ _ _ (fun w s => ih w s) acc a) blk.destination
      refine Outcome.map_bind _ _ Prod.fst _ _ _ (hf _) ?_
      intro r
      obtain ⟨⟨s', found, count⟩, k⟩ := r
      simp only
      by_cases hfound : found = true
      · simp only [if_pos hfound]
        refine Outcome.map_bind _ _ Prod.fst _ _ _ (unblockC_fst _ _ _) ?_
        intro u
        rfl
      · simp only [if_neg hfound]
        cases noteBlocked f.arcs bs start v blk.destination s' <;> rfl

theorem cyclesCountC_fst (f : Func) (fuel : Nat) (bs : List Nat) (cyc : Nat → Nat) :
    (cyclesCountC f fuel bs cyc).map Prod.fst = cyclesCount f fuel bs cyc := by
  unfold cyclesCountC cyclesCount
  refine foldlC_fst (cyclesStep f fuel bs) _ ?_ bs _
  intro acc b
  unfold cyclesStep
  refine Outcome.map_bind _ _ Prod.fst _ _ _ (lookForCircuitC_fst f bs b fuel b _) ?_
  intro r
  obtain ⟨⟨s', f', c⟩, k'⟩ := r
  simp only
  by_cases h3 : acc.1.2 + c > U64MAX
  · simp only [if_pos h3]; rfl
  · simp only [if_neg h3]; rfl

end Grcov.Gcno
