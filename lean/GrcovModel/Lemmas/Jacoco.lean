/-
Helper lemmas for C10 (model: GrcovModel/Jacoco.lean, specification: GrcovModel/Spec/Jacoco.lean).
-/
import GrcovModel.Spec.Jacoco
namespace Grcov.Jacoco
open Grcov AList Grcov.Jacoco.Spec

/-! ## expand -/

theorem expand_append (a b : List XmlEvent) : expand (a ++ b) = expand a ++ expand b := by
  induction a with
  | nil => rfl
  | cons e a ih => cases e <;> simp [expand, ih]

theorem expand_flatMap {α : Type} (l : List α) (f : α → List XmlEvent) :
    expand (l.flatMap f) = l.flatMap fun x => expand (f x) := by
  induction l with
  | nil => rfl
  | cons x l ih => simp [List.flatMap_cons, expand_append, ih]

theorem expand_elem (sc : Bool) (t : Name) (a : List Attr) (body : List XmlEvent) :
    expand (elem sc t a body) = .start t a :: expand body ++ [.end_ t] := by
  unfold elem
  split
  · rename_i h
    simp only [Bool.and_eq_true, List.isEmpty_iff] at h
    simp [h.2, expand]
  · simp [expand, expand_append]

theorem length_expand_le (l : List XmlEvent) : (expand l).length ≤ 2 * l.length := by
  induction l with
  | nil => simp [expand]
  | cons e l ih => cases e <;> simp [expand] <;> omega

/-! ## attributes -/

theorem mem_keys_of_mem {k v : Name} {attrs : List Attr} (h : (k, v) ∈ attrs) :
    k ∈ attrs.map (·.1) := List.mem_map.mpr ⟨(k, v), h, rfl⟩

theorem attr_unique {attrs : List Attr} (nd : (attrs.map (·.1)).Nodup) {k r1 r2 : Name}
    (h1 : (k, r1) ∈ attrs) (h2 : (k, r2) ∈ attrs) : r1 = r2 := by
  induction attrs with
  | nil => cases h1
  | cons a attrs ih =>
    simp only [List.map_cons, List.nodup_cons] at nd
    rcases List.mem_cons.mp h1 with e1 | m1 <;> rcases List.mem_cons.mp h2 with e2 | m2
    · rw [← e2] at e1; exact (Prod.mk.inj e1).2
    · exact absurd (by rw [← e1]; exact mem_keys_of_mem m2) nd.1
    · exact absurd (by rw [← e2]; exact mem_keys_of_mem m1) nd.1
    · exact ih nd.2 m1 m2

theorem getAttrAux_ok (key : Name) (v raw : Name) :
    ∀ (attrs : List Attr) (seen : List Name), (∀ a ∈ attrs, a.1 ∉ seen) →
      (attrs.map (·.1)).Nodup → (key, raw) ∈ attrs → unescape raw = some v →
      getAttrAux key seen attrs = .ok v := by
  intro attrs
  induction attrs with
  | nil => intro _ _ _ h; cases h
  | cons a attrs ih =>
    intro seen hs nd hm hu
    obtain ⟨k', v'⟩ := a
    simp only [List.map_cons, List.nodup_cons] at nd
    have hk' : k' ∉ seen := hs (k', v') (List.mem_cons_self ..)
    unfold getAttrAux
    simp only [hk', if_false]
    by_cases hk : k' = key
    · subst hk
      simp only [if_true]
      rcases List.mem_cons.mp hm with e | m
      · cases e; simp [hu]
      · exact absurd (mem_keys_of_mem m) nd.1
    · simp only [hk, if_false]
      rcases List.mem_cons.mp hm with e | m
      · cases e; exact absurd rfl hk
      · apply ih (k' :: seen) _ nd.2 m hu
        intro a ha
        simp only [List.mem_cons, not_or]
        refine ⟨?_, hs a (List.mem_cons_of_mem _ ha)⟩
        intro e
        exact nd.1 (e ▸ List.mem_map.mpr ⟨a, ha, rfl⟩)

theorem getAttrAux_missing (key : Name) :
    ∀ (attrs : List Attr) (seen : List Name), (∀ a ∈ attrs, a.1 ∉ seen) →
      (attrs.map (·.1)).Nodup → (∀ a ∈ attrs, a.1 ≠ key) →
      getAttrAux key seen attrs = .error .invalidRecord := by
  intro attrs
  induction attrs with
  | nil => intros; rfl
  | cons a attrs ih =>
    intro seen hs nd hne
    obtain ⟨k', v'⟩ := a
    simp only [List.map_cons, List.nodup_cons] at nd
    have hk' : k' ∉ seen := hs (k', v') (List.mem_cons_self ..)
    have hk : k' ≠ key := hne (k', v') (List.mem_cons_self ..)
    unfold getAttrAux
    simp only [hk', hk, if_false]
    apply ih (k' :: seen) _ nd.2 (fun a ha => hne a (List.mem_cons_of_mem _ ha))
    intro a ha
    simp only [List.mem_cons, not_or]
    refine ⟨?_, hs a (List.mem_cons_of_mem _ ha)⟩
    intro e
    exact nd.1 (e ▸ List.mem_map.mpr ⟨a, ha, rfl⟩)

theorem nodupKeys_iff (attrs : List Attr) : nodupKeys attrs = true ↔ (attrs.map (·.1)).Nodup := by
  simp [nodupKeys]

theorem getAttr_of_hasAttr {attrs : List Attr} {k v : Name} (nd : nodupKeys attrs = true)
    (h : hasAttr attrs k v = true) : getAttr k attrs = .ok v := by
  simp only [hasAttr, List.any_eq_true, Bool.and_eq_true, decide_eq_true_eq] at h
  obtain ⟨⟨k', raw⟩, hm, hk, hu⟩ := h
  simp only at hk hu; subst hk
  exact getAttrAux_ok _ _ _ _ _ (by simp) ((nodupKeys_iff _).mp nd) hm hu

theorem getAttr_of_hasNum {attrs : List Attr} {k : Name} {b n : Nat} (nd : nodupKeys attrs = true)
    (h : hasNum b attrs k n = true) :
    ∃ s, getAttr k attrs = .ok s ∧ parseUnsigned b s = some n := by
  simp only [hasNum, List.any_eq_true, Bool.and_eq_true, decide_eq_true_eq] at h
  obtain ⟨⟨k', raw⟩, hm, hk, hu⟩ := h
  simp only at hk hu; subst hk
  cases hun : unescape raw with
  | none => simp [hun] at hu
  | some s =>
    simp only [hun, decide_eq_true_eq] at hu
    exact ⟨s, getAttrAux_ok _ _ _ _ _ (by simp) ((nodupKeys_iff _).mp nd) hm hun, hu⟩

theorem getAttr_of_hasNoKey {attrs : List Attr} {k : Name} (nd : nodupKeys attrs = true)
    (h : hasNoKey attrs k = true) : getAttr k attrs = .error .invalidRecord := by
  simp only [hasNoKey, List.all_eq_true, decide_eq_true_eq] at h
  exact getAttrAux_missing _ _ _ (by simp) ((nodupKeys_iff _).mp nd) h

def upd (attrs : List Attr) (k : Name) (old : Option Nat) (n : Nat) : Option Nat :=
  if k ∈ attrs.map (·.1) then some n else old

theorem upd_cons_self (k v : Name) (attrs : List Attr) (old : Option Nat) (n : Nat) :
    upd ((k, v) :: attrs) k old n = some n := by simp [upd]

theorem upd_cons_ne {k k' : Name} (h : k ≠ k') (v : Name) (attrs : List Attr) (old : Option Nat)
    (n : Nat) : upd ((k', v) :: attrs) k old n = upd attrs k old n := by
  simp only [upd, List.map_cons, List.mem_cons, h, false_or]

theorem upd_some (attrs : List Attr) (k : Name) (n : Nat) : upd attrs k (some n) n = some n := by
  unfold upd; split <;> rfl

theorem keys_distinct : sCi ≠ sCb ∧ sCi ≠ sMb ∧ sCi ≠ sNr ∧ sCb ≠ sMb ∧ sCb ≠ sNr ∧ sMb ≠ sNr := by
  decide

theorem lineAttrs_ok (ci cb mb nr : Nat) :
    ∀ (attrs : List Attr) (seen : List Name) (acc : LineAcc), (∀ a ∈ attrs, a.1 ∉ seen) →
      (attrs.map (·.1)).Nodup →
      (∀ a ∈ attrs, a.1 = sCi → parseUnsigned U64MAX a.2 = some ci) →
      (∀ a ∈ attrs, a.1 = sCb → parseUnsigned U64MAX a.2 = some cb) →
      (∀ a ∈ attrs, a.1 = sMb → parseUnsigned U64MAX a.2 = some mb) →
      (∀ a ∈ attrs, a.1 = sNr → parseUnsigned U32MAX a.2 = some nr) →
      lineAttrs seen attrs acc = .ok ⟨upd attrs sCi acc.ci ci, upd attrs sCb acc.cb cb,
        upd attrs sMb acc.mb mb, upd attrs sNr acc.nr nr⟩ := by
  intro attrs
  induction attrs with
  | nil => intro seen acc _ _ _ _ _ _; simp [lineAttrs, upd]
  | cons a attrs ih =>
    intro seen acc hs nd h1 h2 h3 h4
    obtain ⟨k', v'⟩ := a
    simp only [List.map_cons, List.nodup_cons] at nd
    have hk' : k' ∉ seen := hs (k', v') (List.mem_cons_self ..)
    have hs' : ∀ a ∈ attrs, a.1 ∉ k' :: seen := by
      intro a ha
      simp only [List.mem_cons, not_or]
      refine ⟨?_, hs a (List.mem_cons_of_mem _ ha)⟩
      intro e
      exact nd.1 (e ▸ List.mem_map.mpr ⟨a, ha, rfl⟩)
    have r1 := fun a ha => h1 a (List.mem_cons_of_mem _ ha)
    have r2 := fun a ha => h2 a (List.mem_cons_of_mem _ ha)
    have r3 := fun a ha => h3 a (List.mem_cons_of_mem _ ha)
    have r4 := fun a ha => h4 a (List.mem_cons_of_mem _ ha)
    obtain ⟨d1, d2, d3, d4, d5, d6⟩ := keys_distinct
    unfold lineAttrs
    simp only [hk', if_false]
    by_cases e1 : k' = sCi
    · subst e1
      have := h1 (sCi, v') (List.mem_cons_self ..) rfl
      simp only at this
      simp only [if_true, this]
      rw [ih _ _ hs' nd.2 r1 r2 r3 r4]
      simp only [upd_cons_self, upd_some, upd_cons_ne d1.symm, upd_cons_ne d2.symm, upd_cons_ne d3.symm]
    · simp only [e1, if_false]
      by_cases e2 : k' = sCb
      · subst e2
        have := h2 (sCb, v') (List.mem_cons_self ..) rfl
        simp only at this
        simp only [if_true, this]
        rw [ih _ _ hs' nd.2 r1 r2 r3 r4]
        simp only [upd_cons_self, upd_some, upd_cons_ne d1, upd_cons_ne d4.symm, upd_cons_ne d5.symm]
      · simp only [e2, if_false]
        by_cases e3 : k' = sMb
        · subst e3
          have := h3 (sMb, v') (List.mem_cons_self ..) rfl
          simp only at this
          simp only [if_true, this]
          rw [ih _ _ hs' nd.2 r1 r2 r3 r4]
          simp only [upd_cons_self, upd_some, upd_cons_ne d2, upd_cons_ne d4, upd_cons_ne d6.symm]
        · simp only [e3, if_false]
          by_cases e4 : k' = sNr
          · subst e4
            have := h4 (sNr, v') (List.mem_cons_self ..) rfl
            simp only at this
            simp only [if_true, this]
            rw [ih _ _ hs' nd.2 r1 r2 r3 r4]
            simp only [upd_cons_self, upd_some, upd_cons_ne d3, upd_cons_ne d5, upd_cons_ne d6]
          · simp only [e4, if_false]
            rw [ih _ _ hs' nd.2 r1 r2 r3 r4]
            have n1 : sCi ≠ k' := fun h => e1 h.symm
            have n2 : sCb ≠ k' := fun h => e2 h.symm
            have n3 : sMb ≠ k' := fun h => e3 h.symm
            have n4 : sNr ≠ k' := fun h => e4 h.symm
            simp only [upd_cons_ne n1, upd_cons_ne n2, upd_cons_ne n3, upd_cons_ne n4]

theorem hasRawNum_elim {attrs : List Attr} {k : Name} {b n : Nat}
    (nd : (attrs.map (·.1)).Nodup) (h : hasRawNum b attrs k n = true) :
    k ∈ attrs.map (·.1) ∧ ∀ a ∈ attrs, a.1 = k → parseUnsigned b a.2 = some n := by
  simp only [hasRawNum, List.any_eq_true, Bool.and_eq_true, decide_eq_true_eq] at h
  obtain ⟨⟨k', raw⟩, hm, hk, hu⟩ := h
  simp only at hk hu; subst hk
  refine ⟨mem_keys_of_mem hm, ?_⟩
  intro a ha hk
  obtain ⟨k2, r2⟩ := a
  simp only at hk; subst hk
  rw [attr_unique nd ha hm]; exact hu

/-- the attribute loop of a well-formed `<line>` reads exactly the four numbers -/
theorem lineAttrs_of_wf {l : Line} {tag : Name} {attrs : List Attr} {sc : Bool}
    (h : (SSeg.line l tag attrs sc).wf = true) :
    localName tag = sLine ∧
    lineAttrs [] attrs {} = .ok ⟨some l.ci, some l.cb, some l.mb, some l.nr⟩ := by
  simp only [SSeg.wf, Bool.and_eq_true, decide_eq_true_eq] at h
  obtain ⟨⟨⟨⟨⟨ht, nd⟩, h1⟩, h2⟩, h3⟩, h4⟩ := h
  have nd' := (nodupKeys_iff _).mp nd
  obtain ⟨m1, p1⟩ := hasRawNum_elim nd' h1
  obtain ⟨m2, p2⟩ := hasRawNum_elim nd' h2
  obtain ⟨m3, p3⟩ := hasRawNum_elim nd' h3
  obtain ⟨m4, p4⟩ := hasRawNum_elim nd' h4
  refine ⟨ht, ?_⟩
  rw [lineAttrs_ok l.ci l.cb l.mb l.nr attrs [] {} (by simp) nd' p1 p2 p3 p4]
  simp [upd, m1, m2, m3, m4]

/-! ## `<sourcefile>` -/

/-- what one `<line>` does to the accumulated maps -/
def srcStep (acc : SrcAcc) (l : Line) : SrcAcc :=
  if l.isBranch then
    { acc with branches := set acc.branches l.nr (List.replicate l.cb true ++ List.replicate l.mb false) }
  else { acc with lines := set acc.lines l.nr (if l.ci > 0 then 1 else 0) }

theorem commitLine_eq (acc : SrcAcc) (l : Line) :
    commitLine acc ⟨some l.ci, some l.cb, some l.mb, some l.nr⟩ = .ok (srcStep acc l) := by
  unfold commitLine srcStep Line.isBranch
  by_cases h : l.mb > 0 ∨ l.cb > 0
  · have : l.mb + l.cb > 0 := by omega
    simp [h, this]
  · have : ¬ l.mb + l.cb > 0 := by omega
    simp [h, this]

def Spec.SSeg.step (acc : SrcAcc) : SSeg → SrcAcc
  | .line l _ _ _ => srcStep acc l
  | .junk _ => acc

theorem src_junk_step {e : XmlEvent} (h : ignorable [sLine] sSourcefile e = true) (fuel : Nat)
    (rest : List XmlEvent) (acc : SrcAcc) (hf : fuel ≥ (expand [e]).length) :
    sourcefileLoop fuel (expand [e] ++ rest) acc
      = sourcefileLoop (fuel - (expand [e]).length) rest acc := by
  cases e with
  | start n a =>
    simp only [ignorable, List.mem_singleton, decide_eq_true_eq] at h
    simp only [expand, List.length_cons, List.length_nil] at hf ⊢
    obtain ⟨f, rfl⟩ : ∃ f, fuel = f + 1 := ⟨fuel - 1, by omega⟩
    simp [sourcefileLoop, h]
  | empty n a =>
    simp only [ignorable, List.mem_singleton, decide_eq_true_eq, Bool.and_eq_true] at h
    simp only [expand, List.length_cons, List.length_nil] at hf ⊢
    obtain ⟨f, rfl⟩ : ∃ f, fuel = f + 2 := ⟨fuel - 2, by omega⟩
    simp [sourcefileLoop, h.1, h.2]
  | end_ n =>
    simp only [ignorable, decide_eq_true_eq] at h
    simp only [expand, List.length_cons, List.length_nil] at hf ⊢
    obtain ⟨f, rfl⟩ : ∃ f, fuel = f + 1 := ⟨fuel - 1, by omega⟩
    simp [sourcefileLoop, h]
  | text =>
    simp only [expand, List.length_cons, List.length_nil] at hf ⊢
    obtain ⟨f, rfl⟩ : ∃ f, fuel = f + 1 := ⟨fuel - 1, by omega⟩
    simp [sourcefileLoop]
  | other =>
    simp only [expand, List.length_cons, List.length_nil] at hf ⊢
    obtain ⟨f, rfl⟩ : ∃ f, fuel = f + 1 := ⟨fuel - 1, by omega⟩
    simp [sourcefileLoop]
  | bad => simp [ignorable] at h

theorem src_seg_step (s : SSeg) (hs : s.wf = true) (fuel : Nat) (rest : List XmlEvent)
    (acc : SrcAcc) (hf : fuel ≥ (expand s.events).length) :
    sourcefileLoop fuel (expand s.events ++ rest) acc
      = sourcefileLoop (fuel - (expand s.events).length) rest (s.step acc) := by
  cases s with
  | junk e => exact src_junk_step hs fuel rest acc hf
  | line l tag attrs sc =>
    obtain ⟨ht, ha⟩ := lineAttrs_of_wf hs
    simp only [SSeg.events, expand_elem, expand, List.nil_append, List.length_cons,
      List.length_nil, List.cons_append] at hf ⊢
    obtain ⟨f, rfl⟩ : ∃ f, fuel = f + 2 := ⟨fuel - 2, by omega⟩
    have hne : sLine ≠ sSourcefile := by decide
    simp [sourcefileLoop, ht, ha, commitLine_eq, SSeg.step, hne]

theorem src_body (body : List SSeg) (hb : ∀ s ∈ body, s.wf = true) :
    ∀ (fuel : Nat) (t : Name) (rest : List XmlEvent) (acc : SrcAcc),
      localName t = sSourcefile → fuel > (expand (body.flatMap SSeg.events)).length →
      sourcefileLoop fuel (expand (body.flatMap SSeg.events) ++ .end_ t :: rest) acc
        = .ok ((body.filterMap SSeg.line?).foldl srcStep acc, rest) := by
  induction body with
  | nil =>
    intro fuel t rest acc ht hf
    obtain ⟨f, rfl⟩ : ∃ f, fuel = f + 1 := ⟨fuel - 1, by simp [expand] at hf; omega⟩
    simp [expand, sourcefileLoop, ht]
  | cons s body ih =>
    intro fuel t rest acc ht hf
    have hs := hb s (List.mem_cons_self ..)
    simp only [List.flatMap_cons, expand_append, List.length_append] at hf
    simp only [List.flatMap_cons, expand_append, List.append_assoc]
    rw [src_seg_step s hs fuel _ acc (by omega)]
    rw [ih (fun s hs => hb s (List.mem_cons_of_mem _ hs)) _ t rest _ ht (by omega)]
    cases s <;> simp [SSeg.step, SSeg.line?, List.filterMap_cons]

/-! ## `<method>` -/

def Spec.MSeg.step (ex : Bool) : MSeg → Bool
  | .counter c _ _ _ => decide (c > 0)
  | _ => ex

theorem method_junk_step {e : XmlEvent} (h : ignorable [sCounter] sMethod e = true) (fuel : Nat)
    (rest : List XmlEvent) (ex : Bool) (hf : fuel ≥ (expand [e]).length) :
    methodLoop fuel (expand [e] ++ rest) ex
      = methodLoop (fuel - (expand [e]).length) rest ex := by
  cases e with
  | start n a =>
    simp only [ignorable, List.mem_singleton, decide_eq_true_eq] at h
    simp only [expand, List.length_cons, List.length_nil] at hf ⊢
    obtain ⟨f, rfl⟩ : ∃ f, fuel = f + 1 := ⟨fuel - 1, by omega⟩
    simp [methodLoop, h]
  | empty n a =>
    simp only [ignorable, List.mem_singleton, decide_eq_true_eq, Bool.and_eq_true] at h
    simp only [expand, List.length_cons, List.length_nil] at hf ⊢
    obtain ⟨f, rfl⟩ : ∃ f, fuel = f + 2 := ⟨fuel - 2, by omega⟩
    simp [methodLoop, h.1, h.2]
  | end_ n =>
    simp only [ignorable, decide_eq_true_eq] at h
    simp only [expand, List.length_cons, List.length_nil] at hf ⊢
    obtain ⟨f, rfl⟩ : ∃ f, fuel = f + 1 := ⟨fuel - 1, by omega⟩
    simp [methodLoop, h]
  | text =>
    simp only [expand, List.length_cons, List.length_nil] at hf ⊢
    obtain ⟨f, rfl⟩ : ∃ f, fuel = f + 1 := ⟨fuel - 1, by omega⟩
    simp [methodLoop]
  | other =>
    simp only [expand, List.length_cons, List.length_nil] at hf ⊢
    obtain ⟨f, rfl⟩ : ∃ f, fuel = f + 1 := ⟨fuel - 1, by omega⟩
    simp [methodLoop]
  | bad => simp [ignorable] at h

theorem method_seg_step (s : MSeg) (hs : s.wf = true) (fuel : Nat) (rest : List XmlEvent)
    (ex : Bool) (hf : fuel ≥ (expand s.events).length) :
    methodLoop fuel (expand s.events ++ rest) ex
      = methodLoop (fuel - (expand s.events).length) rest (s.step ex) := by
  have hne : sCounter ≠ sMethod := by decide
  cases s with
  | junk e => exact method_junk_step hs fuel rest ex hf
  | counter c tag attrs sc =>
    simp only [MSeg.wf, Bool.and_eq_true, decide_eq_true_eq] at hs
    obtain ⟨⟨⟨ht, nd⟩, h1⟩, h2⟩ := hs
    obtain ⟨sv, hg, hp⟩ := getAttr_of_hasNum nd h2
    simp only [MSeg.events, expand_elem, expand, List.nil_append, List.length_cons,
      List.length_nil, List.cons_append] at hf ⊢
    obtain ⟨f, rfl⟩ : ∃ f, fuel = f + 2 := ⟨fuel - 2, by omega⟩
    simp [methodLoop, ht, getAttr_of_hasAttr nd h1, hg, hp, MSeg.step, hne]
  | otherCounter ty tag attrs sc =>
    simp only [MSeg.wf, Bool.and_eq_true, decide_eq_true_eq] at hs
    obtain ⟨⟨⟨ht, nd⟩, h1⟩, h2⟩ := hs
    simp only [MSeg.events, expand_elem, expand, List.nil_append, List.length_cons,
      List.length_nil, List.cons_append] at hf ⊢
    obtain ⟨f, rfl⟩ : ∃ f, fuel = f + 2 := ⟨fuel - 2, by omega⟩
    simp [methodLoop, ht, getAttr_of_hasAttr nd h1, h2, MSeg.step, hne]

theorem method_body (body : List MSeg) (hb : ∀ s ∈ body, s.wf = true) :
    ∀ (fuel : Nat) (t : Name) (rest : List XmlEvent) (ex : Bool),
      localName t = sMethod → fuel > (expand (body.flatMap MSeg.events)).length →
      methodLoop fuel (expand (body.flatMap MSeg.events) ++ .end_ t :: rest) ex
        = .ok (body.foldl MSeg.step ex, rest) := by
  induction body with
  | nil =>
    intro fuel t rest ex ht hf
    obtain ⟨f, rfl⟩ : ∃ f, fuel = f + 1 := ⟨fuel - 1, by simp [expand] at hf; omega⟩
    simp [expand, methodLoop, ht]
  | cons s body ih =>
    intro fuel t rest ex ht hf
    have hs := hb s (List.mem_cons_self ..)
    simp only [List.flatMap_cons, expand_append, List.length_append] at hf
    simp only [List.flatMap_cons, expand_append, List.append_assoc]
    rw [method_seg_step s hs fuel _ ex (by omega)]
    rw [ih (fun s hs => hb s (List.mem_cons_of_mem _ hs)) _ t rest _ ht (by omega)]
    simp

/-- the state after the body is `executed` of the abstract method -/
theorem method_fold_eq (body : List MSeg) (ex : Bool) :
    body.foldl MSeg.step ex
      = match (body.filterMap MSeg.covered?).getLast? with
        | some c => decide (c > 0)
        | none => ex := by
  induction body generalizing ex with
  | nil => rfl
  | cons s body ih =>
    rw [List.foldl_cons, ih]
    cases s with
    | counter c tag attrs sc =>
      simp only [MSeg.step, List.filterMap_cons, MSeg.covered?]
      cases h : (body.filterMap MSeg.covered?) with
      | nil => simp
      | cons x xs =>
        simp only [List.getLast?_cons_cons]
        cases hl : (x :: xs).getLast? with
        | none => simp at hl
        | some y => rfl
    | otherCounter ty tag attrs sc => simp [MSeg.step, List.filterMap_cons, MSeg.covered?]
    | junk e => simp [MSeg.step, List.filterMap_cons, MSeg.covered?]

theorem method_executed (m : XMethod) : m.body.foldl MSeg.step false = m.abs.executed := by
  rw [method_fold_eq]; simp only [XMethod.abs, Method.executed]
  cases (m.body.filterMap MSeg.covered?).getLast? <;> rfl

/-! ## `<class>` -/

def Spec.CSeg.step (cls : Name) (fns : List (Name × Fn)) : CSeg → List (Name × Fn)
  | .method m => set fns (cls ++ cHash :: m.name) ⟨m.line, m.abs.executed⟩
  | .junk _ => fns

theorem class_junk_step (cls : Name) {e : XmlEvent} (h : ignorable [sMethod] sClass e = true)
    (fuel : Nat) (rest : List XmlEvent) (fns : List (Name × Fn)) (hf : fuel ≥ (expand [e]).length) :
    classLoop cls fuel (expand [e] ++ rest) fns
      = classLoop cls (fuel - (expand [e]).length) rest fns := by
  cases e with
  | start n a =>
    simp only [ignorable, List.mem_singleton, decide_eq_true_eq] at h
    simp only [expand, List.length_cons, List.length_nil] at hf ⊢
    obtain ⟨f, rfl⟩ : ∃ f, fuel = f + 1 := ⟨fuel - 1, by omega⟩
    simp [classLoop, h]
  | empty n a =>
    simp only [ignorable, List.mem_singleton, decide_eq_true_eq, Bool.and_eq_true] at h
    simp only [expand, List.length_cons, List.length_nil] at hf ⊢
    obtain ⟨f, rfl⟩ : ∃ f, fuel = f + 2 := ⟨fuel - 2, by omega⟩
    simp [classLoop, h.1, h.2]
  | end_ n =>
    simp only [ignorable, decide_eq_true_eq] at h
    simp only [expand, List.length_cons, List.length_nil] at hf ⊢
    obtain ⟨f, rfl⟩ : ∃ f, fuel = f + 1 := ⟨fuel - 1, by omega⟩
    simp [classLoop, h]
  | text =>
    simp only [expand, List.length_cons, List.length_nil] at hf ⊢
    obtain ⟨f, rfl⟩ : ∃ f, fuel = f + 1 := ⟨fuel - 1, by omega⟩
    simp [classLoop]
  | other =>
    simp only [expand, List.length_cons, List.length_nil] at hf ⊢
    obtain ⟨f, rfl⟩ : ∃ f, fuel = f + 1 := ⟨fuel - 1, by omega⟩
    simp [classLoop]
  | bad => simp [ignorable] at h

theorem class_seg_step (cls : Name) (s : CSeg) (hs : s.wf = true) (fuel : Nat)
    (rest : List XmlEvent) (fns : List (Name × Fn)) (hf : fuel ≥ (expand s.events).length) :
    ∃ f', fuel ≤ f' + (expand s.events).length ∧
      classLoop cls fuel (expand s.events ++ rest) fns = classLoop cls f' rest (s.step cls fns) := by
  cases s with
  | junk e =>
    simp only [CSeg.events] at hf ⊢
    exact ⟨_, by omega, class_junk_step cls hs fuel rest fns hf⟩
  | method m =>
    simp only [CSeg.wf, XMethod.wf, Bool.and_eq_true, decide_eq_true_eq, List.all_eq_true] at hs
    obtain ⟨⟨⟨⟨ht, nd⟩, h1⟩, h2⟩, hb⟩ := hs
    obtain ⟨sv, hg, hp⟩ := getAttr_of_hasNum nd h2
    simp only [CSeg.events, XMethod.events, expand_elem, List.length_cons, List.length_append,
      List.length_nil, List.cons_append, List.append_assoc] at hf ⊢
    obtain ⟨f, rfl⟩ : ∃ f, fuel = f + 1 := ⟨fuel - 1, by omega⟩
    refine ⟨f, by omega, ?_⟩
    have hm := method_body m.body hb f m.tag rest false ht (by omega)
    simp only [classLoop, ht, if_true, getAttr_of_hasAttr nd h1, hg, hp]
    simp only [List.nil_append] at hm ⊢
    rw [hm]
    simp [CSeg.step, method_executed]

theorem class_body (cls : Name) (body : List CSeg) (hb : ∀ s ∈ body, s.wf = true) :
    ∀ (fuel : Nat) (t : Name) (rest : List XmlEvent) (fns : List (Name × Fn)),
      localName t = sClass → fuel > (expand (body.flatMap CSeg.events)).length →
      classLoop cls fuel (expand (body.flatMap CSeg.events) ++ .end_ t :: rest) fns
        = .ok (body.foldl (CSeg.step cls) fns, rest) := by
  induction body with
  | nil =>
    intro fuel t rest fns ht hf
    obtain ⟨f, rfl⟩ : ∃ f, fuel = f + 1 := ⟨fuel - 1, by simp [expand] at hf; omega⟩
    simp [expand, classLoop, ht]
  | cons s body ih =>
    intro fuel t rest fns ht hf
    have hs := hb s (List.mem_cons_self ..)
    simp only [List.flatMap_cons, expand_append, List.length_append] at hf
    simp only [List.flatMap_cons, expand_append, List.append_assoc]
    obtain ⟨f', hf', e⟩ := class_seg_step cls s hs fuel
      (expand (body.flatMap CSeg.events) ++ .end_ t :: rest) fns (by omega)
    rw [e, ih (fun s hs => hb s (List.mem_cons_of_mem _ hs)) _ t rest _ ht (by omega)]
    simp

/-! ## `<package>` -/

def Spec.XClass.fns (c : XClass) : List (Name × Fn) :=
  c.body.foldl (CSeg.step (afterLast cSlash c.fq)) []

def Spec.XSource.acc (s : XSource) : SrcAcc := (s.body.filterMap SSeg.line?).foldl srcStep {}

def Spec.PSeg.step (m : List (Name × Cov)) : PSeg → List (Name × Cov)
  | .cls c => addClass m c.abs.file c.fns
  | .src s => addSource m s.name s.acc
  | .junk _ => m

theorem package_junk_step (pkg : Name) {e : XmlEvent}
    (h : ignorable [sClass, sSourcefile] sPackage e = true)
    (fuel : Nat) (rest : List XmlEvent) (m : List (Name × Cov)) (hf : fuel ≥ (expand [e]).length) :
    packageLoop pkg fuel (expand [e] ++ rest) m
      = packageLoop pkg (fuel - (expand [e]).length) rest m := by
  cases e with
  | start n a =>
    simp only [ignorable, List.mem_cons, List.not_mem_nil, or_false, not_or, decide_eq_true_eq] at h
    simp only [expand, List.length_cons, List.length_nil] at hf ⊢
    obtain ⟨f, rfl⟩ : ∃ f, fuel = f + 1 := ⟨fuel - 1, by omega⟩
    simp [packageLoop, h.1, h.2]
  | empty n a =>
    simp only [ignorable, List.mem_cons, List.not_mem_nil, or_false, not_or, decide_eq_true_eq,
      Bool.and_eq_true] at h
    simp only [expand, List.length_cons, List.length_nil] at hf ⊢
    obtain ⟨f, rfl⟩ : ∃ f, fuel = f + 2 := ⟨fuel - 2, by omega⟩
    simp [packageLoop, h.1.1, h.1.2, h.2]
  | end_ n =>
    simp only [ignorable, decide_eq_true_eq] at h
    simp only [expand, List.length_cons, List.length_nil] at hf ⊢
    obtain ⟨f, rfl⟩ : ∃ f, fuel = f + 1 := ⟨fuel - 1, by omega⟩
    simp [packageLoop, h]
  | text =>
    simp only [expand, List.length_cons, List.length_nil] at hf ⊢
    obtain ⟨f, rfl⟩ : ∃ f, fuel = f + 1 := ⟨fuel - 1, by omega⟩
    simp [packageLoop]
  | other =>
    simp only [expand, List.length_cons, List.length_nil] at hf ⊢
    obtain ⟨f, rfl⟩ : ∃ f, fuel = f + 1 := ⟨fuel - 1, by omega⟩
    simp [packageLoop]
  | bad => simp [ignorable] at h

theorem package_seg_step (pkg : Name) (s : PSeg) (hs : s.wf = true) (fuel : Nat)
    (rest : List XmlEvent) (m : List (Name × Cov)) (hf : fuel ≥ (expand s.events).length) :
    ∃ f', fuel ≤ f' + (expand s.events).length ∧
      packageLoop pkg fuel (expand s.events ++ rest) m = packageLoop pkg f' rest (s.step m) := by
  cases s with
  | junk e =>
    simp only [PSeg.events] at hf ⊢
    exact ⟨_, by omega, package_junk_step pkg hs fuel rest m hf⟩
  | cls c =>
    simp only [PSeg.wf, XClass.wf, Bool.and_eq_true, decide_eq_true_eq, List.all_eq_true] at hs
    obtain ⟨⟨⟨⟨ht, nd⟩, h1⟩, h2⟩, hb⟩ := hs
    simp only [PSeg.events, XClass.events, expand_elem, List.length_cons, List.length_append,
      List.length_nil, List.cons_append, List.append_assoc] at hf ⊢
    obtain ⟨f, rfl⟩ : ∃ f, fuel = f + 1 := ⟨fuel - 1, by omega⟩
    refine ⟨f, by omega, ?_⟩
    have hc := class_body (afterLast cSlash c.fq) c.body hb f c.tag rest [] ht (by omega)
    have hfile : sourceFileOf c.attrs (beforeFirst cDollar (afterLast cSlash c.fq))
        = c.abs.file := by
      simp only [XClass.abs, Class.file, Class.simple, sourceFileOf]
      cases hsf : c.sourcefile with
      | some f => simp only [hsf] at h2; simp [getAttr_of_hasAttr nd h2]
      | none => simp only [hsf] at h2; simp [getAttr_of_hasNoKey nd h2]
    simp only [packageLoop, ht, if_true, getAttr_of_hasAttr nd h1]
    simp only [List.nil_append] at hc ⊢
    rw [hc, hfile]
    simp [PSeg.step, XClass.fns]
  | src sf =>
    simp only [PSeg.wf, XSource.wf, Bool.and_eq_true, decide_eq_true_eq, List.all_eq_true] at hs
    obtain ⟨⟨⟨ht, nd⟩, h1⟩, hb⟩ := hs
    simp only [PSeg.events, XSource.events, expand_elem, List.length_cons, List.length_append,
      List.length_nil, List.cons_append, List.append_assoc] at hf ⊢
    obtain ⟨f, rfl⟩ : ∃ f, fuel = f + 1 := ⟨fuel - 1, by omega⟩
    refine ⟨f, by omega, ?_⟩
    have hc := src_body sf.body hb f sf.tag rest {} ht (by omega)
    have hne : sSourcefile ≠ sClass := by decide
    simp only [packageLoop, ht, hne, if_true, if_false, getAttr_of_hasAttr nd h1]
    simp only [List.nil_append] at hc ⊢
    rw [hc]
    simp [PSeg.step, XSource.acc]

theorem package_body (pkg : Name) (body : List PSeg) (hb : ∀ s ∈ body, s.wf = true) :
    ∀ (fuel : Nat) (t : Name) (rest : List XmlEvent) (m : List (Name × Cov)),
      localName t = sPackage → fuel > (expand (body.flatMap PSeg.events)).length →
      packageLoop pkg fuel (expand (body.flatMap PSeg.events) ++ .end_ t :: rest) m
        = .ok ((body.foldl PSeg.step m).map fun (f, c) => (outPath pkg f, c), rest) := by
  induction body with
  | nil =>
    intro fuel t rest m ht hf
    obtain ⟨f, rfl⟩ : ∃ f, fuel = f + 1 := ⟨fuel - 1, by simp [expand] at hf; omega⟩
    simp [expand, packageLoop, ht]
  | cons s body ih =>
    intro fuel t rest m ht hf
    have hs := hb s (List.mem_cons_self ..)
    simp only [List.flatMap_cons, expand_append, List.length_append] at hf
    simp only [List.flatMap_cons, expand_append, List.append_assoc]
    obtain ⟨f', hf', e⟩ := package_seg_step pkg s hs fuel
      (expand (body.flatMap PSeg.events) ++ .end_ t :: rest) m (by omega)
    rw [e, ih (fun s hs => hb s (List.mem_cons_of_mem _ hs)) _ t rest _ ht (by omega)]
    simp

/-! ## the report loop -/

def Spec.XPackage.out (p : XPackage) : List (Name × Cov) :=
  (p.body.foldl PSeg.step []).map fun (f, c) => (outPath p.name f, c)

def Spec.RSeg.out : RSeg → List (Name × Cov)
  | .pkg p => p.out
  | .junk _ => []

theorem report_junk_step {e : XmlEvent} (h : topIgnorable e = true)
    (fuel : Nat) (rest : List XmlEvent) (res : List (Name × Cov)) (hf : fuel ≥ (expand [e]).length) :
    reportLoop fuel (expand [e] ++ rest) res
      = reportLoop (fuel - (expand [e]).length) rest res := by
  cases e with
  | start n a =>
    simp only [topIgnorable, decide_eq_true_eq] at h
    simp only [expand, List.length_cons, List.length_nil] at hf ⊢
    obtain ⟨f, rfl⟩ : ∃ f, fuel = f + 1 := ⟨fuel - 1, by omega⟩
    simp [reportLoop, h]
  | empty n a =>
    simp only [topIgnorable, decide_eq_true_eq] at h
    simp only [expand, List.length_cons, List.length_nil] at hf ⊢
    obtain ⟨f, rfl⟩ : ∃ f, fuel = f + 2 := ⟨fuel - 2, by omega⟩
    simp [reportLoop, h]
  | end_ n =>
    simp only [expand, List.length_cons, List.length_nil] at hf ⊢
    obtain ⟨f, rfl⟩ : ∃ f, fuel = f + 1 := ⟨fuel - 1, by omega⟩
    simp [reportLoop]
  | text =>
    simp only [expand, List.length_cons, List.length_nil] at hf ⊢
    obtain ⟨f, rfl⟩ : ∃ f, fuel = f + 1 := ⟨fuel - 1, by omega⟩
    simp [reportLoop]
  | other =>
    simp only [expand, List.length_cons, List.length_nil] at hf ⊢
    obtain ⟨f, rfl⟩ : ∃ f, fuel = f + 1 := ⟨fuel - 1, by omega⟩
    simp [reportLoop]
  | bad => simp [topIgnorable] at h

theorem report_seg_step (s : RSeg) (hs : s.wf = true) (fuel : Nat)
    (rest : List XmlEvent) (res : List (Name × Cov)) (hf : fuel ≥ (expand s.events).length) :
    ∃ f', fuel ≤ f' + (expand s.events).length ∧
      reportLoop fuel (expand s.events ++ rest) res = reportLoop f' rest (res ++ s.out) := by
  cases s with
  | junk e =>
    simp only [RSeg.events] at hf ⊢
    refine ⟨fuel - (expand [e]).length, by omega, ?_⟩
    rw [report_junk_step hs fuel rest res hf]; simp [RSeg.out]
  | pkg p =>
    simp only [RSeg.wf, XPackage.wf, Bool.and_eq_true, decide_eq_true_eq, List.all_eq_true] at hs
    obtain ⟨⟨⟨ht, nd⟩, h1⟩, hb⟩ := hs
    simp only [RSeg.events, XPackage.events, expand_elem, List.length_cons, List.length_append,
      List.length_nil, List.cons_append, List.append_assoc] at hf ⊢
    obtain ⟨f, rfl⟩ : ∃ f, fuel = f + 1 := ⟨fuel - 1, by omega⟩
    refine ⟨f, by omega, ?_⟩
    have hc := package_body p.name p.body hb f p.tag rest [] ht (by omega)
    simp only [reportLoop, ht, if_true, getAttr_of_hasAttr nd h1]
    simp only [List.nil_append] at hc ⊢
    rw [hc]
    simp [RSeg.out, XPackage.out]

theorem report_body (x : List RSeg) (hb : ∀ s ∈ x, s.wf = true) :
    ∀ (fuel : Nat) (res : List (Name × Cov)),
      fuel > (expand (x.flatMap RSeg.events)).length →
      reportLoop fuel (expand (x.flatMap RSeg.events)) res = .ok (res ++ x.flatMap RSeg.out) := by
  induction x with
  | nil =>
    intro fuel res hf
    obtain ⟨f, rfl⟩ : ∃ f, fuel = f + 1 := ⟨fuel - 1, by simp [expand] at hf; omega⟩
    simp [expand, reportLoop]
  | cons s x ih =>
    intro fuel res hf
    have hs := hb s (List.mem_cons_self ..)
    simp only [List.flatMap_cons, expand_append, List.length_append] at hf
    simp only [List.flatMap_cons, expand_append]
    obtain ⟨f', hf', e⟩ := report_seg_step s hs fuel (expand (x.flatMap RSeg.events)) res (by omega)
    rw [e, ih (fun s hs => hb s (List.mem_cons_of_mem _ hs)) _ _ (by omega)]
    simp

/-! ## association lists built in document order -/

section alist
set_option linter.unusedSectionVars false
variable {κ α : Type} [DecidableEq κ]

theorem set_append_new (m : List (κ × α)) (k : κ) (v : α) (h : k ∉ keys m) :
    set m k v = m ++ [(k, v)] := by
  induction m with
  | nil => rfl
  | cons kv m ih =>
    obtain ⟨k', w⟩ := kv
    simp only [keys, List.map_cons, List.mem_cons, not_or] at h
    have hk : ¬ k' = k := fun e => h.1 e.symm
    simp only [AList.set, hk, if_false, List.cons_append]
    rw [ih]; exact h.2

theorem keys_append (a b : List (κ × α)) : keys (a ++ b) = keys a ++ keys b := by
  simp [keys]

theorem setAll_append (kvs : List (κ × α)) : ∀ (m : List (κ × α)),
    (keys m ++ keys kvs).Nodup → setAll m kvs = m ++ kvs := by
  induction kvs with
  | nil => intro m _; simp [setAll]
  | cons kv kvs ih =>
    intro m nd
    obtain ⟨k, v⟩ := kv
    have hk : k ∉ keys m := by
      intro hm
      rw [List.nodup_append] at nd
      exact nd.2.2 k hm k (by simp [keys]) rfl
    have step : setAll m ((k, v) :: kvs) = setAll (set m k v) kvs := by simp [setAll]
    rw [step, set_append_new m k v hk, ih]
    · simp
    · rw [keys_append]
      simpa [keys, List.append_assoc] using nd

theorem get?_mapmk (l : List κ) (g : κ → α) (k : κ) :
    get? (l.map fun f => (f, g f)) k = if k ∈ l then some (g k) else none := by
  induction l with
  | nil => simp
  | cons a l ih =>
    simp only [List.map_cons, get?_cons, ih, List.mem_cons]
    by_cases h : a = k
    · subst h; simp
    · have : ¬ k = a := fun e => h e.symm
      simp [h, this]

theorem keys_mapmk (l : List κ) (g : κ → α) : keys (l.map fun f => (f, g f)) = l := by
  simp [keys, Function.comp_def]

theorem set_mapmk (l : List κ) (g : κ → α) (k : κ) (v : α) (nd : l.Nodup) (h : k ∈ l) :
    set (l.map fun f => (f, g f)) k v = l.map fun f => (f, if f = k then v else g f) := by
  induction l with
  | nil => cases h
  | cons a l ih =>
    simp only [List.nodup_cons] at nd
    simp only [List.map_cons, AList.set]
    by_cases ha : a = k
    · subst ha
      simp only [if_true, List.cons.injEq, true_and]
      apply List.map_congr_left
      intro f hf
      have : f ≠ a := fun e => nd.1 (e ▸ hf)
      simp [this]
    · simp only [ha, if_false, List.cons.injEq, true_and]
      rcases List.mem_cons.mp h with e | m
      · exact absurd e.symm ha
      · exact ih nd.2 m

end alist

/-! ## the pure content of a `<sourcefile>` and a `<class>` -/

theorem srcStep_fold (ls : List Line) : ∀ (acc : SrcAcc),
    (acc.lines.map (·.1) ++ (lineCov ls).map (·.1)).Nodup →
    (acc.branches.map (·.1) ++ (branchCov ls).map (·.1)).Nodup →
    ls.foldl srcStep acc = ⟨acc.lines ++ lineCov ls, acc.branches ++ branchCov ls⟩ := by
  induction ls with
  | nil => intro acc _ _; simp [lineCov, branchCov]
  | cons l ls ih =>
    intro acc h1 h2
    rw [List.foldl_cons]
    by_cases hb : l.isBranch = true
    · have e1 : lineCov (l :: ls) = lineCov ls := by simp [lineCov, hb]
      have e2 : branchCov (l :: ls)
          = (l.nr, List.replicate l.cb true ++ List.replicate l.mb false) :: branchCov ls := by
        simp [branchCov, hb]
      rw [e1] at h1 ⊢
      rw [e2] at h2 ⊢
      have hk : l.nr ∉ keys acc.branches := by
        intro hm
        rw [List.nodup_append] at h2
        exact h2.2.2 _ hm _ (by simp) rfl
      have hs : srcStep acc l = ⟨acc.lines, acc.branches ++
          [(l.nr, List.replicate l.cb true ++ List.replicate l.mb false)]⟩ := by
        simp [srcStep, hb, set_append_new _ _ _ hk]
      rw [hs, ih]
      · simp
      · exact h1
      · simpa [List.append_assoc] using h2
    · have hb' : l.isBranch = false := by simpa using hb
      have e1 : lineCov (l :: ls) = (l.nr, if l.ci > 0 then 1 else 0) :: lineCov ls := by
        simp [lineCov, hb']
      have e2 : branchCov (l :: ls) = branchCov ls := by
        simp [branchCov, hb']
      rw [e1] at h1 ⊢
      rw [e2] at h2 ⊢
      have hk : l.nr ∉ keys acc.lines := by
        intro hm
        rw [List.nodup_append] at h1
        exact h1.2.2 _ hm _ (by simp) rfl
      have hs : srcStep acc l = ⟨acc.lines ++ [(l.nr, if l.ci > 0 then 1 else 0)], acc.branches⟩ := by
        simp [srcStep, hb', set_append_new _ _ _ hk]
      rw [hs, ih]
      · simp
      · simpa [List.append_assoc] using h1
      · exact h2

theorem lineCov_keys_sublist (ls : List Line) : ((lineCov ls).map (·.1)).Sublist (ls.map (·.nr)) := by
  induction ls with
  | nil => simp [lineCov]
  | cons l ls ih =>
    by_cases hb : l.isBranch = true
    · simp only [lineCov, List.filterMap_cons, hb, if_true, List.map_cons]
      exact List.Sublist.cons _ ih
    · have hb' : l.isBranch = false := by simpa using hb
      simp only [lineCov, List.filterMap_cons, hb', List.map_cons]
      exact List.Sublist.cons_cons _ ih

theorem branchCov_keys_sublist (ls : List Line) :
    ((branchCov ls).map (·.1)).Sublist (ls.map (·.nr)) := by
  induction ls with
  | nil => simp [branchCov]
  | cons l ls ih =>
    by_cases hb : l.isBranch = true
    · simp only [branchCov, List.filterMap_cons, hb, if_true, List.map_cons]
      exact List.Sublist.cons_cons _ ih
    · have hb' : l.isBranch = false := by simpa using hb
      simp only [branchCov, List.filterMap_cons, hb', List.map_cons]
      exact List.Sublist.cons _ ih

/-- with distinct line numbers the maps are the filtered lists in document order -/
theorem srcAcc_eq (s : SourceFile) (h : s.wf = true) :
    s.lines.foldl srcStep {} = ⟨lineCov s.lines, branchCov s.lines⟩ := by
  simp only [SourceFile.wf, decide_eq_true_eq] at h
  rw [srcStep_fold]
  · simp
  · simpa using h.sublist (lineCov_keys_sublist _)
  · simpa using h.sublist (branchCov_keys_sublist _)

theorem nodup_map_inj {α β : Type} {f : α → β} (hf : ∀ a b, f a = f b → a = b) :
    ∀ {l : List α}, l.Nodup → (l.map f).Nodup := by
  intro l
  induction l with
  | nil => intro _; simp
  | cons a l ih =>
    intro h
    simp only [List.nodup_cons] at h
    simp only [List.map_cons, List.nodup_cons, List.mem_map, not_exists, not_and]
    exact ⟨fun b hb e => h.1 (hf _ _ e ▸ hb), ih h.2⟩

/-- functions of a class as the class loop builds them -/
def classFns (c : Class) : List (Name × Fn) :=
  c.methods.foldl (fun fns m => set fns (c.simple ++ cHash :: m.name) ⟨m.line, m.executed⟩) []

theorem funs_keys_nodup (c : Class) (h : c.wf = true) : (c.funs.map (·.1)).Nodup := by
  simp only [Class.wf, decide_eq_true_eq] at h
  simp only [Class.funs, List.map_map]
  have : (fun m : Method => (c.simple ++ cHash :: m.name))
      = (fun n => c.simple ++ cHash :: n) ∘ (fun m : Method => m.name) := rfl
  rw [show ((fun x : Name × Fn => x.1) ∘ fun m : Method =>
        (c.simple ++ cHash :: m.name, (⟨m.line, m.executed⟩ : Fn)))
      = (fun n => c.simple ++ cHash :: n) ∘ (fun m : Method => m.name) from rfl, ← List.map_map]
  apply nodup_map_inj _ h
  intro a b e
  simpa using e

theorem classFns_eq (c : Class) (h : c.wf = true) : classFns c = c.funs := by
  have : classFns c = setAll [] c.funs := by
    simp only [classFns, setAll, Class.funs, List.foldl_map]
  rw [this, setAll_append]
  · simp
  · simpa [keys] using funs_keys_nodup c h

end Grcov.Jacoco
