/-
Helper lemmas for C10 (model: GrcovModel/Jacoco.lean, specification: GrcovModel/Spec/Jacoco.lean).
-/
import GrcovModel.Spec.Jacoco
namespace Grcov.Jacoco
open Grcov AList Grcov.Jacoco.Spec

/-! ## expand -/

theorem expand_append (a b : List XmlEvent) : expand (a ++ b) = expand a ++ expand b := by
  induction a with
  | nil => rfl
  | cons e a ih => cases e <;> simp [expand, ih]

theorem expand_flatMap {α : Type} (l : List α) (f : α → List XmlEvent) :
    expand (l.flatMap f) = l.flatMap fun x => expand (f x) := by
  induction l with
  | nil => rfl
  | cons x l ih => simp [List.flatMap_cons, expand_append, ih]

theorem expand_elem (sc : Bool) (t : Name) (a : List Attr) (body : List XmlEvent) :
    expand (elem sc t a body) = .start t a :: expand body ++ [.end_ t] := by
  unfold elem
  split
  · rename_i h
    simp only [Bool.and_eq_true, List.isEmpty_iff] at h
    simp [h.2, expand]
  · simp [expand, expand_append]

theorem length_expand_le (l : List XmlEvent) : (expand l).length ≤ 2 * l.length := by
  induction l with
  | nil => simp [expand]
  | cons e l ih => cases e <;> simp [expand] <;> omega

/-! ## attributes -/

theorem mem_keys_of_mem {k v : Name} {attrs : List Attr} (h : (k, v) ∈ attrs) :
    k ∈ attrs.map (·.1) := List.mem_map.mpr ⟨(k, v), h, rfl⟩

theorem attr_unique {attrs : List Attr} (nd : (attrs.map (·.1)).Nodup) {k r1 r2 : Name}
    (h1 : (k, r1) ∈ attrs) (h2 : (k, r2) ∈ attrs) : r1 = r2 := by
  induction attrs with
  | nil => cases h1
  | cons a attrs ih =>
    simp only [List.map_cons, List.nodup_cons] at nd
    rcases List.mem_cons.mp h1 with e1 | m1 <;> rcases List.mem_cons.mp h2 with e2 | m2
    · rw [← e2] at e1; exact (Prod.mk.inj e1).2
    · exact absurd (by rw [← e1]; exact mem_keys_of_mem m2) nd.1
    · exact absurd (by rw [← e2]; exact mem_keys_of_mem m1) nd.1
    · exact ih nd.2 m1 m2

/-- no attribute syntax error in the list -/
def NoErr (attrs : List Attr) : Prop := ∀ a ∈ attrs, a.1 ≠ []

theorem NoErr.tail {a : Attr} {attrs : List Attr} (h : NoErr (a :: attrs)) : NoErr attrs :=
  fun b hb => h b (List.mem_cons_of_mem _ hb)

theorem getAttrAux_ok (key : Name) (v raw : Name) :
    ∀ (attrs : List Attr), NoErr attrs →
      (attrs.map (·.1)).Nodup → (key, raw) ∈ attrs → unescape raw = some v →
      getAttrAux key attrs = .ok v := by
  intro attrs
  induction attrs with
  | nil => intro _ _ h; cases h
  | cons a attrs ih =>
    intro hs nd hm hu
    obtain ⟨k', v'⟩ := a
    simp only [List.map_cons, List.nodup_cons] at nd
    have hk' : k' ≠ [] := hs (k', v') (List.mem_cons_self ..)
    unfold getAttrAux
    simp only [hk', if_false]
    by_cases hk : k' = key
    · subst hk
      simp only [if_true]
      rcases List.mem_cons.mp hm with e | m
      · cases e; simp [hu]
      · exact absurd (mem_keys_of_mem m) nd.1
    · simp only [hk, if_false]
      rcases List.mem_cons.mp hm with e | m
      · cases e; exact absurd rfl hk
      · exact ih hs.tail nd.2 m hu

/-- (no distinctness needed any more: the reader does not look for repeated keys) -/
theorem getAttrAux_missing (key : Name) :
    ∀ (attrs : List Attr), NoErr attrs → (∀ a ∈ attrs, a.1 ≠ key) →
      getAttrAux key attrs = .error .invalidRecord := by
  intro attrs
  induction attrs with
  | nil => intros; rfl
  | cons a attrs ih =>
    intro hs hne
    obtain ⟨k', v'⟩ := a
    have hk' : k' ≠ [] := hs (k', v') (List.mem_cons_self ..)
    have hk : k' ≠ key := hne (k', v') (List.mem_cons_self ..)
    unfold getAttrAux
    simp only [hk', hk, if_false]
    exact ih hs.tail (fun a ha => hne a (List.mem_cons_of_mem _ ha))

theorem keysOk_iff (attrs : List Attr) :
    keysOk attrs = true ↔ (attrs.map (·.1)).Nodup ∧ NoErr attrs := by
  simp [keysOk, NoErr, isAttrErr]

theorem getAttr_of_hasAttr {attrs : List Attr} {k v : Name} (nd : keysOk attrs = true)
    (h : hasAttr attrs k v = true) : getAttr k attrs = .ok v := by
  simp only [hasAttr, List.any_eq_true, Bool.and_eq_true, decide_eq_true_eq] at h
  obtain ⟨⟨k', raw⟩, hm, hk, hu⟩ := h
  simp only at hk hu; subst hk
  exact getAttrAux_ok _ _ _ _ ((keysOk_iff _).mp nd).2 ((keysOk_iff _).mp nd).1 hm hu

theorem getAttr_of_hasNum {attrs : List Attr} {k : Name} {b n : Nat} (nd : keysOk attrs = true)
    (h : hasNum b attrs k n = true) :
    ∃ s, getAttr k attrs = .ok s ∧ parseUnsigned b s = some n := by
  simp only [hasNum, List.any_eq_true, Bool.and_eq_true, decide_eq_true_eq] at h
  obtain ⟨⟨k', raw⟩, hm, hk, hu⟩ := h
  simp only at hk hu; subst hk
  cases hun : unescape raw with
  | none => simp [hun] at hu
  | some s =>
    simp only [hun, decide_eq_true_eq] at hu
    exact ⟨s, getAttrAux_ok _ _ _ _ ((keysOk_iff _).mp nd).2 ((keysOk_iff _).mp nd).1 hm hun, hu⟩

theorem getAttr_of_hasNoKey {attrs : List Attr} {k : Name} (nd : keysOk attrs = true)
    (h : hasNoKey attrs k = true) : getAttr k attrs = .error .invalidRecord := by
  simp only [hasNoKey, List.all_eq_true, decide_eq_true_eq] at h
  exact getAttrAux_missing _ _ ((keysOk_iff _).mp nd).2 h

def upd (attrs : List Attr) (k : Name) (old : Option Nat) (n : Nat) : Option Nat :=
  if k ∈ attrs.map (·.1) then some n else old

theorem upd_cons_self (k v : Name) (attrs : List Attr) (old : Option Nat) (n : Nat) :
    upd ((k, v) :: attrs) k old n = some n := by simp [upd]

theorem upd_cons_ne {k k' : Name} (h : k ≠ k') (v : Name) (attrs : List Attr) (old : Option Nat)
    (n : Nat) : upd ((k', v) :: attrs) k old n = upd attrs k old n := by
  simp only [upd, List.map_cons, List.mem_cons, h, false_or]

theorem upd_some (attrs : List Attr) (k : Name) (n : Nat) : upd attrs k (some n) n = some n := by
  unfold upd; split <;> rfl

theorem keys_distinct : sCi ≠ sCb ∧ sCi ≠ sMb ∧ sCi ≠ sNr ∧ sCb ≠ sMb ∧ sCb ≠ sNr ∧ sMb ≠ sNr := by
  decide

theorem lineAttrs_ok (ci cb mb nr : Nat) :
    ∀ (attrs : List Attr) (acc : LineAcc), NoErr attrs →
      (∀ a ∈ attrs, a.1 = sCi → parseUnsigned U64MAX a.2 = some ci) →
      (∀ a ∈ attrs, a.1 = sCb → parseUnsigned U64MAX a.2 = some cb) →
      (∀ a ∈ attrs, a.1 = sMb → parseUnsigned U64MAX a.2 = some mb) →
      (∀ a ∈ attrs, a.1 = sNr → parseUnsigned U32MAX a.2 = some nr) →
      lineAttrs attrs acc = .ok ⟨upd attrs sCi acc.ci ci, upd attrs sCb acc.cb cb,
        upd attrs sMb acc.mb mb, upd attrs sNr acc.nr nr⟩ := by
  intro attrs
  induction attrs with
  | nil => intro acc _ _ _ _ _; simp [lineAttrs, upd]
  | cons a attrs ih =>
    intro acc hs h1 h2 h3 h4
    obtain ⟨k', v'⟩ := a
    have hk' : k' ≠ [] := hs (k', v') (List.mem_cons_self ..)
    have hs' := hs.tail
    have r1 := fun a ha => h1 a (List.mem_cons_of_mem _ ha)
    have r2 := fun a ha => h2 a (List.mem_cons_of_mem _ ha)
    have r3 := fun a ha => h3 a (List.mem_cons_of_mem _ ha)
    have r4 := fun a ha => h4 a (List.mem_cons_of_mem _ ha)
    obtain ⟨d1, d2, d3, d4, d5, d6⟩ := keys_distinct
    unfold lineAttrs
    simp only [hk', if_false]
    by_cases e1 : k' = sCi
    · subst e1
      have := h1 (sCi, v') (List.mem_cons_self ..) rfl
      simp only at this
      simp only [if_true, this]
      rw [ih _ hs' r1 r2 r3 r4]
      simp only [upd_cons_self, upd_some, upd_cons_ne d1.symm, upd_cons_ne d2.symm, upd_cons_ne d3.symm]
    · simp only [e1, if_false]
      by_cases e2 : k' = sCb
      · subst e2
        have := h2 (sCb, v') (List.mem_cons_self ..) rfl
        simp only at this
        simp only [if_true, this]
        rw [ih _ hs' r1 r2 r3 r4]
        simp only [upd_cons_self, upd_some, upd_cons_ne d1, upd_cons_ne d4.symm, upd_cons_ne d5.symm]
      · simp only [e2, if_false]
        by_cases e3 : k' = sMb
        · subst e3
          have := h3 (sMb, v') (List.mem_cons_self ..) rfl
          simp only at this
          simp only [if_true, this]
          rw [ih _ hs' r1 r2 r3 r4]
          simp only [upd_cons_self, upd_some, upd_cons_ne d2, upd_cons_ne d4, upd_cons_ne d6.symm]
        · simp only [e3, if_false]
          by_cases e4 : k' = sNr
          · subst e4
            have := h4 (sNr, v') (List.mem_cons_self ..) rfl
            simp only at this
            simp only [if_true, this]
            rw [ih _ hs' r1 r2 r3 r4]
            simp only [upd_cons_self, upd_some, upd_cons_ne d3, upd_cons_ne d5, upd_cons_ne d6]
          · simp only [e4, if_false]
            rw [ih _ hs' r1 r2 r3 r4]
            have n1 : sCi ≠ k' := fun h => e1 h.symm
            have n2 : sCb ≠ k' := fun h => e2 h.symm
            have n3 : sMb ≠ k' := fun h => e3 h.symm
            have n4 : sNr ≠ k' := fun h => e4 h.symm
            simp only [upd_cons_ne n1, upd_cons_ne n2, upd_cons_ne n3, upd_cons_ne n4]

theorem hasRawNum_elim {attrs : List Attr} {k : Name} {b n : Nat}
    (nd : (attrs.map (·.1)).Nodup) (h : hasRawNum b attrs k n = true) :
    k ∈ attrs.map (·.1) ∧ ∀ a ∈ attrs, a.1 = k → parseUnsigned b a.2 = some n := by
  simp only [hasRawNum, List.any_eq_true, Bool.and_eq_true, decide_eq_true_eq] at h
  obtain ⟨⟨k', raw⟩, hm, hk, hu⟩ := h
  simp only at hk hu; subst hk
  refine ⟨mem_keys_of_mem hm, ?_⟩
  intro a ha hk
  obtain ⟨k2, r2⟩ := a
  simp only at hk; subst hk
  rw [attr_unique nd ha hm]; exact hu

/-- the attribute loop of a well-formed `<line>` reads exactly the four numbers -/
theorem lineAttrs_of_wf {l : Line} {tag : Name} {attrs : List Attr} {sc : Bool}
    (h : (SSeg.line l tag attrs sc).wf = true) :
    localName tag = sLine ∧
    lineAttrs attrs {} = .ok ⟨some l.ci, some l.cb, some l.mb, some l.nr⟩ := by
  simp only [SSeg.wf, Bool.and_eq_true, decide_eq_true_eq] at h
  obtain ⟨⟨⟨⟨⟨ht, nd⟩, h1⟩, h2⟩, h3⟩, h4⟩ := h
  have nd' := ((keysOk_iff _).mp nd).1
  have ne' := ((keysOk_iff _).mp nd).2
  obtain ⟨m1, p1⟩ := hasRawNum_elim nd' h1
  obtain ⟨m2, p2⟩ := hasRawNum_elim nd' h2
  obtain ⟨m3, p3⟩ := hasRawNum_elim nd' h3
  obtain ⟨m4, p4⟩ := hasRawNum_elim nd' h4
  refine ⟨ht, ?_⟩
  rw [lineAttrs_ok l.ci l.cb l.mb l.nr attrs {} ne' p1 p2 p3 p4]
  simp [upd, m1, m2, m3, m4]

/-! ## `<sourcefile>` -/

/-- what one `<line>` does to the accumulated maps -/
def srcStep (acc : SrcAcc) (l : Line) : SrcAcc :=
  if l.isBranch then
    { acc with branches := set acc.branches l.nr (List.replicate l.cb true ++ List.replicate l.mb false) }
  else { acc with lines := set acc.lines l.nr (if l.ci > 0 then 1 else 0) }

theorem commitLine_eq (cap : Nat) (acc : SrcAcc) (l : Line) (hc : l.cb + l.mb ≤ cap) :
    commitLine cap acc ⟨some l.ci, some l.cb, some l.mb, some l.nr⟩ = .ok (srcStep acc l) := by
  unfold commitLine srcStep Line.isBranch
  have hc' : ¬ l.cb + l.mb > cap := by omega
  by_cases h : l.mb > 0 ∨ l.cb > 0
  · have : l.mb + l.cb > 0 := by omega
    simp [h, this, hc']
  · have : ¬ l.mb + l.cb > 0 := by omega
    simp [h, this]

theorem commitLine_alloc (cap : Nat) (acc : SrcAcc) (l : Line) (hc : ¬ l.cb + l.mb ≤ cap) :
    commitLine cap acc ⟨some l.ci, some l.cb, some l.mb, some l.nr⟩ = .alloc := by
  unfold commitLine
  have hc' : l.cb + l.mb > cap := by omega
  have h : l.mb > 0 ∨ l.cb > 0 := by omega
  simp [h, hc']

def Spec.SSeg.step (acc : SrcAcc) : SSeg → SrcAcc
  | .line l _ _ _ => srcStep acc l
  | .junk _ => acc

/-- the branch vector of the line (if it is one) has at most `cap` entries -/
def Spec.SSeg.fits (cap : Nat) : SSeg → Bool
  | .line l _ _ _ => decide (l.cb + l.mb ≤ cap)
  | .junk _ => true

theorem src_junk_step (cap : Nat) {e : XmlEvent} (h : ignorable [sLine] sSourcefile e = true) (fuel : Nat)
    (rest : List XmlEvent) (acc : SrcAcc) (hf : fuel ≥ (expand [e]).length) :
    sourcefileLoop cap fuel (expand [e] ++ rest) acc
      = sourcefileLoop cap (fuel - (expand [e]).length) rest acc := by
  cases e with
  | start n a =>
    simp only [ignorable, List.mem_singleton, decide_eq_true_eq] at h
    simp only [expand, List.length_cons, List.length_nil] at hf ⊢
    obtain ⟨f, rfl⟩ : ∃ f, fuel = f + 1 := ⟨fuel - 1, by omega⟩
    simp [sourcefileLoop, h]
  | empty n a =>
    simp only [ignorable, List.mem_singleton, decide_eq_true_eq, Bool.and_eq_true] at h
    simp only [expand, List.length_cons, List.length_nil] at hf ⊢
    obtain ⟨f, rfl⟩ : ∃ f, fuel = f + 2 := ⟨fuel - 2, by omega⟩
    simp [sourcefileLoop, h.1, h.2]
  | end_ n =>
    simp only [ignorable, decide_eq_true_eq] at h
    simp only [expand, List.length_cons, List.length_nil] at hf ⊢
    obtain ⟨f, rfl⟩ : ∃ f, fuel = f + 1 := ⟨fuel - 1, by omega⟩
    simp [sourcefileLoop, h]
  | text =>
    simp only [expand, List.length_cons, List.length_nil] at hf ⊢
    obtain ⟨f, rfl⟩ : ∃ f, fuel = f + 1 := ⟨fuel - 1, by omega⟩
    simp [sourcefileLoop]
  | other =>
    simp only [expand, List.length_cons, List.length_nil] at hf ⊢
    obtain ⟨f, rfl⟩ : ∃ f, fuel = f + 1 := ⟨fuel - 1, by omega⟩
    simp [sourcefileLoop]
  | bad => simp [ignorable] at h

theorem src_seg_step (cap : Nat) (s : SSeg) (hs : s.wf = true) (hg : s.fits cap = true)
    (fuel : Nat) (rest : List XmlEvent)
    (acc : SrcAcc) (hf : fuel ≥ (expand s.events).length) :
    sourcefileLoop cap fuel (expand s.events ++ rest) acc
      = sourcefileLoop cap (fuel - (expand s.events).length) rest (s.step acc) := by
  cases s with
  | junk e => exact src_junk_step cap hs fuel rest acc hf
  | line l tag attrs sc =>
    obtain ⟨ht, ha⟩ := lineAttrs_of_wf hs
    simp only [SSeg.fits, decide_eq_true_eq] at hg
    simp only [SSeg.events, expand_elem, expand, List.nil_append, List.length_cons,
      List.length_nil, List.cons_append] at hf ⊢
    obtain ⟨f, rfl⟩ : ∃ f, fuel = f + 2 := ⟨fuel - 2, by omega⟩
    have hne : sLine ≠ sSourcefile := by decide
    simp [sourcefileLoop, ht, ha, commitLine_eq cap _ _ hg, SSeg.step, hne]

/-- a well-formed `<line>` whose branch vector does not fit stops the parser: `alloc` -/
theorem src_seg_alloc (cap : Nat) (s : SSeg) (hs : s.wf = true) (hg : s.fits cap = false)
    (fuel : Nat) (rest : List XmlEvent) (acc : SrcAcc) (hf : fuel ≥ 1) :
    sourcefileLoop cap fuel (expand s.events ++ rest) acc = .alloc := by
  cases s with
  | junk e => simp [SSeg.fits] at hg
  | line l tag attrs sc =>
    obtain ⟨ht, ha⟩ := lineAttrs_of_wf hs
    simp only [SSeg.fits, decide_eq_false_iff_not] at hg
    simp only [SSeg.events, expand_elem, expand, List.nil_append, List.cons_append]
    obtain ⟨f, rfl⟩ : ∃ f, fuel = f + 1 := ⟨fuel - 1, by omega⟩
    simp [sourcefileLoop, ht, ha, commitLine_alloc cap _ _ hg]

theorem src_body (cap : Nat) (body : List SSeg) (hb : ∀ s ∈ body, s.wf = true)
    (hg : ∀ s ∈ body, s.fits cap = true) :
    ∀ (fuel : Nat) (t : Name) (rest : List XmlEvent) (acc : SrcAcc),
      localName t = sSourcefile → fuel > (expand (body.flatMap SSeg.events)).length →
      sourcefileLoop cap fuel (expand (body.flatMap SSeg.events) ++ .end_ t :: rest) acc
        = .ok ((body.filterMap SSeg.line?).foldl srcStep acc, rest) := by
  induction body with
  | nil =>
    intro fuel t rest acc ht hf
    obtain ⟨f, rfl⟩ : ∃ f, fuel = f + 1 := ⟨fuel - 1, by simp [expand] at hf; omega⟩
    simp [expand, sourcefileLoop, ht]
  | cons s body ih =>
    intro fuel t rest acc ht hf
    have hs := hb s (List.mem_cons_self ..)
    simp only [List.flatMap_cons, expand_append, List.length_append] at hf
    simp only [List.flatMap_cons, expand_append, List.append_assoc]
    rw [src_seg_step cap s hs (hg s (List.mem_cons_self ..)) fuel _ acc (by omega)]
    rw [ih (fun s hs => hb s (List.mem_cons_of_mem _ hs))
      (fun s hs => hg s (List.mem_cons_of_mem _ hs)) _ t rest _ ht (by omega)]
    cases s <;> simp [SSeg.step, SSeg.line?, List.filterMap_cons]

/-- the first `<line>` that does not fit ends the run with `alloc`, whatever follows it -/
theorem src_body_alloc (cap : Nat) (pre : List SSeg) (bad : SSeg)
    (hb : ∀ s ∈ pre, s.wf = true) (hg : ∀ s ∈ pre, s.fits cap = true)
    (hbad : bad.wf = true) (hnf : bad.fits cap = false) :
    ∀ (fuel : Nat) (rest : List XmlEvent) (acc : SrcAcc),
      fuel > (expand (pre.flatMap SSeg.events)).length →
      sourcefileLoop cap fuel (expand (pre.flatMap SSeg.events) ++ (expand bad.events ++ rest)) acc
        = .alloc := by
  induction pre with
  | nil =>
    intro fuel rest acc hf
    simp only [List.flatMap_nil, expand, List.nil_append]
    exact src_seg_alloc cap bad hbad hnf fuel rest acc (by omega)
  | cons s pre ih =>
    intro fuel rest acc hf
    have hs := hb s (List.mem_cons_self ..)
    simp only [List.flatMap_cons, expand_append, List.length_append] at hf
    simp only [List.flatMap_cons, expand_append, List.append_assoc]
    rw [src_seg_step cap s hs (hg s (List.mem_cons_self ..)) fuel _ acc (by omega)]
    exact ih (fun s hs => hb s (List.mem_cons_of_mem _ hs))
      (fun s hs => hg s (List.mem_cons_of_mem _ hs)) _ rest _ (by omega)

/-! ## `<method>` -/

def Spec.MSeg.step (ex : Bool) : MSeg → Bool
  | .counter c _ _ _ => decide (c > 0)
  | _ => ex

theorem method_junk_step {e : XmlEvent} (h : ignorable [sCounter] sMethod e = true) (fuel : Nat)
    (rest : List XmlEvent) (ex : Bool) (hf : fuel ≥ (expand [e]).length) :
    methodLoop fuel (expand [e] ++ rest) ex
      = methodLoop (fuel - (expand [e]).length) rest ex := by
  cases e with
  | start n a =>
    simp only [ignorable, List.mem_singleton, decide_eq_true_eq] at h
    simp only [expand, List.length_cons, List.length_nil] at hf ⊢
    obtain ⟨f, rfl⟩ : ∃ f, fuel = f + 1 := ⟨fuel - 1, by omega⟩
    simp [methodLoop, h]
  | empty n a =>
    simp only [ignorable, List.mem_singleton, decide_eq_true_eq, Bool.and_eq_true] at h
    simp only [expand, List.length_cons, List.length_nil] at hf ⊢
    obtain ⟨f, rfl⟩ : ∃ f, fuel = f + 2 := ⟨fuel - 2, by omega⟩
    simp [methodLoop, h.1, h.2]
  | end_ n =>
    simp only [ignorable, decide_eq_true_eq] at h
    simp only [expand, List.length_cons, List.length_nil] at hf ⊢
    obtain ⟨f, rfl⟩ : ∃ f, fuel = f + 1 := ⟨fuel - 1, by omega⟩
    simp [methodLoop, h]
  | text =>
    simp only [expand, List.length_cons, List.length_nil] at hf ⊢
    obtain ⟨f, rfl⟩ : ∃ f, fuel = f + 1 := ⟨fuel - 1, by omega⟩
    simp [methodLoop]
  | other =>
    simp only [expand, List.length_cons, List.length_nil] at hf ⊢
    obtain ⟨f, rfl⟩ : ∃ f, fuel = f + 1 := ⟨fuel - 1, by omega⟩
    simp [methodLoop]
  | bad => simp [ignorable] at h

theorem method_seg_step (s : MSeg) (hs : s.wf = true) (fuel : Nat) (rest : List XmlEvent)
    (ex : Bool) (hf : fuel ≥ (expand s.events).length) :
    methodLoop fuel (expand s.events ++ rest) ex
      = methodLoop (fuel - (expand s.events).length) rest (s.step ex) := by
  have hne : sCounter ≠ sMethod := by decide
  cases s with
  | junk e => exact method_junk_step hs fuel rest ex hf
  | counter c tag attrs sc =>
    simp only [MSeg.wf, Bool.and_eq_true, decide_eq_true_eq] at hs
    obtain ⟨⟨⟨ht, nd⟩, h1⟩, h2⟩ := hs
    obtain ⟨sv, hg, hp⟩ := getAttr_of_hasNum nd h2
    simp only [MSeg.events, expand_elem, expand, List.nil_append, List.length_cons,
      List.length_nil, List.cons_append] at hf ⊢
    obtain ⟨f, rfl⟩ : ∃ f, fuel = f + 2 := ⟨fuel - 2, by omega⟩
    simp [methodLoop, ht, getAttr_of_hasAttr nd h1, hg, hp, MSeg.step, hne]
  | otherCounter ty tag attrs sc =>
    simp only [MSeg.wf, Bool.and_eq_true, decide_eq_true_eq] at hs
    obtain ⟨⟨⟨ht, nd⟩, h1⟩, h2⟩ := hs
    simp only [MSeg.events, expand_elem, expand, List.nil_append, List.length_cons,
      List.length_nil, List.cons_append] at hf ⊢
    obtain ⟨f, rfl⟩ : ∃ f, fuel = f + 2 := ⟨fuel - 2, by omega⟩
    simp [methodLoop, ht, getAttr_of_hasAttr nd h1, h2, MSeg.step, hne]

theorem method_body (body : List MSeg) (hb : ∀ s ∈ body, s.wf = true) :
    ∀ (fuel : Nat) (t : Name) (rest : List XmlEvent) (ex : Bool),
      localName t = sMethod → fuel > (expand (body.flatMap MSeg.events)).length →
      methodLoop fuel (expand (body.flatMap MSeg.events) ++ .end_ t :: rest) ex
        = .ok (body.foldl MSeg.step ex, rest) := by
  induction body with
  | nil =>
    intro fuel t rest ex ht hf
    obtain ⟨f, rfl⟩ : ∃ f, fuel = f + 1 := ⟨fuel - 1, by simp [expand] at hf; omega⟩
    simp [expand, methodLoop, ht]
  | cons s body ih =>
    intro fuel t rest ex ht hf
    have hs := hb s (List.mem_cons_self ..)
    simp only [List.flatMap_cons, expand_append, List.length_append] at hf
    simp only [List.flatMap_cons, expand_append, List.append_assoc]
    rw [method_seg_step s hs fuel _ ex (by omega)]
    rw [ih (fun s hs => hb s (List.mem_cons_of_mem _ hs)) _ t rest _ ht (by omega)]
    simp

/-- the state after the body is `executed` of the abstract method -/
theorem method_fold_eq (body : List MSeg) (ex : Bool) :
    body.foldl MSeg.step ex
      = match (body.filterMap MSeg.covered?).getLast? with
        | some c => decide (c > 0)
        | none => ex := by
  induction body generalizing ex with
  | nil => rfl
  | cons s body ih =>
    rw [List.foldl_cons, ih]
    cases s with
    | counter c tag attrs sc =>
      simp only [MSeg.step, List.filterMap_cons, MSeg.covered?]
      cases h : (body.filterMap MSeg.covered?) with
      | nil => simp
      | cons x xs =>
        simp only [List.getLast?_cons_cons]
        cases hl : (x :: xs).getLast? with
        | none => simp at hl
        | some y => rfl
    | otherCounter ty tag attrs sc => simp [MSeg.step, List.filterMap_cons, MSeg.covered?]
    | junk e => simp [MSeg.step, List.filterMap_cons, MSeg.covered?]

theorem method_executed (m : XMethod) : m.body.foldl MSeg.step false = m.abs.executed := by
  rw [method_fold_eq]; simp only [XMethod.abs, Method.executed]
  cases (m.body.filterMap MSeg.covered?).getLast? <;> rfl

/-! ## `<class>` -/

def Spec.CSeg.step (cls : Name) (fns : List (Name × Fn)) : CSeg → List (Name × Fn)
  | .method m => set fns (cls ++ cHash :: m.name) ⟨m.line.getD 0, m.abs.executed⟩
  | .junk _ => fns

/-- the method (if it is one) has a `line` attribute -/
def Spec.CSeg.lined : CSeg → Bool
  | .method m => m.line.isSome
  | .junk _ => true

theorem class_junk_step (cls : Name) {e : XmlEvent} (h : ignorable [sMethod] sClass e = true)
    (fuel : Nat) (rest : List XmlEvent) (fns : List (Name × Fn)) (hf : fuel ≥ (expand [e]).length) :
    classLoop cls fuel (expand [e] ++ rest) fns
      = classLoop cls (fuel - (expand [e]).length) rest fns := by
  cases e with
  | start n a =>
    simp only [ignorable, List.mem_singleton, decide_eq_true_eq] at h
    simp only [expand, List.length_cons, List.length_nil] at hf ⊢
    obtain ⟨f, rfl⟩ : ∃ f, fuel = f + 1 := ⟨fuel - 1, by omega⟩
    simp [classLoop, h]
  | empty n a =>
    simp only [ignorable, List.mem_singleton, decide_eq_true_eq, Bool.and_eq_true] at h
    simp only [expand, List.length_cons, List.length_nil] at hf ⊢
    obtain ⟨f, rfl⟩ : ∃ f, fuel = f + 2 := ⟨fuel - 2, by omega⟩
    simp [classLoop, h.1, h.2]
  | end_ n =>
    simp only [ignorable, decide_eq_true_eq] at h
    simp only [expand, List.length_cons, List.length_nil] at hf ⊢
    obtain ⟨f, rfl⟩ : ∃ f, fuel = f + 1 := ⟨fuel - 1, by omega⟩
    simp [classLoop, h]
  | text =>
    simp only [expand, List.length_cons, List.length_nil] at hf ⊢
    obtain ⟨f, rfl⟩ : ∃ f, fuel = f + 1 := ⟨fuel - 1, by omega⟩
    simp [classLoop]
  | other =>
    simp only [expand, List.length_cons, List.length_nil] at hf ⊢
    obtain ⟨f, rfl⟩ : ∃ f, fuel = f + 1 := ⟨fuel - 1, by omega⟩
    simp [classLoop]
  | bad => simp [ignorable] at h

theorem class_seg_step (cls : Name) (s : CSeg) (hs : s.wf = true) (hl : s.lined = true) (fuel : Nat)
    (rest : List XmlEvent) (fns : List (Name × Fn)) (hf : fuel ≥ (expand s.events).length) :
    ∃ f', fuel ≤ f' + (expand s.events).length ∧
      classLoop cls fuel (expand s.events ++ rest) fns = classLoop cls f' rest (s.step cls fns) := by
  cases s with
  | junk e =>
    simp only [CSeg.events] at hf ⊢
    exact ⟨_, by omega, class_junk_step cls hs fuel rest fns hf⟩
  | method m =>
    simp only [CSeg.wf, XMethod.wf, Bool.and_eq_true, decide_eq_true_eq, List.all_eq_true] at hs
    obtain ⟨⟨⟨⟨ht, nd⟩, h1⟩, h2⟩, hb⟩ := hs
    simp only [CSeg.lined] at hl
    obtain ⟨ln, hln⟩ := Option.isSome_iff_exists.mp hl
    simp only [hln] at h2
    obtain ⟨sv, hg, hp⟩ := getAttr_of_hasNum nd h2
    simp only [CSeg.events, XMethod.events, expand_elem, List.length_cons, List.length_append,
      List.length_nil, List.cons_append, List.append_assoc] at hf ⊢
    obtain ⟨f, rfl⟩ : ∃ f, fuel = f + 1 := ⟨fuel - 1, by omega⟩
    refine ⟨f, by omega, ?_⟩
    have hm := method_body m.body hb f m.tag rest false ht (by omega)
    simp only [classLoop, ht, if_true, getAttr_of_hasAttr nd h1, hg, hp]
    simp only [List.nil_append] at hm ⊢
    rw [hm]
    simp [CSeg.step, method_executed, hln]

/-- a well-formed `<method>` without a `line` attribute: `InvalidRecord` -/
theorem class_seg_noline (cls : Name) (s : CSeg) (hs : s.wf = true) (hl : s.lined = false) (fuel : Nat)
    (rest : List XmlEvent) (fns : List (Name × Fn)) (hf : fuel ≥ 1) :
    classLoop cls fuel (expand s.events ++ rest) fns = .err .invalidRecord := by
  cases s with
  | junk e => simp [CSeg.lined] at hl
  | method m =>
    simp only [CSeg.wf, XMethod.wf, Bool.and_eq_true, decide_eq_true_eq, List.all_eq_true] at hs
    obtain ⟨⟨⟨⟨ht, nd⟩, h1⟩, h2⟩, hb⟩ := hs
    simp only [CSeg.lined] at hl
    have hln : m.line = none := by cases h : m.line <;> simp [h] at hl ⊢
    simp only [hln] at h2
    simp only [CSeg.events, XMethod.events, expand_elem, List.cons_append]
    obtain ⟨f, rfl⟩ : ∃ f, fuel = f + 1 := ⟨fuel - 1, by omega⟩
    simp [classLoop, ht, getAttr_of_hasAttr nd h1, getAttr_of_hasNoKey nd h2]

theorem class_body (cls : Name) (body : List CSeg) (hb : ∀ s ∈ body, s.wf = true)
    (hl : ∀ s ∈ body, s.lined = true) :
    ∀ (fuel : Nat) (t : Name) (rest : List XmlEvent) (fns : List (Name × Fn)),
      localName t = sClass → fuel > (expand (body.flatMap CSeg.events)).length →
      classLoop cls fuel (expand (body.flatMap CSeg.events) ++ .end_ t :: rest) fns
        = .ok (body.foldl (CSeg.step cls) fns, rest) := by
  induction body with
  | nil =>
    intro fuel t rest fns ht hf
    obtain ⟨f, rfl⟩ : ∃ f, fuel = f + 1 := ⟨fuel - 1, by simp [expand] at hf; omega⟩
    simp [expand, classLoop, ht]
  | cons s body ih =>
    intro fuel t rest fns ht hf
    have hs := hb s (List.mem_cons_self ..)
    simp only [List.flatMap_cons, expand_append, List.length_append] at hf
    simp only [List.flatMap_cons, expand_append, List.append_assoc]
    obtain ⟨f', hf', e⟩ := class_seg_step cls s hs (hl s (List.mem_cons_self ..)) fuel
      (expand (body.flatMap CSeg.events) ++ .end_ t :: rest) fns (by omega)
    rw [e, ih (fun s hs => hb s (List.mem_cons_of_mem _ hs))
      (fun s hs => hl s (List.mem_cons_of_mem _ hs)) _ t rest _ ht (by omega)]
    simp

/-- the first `<method>` without a `line` attribute ends the run with `InvalidRecord` -/
theorem class_body_noline (cls : Name) (pre : List CSeg) (bad : CSeg)
    (hb : ∀ s ∈ pre, s.wf = true) (hl : ∀ s ∈ pre, s.lined = true)
    (hbad : bad.wf = true) (hnl : bad.lined = false) :
    ∀ (fuel : Nat) (rest : List XmlEvent) (fns : List (Name × Fn)),
      fuel > (expand (pre.flatMap CSeg.events)).length →
      classLoop cls fuel (expand (pre.flatMap CSeg.events) ++ (expand bad.events ++ rest)) fns
        = .err .invalidRecord := by
  induction pre with
  | nil =>
    intro fuel rest fns hf
    simp only [List.flatMap_nil, expand, List.nil_append]
    exact class_seg_noline cls bad hbad hnl fuel rest fns (by omega)
  | cons s pre ih =>
    intro fuel rest fns hf
    have hs := hb s (List.mem_cons_self ..)
    simp only [List.flatMap_cons, expand_append, List.length_append] at hf
    simp only [List.flatMap_cons, expand_append, List.append_assoc]
    obtain ⟨f', hf', e⟩ := class_seg_step cls s hs (hl s (List.mem_cons_self ..)) fuel
      (expand (pre.flatMap CSeg.events) ++ (expand bad.events ++ rest)) fns (by omega)
    rw [e]
    exact ih (fun s hs => hb s (List.mem_cons_of_mem _ hs))
      (fun s hs => hl s (List.mem_cons_of_mem _ hs)) _ rest _ (by omega)

/-! ## `<package>` -/

def Spec.XClass.fns (c : XClass) : List (Name × Fn) :=
  c.body.foldl (CSeg.step (afterLast cSlash c.fq)) []

def Spec.XSource.acc (s : XSource) : SrcAcc := (s.body.filterMap SSeg.line?).foldl srcStep {}

def Spec.PSeg.step (m : List (Name × Cov)) : PSeg → List (Name × Cov)
  | .cls c => addClass m c.abs.file c.fns
  | .src s => addSource m s.name s.acc
  | .junk _ => m

/-- every method of the class has a `line`; every line of the source file fits `cap` -/
def Spec.PSeg.good (cap : Nat) : PSeg → Bool
  | .cls c => c.body.all CSeg.lined
  | .src s => s.body.all (SSeg.fits cap)
  | .junk _ => true

theorem package_junk_step (cap : Nat) (pkg : Name) {e : XmlEvent}
    (h : ignorable [sClass, sSourcefile] sPackage e = true)
    (fuel : Nat) (rest : List XmlEvent) (m : List (Name × Cov)) (hf : fuel ≥ (expand [e]).length) :
    packageLoop cap pkg fuel (expand [e] ++ rest) m
      = packageLoop cap pkg (fuel - (expand [e]).length) rest m := by
  cases e with
  | start n a =>
    simp only [ignorable, List.mem_cons, List.not_mem_nil, or_false, not_or, decide_eq_true_eq] at h
    simp only [expand, List.length_cons, List.length_nil] at hf ⊢
    obtain ⟨f, rfl⟩ : ∃ f, fuel = f + 1 := ⟨fuel - 1, by omega⟩
    simp [packageLoop, h.1, h.2]
  | empty n a =>
    simp only [ignorable, List.mem_cons, List.not_mem_nil, or_false, not_or, decide_eq_true_eq,
      Bool.and_eq_true] at h
    simp only [expand, List.length_cons, List.length_nil] at hf ⊢
    obtain ⟨f, rfl⟩ : ∃ f, fuel = f + 2 := ⟨fuel - 2, by omega⟩
    simp [packageLoop, h.1.1, h.1.2, h.2]
  | end_ n =>
    simp only [ignorable, decide_eq_true_eq] at h
    simp only [expand, List.length_cons, List.length_nil] at hf ⊢
    obtain ⟨f, rfl⟩ : ∃ f, fuel = f + 1 := ⟨fuel - 1, by omega⟩
    simp [packageLoop, h]
  | text =>
    simp only [expand, List.length_cons, List.length_nil] at hf ⊢
    obtain ⟨f, rfl⟩ : ∃ f, fuel = f + 1 := ⟨fuel - 1, by omega⟩
    simp [packageLoop]
  | other =>
    simp only [expand, List.length_cons, List.length_nil] at hf ⊢
    obtain ⟨f, rfl⟩ : ∃ f, fuel = f + 1 := ⟨fuel - 1, by omega⟩
    simp [packageLoop]
  | bad => simp [ignorable] at h

theorem package_seg_step (cap : Nat) (pkg : Name) (s : PSeg) (hs : s.wf = true)
    (hg : s.good cap = true) (fuel : Nat)
    (rest : List XmlEvent) (m : List (Name × Cov)) (hf : fuel ≥ (expand s.events).length) :
    ∃ f', fuel ≤ f' + (expand s.events).length ∧
      packageLoop cap pkg fuel (expand s.events ++ rest) m = packageLoop cap pkg f' rest (s.step m) := by
  cases s with
  | junk e =>
    simp only [PSeg.events] at hf ⊢
    exact ⟨_, by omega, package_junk_step cap pkg hs fuel rest m hf⟩
  | cls c =>
    simp only [PSeg.wf, XClass.wf, Bool.and_eq_true, decide_eq_true_eq, List.all_eq_true] at hs
    obtain ⟨⟨⟨⟨ht, nd⟩, h1⟩, h2⟩, hb⟩ := hs
    simp only [PSeg.events, XClass.events, expand_elem, List.length_cons, List.length_append,
      List.length_nil, List.cons_append, List.append_assoc] at hf ⊢
    obtain ⟨f, rfl⟩ : ∃ f, fuel = f + 1 := ⟨fuel - 1, by omega⟩
    refine ⟨f, by omega, ?_⟩
    simp only [PSeg.good, List.all_eq_true] at hg
    have hc := class_body (afterLast cSlash c.fq) c.body hb hg f c.tag rest [] ht (by omega)
    have hfile : sourceFileOf c.attrs (beforeFirst cDollar (afterLast cSlash c.fq))
        = .ok c.abs.file := by
      simp only [XClass.abs, Class.file, Class.simple, sourceFileOf]
      cases hsf : c.sourcefile with
      | some f => simp only [hsf] at h2; simp [getAttr_of_hasAttr nd h2]
      | none => simp only [hsf] at h2; simp [getAttr_of_hasNoKey nd h2]
    simp only [packageLoop, ht, if_true, getAttr_of_hasAttr nd h1, hfile]
    simp only [List.nil_append] at hc ⊢
    rw [hc]
    simp [PSeg.step, XClass.fns]
  | src sf =>
    simp only [PSeg.wf, XSource.wf, Bool.and_eq_true, decide_eq_true_eq, List.all_eq_true] at hs
    obtain ⟨⟨⟨ht, nd⟩, h1⟩, hb⟩ := hs
    simp only [PSeg.events, XSource.events, expand_elem, List.length_cons, List.length_append,
      List.length_nil, List.cons_append, List.append_assoc] at hf ⊢
    obtain ⟨f, rfl⟩ : ∃ f, fuel = f + 1 := ⟨fuel - 1, by omega⟩
    refine ⟨f, by omega, ?_⟩
    simp only [PSeg.good, List.all_eq_true] at hg
    have hc := src_body cap sf.body hb hg f sf.tag rest {} ht (by omega)
    have hne : sSourcefile ≠ sClass := by decide
    simp only [packageLoop, ht, hne, if_true, if_false, getAttr_of_hasAttr nd h1]
    simp only [List.nil_append] at hc ⊢
    rw [hc]
    simp [PSeg.step, XSource.acc]

theorem package_body (cap : Nat) (pkg : Name) (body : List PSeg) (hb : ∀ s ∈ body, s.wf = true)
    (hg : ∀ s ∈ body, s.good cap = true) :
    ∀ (fuel : Nat) (t : Name) (rest : List XmlEvent) (m : List (Name × Cov)),
      localName t = sPackage → fuel > (expand (body.flatMap PSeg.events)).length →
      packageLoop cap pkg fuel (expand (body.flatMap PSeg.events) ++ .end_ t :: rest) m
        = .ok ((body.foldl PSeg.step m).map fun (f, c) => (outPath pkg f, c), rest) := by
  induction body with
  | nil =>
    intro fuel t rest m ht hf
    obtain ⟨f, rfl⟩ : ∃ f, fuel = f + 1 := ⟨fuel - 1, by simp [expand] at hf; omega⟩
    simp [expand, packageLoop, ht]
  | cons s body ih =>
    intro fuel t rest m ht hf
    have hs := hb s (List.mem_cons_self ..)
    simp only [List.flatMap_cons, expand_append, List.length_append] at hf
    simp only [List.flatMap_cons, expand_append, List.append_assoc]
    obtain ⟨f', hf', e⟩ := package_seg_step cap pkg s hs (hg s (List.mem_cons_self ..)) fuel
      (expand (body.flatMap PSeg.events) ++ .end_ t :: rest) m (by omega)
    rw [e, ih (fun s hs => hb s (List.mem_cons_of_mem _ hs))
      (fun s hs => hg s (List.mem_cons_of_mem _ hs)) _ t rest _ ht (by omega)]
    simp

/-! ## the report loop -/

def Spec.XPackage.out (p : XPackage) : List (Name × Cov) :=
  (p.body.foldl PSeg.step []).map fun (f, c) => (outPath p.name f, c)

def Spec.RSeg.out : RSeg → List (Name × Cov)
  | .pkg p => p.out
  | .junk _ => []

def Spec.RSeg.good (cap : Nat) : RSeg → Bool
  | .pkg p => p.body.all (PSeg.good cap)
  | .junk _ => true

theorem report_junk_step (cap : Nat) {e : XmlEvent} (h : topIgnorable e = true)
    (fuel : Nat) (rest : List XmlEvent) (res : List (Name × Cov)) (hf : fuel ≥ (expand [e]).length) :
    reportLoop cap fuel (expand [e] ++ rest) res
      = reportLoop cap (fuel - (expand [e]).length) rest res := by
  cases e with
  | start n a =>
    simp only [topIgnorable, decide_eq_true_eq] at h
    simp only [expand, List.length_cons, List.length_nil] at hf ⊢
    obtain ⟨f, rfl⟩ : ∃ f, fuel = f + 1 := ⟨fuel - 1, by omega⟩
    simp [reportLoop, h]
  | empty n a =>
    simp only [topIgnorable, decide_eq_true_eq] at h
    simp only [expand, List.length_cons, List.length_nil] at hf ⊢
    obtain ⟨f, rfl⟩ : ∃ f, fuel = f + 2 := ⟨fuel - 2, by omega⟩
    simp [reportLoop, h]
  | end_ n =>
    simp only [expand, List.length_cons, List.length_nil] at hf ⊢
    obtain ⟨f, rfl⟩ : ∃ f, fuel = f + 1 := ⟨fuel - 1, by omega⟩
    simp [reportLoop]
  | text =>
    simp only [expand, List.length_cons, List.length_nil] at hf ⊢
    obtain ⟨f, rfl⟩ : ∃ f, fuel = f + 1 := ⟨fuel - 1, by omega⟩
    simp [reportLoop]
  | other =>
    simp only [expand, List.length_cons, List.length_nil] at hf ⊢
    obtain ⟨f, rfl⟩ : ∃ f, fuel = f + 1 := ⟨fuel - 1, by omega⟩
    simp [reportLoop]
  | bad => simp [topIgnorable] at h

theorem report_seg_step (cap : Nat) (s : RSeg) (hs : s.wf = true) (hg : s.good cap = true) (fuel : Nat)
    (rest : List XmlEvent) (res : List (Name × Cov)) (hf : fuel ≥ (expand s.events).length) :
    ∃ f', fuel ≤ f' + (expand s.events).length ∧
      reportLoop cap fuel (expand s.events ++ rest) res = reportLoop cap f' rest (res ++ s.out) := by
  cases s with
  | junk e =>
    simp only [RSeg.events] at hf ⊢
    refine ⟨fuel - (expand [e]).length, by omega, ?_⟩
    rw [report_junk_step cap hs fuel rest res hf]; simp [RSeg.out]
  | pkg p =>
    simp only [RSeg.wf, XPackage.wf, Bool.and_eq_true, decide_eq_true_eq, List.all_eq_true] at hs
    obtain ⟨⟨⟨ht, nd⟩, h1⟩, hb⟩ := hs
    simp only [RSeg.events, XPackage.events, expand_elem, List.length_cons, List.length_append,
      List.length_nil, List.cons_append, List.append_assoc] at hf ⊢
    obtain ⟨f, rfl⟩ : ∃ f, fuel = f + 1 := ⟨fuel - 1, by omega⟩
    refine ⟨f, by omega, ?_⟩
    simp only [RSeg.good, List.all_eq_true] at hg
    have hc := package_body cap p.name p.body hb hg f p.tag rest [] ht (by omega)
    simp only [reportLoop, ht, if_true, getAttr_of_hasAttr nd h1]
    simp only [List.nil_append] at hc ⊢
    rw [hc]
    simp [RSeg.out, XPackage.out]

theorem report_body (cap : Nat) (x : List RSeg) (hb : ∀ s ∈ x, s.wf = true)
    (hg : ∀ s ∈ x, s.good cap = true) :
    ∀ (fuel : Nat) (res : List (Name × Cov)),
      fuel > (expand (x.flatMap RSeg.events)).length →
      reportLoop cap fuel (expand (x.flatMap RSeg.events)) res = .ok (res ++ x.flatMap RSeg.out) := by
  induction x with
  | nil =>
    intro fuel res hf
    obtain ⟨f, rfl⟩ : ∃ f, fuel = f + 1 := ⟨fuel - 1, by simp [expand] at hf; omega⟩
    simp [expand, reportLoop]
  | cons s x ih =>
    intro fuel res hf
    have hs := hb s (List.mem_cons_self ..)
    simp only [List.flatMap_cons, expand_append, List.length_append] at hf
    simp only [List.flatMap_cons, expand_append]
    obtain ⟨f', hf', e⟩ := report_seg_step cap s hs (hg s (List.mem_cons_self ..)) fuel
      (expand (x.flatMap RSeg.events)) res (by omega)
    rw [e, ih (fun s hs => hb s (List.mem_cons_of_mem _ hs))
      (fun s hs => hg s (List.mem_cons_of_mem _ hs)) _ _ (by omega)]
    simp

/-! ## association lists built in document order -/

section alist
set_option linter.unusedSectionVars false
variable {κ α : Type} [DecidableEq κ]

theorem set_append_new (m : List (κ × α)) (k : κ) (v : α) (h : k ∉ keys m) :
    set m k v = m ++ [(k, v)] := by
  induction m with
  | nil => rfl
  | cons kv m ih =>
    obtain ⟨k', w⟩ := kv
    simp only [keys, List.map_cons, List.mem_cons, not_or] at h
    have hk : ¬ k' = k := fun e => h.1 e.symm
    simp only [AList.set, hk, if_false, List.cons_append]
    rw [ih]; exact h.2

theorem keys_append (a b : List (κ × α)) : keys (a ++ b) = keys a ++ keys b := by
  simp [keys]

theorem setAll_append (kvs : List (κ × α)) : ∀ (m : List (κ × α)),
    (keys m ++ keys kvs).Nodup → setAll m kvs = m ++ kvs := by
  induction kvs with
  | nil => intro m _; simp [setAll]
  | cons kv kvs ih =>
    intro m nd
    obtain ⟨k, v⟩ := kv
    have hk : k ∉ keys m := by
      intro hm
      rw [List.nodup_append] at nd
      exact nd.2.2 k hm k (by simp [keys]) rfl
    have step : setAll m ((k, v) :: kvs) = setAll (set m k v) kvs := by simp [setAll]
    rw [step, set_append_new m k v hk, ih]
    · simp
    · rw [keys_append]
      simpa [keys, List.append_assoc] using nd

theorem get?_mapmk (l : List κ) (g : κ → α) (k : κ) :
    get? (l.map fun f => (f, g f)) k = if k ∈ l then some (g k) else none := by
  induction l with
  | nil => simp
  | cons a l ih =>
    simp only [List.map_cons, get?_cons, ih, List.mem_cons]
    by_cases h : a = k
    · subst h; simp
    · have : ¬ k = a := fun e => h e.symm
      simp [h, this]

theorem keys_mapmk (l : List κ) (g : κ → α) : keys (l.map fun f => (f, g f)) = l := by
  simp [keys, Function.comp_def]

theorem set_mapmk (l : List κ) (g : κ → α) (k : κ) (v : α) (nd : l.Nodup) (h : k ∈ l) :
    set (l.map fun f => (f, g f)) k v = l.map fun f => (f, if f = k then v else g f) := by
  induction l with
  | nil => cases h
  | cons a l ih =>
    simp only [List.nodup_cons] at nd
    simp only [List.map_cons, AList.set]
    by_cases ha : a = k
    · subst ha
      simp only [if_true, List.cons.injEq, true_and]
      apply List.map_congr_left
      intro f hf
      have : f ≠ a := fun e => nd.1 (e ▸ hf)
      simp [this]
    · simp only [ha, if_false, List.cons.injEq, true_and]
      rcases List.mem_cons.mp h with e | m
      · exact absurd e.symm ha
      · exact ih nd.2 m

end alist

/-! ## the pure content of a `<sourcefile>` and a `<class>` -/

theorem srcStep_fold (ls : List Line) : ∀ (acc : SrcAcc),
    (acc.lines.map (·.1) ++ (lineCov ls).map (·.1)).Nodup →
    (acc.branches.map (·.1) ++ (branchCov ls).map (·.1)).Nodup →
    ls.foldl srcStep acc = ⟨acc.lines ++ lineCov ls, acc.branches ++ branchCov ls⟩ := by
  induction ls with
  | nil => intro acc _ _; simp [lineCov, branchCov]
  | cons l ls ih =>
    intro acc h1 h2
    rw [List.foldl_cons]
    by_cases hb : l.isBranch = true
    · have e1 : lineCov (l :: ls) = lineCov ls := by simp [lineCov, hb]
      have e2 : branchCov (l :: ls)
          = (l.nr, List.replicate l.cb true ++ List.replicate l.mb false) :: branchCov ls := by
        simp [branchCov, hb]
      rw [e1] at h1 ⊢
      rw [e2] at h2 ⊢
      have hk : l.nr ∉ keys acc.branches := by
        intro hm
        rw [List.nodup_append] at h2
        exact h2.2.2 _ hm _ (by simp) rfl
      have hs : srcStep acc l = ⟨acc.lines, acc.branches ++
          [(l.nr, List.replicate l.cb true ++ List.replicate l.mb false)]⟩ := by
        simp [srcStep, hb, set_append_new _ _ _ hk]
      rw [hs, ih]
      · simp
      · exact h1
      · simpa [List.append_assoc] using h2
    · have hb' : l.isBranch = false := by simpa using hb
      have e1 : lineCov (l :: ls) = (l.nr, if l.ci > 0 then 1 else 0) :: lineCov ls := by
        simp [lineCov, hb']
      have e2 : branchCov (l :: ls) = branchCov ls := by
        simp [branchCov, hb']
      rw [e1] at h1 ⊢
      rw [e2] at h2 ⊢
      have hk : l.nr ∉ keys acc.lines := by
        intro hm
        rw [List.nodup_append] at h1
        exact h1.2.2 _ hm _ (by simp) rfl
      have hs : srcStep acc l = ⟨acc.lines ++ [(l.nr, if l.ci > 0 then 1 else 0)], acc.branches⟩ := by
        simp [srcStep, hb', set_append_new _ _ _ hk]
      rw [hs, ih]
      · simp
      · simpa [List.append_assoc] using h1
      · exact h2

theorem lineCov_keys_sublist (ls : List Line) : ((lineCov ls).map (·.1)).Sublist (ls.map (·.nr)) := by
  induction ls with
  | nil => simp [lineCov]
  | cons l ls ih =>
    by_cases hb : l.isBranch = true
    · simp only [lineCov, List.filterMap_cons, hb, if_true, List.map_cons]
      exact List.Sublist.cons _ ih
    · have hb' : l.isBranch = false := by simpa using hb
      simp only [lineCov, List.filterMap_cons, hb', List.map_cons]
      exact List.Sublist.cons_cons _ ih

theorem branchCov_keys_sublist (ls : List Line) :
    ((branchCov ls).map (·.1)).Sublist (ls.map (·.nr)) := by
  induction ls with
  | nil => simp [branchCov]
  | cons l ls ih =>
    by_cases hb : l.isBranch = true
    · simp only [branchCov, List.filterMap_cons, hb, if_true, List.map_cons]
      exact List.Sublist.cons_cons _ ih
    · have hb' : l.isBranch = false := by simpa using hb
      simp only [branchCov, List.filterMap_cons, hb', List.map_cons]
      exact List.Sublist.cons _ ih

/-- with distinct line numbers the maps are the filtered lists in document order -/
theorem srcAcc_eq (s : SourceFile) (h : s.wf = true) :
    s.lines.foldl srcStep {} = ⟨lineCov s.lines, branchCov s.lines⟩ := by
  simp only [SourceFile.wf, decide_eq_true_eq] at h
  rw [srcStep_fold]
  · simp
  · simpa using h.sublist (lineCov_keys_sublist _)
  · simpa using h.sublist (branchCov_keys_sublist _)

theorem nodup_map_inj {α β : Type} {f : α → β} (hf : ∀ a b, f a = f b → a = b) :
    ∀ {l : List α}, l.Nodup → (l.map f).Nodup := by
  intro l
  induction l with
  | nil => intro _; simp
  | cons a l ih =>
    intro h
    simp only [List.nodup_cons] at h
    simp only [List.map_cons, List.nodup_cons, List.mem_map, not_exists, not_and]
    exact ⟨fun b hb e => h.1 (hf _ _ e ▸ hb), ih h.2⟩

/-- functions of a class as the class loop builds them -/
def classFns (c : Class) : List (Name × Fn) :=
  c.methods.foldl (fun fns m => set fns (c.simple ++ cHash :: m.name) ⟨m.line.getD 0, m.executed⟩) []

theorem funs_keys_nodup (c : Class) (h : c.wf = true) : (c.funs.map (·.1)).Nodup := by
  simp only [Class.wf, decide_eq_true_eq] at h
  simp only [Class.funs, List.map_map]
  have : (fun m : Method => (c.simple ++ cHash :: m.name))
      = (fun n => c.simple ++ cHash :: n) ∘ (fun m : Method => m.name) := rfl
  rw [show ((fun x : Name × Fn => x.1) ∘ fun m : Method =>
        (c.simple ++ cHash :: m.name, (⟨m.line.getD 0, m.executed⟩ : Fn)))
      = (fun n => c.simple ++ cHash :: n) ∘ (fun m : Method => m.name) from rfl, ← List.map_map]
  apply nodup_map_inj _ h
  intro a b e
  simpa using e

theorem classFns_eq (c : Class) (h : c.wf = true) : classFns c = c.funs := by
  have : classFns c = setAll [] c.funs := by
    simp only [classFns, setAll, Class.funs, List.foldl_map]
  rw [this, setAll_append]
  · simp
  · simpa [keys] using funs_keys_nodup c h

/-! ## the pure content of a `<package>` -/

/-- what the package loop does with one class / source file, as the loops compute it -/
def itemStep0 (m : List (Name × Cov)) : Item → List (Name × Cov)
  | .cls c => addClass m c.file (classFns c)
  | .src s => addSource m s.name (s.lines.foldl srcStep {})

/-- the same with the declarative contents -/
def itemStep (m : List (Name × Cov)) : Item → List (Name × Cov)
  | .cls c => addClass m c.file c.funs
  | .src s => addSource m s.name ⟨lineCov s.lines, branchCov s.lines⟩

theorem cseg_fold (cls : Name) (body : List CSeg) : ∀ (fns : List (Name × Fn)),
    body.foldl (CSeg.step cls) fns
      = (body.filterMap CSeg.method?).foldl
          (fun fns m => set fns (cls ++ cHash :: m.name) ⟨m.line.getD 0, m.executed⟩) fns := by
  induction body with
  | nil => intro fns; rfl
  | cons s body ih =>
    intro fns
    cases s with
    | method m => simp [CSeg.method?, CSeg.step, ih, XMethod.abs]
    | junk e => simp [List.filterMap_cons, CSeg.method?, CSeg.step, ih]

theorem xclass_fns_eq (c : XClass) : c.fns = classFns c.abs := by
  simp only [XClass.fns, classFns, cseg_fold, XClass.abs, Class.simple]

theorem pseg_fold (body : List PSeg) : ∀ (m : List (Name × Cov)),
    body.foldl PSeg.step m = (body.filterMap PSeg.item?).foldl itemStep0 m := by
  induction body with
  | nil => intro m; rfl
  | cons s body ih =>
    intro m
    cases s with
    | cls c => simp [PSeg.item?, PSeg.step, ih, itemStep0, xclass_fns_eq]
    | src sf =>
      simp [PSeg.item?, PSeg.step, ih, itemStep0, XSource.acc, XSource.abs]
    | junk e => simp [List.filterMap_cons, PSeg.item?, PSeg.step, ih]

theorem itemStep0_eq (m : List (Name × Cov)) (it : Item) (h : it.wf = true) :
    itemStep0 m it = itemStep m it := by
  cases it with
  | cls c => simp only [itemStep0, itemStep, classFns_eq c h]
  | src s => simp only [itemStep0, itemStep, srcAcc_eq s h]

theorem itemStep0_fold (items : List Item) (h : ∀ it ∈ items, it.wf = true) :
    ∀ m, items.foldl itemStep0 m = items.foldl itemStep m := by
  induction items with
  | nil => intro m; rfl
  | cons it items ih =>
    intro m
    simp only [List.foldl_cons]
    rw [itemStep0_eq m it (h it (List.mem_cons_self ..)),
      ih (fun it hi => h it (List.mem_cons_of_mem _ hi))]

theorem snoc_induction {α : Type} {P : List α → Prop} (nil : P [])
    (snoc : ∀ l a, P l → P (l ++ [a])) : ∀ l, P l := by
  have : ∀ l : List α, P l.reverse := by
    intro l
    induction l with
    | nil => exact nil
    | cons a l ih => rw [List.reverse_cons]; exact snoc _ _ ih
  intro l
  rw [← List.reverse_reverse l]; exact this _

theorem fileNames_snoc (items : List Item) (it : Item) :
    fileNames (items ++ [it])
      = if it.file ∈ fileNames items then fileNames items else fileNames items ++ [it.file] := by
  unfold fileNames; rw [List.foldl_append]; rfl

theorem fileNames_nodup : ∀ (items : List Item), (fileNames items).Nodup := by
  apply snoc_induction
  · simp [fileNames]
  · intro l a ih
    rw [fileNames_snoc]
    split
    · exact ih
    · rename_i h
      rw [List.nodup_append]
      refine ⟨ih, by simp, ?_⟩
      intro x hx y hy e
      simp at hy; subst hy; subst e; exact h hx

theorem mem_fileNames : ∀ (items : List Item) (f : Name),
    f ∈ fileNames items ↔ ∃ it ∈ items, it.file = f := by
  apply snoc_induction
  · intro f; simp [fileNames]
  · intro l a ih f
    rw [fileNames_snoc]
    split
    · rename_i h
      rw [ih]
      constructor
      · rintro ⟨it, hm, e⟩; exact ⟨it, by simp [hm], e⟩
      · rintro ⟨it, hm, e⟩
        rcases List.mem_append.mp hm with hm | hm
        · exact ⟨it, hm, e⟩
        · simp at hm; subst hm; subst e; exact (ih _).mp h
    · rw [List.mem_append, ih]
      constructor
      · rintro (⟨it, hm, e⟩ | h)
        · exact ⟨it, by simp [hm], e⟩
        · simp at h; exact ⟨a, by simp, h.symm⟩
      · rintro ⟨it, hm, e⟩
        rcases List.mem_append.mp hm with hm | hm
        · exact Or.inl ⟨it, hm, e⟩
        · simp at hm; subst hm; exact Or.inr (by simp [e])

theorem funsFor_nil_of_not_mem (items : List Item) (f : Name) (h : f ∉ fileNames items) :
    items.flatMap (Item.funsFor f) = [] := by
  rw [List.flatMap_eq_nil_iff]
  intro it hi
  have hne : it.file ≠ f := fun e => h ((mem_fileNames _ _).mpr ⟨it, hi, e⟩)
  cases it with
  | cls c => simp only [Item.file] at hne; simp [Item.funsFor, hne]
  | src s => rfl

theorem srcFor_nil_of_not_mem_names (items : List Item) (f : Name)
    (h : f ∉ items.filterMap Item.srcName?) : items.filterMap (Item.srcFor f) = [] := by
  rw [List.filterMap_eq_nil_iff]
  intro it hi
  cases it with
  | cls c => rfl
  | src s =>
    have hne : s.name ≠ f := by
      intro e
      apply h
      rw [List.mem_filterMap]
      exact ⟨.src s, hi, by simp [Item.srcName?, e]⟩
    simp [Item.srcFor, hne]

theorem srcNames_sub_fileNames (items : List Item) (f : Name)
    (h : f ∈ items.filterMap Item.srcName?) : f ∈ fileNames items := by
  rw [List.mem_filterMap] at h
  obtain ⟨it, hi, e⟩ := h
  cases it with
  | cls c => simp [Item.srcName?] at e
  | src s =>
    simp only [Item.srcName?, Option.some.injEq] at e
    exact (mem_fileNames _ _).mpr ⟨.src s, hi, by simp [Item.file, e]⟩

/-- conditions of `Package.wf` that concern the list of items as a whole -/
def ItemsOk (items : List Item) : Prop :=
  (items.filterMap Item.srcName?).Nodup ∧
  ∀ f ∈ fileNames items, ((items.flatMap (Item.funsFor f)).map (·.1)).Nodup

theorem itemsOk_init (items : List Item) (it : Item) (h : ItemsOk (items ++ [it])) :
    ItemsOk items := by
  obtain ⟨h1, h2⟩ := h
  constructor
  · rw [List.filterMap_append] at h1
    exact (List.nodup_append.mp h1).1
  · intro f hf
    have hf' : f ∈ fileNames (items ++ [it]) := by
      rw [fileNames_snoc]; split
      · exact hf
      · exact List.mem_append_left _ hf
    have := h2 f hf'
    rw [List.flatMap_append, List.map_append] at this
    exact (List.nodup_append.mp this).1

theorem package_fold : ∀ (items : List Item), ItemsOk items →
    items.foldl itemStep [] = (fileNames items).map fun f => (f, covFor items f) := by
  apply snoc_induction
  · intro _; rfl
  · intro items it ih hok
    have hinit := itemsOk_init items it hok
    rw [List.foldl_append, ih hinit]
    simp only [List.foldl_cons, List.foldl_nil]
    have hnd := fileNames_nodup items
    obtain ⟨hsrc, hfun⟩ := hok
    cases it with
    | cls c =>
      have hlines : ∀ f, linesFor (items ++ [Item.cls c]) f = linesFor items f := by
        intro f; simp [linesFor, List.filterMap_append, Item.srcFor]
      by_cases hm : c.file ∈ fileNames items
      · have hfn : fileNames (items ++ [Item.cls c]) = fileNames items := by
          rw [fileNames_snoc]; simp [Item.file, hm]
        rw [hfn]
        have hnodup := hfun c.file (by rw [hfn]; exact hm)
        simp only [itemStep, addClass, get?_mapmk, hm, if_true]
        rw [set_mapmk _ _ _ _ hnd hm]
        apply List.map_congr_left
        intro f hf
        by_cases e : f = c.file
        · subst e
          simp only [if_true, Prod.mk.injEq, true_and]
          simp only [covFor, hlines]
          congr 1
          rw [setAll_append]
          · simp [List.flatMap_append, Item.funsFor]
          · simpa [keys, List.flatMap_append, Item.funsFor] using hnodup
        · have e' : c.file ≠ f := fun h => e h.symm
          simp only [e, if_false, Prod.mk.injEq, true_and]
          simp [covFor, hlines, List.flatMap_append, Item.funsFor, e']
      · have hfn : fileNames (items ++ [Item.cls c]) = fileNames items ++ [c.file] := by
          rw [fileNames_snoc]; simp [Item.file, hm]
        rw [hfn]
        simp only [itemStep, addClass, get?_mapmk, hm, if_false]
        rw [set_append_new _ _ _ (by rw [keys_mapmk]; exact hm), List.map_append]
        congr 1
        · apply List.map_congr_left
          intro f hf
          have e' : c.file ≠ f := fun h => hm (h ▸ hf)
          simp [covFor, hlines, List.flatMap_append, Item.funsFor, e']
        · have hno : items.filterMap (Item.srcFor c.file) = [] :=
            srcFor_nil_of_not_mem_names _ _ (fun h => hm (srcNames_sub_fileNames _ _ h))
          have hl : linesFor (items ++ [Item.cls c]) c.file = [] := by
            rw [hlines]; unfold linesFor; rw [hno]; rfl
          simp [covFor, hl, lineCov, branchCov, List.flatMap_append,
            funsFor_nil_of_not_mem _ _ hm, Item.funsFor]
    | src s =>
      have hfuns : ∀ f, (items ++ [Item.src s]).flatMap (Item.funsFor f)
          = items.flatMap (Item.funsFor f) := by
        intro f; simp [List.flatMap_append, Item.funsFor]
      have hnew : s.name ∉ items.filterMap Item.srcName? := by
        intro h
        rw [List.filterMap_append] at hsrc
        exact (List.nodup_append.mp hsrc).2.2 _ h _ (by simp [Item.srcName?]) rfl
      have hno := srcFor_nil_of_not_mem_names _ _ hnew
      have hself : linesFor (items ++ [Item.src s]) s.name = s.lines := by
        simp [linesFor, List.filterMap_append, hno, Item.srcFor]
      have hother : ∀ f, f ≠ s.name → linesFor (items ++ [Item.src s]) f = linesFor items f := by
        intro f hne
        have : ¬ s.name = f := fun h => hne h.symm
        simp [linesFor, List.filterMap_append, Item.srcFor, this]
      by_cases hm : s.name ∈ fileNames items
      · have hfn : fileNames (items ++ [Item.src s]) = fileNames items := by
          rw [fileNames_snoc]; simp [Item.file, hm]
        rw [hfn]
        simp only [itemStep, addSource, get?_mapmk, hm, if_true]
        rw [set_mapmk _ _ _ _ hnd hm]
        apply List.map_congr_left
        intro f hf
        by_cases e : f = s.name
        · subst e
          simp [covFor, hself, hfuns]
        · simp [e, covFor, hother f e, hfuns]
      · have hfn : fileNames (items ++ [Item.src s]) = fileNames items ++ [s.name] := by
          rw [fileNames_snoc]; simp [Item.file, hm]
        rw [hfn]
        simp only [itemStep, addSource, get?_mapmk, hm, if_false]
        rw [set_append_new _ _ _ (by rw [keys_mapmk]; exact hm), List.map_append]
        congr 1
        · apply List.map_congr_left
          intro f hf
          have e : f ≠ s.name := fun h => hm (h ▸ hf)
          simp [covFor, hother f e, hfuns]
        · simp [covFor, hself, hfuns, funsFor_nil_of_not_mem _ _ hm]

theorem xpackage_out_eq (p : XPackage) (h : p.abs.wf = true) : p.out = p.abs.sem := by
  simp only [Package.wf, Bool.and_eq_true, List.all_eq_true, decide_eq_true_eq] at h
  obtain ⟨⟨h1, h2⟩, h3⟩ := h
  simp only [XPackage.out, Package.sem]
  rw [pseg_fold]
  change List.map _ (List.foldl itemStep0 [] p.abs.items) = _
  rw [itemStep0_fold _ h1, package_fold _ ⟨h2, h3⟩, List.map_map]
  rfl

theorem report_out_eq (x : XReport) (h : Report.wf (abs x) = true) :
    x.flatMap RSeg.out = sem (abs x) := by
  induction x with
  | nil => rfl
  | cons s x ih =>
    cases s with
    | junk e =>
      simp only [Spec.abs, List.filterMap_cons, RSeg.pkg?] at h ⊢
      simp only [List.flatMap_cons, RSeg.out, List.nil_append]
      exact ih h
    | pkg p =>
      simp only [Spec.abs, List.filterMap_cons, RSeg.pkg?, Report.wf, List.all_cons,
        Bool.and_eq_true] at h ⊢
      simp only [List.flatMap_cons, RSeg.out, sem]
      rw [xpackage_out_eq p h.1]
      congr 1
      exact ih h.2

/-! ## repeated method names: what `insert` does -/

theorem insertAll_eq_setAll (kvs : List (Name × Fn)) : insertAll kvs = setAll [] kvs := rfl

/-- value of `k` after inserting `kvs` into a map where it was `r` -/
def lastFrom (r : Option Fn) (kvs : List (Name × Fn)) (k : Name) : Option Fn :=
  kvs.foldl (fun r kv => if kv.1 = k then some kv.2 else r) r

theorem get?_setAll (kvs : List (Name × Fn)) : ∀ (m : List (Name × Fn)) (k : Name),
    get? (setAll m kvs) k = lastFrom (get? m k) kvs k := by
  induction kvs with
  | nil => intro m k; rfl
  | cons kv kvs ih =>
    intro m k
    have step : setAll m (kv :: kvs) = setAll (set m kv.1 kv.2) kvs := by simp [setAll]
    rw [step, ih, get?_set]
    rfl

theorem lastFrom_snoc (r : Option Fn) (kvs : List (Name × Fn)) (kv : Name × Fn) (k : Name) :
    lastFrom r (kvs ++ [kv]) k = if kv.1 = k then some kv.2 else lastFrom r kvs k := by
  simp [lastFrom, List.foldl_append]

theorem lastFrom_none_eq_lastVal : ∀ (kvs : List (Name × Fn)) (k : Name),
    lastFrom none kvs k = lastVal kvs k := by
  apply snoc_induction
  · intro k; rfl
  · intro l a ih k
    rw [lastFrom_snoc, ih]
    unfold lastVal
    rw [List.filter_append]
    by_cases h : a.1 = k
    · simp [h]
    · simp [h]

/-- after inserting all pairs the value of a key is the one of its last occurrence -/
theorem get?_insertAll (kvs : List (Name × Fn)) (k : Name) :
    get? (insertAll kvs) k = lastVal kvs k := by
  rw [insertAll_eq_setAll, get?_setAll]
  exact lastFrom_none_eq_lastVal kvs k

section setlemmas
variable {κ α : Type} [DecidableEq κ]

theorem set_set_same (m : List (κ × α)) (k : κ) (v w : α) : set (set m k v) k w = set m k w := by
  induction m with
  | nil => simp [AList.set]
  | cons a m ih =>
    obtain ⟨k', u⟩ := a
    by_cases h : k' = k
    · simp [AList.set, h]
    · simp [AList.set, h, ih]

/-- replacing the value of a key that is present commutes with any other `set` -/
theorem set_comm_of_mem (m : List (κ × α)) (k k' : κ) (v w : α) (hk : k ∈ keys m) (hne : k ≠ k') :
    set (set m k' w) k v = set (set m k v) k' w := by
  induction m with
  | nil => simp [keys] at hk
  | cons a m ih =>
    obtain ⟨q, u⟩ := a
    by_cases h1 : q = k
    · subst h1
      have h2 : ¬ q = k' := hne
      simp [AList.set, h2]
    · have hk' : k ∈ keys m := by
        simp only [keys, List.map_cons, List.mem_cons] at hk
        rcases hk with e | e
        · exact absurd e.symm h1
        · exact e
      by_cases h2 : q = k'
      · subst h2; simp [AList.set, h1]
      · simp [AList.set, h1, h2, ih hk']

theorem mem_keys_set (m : List (κ × α)) (k k' : κ) (w : α) (hk : k ∈ keys m) :
    k ∈ keys (set m k' w) := by
  rw [keys_set]; split
  · exact hk
  · exact List.mem_append_left _ hk

theorem mem_keys_set_self (m : List (κ × α)) (k : κ) (w : α) : k ∈ keys (set m k w) := by
  rw [keys_set]; split
  · assumption
  · simp

/-- a `set` of a present key, done before or after a batch that does not mention it -/
theorem set_setAll_comm (n : List (κ × α)) (k : κ) (v : α) (hn : k ∉ keys n) :
    ∀ (p : List (κ × α)), k ∈ keys p → set (setAll p n) k v = setAll (set p k v) n := by
  induction n with
  | nil => intro p _; rfl
  | cons a n ih =>
    intro p hp
    obtain ⟨k', w⟩ := a
    simp only [keys, List.map_cons, List.mem_cons, not_or] at hn
    have step : ∀ q : List (κ × α), setAll q ((k', w) :: n) = setAll (set q k' w) n := by
      intro q; simp [setAll]
    rw [step, step, ih hn.2 _ (mem_keys_set p k k' w hp), set_comm_of_mem p k k' v w hp hn.1]

/-- inserting a batch, or first its compacted form (`setAll []`), gives the same map -/
theorem setAll_compact (b : List (κ × α)) : ∀ (m : List (κ × α)),
    setAll m (setAll [] b) = setAll m b := by
  apply snoc_induction (P := fun b => ∀ m : List (κ × α), setAll m (setAll [] b) = setAll m b)
  · intro m; rfl
  · intro b a ih m
    obtain ⟨k, v⟩ := a
    have e1 : ∀ q : List (κ × α), setAll q (b ++ [(k, v)]) = set (setAll q b) k v := by
      intro q; simp [setAll, List.foldl_append]
    rw [e1, e1, ← ih m]
    generalize hN : setAll ([] : List (κ × α)) b = N
    have hnd : (keys N).Nodup := by
      rw [← hN]
      clear hN ih e1
      have : ∀ (l q : List (κ × α)), (keys q).Nodup → (keys (setAll q l)).Nodup := by
        intro l
        induction l with
        | nil => intro q h; exact h
        | cons a l ih' =>
          intro q h
          have : setAll q (a :: l) = setAll (set q a.1 a.2) l := by simp [setAll]
          rw [this]; exact ih' _ (nodupKeys_set h _ _)
      exact this b [] (by simp [keys])
    -- setAll m (set N k v) = set (setAll m N) k v for N with distinct keys
    clear hN
    by_cases hk : k ∈ keys N
    · -- split N at k
      obtain ⟨n1, u, n2, rfl, h1, h2⟩ : ∃ n1 u n2, N = n1 ++ (k, u) :: n2 ∧ k ∉ keys n1 ∧ k ∉ keys n2 := by
        clear ih e1
        induction N with
        | nil => simp [keys] at hk
        | cons a N ihN =>
          obtain ⟨q, u⟩ := a
          simp only [keys, List.map_cons, List.nodup_cons] at hnd
          by_cases hq : q = k
          · subst hq
            exact ⟨[], u, N, rfl, by simp [keys], hnd.1⟩
          · have hk' : k ∈ keys N := by
              simp only [keys, List.map_cons, List.mem_cons] at hk
              rcases hk with e | e
              · exact absurd e.symm hq
              · exact e
            obtain ⟨n1, u', n2, e, g1, g2⟩ := ihN hnd.2 hk'
            refine ⟨(q, u) :: n1, u', n2, by rw [e]; rfl, ?_, g2⟩
            simp only [keys, List.map_cons, List.mem_cons, not_or]
            exact ⟨fun e => hq e.symm, g1⟩
      have es : set (n1 ++ (k, u) :: n2) k v = n1 ++ (k, v) :: n2 := by
        clear hnd hk ih e1
        induction n1 with
        | nil => simp [AList.set]
        | cons a n1 ih1 =>
          obtain ⟨q, z⟩ := a
          simp only [keys, List.map_cons, List.mem_cons, not_or] at h1
          have : ¬ q = k := fun e => h1.1 e.symm
          simp only [List.cons_append, AList.set, this, if_false]
          rw [ih1 h1.2]
      have ea : ∀ (q : List (κ × α)) (z : α),
          setAll q (n1 ++ (k, z) :: n2) = setAll (set (setAll q n1) k z) n2 := by
        intro q z; simp [setAll, List.foldl_append]
      rw [es, ea, ea]
      rw [set_setAll_comm n2 k v h2 _ (mem_keys_set_self _ k u), set_set_same]
    · rw [set_append_new N k v hk]
      simp [setAll, List.foldl_append]

end setlemmas

/-! ## the pure content of a `<package>`, repeated method names allowed -/

theorem classFns_eq_insertAll (c : Class) : classFns c = insertAll c.funs := by
  simp only [classFns, insertAll, Class.funs, List.foldl_map]

/-- the package loop with the declarative contents, functions compacted per class -/
def itemStepL (m : List (Name × Cov)) : Item → List (Name × Cov)
  | .cls c => addClass m c.file (insertAll c.funs)
  | .src s => addSource m s.name ⟨lineCov s.lines, branchCov s.lines⟩

theorem itemStep0_eqL (m : List (Name × Cov)) (it : Item) (h : it.wfSrc = true) :
    itemStep0 m it = itemStepL m it := by
  cases it with
  | cls c => simp only [itemStep0, itemStepL, classFns_eq_insertAll]
  | src s => simp only [itemStep0, itemStepL, srcAcc_eq s h]

theorem itemStep0_foldL (items : List Item) (h : ∀ it ∈ items, it.wfSrc = true) :
    ∀ m, items.foldl itemStep0 m = items.foldl itemStepL m := by
  induction items with
  | nil => intro m; rfl
  | cons it items ih =>
    intro m
    simp only [List.foldl_cons]
    rw [itemStep0_eqL m it (h it (List.mem_cons_self ..)),
      ih (fun it hi => h it (List.mem_cons_of_mem _ hi))]

theorem package_foldL : ∀ (items : List Item), (items.filterMap Item.srcName?).Nodup →
    items.foldl itemStepL [] = (fileNames items).map fun f => (f, covForL items f) := by
  apply snoc_induction
  · intro _; rfl
  · intro items it ih hsrc
    have hinit : (items.filterMap Item.srcName?).Nodup := by
      rw [List.filterMap_append] at hsrc
      exact (List.nodup_append.mp hsrc).1
    rw [List.foldl_append, ih hinit]
    simp only [List.foldl_cons, List.foldl_nil]
    have hnd := fileNames_nodup items
    cases it with
    | cls c =>
      have hlines : ∀ f, linesFor (items ++ [Item.cls c]) f = linesFor items f := by
        intro f; simp [linesFor, List.filterMap_append, Item.srcFor]
      have hfunsSelf : insertAll ((items ++ [Item.cls c]).flatMap (Item.funsFor c.file))
          = setAll (insertAll (items.flatMap (Item.funsFor c.file))) (insertAll c.funs) := by
        rw [insertAll_eq_setAll c.funs, setAll_compact]
        simp [insertAll, setAll, List.flatMap_append, Item.funsFor, List.foldl_append]
      by_cases hm : c.file ∈ fileNames items
      · have hfn : fileNames (items ++ [Item.cls c]) = fileNames items := by
          rw [fileNames_snoc]; simp [Item.file, hm]
        rw [hfn]
        simp only [itemStepL, addClass, get?_mapmk, hm, if_true]
        rw [set_mapmk _ _ _ _ hnd hm]
        apply List.map_congr_left
        intro f hf
        by_cases e : f = c.file
        · subst e
          simp only [if_true, Prod.mk.injEq, true_and]
          simp only [covForL, hlines, hfunsSelf]
        · have e' : c.file ≠ f := fun h => e h.symm
          simp only [e, if_false, Prod.mk.injEq, true_and]
          simp [covForL, hlines, List.flatMap_append, Item.funsFor, e']
      · have hfn : fileNames (items ++ [Item.cls c]) = fileNames items ++ [c.file] := by
          rw [fileNames_snoc]; simp [Item.file, hm]
        rw [hfn]
        simp only [itemStepL, addClass, get?_mapmk, hm, if_false]
        rw [set_append_new _ _ _ (by rw [keys_mapmk]; exact hm), List.map_append]
        congr 1
        · apply List.map_congr_left
          intro f hf
          have e' : c.file ≠ f := fun h => hm (h ▸ hf)
          simp [covForL, hlines, List.flatMap_append, Item.funsFor, e']
        · have hno : items.filterMap (Item.srcFor c.file) = [] :=
            srcFor_nil_of_not_mem_names _ _ (fun h => hm (srcNames_sub_fileNames _ _ h))
          have hl : linesFor (items ++ [Item.cls c]) c.file = [] := by
            rw [hlines]; unfold linesFor; rw [hno]; rfl
          simp [covForL, hl, lineCov, branchCov, List.flatMap_append,
            funsFor_nil_of_not_mem _ _ hm, Item.funsFor]
    | src s =>
      have hfuns : ∀ f, (items ++ [Item.src s]).flatMap (Item.funsFor f)
          = items.flatMap (Item.funsFor f) := by
        intro f; simp [List.flatMap_append, Item.funsFor]
      have hnew : s.name ∉ items.filterMap Item.srcName? := by
        intro h
        rw [List.filterMap_append] at hsrc
        exact (List.nodup_append.mp hsrc).2.2 _ h _ (by simp [Item.srcName?]) rfl
      have hno := srcFor_nil_of_not_mem_names _ _ hnew
      have hself : linesFor (items ++ [Item.src s]) s.name = s.lines := by
        simp [linesFor, List.filterMap_append, hno, Item.srcFor]
      have hother : ∀ f, f ≠ s.name → linesFor (items ++ [Item.src s]) f = linesFor items f := by
        intro f hne
        have : ¬ s.name = f := fun h => hne h.symm
        simp [linesFor, List.filterMap_append, Item.srcFor, this]
      by_cases hm : s.name ∈ fileNames items
      · have hfn : fileNames (items ++ [Item.src s]) = fileNames items := by
          rw [fileNames_snoc]; simp [Item.file, hm]
        rw [hfn]
        simp only [itemStepL, addSource, get?_mapmk, hm, if_true]
        rw [set_mapmk _ _ _ _ hnd hm]
        apply List.map_congr_left
        intro f hf
        by_cases e : f = s.name
        · subst e
          simp [covForL, hself, hfuns]
        · simp [e, covForL, hother f e, hfuns]
      · have hfn : fileNames (items ++ [Item.src s]) = fileNames items ++ [s.name] := by
          rw [fileNames_snoc]; simp [Item.file, hm]
        rw [hfn]
        simp only [itemStepL, addSource, get?_mapmk, hm, if_false]
        rw [set_append_new _ _ _ (by rw [keys_mapmk]; exact hm), List.map_append]
        congr 1
        · apply List.map_congr_left
          intro f hf
          have e : f ≠ s.name := fun h => hm (h ▸ hf)
          simp [covForL, hother f e, hfuns]
        · simp [covForL, hself, hfuns, funsFor_nil_of_not_mem _ _ hm, insertAll]

theorem xpackage_out_eqL (p : XPackage) (h : p.abs.wfSrc = true) : p.out = p.abs.semL := by
  simp only [Package.wfSrc, Bool.and_eq_true, List.all_eq_true, decide_eq_true_eq] at h
  obtain ⟨h1, h2⟩ := h
  simp only [XPackage.out, Package.semL]
  rw [pseg_fold]
  change List.map _ (List.foldl itemStep0 [] p.abs.items) = _
  rw [itemStep0_foldL _ h1, package_foldL _ h2, List.map_map]
  rfl

theorem report_out_eqL (x : XReport) (h : Report.wfSrc (abs x) = true) :
    x.flatMap RSeg.out = semL (abs x) := by
  induction x with
  | nil => rfl
  | cons s x ih =>
    cases s with
    | junk e =>
      simp only [Spec.abs, List.filterMap_cons, RSeg.pkg?] at h ⊢
      simp only [List.flatMap_cons, RSeg.out, List.nil_append]
      exact ih h
    | pkg p =>
      simp only [Spec.abs, List.filterMap_cons, RSeg.pkg?, Report.wfSrc, List.all_cons,
        Bool.and_eq_true] at h ⊢
      simp only [List.flatMap_cons, RSeg.out, semL]
      rw [xpackage_out_eqL p h.1]
      congr 1
      exact ih h.2

/-! ### from the abstract conditions (`good`) to the per-segment ones -/

theorem lined_iff (body : List CSeg) :
    ((body.filterMap CSeg.method?).all fun m => m.line.isSome) = body.all CSeg.lined := by
  induction body with
  | nil => rfl
  | cons s body ih =>
    cases s with
    | method m =>
      simp only [List.filterMap_cons, CSeg.method?, List.all_cons, CSeg.lined, XMethod.abs, ih]
    | junk e =>
      simp only [List.filterMap_cons, CSeg.method?, List.all_cons, CSeg.lined, ih, Bool.true_and]

theorem fits_iff (cap : Nat) (body : List SSeg) :
    ((body.filterMap SSeg.line?).all fun l => decide (l.cb + l.mb ≤ cap)) = body.all (SSeg.fits cap) := by
  induction body with
  | nil => rfl
  | cons s body ih =>
    cases s with
    | line l t a sc =>
      simp only [List.filterMap_cons, SSeg.line?, List.all_cons, SSeg.fits, ih]
    | junk e =>
      simp only [List.filterMap_cons, SSeg.line?, List.all_cons, SSeg.fits, ih, Bool.true_and]

theorem pgood_iff (cap : Nat) (body : List PSeg) :
    ((body.filterMap PSeg.item?).all Item.lined && (body.filterMap PSeg.item?).all (Item.fits cap))
      = body.all (PSeg.good cap) := by
  induction body with
  | nil => rfl
  | cons s body ih =>
    rw [List.all_cons, ← ih]
    cases s with
    | cls c =>
      simp only [List.filterMap_cons, PSeg.item?, List.all_cons, Item.lined, Item.fits, PSeg.good,
        Class.lined, XClass.abs, lined_iff, Bool.true_and]
      rw [Bool.and_assoc]
    | src sf =>
      simp only [List.filterMap_cons, PSeg.item?, List.all_cons, Item.lined, Item.fits, PSeg.good,
        SourceFile.fits, XSource.abs, fits_iff, Bool.true_and]
      cases (List.all sf.body (SSeg.fits cap)) <;> cases (List.all (List.filterMap PSeg.item? body) Item.lined) <;> simp
    | junk e => simp [PSeg.item?, PSeg.good]

theorem good_iff (cap : Nat) (x : XReport) : good cap x = x.all (RSeg.good cap) := by
  unfold good Report.lined Report.fits
  induction x with
  | nil => rfl
  | cons s x ih =>
    rw [List.all_cons, ← ih]
    cases s with
    | junk e => simp [Spec.abs, RSeg.pkg?, RSeg.good]
    | pkg p =>
      simp only [Spec.abs, List.filterMap_cons, RSeg.pkg?, List.all_cons, RSeg.good, XPackage.abs,
        ← pgood_iff]
      generalize List.all (List.filterMap PSeg.item? p.body) Item.lined = a
      generalize List.all (List.filterMap PSeg.item? p.body) (Item.fits cap) = b
      generalize (List.filterMap RSeg.pkg? x).all (fun p => p.items.all Item.lined) = c
      generalize (List.filterMap RSeg.pkg? x).all (fun p => p.items.all (Item.fits cap)) = d
      cases a <;> cases b <;> cases c <;> cases d <;> rfl

/-- what the event-level parser returns on any well-formed serialisation, repeated method names
allowed, any sufficient fuel -/
theorem parse_eventsL (cap : Nat) (x : XReport) (h : wfSrc x = true) (hg : good cap x = true)
    (fuel : Nat) (hf : fuel > (expand (events x)).length) :
    parseCap cap (events x) fuel = .ok (semL (abs x)) := by
  simp only [wfSrc, Bool.and_eq_true, List.all_eq_true] at h
  rw [good_iff, List.all_eq_true] at hg
  unfold parseCap events
  rw [report_body cap x h.1 hg fuel [] hf, report_out_eqL x h.2]
  simp

/-- with unique names nothing is replaced -/
theorem insertAll_of_nodup (kvs : List (Name × Fn)) (h : (kvs.map (·.1)).Nodup) :
    insertAll kvs = kvs := by
  rw [insertAll_eq_setAll, setAll_append]
  · simp
  · simpa [keys] using h

theorem wfSrc_of_wf_pkg (p : Package) (h : p.wf = true) : p.wfSrc = true := by
  simp only [Package.wf, Bool.and_eq_true, List.all_eq_true, decide_eq_true_eq] at h
  simp only [Package.wfSrc, Bool.and_eq_true, List.all_eq_true, decide_eq_true_eq]
  refine ⟨?_, h.1.2⟩
  intro it hi
  have := h.1.1 it hi
  cases it with
  | cls c => rfl
  | src s => exact this

theorem semL_eq_sem_pkg (p : Package) (h : p.wf = true) : p.semL = p.sem := by
  simp only [Package.wf, Bool.and_eq_true, List.all_eq_true, decide_eq_true_eq] at h
  simp only [Package.semL, Package.sem]
  apply List.map_congr_left
  intro f hf
  simp only [covForL, covFor, insertAll_of_nodup _ (h.2 f hf)]

theorem semL_eq_sem (r : Report) (h : r.wf = true) : semL r = sem r := by
  induction r with
  | nil => rfl
  | cons p r ih =>
    simp only [Report.wf, List.all_cons, Bool.and_eq_true] at h
    simp only [semL, sem, List.flatMap_cons]
    rw [semL_eq_sem_pkg p h.1]
    congr 1
    exact ih h.2

theorem wfSrc_of_wf (x : XReport) (h : wf x = true) : wfSrc x = true := by
  simp only [wf, Bool.and_eq_true] at h
  simp only [wfSrc, Bool.and_eq_true]
  refine ⟨h.1, ?_⟩
  have h2 := h.2
  simp only [Report.wf, Report.wfSrc, List.all_eq_true] at h2 ⊢
  exact fun p hp => wfSrc_of_wf_pkg p (h2 p hp)

/-- fidelity of the event-level parser, any sufficient fuel -/
theorem parse_events (cap : Nat) (x : XReport) (h : wf x = true) (hg : good cap x = true) (fuel : Nat)
    (hf : fuel > (expand (events x)).length) : parseCap cap (events x) fuel = .ok (sem (abs x)) := by
  rw [parse_eventsL cap x (wfSrc_of_wf x h) hg fuel hf, semL_eq_sem]
  simp only [wf, Bool.and_eq_true] at h
  exact h.2

theorem enoughFuel_gt (evs : List XmlEvent) : enoughFuel evs > (expand evs).length := by
  have := length_expand_le evs
  unfold enoughFuel; omega

/-! ## termination on every event sequence

Every iteration of every loop either consumes one event or returns (end of input inside a nested
element is a `Parse` error since 34e25d5), and an inner loop hands back a strictly shorter rest, so
fuel above the number of events is never exhausted. -/

def Fine {α : Type} (n : Nat) : Outcome (α × List XmlEvent) → Prop
  | .ok (_, r') => r'.length < n
  | .err _ => True
  | .alloc => True
  | .diverge => False

theorem Fine.mono {α : Type} {n m : Nat} (h : n ≤ m) :
    ∀ {o : Outcome (α × List XmlEvent)}, Fine n o → Fine m o
  | .ok (_, _), c => by simp only [Fine] at c ⊢; omega
  | .err _, _ => trivial
  | .alloc, _ => trivial
  | .diverge, h => h

theorem fine_ok {α : Type} {n : Nat} {o : Outcome (α × List XmlEvent)} {x : α}
    {r' : List XmlEvent} (h : Fine n o) (e : o = .ok (x, r')) : r'.length < n := by
  subst e; exact h

theorem fine_ne {α : Type} {n : Nat} {o : Outcome (α × List XmlEvent)} (h : Fine n o)
    (e : o = .diverge) : False := by
  subst e; exact h

theorem method_fine : ∀ (fuel : Nat) (r : List XmlEvent) (ex : Bool),
    fuel > r.length → Fine (r.length + 1) (methodLoop fuel r ex) := by
  intro fuel
  induction fuel with
  | zero => intro r _ hf; omega
  | succ fuel ih =>
    intro r ex hf
    cases r with
    | nil => simp [methodLoop, Fine]
    | cons e r =>
      simp only [List.length_cons] at hf ⊢
      have hf' : fuel > r.length := by omega
      have cont := fun ex' => Fine.mono (Nat.le_succ _) (ih r ex' hf')
      cases e <;> simp only [methodLoop]
      case start n a => repeat' split
                        all_goals first | exact cont _ | trivial
      case end_ n =>
        split
        · simp only [Fine]; omega
        · exact cont _
      all_goals first | exact cont _ | trivial

theorem commitLine_ne_diverge (cap : Nat) (acc : SrcAcc) (la : LineAcc) :
    commitLine cap acc la ≠ .diverge := by
  unfold commitLine
  repeat' split
  all_goals (intro h; cases h)

theorem sourcefile_fine (cap : Nat) : ∀ (fuel : Nat) (r : List XmlEvent) (acc : SrcAcc),
    fuel > r.length → Fine (r.length + 1) (sourcefileLoop cap fuel r acc) := by
  intro fuel
  induction fuel with
  | zero => intro r _ hf; omega
  | succ fuel ih =>
    intro r acc hf
    cases r with
    | nil => simp [sourcefileLoop, Fine]
    | cons e r =>
      simp only [List.length_cons] at hf ⊢
      have hf' : fuel > r.length := by omega
      have cont := fun acc' => Fine.mono (Nat.le_succ _) (ih r acc' hf')
      cases e <;> simp only [sourcefileLoop]
      case start n a => repeat' split
                        all_goals first
                          | exact cont _
                          | trivial
                          | (rename_i hd; exact absurd hd (commitLine_ne_diverge _ _ _))
      case end_ n =>
        split
        · simp only [Fine]; omega
        · exact cont _
      all_goals first | exact cont _ | trivial

theorem class_fine (cls : Name) : ∀ (fuel : Nat) (r : List XmlEvent) (fns : List (Name × Fn)),
    fuel > r.length → Fine (r.length + 1) (classLoop cls fuel r fns) := by
  intro fuel
  induction fuel with
  | zero => intro r _ hf; omega
  | succ fuel ih =>
    intro r fns hf
    cases r with
    | nil => simp [classLoop, Fine]
    | cons e r =>
      simp only [List.length_cons] at hf ⊢
      have hf' : fuel > r.length := by omega
      have cont := fun fns' => Fine.mono (Nat.le_succ _) (ih r fns' hf')
      cases e <;> simp only [classLoop]
      case start n a =>
        have hM := method_fine fuel r false hf'
        repeat' split
        all_goals first
          | exact cont _
          | trivial
          | (rename_i hml; have := fine_ok hM hml
             exact Fine.mono (by omega) (ih _ _ (by omega)))
          | (rename_i hml; exact (fine_ne hM hml).elim)
      case end_ n =>
        split
        · simp only [Fine]; omega
        · exact cont _
      all_goals first | exact cont _ | trivial

theorem package_fine (cap : Nat) (pkg : Name) : ∀ (fuel : Nat) (r : List XmlEvent) (m : List (Name × Cov)),
    fuel > r.length → Fine (r.length + 1) (packageLoop cap pkg fuel r m) := by
  intro fuel
  induction fuel with
  | zero => intro r _ hf; omega
  | succ fuel ih =>
    intro r m hf
    cases r with
    | nil => simp [packageLoop, Fine]
    | cons e r =>
      simp only [List.length_cons] at hf ⊢
      have hf' : fuel > r.length := by omega
      have cont := fun m' => Fine.mono (Nat.le_succ _) (ih r m' hf')
      cases e <;> simp only [packageLoop]
      case start n a =>
        have hS := sourcefile_fine cap fuel r {} hf'
        have hC := fun cls => class_fine cls fuel r [] hf'
        repeat' split
        all_goals first
          | exact cont _
          | trivial
          | (rename_i hcl; have := fine_ok (hC _) hcl
             exact Fine.mono (by omega) (ih _ _ (by omega)))
          | (rename_i hcl; exact (fine_ne (hC _) hcl).elim)
          | (rename_i hsl; have := fine_ok hS hsl
             exact Fine.mono (by omega) (ih _ _ (by omega)))
          | (rename_i hsl; exact (fine_ne hS hsl).elim)
      case end_ n =>
        split
        · simp only [Fine]; omega
        · exact cont _
      all_goals first | exact cont _ | trivial

theorem report_terminates (cap : Nat) : ∀ (fuel : Nat) (r : List XmlEvent) (res : List (Name × Cov)),
    fuel > r.length → reportLoop cap fuel r res ≠ .diverge := by
  intro fuel
  induction fuel with
  | zero => intro r _ hf; omega
  | succ fuel ih =>
    intro r res hf
    cases r with
    | nil => simp [reportLoop]
    | cons e r =>
      simp only [List.length_cons] at hf
      have hf' : fuel > r.length := by omega
      cases e <;> simp only [reportLoop]
      case start n a =>
        have hP := fun pkg => package_fine cap pkg fuel r [] hf'
        repeat' split
        all_goals first
          | exact ih _ _ hf'
          | (intro h; cases h; done)
          | (rename_i hpl; have := fine_ok (hP _) hpl
             exact ih _ _ (by omega))
          | (rename_i hpl; exact (fine_ne (hP _) hpl).elim)
      all_goals first | exact ih _ _ hf' | (intro h; cases h; done)

/-- the parser returns (a result or an error) on every event sequence -/
theorem parseCap_terminates (cap : Nat) (evs : List XmlEvent) (fuel : Nat)
    (hf : fuel ≥ enoughFuel evs) : parseCap cap evs fuel ≠ .diverge := by
  unfold parseCap
  apply report_terminates cap fuel (expand evs) []
  have := enoughFuel_gt evs; omega

theorem parse_terminates (evs : List XmlEvent) (fuel : Nat)
    (hf : fuel ≥ enoughFuel evs) : parse evs fuel ≠ .diverge :=
  parseCap_terminates allocMax evs fuel hf

/-! ## end of input inside a nested element is a `Parse` error -/

theorem sourcefileLoop_eof (cap fuel : Nat) (acc : SrcAcc) :
    sourcefileLoop cap (fuel + 1) [] acc = .err .parse := rfl

theorem methodLoop_eof (fuel : Nat) (ex : Bool) : methodLoop (fuel + 1) [] ex = .err .parse := rfl

theorem classLoop_eof (cls : Name) (fuel : Nat) (fns : List (Name × Fn)) :
    classLoop cls (fuel + 1) [] fns = .err .parse := rfl

theorem packageLoop_eof (cap : Nat) (pkg : Name) (fuel : Nat) (m : List (Name × Cov)) :
    packageLoop cap pkg (fuel + 1) [] m = .err .parse := rfl

/-! ## canonical renderers are read back -/

theorem unescapeGo_escape (s : Name) : unescapeGo none (escape s) = some s := by
  induction s with
  | nil => rfl
  | cons c r ih =>
    unfold escape
    by_cases h1 : c = 60
    · subst h1; simp [unescapeGo, resolveEntity, ih]
    · by_cases h2 : c = 62
      · subst h2; simp [unescapeGo, resolveEntity, ih]
      · by_cases h3 : c = 38
        · subst h3; simp [unescapeGo, resolveEntity, ih]
        · by_cases h4 : c = 39
          · subst h4; simp [unescapeGo, resolveEntity, ih]
          · by_cases h5 : c = 34
            · subst h5; simp [unescapeGo, resolveEntity, ih]
            · simp [h1, h2, h3, h4, h5, unescapeGo, ih]

theorem unescape_escape (s : Name) : unescape (escape s) = some s := unescapeGo_escape s

theorem parseDigits_append (b : Nat) (xs ys : List Nat) : ∀ acc,
    parseDigits b acc (xs ++ ys) = (parseDigits b acc xs).bind fun a => parseDigits b a ys := by
  induction xs with
  | nil => intro acc; rfl
  | cons d xs ih =>
    intro acc
    simp only [List.cons_append, parseDigits]
    split
    · split
      · exact ih _
      · rfl
    · rfl

theorem parseDigits_decimalAux (b : Nat) : ∀ (fuel n : Nat), n ≤ fuel → n ≤ b →
    parseDigits b 0 (decimalAux fuel n) = some n := by
  intro fuel
  induction fuel with
  | zero =>
    intro n h hb
    have : n = 0 := by omega
    subst this
    simp [decimalAux, parseDigits, isDigit]
  | succ fuel ih =>
    intro n h hb
    unfold decimalAux
    split
    · rename_i hlt
      have e : 48 + n - 48 = n := by omega
      simp only [parseDigits, isDigit, Nat.zero_mul, Nat.zero_add, e]
      simp [hb]
      omega
    · rename_i hge
      rw [parseDigits_append, ih (n / 10) (by omega) (by omega)]
      have e : 48 + n % 10 - 48 = n % 10 := by omega
      have hv : n / 10 * 10 + n % 10 = n := by omega
      simp [parseDigits, isDigit, e, hv, hb]
      omega

theorem decimalAux_head (fuel n : Nat) :
    ∃ d ds, decimalAux fuel n = d :: ds ∧ 48 ≤ d := by
  induction fuel generalizing n with
  | zero => exact ⟨_, _, rfl, by omega⟩
  | succ fuel ih =>
    unfold decimalAux
    split
    · exact ⟨_, _, rfl, by omega⟩
    · obtain ⟨d, ds, e, h⟩ := ih (n / 10)
      exact ⟨d, ds ++ [48 + n % 10], by rw [e]; rfl, h⟩

/-- the plain decimal numeral of `n` is read back as `n` -/
theorem parseUnsigned_decimal (b n : Nat) (h : n ≤ b) : parseUnsigned b (decimal n) = some n := by
  have hp := parseDigits_decimalAux b n n (Nat.le_refl _) h
  obtain ⟨d, ds, e, hd⟩ := decimalAux_head n n
  unfold decimal
  rw [e] at hp ⊢
  unfold parseUnsigned
  split
  · rename_i heq; cases heq
  · rename_i r heq
    have : d = 43 := by injection heq
    omega
  · exact hp

/-! ## class-name helpers -/

theorem afterLast_fold (sep : Nat) (t : Name) (h : sep ∉ t) : ∀ acc : Name,
    t.foldl (fun acc c => if c = sep then [] else acc ++ [c]) acc = acc ++ t := by
  induction t with
  | nil => intro acc; simp
  | cons c t ih =>
    intro acc
    simp only [List.mem_cons, not_or] at h
    have hc : ¬ c = sep := fun e => h.1 e.symm
    simp only [List.foldl_cons, hc, if_false]
    rw [ih h.2]; simp

theorem afterLast_no_sep (sep : Nat) (s : Name) (h : sep ∉ s) : afterLast sep s = s := by
  unfold afterLast; rw [afterLast_fold sep s h]; rfl

theorem afterLast_append (sep : Nat) (p t : Name) (h : sep ∉ t) :
    afterLast sep (p ++ sep :: t) = t := by
  unfold afterLast
  rw [List.foldl_append, List.foldl_cons]
  simp only [if_true]
  rw [afterLast_fold sep t h]; rfl

theorem beforeFirst_no_sep (sep : Nat) (s : Name) (h : sep ∉ s) : beforeFirst sep s = s := by
  unfold beforeFirst
  induction s with
  | nil => rfl
  | cons c s ih =>
    simp only [List.mem_cons, not_or] at h
    have hc : ¬ c = sep := fun e => h.1 e.symm
    rw [List.takeWhile_cons]
    simp only [ne_eq, hc, not_false_eq_true, decide_true, if_true]
    rw [ih h.2]

theorem beforeFirst_append (sep : Nat) (p t : Name) (h : sep ∉ p) :
    beforeFirst sep (p ++ sep :: t) = p := by
  unfold beforeFirst
  induction p with
  | nil => simp
  | cons c p ih =>
    simp only [List.mem_cons, not_or] at h
    have hc : ¬ c = sep := fun e => h.1 e.symm
    rw [List.cons_append, List.takeWhile_cons]
    simp only [ne_eq, hc, not_false_eq_true, decide_true, if_true]
    rw [ih h.2]

/-! ## is_jacoco -/

theorem isPrefixOf'_iff (pat l : List Nat) :
    isPrefixOf' pat l = true ↔ ∃ post, l = pat ++ post := by
  induction pat generalizing l with
  | nil => simp [isPrefixOf']
  | cons a pat ih =>
    cases l with
    | nil => simp [isPrefixOf']
    | cons b l =>
      simp only [isPrefixOf', Bool.and_eq_true, beq_iff_eq, ih, List.cons_append, List.cons.injEq]
      constructor
      · rintro ⟨rfl, post, rfl⟩; exact ⟨post, rfl, rfl⟩
      · rintro ⟨post, rfl, rfl⟩; exact ⟨rfl, post, rfl⟩

theorem containsSub_iff (pat l : List Nat) :
    containsSub pat l = true ↔ ∃ pre post, l = pre ++ pat ++ post := by
  induction l with
  | nil =>
    simp only [containsSub, List.isEmpty_iff]
    constructor
    · rintro rfl; exact ⟨[], [], rfl⟩
    · rintro ⟨pre, post, h⟩
      have := congrArg List.length h
      simp at this
      exact List.eq_nil_of_length_eq_zero (by omega)
  | cons b l ih =>
    simp only [containsSub, Bool.or_eq_true, isPrefixOf'_iff, ih]
    constructor
    · rintro (⟨post, h⟩ | ⟨pre, post, h⟩)
      · exact ⟨[], post, by simpa using h⟩
      · exact ⟨b :: pre, post, by simp [h]⟩
    · rintro ⟨pre, post, h⟩
      cases pre with
      | nil => exact Or.inl ⟨post, by simpa using h⟩
      | cons c pre =>
        simp only [List.cons_append, List.cons.injEq] at h
        exact Or.inr ⟨pre, post, h.2⟩

theorem isJacoco_iff (file : List Nat) :
    isJacoco file = true ↔ ∃ pre post, file.take 256 = pre ++ jacocoMarker ++ post :=
  containsSub_iff _ _

theorem isJacoco_take (file : List Nat) : isJacoco file = isJacoco (file.take 256) := by
  simp [isJacoco, List.take_take]

/-! ## attribute order -/

theorem getAttrAux_found (key : Name) (raw : Name) :
    ∀ (attrs : List Attr), NoErr attrs →
      (attrs.map (·.1)).Nodup → (key, raw) ∈ attrs →
      getAttrAux key attrs
        = match unescape raw with
          | some s => .ok s
          | none => .error .parse := by
  intro attrs
  induction attrs with
  | nil => intro _ _ h; cases h
  | cons a attrs ih =>
    intro hs nd hm
    obtain ⟨k', v'⟩ := a
    simp only [List.map_cons, List.nodup_cons] at nd
    have hk' : k' ≠ [] := hs (k', v') (List.mem_cons_self ..)
    unfold getAttrAux
    simp only [hk', if_false]
    by_cases hk : k' = key
    · subst hk
      simp only [if_true]
      rcases List.mem_cons.mp hm with e | m
      · cases e; rfl
      · exact absurd (mem_keys_of_mem m) nd.1
    · simp only [hk, if_false]
      rcases List.mem_cons.mp hm with e | m
      · cases e; exact absurd rfl hk
      · exact ih hs.tail nd.2 m

/-- with distinct keys (and no attribute syntax error) the lookup does not depend on the order of
the attributes -/
theorem getAttr_perm (key : Name) {attrs attrs' : List Attr} (nd : (attrs.map (·.1)).Nodup)
    (ne : NoErr attrs) (p : attrs.Perm attrs') : getAttr key attrs = getAttr key attrs' := by
  have nd' : (attrs'.map (·.1)).Nodup := (p.map _).nodup_iff.mp nd
  have ne' : NoErr attrs' := fun a ha => ne a (p.mem_iff.mpr ha)
  by_cases h : ∃ raw, (key, raw) ∈ attrs
  · obtain ⟨raw, hm⟩ := h
    unfold getAttr
    rw [getAttrAux_found key raw attrs ne nd hm,
      getAttrAux_found key raw attrs' ne' nd' (p.mem_iff.mp hm)]
  · have h1 : ∀ a ∈ attrs, a.1 ≠ key := by
      intro a ha e; exact h ⟨a.2, by rw [← e]; exact ha⟩
    have h2 : ∀ a ∈ attrs', a.1 ≠ key := fun a ha => h1 a (p.mem_iff.mpr ha)
    unfold getAttr
    rw [getAttrAux_missing key attrs ne h1, getAttrAux_missing key attrs' ne' h2]

/-! ### repeated keys (since /repo ae885a6 not an error) -/

/-- `get_xml_attribute` returns the FIRST attribute with the key, whatever follows it (repeated
keys, even an attribute syntax error further right) -/
theorem getAttr_first_match (key raw : Name) (pre post : List Attr) (hp : NoErr pre)
    (hk : ∀ a ∈ pre, a.1 ≠ key) (hne : key ≠ []) :
    getAttr key (pre ++ (key, raw) :: post)
      = match unescape raw with
        | some s => .ok s
        | none => .error .parse := by
  unfold getAttr
  induction pre with
  | nil =>
    simp only [List.nil_append, getAttrAux, hne, if_false, if_true]
    cases unescape raw <;> rfl
  | cons a pre ih =>
    obtain ⟨k', v'⟩ := a
    have h1 : k' ≠ [] := hp (k', v') (List.mem_cons_self ..)
    have h2 : k' ≠ key := hk (k', v') (List.mem_cons_self ..)
    simp only [List.cons_append, getAttrAux, h1, h2, if_false]
    exact ih hp.tail (fun a ha => hk a (List.mem_cons_of_mem _ ha))

/-- an attribute syntax error met before the key is `Parse`, whatever follows -/
theorem getAttr_error_before (key : Name) (pre post : List Attr) (hp : NoErr pre)
    (hk : ∀ a ∈ pre, a.1 ≠ key) (v : Name) :
    getAttr key (pre ++ ([], v) :: post) = .error .parse := by
  unfold getAttr
  induction pre with
  | nil => simp [getAttrAux]
  | cons a pre ih =>
    obtain ⟨k', v'⟩ := a
    have h1 : k' ≠ [] := hp (k', v') (List.mem_cons_self ..)
    have h2 : k' ≠ key := hk (k', v') (List.mem_cons_self ..)
    simp only [List.cons_append, getAttrAux, h1, h2, if_false]
    exact ih hp.tail (fun a ha => hk a (List.mem_cons_of_mem _ ha))

/-- the `<line>` loop is a left fold: reading `pre ++ post` is reading `post` from the state
reached after `pre` -/
theorem lineAttrs_append (pre post : List Attr) (acc : LineAcc) :
    lineAttrs (pre ++ post) acc
      = match lineAttrs pre acc with
        | .ok acc' => lineAttrs post acc'
        | .error k => .error k := by
  induction pre generalizing acc with
  | nil => rfl
  | cons a pre ih =>
    obtain ⟨k, v⟩ := a
    simp only [List.cons_append, lineAttrs]
    repeat' split
    all_goals first
      | rfl
      | exact ih _
      | simp_all

/-! ### the work per element is linear -/

theorem getAttrWork_le (key : Name) (attrs : List Attr) : getAttrWork key attrs ≤ attrs.length := by
  induction attrs with
  | nil => simp [getAttrWork]
  | cons a attrs ih =>
    obtain ⟨k, v⟩ := a
    simp only [getAttrWork, List.length_cons]
    split <;> omega

theorem lineAttrsWork_le (attrs : List Attr) : lineAttrsWork attrs ≤ attrs.length := by
  induction attrs with
  | nil => simp [lineAttrsWork]
  | cons a attrs ih =>
    obtain ⟨k, v⟩ := a
    simp only [lineAttrsWork, List.length_cons]
    repeat' split
    all_goals omega

theorem attrWork_le (keys : List Name) (attrs : List Attr) :
    attrWork keys attrs ≤ keys.length * attrs.length := by
  unfold attrWork
  induction keys with
  | nil => simp
  | cons k ks ih =>
    simp only [List.map_cons, List.sum_cons, List.length_cons]
    have := getAttrWork_le k attrs
    rw [Nat.add_mul]; omega

/-! ## order of `<class>` / `<sourcefile>` elements inside a package -/

theorem srcFor_length_le (f : Name) (items : List Item)
    (nd : (items.filterMap Item.srcName?).Nodup) : (items.filterMap (Item.srcFor f)).length ≤ 1 := by
  induction items with
  | nil => simp
  | cons it items ih =>
    cases it with
    | cls c =>
      simp only [List.filterMap_cons, Item.srcName?, Item.srcFor] at nd ⊢
      exact ih nd
    | src s =>
      simp only [List.filterMap_cons, Item.srcName?, List.nodup_cons] at nd
      by_cases e : s.name = f
      · have : items.filterMap (Item.srcFor f) = [] :=
          srcFor_nil_of_not_mem_names _ _ (e ▸ nd.1)
        simp [Item.srcFor, e, this]
      · simp only [List.filterMap_cons, Item.srcFor, e, if_false]
        exact ih nd.2

theorem perm_of_length_le_one {α : Type} {a b : List α} (p : a.Perm b) (h : a.length ≤ 1) :
    a = b := by
  match a, b, p.length_eq, h with
  | [], [], _, _ => rfl
  | [x], [y], _, _ =>
    have := p.mem_iff.mp (List.mem_singleton.mpr rfl)
    simp at this; rw [this]

theorem linesFor_perm {items items' : List Item} (p : items.Perm items')
    (nd : (items.filterMap Item.srcName?).Nodup) (f : Name) :
    linesFor items f = linesFor items' f := by
  unfold linesFor
  rw [perm_of_length_le_one (p.filterMap (Item.srcFor f)) (srcFor_length_le f items nd)]

theorem mem_fileNames_perm {items items' : List Item} (p : items.Perm items') (f : Name) :
    f ∈ fileNames items ↔ f ∈ fileNames items' := by
  rw [mem_fileNames, mem_fileNames]
  constructor
  · rintro ⟨it, h, e⟩; exact ⟨it, p.mem_iff.mp h, e⟩
  · rintro ⟨it, h, e⟩; exact ⟨it, p.mem_iff.mpr h, e⟩

/-! ## error kinds -/

theorem parse_package_without_name (n : Name) (a : List Attr) (rest : List XmlEvent) (fuel : Nat)
    (hn : localName n = sPackage) (nd : keysOk a = true) (h : hasNoKey a sName = true) :
    parse (.start n a :: rest) (fuel + 1) = .err .invalidRecord := by
  simp [parse, parseCap, expand, reportLoop, hn, getAttr_of_hasNoKey nd h]

/-! ## reading the denotation entry by entry -/

theorem get?_of_mem_nodup {κ α : Type} [DecidableEq κ] {m : List (κ × α)} {k : κ} {v : α}
    (nd : (m.map (·.1)).Nodup) (h : (k, v) ∈ m) : get? m k = some v := by
  induction m with
  | nil => cases h
  | cons a m ih =>
    obtain ⟨k', v'⟩ := a
    simp only [List.map_cons, List.nodup_cons] at nd
    rcases List.mem_cons.mp h with e | hm
    · cases e; simp
    · have : k' ≠ k := fun e => nd.1 (e ▸ List.mem_map.mpr ⟨(k, v), hm, rfl⟩)
      simp only [get?_cons, this, if_false]
      exact ih nd.2 hm

theorem get?_none_of_not_mem {κ α : Type} [DecidableEq κ] {m : List (κ × α)} {k : κ}
    (h : k ∉ m.map (·.1)) : get? m k = none := (get?_eq_none_iff m k).mpr h

theorem line_eq_of_nr_eq {ls : List Line} (nd : (ls.map (·.nr)).Nodup) {a b : Line}
    (ha : a ∈ ls) (hb : b ∈ ls) (e : a.nr = b.nr) : a = b := by
  induction ls with
  | nil => cases ha
  | cons x ls ih =>
    simp only [List.map_cons, List.nodup_cons] at nd
    rcases List.mem_cons.mp ha with r2 | r2 <;> rcases List.mem_cons.mp hb with r1 | r1
    · rw [r1, r2]
    · subst r2; exact absurd (List.mem_map.mpr ⟨b, r1, e.symm⟩) nd.1
    · subst r1; exact absurd (List.mem_map.mpr ⟨a, r2, e⟩) nd.1
    · exact ih nd.2 r2 r1

theorem line_meaning (ls : List Line) (nd : (ls.map (·.nr)).Nodup) (l : Line) (hl : l ∈ ls) :
    if l.isBranch then
      get? (branchCov ls) l.nr = some (List.replicate l.cb true ++ List.replicate l.mb false)
        ∧ get? (lineCov ls) l.nr = none
    else
      get? (lineCov ls) l.nr = some (if l.ci > 0 then 1 else 0)
        ∧ get? (branchCov ls) l.nr = none := by
  have n1 : ((lineCov ls).map (·.1)).Nodup := nd.sublist (lineCov_keys_sublist ls)
  have n2 : ((branchCov ls).map (·.1)).Nodup := nd.sublist (branchCov_keys_sublist ls)
  -- a key of lineCov comes from a statement line, a key of branchCov from a branch line
  have k1 : ∀ l' ∈ ls, l'.isBranch = true → l'.nr ∉ (lineCov ls).map (·.1) := by
    intro l' hl' hb hm
    simp only [lineCov, List.mem_map, List.mem_filterMap] at hm
    obtain ⟨⟨nr, c⟩, ⟨l2, hl2, e2⟩, e⟩ := hm
    by_cases hb2 : l2.isBranch = true
    · simp [hb2] at e2
    · simp only [hb2] at e2
      simp only [Bool.false_eq_true, if_false, Option.some.injEq, Prod.mk.injEq] at e2
      simp only at e
      have : l2.nr = l'.nr := by rw [e2.1]; exact e
      have : l2 = l' := line_eq_of_nr_eq nd hl2 hl' this
      subst this; exact hb2 hb
  have k2 : ∀ l' ∈ ls, l'.isBranch = false → l'.nr ∉ (branchCov ls).map (·.1) := by
    intro l' hl' hb hm
    simp only [branchCov, List.mem_map, List.mem_filterMap] at hm
    obtain ⟨⟨nr, c⟩, ⟨l2, hl2, e2⟩, e⟩ := hm
    by_cases hb2 : l2.isBranch = true
    · simp only [hb2, if_true, Option.some.injEq, Prod.mk.injEq] at e2
      simp only at e
      have : l2.nr = l'.nr := by rw [e2.1]; exact e
      have : l2 = l' := line_eq_of_nr_eq nd hl2 hl' this
      subst this; simp [hb] at hb2
    · simp [hb2] at e2
  by_cases hb : l.isBranch = true
  · simp only [hb, if_true]
    refine ⟨get?_of_mem_nodup n2 ?_, get?_none_of_not_mem (k1 l hl hb)⟩
    simp only [branchCov, List.mem_filterMap]
    exact ⟨l, hl, by simp [hb]⟩
  · have hb' : l.isBranch = false := by simpa using hb
    simp only [hb', Bool.false_eq_true, if_false]
    refine ⟨get?_of_mem_nodup n1 ?_, get?_none_of_not_mem (k2 l hl hb')⟩
    simp only [lineCov, List.mem_filterMap]
    exact ⟨l, hl, by simp [hb']⟩

theorem method_meaning (items : List Item) (c : Class) (m : Method) (hc : Item.cls c ∈ items)
    (hm : m ∈ c.methods)
    (nd : ((items.flatMap (Item.funsFor c.file)).map (·.1)).Nodup) :
    get? (covFor items c.file).functions (c.simple ++ cHash :: m.name)
      = some ⟨m.line.getD 0, m.executed⟩ := by
  apply get?_of_mem_nodup nd
  simp only [List.mem_flatMap]
  refine ⟨.cls c, hc, ?_⟩
  simp only [Item.funsFor, if_true, Class.funs, List.mem_map]
  exact ⟨m, hm, rfl⟩

/-! ## closed examples used by Props/C10.lean -/

/-- a noisy serialisation: declaration, doctype, `<report>`, session info, a `<group>` wrapper,
counters of other types, text, shuffled and extra attributes, `&lt;init&gt;`, `&#53;`, `+1`, `005`,
a prefixed `j:line`, the source file before its classes, a class without `sourcefilename` -/
def exNoisy : XReport :=
  [.junk (.other), .junk (.other), .junk (.start [114, 101, 112, 111, 114, 116] [([110, 97, 109, 101], [100, 101, 109, 111])]), .junk (.empty [115, 101, 115, 115, 105, 111, 110, 105, 110, 102, 111] [([105, 100], [104, 45, 49]), ([115, 116, 97, 114, 116], [49]), ([100, 117, 109, 112], [50])]), .junk (.start [103, 114, 111, 117, 112] [([110, 97, 109, 101], [103])]), .pkg { name := [111, 114, 103, 47, 101, 120], tag := [112, 97, 99, 107, 97, 103, 101], attrs := [([110, 97, 109, 101], [111, 114, 103, 47, 101, 120])], selfClose := false, body := [.src { name := [80, 101, 114, 115, 111, 110, 46, 106, 97, 118, 97], tag := [115, 111, 117, 114, 99, 101, 102, 105, 108, 101], attrs := [([110, 97, 109, 101], [80, 101, 114, 115, 111, 110, 46, 106, 97, 118, 97])], selfClose := false, body := [.junk (.text), .line ⟨3, 0, 2, 0, 0⟩ [108, 105, 110, 101] [([110, 114], [51]), ([109, 105], [48]), ([99, 105], [50]), ([109, 98], [48]), ([99, 98], [48])] true, .junk (.text), .line ⟨5, 1, 4, 1, 2⟩ [106, 58, 108, 105, 110, 101] [([99, 98], [50]), ([109, 98], [43, 49]), ([120], [121]), ([99, 105], [52]), ([109, 105], [49]), ([110, 114], [48, 48, 53])] false, .line ⟨9, 3, 0, 0, 0⟩ [108, 105, 110, 101] [([99, 105], [48]), ([110, 114], [57]), ([99, 98], [48]), ([109, 98], [48, 48])] true, .junk (.empty [99, 111, 117, 110, 116, 101, 114] [([116, 121, 112, 101], [76, 73, 78, 69]), ([109, 105, 115, 115, 101, 100], [49]), ([99, 111, 118, 101, 114, 101, 100], [50])]), .junk (.other)] }, .junk (.text), .cls { fq := [111, 114, 103, 47, 101, 120, 47, 80, 101, 114, 115, 111, 110, 36, 65, 103, 101], sourcefile := some [80, 101, 114, 115, 111, 110, 46, 106, 97, 118, 97], tag := [99, 108, 97, 115, 115], selfClose := false, attrs := [([115, 111, 117, 114, 99, 101, 102, 105, 108, 101, 110, 97, 109, 101], [80, 101, 114, 115, 111, 110, 46, 106, 97, 118, 97]), ([110, 97, 109, 101], [111, 114, 103, 47, 101, 120, 47, 80, 101, 114, 115, 111, 110, 36, 65, 103, 101])], body := [.junk (.text), .method { name := [60, 105, 110, 105, 116, 62], line := some 3, tag := [109, 101, 116, 104, 111, 100], selfClose := false, attrs := [([100, 101, 115, 99], [40, 41, 86]), ([108, 105, 110, 101], [51]), ([110, 97, 109, 101], [38, 108, 116, 59, 105, 110, 105, 116, 38, 103, 116, 59])], body := [.otherCounter [73, 78, 83, 84, 82, 85, 67, 84, 73, 79, 78] [99, 111, 117, 110, 116, 101, 114] [([116, 121, 112, 101], [73, 78, 83, 84, 82, 85, 67, 84, 73, 79, 78]), ([109, 105, 115, 115, 101, 100], [48]), ([99, 111, 118, 101, 114, 101, 100], [52])] true, .junk (.text), .counter 1 [99, 111, 117, 110, 116, 101, 114] [([99, 111, 118, 101, 114, 101, 100], [49]), ([109, 105, 115, 115, 101, 100], [48]), ([116, 121, 112, 101], [77, 69, 84, 72, 79, 68])] false] }, .method { name := [103, 101, 116], line := some 5, tag := [109, 101, 116, 104, 111, 100], selfClose := false, attrs := [([110, 97, 109, 101], [103, 101, 116]), ([108, 105, 110, 101], [38, 35, 53, 51, 59])], body := [.counter 0 [99, 111, 117, 110, 116, 101, 114] [([116, 121, 112, 101], [77, 69, 84, 72, 79, 68]), ([109, 105, 115, 115, 101, 100], [49]), ([99, 111, 118, 101, 114, 101, 100], [48])] true] }, .junk (.empty [99, 111, 117, 110, 116, 101, 114] [([116, 121, 112, 101], [77, 69, 84, 72, 79, 68]), ([109, 105, 115, 115, 101, 100], [49]), ([99, 111, 118, 101, 114, 101, 100], [49])])] }, .cls { fq := [111, 114, 103, 47, 101, 120, 47, 80, 101, 114, 115, 111, 110], sourcefile := none, tag := [99, 108, 97, 115, 115], selfClose := false, attrs := [([110, 97, 109, 101], [111, 114, 103, 47, 101, 120, 47, 80, 101, 114, 115, 111, 110])], body := [.method { name := [109, 97, 105, 110], line := some 9, tag := [109, 101, 116, 104, 111, 100], selfClose := true, attrs := [([110, 97, 109, 101], [109, 97, 105, 110]), ([100, 101, 115, 99], [40, 91, 76, 106, 97, 118, 97, 47, 108, 97, 110, 103, 47, 83, 116, 114, 105, 110, 103, 59, 41, 86]), ([108, 105, 110, 101], [57])], body := [] }] }, .junk (.empty [99, 111, 117, 110, 116, 101, 114] [([116, 121, 112, 101], [67, 76, 65, 83, 83]), ([109, 105, 115, 115, 101, 100], [48]), ([99, 111, 118, 101, 114, 101, 100], [50])])] }, .junk (.end_ [103, 114, 111, 117, 112]), .junk (.text), .pkg { name := [], tag := [112, 97, 99, 107, 97, 103, 101], attrs := [([110, 97, 109, 101], [])], selfClose := false, body := [.src { name := [84, 46, 106, 97, 118, 97], tag := [115, 111, 117, 114, 99, 101, 102, 105, 108, 101], attrs := [([110, 97, 109, 101], [84, 46, 106, 97, 118, 97])], selfClose := true, body := [] }] }, .junk (.empty [99, 111, 117, 110, 116, 101, 114] [([116, 121, 112, 101], [73, 78, 83, 84, 82, 85, 67, 84, 73, 79, 78]), ([109, 105, 115, 115, 101, 100], [51]), ([99, 111, 118, 101, 114, 101, 100], [57])]), .junk (.end_ [114, 101, 112, 111, 114, 116])]

/-- the plain serialisation of the same report -/
def exPlain : XReport :=
  [.pkg { name := [111, 114, 103, 47, 101, 120], tag := [112, 97, 99, 107, 97, 103, 101], attrs := [([110, 97, 109, 101], [111, 114, 103, 47, 101, 120])], selfClose := false, body := [.src { name := [80, 101, 114, 115, 111, 110, 46, 106, 97, 118, 97], tag := [115, 111, 117, 114, 99, 101, 102, 105, 108, 101], attrs := [([110, 97, 109, 101], [80, 101, 114, 115, 111, 110, 46, 106, 97, 118, 97])], selfClose := false, body := [.line ⟨3, 0, 2, 0, 0⟩ [108, 105, 110, 101] [([110, 114], [51]), ([109, 105], [48]), ([99, 105], [50]), ([109, 98], [48]), ([99, 98], [48])] true, .line ⟨5, 1, 4, 1, 2⟩ [108, 105, 110, 101] [([110, 114], [53]), ([109, 105], [49]), ([99, 105], [52]), ([109, 98], [49]), ([99, 98], [50])] true, .line ⟨9, 3, 0, 0, 0⟩ [108, 105, 110, 101] [([110, 114], [57]), ([109, 105], [51]), ([99, 105], [48]), ([109, 98], [48]), ([99, 98], [48])] true] }, .cls { fq := [111, 114, 103, 47, 101, 120, 47, 80, 101, 114, 115, 111, 110, 36, 65, 103, 101], sourcefile := some [80, 101, 114, 115, 111, 110, 46, 106, 97, 118, 97], tag := [99, 108, 97, 115, 115], selfClose := false, attrs := [([110, 97, 109, 101], [111, 114, 103, 47, 101, 120, 47, 80, 101, 114, 115, 111, 110, 36, 65, 103, 101]), ([115, 111, 117, 114, 99, 101, 102, 105, 108, 101, 110, 97, 109, 101], [80, 101, 114, 115, 111, 110, 46, 106, 97, 118, 97])], body := [.method { name := [60, 105, 110, 105, 116, 62], line := some 3, tag := [109, 101, 116, 104, 111, 100], selfClose := false, attrs := [([110, 97, 109, 101], [38, 108, 116, 59, 105, 110, 105, 116, 38, 103, 116, 59]), ([108, 105, 110, 101], [51])], body := [.counter 1 [99, 111, 117, 110, 116, 101, 114] [([116, 121, 112, 101], [77, 69, 84, 72, 79, 68]), ([99, 111, 118, 101, 114, 101, 100], [49])] true] }, .method { name := [103, 101, 116], line := some 5, tag := [109, 101, 116, 104, 111, 100], selfClose := false, attrs := [([110, 97, 109, 101], [103, 101, 116]), ([108, 105, 110, 101], [53])], body := [.counter 0 [99, 111, 117, 110, 116, 101, 114] [([116, 121, 112, 101], [77, 69, 84, 72, 79, 68]), ([99, 111, 118, 101, 114, 101, 100], [48])] true] }] }, .cls { fq := [111, 114, 103, 47, 101, 120, 47, 80, 101, 114, 115, 111, 110], sourcefile := none, tag := [99, 108, 97, 115, 115], selfClose := false, attrs := [([110, 97, 109, 101], [111, 114, 103, 47, 101, 120, 47, 80, 101, 114, 115, 111, 110])], body := [.method { name := [109, 97, 105, 110], line := some 9, tag := [109, 101, 116, 104, 111, 100], selfClose := false, attrs := [([110, 97, 109, 101], [109, 97, 105, 110]), ([108, 105, 110, 101], [57])], body := [] }] }] }, .pkg { name := [], tag := [112, 97, 99, 107, 97, 103, 101], attrs := [([110, 97, 109, 101], [])], selfClose := false, body := [.src { name := [84, 46, 106, 97, 118, 97], tag := [115, 111, 117, 114, 99, 101, 102, 105, 108, 101], attrs := [([110, 97, 109, 101], [84, 46, 106, 97, 118, 97])], selfClose := false, body := [] }] }]

def exExpected : List (Name × Cov) :=
  [([111, 114, 103, 47, 101, 120, 47, 80, 101, 114, 115, 111, 110, 46, 106, 97, 118, 97],
     { lines := [(3, 1), (9, 0)], branches := [(5, [true, true, false])],
       functions := [([80, 101, 114, 115, 111, 110, 36, 65, 103, 101, 35, 60, 105, 110, 105, 116, 62], ⟨3, true⟩), ([80, 101, 114, 115, 111, 110, 36, 65, 103, 101, 35, 103, 101, 116], ⟨5, false⟩),
                     ([80, 101, 114, 115, 111, 110, 35, 109, 97, 105, 110], ⟨9, false⟩)] }),
    ([84, 46, 106, 97, 118, 97], {})]

/-- `<report><package name="p"><class name="p/A"><method name="m" line="1">` and then end of input -/
def exTruncated : List XmlEvent :=
  [.start [114, 101, 112, 111, 114, 116] [],
   .start [112, 97, 99, 107, 97, 103, 101] [([110, 97, 109, 101], [112])],
   .start [99, 108, 97, 115, 115] [([110, 97, 109, 101], [112, 47, 65])],
   .start [109, 101, 116, 104, 111, 100] [([110, 97, 109, 101], [109]), ([108, 105, 110, 101], [49])]]


theorem exTruncated_parse_error (fuel : Nat) : parse exTruncated (fuel + 5) = .err .parse := by
  have h1 : localName [114, 101, 112, 111, 114, 116] ≠ sPackage := by decide
  have h2 : localName [112, 97, 99, 107, 97, 103, 101] = sPackage := by decide
  have h3 : localName [99, 108, 97, 115, 115] = sClass := by decide
  have h4 : localName [109, 101, 116, 104, 111, 100] = sMethod := by decide
  have g1 : getAttr sName [([110, 97, 109, 101], [112])] = .ok [112] := by rfl
  have g2 : getAttr sName [([110, 97, 109, 101], [112, 47, 65])] = .ok [112, 47, 65] := by rfl
  have g3 : getAttr sName [([110, 97, 109, 101], [109]), ([108, 105, 110, 101], [49])]
      = .ok [109] := by rfl
  have g4 : getAttr sLine [([110, 97, 109, 101], [109]), ([108, 105, 110, 101], [49])]
      = .ok [49] := by rfl
  have g5 : parseUnsigned U32MAX [49] = some 1 := by decide
  have g6 : ∀ top, sourceFileOf [([110, 97, 109, 101], [112, 47, 65])] top = .ok (top ++ sDotJava) :=
    fun _ => rfl
  simp only [parse, parseCap, exTruncated, expand, reportLoop, h1, h2, if_false, if_true, g1, packageLoop,
    h3, g2, g6, classLoop, h4, g3, g4, g5, methodLoop_eof]

theorem lineAttrs_error_kind : ∀ (attrs : List Attr) (acc : LineAcc)
    (k : ErrKind), lineAttrs attrs acc = .error k → k = .parse := by
  intro attrs
  induction attrs with
  | nil => intro acc k h; simp [lineAttrs] at h
  | cons a attrs ih =>
    intro acc k h
    obtain ⟨k', v'⟩ := a
    unfold lineAttrs at h
    repeat' split at h
    all_goals first
      | exact ih _ _ h
      | (injection h with h; exact h.symm)

theorem commitLine_error_kind (cap : Nat) (acc : SrcAcc) (la : LineAcc) (k : ErrKind)
    (h : commitLine cap acc la = .err k) :
    k = .invalidRecord ∧ (la.ci = none ∨ la.cb = none ∨ la.mb = none ∨ la.nr = none) := by
  unfold commitLine at h
  split at h
  · repeat' split at h
    all_goals cases h
  · rename_i hnone
    injection h with h
    refine ⟨h.symm, ?_⟩
    cases h1 : la.ci <;> cases h2 : la.cb <;> cases h3 : la.mb <;> cases h4 : la.nr <;> simp_all
    exact hnone _ _ _ _ rfl rfl rfl rfl


/-! ## lines and branches do not depend on the methods -/

def lbOf (r : Name × Cov) : Name × List (Nat × Nat) × List (Nat × List Bool) :=
  (r.1, r.2.lines, r.2.branches)

theorem semL_lines_branches (r : Report) : (semL r).map lbOf = (sem r).map lbOf := by
  induction r with
  | nil => rfl
  | cons p r ih =>
    simp only [semL, sem, List.flatMap_cons, List.map_append] at ih ⊢
    rw [ih]
    congr 1
    simp only [Package.semL, Package.sem, List.map_map]
    apply List.map_congr_left
    intro f _
    rfl

/-! ## missing attributes -/

theorem method_without_line (cls : Name) (n : Name) (a : List Attr) (name : Name)
    (rest : List XmlEvent) (fuel : Nat) (fns : List (Name × Fn))
    (hn : localName n = sMethod) (nd : keysOk a = true) (h1 : hasAttr a sName name = true)
    (h2 : hasNoKey a sLine = true) :
    classLoop cls (fuel + 1) (.start n a :: rest) fns = .err .invalidRecord := by
  simp [classLoop, hn, getAttr_of_hasAttr nd h1, getAttr_of_hasNoKey nd h2]

theorem method_without_name (cls : Name) (n : Name) (a : List Attr)
    (rest : List XmlEvent) (fuel : Nat) (fns : List (Name × Fn))
    (hn : localName n = sMethod) (nd : keysOk a = true) (h1 : hasNoKey a sName = true) :
    classLoop cls (fuel + 1) (.start n a :: rest) fns = .err .invalidRecord := by
  simp [classLoop, hn, getAttr_of_hasNoKey nd h1]

theorem counter_without_type (n : Name) (a : List Attr) (rest : List XmlEvent) (fuel : Nat)
    (ex : Bool) (hn : localName n = sCounter) (nd : keysOk a = true)
    (h1 : hasNoKey a sType = true) :
    methodLoop (fuel + 1) (.start n a :: rest) ex = .err .invalidRecord := by
  simp [methodLoop, hn, getAttr_of_hasNoKey nd h1]

theorem method_counter_without_covered (n : Name) (a : List Attr) (rest : List XmlEvent)
    (fuel : Nat) (ex : Bool) (hn : localName n = sCounter) (nd : keysOk a = true)
    (h1 : hasAttr a sType sMETHOD = true) (h2 : hasNoKey a sCovered = true) :
    methodLoop (fuel + 1) (.start n a :: rest) ex = .err .invalidRecord := by
  simp [methodLoop, hn, getAttr_of_hasAttr nd h1, getAttr_of_hasNoKey nd h2]

theorem class_without_sourcefilename (a : List Attr) (top : Name) (nd : keysOk a = true)
    (h : hasNoKey a sSourcefilename = true) : sourceFileOf a top = .ok (top ++ sDotJava) := by
  simp [sourceFileOf, getAttr_of_hasNoKey nd h]

/-- `get_xml_attribute` only fails with `InvalidRecord` when no attribute has the key -/
theorem getAttrAux_invalidRecord (key : Name) : ∀ (attrs : List Attr),
    getAttrAux key attrs = .error .invalidRecord → ∀ a ∈ attrs, a.1 ≠ key := by
  intro attrs
  induction attrs with
  | nil => intro _ a ha; cases ha
  | cons b attrs ih =>
    obtain ⟨k, v⟩ := b
    intro h a ha
    unfold getAttrAux at h
    split at h
    · cases h
    · split at h
      · split at h <;> cases h
      · rename_i hk
        rcases List.mem_cons.mp ha with rfl | hm
        · exact hk
        · exact ih h a hm

/-- a `sourcefilename` that is present but unreadable (the look-up fails with anything but
"absent") makes the class arm of the package loop return that error, before the class body is read -/
theorem class_unreadable_sourcefilename (cap : Nat) (pkg n : Name) (a : List Attr)
    (rest : List XmlEvent) (fuel : Nat) (m : List (Name × Cov)) (fq : Name) (k : ErrKind)
    (hn : localName n = sClass) (h1 : getAttr sName a = .ok fq)
    (h2 : getAttr sSourcefilename a = .error k) (hk : k ≠ .invalidRecord) :
    packageLoop cap pkg (fuel + 1) (.start n a :: rest) m = .err k := by
  have : sourceFileOf a (beforeFirst cDollar (afterLast cSlash fq)) = .error k := by
    unfold sourceFileOf; rw [h2]; cases k <;> simp_all
  simp [packageLoop, hn, h1, this]

theorem class_or_sourcefile_without_name (cap : Nat) (pkg n : Name) (a : List Attr)
    (rest : List XmlEvent) (fuel : Nat) (m : List (Name × Cov))
    (hn : localName n = sClass ∨ localName n = sSourcefile) (nd : keysOk a = true)
    (h1 : hasNoKey a sName = true) :
    packageLoop cap pkg (fuel + 1) (.start n a :: rest) m = .err .invalidRecord := by
  have hne : sSourcefile ≠ sClass := by decide
  rcases hn with hn | hn
  · simp [packageLoop, hn, getAttr_of_hasNoKey nd h1]
  · simp [packageLoop, hn, hne, getAttr_of_hasNoKey nd h1]

/-- a method body without a METHOD counter leaves `executed = false` -/
theorem method_without_counter (m : XMethod) (h : m.body.filterMap MSeg.covered? = []) :
    m.abs.executed = false := by
  simp [XMethod.abs, Method.executed, h]

theorem commitLine_alloc_iff (cap : Nat) (acc : SrcAcc) (ci cb mb nr : Nat) :
    commitLine cap acc ⟨some ci, some cb, some mb, some nr⟩ = .alloc ↔ cb + mb > cap := by
  unfold commitLine
  by_cases h : mb > 0 ∨ cb > 0
  · by_cases hc : cb + mb > cap <;> simp [h, hc]
  · have : ¬ cb + mb > cap := by omega
    simp [h, this]

/-! ## more closed examples -/

/-- overloaded constructors: `<init>(I)V` at line 3, executed, then `<init>()V` at line 7, not executed -/
def exOverload : XReport :=
  [.pkg { name := [112], tag := [112, 97, 99, 107, 97, 103, 101], attrs := [([110, 97, 109, 101], [112])], selfClose := false, body := [.cls { fq := [112, 47, 65], sourcefile := some [65, 46, 106, 97, 118, 97], tag := [99, 108, 97, 115, 115], selfClose := false, attrs := [([110, 97, 109, 101], [112, 47, 65]), ([115, 111, 117, 114, 99, 101, 102, 105, 108, 101, 110, 97, 109, 101], [65, 46, 106, 97, 118, 97])], body := [.method { name := [60, 105, 110, 105, 116, 62], line := some 3, tag := [109, 101, 116, 104, 111, 100], selfClose := false, attrs := [([110, 97, 109, 101], [38, 108, 116, 59, 105, 110, 105, 116, 38, 103, 116, 59]), ([100, 101, 115, 99], [40, 73, 41, 86]), ([108, 105, 110, 101], [51])], body := [.counter 1 [99, 111, 117, 110, 116, 101, 114] [([116, 121, 112, 101], [77, 69, 84, 72, 79, 68]), ([109, 105, 115, 115, 101, 100], [48]), ([99, 111, 118, 101, 114, 101, 100], [49])] true] }, .method { name := [60, 105, 110, 105, 116, 62], line := some 7, tag := [109, 101, 116, 104, 111, 100], selfClose := false, attrs := [([110, 97, 109, 101], [38, 108, 116, 59, 105, 110, 105, 116, 38, 103, 116, 59]), ([100, 101, 115, 99], [40, 41, 86]), ([108, 105, 110, 101], [55])], body := [.counter 0 [99, 111, 117, 110, 116, 101, 114] [([116, 121, 112, 101], [77, 69, 84, 72, 79, 68]), ([109, 105, 115, 115, 101, 100], [49]), ([99, 111, 118, 101, 114, 101, 100], [48])] true] }] }] }]

/-- `A#<init>` -/
def exOverloadInit : Name := [65, 35, 60, 105, 110, 105, 116, 62]
/-- `p/A.java` -/
def exOverloadPath : Name := [112, 47, 65, 46, 106, 97, 118, 97]

/-- a class compiled without debug information: `<method name="m" desc="()V"/>` has no `line` -/
def exNoLine : XReport :=
  [.pkg { name := [112], tag := [112, 97, 99, 107, 97, 103, 101], attrs := [([110, 97, 109, 101], [112])], selfClose := false, body := [.cls { fq := [112, 47, 65], sourcefile := some [65, 46, 106, 97, 118, 97], tag := [99, 108, 97, 115, 115], selfClose := false, attrs := [([110, 97, 109, 101], [112, 47, 65]), ([115, 111, 117, 114, 99, 101, 102, 105, 108, 101, 110, 97, 109, 101], [65, 46, 106, 97, 118, 97])], body := [.method { name := [109], line := none, tag := [109, 101, 116, 104, 111, 100], selfClose := true, attrs := [([110, 97, 109, 101], [109]), ([100, 101, 115, 99], [40, 41, 86])], body := [] }] }] }]

/-- `<line nr="1" mi="0" ci="0" mb="0" cb="18446744073709551615"/>` -/
def exBig : XReport :=
  [.pkg { name := [112], tag := [112, 97, 99, 107, 97, 103, 101], attrs := [([110, 97, 109, 101], [112])], selfClose := false, body := [.src { name := [65, 46, 106, 97, 118, 97], tag := [115, 111, 117, 114, 99, 101, 102, 105, 108, 101], attrs := [([110, 97, 109, 101], [65, 46, 106, 97, 118, 97])], selfClose := false, body := [.line ⟨1, 0, 0, 0, 18446744073709551615⟩ [108, 105, 110, 101] [([110, 114], [49]), ([109, 105], [48]), ([99, 105], [48]), ([109, 98], [48]), ([99, 98], [49, 56, 52, 52, 54, 55, 52, 52, 48, 55, 51, 55, 48, 57, 53, 53, 49, 54, 49, 53])] true] }] }]

end Grcov.Jacoco
