/-
Lemmas for Consumer.WorkDirs (C20): worker directories and the extraction area are apart in the
present layout, hence every worker sees, in any interleaving with the producer and the other
workers, exactly the directory `Consumer.runItems` gives it.
-/
import GrcovModel.Consumer.WorkDirs
import GrcovModel.Lemmas.Consumer
namespace Grcov.Consumer.WorkDirs
open Grcov Grcov.Consumer

/-! ### decimal names -/

theorem decDigits_digits (fuel n : Nat) : ∀ b ∈ decDigits fuel n, 48 ≤ b ∧ b ≤ 57 := by
  induction fuel generalizing n with
  | zero => intro b hb; simp [decDigits] at hb; omega
  | succ f ih =>
    intro b hb
    unfold decDigits at hb
    split at hb
    · simp at hb; omega
    · rcases List.mem_append.1 hb with h | h
      · exact ih _ b h
      · simp at h; omega

def val (ds : List Nat) : Nat := ds.foldl (fun a d => a * 10 + (d - 48)) 0

theorem val_decDigits (fuel n : Nat) (h : n ≤ fuel) : val (decDigits fuel n) = n := by
  induction fuel generalizing n with
  | zero =>
    have : n = 0 := by omega
    subst this; rfl
  | succ f ih =>
    unfold decDigits
    split
    · simp [val]
    · rename_i hn
      have h1 : n / 10 ≤ f := by omega
      have := ih (n / 10) h1
      unfold val at this ⊢
      rw [List.foldl_append, this]
      simp
      omega

theorem dec_inj {i j : Nat} (h : dec i = dec j) : i = j := by
  have hi := val_decDigits i i (Nat.le_refl _)
  have hj := val_decDigits j j (Nat.le_refl _)
  unfold dec at h
  rw [h] at hi
  omega

theorem dec_ne_inputs (i : Nat) : dec i ≠ INPUTS := by
  intro h
  have := decDigits_digits i i 105 (by unfold dec at h; rw [h]; decide)
  omega

/-! ### direct children -/

theorem under1_eq_some {wd p : Path} {n : Bytes} : under1 wd p = some n ↔ p = wd ++ [n] := by
  unfold under1
  constructor
  · intro h
    split at h
    · rename_i hp
      obtain ⟨t, rfl⟩ := List.isPrefixOf_iff_prefix.1 hp
      simp only [List.drop_left] at h
      match t, h with
      | [m], h => cases h; rfl
    · cases h
  · rintro rfl
    have : wd.isPrefixOf (wd ++ [n]) = true := List.isPrefixOf_iff_prefix.2 (List.prefix_append _ _)
    simp [this]

theorem under1_child (wd : Path) (n : Bytes) : under1 wd (wd ++ [n]) = some n := under1_eq_some.2 rfl

theorem under1_eq_none {wd p : Path} (h : ∀ n, p ≠ wd ++ [n]) : under1 wd p = none := by
  cases hu : under1 wd p with
  | none => rfl
  | some n => exact absurd (under1_eq_some.1 hu) (h n)

/-- two directories are apart when no path is a direct child of both -/
def Apart (wd wd' : Path) : Prop := ∀ n m : Bytes, wd ++ [n] ≠ wd' ++ [m]

theorem view_put_same (fs : Tree) (wd : Path) (d : Dir) : view (put fs wd d) wd = d := by
  unfold view put
  rw [List.filterMap_append]
  have h1 : (fs.filter fun pe => (under1 wd pe.1).isNone).filterMap
      (fun pe => (under1 wd pe.1).map fun n => (n, pe.2)) = [] := by
    rw [List.filterMap_eq_nil_iff]
    intro pe hpe
    have := (List.mem_filter.1 hpe).2
    cases hu : under1 wd pe.1 with
    | none => rfl
    | some n => rw [hu] at this; simp at this
  rw [h1, List.nil_append, List.filterMap_map]
  induction d with
  | nil => rfl
  | cons ne d ih => simp [Function.comp, under1_child, ih]

theorem view_put_other (fs : Tree) (wd wd' : Path) (d : Dir) (h : Apart wd wd') :
    view (put fs wd' d) wd = view fs wd := by
  unfold view put
  rw [List.filterMap_append]
  have h2 : (d.map fun ne => (wd' ++ [ne.1], ne.2)).filterMap
      (fun pe => (under1 wd pe.1).map fun n => (n, pe.2)) = [] := by
    rw [List.filterMap_eq_nil_iff]
    intro pe hpe
    obtain ⟨ne, _, rfl⟩ := List.mem_map.1 hpe
    rw [under1_eq_none (wd := wd) (p := wd' ++ [ne.1]) fun n e => h n ne.1 e.symm]
    rfl
  rw [h2, List.append_nil]
  induction fs with
  | nil => rfl
  | cons pe fs ih =>
    cases hu : under1 wd pe.1 with
    | none =>
      by_cases hk : (under1 wd' pe.1).isNone = true
      · simp [List.filter_cons, hk, List.filterMap_cons, hu, ih]
      · simp [List.filter_cons, hk, List.filterMap_cons, hu, ih]
    | some n =>
      have : under1 wd' pe.1 = none :=
        under1_eq_none fun m e => h n m (by rw [← under1_eq_some.1 hu, e])
      simp [List.filter_cons, this, List.filterMap_cons, hu, ih]

theorem mem_parents {base rel : Path} {q : Path} (h : q ∈ parents base rel) :
    ∃ r, r ≠ [] ∧ q = base ++ r := by
  induction rel generalizing base with
  | nil => simp [parents] at h
  | cons d rest ih =>
    cases rest with
    | nil => simp [parents] at h
    | cons e rest' =>
      simp only [parents, List.mem_cons] at h
      rcases h with rfl | h
      · exact ⟨[d], by simp, rfl⟩
      · obtain ⟨r, _, rfl⟩ := ih h
        exact ⟨d :: r, by simp, by simp⟩

/-- an extraction whose every new path lies outside `wd` does not change what `wd` shows -/
theorem view_addFile (fs : Tree) (wd base rel : Path) (c : Nat)
    (h : ∀ r n, base ++ r ≠ wd ++ [n]) : view (addFile fs base rel c) wd = view fs wd := by
  unfold view addFile
  rw [List.filterMap_append, List.filterMap_append]
  have h1 : ((parents base rel).map fun p => (p, Entry.subdir)).filterMap
      (fun pe => (under1 wd pe.1).map fun n => (n, pe.2)) = [] := by
    rw [List.filterMap_eq_nil_iff]
    intro pe hpe
    obtain ⟨q, hq, rfl⟩ := List.mem_map.1 hpe
    obtain ⟨r, _, rfl⟩ := mem_parents hq
    rw [under1_eq_none (h r)]; rfl
  have h2 : ([(base ++ rel, Entry.file c)] : Tree).filterMap
      (fun pe => (under1 wd pe.1).map fun n => (n, pe.2)) = [] := by
    simp [under1_eq_none (h rel)]
  rw [h1, h2]; simp

/-! ### the present layout -/

theorem apart_workers (tmp : Path) {i j : Nat} (h : i ≠ j) : Apart (workerDir tmp i) (workerDir tmp j) := by
  intro n m e
  unfold workerDir at e
  rw [List.append_assoc, List.append_assoc] at e
  have := List.append_cancel_left e
  simp at this
  exact h (dec_inj this.1)

theorem extract_outside_workers (tmp : Path) (i : Nat) (r : Path) (n : Bytes) :
    (tmp ++ [INPUTS]) ++ r ≠ workerDir tmp i ++ [n] := by
  intro e
  unfold workerDir at e
  rw [List.append_assoc, List.append_assoc] at e
  have := List.append_cancel_left e
  simp at this
  exact dec_ne_inputs i this.1.symm

theorem resultsOf_append (i : Nat) (a b : List (Nat × StepResult)) :
    resultsOf i (a ++ b) = resultsOf i a ++ resultsOf i b := by
  simp [resultsOf]

/-- the invariant that carries the induction: from any state of the real tree, worker `i`'s
results are those of `runItems` started on what its directory shows -/
theorem grun_worker (env : Env) (tmp : Path) (i : Nat) (evs : List Ev) (g : G) :
    resultsOf i (grun layoutNew env tmp g evs)
      = if g.dead i then []
        else (runItems env ⟨g.types i, view g.fs (workerDir tmp i)⟩ (itemsOf i evs)).2 := by
  induction evs generalizing g with
  | nil => simp [grun, resultsOf, itemsOf, runItems]
  | cons e es ih =>
    rw [grun, resultsOf_append, ih]
    cases e with
    | extract rel c =>
      simp only [gstep, itemsOf, layoutNew]
      rw [view_addFile _ _ _ _ _ (extract_outside_workers tmp i)]
      simp only [resultsOf, List.filter_nil, List.map_nil, List.nil_append]
      rfl
    | work j it =>
      by_cases hd : g.dead j = true
      · -- a dead worker takes nothing
        simp only [gstep, hd, if_true]
        by_cases hji : j = i
        · subst hji; simp [resultsOf, hd]
        · simp [resultsOf, itemsOf, hji]
      · simp only [gstep, hd, Bool.false_eq_true, if_false]
        by_cases hji : j = i
        · subst hji
          simp only [itemsOf, if_true, upd, view_put_same]
          rw [runItems_cons]
          have hdi : g.dead j = false := by simpa using hd
          simp only [resultsOf, hdi, Bool.false_eq_true, if_false, List.filter_cons, decide_true,
            if_true, List.filter_nil, List.map_cons, List.map_nil, decide_eq_true_eq]
          by_cases hp : (step env ⟨g.types j, view g.fs (workerDir tmp j)⟩ it).2 = .panic
          · simp [hp]
          · simp [hp]
        · have hij : i ≠ j := fun e => hji e.symm
          simp only [itemsOf, hji, if_false, upd, hij, view_put_other _ _ _ _ (apart_workers tmp hij)]
          simp [resultsOf, hji]

end Grcov.Consumer.WorkDirs
