/-
Helper lemmas for C09 (gcov text and JSON readers): line splitting, `remove_newline`, `splitn`,
`from_str` on rendered decimals, one lemma per record kind, the section/report glue, and the
`get?` characterisations of the specification's maps.
-/
import GrcovModel.Spec.Gcov
import GrcovModel.Lemmas.GcovLossy
import GrcovModel.Lemmas.GcovJsonSum
namespace Grcov.Gcov
open Grcov AList Grcov.Gcov.Text Grcov.Gcov.Spec
open Grcov.Lcov (utf8Lossy)

/-! ### association lists built by insertion -/

theorem set_ne_nil {κ α : Type} [DecidableEq κ] (m : List (κ × α)) (k : κ) (v : α) :
    AList.set m k v ≠ [] := by
  cases m with
  | nil => simp [AList.set]
  | cons kv m => obtain ⟨k', w⟩ := kv; unfold AList.set; split <;> simp

theorem foldl_set_ne_nil {κ α : Type} [DecidableEq κ] (xs : List (κ × α))
    (m : List (κ × α)) (hm : m ≠ [] ∨ xs ≠ []) :
    xs.foldl (fun m x => AList.set m x.1 x.2) m ≠ [] := by
  induction xs generalizing m with
  | nil => simpa using hm
  | cons x xs ih => exact ih _ (Or.inl (set_ne_nil _ _ _))

theorem ofList_isEmpty {κ α : Type} [DecidableEq κ] (kvs : List (κ × α)) :
    (ofList kvs).isEmpty = kvs.isEmpty := by
  cases kvs with
  | nil => rfl
  | cons kv kvs =>
    have := foldl_set_ne_nil (kv :: kvs) [] (Or.inr (by simp))
    simp only [ofList]
    cases h : List.foldl (fun m kv => AList.set m kv.1 kv.2) [] (kv :: kvs) with
    | nil => exact absurd h this
    | cons _ _ => rfl

theorem get?_append {κ α : Type} [DecidableEq κ] (a b : List (κ × α)) (k : κ) :
    get? (a ++ b) k = (get? a k).orElse fun _ => get? b k := by
  induction a with
  | nil => simp
  | cons kv a ih =>
    obtain ⟨k', w⟩ := kv
    by_cases hk : k' = k <;> simp [hk, ih]

theorem get?_foldl_set {κ α : Type} [DecidableEq κ] (kvs : List (κ × α)) (m : List (κ × α)) (k : κ) :
    get? (kvs.foldl (fun m kv => AList.set m kv.1 kv.2) m) k = get? (kvs.reverse ++ m) k := by
  induction kvs generalizing m with
  | nil => simp
  | cons kv kvs ih =>
    simp only [List.foldl_cons]
    rw [ih, get?_append, get?_set, List.reverse_cons, List.append_assoc, get?_append]
    obtain ⟨k', w⟩ := kv
    simp

/-- last pair wins: looking a key up in the built map is looking it up in the pairs read backwards -/
theorem get?_ofList {κ α : Type} [DecidableEq κ] (kvs : List (κ × α)) (k : κ) :
    get? (ofList kvs) k = get? kvs.reverse k := by
  unfold ofList; rw [get?_foldl_set]; simp

theorem nodupKeys_foldl_set {κ α : Type} [DecidableEq κ] (kvs : List (κ × α)) (m : List (κ × α))
    (hm : NodupKeys m) : NodupKeys (kvs.foldl (fun m kv => AList.set m kv.1 kv.2) m) := by
  induction kvs generalizing m with
  | nil => simpa
  | cons kv kvs ih => exact ih _ (nodupKeys_set hm _ _)

theorem nodupKeys_ofList {κ α : Type} [DecidableEq κ] (kvs : List (κ × α)) : NodupKeys (ofList kvs) :=
  nodupKeys_foldl_set kvs [] (by simp [NodupKeys, keys])

theorem nodupKeys_pushBranch {m : List (Nat × List Bool)} (h : NodupKeys m) (l : Nat) (t : Bool) :
    NodupKeys (pushBranch m l t) := by
  unfold pushBranch; split <;> exact nodupKeys_set h _ _

theorem nodupKeys_groupPush (bs : List (Nat × Bool)) : NodupKeys (groupPush bs) := by
  unfold groupPush
  have : ∀ (m : List (Nat × List Bool)), NodupKeys m →
      NodupKeys (bs.foldl (fun m b => pushBranch m b.1 b.2) m) := by
    induction bs with
    | nil => intro m hm; simpa
    | cons b bs ih => intro m hm; exact ih _ (nodupKeys_pushBranch hm _ _)
  exact this [] (by simp [NodupKeys, keys])

/-! ### branch vectors in record order -/

theorem get?_pushBranch (m : List (Nat × List Bool)) (l : Nat) (t : Bool) (x : Nat) :
    get? (pushBranch m l t) x
      = if l = x then some ((get? m l).getD [] ++ [t]) else get? m x := by
  unfold pushBranch
  cases h : get? m l <;> simp [get?_set]

theorem get?_foldl_pushBranch (bs : List (Nat × Bool)) (m : List (Nat × List Bool)) (x : Nat) :
    get? (bs.foldl (fun m b => pushBranch m b.1 b.2) m) x
      = let v := (bs.filter fun b => decide (b.1 = x)).map (·.2)
        if v.isEmpty then get? m x else some ((get? m x).getD [] ++ v) := by
  induction bs generalizing m with
  | nil => simp
  | cons b bs ih =>
    simp only [List.foldl_cons]
    rw [ih, get?_pushBranch]
    by_cases hb : b.1 = x
    · subst hb
      simp only [if_true, List.filter_cons, decide_true, List.map_cons, Option.getD_some]
      cases hv : (List.map (fun x => x.2) (List.filter (fun c => decide (c.1 = b.1)) bs)) with
      | nil => simp
      | cons y ys => simp
    · simp only [List.filter_cons, hb, if_false, decide_false, Bool.false_eq_true]

/-- the vector of a line is the list of its branch outcomes in record order; a line without
branch record has no vector -/
theorem get?_groupPush (bs : List (Nat × Bool)) (x : Nat) :
    get? (groupPush bs) x
      = let v := (bs.filter fun b => decide (b.1 = x)).map (·.2)
        if v.isEmpty then none else some v := by
  unfold groupPush; rw [get?_foldl_pushBranch]; simp

/-! ### lines, line ends, `splitn` -/

theorem splitLines_line (t rest : Bytes) (h : ∀ b ∈ t, b ≠ 10) :
    splitLines (t ++ 10 :: rest) = (t ++ [10]) :: splitLines rest := by
  induction t with
  | nil => simp [splitLines]
  | cons b t ih =>
    have hb : b ≠ 10 := h b (by simp)
    have ih' := ih (fun c hc => h c (by simp [hc]))
    simp [splitLines, hb, ih']

theorem stripEol_allEol (e : Bytes) (h : ∀ b ∈ e, isEol b = true) : stripEol e = [] := by
  induction e with
  | nil => rfl
  | cons b e ih =>
    have h1 := ih (fun c hc => h c (by simp [hc]))
    have h2 := h b (by simp)
    simp [stripEol, h1, h2]

theorem stripEol_append (t e : Bytes) (ht : noEol t) (he : ∀ b ∈ e, isEol b = true) :
    stripEol (t ++ e) = t := by
  induction t with
  | nil => simpa using stripEol_allEol e he
  | cons b t ih =>
    have h1 := ih (fun c hc => ht c (by simp [hc]))
    have h2 : isEol b = false := ht b (by simp)
    simp only [List.cons_append, stripEol, h1]
    cases t with
    | nil => simp [h2]
    | cons c t => rfl

theorem eol_allEol (k : Nat) : ∀ b ∈ eol k, isEol b = true := by
  intro b hb
  simp only [eol, List.mem_append, List.mem_replicate, List.mem_singleton] at hb
  rcases hb with ⟨_, rfl⟩ | rfl <;> rfl

theorem noEol_ne10 {t : Bytes} (h : noEol t) : ∀ b ∈ t, b ≠ 10 := by
  intro b hb e; subst e; have := h 10 hb; simp [isEol] at this

theorem splitOnce_found (sep : Nat) (h t : Bytes) (hh : sep ∉ h) :
    splitOnce sep (h ++ sep :: t) = (h, some t) := by
  induction h with
  | nil => simp [splitOnce]
  | cons b h ih =>
    have hb : b ≠ sep := fun e => hh (by simp [e])
    have := ih (fun m => hh (by simp [m]))
    simp [splitOnce, hb, this]

theorem splitOnce_none (sep : Nat) (h : Bytes) (hh : sep ∉ h) : splitOnce sep h = (h, none) := by
  induction h with
  | nil => rfl
  | cons b h ih =>
    have hb : b ≠ sep := fun e => hh (by simp [e])
    have := ih (fun m => hh (by simp [m]))
    simp [splitOnce, hb, this]

/-! ### `from_str` -/

theorem le_valFrom (acc : Nat) (ds : Bytes) : acc ≤ valFrom acc ds := by
  induction ds generalizing acc with
  | nil => simp [valFrom]
  | cons d ds ih =>
    have := ih (acc * 10 + (d - 48))
    simp only [valFrom, List.foldl_cons] at this ⊢
    omega

theorem digitsVal_eq (bound acc : Nat) (ds : Bytes) (hd : ∀ b ∈ ds, isDigit b = true)
    (ha : acc ≤ bound) :
    digitsVal bound acc ds = if valFrom acc ds ≤ bound then some (valFrom acc ds) else none := by
  induction ds generalizing acc with
  | nil => simp [digitsVal, valFrom, ha]
  | cons d ds ih =>
    have hdd : isDigit d = true := hd d (by simp)
    have hds : ∀ b ∈ ds, isDigit b = true := fun b hb => hd b (by simp [hb])
    simp only [digitsVal, hdd, if_true]
    have hv : valFrom acc (d :: ds) = valFrom (acc * 10 + (d - 48)) ds := rfl
    rw [hv]
    by_cases hle : acc * 10 + (d - 48) ≤ bound
    · simp only [hle, if_true]; exact ih _ hds hle
    · have := le_valFrom (acc * 10 + (d - 48)) ds
      have hgt : ¬ valFrom (acc * 10 + (d - 48)) ds ≤ bound := by omega
      simp [hle, hgt]

theorem digit_ne_43 {d : Nat} (h : isDigit d = true) : d ≠ 43 := by
  simp [isDigit] at h; omega

theorem digit_ne_45 {d : Nat} (h : isDigit d = true) : d ≠ 45 := by
  simp [isDigit] at h; omega

/-- `from_str` on a decimal as written: its value when it fits, an error otherwise -/
theorem parseUInt_render (bound : Nat) (d : Dec) (h : d.WF) :
    parseUInt bound d.render = if d.val ≤ bound then some d.val else none := by
  obtain ⟨plus, ds⟩ := d
  obtain ⟨hne, hdig⟩ := h
  simp only at hne hdig
  cases ds with
  | nil => exact absurd rfl hne
  | cons x xs =>
    have hx : isDigit x = true := hdig x (by simp)
    cases plus with
    | true =>
      simp only [Dec.render, if_true, List.singleton_append, parseUInt, List.isEmpty_cons,
        Dec.val, valOf]
      exact digitsVal_eq bound 0 (x :: xs) hdig (Nat.zero_le _)
    | false =>
      simp only [Dec.render, List.nil_append, parseUInt, digit_ne_43 hx, if_false,
        Dec.val, valOf, Bool.false_eq_true]
      exact digitsVal_eq bound 0 (x :: xs) hdig (Nat.zero_le _)

/-! ### rendered text has no CR/LF where it must not -/

theorem noEol_append {a b : Bytes} : noEol (a ++ b) ↔ noEol a ∧ noEol b := by
  simp [noEol, or_imp, forall_and]

theorem noEol_cons {x : Nat} {a : Bytes} : noEol (x :: a) ↔ isEol x = false ∧ noEol a := by
  simp [noEol]

theorem noEol_nil : noEol [] := by simp [noEol]

theorem digit_noEol {d : Nat} (h : isDigit d = true) : isEol d = false := by
  simp [isDigit] at h; simp [isEol]; omega

theorem digits_noEol {ds : Bytes} (h : ∀ b ∈ ds, isDigit b = true) : noEol ds :=
  fun b hb => digit_noEol (h b hb)

theorem Dec.noEol_render (d : Dec) (h : d.WF) : noEol d.render := by
  unfold Dec.render
  cases d.plus
  · simpa using digits_noEol h.2
  · simp only [if_true, List.singleton_append]
    exact noEol_cons.mpr ⟨rfl, digits_noEol h.2⟩

theorem Dec.not_mem_render (d : Dec) (h : d.WF) (c : Nat) (hc : isDigit c = false) (hc' : c ≠ 43) :
    c ∉ d.render := by
  unfold Dec.render
  intro hm
  simp only [List.mem_append] at hm
  rcases hm with hm | hm
  · cases hp : d.plus <;> simp [hp] at hm; exact hc' hm
  · have := h.2 c hm; simp [hc] at this

theorem Dec.render_ne_nil (d : Dec) (h : d.WF) : d.render ≠ [] := by
  unfold Dec.render; simp [h.1]

theorem Dec.head_render (d : Dec) (h : d.WF) : d.render.head? ≠ some 45 := by
  obtain ⟨plus, ds⟩ := d
  obtain ⟨hne, hdig⟩ := h
  simp only at hne hdig
  cases ds with
  | nil => exact absurd rfl hne
  | cons x xs =>
    have hx := digit_ne_45 (hdig x (by simp))
    cases plus <;> simp [Dec.render, hx]

theorem Dec.render_zero (d : Dec) (h : d.render = tZero) : d.val = 0 := by
  obtain ⟨plus, ds⟩ := d
  cases plus
  · simp only [Dec.render, List.nil_append, Bool.false_eq_true, if_false] at h
    simp [Dec.val, valOf, valFrom, h, tZero]
  · simp only [Dec.render, if_true, List.singleton_append, tZero] at h
    simp at h

theorem BrTok.noEol_render (t : BrTok) : noEol t.render := by
  cases t <;> simp [BrTok.render, noEol, isEol]

theorem Rec.noEol_render (r : Rec) (h : r.WF) : noEol r.render := by
  have k1 : noEol kLcount := by simp [kLcount, noEol, isEol]
  have k2 : noEol kFunction := by simp [kFunction, noEol, isEol]
  have k3 : noEol kBranch := by simp [kBranch, noEol, isEol]
  cases r with
  | lcount l c =>
    cases c with
    | num d =>
      obtain ⟨hl, _, hd, _⟩ := h
      simp only [Rec.render, noEol_append, noEol_cons, noEol_nil, and_true]
      exact ⟨⟨⟨⟨k1, rfl⟩, Dec.noEol_render l hl⟩, rfl⟩, Dec.noEol_render d hd⟩
    | neg r =>
      obtain ⟨hl, _, hr⟩ := h
      simp only [Rec.render, noEol_append, noEol_cons, noEol_nil, and_true]
      exact ⟨⟨⟨⟨k1, rfl⟩, Dec.noEol_render l hl⟩, rfl⟩, rfl, hr⟩
  | function s c n =>
    obtain ⟨hs, _, hc, _, hn⟩ := h
    simp only [Rec.render, noEol_append, noEol_cons, noEol_nil, and_true]
    exact ⟨⟨⟨⟨⟨⟨k2, rfl⟩, Dec.noEol_render s hs⟩, rfl⟩, hc⟩, rfl⟩, hn⟩
  | branch l t =>
    obtain ⟨hl, _⟩ := h
    simp only [Rec.render, noEol_append, noEol_cons, noEol_nil, and_true]
    exact ⟨⟨⟨⟨k3, rfl⟩, Dec.noEol_render l hl⟩, rfl⟩, BrTok.noEol_render t⟩
  | other k v =>
    obtain ⟨hk, hv, _⟩ := h
    simp only [Rec.render, noEol_append, noEol_cons, noEol_nil, and_true]
    exact ⟨⟨hk, rfl⟩, hv⟩

/-! ### one lemma per record kind (after `remove_newline`) -/

theorem procStripped_file (a : Acc) (name : Bytes) :
    procStripped a (kFile ++ [58] ++ name) = .run (onFile a name) := by
  have e : kFile ++ [58] ++ name = kFile ++ 58 :: name := by simp
  unfold procStripped
  rw [e, splitOnce_found 58 kFile _ (by decide)]
  simp

theorem procStripped_lcount (a : Acc) (l : Dec) (c : Count) (h : (Rec.lcount l c).WF) :
    procStripped a (Rec.lcount l c).render = .run (onLcount a l.val c.val) := by
  have h1 : kLcount ≠ kFile := by decide
  have h2 : kLcount ≠ kFunction := by decide
  cases c with
  | num d =>
    obtain ⟨hl, hlv, hd, hdv⟩ := h
    have e : (Rec.lcount l (.num d)).render = kLcount ++ 58 :: (l.render ++ 44 :: d.render) := by
      simp [Rec.render]
    unfold procStripped
    rw [e, splitOnce_found 58 kLcount _ (by decide)]
    simp only [h1, h2, if_false, if_true]
    rw [splitOnce_found 44 l.render _ (Dec.not_mem_render l hl 44 rfl (by decide))]
    simp only [parseUInt_render U32MAX l hl, hlv, if_true, Count.val]
    by_cases hz : d.render = tZero
    · simp [hz, Dec.render_zero d hz]
    · simp [hz, Dec.head_render d hd, parseUInt_render U64MAX d hd, hdv]
  | neg r =>
    obtain ⟨hl, hlv, _⟩ := h
    have e : (Rec.lcount l (.neg r)).render = kLcount ++ 58 :: (l.render ++ 44 :: 45 :: r) := by
      simp [Rec.render]
    unfold procStripped
    rw [e, splitOnce_found 58 kLcount _ (by decide)]
    simp only [h1, h2, if_false, if_true]
    rw [splitOnce_found 44 l.render _ (Dec.not_mem_render l hl 44 rfl (by decide))]
    simp [parseUInt_render U32MAX l hl, hlv, Count.val]

theorem procStripped_function (a : Acc) (s : Dec) (c n : Bytes) (h : (Rec.function s c n).WF) :
    procStripped a (Rec.function s c n).render
      = .run (onFunction a s.val (decide (c ≠ [48])) n) := by
  have h1 : kFunction ≠ kFile := by decide
  obtain ⟨hs, hsv, _, hc, _⟩ := h
  have e : (Rec.function s c n).render = kFunction ++ 58 :: (s.render ++ 44 :: (c ++ 44 :: n)) := by
    simp [Rec.render]
  unfold procStripped
  rw [e, splitOnce_found 58 kFunction _ (by decide)]
  simp only [h1, if_false, if_true]
  rw [splitOnce_found 44 s.render _ (Dec.not_mem_render s hs 44 rfl (by decide))]
  simp only [parseUInt_render U32MAX s hs, hsv, if_true]
  rw [splitOnce_found 44 c n hc]
  by_cases hc0 : c = [48] <;> simp [tZero, hc0]

theorem procStripped_branch (a : Acc) (l : Dec) (t : BrTok) (h : (Rec.branch l t).WF) :
    procStripped a (Rec.branch l t).render = .run (onBranch a l.val (decide (t = .taken))) := by
  have h1 : kBranch ≠ kFile := by decide
  have h2 : kBranch ≠ kFunction := by decide
  have h3 : kBranch ≠ kLcount := by decide
  obtain ⟨hl, hlv⟩ := h
  have e : (Rec.branch l t).render = kBranch ++ 58 :: (l.render ++ 44 :: t.render) := by
    simp [Rec.render]
  unfold procStripped
  rw [e, splitOnce_found 58 kBranch _ (by decide)]
  simp only [h1, h2, h3, if_false, if_true]
  rw [splitOnce_found 44 l.render _ (Dec.not_mem_render l hl 44 rfl (by decide))]
  simp only [parseUInt_render U32MAX l hl, hlv, if_true]
  cases t <;> simp [BrTok.render, tTaken]

theorem procStripped_other (a : Acc) (k v : Bytes) (h : (Rec.other k v).WF) :
    procStripped a (Rec.other k v).render = .run a := by
  obtain ⟨_, _, hk, h1, h2, h3, h4⟩ := h
  have e : (Rec.other k v).render = k ++ 58 :: v := by simp [Rec.render]
  unfold procStripped
  rw [e, splitOnce_found 58 k _ hk]
  simp [h1, h2, h3, h4]

/-! ### `from_utf8_lossy` on a whole line (since /repo 7f9b2b3) -/

theorem digit_ascii {d : Nat} (h : isDigit d = true) : d < 128 := by
  simp [isDigit] at h; omega

theorem Dec.ascii_render (d : Dec) (h : d.WF) : ∀ b ∈ d.render, b < 128 := by
  intro b hb
  unfold Dec.render at hb
  simp only [List.mem_append] at hb
  rcases hb with hb | hb
  · cases hp : d.plus <;> simp [hp] at hb; omega
  · exact digit_ascii (h.2 b hb)

theorem BrTok.ascii_render (t : BrTok) : ∀ b ∈ t.render, b < 128 := by
  cases t <;> decide

theorem noEol_lossy {t : Bytes} (h : noEol t) : noEol (utf8Lossy t) := by
  intro b hb
  rcases Lossy.mem_lossy t b hb with h1 | h1
  · exact h b h1
  · simp [isEol]; omega

theorem ascii_append {a b : Bytes} (ha : ∀ x ∈ a, x < 128) (hb : ∀ x ∈ b, x < 128) :
    ∀ x ∈ a ++ b, x < 128 := by
  intro x hx
  rcases List.mem_append.mp hx with h | h
  · exact ha x h
  · exact hb x h

theorem ascii_kLcount : ∀ x ∈ kLcount ++ [58], x < 128 := by decide
theorem ascii_kFunction : ∀ x ∈ kFunction ++ [58], x < 128 := by decide
theorem ascii_kBranch : ∀ x ∈ kBranch ++ [58], x < 128 := by decide
theorem ascii_kFile : ∀ x ∈ kFile ++ [58], x < 128 := by decide
theorem ascii_comma : ∀ x ∈ [44], x < 128 := by decide

/-- every well-formed record, with any line terminator, is read as what it says (the line is
decoded lossily first: separators and numbers are ASCII and stay where they are, free text is
decoded piece by piece) -/
theorem procLine_rec (a : Acc) (r : Rec) (k : Nat) (h : r.WF) :
    procLine a (r.render ++ eol k) = .run (applyRec a r) := by
  unfold procLine
  rw [stripEol_append _ _ (Rec.noEol_render r h) (eol_allEol k)]
  cases r with
  | lcount l c =>
    cases c with
    | num d =>
      have ha : ∀ x ∈ (Rec.lcount l (.num d)).render, x < 128 := by
        simp only [Rec.render]
        exact ascii_append (ascii_append (ascii_append ascii_kLcount (Dec.ascii_render l h.1))
          ascii_comma) (Dec.ascii_render d h.2.2.1)
      rw [Lossy.lossy_of_ascii _ ha]
      exact procStripped_lcount a l (.num d) h
    | neg r =>
      have e : utf8Lossy (Rec.lcount l (.neg r)).render = (Rec.lcount l (.neg (utf8Lossy r))).render := by
        simp only [Rec.render]
        rw [Lossy.lossy_ascii_append _ _ (ascii_append (ascii_append ascii_kLcount (Dec.ascii_render l h.1))
          ascii_comma), Lossy.lossy_ascii_cons 45 r (by decide)]
      rw [e]
      exact procStripped_lcount a l (.neg (utf8Lossy r)) ⟨h.1, h.2.1, noEol_lossy h.2.2⟩
  | function s c n =>
    obtain ⟨hs, hsv, hc, hcc, hn⟩ := h
    have e : utf8Lossy (Rec.function s c n).render
        = (Rec.function s (utf8Lossy c) (utf8Lossy n)).render := by
      simp only [Rec.render]
      have : kFunction ++ [58] ++ s.render ++ [44] ++ c ++ [44] ++ n
          = ((kFunction ++ [58] ++ s.render ++ [44]) ++ c) ++ 44 :: n := by simp
      rw [this, Lossy.lossy_append_ascii _ 44 n (by decide),
        Lossy.lossy_ascii_append _ c (ascii_append (ascii_append ascii_kFunction (Dec.ascii_render s hs))
          ascii_comma)]
      simp
    rw [e, procStripped_function a s (utf8Lossy c) (utf8Lossy n)
      ⟨hs, hsv, noEol_lossy hc, Lossy.not_mem_lossy (by decide) hcc, noEol_lossy hn⟩]
    have : (utf8Lossy c ≠ [48]) ↔ (c ≠ [48]) :=
      not_congr (Lossy.lossy_eq_ascii_iff c [48] (by decide))
    simp only [applyRec, this]
  | branch l t =>
    have ha : ∀ x ∈ (Rec.branch l t).render, x < 128 := by
      simp only [Rec.render]
      exact ascii_append (ascii_append (ascii_append ascii_kBranch (Dec.ascii_render l h.1))
        ascii_comma) (BrTok.ascii_render t)
    rw [Lossy.lossy_of_ascii _ ha]
    exact procStripped_branch a l t h
  | other k v =>
    obtain ⟨hk, hv, hk58, h1, h2, h3, h4⟩ := h
    have e : utf8Lossy (Rec.other k v).render = (Rec.other (utf8Lossy k) (utf8Lossy v)).render := by
      simp only [Rec.render]
      have : k ++ [58] ++ v = k ++ 58 :: v := by simp
      rw [this, Lossy.lossy_append_ascii k 58 v (by decide)]
      simp
    have ne : ∀ s : Bytes, (∀ x ∈ s, x < 128) → k ≠ s → utf8Lossy k ≠ s :=
      fun s hs hne he => hne ((Lossy.lossy_eq_ascii_iff k s hs).mp he)
    rw [e]
    exact procStripped_other a (utf8Lossy k) (utf8Lossy v)
      ⟨noEol_lossy hk, noEol_lossy hv, Lossy.not_mem_lossy (by decide) hk58,
       ne _ (by decide) h1, ne _ (by decide) h2, ne _ (by decide) h3, ne _ (by decide) h4⟩

theorem procLine_file (a : Acc) (name : Bytes) (k : Nat) (h : noEol name) :
    procLine a (kFile ++ [58] ++ name ++ eol k) = .run (onFile a (utf8Lossy name)) := by
  unfold procLine
  have k1 : noEol kFile := by simp [kFile, noEol, isEol]
  rw [stripEol_append _ _ (by
    simp only [noEol_append, noEol_cons, noEol_nil, and_true]; exact ⟨⟨k1, rfl⟩, h⟩) (eol_allEol k)]
  rw [Lossy.lossy_ascii_append _ name ascii_kFile]
  exact procStripped_file a (utf8Lossy name)

/-! ### glue: lines, sections, report -/

theorem runBytes_nil (s : St) : runBytes s [] = s := rfl

theorem runBytes_halt (o : Out) (bs : Bytes) : runBytes (.halt o) bs = .halt o := by
  unfold runBytes runLines
  induction splitLines bs with
  | nil => rfl
  | cons l ls ih => simpa [stepLine] using ih

/-- one line (content without CR/LF, then CR* LF) is one step of the loop -/
theorem runBytes_line (s : St) (t rest : Bytes) (k : Nat) (ht : noEol t) :
    runBytes s (t ++ eol k ++ rest) = runBytes (stepLine s (t ++ eol k)) rest := by
  have e : t ++ eol k ++ rest = (t ++ List.replicate k 13) ++ 10 :: rest := by simp [eol]
  have e2 : (t ++ List.replicate k 13) ++ [10] = t ++ eol k := by simp [eol]
  have hn : ∀ b ∈ t ++ List.replicate k 13, b ≠ 10 := by
    intro b hb
    simp only [List.mem_append, List.mem_replicate] at hb
    rcases hb with hb | ⟨_, rfl⟩
    · exact noEol_ne10 ht b hb
    · decide
  unfold runBytes
  rw [e, splitLines_line _ _ hn, e2]
  rfl

theorem runBytes_rec (a : Acc) (l : Line) (rest : Bytes) (h : l.r.WF) :
    runBytes (.run a) (l.render ++ rest) = runBytes (.run (applyRec a l.r)) rest := by
  unfold Line.render
  rw [runBytes_line _ _ _ _ (Rec.noEol_render _ h)]
  simp only [stepLine, procLine_rec a l.r l.crs h]

theorem runBytes_recs (a : Acc) (ls : List Line) (rest : Bytes) (h : ∀ l ∈ ls, l.r.WF) :
    runBytes (.run a) (ls.flatMap Line.render ++ rest)
      = runBytes (.run (ls.foldl (fun a l => applyRec a l.r) a)) rest := by
  induction ls generalizing a with
  | nil => rfl
  | cons l ls ih =>
    simp only [List.flatMap_cons, List.append_assoc, List.foldl_cons]
    rw [runBytes_rec a l _ (h l (by simp))]
    exact ih _ (fun l' hl' => h l' (by simp [hl']))

/-- the accumulator after a whole section -/
def secEnd (a : Acc) (s : FileSec) : Acc :=
  s.recs.foldl (fun a l => applyRec a l.r) (onFile a (utf8Lossy s.name))

theorem runBytes_sec (a : Acc) (s : FileSec) (rest : Bytes) (h : s.WF) :
    runBytes (.run a) (s.render ++ rest) = runBytes (.run (secEnd a s)) rest := by
  have k1 : noEol kFile := by simp [kFile, noEol, isEol]
  have hn : noEol (kFile ++ [58] ++ s.name) := by
    simp only [noEol_append, noEol_cons, noEol_nil, and_true]; exact ⟨⟨k1, rfl⟩, h.1⟩
  have e : s.render ++ rest
      = (kFile ++ [58] ++ s.name) ++ eol s.crs ++ (s.recs.flatMap Line.render ++ rest) := by
    simp [FileSec.render]
  rw [e, runBytes_line _ _ _ _ hn]
  simp only [stepLine, procLine_file a s.name s.crs h.1]
  exact runBytes_recs _ _ _ h.2

theorem runBytes_secs (a : Acc) (ss : List FileSec) (rest : Bytes) (h : ∀ s ∈ ss, s.WF) :
    runBytes (.run a) (ss.flatMap FileSec.render ++ rest)
      = runBytes (.run (ss.foldl secEnd a)) rest := by
  induction ss generalizing a with
  | nil => rfl
  | cons s ss ih =>
    simp only [List.flatMap_cons, List.append_assoc, List.foldl_cons]
    rw [runBytes_sec a s _ (h s (by simp))]
    exact ih _ (fun s' hs' => h s' (by simp [hs']))

theorem foldl_others (a : Acc) (ls : List Line) (h : ∀ l ∈ ls, isOther l.r) :
    ls.foldl (fun a l => applyRec a l.r) a = a := by
  induction ls generalizing a with
  | nil => rfl
  | cons l ls ih =>
    have hl := h l (by simp)
    simp only [List.foldl_cons]
    have : applyRec a l.r = a := by
      cases hr : l.r <;> simp [hr, isOther] at hl ⊢ <;> rfl
    rw [this]; exact ih _ (fun l' hl' => h l' (by simp [hl']))

/-- the accumulator reached after a whole well-formed report -/
def reportEnd (r : Report) : Acc := r.secs.foldl secEnd {}

theorem runBytes_report (r : Report) (rest : Bytes) (h : r.WF) :
    runBytes (.run {}) (r.render ++ rest) = runBytes (.run (reportEnd r)) rest := by
  unfold Report.render reportEnd
  rw [List.append_assoc, runBytes_recs _ _ _ (fun l hl => (h.1 l hl).1),
    foldl_others _ _ (fun l hl => (h.1 l hl).2)]
  exact runBytes_secs _ _ _ h.2

/-! ### record level: the three maps are built independently -/

theorem foldl_applyRec (rs : List Rec) (a : Acc) :
    rs.foldl applyRec a
      = { results := a.results, curFile := a.curFile,
          cur := { lines := (rs.filterMap lcountOf).foldl (fun m kv => AList.set m kv.1 kv.2) a.cur.lines
                   branches := (rs.filterMap branchOf).foldl (fun m b => pushBranch m b.1 b.2) a.cur.branches
                   functions := (rs.filterMap functionOf).foldl (fun m kv => AList.set m kv.1 kv.2) a.cur.functions } } := by
  induction rs generalizing a with
  | nil => rfl
  | cons r rs ih =>
    simp only [List.foldl_cons]
    rw [ih]
    cases r <;>
      simp [applyRec, onLcount, onFunction, onBranch, lcountOf, branchOf, functionOf,
        List.filterMap_cons]

/-- what the reader would report if the input ended now -/
def closeCur (a : Acc) : List (Bytes × Cov) := (onFile a []).results

theorem secEnd_eq (a : Acc) (s : FileSec) :
    secEnd a s = { results := closeCur a, curFile := some (utf8Lossy s.name),
                   cur := secCov (s.recs.map (·.r)) } := by
  unfold secEnd
  rw [← List.foldl_map (f := fun l : Line => l.r) (g := applyRec), foldl_applyRec]
  rfl

theorem closeCur_secEnd (a : Acc) (s : FileSec) :
    closeCur (secEnd a s) = closeCur a ++ (semSec s).toList := by
  rw [secEnd_eq]
  simp only [closeCur, onFile, semSec, secCov, secLines, ofList_isEmpty]
  cases (List.filterMap lcountOf (List.map (fun x => x.r) s.recs)).isEmpty <;> simp

theorem closeCur_secs (a : Acc) (ss : List FileSec) :
    closeCur (ss.foldl secEnd a) = closeCur a ++ ss.filterMap semSec := by
  induction ss generalizing a with
  | nil => simp
  | cons s ss ih =>
    simp only [List.foldl_cons]
    rw [ih, closeCur_secEnd, List.filterMap_cons]
    cases semSec s <;> simp

theorem secs_curFile (a : Acc) (ss : List FileSec) (h : a.curFile = none → a.cur.lines = []) :
    (ss.foldl secEnd a).curFile = none → (ss.foldl secEnd a).cur.lines = [] := by
  induction ss generalizing a with
  | nil => exact h
  | cons s ss ih =>
    simp only [List.foldl_cons]
    apply ih
    rw [secEnd_eq]; simp

theorem finish_run (a : Acc) (h : a.curFile = none → a.cur.lines = []) :
    finish (.run a) = .ok (closeCur a) := by
  unfold finish closeCur onFile
  cases hf : a.curFile with
  | none => simp [h hf]
  | some f => by_cases hl : a.cur.lines = [] <;> simp [hl, hf]

/-- fidelity of the text reader on every well-formed report -/
theorem parse_render (r : Report) (h : r.WF) : parse r.render = .ok (semText r) := by
  unfold parse
  have := runBytes_report r [] h
  rw [List.append_nil, runBytes_nil] at this
  unfold reportEnd at this
  rw [this, finish_run _ (secs_curFile _ _ (fun _ => rfl)), closeCur_secs]
  rfl

/-! ### numbers that do not fit are rejected -/

theorem lcount_noEol (l d : Dec) (hl : l.WF) (hd : d.WF) :
    noEol (Rec.lcount l (.num d)).render := by
  have k1 : noEol kLcount := by simp [kLcount, noEol, isEol]
  simp only [Rec.render, noEol_append, noEol_cons, noEol_nil, and_true]
  exact ⟨⟨⟨⟨k1, rfl⟩, Dec.noEol_render l hl⟩, rfl⟩, Dec.noEol_render d hd⟩

theorem procStripped_lcount_overflow (a : Acc) (l d : Dec) (hl : l.WF) (hlv : l.val ≤ U32MAX)
    (hd : d.WF) (hdv : U64MAX < d.val) :
    procStripped a (Rec.lcount l (.num d)).render = .halt (.err "Parse") := by
  have h1 : kLcount ≠ kFile := by decide
  have h2 : kLcount ≠ kFunction := by decide
  have e : (Rec.lcount l (.num d)).render = kLcount ++ 58 :: (l.render ++ 44 :: d.render) := by
    simp [Rec.render]
  unfold procStripped
  rw [e, splitOnce_found 58 kLcount _ (by decide)]
  simp only [h1, h2, if_false, if_true]
  rw [splitOnce_found 44 l.render _ (Dec.not_mem_render l hl 44 rfl (by decide))]
  simp only [parseUInt_render U32MAX l hl, hlv, if_true]
  have hz : d.render ≠ tZero := fun hz => by
    have := Dec.render_zero d hz; omega
  have hnle : ¬ d.val ≤ U64MAX := by omega
  simp [hz, Dec.head_render d hd, parseUInt_render U64MAX d hd, hnle, parseErr]

theorem procStripped_lineno_overflow (a : Acc) (l : Dec) (c : Bytes) (hl : l.WF)
    (hlv : U32MAX < l.val) :
    procStripped a (kLcount ++ [58] ++ l.render ++ [44] ++ c) = .halt (.err "Parse") := by
  have h1 : kLcount ≠ kFile := by decide
  have h2 : kLcount ≠ kFunction := by decide
  have e : kLcount ++ [58] ++ l.render ++ [44] ++ c = kLcount ++ 58 :: (l.render ++ 44 :: c) := by
    simp
  have hnle : ¬ l.val ≤ U32MAX := by omega
  unfold procStripped
  rw [e, splitOnce_found 58 kLcount _ (by decide)]
  simp only [h1, h2, if_false, if_true]
  rw [splitOnce_found 44 l.render _ (Dec.not_mem_render l hl 44 rfl (by decide))]
  simp [parseUInt_render U32MAX l hl, hnle, parseErr]

/-- a count ≥ 2^64 anywhere after a well-formed prefix makes the whole file an error -/
theorem parse_overflow (r : Report) (h : r.WF) (l d : Dec) (k : Nat) (rest : Bytes)
    (hl : l.WF) (hlv : l.val ≤ U32MAX) (hd : d.WF) (hdv : U64MAX < d.val) :
    parse (r.render ++ ((Rec.lcount l (.num d)).render ++ eol k ++ rest)) = .err "Parse" := by
  unfold parse
  rw [runBytes_report r _ h, runBytes_line _ _ _ _ (lcount_noEol l d hl hd)]
  simp only [stepLine, procLine]
  have ha : ∀ x ∈ (Rec.lcount l (.num d)).render, x < 128 := by
    simp only [Rec.render]
    exact ascii_append (ascii_append (ascii_append ascii_kLcount (Dec.ascii_render l hl))
      ascii_comma) (Dec.ascii_render d hd)
  rw [stripEol_append _ _ (lcount_noEol l d hl hd) (eol_allEol k), Lossy.lossy_of_ascii _ ha,
    procStripped_lcount_overflow _ l d hl hlv hd hdv, runBytes_halt]
  rfl


/-! ### gcov 8's three-field `lcount:<line>,<count>,<has_unexecuted_block>` -/

theorem digitsVal_nondigit (bound : Nat) (ds : Bytes) (x : Nat) (rest : Bytes)
    (hx : isDigit x = false) : ∀ acc, digitsVal bound acc (ds ++ x :: rest) = none := by
  induction ds with
  | nil => intro acc; simp [digitsVal, hx]
  | cons d ds ih =>
    intro acc
    simp only [List.cons_append, digitsVal]
    split
    · split
      · exact ih _
      · rfl
    · rfl

theorem parseUInt_nondigit (bound : Nat) (s : Bytes) (x : Nat) (rest : Bytes)
    (hx : isDigit x = false) (hx' : x ≠ 43) : parseUInt bound (s ++ x :: rest) = none := by
  cases s with
  | nil =>
    simp only [List.nil_append, parseUInt, hx', if_false]
    exact digitsVal_nondigit bound [] x rest hx 0
  | cons c s0 =>
    simp only [List.cons_append, parseUInt]
    split
    · have : (s0 ++ x :: rest).isEmpty = false := by cases s0 <;> rfl
      simp only [this]
      exact digitsVal_nondigit bound s0 x rest hx 0
    · exact digitsVal_nondigit bound (c :: s0) x rest hx 0

/-- the line `lcount:<l>,<d>,<flag>` as gcov 8 writes it -/
def lcount8 (l d : Dec) (flag : Bytes) : Bytes :=
  kLcount ++ [58] ++ l.render ++ [44] ++ (d.render ++ 44 :: flag)

theorem lcount8_noEol (l d : Dec) (flag : Bytes) (hl : l.WF) (hd : d.WF) (hf : noEol flag) :
    noEol (lcount8 l d flag) := by
  have k1 : noEol kLcount := by simp [kLcount, noEol, isEol]
  simp only [lcount8, noEol_append, noEol_cons, noEol_nil, and_true]
  exact ⟨⟨⟨⟨k1, rfl⟩, Dec.noEol_render l hl⟩, rfl⟩, Dec.noEol_render d hd, rfl, hf⟩

theorem procStripped_lcount8 (a : Acc) (l d : Dec) (flag : Bytes) (hl : l.WF)
    (hlv : l.val ≤ U32MAX) (hd : d.WF) :
    procStripped a (lcount8 l d flag) = .halt (.err "Parse") := by
  have h1 : kLcount ≠ kFile := by decide
  have h2 : kLcount ≠ kFunction := by decide
  have e : lcount8 l d flag = kLcount ++ 58 :: (l.render ++ 44 :: (d.render ++ 44 :: flag)) := by
    simp [lcount8]
  unfold procStripped
  rw [e, splitOnce_found 58 kLcount _ (by decide)]
  simp only [h1, h2, if_false, if_true]
  rw [splitOnce_found 44 l.render _ (Dec.not_mem_render l hl 44 rfl (by decide))]
  simp only [parseUInt_render U32MAX l hl, hlv, if_true]
  have hne := Dec.render_ne_nil d hd
  have hz : d.render ++ 44 :: flag ≠ tZero := by
    cases hr : d.render with
    | nil => exact absurd hr hne
    | cons x xs => cases xs <;> simp [tZero]
  have hh : (d.render ++ 44 :: flag).head? ≠ some 45 := by
    have := Dec.head_render d hd
    cases hr : d.render with
    | nil => exact absurd hr hne
    | cons x xs => rw [hr] at this; simpa using this
  have hor : ¬ (d.render ++ 44 :: flag = tZero ∨ (d.render ++ 44 :: flag).head? = some 45) := by
    rintro (h | h)
    · exact hz h
    · exact hh h
  simp only [hor, if_false, parseUInt_nondigit U64MAX d.render 44 flag (by decide) (by decide), parseErr]

/-- a gcov 8 `lcount` line anywhere after a well-formed prefix makes the whole file `Err(Parse)` -/
theorem parse_lcount8 (r : Report) (h : r.WF) (l d : Dec) (flag : Bytes) (k : Nat) (rest : Bytes)
    (hl : l.WF) (hlv : l.val ≤ U32MAX) (hd : d.WF) (hf : noEol flag) :
    parse (r.render ++ (lcount8 l d flag ++ eol k ++ rest)) = .err "Parse" := by
  unfold parse
  rw [runBytes_report r _ h, runBytes_line _ _ _ _ (lcount8_noEol l d flag hl hd hf)]
  simp only [stepLine, procLine]
  have e : utf8Lossy (lcount8 l d flag) = lcount8 l d (utf8Lossy flag) := by
    have : lcount8 l d flag = (kLcount ++ [58] ++ l.render ++ [44] ++ d.render ++ [44]) ++ flag := by
      simp [lcount8]
    rw [this, Lossy.lossy_ascii_append _ flag (ascii_append (ascii_append (ascii_append (ascii_append
      ascii_kLcount (Dec.ascii_render l hl)) ascii_comma) (Dec.ascii_render d hd)) ascii_comma)]
    simp [lcount8]
  rw [stripEol_append _ _ (lcount8_noEol l d flag hl hd hf) (eol_allEol k), e,
    procStripped_lcount8 _ l d (utf8Lossy flag) hl hlv hd, runBytes_halt]
  rfl

theorem digitsVal_le (bound acc : Nat) (ds : Bytes) (n : Nat) (ha : acc ≤ bound)
    (h : digitsVal bound acc ds = some n) : n ≤ bound := by
  induction ds generalizing acc with
  | nil => simp [digitsVal] at h; omega
  | cons d ds ih =>
    simp only [digitsVal] at h
    split at h
    · split at h
      · rename_i hv; exact ih _ hv h
      · simp at h
    · simp at h

/-- whatever the text, an accepted number fits its type -/
theorem parseUInt_le (bound : Nat) (s : Bytes) (n : Nat) (h : parseUInt bound s = some n) :
    n ≤ bound := by
  unfold parseUInt at h
  split at h
  · simp at h
  · split at h
    · split at h
      · simp at h
      · exact digitsVal_le _ _ _ _ (Nat.zero_le _) h
    · exact digitsVal_le _ _ _ _ (Nat.zero_le _) h

/-- canonical decimals (no sign, no leading zero): the token is "0" iff the value is 0 -/
theorem canonical_zero (ds : Bytes) (hd : ∀ b ∈ ds, isDigit b = true)
    (hc : ds = [48] ∨ (ds ≠ [] ∧ ds.head? ≠ some 48)) : ds ≠ [48] ↔ valOf ds ≠ 0 := by
  rcases hc with rfl | ⟨hne, hh⟩
  · simp [valOf, valFrom]
  · cases ds with
    | nil => exact absurd rfl hne
    | cons x xs =>
      have hx := hd x (by simp)
      simp only [List.head?_cons, ne_eq, Option.some.injEq] at hh
      have h1 : 1 ≤ x - 48 := by simp [isDigit] at hx; omega
      have h2 := le_valFrom (0 * 10 + (x - 48)) xs
      have h3 : valOf (x :: xs) = valFrom (0 * 10 + (x - 48)) xs := rfl
      constructor
      · intro _; omega
      · intro _ e; simp at e; exact hh e.1

/-! ### which sections are reported -/

def hasLcount (s : FileSec) : Bool := s.recs.any fun l => (lcountOf l.r).isSome

theorem filterMap_isEmpty {α β : Type} (f : α → Option β) (xs : List α) :
    (xs.filterMap f).isEmpty = !(xs.any fun x => (f x).isSome) := by
  induction xs with
  | nil => rfl
  | cons x xs ih =>
    simp only [List.filterMap_cons, List.any_cons]
    cases hf : f x <;> simp [ih]

theorem semSec_name (s : FileSec) :
    (semSec s).map (·.1) = if hasLcount s then some (utf8Lossy s.name) else none := by
  unfold semSec hasLcount
  simp only [filterMap_isEmpty, List.any_map]
  cases h : (s.recs.any fun l => (lcountOf l.r).isSome) <;> simp [Function.comp_def, h]

theorem semText_names (r : Report) :
    (semText r).map (·.1) = (r.secs.filter hasLcount).map (fun s => utf8Lossy s.name) := by
  unfold semText
  induction r.secs with
  | nil => rfl
  | cons s ss ih =>
    have := semSec_name s
    simp only [List.filterMap_cons, List.filter_cons]
    cases hs : semSec s with
    | none =>
      rw [hs] at this
      cases hl : hasLcount s
      · simpa [hl] using ih
      · simp [hl] at this
    | some v =>
      rw [hs] at this
      cases hl : hasLcount s
      · simp [hl] at this
      · simp [hl] at this
        simp [hl, this, ih]

/-! ### compositionality and the optional final newline -/

theorem splitLines_ne_nil (x : Bytes) (h : x ≠ []) : splitLines x ≠ [] := by
  cases x with
  | nil => exact absurd rfl h
  | cons b x =>
    unfold splitLines
    split
    · simp
    · split <;> simp

theorem splitLines_append (x y : Bytes) (h : x = [] ∨ x.getLast? = some 10) :
    splitLines (x ++ y) = splitLines x ++ splitLines y := by
  induction x with
  | nil => simp [splitLines]
  | cons b x ih =>
    have hx : x = [] ∨ x.getLast? = some 10 := by
      cases x with
      | nil => exact Or.inl rfl
      | cons c x' =>
        rcases h with h | h
        · simp at h
        · right; simpa [List.getLast?_cons_cons] using h
    have ih' := ih hx
    by_cases hb : b = 10
    · subst hb; simp [splitLines, ih']
    · have hne : x ≠ [] := by
        intro e; subst e
        rcases h with h | h
        · simp at h
        · simp at h; exact hb h
      obtain ⟨l, ls, hls⟩ := List.exists_cons_of_ne_nil (splitLines_ne_nil x hne)
      simp [splitLines, hb, ih', hls]

/-- reading a concatenation whose first part ends at a line end continues from the state reached -/
theorem runBytes_append (s : St) (x y : Bytes) (h : x = [] ∨ x.getLast? = some 10) :
    runBytes s (x ++ y) = runBytes (runBytes s x) y := by
  unfold runBytes runLines
  rw [splitLines_append x y h, List.foldl_append]

theorem stripEol_snoc_lf (l : Bytes) : stripEol (l ++ [10]) = stripEol l := by
  induction l with
  | nil => rfl
  | cons b l ih => simp only [List.cons_append, stripEol, ih]

theorem splitLines_cons_lf (bs : Bytes) : splitLines (10 :: bs) = [10] :: splitLines bs := by
  rw [splitLines]; simp

theorem splitLines_cons_ne (b : Nat) (bs : Bytes) (hb : b ≠ 10) (l : Bytes) (ls : List Bytes)
    (h : splitLines bs = l :: ls) : splitLines (b :: bs) = (b :: l) :: ls := by
  rw [splitLines]; simp [hb, h]

theorem splitLines_snoc_lf (bs : Bytes) (hne : bs ≠ []) (hl : bs.getLast? ≠ some 10) :
    ∃ ls l, splitLines bs = ls ++ [l] ∧ splitLines (bs ++ [10]) = ls ++ [l ++ [10]] := by
  induction bs with
  | nil => exact absurd rfl hne
  | cons b bs ih =>
    cases bs with
    | nil =>
      have hb : b ≠ 10 := by intro e; subst e; simp at hl
      exact ⟨[], [b], by simp [splitLines, hb], by simp [splitLines, hb]⟩
    | cons c bs' =>
      have hl' : (c :: bs').getLast? ≠ some 10 := by simpa [List.getLast?_cons_cons] using hl
      obtain ⟨ls, l, h1, h2⟩ := ih (by simp) hl'
      have e : (b :: c :: bs') ++ [10] = b :: ((c :: bs') ++ [10]) := rfl
      by_cases hb : b = 10
      · subst hb
        exact ⟨[10] :: ls, l, by rw [splitLines_cons_lf, h1]; rfl,
          by rw [e, splitLines_cons_lf, h2]; rfl⟩
      · cases ls with
        | nil =>
          exact ⟨[], b :: l, by rw [splitLines_cons_ne _ _ hb _ _ h1]; rfl,
            by rw [e, splitLines_cons_ne _ _ hb _ _ h2]; rfl⟩
        | cons l1 ls1 =>
          exact ⟨(b :: l1) :: ls1, l, by rw [splitLines_cons_ne _ _ hb _ _ h1]; rfl,
            by rw [e, splitLines_cons_ne _ _ hb _ _ h2]; rfl⟩

/-- a missing newline at the very end of the file changes nothing -/
theorem parse_snoc_lf (bs : Bytes) (hne : bs ≠ []) (hl : bs.getLast? ≠ some 10) :
    parse (bs ++ [10]) = parse bs := by
  obtain ⟨ls, l, h1, h2⟩ := splitLines_snoc_lf bs hne hl
  unfold parse runBytes runLines
  rw [h1, h2, List.foldl_append, List.foldl_append]
  simp only [List.foldl_cons, List.foldl_nil]
  cases List.foldl stepLine (St.run {}) ls with
  | halt o => rfl
  | run a => simp only [stepLine, procLine, stripEol_snoc_lf]

/-! ### every accepted count fits 64 bits, for every byte string -/

theorem mem_set {κ α : Type} [DecidableEq κ] (m : List (κ × α)) (k : κ) (v : α) (x : κ × α)
    (h : x ∈ AList.set m k v) : x ∈ m ∨ x = (k, v) := by
  induction m with
  | nil => simp [AList.set] at h; exact Or.inr h
  | cons kv m ih =>
    obtain ⟨k', w⟩ := kv
    unfold AList.set at h
    split at h
    · rename_i hk
      simp only [List.mem_cons] at h ⊢
      rcases h with h | h
      · right; rw [h, hk]
      · left; right; exact h
    · simp only [List.mem_cons] at h ⊢
      rcases h with h | h
      · left; left; exact h
      · rcases ih h with h | h
        · left; right; exact h
        · right; exact h

def CovFits (c : Cov) : Prop := ∀ kv ∈ c.lines, kv.2 ≤ U64MAX

def AccFits (a : Acc) : Prop := (∀ r ∈ a.results, CovFits r.2) ∧ CovFits a.cur

def StFits : St → Prop
  | .run a => AccFits a
  | .halt (.ok _) => False
  | .halt _ => True

theorem onFile_fits (a : Acc) (n : Bytes) (h : AccFits a) : AccFits (onFile a n) := by
  refine ⟨?_, by simp [onFile, CovFits]⟩
  intro r hr
  simp only [onFile] at hr
  split at hr
  · split at hr
    · exact h.1 r hr
    · simp only [List.mem_append, List.mem_singleton] at hr
      rcases hr with hr | rfl
      · exact h.1 r hr
      · exact h.2
  · exact h.1 r hr

theorem onLcount_fits (a : Acc) (l n : Nat) (h : AccFits a) (hn : n ≤ U64MAX) :
    AccFits (onLcount a l n) := by
  refine ⟨h.1, ?_⟩
  intro kv hkv
  rcases mem_set _ _ _ _ hkv with hkv | rfl
  · exact h.2 kv hkv
  · exact hn

theorem procStripped_fits (a : Acc) (l : Bytes) (h : AccFits a) : StFits (procStripped a l) := by
  unfold procStripped
  repeat' split
  all_goals first
    | exact (by simp [StFits, invalidRecord] : StFits invalidRecord)
    | exact (by simp [StFits, parseErr] : StFits parseErr)
    | exact onFile_fits a _ h
    | exact onLcount_fits a _ _ h (by unfold U64MAX; omega)
    | exact onLcount_fits a _ _ h (parseUInt_le _ _ _ (by assumption))
    | exact h

theorem runLines_fits (s : St) (ls : List Bytes) (h : StFits s) : StFits (runLines s ls) := by
  unfold runLines
  induction ls generalizing s with
  | nil => exact h
  | cons l ls ih =>
    apply ih
    cases s with
    | halt o => exact h
    | run a => exact procStripped_fits a _ h

/-- for every byte string: whatever `parse_gcov` accepts, every count it reports fits 64 bits -/
theorem parse_fits (bs : Bytes) (rs : List (Bytes × Cov)) (h : parse bs = .ok rs) :
    ∀ r ∈ rs, ∀ kv ∈ r.2.lines, kv.2 ≤ U64MAX := by
  have hf := runLines_fits (.run {}) (splitLines bs) ⟨by simp, by simp [CovFits]⟩
  unfold parse runBytes at h
  generalize runLines (St.run {}) (splitLines bs) = s at h hf
  cases s with
  | halt o => simp only [finish] at h; subst h; exact absurd hf (by simp [StFits])
  | run a =>
    simp only [finish] at h
    split at h
    · cases h; exact hf.1
    · split at h
      · cases h
        intro r hr
        simp only [List.mem_append, List.mem_singleton] at hr
        rcases hr with hr | rfl
        · exact hf.1 r hr
        · exact hf.2
      · cases h

/-! ### no program point panics -/

def StNoPanic : St → Prop
  | .halt (.panic _) => False
  | _ => True

theorem procStripped_noPanic (a : Acc) (l : Bytes) : StNoPanic (procStripped a l) := by
  unfold procStripped
  repeat' split
  all_goals first
    | exact (by simp [StNoPanic, invalidRecord] : StNoPanic invalidRecord)
    | exact (by simp [StNoPanic, parseErr] : StNoPanic parseErr)
    | exact (by simp [StNoPanic] : StNoPanic (.run _))

theorem runLines_noPanic (s : St) (ls : List Bytes) (h : StNoPanic s) : StNoPanic (runLines s ls) := by
  unfold runLines
  induction ls generalizing s with
  | nil => exact h
  | cons l ls ih =>
    apply ih
    cases s with
    | halt o => exact h
    | run a => exact procStripped_noPanic a _

/-- for every byte string the text reader returns `Ok` or `Err`, never a panic -/
theorem parse_ne_panic (bs : Bytes) (site : String) : parse bs ≠ .panic site := by
  have hf := runLines_noPanic (.run {}) (splitLines bs) (by simp [StNoPanic])
  unfold parse runBytes
  generalize runLines (St.run {}) (splitLines bs) = s at hf
  cases s with
  | halt o =>
    intro h
    simp only [finish] at h
    subst h
    simp [StNoPanic] at hf
  | run a =>
    simp only [finish]
    split
    · simp
    · split <;> simp

/-! ## JSON form -/
namespace JsonL
open Grcov.Gcov.Json

theorem mapOpt_map {α β γ : Type} (f : α → γ) (g : γ → Option β) (h : α → β) (xs : List α)
    (H : ∀ x ∈ xs, g (f x) = some (h x)) : mapOpt g (xs.map f) = some (xs.map h) := by
  induction xs with
  | nil => rfl
  | cons x xs ih =>
    simp only [List.map_cons, mapOpt, H x (by simp), ih (fun y hy => H y (by simp [hy]))]

theorem asCounter_toJson (c : Counter) (h : c.WF) : asCounter c.toJson = some c.val := by
  cases c with
  | int n =>
    have h' : n ≤ U64MAX := h
    simp [Counter.toJson, asCounter, Counter.val, h']
  | flt m e =>
    cases e with
    | ofNat k =>
      have h' : m * 2 ^ k ≤ U64MAX := h
      by_cases hm : m = 0
      · subst hm; simp [Counter.toJson, asCounter, floatCounter, Counter.val]
      · simp [Counter.toJson, asCounter, floatCounter, Counter.val, hm, h']
    | negSucc k =>
      have h' : m < (U64MAX + 1) * 2 ^ (k + 1) := h
      by_cases hm : m = 0
      · subst hm; simp [Counter.toJson, asCounter, floatCounter, Counter.val]
      · simp [Counter.toJson, asCounter, floatCounter, Counter.val, hm, h']

theorem asU32_pos (n : Nat) (h : n ≤ U32MAX) : asU32 (.num (.pos n)) = some n := by
  simp [asU32, h]

def toLineJ (l : LineS) : LineJ := ⟨l.lineNumber, l.count.val, l.branches.map (·.count.val)⟩
def toFnJ (g : FnS) : FnJ := ⟨g.demangledName, g.startLine, g.executionCount.val⟩
def toFileJ (f : FileS) : FileJ := ⟨f.file, f.functions.map toFnJ, f.lines.map toLineJ⟩

theorem decBr_toJson (b : BrS) (h : b.WF) : decBr b.toJson = some b.count.val := by
  simp [BrS.toJson, decBr, req, entries, List.filter, kCount, kThrow, kFallthrough,
    asCounter_toJson b.count h, asBool]

theorem decLine_toJson (l : LineS) (h : l.WF) : decLine l.toJson = some (toLineJ l) := by
  obtain ⟨h1, h2, h3⟩ := h
  have hb : asVec decBr (.arr (l.branches.map BrS.toJson)) = some (l.branches.map (·.count.val)) :=
    mapOpt_map _ _ _ _ (fun b hb => decBr_toJson b (h3 b hb))
  rcases hf : l.functionName with _ | _ | s <;>
    simp [LineS.toJson, decLine, hf, optStrEntry, req, opt, entries, List.filter, kLineNumber,
      kFunctionName, kCount, kUnexecutedBlock, kBranches, asCounter_toJson l.count h2, asBool,
      asU32_pos _ h1, hb, asOptStr, toLineJ]

theorem decFn_toJson (g : FnS) (h : g.WF) : decFn g.toJson = some (toFnJ g) := by
  obtain ⟨h1, h2, h3, h4, h5, h6, h7⟩ := h
  simp [FnS.toJson, decFn, req, entries, List.filter, kName, kDemangledName, kStartLine,
    kStartColumn, kEndLine, kEndColumn, kBlocks, kBlocksExecuted, kExecutionCount, asStr,
    asU32_pos _ h1, asU32_pos _ h2, asU32_pos _ h3, asU32_pos _ h4, asU32_pos _ h5, asU32_pos _ h6,
    asCounter_toJson _ h7, toFnJ]

theorem decFile_toJson (f : FileS) (h : f.WF) : decFile f.toJson = some (toFileJ f) := by
  have hf : asVec decFn (.arr (f.functions.map FnS.toJson)) = some (f.functions.map toFnJ) :=
    mapOpt_map _ _ _ _ (fun g hg => decFn_toJson g (h.1 g hg))
  have hl : asVec decLine (.arr (f.lines.map LineS.toJson)) = some (f.lines.map toLineJ) :=
    mapOpt_map _ _ _ _ (fun l hl => decLine_toJson l (h.2 l hl))
  simp [FileS.toJson, decFile, req, entries, List.filter, Json.kFile, kFunctions, kLines, asStr, hf,
    hl, toFileJ]

theorem decDoc_toJson (d : Doc) (h : d.WF) : decDoc d.toJson = some (d.files.map toFileJ) := by
  have hf : asVec decFile (.arr (d.files.map FileS.toJson)) = some (d.files.map toFileJ) :=
    mapOpt_map _ _ _ _ (fun f hf => decFile_toJson f (h f hf))
  rcases hc : d.cwd with _ | _ | s <;>
    simp [Doc.toJson, decDoc, hc, optStrEntry, req, opt, entries, List.filter, kFormatVersion,
      kGccVersion, kCwd, kDataFile, kFiles, asStr, asOptStr, hf]

/-! ### the three folds of a file are the key-by-key denotation (Lemmas/GcovJsonSum.lean) -/

theorem filter_toLineJ (ls : List LineS) (x : Nat) :
    (ls.map toLineJ).filter (fun e => e.lineNumber = x)
      = (ls.filter fun e => e.lineNumber = x).map toLineJ := by
  rw [List.filter_map]; rfl

theorem fileLines_eq (f : FileS) : fileLines (f.lines.map toLineJ) = semLines f := by
  have hkeys : (f.lines.map toLineJ).map (·.lineNumber) = f.lines.map (·.lineNumber) := by
    rw [List.map_map]; rfl
  have := foldl_eq_tabulate (fun m (ln : LineJ) => addCount m ln.lineNumber ln.count) (·.lineNumber)
    (fun m x => keys_addCount m x.lineNumber x.count) (f.lines.map toLineJ) (lineCount f) (by
      intro k hk
      have := fileLines_get? (f.lines.map toLineJ) k hk
      unfold fileLines at this
      rw [this, filter_toLineJ, List.map_map]
      rfl)
  rw [hkeys] at this
  exact this

theorem foldl_zipOr_skip_empty (es : List LineS) (u : List Bool) :
    ((es.filter fun e => !e.branches.isEmpty).map fun e =>
        e.branches.map fun b => decide (b.count.val > 0)).foldl zipOr u
      = (es.map fun e => e.branches.map fun b => decide (b.count.val > 0)).foldl zipOr u := by
  induction es generalizing u with
  | nil => rfl
  | cons e es ih =>
    simp only [List.filter_cons, List.map_cons, List.foldl_cons]
    cases hb : e.branches.isEmpty
    · simp only [Bool.not_false, if_true, List.map_cons, List.foldl_cons]; exact ih _
    · have : e.branches = [] := List.isEmpty_iff.mp hb
      simp only [Bool.not_true, Bool.false_eq_true, if_false, this, List.map_nil, zipOr_nil_right]
      exact ih _

theorem takenAt_eq (e : LineS) (i : Nat) :
    (e.branches.map fun b => decide (b.count.val > 0)).getD i false
      = (match e.branches[i]? with
         | some b => decide (b.count.val > 0)
         | none => false) := by
  rw [List.getD_eq_getElem?_getD, List.getElem?_map]
  cases e.branches[i]? <;> rfl

/-- the OR of the vectors of all entries of a line is the vector the specification describes -/
theorem foldl_zipOr_entries (f : FileS) (l : Nat) :
    ((entriesOf f l).map fun e => e.branches.map fun b => decide (b.count.val > 0)).foldl zipOr []
      = lineBranches f l := by
  apply ext_getD
  · rw [foldl_zipOr_length]
    simp only [lineBranches, List.length_map, List.length_range, branchSlots, List.length_nil,
      List.map_map]
    have : ((fun v : List Bool => v.length) ∘ fun e : LineS => e.branches.map fun b => decide (b.count.val > 0))
        = fun e : LineS => e.branches.length := by
      funext e; simp
    rw [this]; omega
  · intro i hi
    rw [foldl_zipOr_length] at hi
    rw [foldl_zipOr_getD]
    have hi' : i < branchSlots f l := by
      simp only [branchSlots, List.length_nil, List.map_map] at hi ⊢
      have : ((fun v : List Bool => v.length) ∘ fun e : LineS => e.branches.map fun b => decide (b.count.val > 0))
          = fun e : LineS => e.branches.length := by
        funext e; simp
      rw [this] at hi; omega
    simp only [lineBranches, List.getD_eq_getElem?_getD, List.getElem?_map, List.getElem?_range hi',
      Option.map_some, Option.getD_some, List.getElem?_nil, Option.getD_none, Bool.false_or,
      branchTaken, List.any_map]
    congr 1
    funext e
    simp only [Function.comp, List.getD_eq_getElem?_getD, List.getElem?_map]
    cases e.branches[i]? <;> rfl

theorem fileBranches_eq (f : FileS) :
    fileBranches (f.lines.map toLineJ) = semBranches f := by
  let pair : LineS → Nat × List Bool := fun e => (e.lineNumber, e.branches.map fun b => decide (b.count.val > 0))
  have h1 : fileBranches (f.lines.map toLineJ)
      = ((f.lines.filter fun e => !e.branches.isEmpty).map pair).foldl
          (fun m e => orBranches m e.1 e.2) [] := by
    unfold fileBranches
    rw [foldl_skip (fun m (ln : LineJ) => orBranches m ln.lineNumber (ln.branches.map fun c => decide (c > 0)))
      (fun ln => ln.branches.isEmpty), List.filter_map, List.foldl_map, List.foldl_map]
    have hp : ((fun ln : LineJ => !ln.branches.isEmpty) ∘ toLineJ) = fun e : LineS => !e.branches.isEmpty := by
      funext e; simp [toLineJ]
    rw [hp]
    congr 1
    funext m e
    simp [pair, toLineJ, List.map_map, Function.comp_def]
  have hkeys : ((f.lines.filter fun e => !e.branches.isEmpty).map pair).map (·.1)
      = (f.lines.filter fun e => !e.branches.isEmpty).map (·.lineNumber) := by
    rw [List.map_map]; rfl
  have := foldl_eq_tabulate (fun m (e : Nat × List Bool) => orBranches m e.1 e.2) (·.1)
    (fun m x => keys_orBranches m x.1 x.2) ((f.lines.filter fun e => !e.branches.isEmpty).map pair)
    (lineBranches f) (by
      intro k hk
      rw [get?_foldl_orBranches]
      have hne : (((f.lines.filter fun e => !e.branches.isEmpty).map pair).filter fun e => e.1 = k).isEmpty
          = false := by
        obtain ⟨e, he, rfl⟩ := List.mem_map.mp hk
        cases h : (((f.lines.filter fun e => !e.branches.isEmpty).map pair).filter fun e' => e'.1 = e.1) with
        | nil =>
          have : e ∈ (((f.lines.filter fun e => !e.branches.isEmpty).map pair).filter fun e' => e'.1 = e.1) := by
            simp [he]
          rw [h] at this; simp at this
        | cons _ _ => rfl
      rw [hne]
      simp only [Bool.false_eq_true, if_false, get?_nil, Option.getD_none]
      congr 1
      rw [← foldl_zipOr_entries, ← foldl_zipOr_skip_empty]
      congr 1
      rw [List.filter_map, List.map_map, entriesOf, List.filter_filter, List.filter_filter]
      have hfl : (f.lines.filter fun a => ((fun e : Nat × List Bool => decide (e.1 = k)) ∘ pair) a && !a.branches.isEmpty)
          = f.lines.filter fun a => !a.branches.isEmpty && decide (a.lineNumber = k) :=
        List.filter_congr (fun e _ => by simp [pair, Bool.and_comm])
      rw [hfl]; rfl)
  rw [hkeys] at this
  rw [h1, this]; rfl

theorem filter_toFnJ (fs : List FnS) (x : Name) :
    (fs.map toFnJ).filter (fun g => g.demangled = x)
      = (fs.filter fun g => g.demangledName = x).map toFnJ := by
  rw [List.filter_map]; rfl

theorem fileFunctions_eq (f : FileS) :
    fileFunctions (f.functions.map toFnJ) = semFunctions f := by
  have hkeys : (f.functions.map toFnJ).map (·.demangled) = f.functions.map (·.demangledName) := by
    rw [List.map_map]; rfl
  have := foldl_eq_tabulate addFunction (·.demangled) keys_addFunction (f.functions.map toFnJ)
    (fun n => (⟨fnStart f n, fnExecuted f n⟩ : Fn)) (by
      intro k hk
      rw [get?_foldl_addFunction, filter_toFnJ]
      have hmem : ∃ g, g ∈ f.functions.filter fun g => g.demangledName = k := by
        obtain ⟨e, he, rfl⟩ := List.mem_map.mp hk
        obtain ⟨g, hg, rfl⟩ := List.mem_map.mp he
        exact ⟨g, by simp [hg, toFnJ]⟩
      cases hf : f.functions.filter fun g => g.demangledName = k with
      | nil => obtain ⟨g, hg⟩ := hmem; rw [hf] at hg; simp at hg
      | cons g gs =>
        simp only [List.map_cons, get?_nil, Option.map_none, Option.getD_none, Bool.false_or,
          fnStart, fnExecuted, fnEntries, hf, List.head?_cons, Option.map_some, Option.getD_some]
        simp only [toFnJ, List.any_map, Function.comp_def, List.any_cons]
        rfl)
  rw [hkeys] at this
  exact this

theorem semLines_isEmpty (f : FileS) : (semLines f).isEmpty = f.lines.isEmpty := by
  cases hl : f.lines with
  | nil => unfold semLines; rw [hl]; rfl
  | cons e es =>
    have : e.lineNumber ∈ firstKeys ((e :: es).map (·.lineNumber)) :=
      (mem_firstKeys _ _).mpr (by simp)
    unfold semLines
    rw [hl]
    cases hk : firstKeys ((e :: es).map (·.lineNumber)) with
    | nil => rw [hk] at this; simp at this
    | cons _ _ => rfl

/-! ### the denotation observed through `get?` -/

theorem get?_semLines (f : FileS) (l : Nat) :
    get? (semLines f) l
      = if l ∈ f.lines.map (·.lineNumber) then some (lineCount f l) else none := by
  unfold semLines
  rw [get?_tabulate]
  by_cases h : l ∈ f.lines.map (·.lineNumber)
  · rw [if_pos h, if_pos ((mem_firstKeys _ l).mpr h)]
  · rw [if_neg h, if_neg (fun h' => h ((mem_firstKeys _ l).mp h'))]

theorem get?_semBranches (f : FileS) (l : Nat) :
    get? (semBranches f) l
      = if l ∈ (f.lines.filter fun e => !e.branches.isEmpty).map (·.lineNumber)
        then some (lineBranches f l) else none := by
  unfold semBranches
  rw [get?_tabulate]
  by_cases h : l ∈ (f.lines.filter fun e => !e.branches.isEmpty).map (·.lineNumber)
  · rw [if_pos h, if_pos ((mem_firstKeys _ l).mpr h)]
  · rw [if_neg h, if_neg (fun h' => h ((mem_firstKeys _ l).mp h'))]

theorem get?_semFunctions (f : FileS) (n : Name) :
    get? (semFunctions f) n
      = if n ∈ f.functions.map (·.demangledName) then some ⟨fnStart f n, fnExecuted f n⟩ else none := by
  unfold semFunctions
  rw [get?_tabulate]
  by_cases h : n ∈ f.functions.map (·.demangledName)
  · rw [if_pos h, if_pos ((mem_firstKeys _ n).mpr h)]
  · rw [if_neg h, if_neg (fun h' => h ((mem_firstKeys _ n).mp h'))]

theorem lineBranches_length (f : FileS) (l : Nat) :
    (lineBranches f l).length = ((entriesOf f l).map (·.branches.length)).foldr max 0 := by
  simp [lineBranches, branchSlots]

theorem le_foldr_max (xs : List Nat) (x : Nat) (h : x ∈ xs) : x ≤ xs.foldr max 0 := by
  induction xs with
  | nil => simp at h
  | cons y ys ih =>
    simp only [List.foldr_cons, List.mem_cons] at h ⊢
    rcases h with rfl | h
    · omega
    · have := ih h; omega

/-- slot `i` is taken iff some entry of the line has a positive count at position `i` -/
theorem lineBranches_taken (f : FileS) (l i : Nat) :
    (lineBranches f l).getD i false = true
      ↔ ∃ e ∈ f.lines, e.lineNumber = l ∧ ∃ b, e.branches[i]? = some b ∧ b.count.val > 0 := by
  have key : branchTaken f l i = true
      ↔ ∃ e ∈ f.lines, e.lineNumber = l ∧ ∃ b, e.branches[i]? = some b ∧ b.count.val > 0 := by
    simp only [branchTaken, entriesOf, List.any_eq_true, List.mem_filter, decide_eq_true_eq]
    constructor
    · rintro ⟨e, ⟨he, hl⟩, ht⟩
      refine ⟨e, he, hl, ?_⟩
      cases hb : e.branches[i]? with
      | none => rw [hb] at ht; simp at ht
      | some b => rw [hb] at ht; exact ⟨b, rfl, by simpa using ht⟩
    · rintro ⟨e, he, hl, b, hb, hp⟩
      exact ⟨e, ⟨he, hl⟩, by rw [hb]; simpa using hp⟩
  rw [← key]
  by_cases hi : i < branchSlots f l
  · simp [lineBranches, List.getD_eq_getElem?_getD, List.getElem?_map, List.getElem?_range hi]
  · have hnone : (lineBranches f l)[i]? = none := by
      apply List.getElem?_eq_none; simp [lineBranches]; omega
    have hfalse : branchTaken f l i = false := by
      rw [Bool.eq_false_iff]
      intro ht
      obtain ⟨e, he, hl, b, hb, _⟩ := key.mp ht
      have hlen : i < e.branches.length := by
        rcases Nat.lt_or_ge i e.branches.length with h | h
        · exact h
        · rw [List.getElem?_eq_none h] at hb; simp at hb
      have : e.branches.length ≤ branchSlots f l :=
        le_foldr_max _ _ (List.mem_map.mpr ⟨e, by simp [entriesOf, he, hl], rfl⟩)
      omega
    simp [List.getD_eq_getElem?_getD, hnone, hfalse]

theorem fnExecuted_iff (f : FileS) (n : Name) :
    fnExecuted f n = true
      ↔ ∃ g ∈ f.functions, g.demangledName = n ∧ g.executionCount.val > 0 := by
  simp only [fnExecuted, fnEntries, List.any_eq_true, List.mem_filter, decide_eq_true_eq]
  constructor
  · rintro ⟨g, ⟨hg, hn⟩, hp⟩; exact ⟨g, hg, hn, hp⟩
  · rintro ⟨g, hg, hn, hp⟩; exact ⟨g, ⟨hg, hn⟩, hp⟩

theorem fnStart_eq (f : FileS) (n : Name) :
    fnStart f n = (((f.functions.find? fun g => g.demangledName = n)).map (·.startLine)).getD 0 := by
  unfold fnStart fnEntries
  rw [List.head?_filter]

theorem convFile_toFileJ (f : FileS) : convFile (toFileJ f) = semFile f := by
  unfold convFile semFile
  simp only [toFileJ, fileLines_eq, fileBranches_eq, fileFunctions_eq, semLines_isEmpty]

/-- fidelity of the JSON reader on every well-formed document -/
theorem toResults_toJson (d : Doc) (h : d.WF) : toResults d.toJson = .ok (semJson d) := by
  unfold toResults semJson
  rw [decDoc_toJson d h]
  have e : (convFile ∘ toFileJ) = semFile := funext convFile_toFileJ
  show Out.ok (List.filterMap convFile (List.map toFileJ d.files)) = _
  rw [List.filterMap_map, e]

/-- an accepted counter fits 64 bits; an integer is taken as it is -/
theorem asCounter_le (j : Json) (n : Nat) (h : asCounter j = some n) : n ≤ U64MAX := by
  unfold asCounter at h
  split at h
  · split at h <;> simp at h; omega
  · unfold floatCounter at h
    split at h
    · simp at h; omega
    · split at h
      · simp at h
      · split at h
        · split at h <;> simp at h; omega
        · split at h
          · rename_i hlt
            simp at h; subst h
            exact Nat.le_of_lt_succ ((Nat.div_lt_iff_lt_mul (Nat.two_pow_pos _)).mpr hlt)
          · simp at h
  · simp at h

theorem asCounter_int (k n : Nat) (h : asCounter (.num (.pos k)) = some n) : n = k := by
  simp only [asCounter] at h
  split at h
  · simp at h; exact h.symm
  · simp at h

/-- a float of 2^64 or more is an error, not a wrapped or saturated value -/
theorem asCounter_float_above (m k : Nat) (h : U64MAX < m * 2 ^ k) :
    asCounter (.num (.flt false m (.ofNat k))) = none := by
  have hm : m ≠ 0 := by intro e; subst e; simp at h
  have : ¬ m * 2 ^ k ≤ U64MAX := by omega
  simp [asCounter, floatCounter, hm, this]

theorem asCounter_negative (n : Nat) : asCounter (.num (.neg n)) = none := rfl

/-- a float counter that is exactly 2^64 is rejected (`value < u64::MAX as f64` since 5cfb47a) -/
theorem asCounter_two_pow_64 (m k : Nat) (h : m * 2 ^ k = U64MAX + 1) :
    asCounter (.num (.flt false m (.ofNat k))) = none :=
  asCounter_float_above m k (by omega)

/-- a float counter m·2^k: accepted iff it is below 2^64, and then taken as it is -/
theorem asCounter_float_int (m k n : Nat) :
    asCounter (.num (.flt false m (.ofNat k))) = some n ↔ m * 2 ^ k ≤ U64MAX ∧ n = m * 2 ^ k := by
  by_cases hm : m = 0
  · subst hm; simp [asCounter, floatCounter, eq_comm]
  · by_cases h : m * 2 ^ k ≤ U64MAX <;> simp [asCounter, floatCounter, hm, h, eq_comm]

/-- a float counter m/2^(k+1): accepted iff it is below 2^64, and then truncated toward zero -/
theorem asCounter_float_frac (m k n : Nat) :
    asCounter (.num (.flt false m (.negSucc k))) = some n
      ↔ m < (U64MAX + 1) * 2 ^ (k + 1) ∧ n = m / 2 ^ (k + 1) := by
  by_cases hm : m = 0
  · subst hm
    have : 0 < (U64MAX + 1) * 2 ^ (k + 1) := Nat.mul_pos (by decide) (Nat.two_pow_pos _)
    simp [asCounter, floatCounter, eq_comm, this]
  · by_cases h : m < (U64MAX + 1) * 2 ^ (k + 1) <;> simp [asCounter, floatCounter, hm, h, eq_comm]

/-- a negative float other than −0.0 is rejected -/
theorem asCounter_float_negative (m : Nat) (e : Int) (hm : m ≠ 0) :
    asCounter (.num (.flt true m e)) = none := by
  simp [asCounter, floatCounter, hm]

/-- key order inside a JSON object does not matter to a struct field -/
theorem entries_perm {kvs kvs' : List (Bytes × Json)} (p : kvs.Perm kvs') (k : Bytes) :
    (entries kvs k).Perm (entries kvs' k) := p.filter _

theorem req_perm {β : Type} {kvs kvs' : List (Bytes × Json)} (p : kvs.Perm kvs') (k : Bytes)
    (dec : Json → Option β) : req kvs k dec = req kvs' k dec := by
  have hp := entries_perm p k
  unfold req
  cases h : entries kvs k with
  | nil => rw [h] at hp; rw [List.nil_perm.mp hp]
  | cons x xs =>
    cases xs with
    | nil => rw [h] at hp; rw [List.singleton_perm.mp hp]
    | cons y ys =>
      rw [h] at hp
      have hl := hp.length_eq
      cases h' : entries kvs' k with
      | nil => simp [h'] at hl
      | cons x' xs' =>
        cases xs' with
        | nil => simp [h'] at hl
        | cons y' ys' => simp


/-! ## unknown keys and key order, at every object level

`DocRel j j'`: the two value trees hold the same READ content. Level by level (document, file,
function, line, branch): two objects are related when, after deleting the keys that level does not
read (`strip`), one list of pairs is a permutation of the other with related values; the values
under `files`, `functions`, `lines`, `branches` are related as arrays of related elements, all other
values must be equal. So `j'` may differ from `j` by any keys gcov 13/14 (or anything else) adds
to any object, at any position, and by the order of the keys of any object. -/

def docKeys : List Bytes := [kFormatVersion, kGccVersion, kCwd, kDataFile, kFiles]
def fileKeys : List Bytes := [Json.kFile, kFunctions, kLines]
def lineKeys : List Bytes := [kLineNumber, kFunctionName, kCount, kUnexecutedBlock, kBranches]
def brKeys : List Bytes := [kCount, kThrow, kFallthrough]
def fnKeys : List Bytes :=
  [kName, kDemangledName, kStartLine, kStartColumn, kEndLine, kEndColumn, kBlocks, kBlocksExecuted,
   kExecutionCount]

/-- element-wise related lists of the same length (core has no `List.Forall₂`) -/
inductive All2 {α β : Type} (R : α → β → Prop) : List α → List β → Prop
  | nil : All2 R [] []
  | cons {a : α} {b : β} {l : List α} {m : List β} : R a b → All2 R l m → All2 R (a :: l) (b :: m)

/-- delete the pairs whose key is not in `S` -/
def strip (S : List Bytes) (kvs : List (Bytes × Json)) : List (Bytes × Json) :=
  kvs.filter fun kv => decide (kv.1 ∈ S)

def KvRel (R : Bytes → Json → Json → Prop) (a b : Bytes × Json) : Prop := a.1 = b.1 ∧ R a.1 a.2 b.2

def ObjSim (S : List Bytes) (R : Bytes → Json → Json → Prop) (kvs kvs' : List (Bytes × Json)) : Prop :=
  ∃ mid, All2 (KvRel R) (strip S kvs) mid ∧ mid.Perm (strip S kvs')

inductive ObjRel (S : List Bytes) (R : Bytes → Json → Json → Prop) : Json → Json → Prop
  | refl (j : Json) : ObjRel S R j j
  | obj {kvs kvs' : List (Bytes × Json)} : ObjSim S R kvs kvs' → ObjRel S R (.obj kvs) (.obj kvs')

inductive ArrRel (R : Json → Json → Prop) : Json → Json → Prop
  | refl (j : Json) : ArrRel R j j
  | arr {xs ys : List Json} : All2 R xs ys → ArrRel R (.arr xs) (.arr ys)

def BrRel : Json → Json → Prop := ObjRel brKeys fun _ a b => a = b
def FnRel : Json → Json → Prop := ObjRel fnKeys fun _ a b => a = b
def LineRel : Json → Json → Prop :=
  ObjRel lineKeys fun k a b => if k = kBranches then ArrRel BrRel a b else a = b
def FileRel : Json → Json → Prop :=
  ObjRel fileKeys fun k a b =>
    if k = kFunctions then ArrRel FnRel a b else if k = kLines then ArrRel LineRel a b else a = b
def DocRel : Json → Json → Prop :=
  ObjRel docKeys fun k a b => if k = kFiles then ArrRel FileRel a b else a = b

theorem entries_strip (S : List Bytes) (kvs : List (Bytes × Json)) (k : Bytes) (hk : k ∈ S) :
    entries (strip S kvs) k = entries kvs k := by
  unfold entries strip
  rw [List.filter_filter]
  apply List.filter_congr
  intro kv _
  by_cases h : kv.1 = k
  · subst h; simp [hk]
  · have : (kv.1 == k) = false := by simpa using h
    simp [this]

theorem entries_forall2 {R : Bytes → Json → Json → Prop} {l m : List (Bytes × Json)}
    (h : All2 (KvRel R) l m) (k : Bytes) :
    All2 (KvRel R) (entries l k) (entries m k) := by
  induction h with
  | nil => exact .nil
  | @cons a b l m hab _ ih =>
    unfold entries at ih ⊢
    have e : b.1 = a.1 := hab.1.symm
    by_cases hk : a.1 = k
    · have h1 : (a.1 == k) = true := by simpa using hk
      have h2 : (b.1 == k) = true := by rw [e]; exact h1
      simp only [List.filter_cons, h1, h2, if_true]
      exact .cons hab ih
    · have h1 : (a.1 == k) = false := by simpa using hk
      have h2 : (b.1 == k) = false := by rw [e]; exact h1
      simp only [List.filter_cons, h1, h2]
      exact ih

/-- the shape of `req` and `opt`: a value for "absent", the decoder for "once", a value for "repeated" -/
def pick {β : Type} (z c : Option β) (dec : Json → Option β) : List (Bytes × Json) → Option β
  | [] => z
  | [kv] => dec kv.2
  | _ :: _ :: _ => c

theorem req_eq_pick {β : Type} (kvs : List (Bytes × Json)) (k : Bytes) (dec : Json → Option β) :
    req kvs k dec = pick none none dec (entries kvs k) := by
  unfold req
  cases h : entries kvs k with
  | nil => rfl
  | cons x xs => cases xs <;> rfl

theorem opt_eq_pick {β : Type} (kvs : List (Bytes × Json)) (k : Bytes)
    (dec : Json → Option (Option β)) :
    opt kvs k dec = pick (some none) none dec (entries kvs k) := by
  unfold opt
  cases h : entries kvs k with
  | nil => rfl
  | cons x xs => cases xs <;> rfl

theorem pick_perm {β : Type} (z c : Option β) (dec : Json → Option β) {l m : List (Bytes × Json)}
    (p : l.Perm m) : pick z c dec l = pick z c dec m := by
  match l, m, p.length_eq with
  | [], [], _ => rfl
  | [x], [y], _ =>
    have := List.singleton_perm.mp p
    rw [this]
  | _ :: _ :: _, _ :: _ :: _, _ => rfl

theorem pick_sim {β : Type} (z c : Option β) (dec : Json → Option β)
    {S : List Bytes} {R : Bytes → Json → Json → Prop} {kvs kvs' : List (Bytes × Json)}
    (h : ObjSim S R kvs kvs') (k : Bytes) (hk : k ∈ S) (hdec : ∀ a b, R k a b → dec a = dec b) :
    pick z c dec (entries kvs k) = pick z c dec (entries kvs' k) := by
  obtain ⟨mid, hf, hp⟩ := h
  rw [← entries_strip S kvs k hk, ← entries_strip S kvs' k hk, ← pick_perm z c dec (entries_perm hp k)]
  have f2 := entries_forall2 hf k
  generalize he : entries (strip S kvs) k = e1 at f2
  generalize entries mid k = e2 at f2
  cases f2 with
  | nil => rfl
  | @cons a b l m hab rest =>
    cases rest with
    | nil =>
      have ha : a ∈ entries (strip S kvs) k := by rw [he]; exact List.mem_cons_self ..
      have hak : a.1 = k := by
        unfold entries at ha
        have := (List.mem_filter.mp ha).2
        simpa using this
      simp only [pick]
      exact hdec _ _ (hak ▸ hab.2)
    | cons _ _ => rfl

theorem req_sim {β : Type} (dec : Json → Option β)
    {S : List Bytes} {R : Bytes → Json → Json → Prop} {kvs kvs' : List (Bytes × Json)}
    (h : ObjSim S R kvs kvs') (k : Bytes) (hk : k ∈ S) (hdec : ∀ a b, R k a b → dec a = dec b) :
    req kvs k dec = req kvs' k dec := by
  rw [req_eq_pick, req_eq_pick]; exact pick_sim _ _ dec h k hk hdec

theorem opt_sim {β : Type} (dec : Json → Option (Option β))
    {S : List Bytes} {R : Bytes → Json → Json → Prop} {kvs kvs' : List (Bytes × Json)}
    (h : ObjSim S R kvs kvs') (k : Bytes) (hk : k ∈ S) (hdec : ∀ a b, R k a b → dec a = dec b) :
    opt kvs k dec = opt kvs' k dec := by
  rw [opt_eq_pick, opt_eq_pick]; exact pick_sim _ _ dec h k hk hdec

theorem asVec_sim {β : Type} (dec : Json → Option β) {R : Json → Json → Prop}
    (hdec : ∀ a b, R a b → dec a = dec b) {a b : Json} (h : ArrRel R a b) :
    asVec dec a = asVec dec b := by
  cases h with
  | refl => rfl
  | arr hf =>
    simp only [asVec]
    induction hf with
    | nil => rfl
    | cons hab _ ih => simp only [mapOpt, hdec _ _ hab, ih]

theorem decBr_sim {a b : Json} (h : BrRel a b) : decBr a = decBr b := by
  cases h with
  | refl => rfl
  | obj hs =>
    have e := fun a b (h : a = b) => congrArg asBool h
    simp only [decBr]
    rw [req_sim asCounter hs kCount (by decide) (fun a b h => by rw [h]),
      req_sim asBool hs kThrow (by decide) (fun a b h => by rw [h]),
      req_sim asBool hs kFallthrough (by decide) (fun a b h => by rw [h])]

theorem decFn_sim {a b : Json} (h : FnRel a b) : decFn a = decFn b := by
  cases h with
  | refl => rfl
  | obj hs =>
    simp only [decFn]
    rw [req_sim asStr hs kName (by decide) (fun a b h => by rw [h]),
      req_sim asStr hs kDemangledName (by decide) (fun a b h => by rw [h]),
      req_sim asU32 hs kStartLine (by decide) (fun a b h => by rw [h]),
      req_sim asU32 hs kStartColumn (by decide) (fun a b h => by rw [h]),
      req_sim asU32 hs kEndLine (by decide) (fun a b h => by rw [h]),
      req_sim asU32 hs kEndColumn (by decide) (fun a b h => by rw [h]),
      req_sim asU32 hs kBlocks (by decide) (fun a b h => by rw [h]),
      req_sim asU32 hs kBlocksExecuted (by decide) (fun a b h => by rw [h]),
      req_sim asCounter hs kExecutionCount (by decide) (fun a b h => by rw [h])]

theorem decLine_sim {a b : Json} (h : LineRel a b) : decLine a = decLine b := by
  cases h with
  | refl => rfl
  | obj hs =>
    have n1 : kLineNumber ≠ kBranches := by decide
    have n2 : kFunctionName ≠ kBranches := by decide
    have n3 : kCount ≠ kBranches := by decide
    have n4 : kUnexecutedBlock ≠ kBranches := by decide
    simp only [decLine]
    rw [req_sim asU32 hs kLineNumber (by decide) (fun a b h => by simp only [n1, if_false] at h; rw [h]),
      opt_sim asOptStr hs kFunctionName (by decide) (fun a b h => by simp only [n2, if_false] at h; rw [h]),
      req_sim asCounter hs kCount (by decide) (fun a b h => by simp only [n3, if_false] at h; rw [h]),
      req_sim asBool hs kUnexecutedBlock (by decide) (fun a b h => by simp only [n4, if_false] at h; rw [h]),
      req_sim (asVec decBr) hs kBranches (by decide)
        (fun a b h => by simp only [if_true] at h; exact asVec_sim decBr (fun _ _ => decBr_sim) h)]

theorem decFile_sim {a b : Json} (h : FileRel a b) : decFile a = decFile b := by
  cases h with
  | refl => rfl
  | obj hs =>
    have n1 : Json.kFile ≠ kFunctions := by decide
    have n2 : Json.kFile ≠ kLines := by decide
    have n3 : kLines ≠ kFunctions := by decide
    simp only [decFile]
    rw [req_sim asStr hs Json.kFile (by decide) (fun a b h => by simp only [n1, n2, if_false] at h; rw [h]),
      req_sim (asVec decFn) hs kFunctions (by decide)
        (fun a b h => by simp only [if_true] at h; exact asVec_sim decFn (fun _ _ => decFn_sim) h),
      req_sim (asVec decLine) hs kLines (by decide)
        (fun a b h => by
          simp only [n3, if_false, if_true] at h; exact asVec_sim decLine (fun _ _ => decLine_sim) h)]

theorem decDoc_sim {a b : Json} (h : DocRel a b) : decDoc a = decDoc b := by
  cases h with
  | refl => rfl
  | obj hs =>
    have n1 : kFormatVersion ≠ kFiles := by decide
    have n2 : kGccVersion ≠ kFiles := by decide
    have n3 : kCwd ≠ kFiles := by decide
    have n4 : kDataFile ≠ kFiles := by decide
    simp only [decDoc]
    rw [req_sim asStr hs kFormatVersion (by decide) (fun a b h => by simp only [n1, if_false] at h; rw [h]),
      req_sim asStr hs kGccVersion (by decide) (fun a b h => by simp only [n2, if_false] at h; rw [h]),
      opt_sim asOptStr hs kCwd (by decide) (fun a b h => by simp only [n3, if_false] at h; rw [h]),
      req_sim asStr hs kDataFile (by decide) (fun a b h => by simp only [n4, if_false] at h; rw [h]),
      req_sim (asVec decFile) hs kFiles (by decide)
        (fun a b h => by simp only [if_true] at h; exact asVec_sim decFile (fun _ _ => decFile_sim) h)]

/-- trees with the same read content give the same result -/
theorem toResults_sim {a b : Json} (h : DocRel a b) : toResults a = toResults b := by
  unfold toResults; rw [decDoc_sim h]

/-! ### how related objects arise -/

theorem forall2_refl {R : Bytes → Json → Json → Prop} (hr : ∀ k a, R k a a)
    (l : List (Bytes × Json)) : All2 (KvRel R) l l := by
  induction l with
  | nil => exact .nil
  | cons a l ih => exact .cons ⟨rfl, hr _ _⟩ ih

/-- equal after deleting the unread keys -/
theorem objSim_of_strip_eq {S : List Bytes} {R : Bytes → Json → Json → Prop} (hr : ∀ k a, R k a a)
    {kvs kvs' : List (Bytes × Json)} (h : strip S kvs = strip S kvs') : ObjSim S R kvs kvs' :=
  ⟨strip S kvs, forall2_refl hr _, h ▸ List.Perm.refl _⟩

/-- a key that is not read, inserted at any position -/
theorem strip_insert (S : List Bytes) (pre post : List (Bytes × Json)) (k : Bytes) (v : Json)
    (hk : k ∉ S) : strip S (pre ++ (k, v) :: post) = strip S (pre ++ post) := by
  simp [strip, List.filter_append, List.filter_cons, hk]

theorem objSim_insert {S : List Bytes} {R : Bytes → Json → Json → Prop} (hr : ∀ k a, R k a a)
    (pre post : List (Bytes × Json)) (k : Bytes) (v : Json) (hk : k ∉ S) :
    ObjSim S R (pre ++ post) (pre ++ (k, v) :: post) :=
  objSim_of_strip_eq hr (strip_insert S pre post k v hk).symm

/-- any reordering of the keys -/
theorem objSim_perm {S : List Bytes} {R : Bytes → Json → Json → Prop} (hr : ∀ k a, R k a a)
    {kvs kvs' : List (Bytes × Json)} (p : kvs.Perm kvs') : ObjSim S R kvs kvs' :=
  ⟨strip S kvs, forall2_refl hr _, p.filter _⟩

theorem docRel_refl_values : ∀ (k : Bytes) (a : Json),
    (if k = kFiles then ArrRel FileRel a a else a = a) := by
  intro k a; split
  · exact .refl a
  · rfl

theorem semJson_names (d : Doc) :
    (semJson d).map (·.1) = (d.files.filter fun f => !f.lines.isEmpty).map (·.file) := by
  unfold semJson
  induction d.files with
  | nil => rfl
  | cons f fs ih =>
    simp only [List.filterMap_cons, List.filter_cons, semFile]
    cases hl : f.lines.isEmpty <;> simp [ih]

/-- for every value tree the JSON reader returns `Ok` or `Err(InvalidData)`, never a panic -/
theorem toResults_ne_panic (j : Json) (site : String) : toResults j ≠ .panic site := by
  unfold toResults; split <;> simp

theorem toResults_err (j : Json) (h : decDoc j = none) : toResults j = .err "InvalidData" := by
  unfold toResults; rw [h]

/-- … and so does the reader with the gzip/JSON-text layer in front, whether that layer fails or not -/
theorem fromReader_ne_panic (r : Option Json) (site : String) : fromReader r ≠ .panic site := by
  cases r with
  | none => simp [fromReader]
  | some j => exact toResults_ne_panic j site

end JsonL

end Grcov.Gcov
