/-
N-ary closed form of the branch-vector aggregate (review item: only line counts had one).
-/
import GrcovModel.Merge
namespace Grcov
open Grcov.AList


/-- N-ary closed form for branch vectors: length = longest input vector,
slot i taken iff taken in some input -/
theorem den_zipOr_closed (xs : List (Option (List Bool))) (v : List Bool) (h : den zipOr xs = some v) :
    v.length = ((xs.filterMap id).map List.length).foldr max 0 ∧
    ∀ i, v.getD i false = (xs.filterMap id).any (fun u => u.getD i false) := by
  induction xs generalizing v with
  | nil => simp [den] at h
  | cons x xs ih =>
    have e : den zipOr (x :: xs) = optCombine zipOr x (den zipOr xs) := rfl
    rw [e] at h
    cases x with
    | none => simp at h; simpa using ih v h
    | some u =>
      cases hd : den zipOr xs with
      | none =>
        rw [hd] at h; simp at h; subst h
        have : xs.filterMap id = [] := by
          clear ih e
          induction xs with
          | nil => rfl
          | cons y ys ihy =>
            have e2 : den zipOr (y :: ys) = optCombine zipOr y (den zipOr ys) := rfl
            rw [e2] at hd
            cases y with
            | none => simp at hd; simpa using ihy hd
            | some w => cases h3 : den zipOr ys <;> rw [h3] at hd <;> simp at hd
        simp [this]
      | some w =>
        rw [hd] at h; simp at h; subst h
        obtain ⟨h1, h2⟩ := ih w hd
        refine ⟨?_, ?_⟩
        · simp [zipOr_length, h1]
        · intro i; rw [zipOr_getD, h2 i]; simp


/-- N-ary closed form for the function aggregate: present iff present in some input, executed iff
executed in some input -/
theorem den_fnMerge_closed (xs : List (Option Fn)) :
    ((den fnMerge xs).isSome ↔ ∃ x ∈ xs, x.isSome) ∧
    ∀ f, den fnMerge xs = some f →
      f.executed = (xs.filterMap id).any (·.executed) := by
  induction xs with
  | nil => simp [den]
  | cons x xs ih =>
    have e : den fnMerge (x :: xs) = optCombine fnMerge x (den fnMerge xs) := rfl
    rw [e]
    obtain ⟨ih1, ih2⟩ := ih
    cases x with
    | none =>
      constructor
      · simpa [optCombine] using ih1
      · intro f hf; simp [optCombine] at hf; simpa using ih2 f hf
    | some a =>
      cases hd : den fnMerge xs with
      | none =>
        constructor
        · simp [optCombine]
        · intro f hf
          simp [optCombine] at hf; subst hf
          have hnone : xs.filterMap id = [] := by
            rw [hd] at ih1
            simp only [Option.isSome_none, Bool.false_eq_true, false_iff, not_exists, not_and] at ih1
            apply List.filterMap_eq_nil_iff.mpr
            intro y hy
            have := ih1 y hy
            cases y <;> simp_all
          simp [hnone]
      | some b =>
        constructor
        · simp [optCombine]
        · intro f hf
          simp [optCombine] at hf; subst hf
          have := ih2 b hd
          simp [fnMerge, this]

end Grcov
