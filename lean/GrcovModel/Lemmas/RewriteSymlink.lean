/-
Helper lemmas about the symlink-following path walk of Rewrite.lean: it is the link-free walk on a
tree without links, and its step fuel is never what makes it give up.
-/
import GrcovModel.Lemmas.Rewrite
namespace Grcov.Rewrite
open Grcov Grcov.UPath Grcov.Glob AList

/-! ### no links: the old walk -/

theorem walk_noLinks (fs : FS) (hl : fs.links = []) (lf : Nat) (segs : List Bytes) (n : Nat)
    (hn : segs.length ≤ n) (cur : List Bytes) (k : Kind) :
    walk fs n lf cur k segs = walk0 fs cur k segs := by
  induction segs generalizing n cur k with
  | nil => cases n <;> simp [walk, walk0]
  | cons seg segs ih =>
    cases n with
    | zero => simp at hn
    | succ n =>
      have hn' : segs.length ≤ n := by simp at hn; omega
      cases k with
      | file => simp [walk, walk0]
      | dir =>
        have hla : fs.linkAt (cur ++ [seg]) = none := by simp [FS.linkAt, hl]
        simp only [walk, walk0, hla]
        split
        · exact ih n hn' _ _
        · split
          · exact ih n hn' _ _
          · cases fs.kind (cur ++ [seg]) with
            | none => rfl
            | some k' => exact ih n hn' _ _

/-- on a tree without symbolic links `stat` is the link-free `stat` of the earlier model: every
theorem proved about that model is a theorem about this one -/
theorem resolve_noLinks (fs : FS) (hl : fs.noLinks) (p : Bytes) : fs.resolve p = fs.resolve0 p := by
  unfold FS.resolve FS.resolve0
  have hf : (split p).length ≤ fs.fuel (split p) := by unfold FS.fuel; omega
  split
  · rfl
  · split
    · exact walk_noLinks fs hl _ _ _ hf _ _
    · exact walk_noLinks fs hl _ _ _ hf _ _

/-! ### the step fuel is enough -/

theorem le_foldl_max (l : List Nat) (a : Nat) : a ≤ l.foldl max a ∧ ∀ x ∈ l, x ≤ l.foldl max a := by
  induction l generalizing a with
  | nil => simp
  | cons y l ih =>
    simp only [List.foldl_cons, List.mem_cons, forall_eq_or_imp]
    have h1 := ih (max a y)
    exact ⟨Nat.le_trans (Nat.le_max_left a y) h1.1, Nat.le_trans (Nat.le_max_right a y) h1.1, h1.2⟩

theorem target_le_maxTarget (fs : FS) (p : List Bytes) (t : Bytes) (h : fs.linkAt p = some t) :
    (split t).length ≤ fs.maxTarget := by
  unfold FS.linkAt at h
  have hm := mem_of_get? h
  unfold FS.maxTarget
  exact (le_foldl_max _ 0).2 _ (List.mem_map.2 ⟨(p, t), hm, rfl⟩)

/-- with at least `segs.length + lf * maxTarget` units of step fuel one more unit changes nothing:
the walk never stops because of `n` -/
theorem walk_fuel_stable (fs : FS) (n lf : Nat) (segs : List Bytes) (cur : List Bytes) (k : Kind)
    (hn : segs.length + lf * fs.maxTarget ≤ n) :
    walk fs (n + 1) lf cur k segs = walk fs n lf cur k segs := by
  induction n generalizing lf segs cur k with
  | zero =>
    have : segs = [] := by
      cases segs with
      | nil => rfl
      | cons a l => simp at hn
    subst this; simp [walk]
  | succ n ih =>
    cases segs with
    | nil => simp [walk]
    | cons seg segs =>
      have hn' : segs.length + lf * fs.maxTarget ≤ n := by simp at hn; omega
      cases k with
      | file => simp [walk]
      | dir =>
        simp only [walk]
        split
        · exact ih lf segs _ _ hn'
        · split
          · exact ih lf segs _ _ hn'
          · cases hl : fs.linkAt (cur ++ [seg]) with
            | some t =>
              simp only
              split
              · rfl
              · cases lf with
                | zero => rfl
                | succ lf' =>
                  simp only
                  apply ih
                  have ht := target_le_maxTarget fs _ t hl
                  simp only [List.length_append]
                  simp only [List.length_cons] at hn
                  have : (lf' + 1) * fs.maxTarget = lf' * fs.maxTarget + fs.maxTarget := by
                    rw [Nat.add_mul, Nat.one_mul]
                  omega
            | none =>
              simp only
              cases fs.kind (cur ++ [seg]) with
              | none => rfl
              | some k' => exact ih lf segs _ _ hn'

theorem walk_fuel_ge (fs : FS) (n m lf : Nat) (segs : List Bytes) (cur : List Bytes) (k : Kind)
    (hn : segs.length + lf * fs.maxTarget ≤ n) (hm : n ≤ m) :
    walk fs m lf cur k segs = walk fs n lf cur k segs := by
  induction m with
  | zero => have : n = 0 := by omega
            subst this; rfl
  | succ m ih =>
    by_cases h : n = m + 1
    · subst h; rfl
    · have hm' : n ≤ m := by omega
      rw [walk_fuel_stable fs m lf segs cur k (by omega), ih hm']

/-- `stat` gives up only for ENOENT, ENOTDIR or ELOOP (40 links), never for lack of step fuel: any
larger amount of fuel gives the same answer as the amount `resolve` passes -/
theorem resolve_fuel_irrelevant (fs : FS) (segs : List Bytes) (cur : List Bytes) (k : Kind) (m : Nat)
    (hm : fs.fuel segs ≤ m) :
    walk fs m maxLinks cur k segs = walk fs (fs.fuel segs) maxLinks cur k segs :=
  walk_fuel_ge fs _ _ _ _ _ _ (by unfold FS.fuel; omega) hm

end Grcov.Rewrite
