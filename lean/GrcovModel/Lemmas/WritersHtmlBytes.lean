/-
Helper lemmas for C03 / C18 part Html (`GrcovModel/Writers/HtmlBytes.lean`): the strict readers
invert the page generators; the skeleton and the markup characters of a page do not depend on
names and source text. Core Lean only.
-/
import GrcovModel.Writers.HtmlBytes
import GrcovModel.Lemmas.Escape
import GrcovModel.Lemmas.WritersCobBytes
import GrcovModel.Lemmas.WritersHtmlConsts
set_option linter.unusedSimpArgs false
namespace Grcov.Writers.HtmlBytes
open Grcov Grcov.Writers.HtmlConsts Grcov.Writers.HtmlF64
open Grcov.Escape hiding Bytes
open Grcov.Writers.CobBytes (decBytes decVal? decVal?_decBytes decFuel_digits)
open Grcov.Stats (HStats)

/-! ## reader primitives -/

theorem expect_append (c r : Bytes) : expect c (c ++ r) = some r := by
  simp [expect, startsWith_self_append]

theorem expect_cons_append (b : Nat) (c r : Bytes) : expect (b :: c) (b :: (c ++ r)) = some r := by
  have := expect_append (b :: c) r
  simpa using this

theorem html_no (x : Nat) (hx : x = 60 ∨ x = 62 ∨ x = 34 ∨ x = 39 ∨ x = 47) (s : Bytes) : x ∉ html s :=
  not_mem_escapeWith htmlTab x (htmlTab_no x hx) s

theorem readEsc_html60 (s r : Bytes) : readEsc 60 (html s ++ 60 :: r) = some (s, r) := by
  unfold readEsc
  rw [splitAt1_append 60 _ _ (html_no 60 (by simp) s)]
  simp [html, unescapeEnt_escapeWith pieceOk_html]

theorem readEsc_html34 (s r : Bytes) : readEsc 34 (html s ++ 34 :: r) = some (s, r) := by
  unfold readEsc
  rw [splitAt1_append 34 _ _ (html_no 34 (by simp) s)]
  simp [html, unescapeEnt_escapeWith pieceOk_html]

theorem readRaw_append (d : Nat) (x r : Bytes) (h : d ∉ x) : readRaw d (x ++ d :: r) = some (x, r) :=
  splitAt1_append d x r h

theorem decBytes_digits (n : Nat) : ∀ b ∈ decBytes n, 48 ≤ b ∧ b ≤ 57 := decFuel_digits _ _

theorem decBytes_no (d n : Nat) (hd : d < 48 ∨ 57 < d) : d ∉ decBytes n := fun h => by
  have := decBytes_digits n d h; omega

theorem readNat_dec (d n : Nat) (r : Bytes) (hd : d < 48 ∨ 57 < d) :
    readNat d (decBytes n ++ d :: r) = some (n, r) := by
  unfold readNat
  rw [splitAt1_append d _ _ (decBytes_no d n hd)]
  simp [decVal?_decBytes]

theorem readWord_mem (ws : List Bytes) (d : Nat) (w r : Bytes) (hw : w ∈ ws) (hd : d ∉ w) :
    readWord ws d (w ++ d :: r) = some (w, r) := by
  unfold readWord
  rw [splitAt1_append d _ _ hd]
  simp [hw]

/-! ## the printed floats are digits and at most one point -/

theorem genDigits_lt (f : Nat) (d : Dec) (acc : List Nat) (h : ∀ x ∈ acc, x < 10) :
    ∀ x ∈ (genDigits f d acc).1, x < 10 := by
  induction f generalizing d acc with
  | zero => simpa [genDigits] using h
  | succ f ih =>
    unfold genDigits
    have h' : ∀ x ∈ acc ++ [d.mant / d.scale % 10], x < 10 := by
      intro x hx
      rcases List.mem_append.mp hx with hx | hx
      · exact h x hx
      · simp at hx; omega
    simp only
    split
    · exact h'
    · exact ih _ _ h'

theorem roundUp_lt (ds ds' : List Nat) (h : ∀ x ∈ ds, x < 10) (hr : roundUp ds = some ds') :
    ∀ x ∈ ds', x < 10 := by
  induction ds generalizing ds' with
  | nil => simp [roundUp] at hr
  | cons d ds ih =>
    unfold roundUp at hr
    cases hds : roundUp ds with
    | some t =>
      simp [hds] at hr
      subst hr
      intro x hx
      rcases List.mem_cons.mp hx with hx | hx
      · subst hx; exact h _ (by simp)
      · exact ih t (fun y hy => h y (List.mem_cons_of_mem _ hy)) hds x hx
    | none =>
      simp [hds] at hr
      obtain ⟨_, hr⟩ := hr
      subst hr
      intro x hx
      rcases List.mem_cons.mp hx with hx | hx
      · subst hx; omega
      · simp at hx; omega

theorem shortest_lt (x : F64) : ∀ d ∈ (shortest x).1, d < 10 := by
  unfold shortest
  simp only
  generalize hg : genDigits 40 _ [] = g
  have hlt : ∀ y ∈ g.1, y < 10 := by rw [← hg]; exact genDigits_lt _ _ _ (by simp)
  split
  · cases hr : roundUp g.1 with
    | some t => simpa using roundUp_lt g.1 t hlt hr
    | none =>
      simp only [List.mem_cons, List.mem_map]
      intro d hd
      rcases hd with hd | ⟨_, _, hd⟩ <;> omega
  · exact hlt

theorem digitBytes_fig (ds : List Nat) (h : ∀ d ∈ ds, d < 10) : (digitBytes ds).all isFigByte = true := by
  simp only [digitBytes, List.all_map, List.all_eq_true]
  intro d hd
  have := h d hd
  simp [isFigByte]; omega

theorem replicate48_fig (n : Nat) : (List.replicate n 48).all isFigByte = true := by
  simp [isFigByte]

theorem layout_fig (ds : List Nat) (k : Int) (h : ∀ d ∈ ds, d < 10) :
    (layout ds k).all isFigByte = true ∧ layout ds k ≠ [] := by
  unfold layout
  split
  · refine ⟨?_, by simp⟩
    simp only [List.all_append, Bool.and_eq_true]
    exact ⟨⟨by decide, replicate48_fig _⟩, digitBytes_fig ds h⟩
  · split
    · refine ⟨?_, by simp⟩
      simp only [List.all_append, Bool.and_eq_true]
      exact ⟨⟨digitBytes_fig _ (fun d hd => h d (List.mem_of_mem_take hd)), by decide⟩,
        digitBytes_fig _ (fun d hd => h d (List.mem_of_mem_drop hd))⟩
    · rename_i h1 h2
      refine ⟨?_, ?_⟩
      · simp only [List.all_append, Bool.and_eq_true]
        exact ⟨digitBytes_fig ds h, replicate48_fig _⟩
      · cases ds with
        | nil =>
          have : 0 < k.toNat := by omega
          simp [digitBytes]; omega
        | cons d ds => simp [digitBytes]

theorem display_fig (x : F64) : (display x).all isFigByte = true ∧ display x ≠ [] := by
  unfold display
  split
  · exact ⟨by decide, by simp⟩
  · exact layout_fig _ _ (shortest_lt x)

theorem display_no (x : F64) (d : Nat) (hd : isFigByte d = false) : d ∉ display x := fun h => by
  have := (display_fig x).1
  rw [List.all_eq_true] at this
  simp [this d h] at hd

theorem readFig_display (d : Nat) (x : F64) (r : Bytes) (hd : isFigByte d = false) :
    readFig d (display x ++ d :: r) = some (display x, r) := by
  unfold readFig
  rw [splitAt1_append d _ _ (display_no x d hd)]
  have := display_fig x
  simp [this.1, this.2]

/-! ## the strict reader inverts the generators -/

theorem severity_mem (hi med : Nat) (r : F64) : severity hi med r ∈ sevWords := by
  unfold severity sevWords
  split
  · simp
  · split <;> simp

theorem severity_no (hi med : Nat) (r : F64) (d : Nat) (hd : d = 34 ∨ d = 32) : d ∉ severity hi med r := by
  unfold severity
  rcases hd with rfl | rfl <;> (split; · decide) <;> (split <;> decide)

/-- the figure a summary line shows -/
def figureOf (kindCap : Bytes) (hi med p covered total : Nat) : Figure :=
  ⟨kindCap, severity hi med (percent covered total), covered, total, rounded p (percent covered total)⟩

theorem readSummaryLine_summaryLine (kindCap : Bytes) (hi med p c t : Nat) (r : Bytes)
    (hk : kindCap ∈ [wLines, wFunctions, wBranches]) :
    readSummaryLine (summaryLine kindCap hi med p c t ++ r) = some (figureOf kindCap hi med p c t, r) := by
  have hk60 : 60 ∉ kindCap := by
    simp only [List.mem_cons, List.not_mem_nil, or_false] at hk
    rcases hk with rfl | rfl | rfl <;> decide
  unfold readSummaryLine summaryLine figureOf rounded
  simp only [List.append_assoc, List.cons_append, List.nil_append, expect_append, Option.bind_eq_bind,
    Option.bind_some, readWord_mem _ 60 _ _ hk hk60,
    readWord_mem _ 34 _ _ (severity_mem hi med _) (severity_no hi med _ 34 (by simp)),
    readNat_dec 32 _ _ (by omega), readNat_dec 34 _ _ (by omega),
    readFig_display 32 _ _ (by decide), Option.pure_def]

theorem startsWith_crumb (lk : Bytes × Bytes) (r : Bytes) : startsWith (crumb lk ++ r) cCrumb1 = true := by
  unfold crumb
  simp only [List.append_assoc]
  exact startsWith_self_append _ _

theorem startsWith_cur (r : Bytes) : startsWith (cCur1 ++ r) cCrumb1 = false := by
  simp [cCur1, cCrumb1, startsWith]

theorem readCrumbs_step (f : Nat) (lk : Bytes × Bytes) (t : Bytes) :
    readCrumbs (f + 1) (crumb lk ++ t) = (readCrumbs f t).bind fun x => some (lk :: x.1, x.2) := by
  conv => lhs; unfold readCrumbs
  rw [if_pos (startsWith_crumb lk _)]
  unfold crumb
  simp only [List.append_assoc, List.cons_append, List.nil_append, expect_append, Option.bind_eq_bind,
    Option.bind_some, readEsc_html34, readEsc_html60, Option.pure_def]

theorem readCrumbs_crumbs (f : Nat) (ps : List (Bytes × Bytes)) (r : Bytes) (hf : ps.length < f) :
    readCrumbs f (ps.flatMap crumb ++ (cCur1 ++ r)) = some (ps, cCur1 ++ r) := by
  induction ps generalizing f with
  | nil =>
    cases f with
    | zero => omega
    | succ f => simp [readCrumbs, startsWith_cur]
  | cons lk ps ih =>
    cases f with
    | zero => omega
    | succ f =>
      have hf' : ps.length < f := by simp at hf; omega
      rw [List.flatMap_cons, List.append_assoc, readCrumbs_step, ih f hf']
      rfl

theorem crumbs_length (ps : List (Bytes × Bytes)) : ps.length ≤ (ps.flatMap crumb).length := by
  induction ps with
  | nil => simp
  | cons lk ps ih =>
    simp only [List.flatMap_cons, List.length_append, List.length_cons]
    have : 1 ≤ (crumb lk).length := by
      unfold crumb cCrumb1; simp only [List.length_append, List.length_cons]; omega
    omega

/-- what a reader sees of `summary` -/
def summaryOf (pc : PageCtx) : Summary :=
  let c := pc.conf
  ⟨pc.parents, pc.current,
    [figureOf wLines c.hi c.med c.precision pc.stats.coveredLines pc.stats.totalLines,
     figureOf wFunctions c.fnHi c.fnMed c.precision pc.stats.coveredFuns pc.stats.totalFuns] ++
    (if c.branch then [figureOf wBranches c.brHi c.brMed c.precision pc.stats.coveredBranches pc.stats.totalBranches]
     else [])⟩

theorem startsWith_sum7 (r : Bytes) : startsWith (cSum7 ++ r) cSum5 = false := by
  simp [cSum7, cSum5, startsWith]

theorem readSummary_summary (pc : PageCtx) (r : Bytes) :
    readSummary (summary pc ++ r) = some (summaryOf pc, r) := by
  unfold readSummary summary curItem
  have hlen : ∀ t : Bytes, pc.parents.length < (pc.parents.flatMap crumb ++ (cCur1 ++ t)).length := by
    intro t
    have := crumbs_length pc.parents
    simp only [List.length_append]
    have : 1 ≤ cCur1.length := by decide
    omega
  simp only [List.append_assoc, List.cons_append, List.nil_append, expect_append, Option.bind_eq_bind,
    Option.bind_some, readCrumbs_crumbs _ _ _ (hlen _), readEsc_html60,
    readSummaryLine_summaryLine _ _ _ _ _ _ _ (show wLines ∈ [wLines, wFunctions, wBranches] by simp),
    readSummaryLine_summaryLine _ _ _ _ _ _ _ (show wFunctions ∈ [wLines, wFunctions, wBranches] by simp)]
  unfold branchSummary summaryOf
  cases hb : pc.conf.branch
  · simp only [if_false, Bool.false_eq_true, List.nil_append, startsWith_sum7, expect_append, Option.bind_eq_bind,
      Option.bind_some, Option.pure_def, List.append_nil]
    simp [hb]
  · simp only [if_true, List.append_assoc, startsWith_self_append, expect_append, Option.bind_eq_bind,
      Option.bind_some, Option.pure_def,
      readSummaryLine_summaryLine _ _ _ _ _ _ _ (show wBranches ∈ [wLines, wFunctions, wBranches] by simp)]
    simp [hb]

/-- what a reader sees of a row -/
def rowView (r : Docs.HtmlRow) : RowView :=
  ⟨r.no, if r.count < 0 then none else some r.count.toNat, r.text⟩

/-- a row written with the given words -/
theorem readRow_words (no : Nat) (hl hll aria cell text rest : Bytes)
    (h1 : hll ∈ [wSuccessLight, wWhite, wDangerLight]) (h2 : hl ∈ [wSuccess, wWhite, wDanger])
    (h3 : 32 ∉ hll) (h4 : 34 ∉ hl) (h5 : 34 ∉ aria) (h6 : 10 ∉ cell) :
    readRow ([60] ++ cRow1 ++ decBytes no ++ [34] ++ cRow2 ++ decBytes no ++ [34] ++ cRow3 ++ decBytes no ++ [60] ++
        cRow4 ++ hll ++ [32] ++ cRow5 ++ hl ++ [34] ++ cRow6 ++ aria ++ [34] ++ cRow7 ++ cell ++ [10] ++ cRow8 ++
        hll ++ [32] ++ cRow9 ++ hll ++ [32] ++ cRow10 ++ html text ++ [60] ++ cRow11 ++ rest) =
      if hl = wWhite then
        if hll = wWhite ∧ aria = wNoCoverage ∧ cell = [] then some (⟨no, none, text⟩, rest) else none
      else if hl = wDanger then
        if hll = wDangerLight ∧ aria = wZero ∧ cell = [] then some (⟨no, some 0, text⟩, rest) else none
      else
        match decVal? aria with
        | some c => if hll = wSuccessLight ∧ cell = aria ∧ 0 < c then some (⟨no, some c, text⟩, rest) else none
        | none => none := by
  unfold readRow
  simp only [List.append_assoc, List.cons_append, List.nil_append, expect_cons_append, expect_append,
    Option.bind_eq_bind, Option.bind_some, readNat_dec 34 _ _ (by omega), readNat_dec 60 _ _ (by omega),
    readWord_mem _ 32 _ _ h1 h3, readWord_mem _ 34 _ _ h2 h4, readRaw_append 34 _ _ h5, readRaw_append 10 _ _ h6,
    readWord_mem [hll] 32 hll _ (by simp) h3, readEsc_html60, ne_eq, not_true_eq_false, or_self, if_false]
  rfl

theorem readRow_fileRow (r : Docs.HtmlRow) (rest : Bytes) :
    readRow (fileRow r ++ rest) = some (rowView r, rest) := by
  unfold fileRow rowWords rowView
  by_cases hp : 0 < r.count
  · have hn : ¬ r.count < 0 := by omega
    have hc : 0 < r.count.toNat := by omega
    simp only [hp, hn, if_true, if_false]
    rw [readRow_words _ _ _ _ _ _ _ (by simp) (by simp) (by decide) (by decide)
      (decBytes_no 34 _ (by omega)) (decBytes_no 10 _ (by omega))]
    rw [if_neg (by decide), if_neg (by decide)]
    simp [decVal?_decBytes, hc]
  · by_cases hn : r.count < 0
    · simp only [hp, hn, if_true, if_false]
      rw [readRow_words _ _ _ _ _ _ _ (by simp) (by simp) (by decide) (by decide) (by decide) (by simp)]
      simp
    · simp only [hp, hn, if_false]
      have h0 : r.count.toNat = 0 := by omega
      rw [readRow_words _ _ _ _ _ _ _ (by simp) (by simp) (by decide) (by decide) (by decide) (by simp)]
      rw [if_neg (by decide)]
      simp [h0]

theorem startsWith_fileRow (r : Docs.HtmlRow) (t : Bytes) : startsWith (fileRow r ++ t) [60, 100] = true := by
  unfold fileRow
  have e : cRow1 = 100 :: cRow1.tail := by decide +kernel
  rw [e]
  simp [startsWith]

theorem readRows_step (f : Nat) (r : Docs.HtmlRow) (t : Bytes) :
    readRows (f + 1) (fileRow r ++ t) = (readRows f t).bind fun x => some (rowView r :: x.1, x.2) := by
  conv => lhs; unfold readRows
  rw [if_pos (startsWith_fileRow r t), readRow_fileRow]
  simp only [Option.bind_eq_bind, Option.bind_some, Option.pure_def]

theorem readRows_rows (f : Nat) (rows : List Docs.HtmlRow) (t : Bytes) (hf : rows.length < f)
    (ht : startsWith t [60, 100] = false) :
    readRows f (rows.flatMap fileRow ++ t) = some (rows.map rowView, t) := by
  induction rows generalizing f with
  | nil =>
    cases f with
    | zero => omega
    | succ f => simp [readRows, ht]
  | cons r rows ih =>
    cases f with
    | zero => omega
    | succ f =>
      have hf' : rows.length < f := by simp at hf; omega
      rw [List.flatMap_cons, List.append_assoc, readRows_step, ih f hf']
      rfl

theorem rows_length (rows : List Docs.HtmlRow) : rows.length ≤ (rows.flatMap fileRow).length := by
  induction rows with
  | nil => simp
  | cons r rows ih =>
    simp only [List.flatMap_cons, List.length_append, List.length_cons]
    have : 1 ≤ (fileRow r).length := by
      unfold fileRow; simp only [List.length_append, List.length_cons]; omega
    omega

theorem readTail_tail (d : Option Bytes) : readTail (cDoc4 ++ dateBlock d ++ cDoc5) = some d := by
  unfold readTail dateBlock
  cases d with
  | none =>
    have : startsWith (cDoc5) cDate1 = false := by decide
    simp [expect_append, this]
    have h5 := expect_append cDoc5 []
    simp only [List.append_nil] at h5
    simp [h5]
  | some d =>
    have h5 := expect_append cDoc5 []
    simp only [List.append_nil] at h5
    simp only [List.append_assoc, List.cons_append, List.nil_append, expect_append, Option.bind_eq_bind,
      Option.bind_some, startsWith_self_append, if_true, readEsc_html60, h5, Option.pure_def]

theorem bulma_no34 (b : Bool) (root : Option Nat) : 34 ∉ bulmaUrl b root := by
  unfold bulmaUrl
  split
  · intro h
    rcases List.mem_append.mp h with h | h
    · unfold trimSlashes at h
      have h' := List.mem_reverse.mp h
      have h'' := (List.dropWhile_sublist _).subset h'
      have h3 := List.mem_reverse.mp h''
      cases root with
      | none => simp [rootText] at h3
      | some k =>
        simp only [rootText, List.mem_flatten, List.mem_replicate] at h3
        obtain ⟨l, ⟨_, rfl⟩, hl⟩ := h3
        revert hl; decide
    · revert h; decide
  · decide

theorem unescapeEnt_html (s : Bytes) : unescapeEnt (html s) = some s := by
  simp [html, unescapeEnt_escapeWith pieceOk_html]

theorem readRaw_title (s r : Bytes) : readRaw 60 (html s ++ 32 :: 60 :: r) = some (html s ++ [32], r) := by
  have h60 : 60 ∉ html s ++ [32] := by
    intro h
    rcases List.mem_append.mp h with h | h
    · exact html_no 60 (by simp) _ h
    · simp at h
  have := readRaw_append 60 (html s ++ [32]) r h60
  simpa using this

theorem readHead_head (pc : PageCtx) (r : Bytes) :
    readHead (cDoc1 ++ html pc.current ++ [32, 60] ++ cDoc2 ++ bulmaUrl pc.conf.bundled pc.root ++ [34] ++ cDoc3 ++ r) =
      some ((pc.current, bulmaUrl pc.conf.bundled pc.root), r) := by
  unfold readHead
  simp only [List.append_assoc, List.cons_append, List.nil_append, expect_append, Option.bind_eq_bind,
    Option.bind_some, readRaw_title, readRaw_append 34 _ _ (bulma_no34 _ _), List.getLast?_append,
    List.getLast?_singleton, Option.or_some, List.dropLast_concat, if_true, unescapeEnt_html, Option.pure_def]
  simp

/-- what a reader sees of a file page -/
def fileViewOf (fc : FileCtx) : FileView :=
  ⟨fc.page.current, bulmaUrl fc.page.conf.bundled fc.page.root, summaryOf fc.page, fc.items.map rowView,
    fc.page.conf.date⟩

theorem startsWith_file2 (t : Bytes) : startsWith (60 :: (cFile2 ++ t)) [60, 100] = false := by
  have e : cFile2 = 47 :: cFile2.tail := by decide +kernel
  rw [e]
  simp [startsWith]

theorem parseFilePage_filePage (fc : FileCtx) : parseFilePage (filePage fc) = some (fileViewOf fc) := by
  unfold parseFilePage filePage document fileViewOf
  have hlen : ∀ t : Bytes, fc.items.length < (fc.items.flatMap fileRow ++ 60 :: t).length := by
    intro t
    have := rows_length fc.items
    simp only [List.length_append, List.length_cons]
    omega
  have hd := readHead_head fc.page
  simp only [List.append_assoc, List.cons_append, List.nil_append] at hd
  have ht := readTail_tail fc.page.conf.date
  simp only [List.append_assoc] at ht
  simp only [List.append_assoc, List.cons_append, List.nil_append, hd, Option.bind_eq_bind, Option.bind_some,
    readSummary_summary, expect_append, readRows_rows _ _ _ (hlen _) (startsWith_file2 _), expect_cons_append, ht,
    Option.pure_def]

/-- the cell group (severity word, printed percentage, covered, total) of one kind -/
def cellOf (hi med p c t : Nat) : Bytes × Bytes × Nat × Nat :=
  (severity hi med (percent c t), rounded p (percent c t), c, t)

/-- what a reader sees of a row of an index page -/
def idxViewOf (c : Conf) (url name : Bytes) (s : HStats) : IdxView :=
  ⟨url, name, display (percent s.coveredLines s.totalLines),
    [cellOf c.hi c.med c.precision s.coveredLines s.totalLines,
     cellOf c.fnHi c.fnMed c.precision s.coveredFuns s.totalFuns] ++
    (if c.branch then [cellOf c.brHi c.brMed c.precision s.coveredBranches s.totalBranches] else [])⟩

theorem readWord_sev_self (hi med : Nat) (x : F64) (r : Bytes) :
    readWord [severity hi med x] 32 (severity hi med x ++ 32 :: r) = some (severity hi med x, r) :=
  readWord_mem _ 32 _ _ (by simp) (severity_no _ _ _ 32 (by simp))

theorem readWord_disp_self (x : F64) (r : Bytes) :
    readWord [display x] 37 (display x ++ 37 :: r) = some (display x, r) :=
  readWord_mem _ 37 _ _ (by simp) (display_no _ 37 (by decide))

theorem readStatsLine_statsLine (c : Conf) (url name : Bytes) (s : HStats) (r : Bytes) :
    readStatsLine c.branch (statsLine c url name s ++ r) = some (idxViewOf c url name s, r) := by
  unfold readStatsLine statsLine idxViewOf cellOf rounded
  simp only [List.append_assoc, List.cons_append, List.nil_append, expect_append, Option.bind_eq_bind,
    Option.bind_some, readEsc_html34, readEsc_html60,
    readWord_mem _ 32 _ _ (severity_mem _ _ _) (severity_no _ _ _ 32 (by simp)),
    readWord_sev_self, readWord_disp_self,
    readFig_display 34 _ _ (by decide), readFig_display 37 _ _ (by decide),
    readNat_dec 32 _ _ (by omega), readNat_dec 10 _ _ (by omega)]
  unfold branchCells rounded
  cases hb : c.branch
  · simp only [if_false, Bool.false_eq_true, List.nil_append, expect_append, Option.bind_eq_bind, Option.bind_some,
      Option.pure_def]
  · simp only [if_true, List.append_assoc, List.cons_append, List.nil_append, expect_append, Option.bind_eq_bind,
      Option.bind_some, Option.pure_def,
      readWord_mem _ 32 _ _ (severity_mem _ _ _) (severity_no _ _ _ 32 (by simp)),
      readWord_sev_self,
      readFig_display 37 _ _ (by decide), readNat_dec 32 _ _ (by omega), readNat_dec 60 _ _ (by omega)]

theorem startsWith_statsLine (c : Conf) (url name : Bytes) (s : HStats) (t : Bytes) :
    startsWith (statsLine c url name s ++ t) [10] = true := by
  unfold statsLine
  have e : cIdxPre = 10 :: cIdxPre.tail := by decide +kernel
  rw [e]
  simp [startsWith]

/-- the rows of an index page -/
def idxRowsBytes (c : Conf) (listsDirs : Bool) (rows : List IdxRow) : Bytes :=
  rows.flatMap fun r => statsLine c (rowUrl listsDirs r) r.name r.stats

theorem readIdxRows_rows (c : Conf) (listsDirs : Bool) (f : Nat) (rows : List IdxRow) (t : Bytes)
    (hf : rows.length < f) (ht : startsWith t [10] = false) :
    readIdxRows c.branch f (idxRowsBytes c listsDirs rows ++ t) =
      some (rows.map (fun r => idxViewOf c (rowUrl listsDirs r) r.name r.stats), t) := by
  unfold idxRowsBytes
  induction rows generalizing f with
  | nil =>
    cases f with
    | zero => omega
    | succ f => simp [readIdxRows, ht]
  | cons r rows ih =>
    cases f with
    | zero => omega
    | succ f =>
      have hf' : rows.length < f := by simp at hf; omega
      rw [List.flatMap_cons, List.append_assoc]
      conv => lhs; unfold readIdxRows
      rw [if_pos (startsWith_statsLine _ _ _ _ _), readStatsLine_statsLine]
      simp only [Option.bind_eq_bind, Option.bind_some, ih f hf', Option.pure_def, List.map_cons]

theorem idxRows_length (c : Conf) (listsDirs : Bool) (rows : List IdxRow) :
    rows.length ≤ (idxRowsBytes c listsDirs rows).length := by
  unfold idxRowsBytes
  induction rows with
  | nil => simp
  | cons r rows ih =>
    simp only [List.flatMap_cons, List.length_append, List.length_cons]
    have : 1 ≤ (statsLine c (rowUrl listsDirs r) r.name r.stats).length := by
      unfold statsLine
      have e : cIdxPre = 10 :: cIdxPre.tail := by decide +kernel
      rw [e]; simp only [List.length_append, List.length_cons]; omega
    omega

/-- what a reader sees of an index page -/
def indexViewOf (ic : IndexCtx) : IndexView :=
  ⟨ic.page.current, bulmaUrl ic.page.conf.bundled ic.page.root, summaryOf ic.page, kindWord ic.listsDirs,
    ic.page.conf.branch, ic.rows.map (fun r => idxViewOf ic.page.conf (rowUrl ic.listsDirs r) r.name r.stats),
    ic.page.conf.date⟩

theorem startsWith_idx5 (t : Bytes) : startsWith (60 :: t) [10] = false := by simp [startsWith]

theorem startsWith_idx4 (t : Bytes) : startsWith (cIdx4 ++ t) cIdx3 = false := by
  have e : cIdx4 = 10 :: 32 :: 32 :: 32 :: 32 :: 32 :: 32 :: 32 :: 32 :: 32 :: 32 :: 32 :: 32 :: 60 :: 47 :: (cIdx4.drop 15) := by
    decide +kernel
  have e3 : cIdx3 = 10 :: 32 :: 32 :: 32 :: 32 :: 32 :: 32 :: 32 :: 32 :: 32 :: 32 :: 32 :: 32 :: 32 :: (cIdx3.drop 14) := by
    decide +kernel
  rw [e, e3]
  simp [startsWith]

theorem parseIndexPage_indexPage (ic : IndexCtx) : parseIndexPage (indexPage ic) = some (indexViewOf ic) := by
  unfold parseIndexPage indexPage document indexViewOf
  have hlen : ∀ t : Bytes, ic.rows.length < (idxRowsBytes ic.page.conf ic.listsDirs ic.rows ++ 60 :: t).length := by
    intro t
    have := idxRows_length ic.page.conf ic.listsDirs ic.rows
    simp only [List.length_append, List.length_cons]
    omega
  have hd := readHead_head ic.page
  simp only [List.append_assoc, List.cons_append, List.nil_append] at hd
  have ht := readTail_tail ic.page.conf.date
  simp only [List.append_assoc] at ht
  have hk : kindWord ic.listsDirs ∈ [wDirectory, wFile] := by unfold kindWord; split <;> simp
  have hk60 : 60 ∉ kindWord ic.listsDirs := by unfold kindWord; split <;> decide
  have hrows := fun t => readIdxRows_rows ic.page.conf ic.listsDirs _ ic.rows (60 :: t) (hlen t) (startsWith_idx5 t)
  unfold idxRowsBytes at hrows
  unfold branchHeader
  cases hb : ic.page.conf.branch
  · simp only [hb] at hrows
    simp only [List.append_assoc, List.cons_append, List.nil_append, hd, Option.bind_eq_bind, Option.bind_some,
      readSummary_summary, expect_append, readWord_mem _ 60 _ _ hk hk60, if_false, Bool.false_eq_true,
      startsWith_idx4, hrows, expect_cons_append, ht, Option.pure_def]
  · simp only [hb] at hrows
    simp only [List.append_assoc, List.cons_append, List.nil_append, hd, Option.bind_eq_bind, Option.bind_some,
      readSummary_summary, expect_append, readWord_mem _ 60 _ _ hk hk60, if_true,
      startsWith_self_append, hrows, expect_cons_append, ht, Option.pure_def]

/-! ## the skeleton -/

theorem skEnd_append (s : SkSt) (a b : Bytes) : skEnd s (a ++ b) = skEnd (skEnd s a) b := by
  induction a generalizing s with
  | nil => rfl
  | cons x a ih => simp [skEnd, ih]

theorem skel_append (s : SkSt) (a b : Bytes) : skel s (a ++ b) = skel s a ++ skel (skEnd s a) b := by
  induction a generalizing s with
  | nil => simp [skel, skEnd]
  | cons x a ih =>
    simp only [List.cons_append, skel, skEnd, ih]
    split <;> simp

theorem skEnd_text_of (x : Bytes) (h : 60 ∉ x) : skEnd .text x = .text := by
  induction x with
  | nil => rfl
  | cons b x ih =>
    have hb : b ≠ 60 := fun e => h (by simp [e])
    simp [skEnd, skStep, hb, ih (fun m => h (List.mem_cons_of_mem _ m))]

theorem skel_text_of (x : Bytes) (h : 60 ∉ x) : skel .text x = [] := by
  induction x with
  | nil => rfl
  | cons b x ih =>
    have hb : b ≠ 60 := fun e => h (by simp [e])
    simp [skel, skStep, hb, ih (fun m => h (List.mem_cons_of_mem _ m))]

theorem skEnd_val_of (x : Bytes) (h : 34 ∉ x) : skEnd .val x = .val := by
  induction x with
  | nil => rfl
  | cons b x ih =>
    have hb : b ≠ 34 := fun e => h (by simp [e])
    simp [skEnd, skStep, hb, ih (fun m => h (List.mem_cons_of_mem _ m))]

theorem skel_val_of (x : Bytes) (h : 34 ∉ x) : skel .val x = [] := by
  induction x with
  | nil => rfl
  | cons b x ih =>
    have hb : b ≠ 34 := fun e => h (by simp [e])
    simp [skel, skStep, hb, ih (fun m => h (List.mem_cons_of_mem _ m))]

@[simp] theorem skEnd_text_html (s : Bytes) : skEnd .text (html s) = .text := skEnd_text_of _ (html_no 60 (by simp) s)
@[simp] theorem skel_text_html (s : Bytes) : skel .text (html s) = [] := skel_text_of _ (html_no 60 (by simp) s)
@[simp] theorem skEnd_val_html (s : Bytes) : skEnd .val (html s) = .val := skEnd_val_of _ (html_no 34 (by simp) s)
@[simp] theorem skel_val_html (s : Bytes) : skel .val (html s) = [] := skel_val_of _ (html_no 34 (by simp) s)
@[simp] theorem skEnd_text_dec (n : Nat) : skEnd .text (decBytes n) = .text := skEnd_text_of _ (decBytes_no 60 n (by omega))
@[simp] theorem skel_text_dec (n : Nat) : skel .text (decBytes n) = [] := skel_text_of _ (decBytes_no 60 n (by omega))
@[simp] theorem skEnd_val_dec (n : Nat) : skEnd .val (decBytes n) = .val := skEnd_val_of _ (decBytes_no 34 n (by omega))
@[simp] theorem skel_val_dec (n : Nat) : skel .val (decBytes n) = [] := skel_val_of _ (decBytes_no 34 n (by omega))
@[simp] theorem skEnd_text_disp (x : F64) : skEnd .text (display x) = .text := skEnd_text_of _ (display_no x 60 (by decide))
@[simp] theorem skel_text_disp (x : F64) : skel .text (display x) = [] := skel_text_of _ (display_no x 60 (by decide))
@[simp] theorem skEnd_val_disp (x : F64) : skEnd .val (display x) = .val := skEnd_val_of _ (display_no x 34 (by decide))
@[simp] theorem skel_val_disp (x : F64) : skel .val (display x) = [] := skel_val_of _ (display_no x 34 (by decide))
@[simp] theorem skEnd_val_sev (hi med : Nat) (x : F64) : skEnd .val (severity hi med x) = .val :=
  skEnd_val_of _ (severity_no hi med x 34 (by simp))
@[simp] theorem skel_val_sev (hi med : Nat) (x : F64) : skel .val (severity hi med x) = [] :=
  skel_val_of _ (severity_no hi med x 34 (by simp))

@[simp] theorem skEnd_text_lt (r : Bytes) : skEnd .text (60 :: r) = skEnd .tag r := rfl
@[simp] theorem skel_text_lt (r : Bytes) : skel .text (60 :: r) = 60 :: skel .tag r := rfl
@[simp] theorem skEnd_val_quote (r : Bytes) : skEnd .val (34 :: r) = skEnd .tag r := rfl
@[simp] theorem skel_val_quote (r : Bytes) : skel .val (34 :: r) = 34 :: skel .tag r := rfl
@[simp] theorem skEnd_val_blank (r : Bytes) : skEnd .val (32 :: r) = skEnd .val r := rfl
@[simp] theorem skel_val_blank (r : Bytes) : skel .val (32 :: r) = skel .val r := rfl
@[simp] theorem skEnd_text_blank (r : Bytes) : skEnd .text (32 :: r) = skEnd .text r := rfl
@[simp] theorem skel_text_blank (r : Bytes) : skel .text (32 :: r) = skel .text r := rfl
@[simp] theorem skEnd_text_lf (r : Bytes) : skEnd .text (10 :: r) = skEnd .text r := rfl
@[simp] theorem skel_text_lf (r : Bytes) : skel .text (10 :: r) = skel .text r := rfl
@[simp] theorem skEnd_text_pct (r : Bytes) : skEnd .text (37 :: r) = skEnd .text r := rfl
@[simp] theorem skel_text_pct (r : Bytes) : skel .text (37 :: r) = skel .text r := rfl

theorem skEnd_cons (s : SkSt) (b : Nat) (r : Bytes) : skEnd s (b :: r) = skEnd (skStep s b).1 r := rfl
@[simp] theorem skEnd_nil (s : SkSt) : skEnd s [] = s := rfl
@[simp] theorem skel_nil (s : SkSt) : skel s [] = [] := rfl
theorem skel_cons (s : SkSt) (b : Nat) (r : Bytes) :
    skel s (b :: r) = if (skStep s b).2 then b :: skel (skStep s b).1 r else skel (skStep s b).1 r := rfl

/-- the skeleton of a summary line -/
def slSkel : Bytes := skel .text (summaryLine [] 0 0 0 0 0)

theorem skel_summaryLine (k : Bytes) (hk : 60 ∉ k) (hi med p c t : Nat) :
    skEnd .text (summaryLine k hi med p c t) = .text ∧ skel .text (summaryLine k hi med p c t) = slSkel := by
  unfold slSkel summaryLine rounded
  simp only [skEnd_append, skel_append, skEnd_text_of k hk, skel_text_of k hk, skEnd_text_lt, skel_text_lt,
    skEnd_val_quote, skel_val_quote, skEnd_val_blank, skel_val_blank, skEnd_text_blank, skel_text_blank,
    skEnd_text_cSl1, skel_text_cSl1, skEnd_tag_cSl2, skel_tag_cSl2, skEnd_tag_cSl3, skel_tag_cSl3,
    skEnd_val_cSlash, skel_val_cSlash, skEnd_tag_cSl4, skel_tag_cSl4, skEnd_text_cSl5, skel_text_cSl5,
    skEnd_val_sev, skel_val_sev, skEnd_val_dec, skel_val_dec, skEnd_text_disp, skel_text_disp, skEnd_nil, skel_nil]
  simp

theorem skel_flatMap {α : Type} (f : α → Bytes) (K : Bytes) (l : List α)
    (h : ∀ a, skEnd .text (f a) = .text ∧ skel .text (f a) = K) :
    skEnd .text (l.flatMap f) = .text ∧ skel .text (l.flatMap f) = (List.replicate l.length K).flatten := by
  induction l with
  | nil => simp
  | cons a l ih =>
    simp only [List.flatMap_cons, skEnd_append, skel_append, (h a).1, (h a).2, ih.1, ih.2, List.length_cons,
      List.replicate_succ, List.flatten_cons, and_self]

def crumbSkel : Bytes := skel .text (crumb ([], []))
def curSkel : Bytes := skel .text (curItem [])

theorem skel_crumb (lk : Bytes × Bytes) : skEnd .text (crumb lk) = .text ∧ skel .text (crumb lk) = crumbSkel := by
  unfold crumbSkel crumb
  simp [skEnd_append, skel_append]

theorem skel_curItem (c : Bytes) : skEnd .text (curItem c) = .text ∧ skel .text (curItem c) = curSkel := by
  unfold curSkel curItem
  simp [skEnd_append, skel_append]

def branchSumSkel (branch : Bool) : Bytes := if branch then skel .text cSum5 ++ slSkel ++ skel .text cSum6 else []

theorem skel_branchSummary (c : Conf) (s : HStats) :
    skEnd .text (branchSummary c s) = .text ∧ skel .text (branchSummary c s) = branchSumSkel c.branch := by
  unfold branchSummary branchSumSkel
  cases c.branch
  · simp
  · have h := skel_summaryLine wBranches (by decide) c.brHi c.brMed c.precision s.coveredBranches s.totalBranches
    simp [skEnd_append, skel_append, h.1, h.2]

/-- the skeleton of `summary`: a function of the branch flag and the number of breadcrumb parents -/
def summarySkel (branch : Bool) (nParents : Nat) : Bytes :=
  skel .text cSum1 ++ (List.replicate nParents crumbSkel).flatten ++ curSkel ++ skel .text cSum2 ++ slSkel ++
    skel .text cSum3 ++ slSkel ++ skel .text cSum3 ++ branchSumSkel branch ++ skel .text cSum7

theorem skel_summary (pc : PageCtx) :
    skEnd .text (summary pc) = .text ∧ skel .text (summary pc) = summarySkel pc.conf.branch pc.parents.length := by
  unfold summary summarySkel
  have hc := skel_flatMap crumb _ pc.parents skel_crumb
  have hl := skel_summaryLine wLines (by decide) pc.conf.hi pc.conf.med pc.conf.precision pc.stats.coveredLines pc.stats.totalLines
  have hf := skel_summaryLine wFunctions (by decide) pc.conf.fnHi pc.conf.fnMed pc.conf.precision pc.stats.coveredFuns pc.stats.totalFuns
  have hb := skel_branchSummary pc.conf pc.stats
  have hcur := skel_curItem pc.current
  simp only [skEnd_append, skel_append, hc.1, hc.2, hl.1, hl.2, hf.1, hf.2, hb.1, hb.2, hcur.1, hcur.2,
    skEnd_text_cSum1, skEnd_text_cSum2, skEnd_text_cSum3, skEnd_text_cSum7, and_self, List.append_assoc]

def rowSkel : Bytes := skel .text (fileRow ⟨0, -1, []⟩)

theorem skel_words_val (c : Int) :
    34 ∉ (rowWords c).1 ∧ 34 ∉ (rowWords c).2.1 ∧ 34 ∉ (rowWords c).2.2.2 ∧ 60 ∉ (rowWords c).2.2.1 := by
  unfold rowWords
  split
  · exact ⟨by show 34 ∉ wSuccess; decide, by show 34 ∉ wSuccessLight; decide, decBytes_no 34 _ (by omega),
      decBytes_no 60 _ (by omega)⟩
  · split
    · exact ⟨by show 34 ∉ wWhite; decide, by show 34 ∉ wWhite; decide, by show 34 ∉ wNoCoverage; decide, by simp⟩
    · exact ⟨by show 34 ∉ wDanger; decide, by show 34 ∉ wDangerLight; decide, by show 34 ∉ wZero; decide, by simp⟩

set_option maxRecDepth 8000 in
theorem skel_fileRow (r : Docs.HtmlRow) : skEnd .text (fileRow r) = .text ∧ skel .text (fileRow r) = rowSkel := by
  have key : ∀ (no : Nat) (w : Bytes × Bytes × Bytes × Bytes) (text : Bytes),
      34 ∉ w.1 → 34 ∉ w.2.1 → 34 ∉ w.2.2.2 → 60 ∉ w.2.2.1 →
      skEnd .text ([60] ++ cRow1 ++ decBytes no ++ [34] ++ cRow2 ++ decBytes no ++ [34] ++ cRow3 ++ decBytes no ++ [60] ++
        cRow4 ++ w.2.1 ++ [32] ++ cRow5 ++ w.1 ++ [34] ++ cRow6 ++ w.2.2.2 ++ [34] ++ cRow7 ++ w.2.2.1 ++ [10] ++ cRow8 ++
        w.2.1 ++ [32] ++ cRow9 ++ w.2.1 ++ [32] ++ cRow10 ++ html text ++ [60] ++ cRow11) = .text ∧
      skel .text ([60] ++ cRow1 ++ decBytes no ++ [34] ++ cRow2 ++ decBytes no ++ [34] ++ cRow3 ++ decBytes no ++ [60] ++
        cRow4 ++ w.2.1 ++ [32] ++ cRow5 ++ w.1 ++ [34] ++ cRow6 ++ w.2.2.2 ++ [34] ++ cRow7 ++ w.2.2.1 ++ [10] ++ cRow8 ++
        w.2.1 ++ [32] ++ cRow9 ++ w.2.1 ++ [32] ++ cRow10 ++ html text ++ [60] ++ cRow11) =
      [60] ++ skel .tag cRow1 ++ [34] ++ skel .tag cRow2 ++ [34] ++ skel .tag cRow3 ++ [60] ++ skel .tag cRow4 ++
        skel .val cRow5 ++ [34] ++ skel .tag cRow6 ++ [34] ++ skel .tag cRow7 ++ skel .text cRow8 ++ skel .val cRow9 ++
        skel .val cRow10 ++ [60] ++ skel .tag cRow11 := by
    intro no w text h1 h2 h3 h4
    simp only [skEnd_append, skel_append, skEnd_nil, skel_nil, skEnd_text_lt, skel_text_lt,
      skEnd_val_quote, skel_val_quote, skEnd_val_blank, skel_val_blank, skEnd_text_lf, skel_text_lf,
      skEnd_val_of _ h1, skel_val_of _ h1, skEnd_val_of _ h2,
      skel_val_of _ h2, skEnd_val_of _ h3, skel_val_of _ h3, skEnd_text_of _ h4, skel_text_of _ h4,
      skEnd_tag_cRow1, skEnd_tag_cRow2, skEnd_tag_cRow3, skEnd_tag_cRow4, skEnd_val_cRow5, skEnd_tag_cRow6,
      skEnd_tag_cRow7, skEnd_text_cRow8, skEnd_val_cRow9, skEnd_val_cRow10, skEnd_tag_cRow11,
      skEnd_val_dec, skel_val_dec, skEnd_text_dec, skel_text_dec, skEnd_text_html, skel_text_html]
    simp
  have hw := skel_words_val r.count
  have hw0 := skel_words_val (-1)
  have k1 := key r.no (rowWords r.count) r.text hw.1 hw.2.1 hw.2.2.1 hw.2.2.2
  have k0 := key 0 (rowWords (-1)) [] hw0.1 hw0.2.1 hw0.2.2.1 hw0.2.2.2
  unfold rowSkel fileRow
  exact ⟨k1.1, k1.2.trans k0.2.symm⟩

theorem skel_bulma (b : Bool) (root : Option Nat) : skEnd .val (bulmaUrl b root) = .val ∧ skel .val (bulmaUrl b root) = [] :=
  ⟨skEnd_val_of _ (bulma_no34 b root), skel_val_of _ (bulma_no34 b root)⟩

def dateSkel (hasDate : Bool) : Bytes := if hasDate then skel .text cDate1 ++ [60] ++ skel .tag cDate2 else []

theorem skel_dateBlock (d : Option Bytes) :
    skEnd .text (dateBlock d) = .text ∧ skel .text (dateBlock d) = dateSkel d.isSome := by
  cases d with
  | none => simp [dateBlock, dateSkel]
  | some d => simp [dateBlock, dateSkel, skEnd_append, skel_append]

/-- the skeleton of base.html around a content block with skeleton `K` -/
def docSkel (hasDate : Bool) (K : Bytes) : Bytes :=
  skel .text cDoc1 ++ [60] ++ skel .tag cDoc2 ++ [34] ++ skel .tag cDoc3 ++ K ++ skel .text cDoc4 ++ dateSkel hasDate ++
    skel .text cDoc5

theorem skel_document (pc : PageCtx) (content K : Bytes)
    (h : skEnd .text content = .text ∧ skel .text content = K) :
    skel .text (document pc content) = docSkel pc.conf.date.isSome K := by
  unfold document docSkel
  have hb := skel_bulma pc.conf.bundled pc.root
  have hd := skel_dateBlock pc.conf.date
  simp only [skEnd_append, skel_append, skEnd_nil, skel_nil, skEnd_text_lt, skel_text_lt, skEnd_val_quote,
    skel_val_quote, skEnd_text_blank, skel_text_blank, skEnd_text_html, skel_text_html, hb.1, hb.2, hd.1, hd.2, h.1, h.2,
    skEnd_text_cDoc1, skEnd_tag_cDoc2, skEnd_tag_cDoc3, skEnd_text_cDoc4, skEnd_text_cDoc5]
  simp

/-- the skeleton of a file page: a function of the branch flag, the presence of the date, the
number of breadcrumb parents and the number of rows -/
def fileSkel (branch hasDate : Bool) (nParents nRows : Nat) : Bytes :=
  docSkel hasDate (summarySkel branch nParents ++ skel .text cFile1 ++ (List.replicate nRows rowSkel).flatten ++
    [60] ++ skel .tag cFile2)

theorem skeleton_filePage (fc : FileCtx) :
    skeleton (filePage fc) =
      fileSkel fc.page.conf.branch fc.page.conf.date.isSome fc.page.parents.length fc.items.length := by
  unfold skeleton filePage fileSkel
  apply skel_document
  have hs := skel_summary fc.page
  have hr := skel_flatMap fileRow _ fc.items skel_fileRow
  simp only [skEnd_append, skel_append, hs.1, hs.2, hr.1, hr.2, skEnd_text_cFile1, skEnd_text_lt, skel_text_lt,
    skEnd_tag_cFile2, skEnd_nil, skel_nil, List.append_assoc, List.cons_append, List.nil_append, and_self]

def branchCellsSkel (branch : Bool) : Bytes :=
  if branch then skel .text cSt12 ++ skel .val cSt9 ++ skel .text cSt13 ++ skel .val cSt9 ++ [60] ++ skel .tag cSt14 else []

theorem skel_branchCells (c : Conf) (s : HStats) :
    skEnd .text (branchCells c s) = .text ∧ skel .text (branchCells c s) = branchCellsSkel c.branch := by
  unfold branchCells branchCellsSkel rounded
  cases c.branch
  · simp
  · simp only [if_true, skEnd_append, skel_append, skEnd_nil, skel_nil, skEnd_text_lt, skel_text_lt,
      skEnd_val_blank, skel_val_blank, skEnd_text_pct, skel_text_pct, skEnd_val_sev, skel_val_sev,
      skEnd_text_disp, skel_text_disp, skEnd_text_dec, skel_text_dec, skEnd_text_blank, skel_text_blank,
      skEnd_text_cSt12, skEnd_val_cSt9, skEnd_text_cSt13, skEnd_tag_cSt14, skEnd_text_cSlash, skel_text_cSlash]
    simp

/-- the skeleton of one row of an index page -/
def statsSkel (branch : Bool) : Bytes :=
  skel .text cIdxPre ++ [34] ++ skel .tag cSt1 ++ [60] ++ skel .tag cSt2 ++ skel .val cSt3 ++ [34] ++ skel .tag cSt4 ++
    skel .text cSt5 ++ skel .val cSt6 ++ skel .text cSt7 ++ skel .val cSt6 ++ skel .text cSt8 ++ skel .val cSt9 ++
    skel .text cSt10 ++ skel .val cSt9 ++ skel .text cSt11 ++ branchCellsSkel branch ++ skel .text cSt15

set_option maxRecDepth 8000 in
theorem skel_statsLine (c : Conf) (url name : Bytes) (s : HStats) :
    skEnd .text (statsLine c url name s) = .text ∧ skel .text (statsLine c url name s) = statsSkel c.branch := by
  unfold statsLine statsSkel rounded
  have hb := skel_branchCells c s
  simp only [skEnd_append, skel_append, skEnd_nil, skel_nil, skEnd_text_lt, skel_text_lt, skEnd_val_quote,
    skel_val_quote, skEnd_val_blank, skel_val_blank, skEnd_text_pct, skel_text_pct, skEnd_text_lf, skel_text_lf,
    skEnd_text_blank, skel_text_blank, skEnd_val_sev, skel_val_sev, skEnd_text_disp, skel_text_disp,
    skEnd_val_disp, skel_val_disp, skEnd_text_dec, skel_text_dec, skEnd_val_html, skel_val_html, skEnd_text_html,
    skel_text_html, hb.1, hb.2,
    skEnd_text_cIdxPre, skEnd_tag_cSt1, skEnd_tag_cSt2, skEnd_val_cSt3, skEnd_tag_cSt4, skEnd_text_cSt5, skEnd_val_cSt6,
    skEnd_text_cSt7, skEnd_text_cSt8, skEnd_val_cSt9, skEnd_text_cSt10, skEnd_text_cSt11, skEnd_text_cSt15,
    skEnd_text_cSlash, skel_text_cSlash]
  simp

def branchHeaderSkel (branch : Bool) : Bytes := if branch then skel .text cIdx3 else []

theorem skel_branchHeader (c : Conf) :
    skEnd .text (branchHeader c) = .text ∧ skel .text (branchHeader c) = branchHeaderSkel c.branch := by
  unfold branchHeader branchHeaderSkel
  cases c.branch <;> simp

/-- the skeleton of an index page: a function of the branch flag, the presence of the date, the
number of breadcrumb parents and the number of rows -/
def indexSkel (branch hasDate : Bool) (nParents nRows : Nat) : Bytes :=
  docSkel hasDate (summarySkel branch nParents ++ skel .text cIdx1 ++ [60] ++ skel .tag cIdx2 ++ branchHeaderSkel branch ++
    skel .text cIdx4 ++ (List.replicate nRows (statsSkel branch)).flatten ++ [60] ++ skel .tag cIdx5)

theorem skeleton_indexPage (ic : IndexCtx) :
    skeleton (indexPage ic) =
      indexSkel ic.page.conf.branch ic.page.conf.date.isSome ic.page.parents.length ic.rows.length := by
  unfold skeleton indexPage indexSkel
  apply skel_document
  have hs := skel_summary ic.page
  have hr := skel_flatMap (fun r => statsLine ic.page.conf (rowUrl ic.listsDirs r) r.name r.stats) _ ic.rows
    (fun r => skel_statsLine ic.page.conf (rowUrl ic.listsDirs r) r.name r.stats)
  have hh := skel_branchHeader ic.page.conf
  have hk : 60 ∉ kindWord ic.listsDirs := by unfold kindWord; split <;> decide
  simp only [skEnd_append, skel_append, hs.1, hs.2, hr.1, hr.2, hh.1, hh.2, skEnd_text_of _ hk, skel_text_of _ hk,
    skEnd_text_cIdx1, skEnd_text_lt, skel_text_lt, skEnd_tag_cIdx2, skEnd_text_cIdx4,
    skEnd_tag_cIdx5, skEnd_nil, skel_nil, List.append_assoc, List.cons_append, List.nil_append, List.append_nil, and_self]

/-! ## the markup characters `<` `>` `"` `'` of a page -/

theorem metaOf_nil_of (x : Bytes) (h : ∀ b ∈ x, isMetaByte b = false) : metaOf x = [] := by
  simp only [metaOf, List.filter_eq_nil_iff]
  intro b hb
  simp [h b hb]

@[simp] theorem metaOf_dec (n : Nat) : metaOf (decBytes n) = [] :=
  metaOf_nil_of _ fun b hb => by
    have := decBytes_digits n b hb
    simp [isMetaByte]; omega

@[simp] theorem metaOf_display (x : F64) : metaOf (display x) = [] :=
  metaOf_nil_of _ fun b hb => by
    have h := (display_fig x).1
    rw [List.all_eq_true] at h
    have := h b hb
    simp [isFigByte] at this
    simp [isMetaByte]; omega

@[simp] theorem metaOf_severity (hi med : Nat) (x : F64) : metaOf (severity hi med x) = [] := by
  unfold severity; split
  · decide
  · split <;> decide

@[simp] theorem metaOf_html' (s : Bytes) : metaOf (html s) = [] := metaOf_html s

@[simp] theorem metaOf_bulma (b : Bool) (root : Option Nat) : metaOf (bulmaUrl b root) = [] := by
  unfold bulmaUrl
  split
  · rw [metaOf_append]
    have h1 : metaOf (trimSlashes (rootText root)) = [] := by
      apply metaOf_nil_of
      intro x hx
      unfold trimSlashes at hx
      have h' := List.mem_reverse.mp hx
      have h'' := (List.dropWhile_sublist _).subset h'
      have h3 := List.mem_reverse.mp h''
      cases root with
      | none => simp [rootText] at h3; subst h3; decide
      | some k =>
        simp only [rootText, List.mem_flatten, List.mem_replicate] at h3
        obtain ⟨l, ⟨_, rfl⟩, hl⟩ := h3
        have : ∀ y ∈ cUp, isMetaByte y = false := by decide
        exact this x hl
    rw [h1]; decide
  · decide

theorem metaOf_flatMap {α : Type} (f : α → Bytes) (K : Bytes) (l : List α) (h : ∀ a, metaOf (f a) = K) :
    metaOf (l.flatMap f) = (List.replicate l.length K).flatten := by
  induction l with
  | nil => simp [metaOf]
  | cons a l ih => simp only [List.flatMap_cons, metaOf_append, h a, ih, List.length_cons, List.replicate_succ, List.flatten_cons]

def slMeta : Bytes := metaOf (summaryLine [] 0 0 0 0 0)

theorem metaOf_summaryLine (k : Bytes) (hk : metaOf k = []) (hi med p c t : Nat) :
    metaOf (summaryLine k hi med p c t) = slMeta := by
  unfold slMeta summaryLine rounded
  simp [metaOf_append, metaOf_cons, isMetaByte, hk]

def crumbMeta : Bytes := metaOf (crumb ([], []))
def curMeta : Bytes := metaOf (curItem [])

theorem metaOf_crumb (lk : Bytes × Bytes) : metaOf (crumb lk) = crumbMeta := by
  unfold crumbMeta crumb
  simp [metaOf_append, metaOf_cons, isMetaByte]

theorem metaOf_curItem (c : Bytes) : metaOf (curItem c) = curMeta := by
  unfold curMeta curItem
  simp [metaOf_append, metaOf_cons, isMetaByte]

def branchSumMeta (branch : Bool) : Bytes := if branch then metaOf cSum5 ++ slMeta ++ metaOf cSum6 else []

theorem metaOf_branchSummary (c : Conf) (s : HStats) : metaOf (branchSummary c s) = branchSumMeta c.branch := by
  unfold branchSummary branchSumMeta
  cases c.branch
  · simp [metaOf]
  · simp only [if_true, metaOf_append, metaOf_summaryLine wBranches (by decide)]

/-- the markup characters of `summary` -/
def summaryMeta (branch : Bool) (nParents : Nat) : Bytes :=
  metaOf cSum1 ++ (List.replicate nParents crumbMeta).flatten ++ curMeta ++ metaOf cSum2 ++ slMeta ++ metaOf cSum3 ++
    slMeta ++ metaOf cSum3 ++ branchSumMeta branch ++ metaOf cSum7

theorem metaOf_summary (pc : PageCtx) : metaOf (summary pc) = summaryMeta pc.conf.branch pc.parents.length := by
  unfold summary summaryMeta
  simp only [metaOf_append, metaOf_flatMap crumb _ pc.parents metaOf_crumb, metaOf_curItem,
    metaOf_summaryLine wLines (by decide), metaOf_summaryLine wFunctions (by decide), metaOf_branchSummary,
    List.append_assoc]

def rowMeta : Bytes := metaOf (fileRow ⟨0, -1, []⟩)

theorem metaOf_rowWords (c : Int) :
    metaOf (rowWords c).1 = [] ∧ metaOf (rowWords c).2.1 = [] ∧ metaOf (rowWords c).2.2.1 = [] ∧
      metaOf (rowWords c).2.2.2 = [] := by
  unfold rowWords
  split
  · exact ⟨by show metaOf wSuccess = []; decide, by show metaOf wSuccessLight = []; decide, metaOf_dec _, metaOf_dec _⟩
  · split
    · exact ⟨by show metaOf wWhite = []; decide, by show metaOf wWhite = []; decide, rfl,
        by show metaOf wNoCoverage = []; decide⟩
    · exact ⟨by show metaOf wDanger = []; decide, by show metaOf wDangerLight = []; decide, rfl,
        by show metaOf wZero = []; decide⟩

set_option maxRecDepth 8000 in
theorem metaOf_fileRow (r : Docs.HtmlRow) : metaOf (fileRow r) = rowMeta := by
  have key : ∀ (no : Nat) (w : Bytes × Bytes × Bytes × Bytes) (text : Bytes),
      metaOf w.1 = [] → metaOf w.2.1 = [] → metaOf w.2.2.1 = [] → metaOf w.2.2.2 = [] →
      metaOf ([60] ++ cRow1 ++ decBytes no ++ [34] ++ cRow2 ++ decBytes no ++ [34] ++ cRow3 ++ decBytes no ++ [60] ++
        cRow4 ++ w.2.1 ++ [32] ++ cRow5 ++ w.1 ++ [34] ++ cRow6 ++ w.2.2.2 ++ [34] ++ cRow7 ++ w.2.2.1 ++ [10] ++ cRow8 ++
        w.2.1 ++ [32] ++ cRow9 ++ w.2.1 ++ [32] ++ cRow10 ++ html text ++ [60] ++ cRow11) =
      [60] ++ metaOf cRow1 ++ [34] ++ metaOf cRow2 ++ [34] ++ metaOf cRow3 ++ [60] ++ metaOf cRow4 ++ metaOf cRow5 ++
        [34] ++ metaOf cRow6 ++ [34] ++ metaOf cRow7 ++ metaOf cRow8 ++ metaOf cRow9 ++ metaOf cRow10 ++ [60] ++
        metaOf cRow11 := by
    intro no w text h1 h2 h3 h4
    simp [metaOf_append, metaOf_cons, isMetaByte, h1, h2, h3, h4, -metaOf_cRow1, -metaOf_cRow2, -metaOf_cRow3,
      -metaOf_cRow4, -metaOf_cRow5, -metaOf_cRow6, -metaOf_cRow7, -metaOf_cRow8, -metaOf_cRow9, -metaOf_cRow10,
      -metaOf_cRow11]
  have hw := metaOf_rowWords r.count
  have hw0 := metaOf_rowWords (-1)
  have k1 := key r.no (rowWords r.count) r.text hw.1 hw.2.1 hw.2.2.1 hw.2.2.2
  have k0 := key 0 (rowWords (-1)) [] hw0.1 hw0.2.1 hw0.2.2.1 hw0.2.2.2
  unfold rowMeta fileRow
  exact k1.trans k0.symm

def dateMeta (hasDate : Bool) : Bytes := if hasDate then metaOf cDate1 ++ [60] ++ metaOf cDate2 else []

theorem metaOf_dateBlock (d : Option Bytes) : metaOf (dateBlock d) = dateMeta d.isSome := by
  cases d with
  | none => simp [dateBlock, dateMeta, metaOf]
  | some d => simp [dateBlock, dateMeta, metaOf_append, metaOf_cons, isMetaByte]

/-- the markup characters of base.html around a content block with markup characters `K` -/
def docMeta (hasDate : Bool) (K : Bytes) : Bytes :=
  metaOf cDoc1 ++ [60] ++ metaOf cDoc2 ++ [34] ++ metaOf cDoc3 ++ K ++ metaOf cDoc4 ++ dateMeta hasDate ++ metaOf cDoc5

theorem metaOf_document (pc : PageCtx) (content K : Bytes) (h : metaOf content = K) :
    metaOf (document pc content) = docMeta pc.conf.date.isSome K := by
  unfold document docMeta
  simp [metaOf_append, metaOf_cons, isMetaByte, h, metaOf_dateBlock, -metaOf_cDoc1, -metaOf_cDoc2, -metaOf_cDoc3,
    -metaOf_cDoc4, -metaOf_cDoc5]

/-- the markup characters of a file page: a function of the branch flag, the presence of the date,
the number of breadcrumb parents and the number of rows -/
def fileMeta (branch hasDate : Bool) (nParents nRows : Nat) : Bytes :=
  docMeta hasDate (summaryMeta branch nParents ++ metaOf cFile1 ++ (List.replicate nRows rowMeta).flatten ++ [60] ++
    metaOf cFile2)

theorem metaOf_filePage (fc : FileCtx) :
    metaOf (filePage fc) =
      fileMeta fc.page.conf.branch fc.page.conf.date.isSome fc.page.parents.length fc.items.length := by
  unfold filePage fileMeta
  apply metaOf_document
  simp only [metaOf_append, metaOf_summary, metaOf_flatMap fileRow _ fc.items metaOf_fileRow, metaOf_cons, isMetaByte,
    List.append_assoc]
  simp

def branchCellsMeta (branch : Bool) : Bytes :=
  if branch then metaOf cSt12 ++ metaOf cSt9 ++ metaOf cSt13 ++ metaOf cSt9 ++ [60] ++ metaOf cSt14 else []

theorem metaOf_branchCells (c : Conf) (s : HStats) : metaOf (branchCells c s) = branchCellsMeta c.branch := by
  unfold branchCells branchCellsMeta rounded
  cases c.branch
  · simp [metaOf]
  · simp [metaOf_append, metaOf_cons, isMetaByte, -metaOf_cSt12, -metaOf_cSt9, -metaOf_cSt13, -metaOf_cSt14]

/-- the markup characters of one row of an index page -/
def statsMeta (branch : Bool) : Bytes :=
  metaOf cIdxPre ++ [34] ++ metaOf cSt1 ++ [60] ++ metaOf cSt2 ++ metaOf cSt3 ++ [34] ++ metaOf cSt4 ++ metaOf cSt5 ++
    metaOf cSt6 ++ metaOf cSt7 ++ metaOf cSt6 ++ metaOf cSt8 ++ metaOf cSt9 ++ metaOf cSt10 ++ metaOf cSt9 ++
    metaOf cSt11 ++ branchCellsMeta branch ++ metaOf cSt15

set_option maxRecDepth 8000 in
theorem metaOf_statsLine (c : Conf) (url name : Bytes) (s : HStats) :
    metaOf (statsLine c url name s) = statsMeta c.branch := by
  unfold statsLine statsMeta rounded
  simp [metaOf_append, metaOf_cons, isMetaByte, metaOf_branchCells, -metaOf_cIdxPre, -metaOf_cSt1, -metaOf_cSt2,
    -metaOf_cSt3, -metaOf_cSt4, -metaOf_cSt5, -metaOf_cSt6, -metaOf_cSt7, -metaOf_cSt8, -metaOf_cSt9, -metaOf_cSt10,
    -metaOf_cSt11, -metaOf_cSt15]

def branchHeaderMeta (branch : Bool) : Bytes := if branch then metaOf cIdx3 else []

theorem metaOf_branchHeader (c : Conf) : metaOf (branchHeader c) = branchHeaderMeta c.branch := by
  unfold branchHeader branchHeaderMeta
  cases c.branch <;> simp [metaOf]

/-- the markup characters of an index page -/
def indexMeta (branch hasDate : Bool) (nParents nRows : Nat) : Bytes :=
  docMeta hasDate (summaryMeta branch nParents ++ metaOf cIdx1 ++ [60] ++ metaOf cIdx2 ++ branchHeaderMeta branch ++
    metaOf cIdx4 ++ (List.replicate nRows (statsMeta branch)).flatten ++ [60] ++ metaOf cIdx5)

theorem metaOf_kindWord (b : Bool) : metaOf (kindWord b) = [] := by
  unfold kindWord; split <;> decide

theorem metaOf_indexPage (ic : IndexCtx) :
    metaOf (indexPage ic) =
      indexMeta ic.page.conf.branch ic.page.conf.date.isSome ic.page.parents.length ic.rows.length := by
  unfold indexPage indexMeta
  apply metaOf_document
  simp only [metaOf_append, metaOf_summary, metaOf_kindWord, metaOf_branchHeader,
    metaOf_flatMap (fun r => statsLine ic.page.conf (rowUrl ic.listsDirs r) r.name r.stats) _ ic.rows
      (fun r => metaOf_statsLine ic.page.conf (rowUrl ic.listsDirs r) r.name r.stats),
    metaOf_cons, isMetaByte, List.append_assoc]
  simp

/-! ## every `&` of a page starts one of Tera's six entities -/

/-- every `&` in `xs` is the first byte of one of `&amp; &lt; &gt; &quot; &#x27; &#x2F;` -/
def AmpOK (xs : Bytes) : Prop := ampOk htmlEntities xs = true

theorem ampOK_append {a b : Bytes} (ha : AmpOK a) (hb : AmpOK b) : AmpOK (a ++ b) := ampOk_append _ _ _ ha hb

theorem ampOK_of_noAmp (x : Bytes) (h : 38 ∉ x) : AmpOK x := by
  unfold AmpOK
  induction x with
  | nil => rfl
  | cons b x ih =>
    have hb : b ≠ 38 := fun e => h (by simp [e])
    simp [ampOk, hb, ih (fun m => h (List.mem_cons_of_mem _ m))]

theorem ampOK_html (s : Bytes) : AmpOK (html s) := ampOk_escapeWith _ _ ampOk_htmlTab s

theorem ampOK_cons (b : Nat) (x : Bytes) (hb : b ≠ 38) (h : AmpOK x) : AmpOK (b :: x) := by
  unfold AmpOK at *
  simp [ampOk, hb, h]

theorem ampOK_dec (n : Nat) : AmpOK (decBytes n) := ampOK_of_noAmp _ (decBytes_no 38 n (by omega))
theorem ampOK_display (x : F64) : AmpOK (display x) := ampOK_of_noAmp _ (display_no x 38 (by decide))
theorem ampOK_severity (hi med : Nat) (x : F64) : AmpOK (severity hi med x) := by
  apply ampOK_of_noAmp; unfold severity; split
  · decide
  · split <;> decide

theorem ampOK_flatMap {α : Type} (f : α → Bytes) (l : List α) (h : ∀ a, AmpOK (f a)) : AmpOK (l.flatMap f) := by
  induction l with
  | nil => exact rfl
  | cons a l ih => rw [List.flatMap_cons]; exact ampOK_append (h a) ih

theorem bulma_mem (b : Bool) (root : Option Nat) (x : Nat) (h : x ∈ bulmaUrl b root) :
    x ∈ cUp ∨ x = 46 ∨ x ∈ cBulmaFile ∨ x ∈ cBulmaCdn := by
  unfold bulmaUrl at h
  split at h
  · rcases List.mem_append.mp h with h | h
    · unfold trimSlashes at h
      have h' := List.mem_reverse.mp h
      have h'' := (List.dropWhile_sublist _).subset h'
      have h3 := List.mem_reverse.mp h''
      cases root with
      | none => simp [rootText] at h3; exact Or.inr (Or.inl h3)
      | some k =>
        simp only [rootText, List.mem_flatten, List.mem_replicate] at h3
        obtain ⟨l, ⟨_, rfl⟩, hl⟩ := h3
        exact Or.inl hl
    · exact Or.inr (Or.inr (Or.inl h))
  · exact Or.inr (Or.inr (Or.inr h))

theorem ampOK_bulma (b : Bool) (root : Option Nat) : AmpOK (bulmaUrl b root) := by
  apply ampOK_of_noAmp
  intro h
  rcases bulma_mem b root 38 h with h | h | h | h
  · revert h; decide
  · omega
  · revert h; decide
  · revert h; decide

/-- one step of the decomposition of a page into pieces that cannot contain a stray `&` -/
macro "amp_step" : tactic => `(tactic| first
  | with_reducible apply ampOK_append
  | with_reducible assumption
  | with_reducible exact ampOK_html _
  | with_reducible exact ampOK_dec _
  | with_reducible exact ampOK_display _
  | with_reducible exact ampOK_severity _ _ _
  | with_reducible exact ampOK_bulma _ _
  | exact ampOK_of_noAmp _ (by decide +kernel))

theorem ampOK_summaryLine (k : Bytes) (hk : AmpOK k) (hi med p c t : Nat) : AmpOK (summaryLine k hi med p c t) := by
  unfold summaryLine rounded
  repeat' amp_step

theorem ampOK_crumb (lk : Bytes × Bytes) : AmpOK (crumb lk) := by
  unfold crumb
  repeat' amp_step

theorem ampOK_branchSummary (c : Conf) (s : HStats) : AmpOK (branchSummary c s) := by
  unfold branchSummary
  have hb := ampOK_summaryLine wBranches (ampOK_of_noAmp _ (by decide)) c.brHi c.brMed c.precision s.coveredBranches s.totalBranches
  split
  · repeat' amp_step
  · exact rfl

theorem ampOK_summary (pc : PageCtx) : AmpOK (summary pc) := by
  unfold summary curItem
  simp only
  have h1 := ampOK_flatMap crumb pc.parents ampOK_crumb
  have hl := ampOK_summaryLine wLines (ampOK_of_noAmp _ (by decide)) pc.conf.hi pc.conf.med pc.conf.precision pc.stats.coveredLines pc.stats.totalLines
  have hf := ampOK_summaryLine wFunctions (ampOK_of_noAmp _ (by decide)) pc.conf.fnHi pc.conf.fnMed pc.conf.precision pc.stats.coveredFuns pc.stats.totalFuns
  have hb := ampOK_branchSummary pc.conf pc.stats
  repeat' amp_step

theorem ampOK_rowWords (c : Int) :
    AmpOK (rowWords c).1 ∧ AmpOK (rowWords c).2.1 ∧ AmpOK (rowWords c).2.2.1 ∧ AmpOK (rowWords c).2.2.2 := by
  unfold rowWords
  split
  · exact ⟨ampOK_of_noAmp _ (by show 38 ∉ wSuccess; decide), ampOK_of_noAmp _ (by show 38 ∉ wSuccessLight; decide),
      ampOK_dec _, ampOK_dec _⟩
  · split
    · exact ⟨ampOK_of_noAmp _ (by show 38 ∉ wWhite; decide), ampOK_of_noAmp _ (by show 38 ∉ wWhite; decide), rfl,
        ampOK_of_noAmp _ (by show 38 ∉ wNoCoverage; decide)⟩
    · exact ⟨ampOK_of_noAmp _ (by show 38 ∉ wDanger; decide), ampOK_of_noAmp _ (by show 38 ∉ wDangerLight; decide), rfl,
        ampOK_of_noAmp _ (by show 38 ∉ wZero; decide)⟩

theorem ampOK_fileRow (r : Docs.HtmlRow) : AmpOK (fileRow r) := by
  unfold fileRow
  obtain ⟨h1, h2, h3, h4⟩ := ampOK_rowWords r.count
  simp only
  repeat' amp_step

theorem ampOK_document (pc : PageCtx) (content : Bytes) (h : AmpOK content) : AmpOK (document pc content) := by
  unfold document dateBlock
  cases pc.conf.date <;> simp only <;> repeat' amp_step

theorem ampOK_filePage (fc : FileCtx) : AmpOK (filePage fc) := by
  unfold filePage
  apply ampOK_document
  have hs := ampOK_summary fc.page
  have hr := ampOK_flatMap fileRow fc.items ampOK_fileRow
  repeat' amp_step

theorem ampOK_statsLine (c : Conf) (url name : Bytes) (s : HStats) : AmpOK (statsLine c url name s) := by
  unfold statsLine branchCells rounded
  cases c.branch <;> simp only [if_true, if_false, Bool.false_eq_true] <;> repeat' amp_step

theorem ampOK_indexPage (ic : IndexCtx) : AmpOK (indexPage ic) := by
  unfold indexPage
  apply ampOK_document
  have hs := ampOK_summary ic.page
  have hr := ampOK_flatMap (fun r => statsLine ic.page.conf (rowUrl ic.listsDirs r) r.name r.stats) ic.rows
    (fun r => ampOK_statsLine _ _ _ _)
  have hk : AmpOK (kindWord ic.listsDirs) := by
    apply ampOK_of_noAmp; unfold kindWord; split <;> decide
  have hh : AmpOK (branchHeader ic.page.conf) := by
    apply ampOK_of_noAmp; unfold branchHeader; split <;> decide
  repeat' amp_step

/-- what a reader sees of a row that shows `entry lines k` -/
theorem rowView_entry (lines : List (Nat × Nat)) (k : Nat) (t : List Nat) :
    rowView ⟨k, Writers.entry lines k, t⟩ = ⟨k, AList.get? lines k, t⟩ := by
  unfold rowView Writers.entry
  cases AList.get? lines k with
  | none => simp
  | some c => simp

/-! ## the files of a site are pages -/

theorem mem_set {κ α : Type} [DecidableEq κ] (m : List (κ × α)) (x : κ) (y : α) (kv : κ × α)
    (h : kv ∈ AList.set m x y) : kv ∈ m ∨ kv = (x, y) := by
  induction m with
  | nil => simp [AList.set] at h; exact Or.inr h
  | cons a m ih =>
    obtain ⟨k, w⟩ := a
    unfold AList.set at h
    split at h
    · rename_i hk
      rcases List.mem_cons.mp h with h | h
      · subst hk; exact Or.inr h
      · exact Or.inl (List.mem_cons_of_mem _ h)
    · rcases List.mem_cons.mp h with h | h
      · exact Or.inl (by simp [h])
      · rcases ih h with h | h
        · exact Or.inl (List.mem_cons_of_mem _ h)
        · exact Or.inr h

theorem mem_foldl_set {κ α : Type} [DecidableEq κ] (ws : List (κ × α)) (m : List (κ × α)) (kv : κ × α)
    (h : kv ∈ ws.foldl (fun m w => AList.set m w.1 w.2) m) : kv ∈ m ∨ kv ∈ ws := by
  induction ws generalizing m with
  | nil => exact Or.inl h
  | cons w ws ih =>
    rcases ih _ h with h | h
    · rcases mem_set m w.1 w.2 kv h with h | h
      · exact Or.inl h
      · exact Or.inr (by simp [h])
    · exact Or.inr (List.mem_cons_of_mem _ h)

theorem genHtml_page (o : Opts) (r : Docs.Res) (src : Option Bytes) (g g' : Global) (w : Written)
    (h : genHtml o r src g = some (g', some w)) : ∃ fc, w.2 = filePage fc := by
  unfold genHtml at h
  split at h
  · simp at h
  · split at h
    · simp at h
    · split at h
      · simp only [Option.some.injEq, Prod.mk.injEq] at h
        obtain ⟨_, rfl⟩ := h
        exact ⟨_, rfl⟩
      · simp at h

theorem runJobs_pages (o : Opts) (jobs : List (Docs.Res × Option Bytes)) (g g' : Global) (ws : List Written)
    (h : runJobs o jobs g = some (g', ws)) : ∀ w ∈ ws, ∃ fc, w.2 = filePage fc := by
  induction jobs generalizing g ws with
  | nil =>
    simp only [runJobs, Option.some.injEq, Prod.mk.injEq] at h
    obtain ⟨_, rfl⟩ := h
    simp
  | cons j jobs ih =>
    obtain ⟨r, src⟩ := j
    unfold runJobs at h
    split at h
    · simp at h
    · rename_i g1 w hg
      split at h
      · simp at h
      · rename_i g2 ws' hr
        simp only [Option.some.injEq, Prod.mk.injEq] at h
        obtain ⟨rfl, rfl⟩ := h
        intro x hx
        rcases List.mem_append.mp hx with hx | hx
        · cases w with
          | none => simp at hx
          | some w0 =>
            have e : x = w0 := by simpa using hx
            rw [e]
            exact genHtml_page o r src g g1 w0 hg
        · exact ih g1 ws' hr x hx

/-- every `.html` file of a site is a file page or an index page of the model -/
theorem site_files (o : Opts) (jobs : List (Docs.Res × Option Bytes)) (files : List (List Name × Bytes))
    (h : site o jobs = some files) :
    ∀ f ∈ files, (∃ fc, f.2 = filePage fc) ∨ (∃ ic, f.2 = indexPage ic) := by
  unfold site at h
  split at h
  · simp at h
  · rename_i g pages hr
    simp only [Option.some.injEq] at h
    subst h
    intro f hf
    rcases mem_foldl_set _ _ f hf with hf | hf
    · simp at hf
    · rcases List.mem_append.mp hf with hf | hf
      · exact Or.inl (runJobs_pages o jobs _ g pages hr f hf)
      · obtain ⟨w, hw, rfl⟩ := List.mem_map.mp hf
        unfold indexWrites at hw
        rcases List.mem_cons.mp hw with rfl | hw
        · exact Or.inr ⟨_, rfl⟩
        · obtain ⟨d, _, rfl⟩ := List.mem_map.mp hw
          exact Or.inr ⟨_, rfl⟩

end Grcov.Writers.HtmlBytes
