/-
Lemmas for the whole-run composition (GrcovModel/Cli/RunAll.lean): records up to the order of
their entries (`CovPerm`), `rewrite_paths` with exclusion markers as `rewrite_paths` on the
pre-filtered map, the result map as the aggregate of the inputs, what a permutation of the inputs
can change, the two sorts.
-/
import GrcovModel.Cli.RunAll
import GrcovModel.Lemmas.Cli
import GrcovModel.Lemmas.Report
import GrcovModel.Lemmas.FileFilter
import GrcovModel.Lemmas.MainGlue
namespace Grcov.Cli.RunAll
open Grcov AList Grcov.Lcov Grcov.Rewrite Grcov.FileFilter Grcov.Report Grcov.Props.C01

/-! ### association lists up to order -/

theorem filterMap_congr' {α β : Type} {f g : α → Option β} {l : List α} (h : ∀ x ∈ l, f x = g x) :
    l.filterMap f = l.filterMap g := by
  induction l with
  | nil => rfl
  | cons a l ih =>
    simp only [List.filterMap_cons, h a (List.mem_cons_self ..)]
    rw [ih fun x hx => h x (List.mem_cons_of_mem _ hx)]

theorem erase_eq_filter {κ α : Type} [DecidableEq κ] (m : List (κ × α)) (x : κ) :
    erase m x = m.filter fun kv => decide (kv.1 ≠ x) := by
  induction m with
  | nil => rfl
  | cons kv m ih =>
    obtain ⟨k, w⟩ := kv
    by_cases h : k = x
    · simp [erase, h, ih]
    · simp [erase, h, ih]

theorem nodup_of_map {α β : Type} (f : α → β) (l : List α) (h : (l.map f).Nodup) : l.Nodup := by
  induction l with
  | nil => exact List.nodup_nil
  | cons a l ih =>
    simp only [List.map_cons, List.nodup_cons] at h ⊢
    exact ⟨fun hm => h.1 (List.mem_map_of_mem hm), ih h.2⟩

theorem nodup_of_nodupKeys {κ α : Type} {m : List (κ × α)} (h : NodupKeys m) : m.Nodup := by
  unfold NodupKeys keys at h
  exact nodup_of_map _ _ h

theorem mem_iff_get? {κ α : Type} [DecidableEq κ] {m : List (κ × α)} (hm : NodupKeys m) (k : κ) (v : α) :
    (k, v) ∈ m ↔ get? m k = some v :=
  ⟨fun h => get?_of_mem hm h, fun h => mem_of_get? h⟩

/-- two maps with the same content are permutations of each other -/
theorem perm_of_get?_eq {κ α : Type} [DecidableEq κ] {m₁ m₂ : List (κ × α)} (h₁ : NodupKeys m₁)
    (h₂ : NodupKeys m₂) (h : ∀ k, get? m₁ k = get? m₂ k) : m₁.Perm m₂ := by
  rw [List.perm_ext_iff_of_nodup (nodup_of_nodupKeys h₁) (nodup_of_nodupKeys h₂)]
  rintro ⟨k, v⟩
  rw [mem_iff_get? h₁, mem_iff_get? h₂, h k]

theorem nodupKeys_perm {κ α : Type} {m₁ m₂ : List (κ × α)} (p : m₁.Perm m₂) (h : NodupKeys m₁) :
    NodupKeys m₂ := by
  unfold NodupKeys keys at *
  exact (p.map _).nodup_iff.1 h

theorem get?_perm {κ α : Type} [DecidableEq κ] {m₁ m₂ : List (κ × α)} (p : m₁.Perm m₂)
    (h : NodupKeys m₁) (k : κ) : get? m₁ k = get? m₂ k := by
  have h₂ := nodupKeys_perm p h
  cases hg : get? m₁ k with
  | some v => exact (get?_of_mem h₂ (p.subset (mem_of_get? hg))).symm
  | none =>
    cases hg' : get? m₂ k with
    | none => rfl
    | some v => rw [get?_of_mem h (p.symm.subset (mem_of_get? hg'))] at hg; cases hg

/-- the `BTreeMap` iteration of two maps with the same content is the same list -/
theorem sortByKey_eq_of_perm {α : Type} {m₁ m₂ : List (Nat × α)} (p : m₁.Perm m₂)
    (h : NodupKeys m₁) : sortByKey m₁ = sortByKey m₂ := by
  have p' : (sortByKey m₁).Perm (sortByKey m₂) :=
    ((sortByKey_perm m₁).trans p).trans (sortByKey_perm m₂).symm
  have hn : NodupKeys (sortByKey m₁) := nodupKeys_sortByKey m₁ h
  have s₁ : (sortByKey m₁).Pairwise (fun a b => a.1 ≤ b.1) := sortByKey_sorted m₁
  have s₂ : (sortByKey m₂).Pairwise (fun a b => a.1 ≤ b.1) := sortByKey_sorted m₂
  refine List.Perm.eq_of_pairwise (le := fun a b => a.1 ≤ b.1) ?_ s₁ s₂ p'
  intro a b ha hb hab hba
  have hk : a.1 = b.1 := Nat.le_antisymm hab hba
  have hb' : b ∈ sortByKey m₁ := p'.symm.subset hb
  have e1 := get?_of_mem hn (show (a.1, a.2) ∈ sortByKey m₁ from ha)
  have e2 := get?_of_mem hn (show (b.1, b.2) ∈ sortByKey m₁ from hb')
  rw [hk] at e1
  rw [e1] at e2
  cases a; cases b; simp only at hk e2; cases e2; subst hk; rfl

/-! ### records up to the order of their entries -/

/-- the same record, its three maps listed in possibly different orders -/
structure CovPerm (a b : Cov) : Prop where
  lines : a.lines.Perm b.lines
  branches : a.branches.Perm b.branches
  functions : a.functions.Perm b.functions

theorem CovPerm.refl (a : Cov) : CovPerm a a := ⟨.refl _, .refl _, .refl _⟩
theorem CovPerm.symm {a b : Cov} (h : CovPerm a b) : CovPerm b a :=
  ⟨h.lines.symm, h.branches.symm, h.functions.symm⟩
theorem CovPerm.trans {a b c : Cov} (h : CovPerm a b) (h' : CovPerm b c) : CovPerm a c :=
  ⟨h.lines.trans h'.lines, h.branches.trans h'.branches, h.functions.trans h'.functions⟩

theorem CovPerm.wf {a b : Cov} (h : CovPerm a b) (ha : a.WF) : b.WF :=
  ⟨nodupKeys_perm h.lines ha.linesNodup, nodupKeys_perm h.branches ha.branchesNodup,
   nodupKeys_perm h.functions ha.functionsNodup, fun kv hkv => ha.countsFit kv (h.lines.symm.subset hkv)⟩

/-- same content (start lines included) ⇒ same record up to order -/
theorem covPerm_of_get? {a b : Cov} (ha : a.WF) (hb : b.WF)
    (hl : ∀ l, get? a.lines l = get? b.lines l) (hbr : ∀ l, get? a.branches l = get? b.branches l)
    (hf : ∀ n, get? a.functions n = get? b.functions n) : CovPerm a b :=
  ⟨perm_of_get?_eq ha.linesNodup hb.linesNodup hl,
   perm_of_get?_eq ha.branchesNodup hb.branchesNodup hbr,
   perm_of_get?_eq ha.functionsNodup hb.functionsNodup hf⟩

theorem CovPerm.obsEq {a b : Cov} (h : CovPerm a b) (ha : a.WF) : ObsEq a b :=
  ⟨fun l => get?_perm h.lines ha.linesNodup l, fun l => get?_perm h.branches ha.branchesNodup l,
   fun n => by rw [get?_perm h.functions ha.functionsNodup n]⟩

theorem CovPerm.applyOne {a b : Cov} (h : CovPerm a b) (f : FT) : CovPerm (applyOne a f) (applyOne b f) := by
  cases f <;> simp only [FileFilter.applyOne, erase_eq_filter] <;>
    first
      | exact ⟨h.lines.filter _, h.branches, h.functions⟩
      | exact ⟨h.lines, h.branches.filter _, h.functions⟩
      | exact ⟨h.lines.filter _, h.branches.filter _, h.functions⟩

theorem CovPerm.applyFilters {a b : Cov} (h : CovPerm a b) (fs : List FT) :
    CovPerm (applyFilters fs a) (applyFilters fs b) := by
  induction fs generalizing a b with
  | nil => exact h
  | cons f fs ih => exact ih (h.applyOne f)

theorem CovPerm.isCovered {a b : Cov} (h : CovPerm a b) : isCovered a = isCovered b := by
  simp only [Rewrite.isCovered, h.lines.any_eq, h.functions.any_eq, h.functions.length_eq]

theorem CovPerm.filterOk {a b : Cov} (h : CovPerm a b) (f : Option Bool) : filterOk f a = filterOk f b := by
  simp only [Rewrite.filterOk, h.isCovered]

/-! ### `rewrite_paths` with exclusion markers = `rewrite_paths` on the pre-filtered map -/

theorem selectRecF_eq (cfg : Cfg) (fs : FS) (flt : Bytes → List FT) (abs rel : Bytes) (cov : Cov) :
    selectRecF cfg fs flt abs rel cov = selectRec cfg fs abs rel (applyFilters (flt abs) cov) := rfl

/-- what the exclusion markers do to one map entry: the filter list of the file the key resolves to,
applied to the entry's record (an entry that is dropped or panics anyway is left alone) -/
def exclude (cfg : Cfg) (fs : FS) (flt : Bytes → List FT) (kc : Bytes × Cov) : Bytes × Cov :=
  (kc.1, match resolveKey cfg fs kc.1 with
         | .ok (some (abs, _)) => applyFilters (flt abs) kc.2
         | _ => kc.2)

theorem rewriteKeyF_eq (cfg : Cfg) (fs : FS) (flt : Bytes → List FT) (kc : Bytes × Cov) :
    rewriteKeyF cfg fs flt kc = rewriteKey cfg fs (exclude cfg fs flt kc) := by
  unfold rewriteKeyF rewriteKey exclude
  cases h : resolveKey cfg fs kc.1 with
  | panic s => rfl
  | ok o =>
    cases o with
    | none => rfl
    | some ar => obtain ⟨a, r⟩ := ar; rfl

theorem rewritePathsF_eq (cfg : Cfg) (fs : FS) (flt : Bytes → List FT) (m : List (Bytes × Cov)) :
    rewritePathsF cfg fs flt m = rewritePaths cfg fs (m.map (exclude cfg fs flt)) := by
  have e : m.map (rewriteKeyF cfg fs flt) = (m.map (exclude cfg fs flt)).map (rewriteKey cfg fs) := by
    rw [List.map_map]; exact List.map_congr_left fun kc _ => rewriteKeyF_eq cfg fs flt kc
  unfold rewritePathsF rewritePaths
  rw [e]
  cases cfg.sourceDir <;> rfl

theorem exclude_nil (cfg : Cfg) (fs : FS) (kc : Bytes × Cov) : exclude cfg fs (fun _ => []) kc = kc := by
  unfold exclude
  cases resolveKey cfg fs kc.1 with
  | panic s => rfl
  | ok o =>
    cases o with
    | none => rfl
    | some ar => obtain ⟨a, r⟩ := ar; rfl

/-- no filter list anywhere: the plain `rewrite_paths` -/
theorem rewritePathsF_nil (cfg : Cfg) (fs : FS) (m : List (Bytes × Cov)) :
    rewritePathsF cfg fs (fun _ => []) m = rewritePaths cfg fs m := by
  rw [rewritePathsF_eq]
  congr 1
  rw [List.map_congr_left (g := id) fun kc _ => exclude_nil cfg fs kc]; simp

theorem rewritePathsF_congr (cfg : Cfg) (fs : FS) (f g : Bytes → List FT) (h : ∀ a, f a = g a)
    (m : List (Bytes × Cov)) : rewritePathsF cfg fs f m = rewritePathsF cfg fs g m := by
  have : f = g := funext h
  rw [this]

/-! ### no marker option, inert options, unreadable sources -/

theorem toOpts_none_inert :
    (MainGlue.FileFilterArgs.toOpts ⟨none, none, none, none, none, none⟩).inert = true := rfl

theorem createSrc_inert (fo : FileFilter.Opts) (h : fo.inert = true) (rx : Rx) (src : Option (List Nat)) :
    createSrc fo rx src = [] := by
  cases src with
  | none => exact create_inert fo h false []
  | some s => exact create_inert fo h true _

theorem filterList_inert (o : Opts) (w : World) (h : o.excl.toOpts.inert = true) (abs : Bytes) :
    filterList o w abs = [] := createSrc_inert _ h _ _

theorem filterList_noMarkers (o : Opts) (w : World) (abs : Bytes) : filterList o.noMarkers w abs = [] :=
  createSrc_inert _ toOpts_none_inert _ _

theorem filterList_unreadable (o : Opts) (w : World) (abs : Bytes) (h : w.text abs = none) :
    filterList o w abs = [] := by
  unfold filterList; rw [h]; exact create_unreadable _ _

theorem report_noMarkers (o : Opts) (rs : List Rec) : report o.noMarkers rs = report o rs := rfl

theorem resultMap_noMarkers (o : Opts) (w : World) (ins : List Input) :
    resultMap o.noMarkers w ins = resultMap o w ins := rfl

/-- a run in which no file gets a filter list is the run without `--excl-*` options -/
theorem run_of_no_filter (o : Opts) (w : World) (ins : List Input) (h : ∀ abs, filterList o w abs = []) :
    run o w ins = run o.noMarkers w ins := by
  have e : records o w ins = records o.noMarkers w ins := by
    unfold records
    rw [rewritePathsF_congr _ _ (filterList o w) (fun _ => []) h,
      rewritePathsF_congr _ _ (filterList o.noMarkers w) (fun _ => []) (filterList_noMarkers o w)]
    rfl
  unfold run
  rw [e]
  rfl

/-- … and is the plain `rewrite_paths` of the component model -/
theorem records_noMarkers (o : Opts) (w : World) (ins : List Input) :
    records o.noMarkers w ins = rewritePaths o.cfg w.fs (resultMap o w ins) := by
  unfold records
  rw [rewritePathsF_congr _ _ _ (fun _ => []) (filterList_noMarkers o w), rewritePathsF_nil]
  rfl


/-! ### the result map is the aggregate of the inputs -/

theorem leaves_ne_nil : ∀ t : Tree Cov, t.leaves ≠ []
  | .leaf a => by simp [Tree.leaves]
  | .node l r => by simp [Tree.leaves, leaves_ne_nil l]

/-- the key under which `add_results` files a record in this run -/
def canonOf (o : Opts) (w : World) : Key → Key := addCanon w.fs o.cfg.sourceDir

/-- every record of every input, in the order listed -/
def allRecords (o : Opts) (ins : List Input) : List (Key × Cov) := ins.flatMap (contents o.branch)

theorem resultMap_flat (o : Opts) (w : World) (ins : List Input) :
    resultMap o w ins = addResults (canonOf o w) [] (allRecords o ins) := by
  suffices H : ∀ m, ins.foldl (fun m i => addResults (canonOf o w) m (contents o.branch i)) m
      = addResults (canonOf o w) m (ins.flatMap (contents o.branch)) from H []
  induction ins with
  | nil => intro m; simp [addResults]
  | cons i ins ih => intro m; simp [List.foldl_cons, ih, addResults_append]

/-- what the inputs say about the file filed under `k`, input after input -/
def recordsAt (o : Opts) (w : World) (ins : List Input) (k : Key) : List Cov :=
  ((allRecords o ins).filter fun kc => canonOf o w kc.1 = k).map (·.2)

theorem resultMap_entry (o : Opts) (w : World) (ins : List Input) (k : Key) :
    get? (resultMap o w ins) k = foldInto none (recordsAt o w ins k) := by
  rw [resultMap_flat, get?_addResults]; rfl

theorem nodupKeys_resultMap (o : Opts) (w : World) (ins : List Input) : NodupKeys (resultMap o w ins) := by
  rw [resultMap_flat]
  exact nodupKeys_addResults _ _ _ (by simp [NodupKeys, keys])

/-- the map of the run is the report of the pipeline model (Lemmas/Report.lean, Props/C02.lean) for
the inputs numbered in the order listed -/
theorem resultMap_eq_reportOf (o : Opts) (w : World) (ins : List Input) :
    resultMap o w ins = reportOf (canonOf o w) (fun i => contents o.branch (ins.getD i (.lcov [])))
      (List.range ins.length) := by
  rw [reportOf_flat, resultMap_flat]
  congr 1
  unfold allRecords
  have e : (List.range ins.length).map (fun i => ins.getD i (.lcov [])) = ins := by
    apply List.ext_getElem
    · simp
    · intro i h1 h2
      simp only [List.length_map, List.length_range] at h1
      simp [List.getD_eq_getElem?_getD, h1]
  conv => lhs; rw [← e]
  rw [List.flatMap_map]

theorem allRecords_perm (o : Opts) {ins₁ ins₂ : List Input} (p : ins₁.Perm ins₂) :
    (allRecords o ins₁).Perm (allRecords o ins₂) := p.flatMap_right _

theorem recordsAt_perm (o : Opts) (w : World) {ins₁ ins₂ : List Input} (p : ins₁.Perm ins₂) (k : Key) :
    (recordsAt o w ins₁ k).Perm (recordsAt o w ins₂ k) := ((allRecords_perm o p).filter _).map _

/-- what the Rust types guarantee of the parsers' results (maps with unique keys, `u64` counts) -/
def InputsWF (o : Opts) (ins : List Input) : Prop := ∀ kc ∈ allRecords o ins, kc.2.WF

theorem InputsWF.perm {o : Opts} {ins₁ ins₂ : List Input} (h : InputsWF o ins₁) (p : ins₁.Perm ins₂) :
    InputsWF o ins₂ := fun kc hkc => h kc ((allRecords_perm o p).symm.subset hkc)

theorem recordsAt_wf {o : Opts} {w : World} {ins : List Input} (h : InputsWF o ins) (k : Key) :
    ∀ c ∈ recordsAt o w ins k, c.WF := by
  intro c hc
  simp only [recordsAt, List.mem_map, List.mem_filter] at hc
  obtain ⟨kc, ⟨hm, _⟩, rfl⟩ := hc
  exact h kc hm

/-- the entry under `k` does not depend, observably, on the order of the inputs -/
theorem resultMap_perm_obs (o : Opts) (w : World) {ins₁ ins₂ : List Input} (h : InputsWF o ins₁)
    (p : ins₁.Perm ins₂) (k : Key) :
    ObsEqOpt (get? (resultMap o w ins₁) k) (get? (resultMap o w ins₂) k) := by
  rw [resultMap_entry, resultMap_entry]
  exact foldInto_perm _ _ (recordsAt_wf h k) (recordsAt_perm o w p k)

/-! ### a rejected input -/

theorem contents_of_rejected (b : Bool) (i : Input) (h : rejected b i) : contents b i = [] := by
  cases i with
  | lcov bs => obtain ⟨k, hk⟩ := h; simp [contents, Cli.parseInput, hk]
  | jacoco bs => obtain ⟨k, hk⟩ := h; simp [contents, hk]
  | gcno st g ds => obtain ⟨k, hk⟩ := h; simp [contents, hk]

theorem crash_of_rejected (b : Bool) (i : Input) (h : rejected b i) : crash b i = none := by
  cases i with
  | lcov bs => obtain ⟨k, hk⟩ := h; simp [crash, hk]
  | jacoco bs => obtain ⟨k, hk⟩ := h; simp [crash, hk]
  | gcno st g ds => obtain ⟨k, hk⟩ := h; simp [crash, hk]

theorem resultMap_drop (o : Opts) (w : World) (pre post : List Input) (i : Input)
    (h : contents o.branch i = []) : resultMap o w (pre ++ i :: post) = resultMap o w (pre ++ post) := by
  rw [resultMap_flat, resultMap_flat]
  simp [allRecords, List.flatMap_append, List.flatMap_cons, h]

theorem run_drop (o : Opts) (w : World) (pre post : List Input) (i : Input)
    (h : contents o.branch i = []) (hc : crash o.branch i = none) :
    run o w (pre ++ i :: post) = run o w (pre ++ post) := by
  have e1 : (pre ++ i :: post).findSome? (crash o.branch) = (pre ++ post).findSome? (crash o.branch) := by
    simp [List.findSome?_append, List.findSome?_cons, hc]
  unfold run records
  rw [e1, resultMap_drop o w pre post i h]


/-! ### what a permutation of the inputs can change: nothing but the order of the entries -/

/-- the records in `L` that name a function agree on its start line -/
def FnAgree (L : List Cov) : Prop :=
  ∀ a ∈ L, ∀ b ∈ L, ∀ n f g, get? a.functions n = some f → get? b.functions n = some g → f.start = g.start

/-- the inputs agree on the start line of every function of every file (what C01 / C02 call "the
common one when they agree"; otherwise the start line is the one datum that depends on the order) -/
def StartsAgree (o : Opts) (w : World) (ins : List Input) : Prop :=
  ∀ kc ∈ allRecords o ins, ∀ kc' ∈ allRecords o ins, canonOf o w kc.1 = canonOf o w kc'.1 →
    ∀ n f g, get? kc.2.functions n = some f → get? kc'.2.functions n = some g → f.start = g.start

theorem fnAgree_recordsAt {o : Opts} {w : World} {ins : List Input} (h : StartsAgree o w ins) (k : Key) :
    FnAgree (recordsAt o w ins k) := by
  intro a ha b hb n f g hf hg
  simp only [recordsAt, List.mem_map, List.mem_filter, decide_eq_true_eq] at ha hb
  obtain ⟨kc, ⟨hm, hk⟩, rfl⟩ := ha
  obtain ⟨kc', ⟨hm', hk'⟩, rfl⟩ := hb
  exact h kc hm kc' hm' (hk.trans hk'.symm) n f g hf hg

/-- two groupings of the same records, which agree on start lines, evaluate to the same record up
to the order of its entries (start lines included) -/
theorem tree_covPerm (t₁ t₂ : Tree Cov) (h : ∀ c ∈ t₁.leaves, c.WF) (hag : FnAgree t₁.leaves)
    (p : t₁.leaves.Perm t₂.leaves) : CovPerm t₁.eval t₂.eval := by
  have h₂ : ∀ c ∈ t₂.leaves, c.WF := fun c hc => h c (p.symm.subset hc)
  have ob := C01_grouping_invariant t₁ t₂ h p
  refine covPerm_of_get? (Tree.eval_wf t₁ h) (Tree.eval_wf t₂ h₂) ob.lines ob.branches fun n => ?_
  have e := ob.fns n
  cases h1 : get? t₁.eval.functions n with
  | none =>
    cases h2 : get? t₂.eval.functions n with
    | none => rfl
    | some f₂ => rw [h1, h2] at e; simp [execOf] at e
  | some f₁ =>
    cases h2 : get? t₂.eval.functions n with
    | none => rw [h1, h2] at e; simp [execOf] at e
    | some f₂ =>
      rw [h1, h2] at e
      simp only [execOf, Option.map_some, Option.some.injEq] at e
      obtain ⟨c, hc, g, hg, hs⟩ := C01_start_from_some_input t₁ h n f₁ h1
      obtain ⟨c', hc', g', hg', hs'⟩ := C01_start_from_some_input t₂ h₂ n f₂ h2
      have hst := hag c hc c' (p.symm.subset hc') n g g' hg hg'
      cases f₁; cases f₂
      simp only at e hs hs'
      simp only [Option.some.injEq, Fn.mk.injEq]
      exact ⟨by omega, e⟩

def CovPermOpt : Option Cov → Option Cov → Prop
  | none, none => True
  | some a, some b => CovPerm a b ∧ a.WF
  | _, _ => False

theorem foldInto_perm_covPerm (cs ds : List Cov) (h : ∀ c ∈ cs, c.WF) (hag : FnAgree cs)
    (p : cs.Perm ds) : CovPermOpt (foldInto none cs) (foldInto none ds) := by
  cases cs with
  | nil => have := p.symm.eq_nil; subst this; trivial
  | cons a cs =>
    cases ds with
    | nil => exact absurd p.eq_nil (by simp)
    | cons b ds =>
      rw [foldInto_none_cons, foldInto_none_cons]
      have hl : ∀ c ∈ (combL (.leaf a) cs).leaves, c.WF := by
        intro c hc; rw [combL_leaves] at hc; exact h c (by simpa [Tree.leaves] using hc)
      refine ⟨tree_covPerm _ _ hl ?_ ?_, Tree.eval_wf _ hl⟩
      · rw [combL_leaves]; simpa [Tree.leaves] using hag
      · rw [combL_leaves, combL_leaves]; simpa [Tree.leaves] using p

/-- every entry of the result map is, up to the order inside the record, independent of the order
of the inputs -/
theorem resultMap_perm_covPerm (o : Opts) (w : World) {ins₁ ins₂ : List Input} (h : InputsWF o ins₁)
    (hag : StartsAgree o w ins₁) (p : ins₁.Perm ins₂) (k : Key) :
    CovPermOpt (get? (resultMap o w ins₁) k) (get? (resultMap o w ins₂) k) := by
  rw [resultMap_entry, resultMap_entry]
  exact foldInto_perm_covPerm _ _ (recordsAt_wf h k) (fnAgree_recordsAt hag k) (recordsAt_perm o w p k)

/-! ### one key, two orders of its record -/

theorem applyOne_nodup (c : Cov) (f : FT) (hl : NodupKeys c.lines) (hb : NodupKeys c.branches) :
    NodupKeys (applyOne c f).lines ∧ NodupKeys (applyOne c f).branches := by
  have sub : ∀ {α : Type} (m : List (Nat × α)) (x : Nat), NodupKeys m → NodupKeys (erase m x) := by
    intro α m x hm
    rw [erase_eq_filter]
    unfold NodupKeys keys at *
    exact (List.filter_sublist.map _).nodup hm
  cases f <;> simp only [FileFilter.applyOne]
  · exact ⟨sub _ _ hl, hb⟩
  · exact ⟨hl, sub _ _ hb⟩
  · exact ⟨sub _ _ hl, sub _ _ hb⟩

theorem applyFilters_nodup (fs : List FT) (c : Cov) (hl : NodupKeys c.lines) (hb : NodupKeys c.branches) :
    NodupKeys (applyFilters fs c).lines ∧ NodupKeys (applyFilters fs c).branches := by
  induction fs generalizing c with
  | nil => exact ⟨hl, hb⟩
  | cons f fs ih =>
    rw [applyFilters_cons]
    exact ih _ (applyOne_nodup c f hl hb).1 (applyOne_nodup c f hl hb).2

/-- the record a key contributes, panics seen as "no record" -/
def keyRecF (cfg : Cfg) (fs : FS) (flt : Bytes → List FT) (kc : Bytes × Cov) : Option Rec :=
  okPart (rewriteKeyF cfg fs flt kc)

theorem rewriteKeyF_ok_iff (cfg : Cfg) (fs : FS) (flt : Bytes → List FT) (kc : Bytes × Cov) :
    (∃ o, rewriteKeyF cfg fs flt kc = .ok o) ↔ ∃ x, resolveKey cfg fs kc.1 = .ok x := by
  unfold rewriteKeyF
  cases resolveKey cfg fs kc.1 with
  | panic s => simp
  | ok x =>
    cases x with
    | none => simp
    | some ar => obtain ⟨a, r⟩ := ar; simp

/-- the same record, up to the order of its entries, under the same paths -/
def RecPerm (r r' : Rec) : Prop := r.abs = r'.abs ∧ r.rel = r'.rel ∧ CovPerm r.cov r'.cov ∧
  NodupKeys r.cov.lines ∧ NodupKeys r.cov.branches ∧ NodupKeys r.cov.functions

def RecPermOpt : Option Rec → Option Rec → Prop
  | none, none => True
  | some a, some b => RecPerm a b
  | _, _ => False

theorem keyRecF_congr (cfg : Cfg) (fs : FS) (flt : Bytes → List FT) (k : Bytes) (c c' : Cov)
    (h : CovPerm c c') (hw : c.WF) : RecPermOpt (keyRecF cfg fs flt (k, c)) (keyRecF cfg fs flt (k, c')) := by
  unfold keyRecF rewriteKeyF
  cases resolveKey cfg fs k with
  | panic s => trivial
  | ok x =>
    cases x with
    | none => trivial
    | some ar =>
      obtain ⟨a, r⟩ := ar
      simp only [okPart, selectRecF_eq, selectRec]
      have hf := (h.applyFilters (flt a)).filterOk cfg.filter
      by_cases h1 : Glob.setMatch cfg.ignore r = true
      · simp only [h1, if_true]; trivial
      · simp only [h1, Bool.false_eq_true, if_false]
        by_cases h2 : (!cfg.keep.isEmpty && !Glob.setMatch cfg.keep r) = true
        · simp only [h2, if_true]; trivial
        · simp only [h2, Bool.false_eq_true, if_false]
          by_cases h3 : (cfg.ignoreNotExisting && !fs.exists a) = true
          · simp only [h3, if_true]; trivial
          · simp only [h3, Bool.false_eq_true, if_false]
            rw [← hf]
            by_cases h4 : filterOk cfg.filter (applyFilters (flt a) c) = true
            · simp only [h4, Bool.not_true, Bool.false_eq_true, if_false]
              have hn := applyFilters_nodup (flt a) c hw.linesNodup hw.branchesNodup
              exact ⟨rfl, rfl, h.applyFilters (flt a), hn.1, hn.2, by
                rw [applyFilters_functions]; exact hw.functionsNodup⟩
            · simp only [h4, Bool.not_false, if_true]; trivial

theorem rewritePathsF_eq_ok (cfg : Cfg) (fs : FS) (flt : Bytes → List FT) (m : List (Bytes × Cov))
    (rep : List Rec) :
    rewritePathsF cfg fs flt m = .ok rep ↔
      (∀ s, cfg.sourceDir = some s → UPath.isAbsolute s = true) ∧
      (∀ kc ∈ m, ∃ x, resolveKey cfg fs kc.1 = .ok x) ∧ rep = m.filterMap (keyRecF cfg fs flt) := by
  rw [rewritePathsF_eq, rewritePaths_eq_ok]
  have e1 : (m.map (exclude cfg fs flt)).filterMap (keyRec cfg fs) = m.filterMap (keyRecF cfg fs flt) := by
    rw [List.filterMap_map]
    apply filterMap_congr'
    intro kc _
    simp [Function.comp, keyRec, keyRecF, rewriteKeyF_eq]
  have e2 : (∀ kc ∈ m.map (exclude cfg fs flt), ∃ o, rewriteKey cfg fs kc = .ok o) ↔
      ∀ kc ∈ m, ∃ x, resolveKey cfg fs kc.1 = .ok x := by
    simp only [List.mem_map, forall_exists_index, and_imp, forall_apply_eq_imp_iff₂]
    constructor
    · intro h kc hkc
      have := h kc hkc
      rw [← rewriteKeyF_eq] at this
      exact (rewriteKeyF_ok_iff cfg fs flt kc).1 this
    · intro h kc hkc
      rw [← rewriteKeyF_eq]
      exact (rewriteKeyF_ok_iff cfg fs flt kc).2 (h kc hkc)
  rw [e1, e2]

theorem rewritePathsF_panic_or_ok (cfg : Cfg) (fs : FS) (flt : Bytes → List FT) (m : List (Bytes × Cov)) :
    (∃ s, rewritePathsF cfg fs flt m = .panic s) ∨ ∃ rs, rewritePathsF cfg fs flt m = .ok rs := by
  cases rewritePathsF cfg fs flt m with
  | ok rs => exact Or.inr ⟨rs, rfl⟩
  | panic s => exact Or.inl ⟨s, rfl⟩


/-! ### the hash order of the result map -/

/-- iterating a hash map lists its entries, each once, in some order -/
structure HashOrder.OK (h : HashOrder) : Prop where
  recsPerm : ∀ l, (h.recs l).Perm l

/-- a record in presentation form depends on its CONTENT only, not on the order in which its entries
were inserted: lines and branch lines are walked in key order, functions in name order
(`sorted_functions`, fix 73c9152; before it this needed a hypothesis on the hash map's order) -/
theorem present_eq_of_recPerm (o : Opts) {r r' : Rec} (h : RecPerm r r') :
    present o r = present o r' := by
  obtain ⟨ha, hr, hc, hl, hb, hfn⟩ := h
  unfold present sortCov
  rw [sortByKey_eq_of_perm hc.lines hl, sortByKey_eq_of_perm hc.branches hb,
    sortFns_eq_of_perm hc.functions hfn]
  cases r; cases r'; simp only at ha hr; subst ha; subst hr; rfl

theorem sortKey_present (o : Opts) (r : Rec) : MainGlue.sortKey (present o r) = MainGlue.sortKey r := rfl

/-! ### the record list under a permutation of the inputs -/

theorem get?_map_val {κ α : Type} [DecidableEq κ] (m : List (κ × α)) (g : κ → α → α) (k : κ) :
    get? (m.map fun kc => (kc.1, g kc.1 kc.2)) k = (get? m k).map (g k) := by
  induction m with
  | nil => rfl
  | cons kv m ih =>
    obtain ⟨k', v⟩ := kv
    simp only [List.map_cons, get?_cons]
    by_cases e : k' = k
    · subst e; simp
    · simp [e, ih]

theorem keys_map_val {κ α : Type} (m : List (κ × α)) (g : κ → α → α) :
    keys (m.map fun kc => (kc.1, g kc.1 kc.2)) = keys m := by
  simp [keys, List.map_map, Function.comp]

/-- **Records under a permutation of the inputs.** Either both runs panic inside `rewrite_paths`,
or both return a record list, and the two lists – every record in presentation form – are
permutations of each other. -/
theorem records_perm (o : Opts) (w : World) {ins₁ ins₂ : List Input} (hwf : InputsWF o ins₁)
    (hag : StartsAgree o w ins₁) (p : ins₁.Perm ins₂) :
    (∃ s₁ s₂, records o w ins₁ = .panic s₁ ∧ records o w ins₂ = .panic s₂) ∨
    ∃ rs₁ rs₂, records o w ins₁ = .ok rs₁ ∧ records o w ins₂ = .ok rs₂ ∧
      (rs₁.map (present o)).Perm (rs₂.map (present o)) := by
  let m₁ := resultMap o w ins₁
  let m₂ := resultMap o w ins₂
  have hn₁ : NodupKeys m₁ := nodupKeys_resultMap o w ins₁
  have hn₂ : NodupKeys m₂ := nodupKeys_resultMap o w ins₂
  have K : ∀ k, CovPermOpt (get? m₁ k) (get? m₂ k) := resultMap_perm_covPerm o w hwf hag p
  -- the same keys
  have hkeys : ∀ k, k ∈ keys m₁ ↔ k ∈ keys m₂ := by
    intro k
    have := K k
    constructor
    · intro hk
      apply Classical.byContradiction
      intro hk2
      rw [(get?_eq_none_iff m₂ k).2 hk2] at this
      cases hg : get? m₁ k with
      | none => exact (get?_eq_none_iff m₁ k).1 hg hk
      | some c => rw [hg] at this; exact this
    · intro hk
      apply Classical.byContradiction
      intro hk1
      rw [(get?_eq_none_iff m₁ k).2 hk1] at this
      cases hg : get? m₂ k with
      | none => exact (get?_eq_none_iff m₂ k).1 hg hk
      | some c => rw [hg] at this; exact this
  have hres : (∀ kc ∈ m₁, ∃ x, resolveKey o.cfg w.fs kc.1 = .ok x) ↔
      (∀ kc ∈ m₂, ∃ x, resolveKey o.cfg w.fs kc.1 = .ok x) := by
    constructor
    · intro h kc hkc
      have : kc.1 ∈ keys m₁ := (hkeys kc.1).2 (List.mem_map_of_mem (f := (·.1)) hkc)
      obtain ⟨kc', hkc', e⟩ := List.mem_map.1 this
      rw [← e]; exact h kc' hkc'
    · intro h kc hkc
      have : kc.1 ∈ keys m₂ := (hkeys kc.1).1 (List.mem_map_of_mem (f := (·.1)) hkc)
      obtain ⟨kc', hkc', e⟩ := List.mem_map.1 this
      rw [← e]; exact h kc' hkc'
  -- the first map rearranged in the order of the second
  let φ : Key × Cov → Key × Cov := fun kc => (kc.1, (get? m₁ kc.1).getD kc.2)
  have hperm : m₁.Perm (m₂.map φ) := by
    apply perm_of_get?_eq hn₁
    · have e : keys (m₂.map φ) = keys m₂ := by simp [keys, List.map_map, Function.comp, φ]
      unfold NodupKeys; rw [e]; exact hn₂
    · intro k
      have e := get?_map_val m₂ (fun k c => (get? m₁ k).getD c) k
      show get? m₁ k = get? (m₂.map fun kc => (kc.1, (fun k c => (get? m₁ k).getD c) kc.1 kc.2)) k
      rw [e]
      have := K k
      cases h1 : get? m₁ k with
      | none =>
        cases h2 : get? m₂ k with
        | none => rfl
        | some c => rw [h1, h2] at this; exact this.elim
      | some c₁ =>
        cases h2 : get? m₂ k with
        | none => rw [h1, h2] at this; exact this.elim
        | some c₂ => simp
  have hP : ∀ kc ∈ m₂, (keyRecF o.cfg w.fs (filterList o w) (φ kc)).map (present o)
      = (keyRecF o.cfg w.fs (filterList o w) kc).map (present o) := by
    intro kc hkc
    have h2 : get? m₂ kc.1 = some kc.2 := get?_of_mem hn₂ hkc
    have := K kc.1
    rw [h2] at this
    cases h1 : get? m₁ kc.1 with
    | none => rw [h1] at this; exact this.elim
    | some c₁ =>
      rw [h1] at this
      have hc := keyRecF_congr o.cfg w.fs (filterList o w) kc.1 c₁ kc.2 this.1 this.2
      have e : φ kc = (kc.1, c₁) := by simp [φ, h1]
      rw [e]
      cases ha : keyRecF o.cfg w.fs (filterList o w) (kc.1, c₁) with
      | none =>
        cases hb : keyRecF o.cfg w.fs (filterList o w) (kc.1, kc.2) with
        | none => rfl
        | some b => rw [ha, hb] at hc; exact hc.elim
      | some a =>
        cases hb : keyRecF o.cfg w.fs (filterList o w) (kc.1, kc.2) with
        | none => rw [ha, hb] at hc; exact hc.elim
        | some b =>
          rw [ha, hb] at hc
          simp only [Option.map_some, Option.some.injEq]
          exact present_eq_of_recPerm o hc
  rcases rewritePathsF_panic_or_ok o.cfg w.fs (filterList o w) m₁ with ⟨s₁, e₁⟩ | ⟨rs₁, e₁⟩
  · rcases rewritePathsF_panic_or_ok o.cfg w.fs (filterList o w) m₂ with ⟨s₂, e₂⟩ | ⟨rs₂, e₂⟩
    · exact Or.inl ⟨s₁, s₂, e₁, e₂⟩
    · obtain ⟨ha, hr, _⟩ := (rewritePathsF_eq_ok _ _ _ _ _).1 e₂
      have := (rewritePathsF_eq_ok o.cfg w.fs (filterList o w) m₁ _).2 ⟨ha, hres.2 hr, rfl⟩
      rw [e₁] at this; cases this
  · obtain ⟨ha, hr, erep⟩ := (rewritePathsF_eq_ok _ _ _ _ _).1 e₁
    have e₂ := (rewritePathsF_eq_ok o.cfg w.fs (filterList o w) m₂ _).2 ⟨ha, hres.1 hr, rfl⟩
    refine Or.inr ⟨rs₁, _, e₁, e₂, ?_⟩
    rw [erep, List.map_filterMap, List.map_filterMap]
    refine (hperm.filterMap _).trans ?_
    rw [List.filterMap_map]
    have e : List.filterMap ((fun x => Option.map (present o) (keyRecF o.cfg w.fs (filterList o w) x)) ∘ φ) m₂
        = List.filterMap (fun x => Option.map (present o) (keyRecF o.cfg w.fs (filterList o w) x)) m₂ :=
      filterMap_congr' fun kc hkc => hP kc hkc
    rw [e]

/-! ### sorting by the displayed absolute path -/

theorem eq_of_nodup_map {α β : Type} (f : α → β) {l : List α} (h : (l.map f).Nodup) {a b : α}
    (ha : a ∈ l) (hb : b ∈ l) (e : f a = f b) : a = b := by
  induction l with
  | nil => cases ha
  | cons x l ih =>
    simp only [List.map_cons, List.nodup_cons] at h
    rcases List.mem_cons.1 ha with rfl | ha' <;> rcases List.mem_cons.1 hb with rfl | hb'
    · rfl
    · exact absurd (e ▸ List.mem_map_of_mem hb') h.1
    · exact absurd (e ▸ List.mem_map_of_mem ha') h.1
    · exact ih h.2 ha' hb'

/-- two record lists that are permutations of each other in presentation form, with pairwise
distinct sort keys, are the same list once sorted -/
theorem sorted_present_eq (o : Opts) (A B : List Rec)
    (hp : (A.map (present o)).Perm (B.map (present o))) (hd : (A.map MainGlue.sortKey).Nodup) :
    (MainGlue.sortRecs A).map (present o) = (MainGlue.sortRecs B).map (present o) := by
  have pA : ((MainGlue.sortRecs A).map (present o)).Perm (A.map (present o)) := (MainGlue.sortRecs_perm A).map _
  have pB : ((MainGlue.sortRecs B).map (present o)).Perm (B.map (present o)) := (MainGlue.sortRecs_perm B).map _
  have pp := (pA.trans hp).trans pB.symm
  have sA : ((MainGlue.sortRecs A).map (present o)).Pairwise
      (fun a b => MainGlue.bytesLe (MainGlue.sortKey a) (MainGlue.sortKey b) = true) :=
    List.Pairwise.map _ (fun a b h => h) (MainGlue.sortRecs_pairwise A)
  have sB : ((MainGlue.sortRecs B).map (present o)).Pairwise
      (fun a b => MainGlue.bytesLe (MainGlue.sortKey a) (MainGlue.sortKey b) = true) :=
    List.Pairwise.map _ (fun a b h => h) (MainGlue.sortRecs_pairwise B)
  have hnd : (((MainGlue.sortRecs A).map (present o)).map MainGlue.sortKey).Nodup := by
    have e : ((MainGlue.sortRecs A).map (present o)).map MainGlue.sortKey
        = (MainGlue.sortRecs A).map MainGlue.sortKey := by
      rw [List.map_map]; rfl
    rw [e]
    exact (((MainGlue.sortRecs_perm A).map MainGlue.sortKey).nodup_iff).2 hd
  refine List.Perm.eq_of_pairwise ?_ sA sB pp
  intro a b ha hb hab hba
  exact eq_of_nodup_map MainGlue.sortKey hnd ha (pp.symm.subset hb)
    (MainGlue.bytesLe_antisymm _ _ hab hba)


/-! ### the report under a permutation of the inputs -/

theorem crash_perm (b : Bool) {ins₁ ins₂ : List Input} (p : ins₁.Perm ins₂) :
    ins₁.findSome? (crash b) = none ↔ ins₂.findSome? (crash b) = none := by
  simp only [List.findSome?_eq_none_iff]
  exact ⟨fun h x hx => h x (p.symm.subset hx), fun h x hx => h x (p.subset hx)⟩

theorem ordered_perm (o : Opts) (hh : o.hash.OK) (rs : List Rec) : (ordered o rs).Perm rs := by
  unfold ordered
  split
  · exact (MainGlue.sortRecs_perm _).trans (hh.recsPerm rs)
  · exact hh.recsPerm rs

/-- **One run under a permutation of its inputs.** Either both runs end without a report, or the two
reports are the writer's output on two lists of file records that are permutations of each other;
and when the type is sorted and the displayed absolute paths are pairwise distinct, on the same
list. -/
theorem run_perm (o : Opts) (w : World) {ins₁ ins₂ : List Input} (hwf : InputsWF o ins₁)
    (hag : StartsAgree o w ins₁) (hh : o.hash.OK) (p : ins₁.Perm ins₂) :
    (∃ s₁ s₂, run o w ins₁ = .panic s₁ ∧ run o w ins₂ = .panic s₂) ∨
    ∃ L₁ L₂ : List Rec, L₁.Perm L₂ ∧ run o w ins₁ = render o L₁ ∧ run o w ins₂ = render o L₂ ∧
      (sortedFor o = true → (L₁.map MainGlue.sortKey).Nodup → L₁ = L₂) := by
  cases hc₁ : ins₁.findSome? (crash o.branch) with
  | some s₁ =>
    cases hc₂ : ins₂.findSome? (crash o.branch) with
    | none => rw [(crash_perm o.branch p).2 hc₂] at hc₁; cases hc₁
    | some s₂ => exact Or.inl ⟨s₁, s₂, by simp [run, hc₁], by simp [run, hc₂]⟩
  | none =>
    have hc₂ := (crash_perm o.branch p).1 hc₁
    rcases records_perm o w hwf hag p with ⟨s₁, s₂, e₁, e₂⟩ | ⟨rs₁, rs₂, e₁, e₂, pp⟩
    · exact Or.inl ⟨s₁, s₂, by simp [run, hc₁, e₁], by simp [run, hc₂, e₂]⟩
    · refine Or.inr ⟨(ordered o rs₁).map (present o), (ordered o rs₂).map (present o), ?_,
        by simp [run, hc₁, e₁, report], by simp [run, hc₂, e₂, report], ?_⟩
      · exact (((ordered_perm o hh rs₁).map _).trans pp).trans ((ordered_perm o hh rs₂).map _).symm
      · intro hs hd
        simp only [ordered, hs, if_true] at hd ⊢
        apply sorted_present_eq
        · exact (((hh.recsPerm rs₁).map _).trans pp).trans ((hh.recsPerm rs₂).map _).symm
        · have e : ((MainGlue.sortRecs (o.hash.recs rs₁)).map (present o)).map MainGlue.sortKey
              = (MainGlue.sortRecs (o.hash.recs rs₁)).map MainGlue.sortKey := by
            rw [List.map_map]; rfl
          rw [e] at hd
          exact (((MainGlue.sortRecs_perm _).map MainGlue.sortKey).nodup_iff).1 hd


/-! ### the run with markers against the run without -/

/-- the same options without `--excl-*` and without `--filter` -/
def Opts.unfiltered (o : Opts) : Opts := { o.noMarkers with cfg := { o.cfg with filter := none } }

/-- what the markers (and then `--filter`) do to one record of the marker-free run -/
def excludeRec (o : Opts) (w : World) (r : Rec) : Option Rec :=
  if filterOk o.cfg.filter (applyFilters (filterList o w r.abs) r.cov) then
    some { r with cov := applyFilters (filterList o w r.abs) r.cov }
  else none

def liftRec (g : Rec → Option Rec) : Res (Option Rec) → Res (Option Rec)
  | .panic s => .panic s
  | .ok none => .ok none
  | .ok (some r) => .ok (g r)

theorem collect_lift (g : Rec → Option Rec) (l : List (Res (Option Rec))) :
    collect (l.map (liftRec g)) = match collect l with
      | .panic s => .panic s
      | .ok rs => .ok (rs.filterMap g) := by
  induction l with
  | nil => rfl
  | cons x l ih =>
    cases x with
    | panic s => rfl
    | ok o =>
      simp only [List.map_cons, liftRec, collect]
      cases o with
      | none =>
        simp only [liftRec, collect, ih]
        cases collect l <;> rfl
      | some r =>
        simp only [liftRec, collect, ih]
        cases collect l with
        | panic s => rfl
        | ok rs => cases hg : g r <;> simp [hg]

theorem rewriteKeyF_unfiltered (o : Opts) (w : World) (kc : Bytes × Cov) :
    rewriteKeyF o.cfg w.fs (filterList o w) kc
      = liftRec (excludeRec o w) (rewriteKeyF o.unfiltered.cfg w.fs (fun _ => []) kc) := by
  have hr : resolveKey o.unfiltered.cfg w.fs kc.1 = resolveKey o.cfg w.fs kc.1 :=
    resolveKey_congr rfl rfl rfl _ _
  unfold rewriteKeyF
  rw [hr]
  cases resolveKey o.cfg w.fs kc.1 with
  | panic s => rfl
  | ok x =>
    cases x with
    | none => rfl
    | some ar =>
      obtain ⟨a, r⟩ := ar
      simp only [selectRecF, liftRec]
      have e1 : o.unfiltered.cfg.ignore = o.cfg.ignore := rfl
      have e2 : o.unfiltered.cfg.keep = o.cfg.keep := rfl
      have e3 : o.unfiltered.cfg.ignoreNotExisting = o.cfg.ignoreNotExisting := rfl
      have e4 : o.unfiltered.cfg.filter = none := rfl
      rw [e1, e2, e3, e4]
      by_cases h1 : Glob.setMatch o.cfg.ignore r = true
      · simp [h1, liftRec]
      · simp only [h1, Bool.false_eq_true, if_false]
        by_cases h2 : (!o.cfg.keep.isEmpty && !Glob.setMatch o.cfg.keep r) = true
        · simp [h2, liftRec]
        · simp only [h2, Bool.false_eq_true, if_false]
          by_cases h3 : (o.cfg.ignoreNotExisting && !w.fs.exists a) = true
          · simp [h3, liftRec]
          · simp only [h3, Bool.false_eq_true, if_false]
            have e5 : Rewrite.filterOk (none : Option Bool) kc.2 = true := rfl
            simp only [applyFilters, List.foldl_nil, e5, Bool.not_true, Bool.false_eq_true, if_false,
              liftRec, excludeRec]
            by_cases h4 : Rewrite.filterOk o.cfg.filter (List.foldl FileFilter.applyOne kc.2 (filterList o w a)) = true
            · simp [h4]
            · simp [h4]

/-- **The run with markers, record by record.** `rewrite_paths` with the `--excl-*` options and
`--filter` returns the records of the run without them, in the same order, each with the filter
list of its own file applied – and dropped if `--filter` then rejects it. -/
theorem records_excluded (o : Opts) (w : World) (ins : List Input) :
    records o w ins = match records o.unfiltered w ins with
      | .panic s => .panic s
      | .ok rs => .ok (rs.filterMap (excludeRec o w)) := by
  have hm : resultMap o.unfiltered w ins = resultMap o w ins := rfl
  have hfl : ∀ a, filterList o.unfiltered w a = [] := fun a => createSrc_inert _ toOpts_none_inert _ _
  unfold records
  rw [rewritePathsF_congr _ _ (filterList o.unfiltered w) (fun _ => []) hfl, hm]
  have e : (resultMap o w ins).map (rewriteKeyF o.cfg w.fs (filterList o w))
      = ((resultMap o w ins).map (rewriteKeyF o.unfiltered.cfg w.fs (fun _ => []))).map (liftRec (excludeRec o w)) := by
    rw [List.map_map]
    exact List.map_congr_left fun kc _ => rewriteKeyF_unfiltered o w kc
  have hs : o.unfiltered.cfg.sourceDir = o.cfg.sourceDir := rfl
  unfold rewritePathsF
  rw [hs, e, collect_lift]
  cases o.cfg.sourceDir with
  | none => rfl
  | some s => by_cases h : UPath.isAbsolute s = true <;> simp [h]

theorem report_unfiltered (o : Opts) (rs : List Rec) : report o.unfiltered rs = report o rs := rfl

/-- the same for the report bytes -/
theorem run_excluded (o : Opts) (w : World) (ins : List Input) :
    run o w ins = match ins.findSome? (crash o.branch) with
      | some s => .panic s
      | none => match records o.unfiltered w ins with
        | .panic s => .panic s
        | .ok rs => report o (rs.filterMap (excludeRec o w)) := by
  unfold run
  rw [records_excluded]
  cases ins.findSome? (crash o.branch) with
  | some s => rfl
  | none => cases records o.unfiltered w ins <;> rfl

theorem run_unfiltered (o : Opts) (w : World) (ins : List Input) :
    run o.unfiltered w ins = match ins.findSome? (crash o.branch) with
      | some s => .panic s
      | none => match records o.unfiltered w ins with
        | .panic s => .panic s
        | .ok rs => report o rs := rfl

/-- without `--filter`: every record of the marker-free run is kept -/
theorem excludeRec_no_filter (o : Opts) (w : World) (h : o.cfg.filter = none) (r : Rec) :
    excludeRec o w r = some { r with cov := applyFilters (filterList o w r.abs) r.cov } := by
  simp [excludeRec, h, Rewrite.filterOk]

/-! ### the filter list of a file and the marker rule -/

/-- the match bits of the file at `abs`, if its text can be read -/
def bitsOf (o : Opts) (src : List Nat) : List Bits := sourceBits (rxOf o.isMatch o.excl) src

theorem filterList_readable (o : Opts) (w : World) (abs : Bytes) (src : List Nat) (h : w.text abs = some src) :
    filterList o w abs = create o.excl.toOpts true (bitsOf o src) := by
  unfold filterList; rw [h]; rfl

theorem removesLine_filterList_iff (o : Opts) (w : World) (abs : Bytes) (src : List Nat)
    (h : w.text abs = some src) (hlen : (bitsOf o src).length ≤ U32MAX) (n : Nat) :
    removesLine (filterList o w abs) n ↔
      1 ≤ n ∧ n ≤ (bitsOf o src).length ∧
        (lineMarker o.excl.toOpts (bitsOf o src) n ∨ inLineRegion o.excl.toOpts (bitsOf o src) n) := by
  rw [filterList_readable o w abs src h]
  constructor
  · intro hr
    have hrange := removes_range o.excl.toOpts (bitsOf o src) hlen true n (Or.inl hr)
    exact ⟨hrange.1, hrange.2, (removesLine_iff _ _ hlen n hrange.1 hrange.2).1 hr⟩
  · rintro ⟨h1, h2, hm⟩
    exact (removesLine_iff _ _ hlen n h1 h2).2 hm

theorem removesBranch_filterList_iff (o : Opts) (w : World) (abs : Bytes) (src : List Nat)
    (h : w.text abs = some src) (hlen : (bitsOf o src).length ≤ U32MAX) (n : Nat) :
    removesBranch (filterList o w abs) n ↔
      1 ≤ n ∧ n ≤ (bitsOf o src).length ∧
        (brMarker o.excl.toOpts (bitsOf o src) n ∨ inBrRegion o.excl.toOpts (bitsOf o src) n) := by
  rw [filterList_readable o w abs src h]
  constructor
  · intro hr
    have hrange := removes_range o.excl.toOpts (bitsOf o src) hlen true n (Or.inr hr)
    exact ⟨hrange.1, hrange.2, (removesBranch_iff _ _ hlen n hrange.1 hrange.2).1 hr⟩
  · rintro ⟨h1, h2, hm⟩
    exact (removesBranch_iff _ _ hlen n h1 h2).2 hm


/-! ### the hash order given by a reference listing (what the driver uses) -/

theorem insertByPos_perm {α β : Type} [DecidableEq α] (ref : List α) (key : β → α) (x : β) :
    ∀ l, (insertByPos ref key x l).Perm (x :: l)
  | [] => List.Perm.refl _
  | y :: ys => by
    unfold insertByPos
    split
    · exact List.Perm.refl _
    · exact ((insertByPos_perm ref key x ys).cons y).trans (List.Perm.swap x y ys)

theorem sortByPos_perm {α β : Type} [DecidableEq α] (ref : List α) (key : β → α) :
    ∀ l : List β, (sortByPos ref key l).Perm l
  | [] => List.Perm.refl _
  | x :: xs => (insertByPos_perm ref key x _).trans ((sortByPos_perm ref key xs).cons x)

/-- whatever listing the harness reads off the real report, the model only rearranges with it -/
theorem HashOrder.ofListing_ok (recOrder : List Bytes) : (HashOrder.ofListing recOrder).OK :=
  ⟨fun l => sortByPos_perm _ _ l⟩


/-! ### the hypotheses are decidable on closed inputs (for the non-vacuity examples) -/

instance {κ α : Type} [DecidableEq κ] (m : List (κ × α)) : Decidable (NodupKeys m) := by
  unfold NodupKeys; infer_instance

instance (c : Cov) : Decidable c.WF :=
  decidable_of_iff (NodupKeys c.lines ∧ NodupKeys c.branches ∧ NodupKeys c.functions ∧
      ∀ kv ∈ c.lines, kv.2 ≤ U64MAX)
    ⟨fun ⟨a, b, c, d⟩ => ⟨a, b, c, d⟩, fun h => ⟨h.1, h.2, h.3, h.4⟩⟩

instance (o : Opts) (ins : List Input) : Decidable (InputsWF o ins) := by
  unfold InputsWF; infer_instance

/-- start-line agreement, over the entries of the function lists -/
def StartsAgreeB (o : Opts) (w : World) (ins : List Input) : Prop :=
  ∀ kc ∈ allRecords o ins, ∀ kc' ∈ allRecords o ins, canonOf o w kc.1 = canonOf o w kc'.1 →
    ∀ nf ∈ kc.2.functions, ∀ ng ∈ kc'.2.functions, nf.1 = ng.1 → nf.2.start = ng.2.start

instance (o : Opts) (w : World) (ins : List Input) : Decidable (StartsAgreeB o w ins) := by
  unfold StartsAgreeB; infer_instance

theorem startsAgree_of_B {o : Opts} {w : World} {ins : List Input} (h : StartsAgreeB o w ins) :
    StartsAgree o w ins := by
  intro kc hkc kc' hkc' hk n f g hf hg
  exact h kc hkc kc' hkc' hk (n, f) (mem_of_get? hf) (n, g) (mem_of_get? hg) rfl


/-! ### helpers for the end-to-end statement -/

theorem foldInto_wf (cs : List Cov) (h : ∀ c ∈ cs, c.WF) (c : Cov) (hc : foldInto none cs = some c) : c.WF := by
  cases cs with
  | nil => simp [foldInto] at hc
  | cons a cs =>
    rw [foldInto_none_cons] at hc
    cases hc
    apply Tree.eval_wf
    intro x hx; rw [combL_leaves] at hx; exact h x (by simpa [Tree.leaves] using hx)

/-- every entry of the result map is a well-formed record -/
theorem resultMap_wf (o : Opts) (w : World) (ins : List Input) (hwf : InputsWF o ins) (k : Key) (c : Cov)
    (h : get? (resultMap o w ins) k = some c) : c.WF := by
  rw [resultMap_entry] at h
  exact foldInto_wf _ (recordsAt_wf hwf k) c h

theorem get?_filter {κ α : Type} [DecidableEq κ] (m : List (κ × α)) (hm : NodupKeys m) (p : κ × α → Bool) (k : κ) :
    get? (m.filter p) k = (get? m k).filter fun v => p (k, v) := by
  induction m with
  | nil => rfl
  | cons kv m ih =>
    obtain ⟨k', v⟩ := kv
    have hm' : NodupKeys m := by unfold NodupKeys keys at *; simp at hm; exact hm.2
    have hk' : k' ∉ keys m := by unfold NodupKeys keys at *; simp at hm; simpa [keys] using hm.1
    by_cases e : k' = k
    · subst e
      have hnone : get? m k' = none := (get?_eq_none_iff m k').2 hk'
      by_cases hp : p (k', v) = true
      · simp [List.filter_cons, hp, Option.filter]
      · have hp' : p (k', v) = false := by simpa using hp
        simp only [List.filter_cons, hp', Bool.false_eq_true, if_false, get?_cons, if_true]
        rw [ih hm', hnone]
        simp [Option.filter, hp']
    · by_cases hp : p (k', v) = true
      · simp [List.filter_cons, hp, e, ih hm']
      · have hp' : p (k', v) = false := by simpa using hp
        simp [List.filter_cons, hp', e, ih hm']

theorem get?_sortByKey' {α : Type} (m : List (Nat × α)) (hn : NodupKeys m) (k : Nat) :
    get? (sortByKey m) k = get? m k :=
  get?_perm (sortByKey_perm m) (nodupKeys_sortByKey m hn) k


end Grcov.Cli.RunAll
