/-
`build` against the record-level reading `listed` (Gcno/Records.lean): the lines of the blocks of
the functions `read_gcno` builds are exactly the lines `listed (version ≥ 80)` collects; and the
version stamp lemmas (on canonical spellings `get_version` is injective).
-/
import GrcovModel.Gcno.Records
import GrcovModel.Lemmas.GcnoFinal
namespace Grcov.Gcno
open Grcov AList Outcome

/-- file `k` has line `l` in some block of some function of the notes -/
def HasLine (g : Notes) (k : Bytes) (l : Nat) : Prop :=
  ∃ f ∈ g.funcs, f.fileName = k ∧ l ∈ f.blocks.flatMap (·.lines)

theorem hasLine_iff (g : Notes) (k : Bytes) (l : Nat) :
    HasLine g k l ↔ ∃ f ∈ g.funcs, f.fileName = k ∧ ∃ b ∈ f.blocks, l ∈ b.lines := by
  unfold HasLine
  constructor
  · rintro ⟨f, hf, hk, hl⟩
    obtain ⟨b, hb, hlb⟩ := List.mem_flatMap.1 hl
    exact ⟨f, hf, hk, b, hb, hlb⟩
  · rintro ⟨f, hf, hk, b, hb, hlb⟩
    exact ⟨f, hf, hk, List.mem_flatMap.2 ⟨b, hb, hlb⟩⟩

/-- the `cur` argument of `listed` that corresponds to the notes built so far -/
def curOf (g : Notes) : Option (Bytes × Nat × Nat) :=
  g.funcs.getLast?.map fun f => (f.fileName, f.startLine, f.endLine)

def rangeOf (version : Nat) (f : Func) : Option (Nat × Nat) :=
  if version ≥ 80 then some (f.startLine, f.endLine) else none

theorem takeLines_lines (version : Nat) (f : Func) : ∀ (items : List LineItem) (mt : Bool) (b : Block),
    (takeLines version f mt items b).lines
      = b.lines ++ listedLines f.fileName (rangeOf version f) mt items := by
  intro items
  induction items with
  | nil => intro mt b; simp [takeLines, listedLines]
  | cons it rest ih =>
    intro mt b
    cases it with
    | line n =>
      simp only [takeLines, listedLines]
      have hr : inRange (rangeOf version f) n
          = !(decide (version ≥ 80) && (decide (n < f.startLine) || decide (n > f.endLine))) := by
        unfold rangeOf inRange
        by_cases hv : version ≥ 80
        · simp only [hv, if_true, decide_true, Bool.true_and]
          by_cases h1 : n < f.startLine <;> by_cases h2 : n > f.endLine <;> simp [h1, h2] <;> omega
        · simp [hv]
      by_cases hm : mt = true
      · subst hm
        by_cases hq : (decide (version ≥ 80) && (decide (n < f.startLine) || decide (n > f.endLine))) = true
        · rw [hr]
          simp only [hq, Bool.not_true, Bool.true_and, Bool.false_or, if_true, Bool.not_false,
            Bool.false_eq_true, if_false]
          exact ih true b
        · have hq' : (decide (version ≥ 80) && (decide (n < f.startLine) || decide (n > f.endLine))) = false := by
            simpa using hq
          rw [hr]
          simp only [hq', Bool.not_true, Bool.false_or, Bool.false_eq_true, if_false, Bool.not_false,
            Bool.true_and, if_true]
          rw [ih true]
          simp
      · have hm' : mt = false := by simpa using hm
        subst hm'
        simp only [Bool.not_false, Bool.true_or, if_true, Bool.false_and, Bool.false_eq_true, if_false]
        exact ih false b
    | file nm =>
      simp only [takeLines, listedLines]
      split
      · simp
      · exact ih _ b

theorem replaceLast_snoc {α : Type} : ∀ (l : List α) (x y : α), replaceLast (l ++ [x]) y = l ++ [y] := by
  intro l
  induction l with
  | nil => intro x y; rfl
  | cons a l ih =>
    intro x y
    cases l with
    | nil => rfl
    | cons b l =>
      have := ih x y
      simp only [List.cons_append] at this ⊢
      simp only [replaceLast, this]

theorem eq_snoc_of_getLast? {α : Type} {l : List α} {x : α} (h : l.getLast? = some x) :
    ∃ init, l = init ++ [x] := List.getLast?_eq_some_iff.1 h

theorem mem_modifyAt_lines (gf : Block → Block) (new : List Nat)
    (hg : ∀ b, (gf b).lines = b.lines ++ new) (l : Nat) :
    ∀ (bl : List Block) (i : Nat), i < bl.length →
      (l ∈ (modifyAt gf bl i).flatMap (·.lines) ↔ l ∈ bl.flatMap (·.lines) ∨ l ∈ new) := by
  intro bl
  induction bl with
  | nil => intro i hi; simp at hi
  | cons b bl ih =>
    intro i hi
    cases i with
    | zero =>
      simp only [modifyAt, List.flatMap_cons, List.mem_append, hg]
      constructor
      · rintro ((h | h) | h)
        · exact Or.inl (Or.inl h)
        · exact Or.inr h
        · exact Or.inl (Or.inr h)
      · rintro ((h | h) | h)
        · exact Or.inl (Or.inl h)
        · exact Or.inr h
        · exact Or.inl (Or.inr h)
    | succ i =>
      simp only [modifyAt, List.flatMap_cons, List.mem_append]
      rw [ih i (by simpa using hi)]
      constructor
      · rintro (h | h | h)
        · exact Or.inl (Or.inl h)
        · exact Or.inl (Or.inr h)
        · exact Or.inr h
      · rintro ((h | h) | h)
        · exact Or.inl h
        · exact Or.inr (Or.inl h)
        · exact Or.inr (Or.inr h)

/-- `read_edges` leaves names, line range and the lines of the blocks alone -/
theorem foldl_addArc_frame (src : Nat) : ∀ (as : List (Nat × Nat)) (f f' : Func),
    Outcome.foldl (fun f (df : Nat × Nat) => addArc f src df.1 df.2) f as = ok f' →
    f'.fileName = f.fileName ∧ f'.startLine = f.startLine ∧ f'.endLine = f.endLine ∧
      f'.blocks.flatMap (·.lines) = f.blocks.flatMap (·.lines) := by
  intro as
  induction as with
  | nil => intro f f' h; simp only [Outcome.foldl, Outcome.ok.injEq] at h; subst h; exact ⟨rfl, rfl, rfl, rfl⟩
  | cons a as ih =>
    intro f f' h
    simp only [Outcome.foldl] at h
    obtain ⟨f1, h1, h2⟩ := bind_eq_ok.1 h
    obtain ⟨e1, e2, e3, e4⟩ := ih f1 f' h2
    unfold addArc at h1
    split at h1
    · simp only [Outcome.ok.injEq] at h1
      subst h1
      refine ⟨e1, e2, e3, ?_⟩
      rw [e4]
      simp only
      rw [modifyAt_lines (fun b => { b with source := b.source ++ [f.arcs.length] }) (fun b => rfl),
        modifyAt_lines _ (fun b => by simp [insertDest])]
    · cases h1

/-- one record: version, `cur`, and the lines gained -/
theorem buildStep_listed {g g' : Notes} {r : NRec} (h : buildStep g r = ok g') (k : Bytes) (l : Nat) :
    g'.version = g.version ∧
    (HasLine g' k l ↔ HasLine g k l ∨ (k, l) ∈ listed (decide (g.version ≥ 80)) (curOf g) [r]) ∧
    ∀ rest, listed (decide (g.version ≥ 80)) (curOf g) (r :: rest)
      = listed (decide (g.version ≥ 80)) (curOf g) [r]
        ++ listed (decide (g.version ≥ 80)) (curOf g') rest := by
  cases r with
  | short => simp [buildStep] at h
  | fail k' => simp [buildStep] at h
  | crash s => simp [buildStep] at h
  | func ident ls cs name file st en =>
    simp only [buildStep, Outcome.ok.injEq] at h
    subst h
    refine ⟨rfl, ?_, ?_⟩
    · simp only [listed, List.not_mem_nil, or_false]
      unfold HasLine
      simp only [List.mem_append, List.mem_singleton]
      constructor
      · rintro ⟨f, hf | hf, hk, hl⟩
        · exact ⟨f, hf, hk, hl⟩
        · subst hf; simp at hl
      · rintro ⟨f, hf, hk, hl⟩
        exact ⟨f, Or.inl hf, hk, hl⟩
    · intro rest
      simp only [listed, List.nil_append, curOf, List.getLast?_append, List.getLast?_singleton,
        Option.some_or, Option.map_some]
  | blocks n =>
    simp only [buildStep] at h
    cases hl : g.funcs.getLast? with
    | none =>
      rw [hl] at h
      simp only [Outcome.ok.injEq] at h
      subst h
      refine ⟨rfl, ?_, ?_⟩
      · simp [listed, curOf, hl]
      · intro rest; simp [listed, curOf, hl]
    | some f =>
      rw [hl] at h
      simp only [Outcome.ok.injEq] at h
      subst h
      obtain ⟨init, hi⟩ := eq_snoc_of_getLast? hl
      refine ⟨rfl, ?_, ?_⟩
      · have hc : curOf g = some (f.fileName, f.startLine, f.endLine) := by simp [curOf, hl]
        rw [hc]
        simp only [listed, List.not_mem_nil, or_false]
        unfold HasLine
        simp only [hi, replaceLast_snoc, List.mem_append, List.mem_singleton]
        constructor
        · rintro ⟨f1, hf | hf, hk, hl1⟩
          · exact ⟨f1, Or.inl hf, hk, hl1⟩
          · subst hf
            refine ⟨f, Or.inr rfl, hk, ?_⟩
            simp only [List.flatMap_append, List.mem_append] at hl1
            rcases hl1 with hl1 | hl1
            · exact hl1
            · obtain ⟨b, hb, hlb⟩ := List.mem_flatMap.1 hl1
              obtain ⟨i, _, hi'⟩ := List.mem_map.1 hb
              subst hi'
              simp at hlb
        · rintro ⟨f1, hf | hf, hk, hl1⟩
          · exact ⟨f1, Or.inl hf, hk, hl1⟩
          · subst hf
            refine ⟨_, Or.inr rfl, hk, ?_⟩
            simp only [List.flatMap_append, List.mem_append]
            exact Or.inl hl1
      · intro rest
        have hc : curOf g = some (f.fileName, f.startLine, f.endLine) := by simp [curOf, hl]
        rw [hc]
        simp only [listed, List.nil_append, curOf, hi, replaceLast_snoc, List.getLast?_append,
          List.getLast?_singleton, Option.some_or, Option.map_some]
  | arcs src as =>
    simp only [buildStep] at h
    cases hl : g.funcs.getLast? with
    | none =>
      rw [hl] at h
      simp only [Outcome.ok.injEq] at h
      subst h
      refine ⟨rfl, ?_, ?_⟩
      · simp [listed, curOf, hl]
      · intro rest; simp [listed, curOf, hl]
    | some f =>
      rw [hl] at h
      simp only at h
      split at h
      · obtain ⟨f', h1, h2⟩ := bind_eq_ok.1 h
        simp only [Outcome.ok.injEq] at h2
        subst h2
        obtain ⟨e1, e2, e3, e4⟩ := foldl_addArc_frame src as f f' h1
        obtain ⟨init, hi⟩ := eq_snoc_of_getLast? hl
        have hc : curOf g = some (f.fileName, f.startLine, f.endLine) := by simp [curOf, hl]
        refine ⟨rfl, ?_, ?_⟩
        · rw [hc]
          simp only [listed, List.not_mem_nil, or_false]
          unfold HasLine
          simp only [hi, replaceLast_snoc, List.mem_append, List.mem_singleton]
          constructor
          · rintro ⟨f1, hf | hf, hk, hl1⟩
            · exact ⟨f1, Or.inl hf, hk, hl1⟩
            · subst hf
              exact ⟨f, Or.inr rfl, e1 ▸ hk, e4 ▸ hl1⟩
          · rintro ⟨f1, hf | hf, hk, hl1⟩
            · exact ⟨f1, Or.inl hf, hk, hl1⟩
            · subst hf
              exact ⟨f', Or.inr rfl, e1.symm ▸ hk, e4.symm ▸ hl1⟩
        · intro rest
          rw [hc]
          simp only [listed, List.nil_append, curOf, hi, replaceLast_snoc, List.getLast?_append,
            List.getLast?_singleton, Option.some_or, Option.map_some, e1, e2, e3]
      · cases h
  | lines blk items =>
    simp only [buildStep] at h
    cases hl : g.funcs.getLast? with
    | none =>
      rw [hl] at h
      simp only [Outcome.ok.injEq] at h
      subst h
      refine ⟨rfl, ?_, ?_⟩
      · simp [listed, curOf, hl]
      · intro rest; simp [listed, curOf, hl]
    | some f =>
      rw [hl] at h
      simp only at h
      split at h
      · rename_i hblk
        simp only [Outcome.ok.injEq] at h
        subst h
        obtain ⟨init, hi⟩ := eq_snoc_of_getLast? hl
        have hc : curOf g = some (f.fileName, f.startLine, f.endLine) := by simp [curOf, hl]
        have hrange : (if decide (g.version ≥ 80) = true then some (f.startLine, f.endLine) else none)
            = rangeOf g.version f := by
          unfold rangeOf; by_cases hv : g.version ≥ 80 <;> simp [hv]
        refine ⟨rfl, ?_, ?_⟩
        · rw [hc]
          simp only [listed, List.append_nil, List.mem_map, Prod.mk.injEq, hrange]
          unfold HasLine
          simp only [hi, replaceLast_snoc, List.mem_append, List.mem_singleton]
          have key := mem_modifyAt_lines (takeLines g.version f true items)
            (listedLines f.fileName (rangeOf g.version f) true items)
            (fun b => takeLines_lines g.version f items true b) l f.blocks blk hblk
          constructor
          · rintro ⟨f1, hf | hf, hk, hl1⟩
            · exact Or.inl ⟨f1, Or.inl hf, hk, hl1⟩
            · subst hf
              simp only at hk hl1
              rcases key.1 hl1 with h1 | h1
              · exact Or.inl ⟨f, Or.inr rfl, hk, h1⟩
              · exact Or.inr ⟨l, h1, hk, rfl⟩
          · rintro (⟨f1, hf | hf, hk, hl1⟩ | ⟨l', h1, hk, hl'⟩)
            · exact ⟨f1, Or.inl hf, hk, hl1⟩
            · subst hf
              exact ⟨_, Or.inr rfl, hk, key.2 (Or.inl hl1)⟩
            · subst hl'
              exact ⟨_, Or.inr rfl, hk, key.2 (Or.inr h1)⟩
        · intro rest
          rw [hc]
          simp only [listed, List.append_nil, curOf, hi, replaceLast_snoc, List.getLast?_append,
            List.getLast?_singleton, Option.some_or, Option.map_some]
      · cases h

/-- the whole fold -/
theorem foldl_buildStep_listed (k : Bytes) (l : Nat) : ∀ (recs : List NRec) (g0 g : Notes),
    Outcome.foldl buildStep g0 recs = ok g →
    g.version = g0.version ∧
    (HasLine g k l ↔ HasLine g0 k l ∨ (k, l) ∈ listed (decide (g0.version ≥ 80)) (curOf g0) recs) := by
  intro recs
  induction recs with
  | nil =>
    intro g0 g h
    simp only [Outcome.foldl, Outcome.ok.injEq] at h
    subst h
    simp [listed]
  | cons r recs ih =>
    intro g0 g h
    simp only [Outcome.foldl] at h
    obtain ⟨g1, h1, h2⟩ := bind_eq_ok.1 h
    obtain ⟨hv1, hl1, hsplit⟩ := buildStep_listed h1 k l
    obtain ⟨hv2, hl2⟩ := ih g1 g h2
    refine ⟨hv2.trans hv1, ?_⟩
    rw [hl2, hl1, hsplit recs, hv1, List.mem_append]
    constructor
    · rintro ((h | h) | h)
      · exact Or.inl h
      · exact Or.inr (Or.inl h)
      · exact Or.inr (Or.inr h)
    · rintro (h | h | h)
      · exact Or.inl (Or.inl h)
      · exact Or.inl (Or.inr h)
      · exact Or.inr h

/-- **`read_gcno` keeps exactly the listed lines that pass the range test.** -/
theorem build_hasLine_iff {version checksum : Nat} {recs : List NRec} {g : Notes}
    (h : build version checksum recs = ok g) (k : Bytes) (l : Nat) :
    HasLine g k l ↔ (k, l) ∈ listedKept version recs := by
  unfold build at h
  obtain ⟨_, hl⟩ := foldl_buildStep_listed k l recs _ g h
  rw [hl]
  unfold listedKept
  simp only [curOf, List.getLast?_nil, Option.map_none]
  constructor
  · rintro (⟨f, hf, _⟩ | h)
    · cases hf
    · exact h
  · exact Or.inr

/-- without the range test more is listed, never less -/
theorem listedLines_filter_subset (fname : Bytes) (range : Option (Nat × Nat)) (l : Nat) :
    ∀ (items : List LineItem) (mt : Bool),
      l ∈ listedLines fname range mt items → l ∈ listedLines fname none mt items := by
  intro items
  induction items with
  | nil => intro mt h; exact h
  | cons it rest ih =>
    intro mt h
    cases it with
    | line n =>
      cases mt with
      | false =>
        simp only [listedLines, Bool.false_and, Bool.false_eq_true, if_false] at h ⊢
        exact ih false h
      | true =>
        simp only [listedLines, Bool.true_and] at h ⊢
        have hn : inRange none n = true := rfl
        rw [hn]
        simp only [if_true]
        split at h
        · rcases List.mem_cons.1 h with h | h
          · exact List.mem_cons.2 (Or.inl h)
          · exact List.mem_cons.2 (Or.inr (ih true h))
        · exact List.mem_cons.2 (Or.inr (ih true h))
    | file nm =>
      simp only [listedLines] at h ⊢
      split
      · rename_i hn; simp [hn] at h
      · rename_i hn; simp only [hn, if_false] at h; exact ih _ h

theorem listed_filter_subset (p : Bytes × Nat) : ∀ (recs : List NRec) (cur : Option (Bytes × Nat × Nat)),
    p ∈ listed true cur recs → p ∈ listed false cur recs := by
  intro recs
  induction recs with
  | nil => intro cur h; exact h
  | cons r recs ih =>
    intro cur h
    cases r with
    | func ident ls cs name file st en => simp only [listed] at h ⊢; exact ih _ h
    | lines blk items =>
      cases cur with
      | none => simp only [listed] at h ⊢; exact ih _ h
      | some c =>
        obtain ⟨fn, st, en⟩ := c
        simp only [listed, if_true, Bool.false_eq_true, if_false, List.mem_append, List.mem_map] at h ⊢
        rcases h with ⟨l, hl, e⟩ | h
        · exact Or.inl ⟨l, listedLines_filter_subset fn _ l items true hl, e⟩
        · exact Or.inr (ih _ h)
    | blocks n => cases cur <;> (simp only [listed] at h ⊢; exact ih _ h)
    | arcs s as => cases cur <;> (simp only [listed] at h ⊢; exact ih _ h)
    | short => cases cur <;> (simp only [listed] at h ⊢; exact ih _ h)
    | fail k' => cases cur <;> (simp only [listed] at h ⊢; exact ih _ h)
    | crash s => cases cur <;> (simp only [listed] at h ⊢; exact ih _ h)

/-! ### stamps -/

theorem getVersion_canon_inj (c2 c1 c0 d2 d1 d0 : Nat)
    (h : stampCanon [c2, c1, c0, 42] = true) (h' : stampCanon [d2, d1, d0, 42] = true)
    (e : getVersion c0 c1 c2 = getVersion d0 d1 d2) : c2 = d2 ∧ c1 = d1 ∧ c0 = d0 := by
  simp only [stampCanon, isDig, decide_true, Bool.true_and, Bool.and_eq_true, Bool.or_eq_true,
    decide_eq_true_eq] at h h'
  unfold getVersion digit at e
  obtain ⟨⟨⟨hc0a, hc0b⟩, hc1a, hc1b⟩, hc⟩ := h
  obtain ⟨⟨⟨hd0a, hd0b⟩, hd1a, hd1b⟩, hd⟩ := h'
  split at e <;> split at e <;> simp only [Outcome.ok.injEq] at e <;> omega

end Grcov.Gcno
