/-
Lemmas about GrcovModel/Regex/Match.lean: the executable matcher `adv` / `isMatch` decides the
specification `M` / `Matches`, for every pattern and every haystack.
-/
import GrcovModel.Regex.Match
namespace Grcov.Regex

/-! ### lists as sets -/

theorem mem_unionL {xs ys : List Nat} {j : Nat} : j ∈ unionL xs ys ↔ j ∈ xs ∨ j ∈ ys := by
  unfold unionL
  simp only [List.mem_append, List.mem_filter, List.contains_eq_mem, Bool.not_eq_eq_eq_not,
    Bool.not_true, decide_eq_false_iff_not]
  by_cases h : j ∈ xs <;> simp [h]

theorem mem_stepChar {h : Chars} {p : Nat → Bool} {S : List Nat} {j : Nat} :
    j ∈ stepChar h p S ↔ ∃ i ∈ S, ∃ c, h[i]? = some c ∧ p c = true ∧ j = i + 1 := by
  unfold stepChar
  simp only [List.mem_filterMap]
  constructor
  · rintro ⟨i, hi, hj⟩
    refine ⟨i, hi, ?_⟩
    cases hc : h[i]? with
    | none => simp [hc] at hj
    | some c =>
      simp only [hc] at hj
      by_cases hp : p c = true
      · simp only [hp, if_true, Option.some.injEq] at hj
        exact ⟨c, rfl, hp, hj.symm⟩
      · simp [hp] at hj
  · rintro ⟨i, hi, c, hc, hp, rfl⟩
    exact ⟨i, hi, by simp [hc, hp]⟩

/-! ### iteration -/

theorem Iter_add {R : Nat → Nat → Prop} : ∀ {n m i k j : Nat},
    Iter R n i k → Iter R m k j → Iter R (n + m) i j
  | 0, m, i, k, j, h1, h2 => by
    simp only [Iter] at h1; subst h1; simpa using h2
  | n + 1, m, i, k, j, h1, h2 => by
    obtain ⟨k', hr, h1'⟩ := h1
    have : n + 1 + m = (n + m) + 1 := by omega
    rw [this]
    exact ⟨k', hr, Iter_add h1' h2⟩

theorem Iter_split {R : Nat → Nat → Prop} : ∀ {n m i j : Nat},
    Iter R (n + m) i j → ∃ k, Iter R n i k ∧ Iter R m k j
  | 0, m, i, j, h => ⟨i, rfl, by simpa using h⟩
  | n + 1, m, i, j, h => by
    have e : n + 1 + m = (n + m) + 1 := by omega
    rw [e] at h
    obtain ⟨k', hr, h'⟩ := h
    obtain ⟨k, h1, h2⟩ := Iter_split h'
    exact ⟨k, ⟨k', hr, h1⟩, h2⟩

theorem Iter_one {R : Nat → Nat → Prop} {i j : Nat} : Iter R 1 i j ↔ R i j := by
  constructor
  · rintro ⟨k, hr, hk⟩; simp only [Iter] at hk; subst hk; exact hr
  · intro h; exact ⟨j, h, rfl⟩

theorem Iter_snoc {R : Nat → Nat → Prop} {n i k j : Nat} (h1 : Iter R n i k) (h2 : R k j) :
    Iter R (n + 1) i j :=
  Iter_add h1 (Iter_one.2 h2)

theorem Iter_le {R : Nat → Nat → Prop} (hle : ∀ p q, R p q → p ≤ q) :
    ∀ {n i j : Nat}, Iter R n i j → i ≤ j
  | 0, i, j, h => by simp only [Iter] at h; omega
  | n + 1, i, j, ⟨k, hr, h⟩ => Nat.le_trans (hle _ _ hr) (Iter_le hle h)

theorem Iter_bound {R : Nat → Nat → Prop} {L : Nat} (hb : ∀ p q, R p q → p ≤ L → q ≤ L) :
    ∀ {n i j : Nat}, Iter R n i j → i ≤ L → j ≤ L
  | 0, i, j, h, hi => by simp only [Iter] at h; omega
  | n + 1, i, j, ⟨k, hr, h⟩, hi => Iter_bound hb h (hb _ _ hr hi)

/-- steps that do not move can be dropped: what is reachable at all is reachable in at most
`j - i` steps -/
theorem Iter_compress {R : Nat → Nat → Prop} (hle : ∀ p q, R p q → p ≤ q) :
    ∀ {n i j : Nat}, Iter R n i j → ∃ m, m ≤ j - i ∧ Iter R m i j
  | 0, i, j, h => ⟨0, Nat.zero_le _, h⟩
  | n + 1, i, j, ⟨k, hr, h⟩ => by
    obtain ⟨m, hm, hI⟩ := Iter_compress hle h
    have hik := hle _ _ hr
    have hkj := Iter_le hle hI
    by_cases hk : k = i
    · subst hk; exact ⟨m, hm, hI⟩
    · exact ⟨m + 1, by omega, k, hr, hI⟩

theorem Iter_congr {R R' : Nat → Nat → Prop} (h : ∀ p q, R p q ↔ R' p q) :
    ∀ {n i j : Nat}, Iter R n i j ↔ Iter R' n i j
  | 0, i, j => Iff.rfl
  | n + 1, i, j => by
    simp only [Iter]
    constructor
    · rintro ⟨k, hr, hI⟩; exact ⟨k, (h _ _).1 hr, Iter_congr h |>.1 hI⟩
    · rintro ⟨k, hr, hI⟩; exact ⟨k, (h _ _).2 hr, Iter_congr h |>.2 hI⟩

/-! ### set transformers that compute a relation -/

/-- `f` computes the image of a set of positions `≤ L` under `R` -/
def Computes (L : Nat) (f : List Nat → List Nat) (R : Nat → Nat → Prop) : Prop :=
  ∀ S : List Nat, (∀ i ∈ S, i ≤ L) → ∀ j, j ∈ f S ↔ ∃ i ∈ S, R i j

/-- `R` only moves forward and stays inside the haystack -/
def Forward (L : Nat) (R : Nat → Nat → Prop) : Prop :=
  ∀ i j, R i j → i ≤ j ∧ (i ≤ L → j ≤ L)

theorem Computes.bounded {L : Nat} {f : List Nat → List Nat} {R : Nat → Nat → Prop}
    (hc : Computes L f R) (hf : Forward L R) (S : List Nat) (hS : ∀ i ∈ S, i ≤ L) :
    ∀ j ∈ f S, j ≤ L := by
  intro j hj
  obtain ⟨i, hi, hr⟩ := (hc S hS j).1 hj
  exact (hf i j hr).2 (hS i hi)

theorem Forward.iter {L : Nat} {R : Nat → Nat → Prop} (hf : Forward L R) (n : Nat) :
    Forward L (Iter R n) := fun _ _ h =>
  ⟨Iter_le (fun p q r => (hf p q r).1) h, Iter_bound (fun p q r => (hf p q r).2) h⟩

theorem exactly_computes {L : Nat} {f : List Nat → List Nat} {R : Nat → Nat → Prop}
    (hc : Computes L f R) (hf : Forward L R) : ∀ n, Computes L (exactly f n) (Iter R n)
  | 0 => fun S _ j => by
    simp only [exactly, Iter]
    constructor
    · intro h; exact ⟨j, h, rfl⟩
    · rintro ⟨i, hi, rfl⟩; exact hi
  | n + 1 => fun S hS j => by
    simp only [exactly]
    by_cases hE : S.isEmpty = true
    · have : S = [] := List.isEmpty_iff.1 hE
      subst this
      simp
    · simp only [hE, Bool.false_eq_true, if_false]
      rw [exactly_computes hc hf n (f S) (hc.bounded hf S hS) j]
      constructor
      · rintro ⟨k, hk, hI⟩
        obtain ⟨i, hi, hr⟩ := (hc S hS k).1 hk
        exact ⟨i, hi, k, hr, hI⟩
      · rintro ⟨i, hi, k, hr, hI⟩
        exact ⟨k, (hc S hS k).2 ⟨i, hi, hr⟩, hI⟩

theorem closed_iter {R : Nat → Nat → Prop} {S : List Nat} (hcl : ∀ i ∈ S, ∀ j, R i j → j ∈ S) :
    ∀ {n i j : Nat}, i ∈ S → Iter R n i j → j ∈ S
  | 0, i, j, hi, h => by simp only [Iter] at h; subst h; exact hi
  | n + 1, i, j, hi, ⟨k, hr, h⟩ => closed_iter hcl (hcl i hi k hr) h

theorem upTo_computes {L : Nat} {f : List Nat → List Nat} {R : Nat → Nat → Prop}
    (hc : Computes L f R) (hf : Forward L R) :
    ∀ n, Computes L (upTo f n) (fun i j => ∃ m, m ≤ n ∧ Iter R m i j)
  | 0 => fun S _ j => by
    simp only [upTo]
    constructor
    · intro h; exact ⟨j, h, 0, Nat.le_refl _, rfl⟩
    · rintro ⟨i, hi, m, hm, hI⟩
      have : m = 0 := by omega
      subst this
      simp only [Iter] at hI; subst hI; exact hi
  | n + 1 => fun S hS j => by
    simp only [upTo]
    by_cases hfix : (f S).all (fun y => S.contains y) = true
    · simp only [hfix, if_true]
      have hcl : ∀ i ∈ S, ∀ k, R i k → k ∈ S := by
        intro i hi k hr
        have hk : k ∈ f S := (hc S hS k).2 ⟨i, hi, hr⟩
        have := List.all_eq_true.1 hfix k hk
        simpa using this
      constructor
      · intro h; exact ⟨j, h, 0, Nat.zero_le _, rfl⟩
      · rintro ⟨i, hi, m, _, hI⟩; exact closed_iter hcl hi hI
    · simp only [hfix, Bool.false_eq_true, if_false]
      have hb : ∀ i ∈ unionL S (f S), i ≤ L := by
        intro i hi
        rcases mem_unionL.1 hi with h | h
        · exact hS i h
        · exact hc.bounded hf S hS i h
      rw [upTo_computes hc hf n (unionL S (f S)) hb j]
      constructor
      · rintro ⟨i, hi, m, hm, hI⟩
        rcases mem_unionL.1 hi with h | h
        · exact ⟨i, h, m, by omega, hI⟩
        · obtain ⟨i0, hi0, hr⟩ := (hc S hS i).1 h
          exact ⟨i0, hi0, m + 1, by omega, i, hr, hI⟩
      · rintro ⟨i, hi, m, hm, hI⟩
        cases m with
        | zero => exact ⟨i, mem_unionL.2 (Or.inl hi), 0, Nat.zero_le _, hI⟩
        | succ m =>
          obtain ⟨k, hr, hI'⟩ := hI
          exact ⟨k, mem_unionL.2 (Or.inr ((hc S hS k).2 ⟨i, hi, hr⟩)), m, by omega, hI'⟩

/-! ### the specification only moves forward, inside the haystack -/

theorem getElem?_some_lt {h : Chars} {i c : Nat} (hc : h[i]? = some c) : i < h.length := by
  rcases Nat.lt_or_ge i h.length with hl | hl
  · exact hl
  · rw [List.getElem?_eq_none hl] at hc; cases hc

theorem M_forward (h : Chars) : ∀ a : Ast, Forward h.length (M h a)
  | .empty => fun i j hm => by simp only [M] at hm; omega
  | .lit c => fun i j hm => by
    simp only [M] at hm; have := getElem?_some_lt hm.1; omega
  | .dot => fun i j hm => by
    simp only [M] at hm; obtain ⟨c, hc, _, rfl⟩ := hm; have := getElem?_some_lt hc; omega
  | .cls _ _ => fun i j hm => by
    simp only [M] at hm; obtain ⟨c, hc, _, rfl⟩ := hm; have := getElem?_some_lt hc; omega
  | .perl _ _ => fun i j hm => by
    simp only [M] at hm; obtain ⟨c, hc, _, rfl⟩ := hm; have := getElem?_some_lt hc; omega
  | .look _ => fun i j hm => by simp only [M] at hm; omega
  | .group a => fun i j hm => by simp only [M] at hm; exact M_forward h a i j hm
  | .cat a b => fun i j hm => by
    simp only [M] at hm
    obtain ⟨k, h1, h2⟩ := hm
    have f1 := M_forward h a i k h1
    have f2 := M_forward h b k j h2
    exact ⟨by omega, fun hi => f2.2 (f1.2 hi)⟩
  | .alt a b => fun i j hm => by
    simp only [M] at hm
    rcases hm with hm | hm
    · exact M_forward h a i j hm
    · exact M_forward h b i j hm
  | .rep _ _ a => fun i j hm => by
    simp only [M] at hm
    obtain ⟨n, _, _, hI⟩ := hm
    exact (M_forward h a).iter n i j hI

/-! ### the matcher computes the specification -/

theorem adv_computes (h : Chars) : ∀ a : Ast, Computes h.length (adv h a) (M h a)
  | .empty => fun S _ j => by
    simp only [adv, M]
    exact ⟨fun hj => ⟨j, hj, rfl⟩, fun ⟨i, hi, e⟩ => e ▸ hi⟩
  | .lit c => fun S _ j => by
    simp only [adv, M, mem_stepChar]
    constructor
    · rintro ⟨i, hi, x, hx, hp, rfl⟩
      have : x = c := by simpa using hp
      subst this; exact ⟨i, hi, hx, rfl⟩
    · rintro ⟨i, hi, hx, rfl⟩
      exact ⟨i, hi, c, hx, by simp, rfl⟩
  | .dot => fun S _ j => by
    simp only [adv, M, mem_stepChar]
    constructor
    · rintro ⟨i, hi, x, hx, hp, rfl⟩
      exact ⟨i, hi, x, hx, by simpa using hp, rfl⟩
    · rintro ⟨i, hi, x, hx, hp, rfl⟩
      exact ⟨i, hi, x, hx, by simpa using hp, rfl⟩
  | .cls neg items => fun S _ j => by
    simp only [adv, M, mem_stepChar]
  | .perl k neg => fun S _ j => by
    simp only [adv, M, mem_stepChar]
  | .look l => fun S _ j => by
    simp only [adv, M, List.mem_filter]
    constructor
    · rintro ⟨hj, hl⟩; exact ⟨j, hj, hl, rfl⟩
    · rintro ⟨i, hi, hl, rfl⟩; exact ⟨hi, hl⟩
  | .group a => fun S hS j => by
    simp only [adv, M]; exact adv_computes h a S hS j
  | .cat a b => fun S hS j => by
    simp only [adv, M]
    rw [adv_computes h b (adv h a S) ((adv_computes h a).bounded (M_forward h a) S hS) j]
    constructor
    · rintro ⟨k, hk, hb⟩
      obtain ⟨i, hi, ha⟩ := (adv_computes h a S hS k).1 hk
      exact ⟨i, hi, k, ha, hb⟩
    · rintro ⟨i, hi, k, ha, hb⟩
      exact ⟨k, (adv_computes h a S hS k).2 ⟨i, hi, ha⟩, hb⟩
  | .alt a b => fun S hS j => by
    simp only [adv, M, mem_unionL]
    rw [adv_computes h a S hS j, adv_computes h b S hS j]
    constructor
    · rintro (⟨i, hi, hm⟩ | ⟨i, hi, hm⟩)
      · exact ⟨i, hi, Or.inl hm⟩
      · exact ⟨i, hi, Or.inr hm⟩
    · rintro ⟨i, hi, hm | hm⟩
      · exact Or.inl ⟨i, hi, hm⟩
      · exact Or.inr ⟨i, hi, hm⟩
  | .rep lo hi a => fun S hS j => by
    have hc := adv_computes h a
    have hf := M_forward h a
    have hE := exactly_computes hc hf lo
    have hEb : ∀ i ∈ exactly (fun T => adv h a T) lo S, i ≤ h.length :=
      hE.bounded (hf.iter lo) S hS
    cases hi with
    | some m =>
      simp only [adv, M]
      by_cases hlt : m < lo
      · simp only [hlt, if_true, List.not_mem_nil, false_iff]
        rintro ⟨i, _, n, h1, h2, _⟩
        have := h2 m rfl
        omega
      · simp only [hlt, if_false]
        rw [upTo_computes hc hf (m - lo) _ hEb j]
        constructor
        · rintro ⟨k, hk, n, hn, hI⟩
          obtain ⟨i, hi, hI0⟩ := (hE S hS k).1 hk
          refine ⟨i, hi, lo + n, by omega, ?_, Iter_add hI0 hI⟩
          intro m' hm'; cases hm'; omega
        · rintro ⟨i, hi, n, h1, h2, hI⟩
          have h2' := h2 m rfl
          obtain ⟨d, rfl⟩ : ∃ d, n = lo + d := ⟨n - lo, by omega⟩
          obtain ⟨k, hI0, hI1⟩ := Iter_split hI
          exact ⟨k, (hE S hS k).2 ⟨i, hi, hI0⟩, d, by omega, hI1⟩
    | none =>
      simp only [adv, M]
      rw [upTo_computes hc hf h.length _ hEb j]
      constructor
      · rintro ⟨k, hk, n, _, hI⟩
        obtain ⟨i, hi, hI0⟩ := (hE S hS k).1 hk
        exact ⟨i, hi, lo + n, by omega, (by intro m' hm'; cases hm'), Iter_add hI0 hI⟩
      · rintro ⟨i, hi, n, h1, _, hI⟩
        obtain ⟨d, rfl⟩ : ∃ d, n = lo + d := ⟨n - lo, by omega⟩
        obtain ⟨k, hI0, hI1⟩ := Iter_split hI
        have hk : k ∈ exactly (fun T => adv h a T) lo S := (hE S hS k).2 ⟨i, hi, hI0⟩
        obtain ⟨m, hm, hI2⟩ := Iter_compress (fun p q r => (hf p q r).1) hI1
        have hjL : j ≤ h.length := ((hf.iter d) k j hI1).2 (hEb k hk)
        exact ⟨k, hk, m, by omega, hI2⟩

/-- **The matcher decides the specification.** -/
theorem isMatch_iff (a : Ast) (h : Chars) : isMatch a h = true ↔ Matches a h := by
  unfold isMatch Matches
  have hS : ∀ i ∈ List.range (h.length + 1), i ≤ h.length := by
    intro i hi; have := List.mem_range.1 hi; omega
  constructor
  · intro hne
    cases hl : adv h a (List.range (h.length + 1)) with
    | nil => simp [hl] at hne
    | cons j r =>
      have hj : j ∈ adv h a (List.range (h.length + 1)) := by rw [hl]; exact List.mem_cons_self
      obtain ⟨i, hi, hm⟩ := (adv_computes h a _ hS j).1 hj
      exact ⟨i, j, hS i hi, hm⟩
  · rintro ⟨i, j, hi, hm⟩
    have hj : j ∈ adv h a (List.range (h.length + 1)) :=
      (adv_computes h a _ hS j).2 ⟨i, List.mem_range.2 (by omega), hm⟩
    cases hl : adv h a (List.range (h.length + 1)) with
    | nil => rw [hl] at hj; cases hj
    | cons _ _ => simp

theorem isMatch_false_iff (a : Ast) (h : Chars) : isMatch a h = false ↔ ¬ Matches a h := by
  rw [← isMatch_iff]; cases isMatch a h <;> simp

end Grcov.Regex

