/-
`finalize` over several functions: the count a file reports for a line is the SUM of what the
functions of that file contribute (`mergeLines`), and `stop` treats every function on its own
counters.
-/
import GrcovModel.Lemmas.GcnoEndToEnd
namespace Grcov.Gcno
open Grcov AList Outcome

/-- the count of line `l` in file `k` of a result, 0 when absent -/
def lineAt (r : List (Bytes × Cov)) (k : Bytes) (l : Nat) : Nat :=
  ((get? r k).bind fun c => get? c.lines l).getD 0

/-- what one function contributes to line `l` of its file: its `add_line_count` value when it was
entered, nothing otherwise -/
def fnLine (f : Func) (c : Cnt) (l : Nat) : Nat :=
  match addLineCount f c with
  | .ok (true, ls) => (get? ls l).getD 0
  | _ => 0

theorem mergeLines_getD : ∀ (ls m m' : List (Nat × Nat)), NodupKeys ls → mergeLines m ls = ok m' →
    ∀ l, (get? m' l).getD 0 = (get? m l).getD 0 + (get? ls l).getD 0 := by
  intro ls
  induction ls with
  | nil => intro m m' _ h l; simp only [mergeLines, Outcome.ok.injEq] at h; subst h; simp
  | cons p ls ih =>
    obtain ⟨l0, n0⟩ := p
    intro m m' hn h l
    have hn' : NodupKeys ls := by
      unfold NodupKeys keys at *; simp only [List.map_cons, List.nodup_cons] at hn; exact hn.2
    have hl0 : get? ls l0 = none := by
      rw [get?_eq_none_iff]
      unfold NodupKeys keys at *; simp only [List.map_cons, List.nodup_cons] at hn; exact hn.1
    simp only [mergeLines] at h
    by_cases e : l0 = l
    · subst e
      simp only [get?_cons, if_true, Option.getD_some]
      cases hm : get? m l0 with
      | some v =>
        rw [hm] at h
        simp only at h
        split at h
        · cases h
        · rw [ih _ _ hn' h l0, get?_set, if_pos rfl, hl0]; simp
      | none =>
        rw [hm] at h
        simp only at h
        rw [ih _ _ hn' h l0, get?_set, if_pos rfl, hl0]; simp
    · simp only [get?_cons, e, if_false]
      split at h
      · split at h
        · cases h
        · rw [ih _ _ hn' h l, get?_set, if_neg e]
      · rw [ih _ _ hn' h l, get?_set, if_neg e]

theorem mergeZeroLines_getD : ∀ (ls m : List (Nat × Nat)) (l : Nat),
    (get? (mergeZeroLines m ls) l).getD 0 = (get? m l).getD 0 := by
  intro ls
  induction ls with
  | nil => intro m l; rfl
  | cons p ls ih =>
    obtain ⟨l0, n0⟩ := p
    intro m l
    simp only [mergeZeroLines]
    rw [ih]
    split
    · rfl
    · rename_i hnone
      rw [get?_set]
      by_cases e : l0 = l
      · subst e; simp [hnone]
      · simp [e]

theorem nodupKeys_addLineCount {f : Func} {c : Cnt} {ls : List (Nat × Nat)}
    (h : addLineCount f c = ok (true, ls)) : NodupKeys ls := by
  unfold addLineCount at h
  split at h
  · obtain ⟨ls', g1, g2⟩ := bind_eq_ok.1 h
    cases g2
    unfold NodupKeys
    rw [keys_lineCounts _ _ _ _ _ g1]
    exact nodupKeys_linesToBlock _
  · cases h

/-- one function: its file gains its contribution, every other file is untouched -/
theorem finStep_lineAt {br : Bool} {res res' : List (Bytes × Cov)} {f : Func} {c : Cnt}
    (h : finStep br res (f, c) = ok res') (k : Bytes) (l : Nat) :
    lineAt res' k l = lineAt res k l + (if f.fileName = k then fnLine f c l else 0) := by
  unfold finStep at h
  simp only at h
  obtain ⟨⟨ex, ls⟩, hal, h⟩ := bind_eq_ok.1 h
  simp only at h
  obtain ⟨lsm, hml, h⟩ := bind_eq_ok.1 h
  obtain ⟨brs, _, h⟩ := bind_eq_ok.1 h
  simp only [Outcome.ok.injEq] at h
  subst h
  unfold lineAt
  rw [get?_set]
  by_cases e : f.fileName = k
  · subst e
    simp only [if_true, Option.bind_some]
    have hfn : fnLine f c l = if ex then (get? ls l).getD 0 else 0 := by
      unfold fnLine; rw [hal]; cases ex <;> rfl
    rw [hfn]
    cases ex with
    | true =>
      simp only [if_true] at hml ⊢
      rw [mergeLines_getD ls _ lsm (nodupKeys_addLineCount hal) hml l]
      cases get? res f.fileName <;> simp
    | false =>
      simp only [Bool.false_eq_true, if_false, Outcome.ok.injEq] at hml ⊢
      subst hml
      rw [mergeZeroLines_getD]
      cases get? res f.fileName <;> simp
  · simp only [e, if_false, Nat.add_zero]

theorem foldl_finStep_lineAt (br : Bool) (k : Bytes) (l : Nat) :
    ∀ (fs : List (Func × Cnt)) (res r : List (Bytes × Cov)),
      Outcome.foldl (finStep br) res fs = ok r →
      lineAt r k l = lineAt res k l
        + ((fs.filter fun fc => decide (fc.1.fileName = k)).map fun fc => fnLine fc.1 fc.2 l).sum := by
  intro fs
  induction fs with
  | nil => intro res r h; simp only [Outcome.foldl, Outcome.ok.injEq] at h; subst h; simp
  | cons fc fs ih =>
    obtain ⟨f, c⟩ := fc
    intro res r h
    simp only [Outcome.foldl] at h
    obtain ⟨res1, h1, h2⟩ := bind_eq_ok.1 h
    rw [ih res1 r h2, finStep_lineAt h1 k l]
    by_cases e : f.fileName = k
    · simp only [e, if_true, List.filter_cons, decide_true, List.map_cons, List.sum_cons]
      omega
    · simp only [e, if_false, List.filter_cons, decide_false, Nat.add_zero]
      rfl

/-- `stop` treats every function on its own counters -/
theorem stopGo_pointwise (version : Nat) (st : State) : ∀ (fs : List Func) (i : Nat)
    (out : List (Func × Cnt)), stopGo version st fs i = ok out →
    out.length = fs.length ∧
    ∀ (j : Nat) (f : Func), fs[j]? = some f →
      ∃ fc, out[j]? = some fc ∧ countOnTree version f (st (i + j)) = ok fc := by
  intro fs
  induction fs with
  | nil =>
    intro i out h
    simp only [stopGo, Outcome.ok.injEq] at h
    subst h
    exact ⟨rfl, fun j f hj => by simp at hj⟩
  | cons f fs ih =>
    intro i out h
    simp only [stopGo] at h
    obtain ⟨fc, h1, h⟩ := bind_eq_ok.1 h
    obtain ⟨r, h2, h⟩ := bind_eq_ok.1 h
    simp only [Outcome.ok.injEq] at h
    subst h
    obtain ⟨hlen, hpt⟩ := ih (i + 1) r h2
    refine ⟨by simp [hlen], ?_⟩
    intro j g hj
    cases j with
    | zero =>
      simp only [List.getElem?_cons_zero, Option.some.injEq] at hj
      subst hj
      exact ⟨fc, rfl, h1⟩
    | succ j =>
      simp only [List.getElem?_cons_succ] at hj
      obtain ⟨fc', e1, e2⟩ := hpt j g hj
      refine ⟨fc', by simpa using e1, ?_⟩
      have : i + 1 + j = i + (j + 1) := by omega
      rw [← this]; exact e2

theorem get?_of_mem_nodupKeys {α : Type} : ∀ (m : List (Nat × α)) (k : Nat) (v : α),
    NodupKeys m → (k, v) ∈ m → get? m k = some v := by
  intro m
  induction m with
  | nil => intro k v _ h; cases h
  | cons p m ih =>
    obtain ⟨k0, v0⟩ := p
    intro k v hn h
    have hn' : NodupKeys m := by
      unfold NodupKeys keys at *; simp only [List.map_cons, List.nodup_cons] at hn; exact hn.2
    have hk0 : k0 ∉ keys m := by
      unfold NodupKeys keys at *; simp only [List.map_cons, List.nodup_cons] at hn; exact hn.1
    rcases List.mem_cons.1 h with e | h
    · simp only [Prod.mk.injEq] at e
      obtain ⟨rfl, rfl⟩ := e
      simp
    · have : k0 ≠ k := by
        intro e; subst e
        exact hk0 (List.mem_map.2 ⟨(k0, v), h, rfl⟩)
      simp only [get?_cons, this, if_false]
      exact ih k v hn' h

end Grcov.Gcno
