/-
Lemmas for Consumer.FindBin (C20): counting the occurrences of a path in the result.
-/
import GrcovModel.Consumer.FindBin
namespace Grcov.Consumer.FindBin

theorem mem_runThread {isApp : Bytes → Bool} {es : List Entry} {p : List Bytes}
    (h : p ∈ runThread isApp es) : ∃ e ∈ es, e.path = p ∧ accepts isApp e = true := by
  unfold runThread at h
  obtain ⟨e, he, hv⟩ := List.mem_filterMap.1 h
  unfold visit at hv
  by_cases ha : accepts isApp e = true
  · simp [ha] at hv; exact ⟨e, he, hv, ha⟩
  · simp [ha] at hv

theorem accepts_file {isApp : Bytes → Bool} {e : Entry} (h : accepts isApp e = true) :
    ∃ c, e.kind = .file c ∧ c ≠ [] ∧ isApp (c.take 128) = true := by
  unfold accepts at h
  cases hk : e.kind with
  | file c =>
    rw [hk] at h
    simp at h
    exact ⟨c, rfl, h.1, h.2⟩
  | dir => rw [hk] at h; simp at h
  | symlink => rw [hk] at h; simp at h

theorem count_runThread (isApp : Bytes → Bool) (es : List Entry) (p : List Bytes) :
    (runThread isApp es).count p
      = (es.filter fun e => decide (e.path = p) && accepts isApp e).length := by
  induction es with
  | nil => simp [runThread]
  | cons e es ih =>
    have h1 : runThread isApp (e :: es)
        = (match visit isApp e with | some q => [q] | none => []) ++ runThread isApp es := by
      unfold runThread
      rw [List.filterMap_cons]
      cases visit isApp e <;> simp
    rw [h1, List.count_append, ih]
    unfold visit
    by_cases ha : accepts isApp e = true
    · by_cases hp : e.path = p
      · simp [ha, hp, List.filter_cons]; omega
      · simp [ha, hp, List.filter_cons]
    · simp [ha, List.filter_cons]

theorem count_findBin (isApp : Bytes → Bool) (sched : List (List Entry)) (p : List Bytes) :
    (findBin isApp sched).count p
      = (sched.flatten.filter fun e => decide (e.path = p) && accepts isApp e).length := by
  induction sched with
  | nil => simp [findBin]
  | cons l ls ih =>
    have h1 : findBin isApp (l :: ls) = runThread isApp l ++ findBin isApp ls := by
      simp [findBin]
    rw [h1, List.count_append, List.flatten_cons, List.filter_append, List.length_append,
      count_runThread, ih]

theorem filter_path_of_nodup {l : List Entry} (hn : (l.map (·.path)).Nodup) {e : Entry} (he : e ∈ l) :
    l.filter (fun x => decide (x.path = e.path)) = [e] := by
  induction l with
  | nil => simp at he
  | cons a t ih =>
    simp only [List.map_cons, List.nodup_cons, List.mem_map, not_exists, not_and] at hn
    rcases List.mem_cons.1 he with rfl | h
    · have : t.filter (fun x => decide (x.path = e.path)) = [] := by
        rw [List.filter_eq_nil_iff]
        intro x hx
        simp only [decide_eq_true_eq]
        exact fun hxe => hn.1 x hx hxe
      simp [List.filter_cons, this]
    · have hne : a.path ≠ e.path := fun hae => hn.1 e h hae.symm
      simp [List.filter_cons, hne, ih hn.2 h]

end Grcov.Consumer.FindBin
