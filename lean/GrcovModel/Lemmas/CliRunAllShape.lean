/-
Lemmas for `C15_run_structure_independent_of_gcda` (Props/C15Run.lean): a run WITHOUT `--filter`
commutes with ANY change of the coverage VALUES that keeps the keys (line numbers, branch lines,
function names): `blank` replaces every count by 0, every branch slot by "not taken", every
executed flag by "not executed" and keeps line set, number of branch slots, function names and
start lines – it is a function of `Gcno.covStruct`, so two results with the same structure have
the same blanked result, the same blanked record list and therefore reports of the same structure.
-/
import GrcovModel.Lemmas.CliRunAllScale
import GrcovModel.Lemmas.GcnoStruct
namespace Grcov.Cli.RunAll
open Grcov AList Grcov.Lcov Grcov.Rewrite Grcov.FileFilter
open Grcov.Gcno (structOf covStruct bstruct fstruct CovS)

/-- the record with its keys only: counts 0, slots false, flags false -/
def blank (c : Cov) : Cov :=
  { lines := c.lines.map fun p => (p.1, 0)
    branches := c.branches.map fun p => (p.1, List.replicate p.2.length false)
    functions := c.functions.map fun p => (p.1, (⟨p.2.start, false⟩ : Fn)) }

/-- the record of a structure -/
def ofStruct (s : CovS) : Cov :=
  { lines := s.1.map fun k => (k, 0)
    branches := s.2.1.map fun p => (p.1, List.replicate p.2 false)
    functions := s.2.2.map fun p => (p.1, (⟨p.2, false⟩ : Fn)) }

theorem blank_eq_ofStruct (c : Cov) : blank c = ofStruct (covStruct c) := by
  simp [blank, ofStruct, covStruct, keys, bstruct, fstruct, List.map_map, Function.comp]

theorem covStruct_blank (c : Cov) : covStruct (blank c) = covStruct c := by
  simp [blank, covStruct, keys, bstruct, fstruct, List.map_map, Function.comp]

def blankKC (kc : Bytes × Cov) : Bytes × Cov := (kc.1, blank kc.2)
def blankRec (r : Rec) : Rec := { r with cov := blank r.cov }

/-- same structure ⇒ same blanked result -/
theorem blank_of_structOf_eq {r r' : List (Bytes × Cov)} (h : structOf r = structOf r') :
    r.map blankKC = r'.map blankKC := by
  have e : ∀ l : List (Bytes × Cov), l.map blankKC = (structOf l).map fun p => (p.1, ofStruct p.2) := by
    intro l
    simp [structOf, blankKC, blank_eq_ofStruct, List.map_map, Function.comp]
  rw [e, e, h]

/-- … and conversely the blanked list determines the structure -/
theorem structOf_of_blank_eq {L L' : List (Bytes × Cov)} (h : L.map blankKC = L'.map blankKC) :
    structOf L = structOf L' := by
  have e : ∀ l : List (Bytes × Cov), structOf l = structOf (l.map blankKC) := by
    intro l
    simp [structOf, blankKC, covStruct_blank, List.map_map, Function.comp]
  rw [e L, e L', h]

/-! ### blanking commutes with everything a run without `--filter` does -/

theorem insertByName_map_val (g : Fn → Fn) (nf : Name × Fn) (m : List (Name × Fn)) :
    insertByName (nf.1, g nf.2) (m.map fun p => (p.1, g p.2))
      = (insertByName nf m).map fun p => (p.1, g p.2) := by
  induction m with
  | nil => rfl
  | cons x m ih =>
    simp only [List.map_cons, insertByName]
    by_cases h : MainGlue.bytesLe nf.1 x.1 = true
    · simp only [h, if_true, List.map_cons]
    · simp only [h, Bool.false_eq_true, if_false, List.map_cons, ih]

theorem sortFns_map_val (g : Fn → Fn) (m : List (Name × Fn)) :
    sortFns (m.map fun p => (p.1, g p.2)) = (sortFns m).map fun p => (p.1, g p.2) := by
  induction m with
  | nil => rfl
  | cons x m ih =>
    simp only [List.map_cons, sortFns, ih]
    exact insertByName_map_val g x (sortFns m)

theorem applyOne_blank (c : Cov) (f : FT) : applyOne (blank c) f = blank (applyOne c f) := by
  have hl := fun x => erase_map_val (fun _ : Nat => (0 : Nat)) c.lines x
  have hb := fun x => erase_map_val (fun v : List Bool => List.replicate v.length false) c.branches x
  cases f <;> simp only [applyOne, blank, hl, hb]

theorem applyFilters_blank (fl : List FT) (c : Cov) : applyFilters fl (blank c) = blank (applyFilters fl c) := by
  induction fl generalizing c with
  | nil => rfl
  | cons f fl ih => rw [applyFilters_cons, applyFilters_cons, applyOne_blank, ih]

theorem selectRecF_blank (cfg : Cfg) (hf : cfg.filter = none) (fs : FS) (flt : Bytes → List FT)
    (abs rel : Bytes) (c : Cov) :
    selectRecF cfg fs flt abs rel (blank c) = (selectRecF cfg fs flt abs rel c).map blankRec := by
  unfold selectRecF
  simp only [applyFilters_blank, hf, filterOk]
  split
  · rfl
  · split
    · rfl
    · split
      · rfl
      · rfl

theorem rewriteKeyF_blank (cfg : Cfg) (hf : cfg.filter = none) (fs : FS) (flt : Bytes → List FT)
    (kc : Bytes × Cov) :
    rewriteKeyF cfg fs flt (blankKC kc) = mapRec blankRec (rewriteKeyF cfg fs flt kc) := by
  unfold rewriteKeyF blankKC
  cases resolveKey cfg fs kc.1 with
  | panic s => rfl
  | ok x =>
    cases x with
    | none => rfl
    | some ar =>
      obtain ⟨a, r⟩ := ar
      simp only [mapRec, selectRecF_blank cfg hf]

theorem rewritePathsF_blank (cfg : Cfg) (hf : cfg.filter = none) (fs : FS) (flt : Bytes → List FT)
    (m : List (Bytes × Cov)) :
    rewritePathsF cfg fs flt (m.map blankKC) = match rewritePathsF cfg fs flt m with
      | .panic s => .panic s
      | .ok rs => .ok (rs.map blankRec) := by
  have e : (m.map blankKC).map (rewriteKeyF cfg fs flt)
      = (m.map (rewriteKeyF cfg fs flt)).map (mapRec blankRec) := by
    rw [List.map_map, List.map_map]
    exact List.map_congr_left fun kc _ => rewriteKeyF_blank cfg hf fs flt kc
  unfold rewritePathsF
  rw [e, collect_mapRec]
  cases cfg.sourceDir with
  | none => rfl
  | some s =>
    by_cases h : UPath.isAbsolute s = true
    · simp only [h, if_true]
      cases collect (List.map (rewriteKeyF cfg fs flt) m) <;> rfl
    · simp [h]

theorem sortCov_blank (c : Cov) : sortCov (blank c) = blank (sortCov c) := by
  simp only [sortCov, blank]
  rw [sortByKey_map_val (fun _ : Nat => 0), sortByKey_map_val (fun v : List Bool => List.replicate v.length false),
    sortFns_map_val (fun f : Fn => (⟨f.start, false⟩ : Fn))]

theorem present_blank (o : Opts) (r : Rec) : present o (blankRec r) = blankRec (present o r) := by
  simp only [present, blankRec, sortCov_blank]

/-- the sections of the report, blanked, are determined by the blanked record list -/
theorem sections_blank (o : Opts) (hk : o.hash.KeysOnly) (rs : List Rec) :
    (((ordered o rs).map (present o)).map relCov).map blankKC
      = ((ordered o (rs.map blankRec)).map (present o)).map relCov := by
  rw [ordered_map o hk blankRec (fun r => ⟨rfl, rfl⟩)]
  simp only [List.map_map]
  apply List.map_congr_left
  intro r _
  simp only [Function.comp, present_blank]
  rfl

end Grcov.Cli.RunAll
