/-
Lemmas for `GrcovModel/Writers/Links.lean`.
-/
import GrcovModel.Writers.Links
namespace Grcov.Writers.Links
open Grcov.Escape

theorem cutAt_of_not_mem (c : Nat) : ∀ bs : Bytes, c ∉ bs → cutAt c bs = (bs, none)
  | [], _ => rfl
  | b :: bs, h => by
    have hb : b ≠ c := fun e => h (by simp [e])
    have ht : c ∉ bs := fun e => h (by simp [e])
    simp [cutAt, hb, cutAt_of_not_mem c bs ht]

theorem splitRef_plain (u : Bytes) (h1 : 35 ∉ u) (h2 : 63 ∉ u) : splitRef u = ⟨u, none, none⟩ := by
  simp [splitRef, cutAt_of_not_mem 35 u h1, cutAt_of_not_mem 63 u h2]

theorem pctDecode_cons_ne (b : Nat) (r : Bytes) (h : b ≠ 37) : pctDecode (b :: r) = b :: pctDecode r := by
  match r with
  | [] => rfl
  | [c] => rfl
  | c :: d :: r' => simp [pctDecode, h]

theorem pctDecode_of_no_pct : ∀ bs : Bytes, 37 ∉ bs → pctDecode bs = bs
  | [], _ => rfl
  | b :: bs, h => by
    have hb : b ≠ 37 := fun e => h (by simp [e])
    rw [pctDecode_cons_ne b bs hb, pctDecode_of_no_pct bs (fun e => h (by simp [e]))]

theorem segments_ne_nil (p : Bytes) : segments p ≠ [] := by
  induction p with
  | nil => simp [segments]
  | cons b p ih =>
    unfold segments at *
    simp only [List.foldr_cons]
    split
    · simp
    · split <;> simp

theorem segments_cons (b : Nat) (p : Bytes) :
    segments (b :: p) = if b = 47 then [] :: segments p else
      match segments p with
      | [] => [[b]]
      | h :: t => (b :: h) :: t := by
  show List.foldr _ _ (b :: p) = _
  rw [List.foldr_cons]
  rfl

theorem segments_of_no_slash : ∀ p : Bytes, 47 ∉ p → segments p = [p]
  | [], _ => rfl
  | b :: p, h => by
    have hb : b ≠ 47 := fun e => h (by simp [e])
    rw [segments_cons, if_neg hb, segments_of_no_slash p (fun e => h (by simp [e]))]

theorem segments_append_slash (a b : Bytes) : segments (a ++ 47 :: b) = segments a ++ segments b := by
  induction a with
  | nil => simp [segments_cons]; rfl
  | cons x a ih =>
    rw [List.cons_append, segments_cons, segments_cons, ih]
    by_cases hx : x = 47
    · simp [hx]
    · simp only [hx, if_false]
      cases hs : segments a with
      | nil => exact absurd hs (segments_ne_nil a)
      | cons h t => simp

/-- segments that are neither `.` nor `..` and carry no `%` are pushed as they are -/
theorem resolveSegs_plain (l : List Bytes) (hl : ∀ s ∈ l, s ≠ [46] ∧ s ≠ [46, 46] ∧ 37 ∉ s) :
    ∀ (acc rest : List Bytes), resolveSegs acc (l ++ rest) = resolveSegs (l.reverse ++ acc) rest := by
  induction l with
  | nil => intro acc rest; rfl
  | cons s l ih =>
    intro acc rest
    obtain ⟨h1, h2, h3⟩ := hl s (by simp)
    rw [List.cons_append, resolveSegs, if_neg h1, if_neg h2, pctDecode_of_no_pct s h3,
      ih (fun x hx => hl x (List.mem_cons_of_mem _ hx))]
    simp

theorem plainName_iff (n : Bytes) : plainName n = true ↔ 35 ∉ n ∧ 63 ∉ n ∧ 37 ∉ n ∧ 47 ∉ n := by
  unfold plainName
  rw [List.all_eq_true]
  constructor
  · intro h
    refine ⟨fun e => ?_, fun e => ?_, fun e => ?_, fun e => ?_⟩ <;> · have := h _ e; simp at this
  · rintro ⟨h1, h2, h3, h4⟩ b hb
    have : b ≠ 35 ∧ b ≠ 63 ∧ b ≠ 37 ∧ b ≠ 47 :=
      ⟨fun e => h1 (e ▸ hb), fun e => h2 (e ▸ hb), fun e => h3 (e ▸ hb), fun e => h4 (e ▸ hb)⟩
    simp [this]

theorem not_mem_dotHtml (c : Nat) (h : c = 35 ∨ c = 63 ∨ c = 37 ∨ c = 47) : c ∉ dotHtml := by
  rcases h with rfl | rfl | rfl | rfl <;> decide

theorem append_dotHtml_ne_dots (x : Bytes) : x ++ dotHtml ≠ [46] ∧ x ++ dotHtml ≠ [46, 46] := by
  constructor <;> intro h <;> · have := congrArg List.length h; simp [dotHtml] at this; try omega

/-- **a file row with a plain name leads to the page of that file** -/
theorem servedPath_fileRow (loc : List Bytes) (item : Bytes) (h : plainName item = true) :
    servedPath loc (fileRowUrl none item) = pagePath loc item := by
  obtain ⟨h35, h63, h37, h47⟩ := (plainName_iff item).1 h
  have hu35 : 35 ∉ fileRowUrl none item := by
    simp only [fileRowUrl, dotSlash, List.mem_append, not_or]
    exact ⟨⟨by decide, h35⟩, not_mem_dotHtml 35 (Or.inl rfl)⟩
  have hu63 : 63 ∉ fileRowUrl none item := by
    simp only [fileRowUrl, dotSlash, List.mem_append, not_or]
    exact ⟨⟨by decide, h63⟩, not_mem_dotHtml 63 (Or.inr (Or.inl rfl))⟩
  unfold servedPath
  rw [splitRef_plain _ hu35 hu63]
  have hseg : segments (fileRowUrl none item) = [[46], item ++ dotHtml] := by
    have : fileRowUrl none item = [46] ++ 47 :: (item ++ dotHtml) := by
      simp [fileRowUrl, dotSlash]
    rw [this, segments_append_slash, segments_of_no_slash [46] (by decide),
      segments_of_no_slash (item ++ dotHtml) (by
        simp only [List.mem_append, not_or]
        exact ⟨h47, not_mem_dotHtml 47 (Or.inr (Or.inr (Or.inr rfl)))⟩)]
    rfl
  rw [hseg]
  have hd := append_dotHtml_ne_dots item
  have hp : 37 ∉ item ++ dotHtml := by
    simp only [List.mem_append, not_or]
    exact ⟨h37, not_mem_dotHtml 37 (Or.inr (Or.inr (Or.inl rfl)))⟩
  simp only [resolveSegs, if_true, hd.1, hd.2, if_false, pctDecode_of_no_pct _ hp]
  simp [pagePath]

theorem plainDirKey_iff (k : Bytes) :
    plainDirKey k = true ↔ (35 ∉ k ∧ 63 ∉ k ∧ 37 ∉ k) ∧ ∀ s ∈ segments k, s ≠ [46] ∧ s ≠ [46, 46] := by
  unfold plainDirKey
  rw [Bool.and_eq_true, List.all_eq_true, List.all_eq_true]
  constructor
  · rintro ⟨h, hs⟩
    refine ⟨⟨fun e => ?_, fun e => ?_, fun e => ?_⟩, fun s hsm => ?_⟩
    · have := h _ e; simp at this
    · have := h _ e; simp at this
    · have := h _ e; simp at this
    · have := hs s hsm; simpa using this
  · rintro ⟨⟨h1, h2, h3⟩, hs⟩
    refine ⟨fun b hb => ?_, fun s hsm => ?_⟩
    · have : b ≠ 35 ∧ b ≠ 63 ∧ b ≠ 37 := ⟨fun e => h1 (e ▸ hb), fun e => h2 (e ▸ hb), fun e => h3 (e ▸ hb)⟩
      simp [this]
    · have := hs s hsm; simp [this]

theorem mem_of_mem_segments (k : Bytes) : ∀ s ∈ segments k, ∀ b ∈ s, b ∈ k := by
  induction k with
  | nil => intro s hs b hb; simp [segments] at hs; subst hs; cases hb
  | cons x k ih =>
    intro s hs b hb
    rw [segments_cons] at hs
    by_cases hx : x = 47
    · simp only [hx, if_true, List.mem_cons] at hs
      rcases hs with rfl | hs
      · cases hb
      · exact List.mem_cons_of_mem _ (ih s hs b hb)
    · simp only [hx, if_false] at hs
      cases hk : segments k with
      | nil => exact absurd hk (segments_ne_nil k)
      | cons h t =>
        rw [hk] at hs ih
        simp only [List.mem_cons] at hs
        rcases hs with rfl | hs
        · simp only [List.mem_cons] at hb
          rcases hb with rfl | hb
          · simp
          · exact List.mem_cons_of_mem _ (ih h (by simp) b hb)
        · exact List.mem_cons_of_mem _ (ih s (by simp [hs]) b hb)

/-- **a directory row with a plain key leads to the index of that directory** -/
theorem servedPath_dirRow (item : Bytes) (h : plainDirKey item = true) :
    servedPath [] (dirRowUrl none item) = dirIndexPath item := by
  obtain ⟨⟨h35, h63, h37⟩, hseg⟩ := (plainDirKey_iff item).1 h
  have hix : ∀ c, c = 35 ∨ c = 63 → c ∉ indexHtml := by rintro c (rfl | rfl) <;> decide
  have hu35 : 35 ∉ dirRowUrl none item := by
    simp only [dirRowUrl, dotSlash, List.mem_append, List.mem_singleton, not_or]
    exact ⟨⟨⟨by decide, h35⟩, by decide⟩, hix 35 (Or.inl rfl)⟩
  have hu63 : 63 ∉ dirRowUrl none item := by
    simp only [dirRowUrl, dotSlash, List.mem_append, List.mem_singleton, not_or]
    exact ⟨⟨⟨by decide, h63⟩, by decide⟩, hix 63 (Or.inr rfl)⟩
  unfold servedPath
  rw [splitRef_plain _ hu35 hu63]
  have hs : segments (dirRowUrl none item) = [46] :: (segments item ++ [indexHtml]) := by
    have : dirRowUrl none item = [46] ++ 47 :: (item ++ 47 :: indexHtml) := by
      simp [dirRowUrl, dotSlash]
    rw [this, segments_append_slash, segments_append_slash, segments_of_no_slash [46] (by decide),
      segments_of_no_slash indexHtml (by decide)]
    rfl
  rw [hs]
  simp only [List.reverse_nil, resolveSegs, if_true]
  rw [resolveSegs_plain (segments item) (fun s hsm => ⟨(hseg s hsm).1, (hseg s hsm).2,
    fun e => h37 (mem_of_mem_segments item s hsm 37 e)⟩) [] [indexHtml]]
  have h1 : indexHtml ≠ [46] ∧ indexHtml ≠ [46, 46] := by decide
  simp only [resolveSegs, h1.1, h1.2, if_false, pctDecode_of_no_pct indexHtml (by decide)]
  simp [dirIndexPath]

/-! ### the proposed fix: `urlencode_strict` -/

theorem hexVal_hexDigit (n : Nat) (h : n < 16) : hexVal (hexDigit n) = some n := by
  have : n = 0 ∨ n = 1 ∨ n = 2 ∨ n = 3 ∨ n = 4 ∨ n = 5 ∨ n = 6 ∨ n = 7 ∨ n = 8 ∨ n = 9 ∨ n = 10 ∨
      n = 11 ∨ n = 12 ∨ n = 13 ∨ n = 14 ∨ n = 15 := by omega
  rcases this with rfl | rfl | rfl | rfl | rfl | rfl | rfl | rfl | rfl | rfl | rfl | rfl | rfl | rfl | rfl | rfl <;> decide

theorem isUnreserved_ne (b : Nat) (h : isUnreserved b = true) : b ≠ 37 ∧ b ≠ 35 ∧ b ≠ 63 ∧ b ≠ 47 := by
  refine ⟨?_, ?_, ?_, ?_⟩ <;> · intro e; subst e; revert h; decide

/-- decoding undoes the encoding, for every name of bytes below 256 -/
theorem pctDecode_urlencodeStrict (s t : Bytes) (hs : ∀ b ∈ s, b < 256) :
    pctDecode (urlencodeStrict s ++ t) = s ++ pctDecode t := by
  induction s with
  | nil => rfl
  | cons b s ih =>
    have hb : b < 256 := hs b (by simp)
    have ih' := ih (fun x hx => hs x (List.mem_cons_of_mem _ hx))
    unfold urlencodeStrict
    split
    · rename_i hu
      rw [List.cons_append, pctDecode_cons_ne b _ (isUnreserved_ne b hu).1, ih', List.cons_append]
    · simp only [List.cons_append]
      rw [pctDecode]
      simp only [if_true, hexVal_hexDigit (b / 16) (by omega), hexVal_hexDigit (b % 16) (by omega), ih']
      have : 16 * (b / 16) + b % 16 = b := by omega
      rw [this]

theorem urlencodeStrict_clean (s : Bytes) (hs : ∀ b ∈ s, b < 256) (c : Nat) (hc : c = 35 ∨ c = 63 ∨ c = 47) :
    c ∉ urlencodeStrict s := by
  induction s with
  | nil => simp [urlencodeStrict]
  | cons b s ih =>
    have hb : b < 256 := hs b (by simp)
    have ih' := ih (fun x hx => hs x (List.mem_cons_of_mem _ hx))
    unfold urlencodeStrict
    split
    · rename_i hu
      have := isUnreserved_ne b hu
      simp only [List.mem_cons, not_or]
      refine ⟨?_, ih'⟩
      rcases hc with rfl | rfl | rfl
      · exact fun e => this.2.1 e.symm
      · exact fun e => this.2.2.1 e.symm
      · exact fun e => this.2.2.2 e.symm
    · simp only [List.mem_cons, not_or]
      have hd : ∀ n, n < 16 → hexDigit n ≠ 35 ∧ hexDigit n ≠ 63 ∧ hexDigit n ≠ 47 := by
        intro n hn
        unfold hexDigit
        split <;> omega
      have h1 := hd (b / 16) (by omega)
      have h2 := hd (b % 16) (by omega)
      refine ⟨?_, ?_, ?_, ih'⟩
      · rcases hc with rfl | rfl | rfl <;> decide
      · rcases hc with rfl | rfl | rfl
        · exact fun e => h1.1 e.symm
        · exact fun e => h1.2.1 e.symm
        · exact fun e => h1.2.2 e.symm
      · rcases hc with rfl | rfl | rfl
        · exact fun e => h2.1 e.symm
        · exact fun e => h2.2.1 e.symm
        · exact fun e => h2.2.2 e.symm

/-- **with the fix every file row leads to the page of its file, whatever the name is** -/
theorem servedPath_fileRowFixed (loc : List Bytes) (item : Bytes) (hs : ∀ b ∈ item, b < 256) :
    servedPath loc (fileRowUrlFixed item) = pagePath loc item := by
  have hclean := urlencodeStrict_clean item hs
  have hu : ∀ c, c = 35 ∨ c = 63 → c ∉ fileRowUrlFixed item := by
    intro c hc
    simp only [fileRowUrlFixed, dotSlash, List.mem_append, not_or]
    refine ⟨⟨?_, hclean c (by rcases hc with h | h <;> simp [h])⟩,
      not_mem_dotHtml c (by rcases hc with h | h <;> simp [h])⟩
    rcases hc with rfl | rfl <;> decide
  unfold servedPath
  rw [splitRef_plain _ (hu 35 (Or.inl rfl)) (hu 63 (Or.inr rfl))]
  have hseg : segments (fileRowUrlFixed item) = [[46], urlencodeStrict item ++ dotHtml] := by
    have : fileRowUrlFixed item = [46] ++ 47 :: (urlencodeStrict item ++ dotHtml) := by
      simp [fileRowUrlFixed, dotSlash]
    rw [this, segments_append_slash, segments_of_no_slash [46] (by decide),
      segments_of_no_slash (urlencodeStrict item ++ dotHtml) (by
        simp only [List.mem_append, not_or]
        exact ⟨hclean 47 (Or.inr (Or.inr rfl)), not_mem_dotHtml 47 (Or.inr (Or.inr (Or.inr rfl)))⟩)]
    rfl
  rw [hseg]
  have hd := append_dotHtml_ne_dots (urlencodeStrict item)
  simp only [resolveSegs, if_true, hd.1, hd.2, if_false]
  rw [pctDecode_urlencodeStrict item dotHtml hs, pctDecode_of_no_pct dotHtml (by decide)]
  simp [pagePath]

end Grcov.Writers.Links
