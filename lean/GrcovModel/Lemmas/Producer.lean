/-
Helper lemmas for the Producer model (C17): stem-keyed maps (`insertVec`, `AList.set` folds),
projections of the exploration fold, reading files back, the three producers against the closed
form, permutation invariance of the closed form.
-/
import GrcovModel.Producer
namespace Grcov.Producer
open Grcov AList
set_option linter.unusedSectionVars false

/-! ## generic list facts -/

theorem flatMap_congr_mem {α β : Type} {l : List α} {f g : α → List β}
    (h : ∀ x ∈ l, f x = g x) : l.flatMap f = l.flatMap g := by
  induction l with
  | nil => rfl
  | cons a l ih =>
    simp only [List.flatMap_cons]
    rw [h a (by simp), ih fun x hx => h x (List.mem_cons_of_mem _ hx)]

theorem flatMap_perm_congr {α β : Type} {l : List α} {f g : α → List β}
    (h : ∀ x ∈ l, (f x).Perm (g x)) : (l.flatMap f).Perm (l.flatMap g) := by
  induction l with
  | nil => exact .refl _
  | cons a l ih =>
    simp only [List.flatMap_cons]
    exact (h a (by simp)).append (ih fun x hx => h x (List.mem_cons_of_mem _ hx))

theorem filterMap_ite_eq {α β : Type} (q : α → Bool) (h : α → β) (l : List α) :
    l.filterMap (fun x => if q x then some (h x) else none) = (l.filter q).map h := by
  induction l with
  | nil => rfl
  | cons a l ih => by_cases hq : q a <;> simp [hq, ih]

/-! ## insertion sort on `Nat` -/

theorem insertNat_perm (x : Nat) (l : List Nat) : (insertNat x l).Perm (x :: l) := by
  induction l with
  | nil => exact .refl _
  | cons y ys ih =>
    unfold insertNat
    split
    · exact .refl _
    · exact ((List.Perm.cons y ih).trans (.swap x y ys))

theorem sortNat_perm_self (l : List Nat) : (sortNat l).Perm l := by
  induction l with
  | nil => exact .refl _
  | cons x xs ih => exact (insertNat_perm x _).trans (.cons x ih)

theorem insertNat_sorted (x : Nat) (l : List Nat) (h : l.Pairwise (· ≤ ·)) :
    (insertNat x l).Pairwise (· ≤ ·) := by
  induction l with
  | nil => simp [insertNat]
  | cons y ys ih =>
    unfold insertNat
    have hy := List.pairwise_cons.1 h
    split
    · rename_i hxy
      refine List.pairwise_cons.2 ⟨?_, h⟩
      intro z hz
      rcases List.mem_cons.1 hz with rfl | hz
      · exact hxy
      · exact Nat.le_trans hxy (hy.1 z hz)
    · rename_i hxy
      refine List.pairwise_cons.2 ⟨?_, ih hy.2⟩
      intro z hz
      rcases List.mem_cons.1 ((insertNat_perm x ys).subset hz) with rfl | hz
      · omega
      · exact hy.1 z hz

theorem sortNat_sorted (l : List Nat) : (sortNat l).Pairwise (· ≤ ·) := by
  induction l with
  | nil => simp [sortNat]
  | cons x xs ih => exact insertNat_sorted x _ ih

theorem sortNat_perm {l₁ l₂ : List Nat} (p : l₁.Perm l₂) : sortNat l₁ = sortNat l₂ :=
  List.Perm.eq_of_pairwise (le := (· ≤ ·)) (fun _ _ _ _ h1 h2 => Nat.le_antisymm h1 h2)
    (sortNat_sorted l₁) (sortNat_sorted l₂)
    ((sortNat_perm_self l₁).trans (p.trans (sortNat_perm_self l₂).symm))

theorem mem_sortNat {x : Nat} {l : List Nat} : x ∈ sortNat l ↔ x ∈ l :=
  (sortNat_perm_self l).mem_iff

theorem sortNat_eq_nil {l : List Nat} : sortNat l = [] ↔ l = [] := by
  constructor
  · intro h; have := (sortNat_perm_self l); rw [h] at this; exact this.symm.eq_nil
  · rintro rfl; rfl

/-! ## `insertVec` -/
section InsertVec
variable {κ α : Type} [DecidableEq κ]

def groupAll (xs : List (κ × α)) (m : List (κ × List α)) : List (κ × List α) :=
  xs.foldl (fun m x => insertVec m x.1 x.2) m

theorem flat_cons (k : κ) (as : List α) (m : List (κ × List α)) :
    flat ((k, as) :: m) = as.map (fun a => (k, a)) ++ flat m := by
  simp [flat]

theorem flat_insertVec (m : List (κ × List α)) (k : κ) (a : α) :
    (flat (insertVec m k a)).Perm (flat m ++ [(k, a)]) := by
  induction m with
  | nil => simp [insertVec, flat]
  | cons p m ih =>
    obtain ⟨k', as⟩ := p
    unfold insertVec
    split
    · rename_i hk; subst hk
      rw [flat_cons, flat_cons, List.map_append, List.append_assoc, List.append_assoc]
      exact List.Perm.append_left _ List.perm_append_comm
    · rw [flat_cons, flat_cons, List.append_assoc]
      exact List.Perm.append_left _ ih

theorem flat_groupAll (xs : List (κ × α)) (m : List (κ × List α)) :
    (flat (groupAll xs m)).Perm (flat m ++ xs) := by
  induction xs generalizing m with
  | nil => simp [groupAll]
  | cons x xs ih =>
    have : groupAll (x :: xs) m = groupAll xs (insertVec m x.1 x.2) := rfl
    rw [this]
    refine (ih _).trans ?_
    have h := (flat_insertVec m x.1 x.2).append_right xs
    simpa [List.append_assoc] using h

theorem insertVec_ne_nil (m : List (κ × List α)) (k : κ) (a : α) : insertVec m k a ≠ [] := by
  cases m with
  | nil => simp [insertVec]
  | cons p m => obtain ⟨k', as⟩ := p; unfold insertVec; split <;> simp

theorem groupAll_eq_nil (xs : List (κ × α)) (m : List (κ × List α)) :
    groupAll xs m = [] ↔ m = [] ∧ xs = [] := by
  induction xs generalizing m with
  | nil => simp [groupAll]
  | cons x xs ih =>
    have : groupAll (x :: xs) m = groupAll xs (insertVec m x.1 x.2) := rfl
    rw [this, ih]
    simp [insertVec_ne_nil]

theorem get?_insertVec (m : List (κ × List α)) (k : κ) (a : α) (k' : κ) :
    get? (insertVec m k a) k'
      = if k = k' then some ((get? m k).getD [] ++ [a]) else get? m k' := by
  induction m with
  | nil => simp [insertVec]
  | cons p m ih =>
    obtain ⟨k₀, as⟩ := p
    unfold insertVec
    by_cases h0 : k₀ = k
    · subst h0
      by_cases hk : k₀ = k' <;> simp [hk]
    · simp only [h0, if_false, get?_cons, ih]
      by_cases hk : k = k'
      · subst hk; simp [h0]
      · simp [hk]

theorem getD_get?_groupAll (xs : List (κ × α)) (m : List (κ × List α)) (k : κ) :
    (get? (groupAll xs m) k).getD []
      = (get? m k).getD [] ++ (xs.filter fun x => x.1 = k).map (·.2) := by
  induction xs generalizing m with
  | nil => simp [groupAll]
  | cons x xs ih =>
    have : groupAll (x :: xs) m = groupAll xs (insertVec m x.1 x.2) := rfl
    rw [this, ih, get?_insertVec]
    by_cases hk : x.1 = k
    · subst hk; simp
    · simp [hk]

theorem get?_groupAll_eq_none (xs : List (κ × α)) (m : List (κ × List α)) (k : κ) :
    get? (groupAll xs m) k = none ↔ get? m k = none ∧ ∀ x ∈ xs, x.1 ≠ k := by
  induction xs generalizing m with
  | nil => simp [groupAll]
  | cons x xs ih =>
    have : groupAll (x :: xs) m = groupAll xs (insertVec m x.1 x.2) := rfl
    rw [this, ih, get?_insertVec]
    by_cases hk : x.1 = k
    · subst hk; simp
    · simp [hk]

end InsertVec

/-! ## folds of `AList.set` (`HashMap::insert`) -/
section SetAll
variable {κ β : Type} [DecidableEq κ]

def setAll (xs : List (κ × β)) (m : List (κ × β)) : List (κ × β) :=
  xs.foldl (fun m x => AList.set m x.1 x.2) m

theorem setAll_cons (x : κ × β) (xs : List (κ × β)) (m : List (κ × β)) :
    setAll (x :: xs) m = setAll xs (AList.set m x.1 x.2) := rfl

theorem mem_set {m : List (κ × β)} {k : κ} {v : β} {p : κ × β} (h : p ∈ AList.set m k v) :
    p = (k, v) ∨ p ∈ m := by
  induction m with
  | nil => simp [AList.set] at h; exact Or.inl h
  | cons q m ih =>
    obtain ⟨k', w⟩ := q
    unfold AList.set at h
    split at h
    · rename_i hk; subst hk
      rcases List.mem_cons.1 h with h | h
      · exact Or.inl h
      · exact Or.inr (List.mem_cons_of_mem _ h)
    · rcases List.mem_cons.1 h with h | h
      · exact Or.inr (h ▸ List.mem_cons_self)
      · rcases ih h with h | h
        · exact Or.inl h
        · exact Or.inr (List.mem_cons_of_mem _ h)

theorem mem_setAll {xs m : List (κ × β)} {p : κ × β} (h : p ∈ setAll xs m) : p ∈ xs ∨ p ∈ m := by
  induction xs generalizing m with
  | nil => exact Or.inr h
  | cons x xs ih =>
    rw [setAll_cons] at h
    rcases ih h with h | h
    · exact Or.inl (List.mem_cons_of_mem _ h)
    · rcases mem_set h with h | h
      · exact Or.inl (h ▸ List.mem_cons_self)
      · exact Or.inr h

theorem set_ne_nil (m : List (κ × β)) (k : κ) (v : β) : AList.set m k v ≠ [] := by
  cases m with
  | nil => simp [AList.set]
  | cons p m => obtain ⟨k', w⟩ := p; unfold AList.set; split <;> simp

theorem setAll_eq_nil (xs m : List (κ × β)) : setAll xs m = [] ↔ m = [] ∧ xs = [] := by
  induction xs generalizing m with
  | nil => simp [setAll]
  | cons x xs ih => rw [setAll_cons, ih]; simp [set_ne_nil]

theorem mem_keys_set (m : List (κ × β)) (k : κ) (v : β) (k' : κ) :
    k' ∈ keys (AList.set m k v) ↔ k' = k ∨ k' ∈ keys m := by
  rw [keys_set]
  split
  · rename_i h
    constructor
    · exact Or.inr
    · rintro (rfl | h') <;> assumption
  · simp [or_comm]

theorem mem_keys_setAll (xs m : List (κ × β)) (k : κ) :
    k ∈ keys (setAll xs m) ↔ k ∈ keys m ∨ ∃ x ∈ xs, x.1 = k := by
  induction xs generalizing m with
  | nil => simp [setAll]
  | cons x xs ih =>
    rw [setAll_cons, ih, mem_keys_set]
    constructor
    · rintro ((rfl | h) | ⟨y, hy, rfl⟩)
      · exact Or.inr ⟨x, by simp, rfl⟩
      · exact Or.inl h
      · exact Or.inr ⟨y, List.mem_cons_of_mem _ hy, rfl⟩
    · rintro (h | ⟨y, hy, rfl⟩)
      · exact Or.inl (Or.inr h)
      · rcases List.mem_cons.1 hy with rfl | hy
        · exact Or.inl (Or.inl rfl)
        · exact Or.inr ⟨y, hy, rfl⟩

theorem nodupKeys_setAll (xs m : List (κ × β)) (h : NodupKeys m) : NodupKeys (setAll xs m) := by
  induction xs generalizing m with
  | nil => exact h
  | cons x xs ih => rw [setAll_cons]; exact ih _ (nodupKeys_set h _ _)

theorem nodup_of_nodupKeys {m : List (κ × β)} (h : NodupKeys m) : m.Nodup := by
  unfold NodupKeys keys List.Nodup at h
  exact List.Pairwise.of_map (fun p => p.1) (fun a b hab heq => hab (by rw [heq])) h

theorem eq_of_mem_nodupKeys {m : List (κ × β)} (h : NodupKeys m) {k : κ} {v w : β}
    (hv : (k, v) ∈ m) (hw : (k, w) ∈ m) : v = w := by
  induction m with
  | nil => cases hv
  | cons p m ih =>
    unfold NodupKeys keys at h ih
    simp only [List.map_cons, List.nodup_cons, List.mem_map, not_exists, not_and] at h
    rcases List.mem_cons.1 hv with hv | hv <;> rcases List.mem_cons.1 hw with hw | hw
    · rw [← hv] at hw; exact (Prod.mk.inj hw).2.symm
    · exact absurd rfl (hv ▸ h.1 (k, w) hw)
    · exact absurd rfl (hw ▸ h.1 (k, v) hv)
    · exact ih h.2 hv hw

theorem exists_mem_of_mem_keys {m : List (κ × β)} {k : κ} (h : k ∈ keys m) : ∃ v, (k, v) ∈ m := by
  unfold keys at h
  obtain ⟨p, hp, rfl⟩ := List.mem_map.1 h
  exact ⟨p.2, hp⟩

theorem map_set (g : κ → β → γ) (m : List (κ × β)) (k : κ) (v : β) :
    (AList.set m k v).map (fun p => (p.1, g p.1 p.2))
      = AList.set (m.map fun p => (p.1, g p.1 p.2)) k (g k v) := by
  induction m with
  | nil => simp [AList.set]
  | cons p m ih =>
    obtain ⟨k', w⟩ := p
    simp only [AList.set, List.map_cons]
    split
    · rename_i hk; subst hk; simp
    · simp [ih]

theorem map_setAll (g : κ → β → γ) (xs m : List (κ × β)) :
    (setAll xs m).map (fun p => (p.1, g p.1 p.2))
      = setAll (xs.map fun p => (p.1, g p.1 p.2)) (m.map fun p => (p.1, g p.1 p.2)) := by
  induction xs generalizing m with
  | nil => rfl
  | cons x xs ih => rw [setAll_cons, ih, map_set]; rfl

/-- Under consistency (one value per key) the table built by last-writer-wins insertion has
exactly the members of the input. -/
theorem mem_setAll_iff_of_consistent (xs : List (κ × β))
    (hc : ∀ x ∈ xs, ∀ y ∈ xs, x.1 = y.1 → x.2 = y.2) (p : κ × β) :
    p ∈ setAll xs [] ↔ p ∈ xs := by
  constructor
  · intro h
    rcases mem_setAll h with h | h
    · exact h
    · cases h
  · intro h
    have hk : p.1 ∈ keys (setAll xs []) := (mem_keys_setAll xs [] p.1).2 (Or.inr ⟨p, h, rfl⟩)
    obtain ⟨v, hv⟩ := exists_mem_of_mem_keys hk
    have hv' : (p.1, v) ∈ xs := by
      rcases mem_setAll hv with h' | h'
      · exact h'
      · cases h'
    have : v = p.2 := hc _ hv' _ h rfl
    subst this
    exact hv

theorem setAll_perm_of_consistent {xs ys : List (κ × β)} (p : xs.Perm ys)
    (hc : ∀ x ∈ xs, ∀ y ∈ xs, x.1 = y.1 → x.2 = y.2) :
    (setAll xs []).Perm (setAll ys []) := by
  have hc' : ∀ x ∈ ys, ∀ y ∈ ys, x.1 = y.1 → x.2 = y.2 :=
    fun x hx y hy => hc x (p.mem_iff.2 hx) y (p.mem_iff.2 hy)
  have n1 := nodup_of_nodupKeys (nodupKeys_setAll xs [] (by simp [NodupKeys, keys]))
  have n2 := nodup_of_nodupKeys (nodupKeys_setAll ys [] (by simp [NodupKeys, keys]))
  rw [List.perm_ext_iff_of_nodup n1 n2]
  intro a
  rw [mem_setAll_iff_of_consistent xs hc, mem_setAll_iff_of_consistent ys hc', p.mem_iff]

end SetAll

/-! ## paths and classification -/

theorem splitExtAux_eq {b : Bool} {p s e : Name} (h : splitExtAux b p = some (s, e)) :
    p = s ++ 46 :: e := by
  induction p generalizing b s e with
  | nil => simp [splitExtAux] at h
  | cons c cs ih =>
    unfold splitExtAux at h
    split at h
    · rename_i s' e' hrec
      have := ih hrec
      cases h
      simp [this]
    · split at h
      · rename_i hc
        cases h
        simp only [Bool.and_eq_true, beq_iff_eq] at hc
        simp [hc.1.1]
      · cases h

theorem splitExt_eq {p s e : Name} (h : splitExt p = some (s, e)) : p = s ++ 46 :: e :=
  splitExtAux_eq h

theorem classify_gcno_path {L : Bool} {f : File} {s : Name} {l : Bool}
    (h : classify L f = .gcno s l) : f.path = s ++ dotGcno := by
  unfold classify at h
  split at h
  · cases h
  · rename_i stem ext hs
    have hp := splitExt_eq hs
    split at h
    · rename_i he; cases h; subst he; exact hp
    all_goals (repeat' split at h) <;> cases h

theorem classify_gcda_path {L : Bool} {f : File} {s : Name}
    (h : classify L f = .gcda s) : f.path = s ++ dotGcda := by
  unfold classify at h
  split at h
  · cases h
  · rename_i stem ext hs
    have hp := splitExt_eq hs
    split at h
    · cases h
    · split at h
      · rename_i he; cases h; subst he; exact hp
      all_goals (repeat' split at h) <;> cases h

/-! ## reading a file back from its archive -/

/-- inside the archive a path names one file -/
def Arch.Functional (a : Arch) : Prop := ∀ f ∈ a.files, ∀ g ∈ a.files, f.path = g.path → f = g

theorem read_of_mem {a : Arch} (hw : a.Functional) {f : File} (hf : f ∈ a.files) :
    a.read f.path = some f.cid := by
  unfold Arch.read
  cases hfind : a.files.find? (fun g => g.path = f.path) with
  | none =>
    have := List.find?_eq_none.1 hfind f hf
    simp at this
  | some g =>
    have hg := List.mem_of_find?_eq_some hfind
    have hp := List.find?_some hfind
    simp only [decide_eq_true_eq] at hp
    have := hw g hg f hf hp
    subst this
    rfl

theorem extractOk_of_mem {a : Arch} (hw : a.Functional) {f : File} (hf : f ∈ a.files) :
    a.extractOk f.path = true := by
  unfold Arch.extractOk
  split
  · rw [read_of_mem hw hf]; rfl
  · rfl

/-- every pair of the entry list is a file of its archive, and archives are functional -/
def EntriesWF (E : List (Arch × File)) : Prop := ∀ p ∈ E, p.2 ∈ p.1.files ∧ p.1.Functional

theorem entriesWF_of {archs : List Arch} (h : ∀ a ∈ archs, a.Functional) :
    EntriesWF (entries archs) := by
  intro p hp
  unfold entries at hp
  obtain ⟨a, ha, hp⟩ := List.mem_flatMap.1 hp
  obtain ⟨f, hf, rfl⟩ := List.mem_map.1 hp
  exact ⟨hf, h a ha⟩

/-! ## projections of the exploration fold -/

def selGcno (L : Bool) (p : Arch × File) : Option ((Name × Bool) × Arch) :=
  match classify L p.2 with
  | .gcno s l => some ((s, l), p.1)
  | _ => none

def selGcda (L : Bool) (p : Arch × File) : Option (Name × Arch) :=
  match classify L p.2 with
  | .gcda s => some (s, p.1)
  | _ => none

/-- (path, archive) of the entries classified `c` -/
def selCls (L : Bool) (c : Cls) (E : List (Arch × File)) : List (Name × Arch) :=
  (E.filter fun p => classify L p.2 = c).map fun p => (p.2.path, p.1)

def exploreFrom (L : Bool) (E : List (Arch × File)) (m : Maps) : Maps := E.foldl (handleFile L) m

theorem exploreFrom_cons (L : Bool) (x : Arch × File) (E : List (Arch × File)) (m : Maps) :
    exploreFrom L (x :: E) m = exploreFrom L E (handleFile L m x) := rfl

theorem explore_gcno (L : Bool) (E : List (Arch × File)) (m : Maps) :
    (exploreFrom L E m).gcno = setAll (E.filterMap (selGcno L)) m.gcno := by
  induction E generalizing m with
  | nil => rfl
  | cons x E ih =>
    rw [exploreFrom_cons, ih]
    unfold handleFile
    cases h : classify L x.2 <;> simp [selGcno, h, setAll_cons]

theorem explore_gcda (L : Bool) (E : List (Arch × File)) (m : Maps) :
    (exploreFrom L E m).gcda = groupAll (E.filterMap (selGcda L)) m.gcda := by
  induction E generalizing m with
  | nil => rfl
  | cons x E ih =>
    rw [exploreFrom_cons, ih]
    unfold handleFile
    cases h : classify L x.2 <;> simp [selGcda, h, groupAll]

theorem selCls_cons (L : Bool) (c : Cls) (x : Arch × File) (E : List (Arch × File)) :
    selCls L c (x :: E)
      = if classify L x.2 = c then (x.2.path, x.1) :: selCls L c E else selCls L c E := by
  unfold selCls
  by_cases h : classify L x.2 = c <;> simp [h]

theorem explore_infos (L : Bool) (E : List (Arch × File)) (m : Maps) :
    (exploreFrom L E m).infos = groupAll (selCls L .info E) m.infos := by
  induction E generalizing m with
  | nil => rfl
  | cons x E ih =>
    rw [exploreFrom_cons, ih, selCls_cons]
    unfold handleFile
    cases h : classify L x.2 <;> simp [groupAll]

theorem explore_xmls (L : Bool) (E : List (Arch × File)) (m : Maps) :
    (exploreFrom L E m).xmls = groupAll (selCls L .xml E) m.xmls := by
  induction E generalizing m with
  | nil => rfl
  | cons x E ih =>
    rw [exploreFrom_cons, ih, selCls_cons]
    unfold handleFile
    cases h : classify L x.2 <;> simp [groupAll]

theorem explore_profdata (L : Bool) (E : List (Arch × File)) (m : Maps) :
    (exploreFrom L E m).profdata = groupAll (selCls L .profdata E) m.profdata := by
  induction E generalizing m with
  | nil => rfl
  | cons x E ih =>
    rw [exploreFrom_cons, ih, selCls_cons]
    unfold handleFile
    cases h : classify L x.2 <;> simp [groupAll]

theorem explore_profraw (L : Bool) (E : List (Arch × File)) (m : Maps) :
    (exploreFrom L E m).profraw = groupAll (selCls L .profraw E) m.profraw := by
  induction E generalizing m with
  | nil => rfl
  | cons x E ih =>
    rw [exploreFrom_cons, ih, selCls_cons]
    unfold handleFile
    cases h : classify L x.2 <;> simp [groupAll]

theorem explore_lmaps (L : Bool) (E : List (Arch × File)) (m : Maps) :
    (exploreFrom L E m).lmaps = setAll (selCls L .linkedMap E) m.lmaps := by
  induction E generalizing m with
  | nil => rfl
  | cons x E ih =>
    rw [exploreFrom_cons, ih, selCls_cons]
    unfold handleFile
    cases h : classify L x.2 <;> simp [setAll_cons]

/-! ## the artifacts of an entry list -/

def artOf (L : Bool) (p : Arch × File) : Art := ⟨classify L p.2, p.2.cid⟩

def artsOfE (L : Bool) (E : List (Arch × File)) : List Art := E.map (artOf L)

theorem artsOfArchs_eq (L : Bool) (archs : List Arch) :
    artsOfArchs L archs = artsOfE L (entries archs) := rfl

theorem EntriesWF.tail {x : Arch × File} {E : List (Arch × File)} (h : EntriesWF (x :: E)) :
    EntriesWF E := fun p hp => h p (List.mem_cons_of_mem _ hp)

theorem EntriesWF.head {x : Arch × File} {E : List (Arch × File)} (h : EntriesWF (x :: E)) :
    x.2 ∈ x.1.files ∧ x.1.Functional := h x List.mem_cons_self

theorem cidsOf_artsOfE (L : Bool) (c : Cls) (E : List (Arch × File)) :
    cidsOf c (artsOfE L E) = (E.filter fun p => classify L p.2 = c).map (·.2.cid) := by
  induction E with
  | nil => rfl
  | cons x E ih =>
    unfold cidsOf artsOfE at *
    by_cases h : classify L x.2 = c <;> simp [artOf, h, ih]

theorem selCls_eq_nil (L : Bool) (c : Cls) (E : List (Arch × File)) :
    selCls L c E = [] ↔ cidsOf c (artsOfE L E) = [] := by
  rw [cidsOf_artsOfE]; unfold selCls; simp

/-! ## `file_content_producer` -/

theorem selCls_content (L : Bool) (fmt : Fmt) (c : Cls) (E : List (Arch × File))
    (hE : EntriesWF E) :
    ((selCls L c E).filterMap fun p =>
        (p.2.read p.1).map fun cid => Item.content fmt cid (.arch p.2.label)).map Item.obs
      = (cidsOf c (artsOfE L E)).map (Obs.content fmt) := by
  rw [cidsOf_artsOfE]
  induction E with
  | nil => rfl
  | cons x E ih =>
    rw [selCls_cons]
    by_cases h : classify L x.2 = c
    · simp only [h, if_true, List.filterMap_cons, read_of_mem hE.head.2 hE.head.1, Option.map_some]
      simp only [List.map_cons, List.filter_cons, h, decide_true, if_true]
      rw [ih hE.tail]; rfl
    · simp only [h, if_false, List.filter_cons, decide_false]
      exact ih hE.tail

theorem fileContent_obs (L : Bool) (fmt : Fmt) (c : Cls) (E : List (Arch × File))
    (hE : EntriesWF E) :
    ((fileContentItems fmt (groupAll (selCls L c E) [])).map Item.obs).Perm
      ((cidsOf c (artsOfE L E)).map (Obs.content fmt)) := by
  rw [← selCls_content L fmt c E hE]
  unfold fileContentItems
  have hp : (flat (groupAll (selCls L c E) [])).Perm (selCls L c E) := by
    simpa [flat] using flat_groupAll (selCls L c E) []
  exact (hp.filterMap _).map _

/-! ## `llvm_format_producer` -/

theorem selCls_reads (L : Bool) (c : Cls) (E : List (Arch × File)) (hE : EntriesWF E) :
    (selCls L c E).map (fun p => p.2.read p.1) = (cidsOf c (artsOfE L E)).map some := by
  rw [cidsOf_artsOfE]
  induction E with
  | nil => rfl
  | cons x E ih =>
    rw [selCls_cons]
    by_cases h : classify L x.2 = c
    · simp only [h, if_true, List.map_cons, read_of_mem hE.head.2 hE.head.1, List.filter_cons,
        decide_true]
      rw [ih hE.tail]
    · simp only [h, if_false, List.filter_cons, decide_false]
      exact ih hE.tail

theorem filterMap_id_map_some (l : List Nat) : (l.map some).filterMap id = l := by
  induction l with
  | nil => rfl
  | cons a l ih => simp [ih]

theorem filter_isNone_map_some (l : List Nat) : (l.map some).filter Option.isNone = [] := by
  induction l with
  | nil => rfl
  | cons a l ih => simp [ih]

theorem llvm_obs (L : Bool) (fmt : Fmt) (c : Cls) (E : List (Arch × File)) (hE : EntriesWF E) :
    (llvmItems fmt (groupAll (selCls L c E) [])).map Item.obs = profObs fmt c (artsOfE L E) := by
  unfold llvmItems profObs
  by_cases hn : cidsOf c (artsOfE L E) = []
  · have : groupAll (selCls L c E) [] = [] := by
      rw [groupAll_eq_nil]; exact ⟨rfl, (selCls_eq_nil L c E).2 hn⟩
    simp [this, hn]
  · have h1 : (groupAll (selCls L c E) []).isEmpty = false := by
      cases hg : groupAll (selCls L c E) [] with
      | nil => exact absurd ((selCls_eq_nil L c E).1 ((groupAll_eq_nil _ _).1 hg).2) hn
      | cons _ _ => rfl
    have h2 : (cidsOf c (artsOfE L E)).isEmpty = false := by
      cases hc : cidsOf c (artsOfE L E) with
      | nil => exact absurd hc hn
      | cons _ _ => rfl
    rw [h1, h2]
    simp only [Bool.false_eq_true, if_false, List.map_cons, List.map_nil, Item.obs]
    have hp : (flat (groupAll (selCls L c E) [])).Perm (selCls L c E) := by
      simpa [flat] using flat_groupAll (selCls L c E) []
    have hr : ((flat (groupAll (selCls L c E) [])).map fun p => p.2.read p.1).Perm
        ((cidsOf c (artsOfE L E)).map some) := by
      rw [← selCls_reads L c E hE]; exact hp.map _
    have e1 := sortNat_perm (hr.filterMap id)
    rw [filterMap_id_map_some] at e1
    have e2 := (hr.filter Option.isNone).length_eq
    rw [filter_isNone_map_some] at e2
    rw [e1, e2]; rfl

/-! ## `gcno_gcda_producer` -/

theorem gcnoTable_eq (as : List Art) : gcnoTable as = setAll (as.filterMap gcnoKeyCid) [] := rfl

theorem mem_gcnoMap {L : Bool} {E : List (Arch × File)} {k : Name × Bool} {a : Arch}
    (h : (k, a) ∈ setAll (E.filterMap (selGcno L)) []) :
    ∃ f, (a, f) ∈ E ∧ classify L f = .gcno k.1 k.2 := by
  rcases mem_setAll h with h | h
  · obtain ⟨p, hp, hsel⟩ := List.mem_filterMap.1 h
    unfold selGcno at hsel
    split at hsel
    · rename_i s l hc
      cases hsel
      exact ⟨p.2, hp, hc⟩
    · cases hsel
  · cases h

theorem read_gcno_of {L : Bool} {E : List (Arch × File)} (hE : EntriesWF E) {a : Arch} {f : File}
    (hf : (a, f) ∈ E) {s : Name} {l : Bool} (hc : classify L f = .gcno s l) :
    a.read (s ++ dotGcno) = some f.cid := by
  rw [← classify_gcno_path hc]
  exact read_of_mem (hE _ hf).2 (hE _ hf).1

theorem read_gcda_of {L : Bool} {E : List (Arch × File)} (hE : EntriesWF E) {a : Arch} {f : File}
    (hf : (a, f) ∈ E) {s : Name} (hc : classify L f = .gcda s) :
    a.read (s ++ dotGcda) = some f.cid := by
  rw [← classify_gcda_path hc]
  exact read_of_mem (hE _ hf).2 (hE _ hf).1

theorem extractOk_of_read {a : Arch} {n : Name} {c : Nat} (h : a.read n = some c) :
    a.extractOk n = true := by
  unfold Arch.extractOk
  split
  · rw [h]; rfl
  · rfl

/-- the gcda archives of a stem, as entries -/
def gcdaEntries (L : Bool) (s : Name) (E : List (Arch × File)) : List (Arch × File) :=
  E.filter fun p => classify L p.2 = .gcda s

theorem selGcda_filter (L : Bool) (s : Name) (E : List (Arch × File)) :
    ((E.filterMap (selGcda L)).filter fun x => x.1 = s).map (·.2)
      = (gcdaEntries L s E).map (·.1) := by
  unfold gcdaEntries
  induction E with
  | nil => rfl
  | cons x E ih =>
    simp only [List.filterMap_cons, selGcda]
    cases h : classify L x.2 with
    | gcda s' =>
      by_cases hs : s' = s
      · subst hs; simp [h, ih]
      · have : ¬ (Cls.gcda s' = Cls.gcda s) := fun e => hs (by cases e; rfl)
        simp [h, hs, this, ih]
    | _ => simp [h, ih]

theorem gcdaEntries_read {L : Bool} {s : Name} {E : List (Arch × File)} (hE : EntriesWF E) :
    ∀ y ∈ gcdaEntries L s E, y.1.read (s ++ dotGcda) = some y.2.cid := by
  intro y hy
  unfold gcdaEntries at hy
  have h := List.mem_filter.1 hy
  exact read_gcda_of hE h.1 (by simpa using h.2)

theorem gccPairs_obs (io : Bool) (s : Name) (ga : Arch) (Y : List (Arch × File))
    (hY : ∀ y ∈ Y, y.1.read (s ++ dotGcda) = some y.2.cid) (first : Bool) :
    (gccPairs io s ga first (Y.map (·.1))).map Item.obs
      = Y.map fun y => Obs.gcnoPath s (ga.read (s ++ dotGcno)) (some y.2.cid) := by
  induction Y generalizing first with
  | nil => rfl
  | cons y Y ih =>
    have hy := hY y List.mem_cons_self
    have he := extractOk_of_read hy
    simp only [List.map_cons, gccPairs, he, Bool.true_or, if_true, hy, List.cons_append,
      List.nil_append, Item.obs]
    rw [ih (fun z hz => hY z (List.mem_cons_of_mem _ hz))]

theorem llvm_gcda_reads (s : Name) (Y : List (Arch × File))
    (hY : ∀ y ∈ Y, y.1.read (s ++ dotGcda) = some y.2.cid) :
    (Y.map (·.1)).filterMap (fun d => d.read (s ++ dotGcda)) = Y.map (·.2.cid) := by
  induction Y with
  | nil => rfl
  | cons y Y ih =>
    simp only [List.map_cons, List.filterMap_cons, hY y List.mem_cons_self]
    rw [ih (fun z hz => hY z (List.mem_cons_of_mem _ hz))]

theorem gcnoPerKey_obs (L io : Bool) (E : List (Arch × File)) (hE : EntriesWF E)
    (k : Name × Bool) (a : Arch) (f : File) (hf : (a, f) ∈ E)
    (hc : classify L f = .gcno k.1 k.2) :
    (gcnoPerKey io k a (get? (groupAll (E.filterMap (selGcda L)) []) k.1)).map Item.obs
      = gcnoObs io k f.cid (cidsOf (.gcda k.1) (artsOfE L E)) := by
  have hg : a.read (k.1 ++ dotGcno) = some f.cid := read_gcno_of hE hf hc
  have hY := gcdaEntries_read (L := L) (s := k.1) hE
  have hcids : cidsOf (.gcda k.1) (artsOfE L E) = (gcdaEntries L k.1 E).map (·.2.cid) :=
    cidsOf_artsOfE L _ E
  rw [hcids]
  cases hget : get? (groupAll (E.filterMap (selGcda L)) []) k.1 with
  | none =>
    have hall := ((get?_groupAll_eq_none _ _ _).1 hget).2
    have hYnil : gcdaEntries L k.1 E = [] := by
      have := selGcda_filter L k.1 E
      have hfl : ((E.filterMap (selGcda L)).filter fun x => x.1 = k.1) = [] := by
        rw [List.filter_eq_nil_iff]; intro x hx; simpa using hall x hx
      rw [hfl] at this
      exact List.map_eq_nil_iff.1 this.symm
    rw [hYnil]
    unfold gcnoPerKey gcnoObs
    cases io <;> cases hk2 : k.2 <;> simp [hg, extractOk_of_read hg, Item.obs, sortNat]
  | some ds =>
    have hds : ds = (gcdaEntries L k.1 E).map (·.1) := by
      have := getD_get?_groupAll (E.filterMap (selGcda L)) [] k.1
      rw [hget] at this
      simpa [selGcda_filter] using this
    have hne : gcdaEntries L k.1 E ≠ [] := by
      intro hnil
      have hnone : get? (groupAll (E.filterMap (selGcda L)) []) k.1 = none := by
        rw [get?_groupAll_eq_none]
        refine ⟨rfl, ?_⟩
        intro x hx hxk
        have hm : x ∈ (E.filterMap (selGcda L)).filter fun x => x.1 = k.1 :=
          List.mem_filter.2 ⟨hx, by simpa using hxk⟩
        have := selGcda_filter L k.1 E
        rw [hnil] at this
        have hl := congrArg List.length this
        simp only [List.length_map, List.length_nil] at hl
        exact absurd (List.length_pos_of_mem hm) (by omega)
      rw [hnone] at hget; cases hget
    have hemp : ((gcdaEntries L k.1 E).map (·.2.cid)).isEmpty = false := by
      cases hY' : gcdaEntries L k.1 E with
      | nil => exact absurd hY' hne
      | cons _ _ => rfl
    subst hds
    unfold gcnoPerKey gcnoObs
    rw [hemp]
    cases hk2 : k.2
    · simp only [Bool.false_eq_true, if_false]
      rw [gccPairs_obs io k.1 a _ hY true, hg, List.map_map]; rfl
    · simp only [if_true, hg, List.map_cons, List.map_nil, Item.obs, Bool.false_eq_true, if_false]
      rw [llvm_gcda_reads k.1 _ hY]

/-- content of the gcno that archive `a` holds for key `k` -/
def cidAt (k : Name × Bool) (a : Arch) : Nat := (a.read (k.1 ++ dotGcno)).getD 0

theorem selGcno_cids (L : Bool) (E : List (Arch × File)) (hE : EntriesWF E) :
    (E.filterMap (selGcno L)).map (fun p => (p.1, cidAt p.1 p.2))
      = (artsOfE L E).filterMap gcnoKeyCid := by
  induction E with
  | nil => rfl
  | cons x E ih =>
    have ih := ih hE.tail
    unfold artsOfE at *
    simp only [List.filterMap_cons, List.map_cons, selGcno, gcnoKeyCid, artOf]
    cases h : classify L x.2 with
    | gcno s l =>
      have hr : x.1.read (s ++ dotGcno) = some x.2.cid :=
        read_gcno_of hE (a := x.1) (f := x.2) List.mem_cons_self h
      have e : cidAt (s, l) x.1 = x.2.cid := by unfold cidAt; rw [hr]; rfl
      simp only [List.map_cons, e]
      rw [ih]
    | _ => simpa using ih

theorem gcno_obs (L io : Bool) (E : List (Arch × File)) (hE : EntriesWF E) :
    (gcnoItems io (setAll (E.filterMap (selGcno L)) []) (groupAll (E.filterMap (selGcda L)) [])).map
        Item.obs
      = (gcnoTable (artsOfE L E)).flatMap fun p =>
          gcnoObs io p.1 p.2 (cidsOf (.gcda p.1.1) (artsOfE L E)) := by
  rw [gcnoTable_eq, ← selGcno_cids L E hE]
  have hm := map_setAll (fun k a => cidAt k a) (E.filterMap (selGcno L)) []
  simp only [List.map_nil] at hm
  rw [← hm, List.flatMap_map]
  unfold gcnoItems
  rw [List.map_flatMap]
  apply flatMap_congr_mem
  intro p hp
  obtain ⟨f, hf, hc⟩ := mem_gcnoMap (k := p.1) (a := p.2) hp
  rw [gcnoPerKey_obs L io E hE p.1 p.2 f hf hc]
  have : cidAt p.1 p.2 = f.cid := by
    unfold cidAt; rw [read_gcno_of hE hf hc]; rfl
  rw [this]

/-! ## `producer()` -/

theorem explore_eq (L : Bool) (archs : List Arch) :
    explore L archs = exploreFrom L (entries archs) {} := rfl

theorem isEmpty_eq_true_iff {α : Type} (l : List α) : l.isEmpty = true ↔ l = [] := by
  cases l <;> simp

theorem noInput_iff (L : Bool) (E : List (Arch × File)) :
    (exploreFrom L E {}).noInput = true ↔ ∀ a ∈ artsOfE L E, a.usable = false := by
  unfold Maps.noInput
  rw [explore_gcno, explore_profdata, explore_profraw, explore_infos, explore_xmls]
  simp only [Bool.and_eq_true, isEmpty_eq_true_iff, setAll_eq_nil, groupAll_eq_nil, true_and]
  unfold artsOfE
  constructor
  · rintro ⟨⟨⟨⟨h1, h2⟩, h3⟩, h4⟩, h5⟩ a ha
    obtain ⟨p, hp, rfl⟩ := List.mem_map.1 ha
    have g1 := List.filterMap_eq_nil_iff.1 h1 p hp
    have g : ∀ c, selCls L c E = [] → classify L p.2 = c → False := by
      intro c h hc
      unfold selCls at h
      have := List.filter_eq_nil_iff.1 (List.map_eq_nil_iff.1 h) p hp
      simp [hc] at this
    unfold Art.usable artOf
    cases hc : classify L p.2 with
    | gcno s l => simp [selGcno, hc] at g1
    | profdata => exact absurd hc (fun hc => g _ h2 hc)
    | profraw => exact absurd hc (fun hc => g _ h3 hc)
    | info => exact absurd hc (fun hc => g _ h4 hc)
    | xml => exact absurd hc (fun hc => g _ h5 hc)
    | _ => rfl
  · intro h
    have key : ∀ p ∈ E, (artOf L p).usable = false := fun p hp => h _ (List.mem_map.2 ⟨p, hp, rfl⟩)
    have g : ∀ c, (∀ p : Arch × File, classify L p.2 = c → (artOf L p).usable = true) →
        selCls L c E = [] := by
      intro c hc
      unfold selCls
      rw [List.map_eq_nil_iff, List.filter_eq_nil_iff]
      intro p hp hcl
      have := key p hp
      rw [hc p (by simpa using hcl)] at this
      cases this
    refine ⟨⟨⟨⟨?_, g _ ?_⟩, g _ ?_⟩, g _ ?_⟩, g _ ?_⟩
    · rw [List.filterMap_eq_nil_iff]
      intro p hp
      have := key p hp
      unfold selGcno
      unfold Art.usable artOf at this
      cases hc : classify L p.2 <;> simp [hc] at this ⊢
    all_goals (intro p hc; unfold Art.usable artOf; simp [hc])

/-- the items `run` delivers when it does not panic -/
def itemsOf (o : Opts) (args : List Arg) : List Item :=
  let m := explore o.isLlvm (archives args)
  fileContentItems .info m.infos ++ fileContentItems .jacocoXml m.xmls
    ++ llvmItems .profdata m.profdata ++ llvmItems .profraw m.profraw
    ++ gcnoItems o.ignoreOrphan m.gcno m.gcda

def candsOf (o : Opts) (args : List Arg) : List Nat :=
  mapCands (explore o.isLlvm (archives args)).lmaps

theorem arts_eq (L : Bool) (args : List Arg) :
    arts L args = artsOfE L (entries (archives args)) := rfl

theorem run_cases (o : Opts) (args : List Arg) :
    run o args =
      if args.any Arg.bad then .panicBadArg
      else if (arts o.isLlvm args).any Art.usable then .ok (itemsOf o args) (candsOf o args)
      else .panicNoInput := by
  unfold run
  split
  · rfl
  · have hiff := noInput_iff o.isLlvm (entries (archives args))
    rw [← explore_eq, ← arts_eq] at hiff
    by_cases hu : (arts o.isLlvm args).any Art.usable = true
    · have hn : (explore o.isLlvm (archives args)).noInput = false := by
        cases hx : (explore o.isLlvm (archives args)).noInput
        · rfl
        · obtain ⟨a, ha, hua⟩ := List.any_eq_true.1 hu
          rw [hiff.1 hx a ha] at hua; cases hua
      simp only [hn, hu, if_true, Bool.false_eq_true, if_false]; rfl
    · have hn : (explore o.isLlvm (archives args)).noInput = true := by
        apply hiff.2
        intro a ha
        cases hua : a.usable
        · rfl
        · exact absurd (List.any_eq_true.2 ⟨a, ha, hua⟩) hu
      simp only [hn, hu, if_true, Bool.false_eq_true, if_false]

theorem WF_iff (args : List Arg) : WF args ↔ ∀ a ∈ archives args, a.Functional := Iff.rfl

theorem itemsOf_obs (o : Opts) (args : List Arg) (hw : WF args) :
    ((itemsOf o args).map Item.obs).Perm (closed o (arts o.isLlvm args)) := by
  have hE : EntriesWF (entries (archives args)) := entriesWF_of hw
  unfold itemsOf closed
  simp only [explore_eq, explore_infos, explore_xmls, explore_profdata, explore_profraw,
    explore_gcno, explore_gcda, List.map_append, arts_eq]
  rw [llvm_obs _ _ _ _ hE, llvm_obs _ _ _ _ hE, gcno_obs _ _ _ hE]
  exact (((((fileContent_obs _ _ _ _ hE).append (fileContent_obs _ _ _ _ hE)).append
    (List.Perm.refl _)).append (List.Perm.refl _)).append (List.Perm.refl _))

/-! ## the closed form depends on the artifact multiset only -/

/-- an artifact that `handle_file` does not ignore -/
def Art.relevant (a : Art) : Bool := decide (a.cls ≠ .ignored)

theorem cidsOf_filter_relevant (c : Cls) (hc : c ≠ .ignored) (as : List Art) :
    cidsOf c (as.filter Art.relevant) = cidsOf c as := by
  unfold cidsOf
  rw [List.filter_filter]
  congr 1
  apply List.filter_congr
  intro a _
  unfold Art.relevant
  by_cases h : a.cls = c
  · simp [h, hc]
  · simp [h]

theorem gcnoKeyCid_filter_relevant (as : List Art) :
    (as.filter Art.relevant).filterMap gcnoKeyCid = as.filterMap gcnoKeyCid := by
  induction as with
  | nil => rfl
  | cons a as ih =>
    by_cases h : a.relevant = true
    · simp only [List.filter_cons, h, if_true, List.filterMap_cons, ih]
    · have hc : a.cls = .ignored := by
        unfold Art.relevant at h; simpa using h
      simp [h, ih, gcnoKeyCid, hc]

theorem closed_filter_relevant (o : Opts) (as : List Art) :
    closed o (as.filter Art.relevant) = closed o as := by
  unfold closed profObs gcnoTable
  rw [gcnoKeyCid_filter_relevant]
  simp only [cidsOf_filter_relevant _ (by simp : Cls.info ≠ .ignored),
    cidsOf_filter_relevant _ (by simp : Cls.xml ≠ .ignored),
    cidsOf_filter_relevant _ (by simp : Cls.profdata ≠ .ignored),
    cidsOf_filter_relevant _ (by simp : Cls.profraw ≠ .ignored)]
  congr 1
  apply flatMap_congr_mem
  intro p _
  rw [cidsOf_filter_relevant _ (by simp)]

theorem cidsOf_perm (c : Cls) {as bs : List Art} (p : as.Perm bs) :
    (cidsOf c as).Perm (cidsOf c bs) := (p.filter _).map _

theorem profObs_perm (fmt : Fmt) (c : Cls) {as bs : List Art} (p : as.Perm bs) :
    profObs fmt c as = profObs fmt c bs := by
  unfold profObs
  rw [(cidsOf_perm c p).isEmpty_eq, sortNat_perm (cidsOf_perm c p)]

theorem gcnoObs_perm (io : Bool) (k : Name × Bool) (g : Nat) {ds es : List Nat} (p : ds.Perm es) :
    (gcnoObs io k g ds).Perm (gcnoObs io k g es) := by
  unfold gcnoObs
  rw [p.isEmpty_eq, sortNat_perm p]
  split
  · exact .refl _
  · split
    · exact .refl _
    · exact p.map _

theorem closed_perm (o : Opts) {as bs : List Art} (p : as.Perm bs) (hc : GcnoConsistent as) :
    (closed o as).Perm (closed o bs) := by
  unfold closed
  rw [profObs_perm _ _ p, profObs_perm _ _ p]
  refine ((((((cidsOf_perm _ p).map _).append ((cidsOf_perm _ p).map _)).append (.refl _)).append
    (.refl _)).append ?_)
  have ht : (gcnoTable as).Perm (gcnoTable bs) :=
    setAll_perm_of_consistent (p.filterMap gcnoKeyCid) hc
  refine (ht.flatMap_right _).trans ?_
  apply flatMap_perm_congr
  intro x _
  exact gcnoObs_perm _ _ _ (cidsOf_perm _ p)

theorem any_usable_filter_relevant (as : List Art) :
    (as.filter Art.relevant).any Art.usable = as.any Art.usable := by
  induction as with
  | nil => rfl
  | cons a as ih =>
    by_cases h : a.relevant = true
    · simp [h, ih]
    · have hc : a.cls = .ignored := by
        unfold Art.relevant at h; simpa using h
      have : a.usable = false := by unfold Art.usable; rw [hc]
      simp [h, ih, this]

/-- equivalence of outcomes: the same kind of panic, or item multisets that agree on everything the
consumers see (archive names and the order of gcda buffers aside) -/
def OutcomeEquiv : Outcome → Outcome → Prop
  | .ok i₁ _, .ok i₂ _ => (i₁.map Item.obs).Perm (i₂.map Item.obs)
  | .panicNoInput, .panicNoInput => True
  | .panicBadArg, .panicBadArg => True
  | _, _ => False

theorem run_equiv_of_arts (o : Opts) (args₁ args₂ : List Arg) (w₁ : WF args₁) (w₂ : WF args₂)
    (hb : args₁.any Arg.bad = args₂.any Arg.bad)
    (p : ((arts o.isLlvm args₁).filter Art.relevant).Perm ((arts o.isLlvm args₂).filter Art.relevant))
    (hc : GcnoConsistent (arts o.isLlvm args₁)) :
    OutcomeEquiv (run o args₁) (run o args₂) := by
  rw [run_cases, run_cases, hb]
  split
  · trivial
  · have hu : (arts o.isLlvm args₁).any Art.usable = (arts o.isLlvm args₂).any Art.usable := by
      rw [← any_usable_filter_relevant (arts o.isLlvm args₁),
        ← any_usable_filter_relevant (arts o.isLlvm args₂)]
      exact p.any_eq
    rw [hu]
    split
    · show ((itemsOf o args₁).map Item.obs).Perm ((itemsOf o args₂).map Item.obs)
      have hc' : GcnoConsistent ((arts o.isLlvm args₁).filter Art.relevant) := by
        unfold GcnoConsistent at *; rw [gcnoKeyCid_filter_relevant]; exact hc
      have h := closed_perm o p hc'
      rw [closed_filter_relevant, closed_filter_relevant] at h
      exact (itemsOf_obs o args₁ w₁).trans (h.trans (itemsOf_obs o args₂ w₂).symm)
    · trivial

/-! ## argument order -/

def fileArt (L : Bool) (f : File) : Art := ⟨classify L f, f.cid⟩

theorem artsOfE_entries (L : Bool) (archs : List Arch) :
    artsOfE L (entries archs) = archs.flatMap fun a => a.files.map (fileArt L) := by
  unfold artsOfE entries
  rw [List.map_flatMap]
  apply flatMap_congr_mem
  intro a _
  rw [List.map_map]; rfl

theorem arts_split (L : Bool) (args : List Arg) :
    arts L args = ((args.filterMap Arg.toArch?).flatMap fun a => a.files.map (fileArt L))
      ++ (args.filterMap Arg.plainFile?).map (fileArt L) := by
  rw [arts_eq, artsOfE_entries]
  unfold archives
  rw [List.flatMap_append]
  congr 1
  cases h : args.filterMap Arg.plainFile? with
  | nil => rfl
  | cons f fs => simp

theorem arts_perm (L : Bool) {args₁ args₂ : List Arg} (p : args₁.Perm args₂) :
    (arts L args₁).Perm (arts L args₂) := by
  rw [arts_split, arts_split]
  exact ((p.filterMap _).flatMap_right _).append ((p.filterMap _).map _)

theorem mem_archives {args : List Arg} {a : Arch} (h : a ∈ archives args) :
    a ∈ args.filterMap Arg.toArch? ∨
      (a = ⟨.plain, .plain, args.filterMap Arg.plainFile?⟩ ∧ args.filterMap Arg.plainFile? ≠ []) := by
  unfold archives at h
  rcases List.mem_append.1 h with h | h
  · exact Or.inl h
  · right
    cases hp : args.filterMap Arg.plainFile? with
    | nil => simp [hp] at h
    | cons f fs => simp [hp] at h; exact ⟨h, by simp⟩

theorem WF_perm {args₁ args₂ : List Arg} (p : args₁.Perm args₂) (w : WF args₁) : WF args₂ := by
  intro a ha
  rcases mem_archives ha with h | ⟨rfl, hne⟩
  · apply w a
    unfold archives
    exact List.mem_append_left _ ((p.filterMap _).mem_iff.2 h)
  · have pp := p.filterMap Arg.plainFile?
    have hne₁ : args₁.filterMap Arg.plainFile? ≠ [] := fun h => hne (by rw [h] at pp; exact pp.symm.eq_nil)
    have hin : (⟨.plain, .plain, args₁.filterMap Arg.plainFile?⟩ : Arch) ∈ archives args₁ := by
      unfold archives
      apply List.mem_append_right
      cases hp : args₁.filterMap Arg.plainFile? with
      | nil => exact absurd hp hne₁
      | cons f fs => simp
    intro f hf g hg hfg
    exact w _ hin f (pp.mem_iff.2 hf) g (pp.mem_iff.2 hg) hfg

/-! ## path mapping candidates -/

theorem mem_lmaps {L : Bool} {E : List (Arch × File)} {n : Name} {a : Arch}
    (h : (n, a) ∈ setAll (selCls L .linkedMap E) []) :
    ∃ f, (a, f) ∈ E ∧ classify L f = .linkedMap ∧ f.path = n := by
  rcases mem_setAll h with h | h
  · unfold selCls at h
    obtain ⟨p, hp, he⟩ := List.mem_map.1 h
    have hp' := List.mem_filter.1 hp
    cases he
    exact ⟨p.2, hp'.1, by simpa using hp'.2, rfl⟩
  · cases h

theorem cands_sub (o : Opts) (args : List Arg) (hw : WF args) :
    ∀ c ∈ candsOf o args, c ∈ cidsOf .linkedMap (arts o.isLlvm args) := by
  have hE : EntriesWF (entries (archives args)) := entriesWF_of hw
  intro c hc
  unfold candsOf mapCands at hc
  rw [explore_eq, explore_lmaps] at hc
  obtain ⟨p, hp, hr⟩ := List.mem_filterMap.1 hc
  obtain ⟨f, hf, hcl, hpath⟩ := mem_lmaps (n := p.1) (a := p.2) hp
  rw [← hpath, read_of_mem (hE _ hf).2 (hE _ hf).1] at hr
  cases hr
  rw [arts_eq, cidsOf_artsOfE]
  exact List.mem_map.2 ⟨(p.2, f), List.mem_filter.2 ⟨hf, by simpa using hcl⟩, rfl⟩

theorem cands_nil_iff (o : Opts) (args : List Arg) (hw : WF args) :
    candsOf o args = [] ↔ cidsOf .linkedMap (arts o.isLlvm args) = [] := by
  have hE : EntriesWF (entries (archives args)) := entriesWF_of hw
  constructor
  · intro h
    rw [arts_eq, ← selCls_eq_nil]
    unfold candsOf mapCands at h
    rw [explore_eq, explore_lmaps] at h
    cases hs : setAll (selCls o.isLlvm .linkedMap (entries (archives args))) [] with
    | nil => exact ((setAll_eq_nil _ _).1 hs).2
    | cons p ps =>
      exfalso
      have hp : p ∈ setAll (selCls o.isLlvm .linkedMap (entries (archives args))) [] := by
        rw [hs]; exact List.mem_cons_self
      obtain ⟨f, hf, _, hpath⟩ := mem_lmaps (n := p.1) (a := p.2) hp
      have hr : p.2.read p.1 = some f.cid := by
        rw [← hpath]; exact read_of_mem (hE _ hf).2 (hE _ hf).1
      have := List.filterMap_eq_nil_iff.1 h p hp
      rw [hr] at this; cases this
  · intro h
    rw [arts_eq, ← selCls_eq_nil] at h
    unfold candsOf mapCands
    rw [explore_eq, explore_lmaps, h]
    rfl

/-! ## reading the closed form -/

/-- the gcno stem an observable item is about -/
def Obs.stem? : Obs → Option Name
  | .gcnoPath s _ _ => some s
  | .gcnoBuf s _ _ => some s
  | _ => none

theorem gcnoKeyCid_some {a : Art} {k : Name × Bool} {g : Nat} (h : gcnoKeyCid a = some (k, g)) :
    a.cls = .gcno k.1 k.2 ∧ a.cid = g := by
  unfold gcnoKeyCid at h
  split at h
  · rename_i s l hc; cases h; exact ⟨hc, rfl⟩
  · cases h

theorem mem_gcnoTable {as : List Art} {k : Name × Bool} {g : Nat} (h : (k, g) ∈ gcnoTable as) :
    ∃ a ∈ as, a.cls = .gcno k.1 k.2 ∧ a.cid = g := by
  rw [gcnoTable_eq] at h
  rcases mem_setAll h with h | h
  · obtain ⟨a, ha, hk⟩ := List.mem_filterMap.1 h
    exact ⟨a, ha, gcnoKeyCid_some hk⟩
  · cases h

theorem key_in_gcnoTable {as : List Art} {a : Art} {s : Name} {l : Bool} (ha : a ∈ as)
    (hc : a.cls = .gcno s l) : ∃ g, ((s, l), g) ∈ gcnoTable as := by
  rw [gcnoTable_eq]
  apply exists_mem_of_mem_keys
  rw [mem_keys_setAll]
  right
  exact ⟨((s, l), a.cid), List.mem_filterMap.2 ⟨a, ha, by simp [gcnoKeyCid, hc]⟩, rfl⟩

theorem gcnoTable_nodupKeys (as : List Art) : NodupKeys (gcnoTable as) := by
  rw [gcnoTable_eq]; exact nodupKeys_setAll _ _ (by simp [NodupKeys, keys])

theorem gcnoObs_stem {io : Bool} {k : Name × Bool} {g : Nat} {ds : List Nat} {x : Obs}
    (hx : x ∈ gcnoObs io k g ds) : x.stem? = some k.1 := by
  unfold gcnoObs at hx
  repeat' split at hx
  all_goals first
    | (simp only [List.mem_singleton] at hx; subst hx; rfl)
    | (obtain ⟨d, _, rfl⟩ := List.mem_map.1 hx; rfl)
    | cases hx

theorem mem_closed_of_gcno {o : Opts} {as : List Art} {p : (Name × Bool) × Nat} {x : Obs}
    (hp : p ∈ gcnoTable as)
    (hx : x ∈ gcnoObs o.ignoreOrphan p.1 p.2 (cidsOf (.gcda p.1.1) as)) : x ∈ closed o as := by
  unfold closed
  exact List.mem_append_right _ (List.mem_flatMap.2 ⟨p, hp, hx⟩)

theorem stem_mem_closed {o : Opts} {as : List Art} {x : Obs} {s : Name} (hx : x ∈ closed o as)
    (hs : x.stem? = some s) :
    ∃ p ∈ gcnoTable as, p.1.1 = s ∧
      x ∈ gcnoObs o.ignoreOrphan p.1 p.2 (cidsOf (.gcda p.1.1) as) := by
  unfold closed profObs at hx
  simp only [List.mem_append] at hx
  rcases hx with (((hx | hx) | hx) | hx) | hx
  · obtain ⟨c, _, rfl⟩ := List.mem_map.1 hx; cases hs
  · obtain ⟨c, _, rfl⟩ := List.mem_map.1 hx; cases hs
  · split at hx
    · cases hx
    · simp only [List.mem_singleton] at hx; subst hx; cases hs
  · split at hx
    · cases hx
    · simp only [List.mem_singleton] at hx; subst hx; cases hs
  · obtain ⟨p, hp, hxp⟩ := List.mem_flatMap.1 hx
    have := gcnoObs_stem hxp
    rw [hs] at this
    exact ⟨p, hp, (Option.some.inj this).symm, hxp⟩

/-- last writer wins: the table holds, for a key, the content of the last gcno with that key -/
theorem gcnoTable_last (pre post : List Art) (a : Art) (k : Name × Bool) (g : Nat)
    (ha : gcnoKeyCid a = some (k, g)) (hpost : ∀ b ∈ post, ∀ g', gcnoKeyCid b ≠ some (k, g')) :
    get? (gcnoTable (pre ++ a :: post)) k = some g := by
  rw [gcnoTable_eq, List.filterMap_append, List.filterMap_cons, ha]
  unfold setAll
  rw [List.foldl_append, List.foldl_cons]
  generalize List.foldl (fun m x => AList.set m x.1 x.2) [] (List.filterMap gcnoKeyCid pre) = m₀
  have h0 : get? (AList.set m₀ k g) k = some g := by rw [get?_set]; simp
  generalize AList.set m₀ k g = m at h0
  induction post generalizing m with
  | nil => exact h0
  | cons b post ih =>
    rw [List.filterMap_cons]
    cases hb : gcnoKeyCid b with
    | none => exact ih (fun c hc => hpost c (List.mem_cons_of_mem _ hc)) m h0
    | some kg =>
      rw [List.foldl_cons]
      apply ih (fun c hc => hpost c (List.mem_cons_of_mem _ hc))
      rw [get?_set]
      have : ¬ kg.1 = k := by
        intro e
        exact hpost b List.mem_cons_self kg.2 (by rw [hb, ← e])
      simp [this, h0]

theorem mem_of_get? {κ β : Type} [DecidableEq κ] {m : List (κ × β)} {k : κ} {v : β}
    (h : get? m k = some v) : (k, v) ∈ m := by
  induction m with
  | nil => cases h
  | cons p m ih =>
    obtain ⟨k', w⟩ := p
    rw [get?_cons] at h
    split at h
    · rename_i hk; cases h; subst hk; exact List.mem_cons_self
    · exact List.mem_cons_of_mem _ (ih h)

/-! ## sniffing -/

theorem isInfo_iff (h : List Nat) :
    isInfo h = true ↔ ∃ rest, h = [84, 78, 58] ++ rest ∨ h = [83, 70, 58] ++ rest := by
  unfold isInfo
  constructor
  · intro hh
    simp only [Bool.and_eq_true, decide_eq_true_eq, Bool.or_eq_true, beq_iff_eq] at hh
    refine ⟨h.drop 3, ?_⟩
    rcases hh.2 with e | e
    · left; rw [← e, List.take_append_drop]
    · right; rw [← e, List.take_append_drop]
  · rintro ⟨rest, rfl | rfl⟩ <;> simp

theorem classify_of_ext {L : Bool} {f : File} {s e : Name} (h : splitExt f.path = some (s, e)) :
    classify L f =
      if e = bGcno then .gcno s (L || isGcnoLlvm f.head)
      else if e = bGcda then .gcda s
      else if e = bProfdata then .profdata
      else if e = bProfraw then .profraw
      else if e = bInfo then (if isInfo f.head then .info else .ignored)
      else if e = bXml then (if isJacoco f.head then .xml else .ignored)
      else if e = bJson then (if baseName f.path = bLfm then .linkedMap else .ignored)
      else .ignored := by
  unfold classify; rw [h]

/-! ## from a run to the closed form -/

theorem run_ok_inv {o : Opts} {args : List Arg} {items : List Item} {maps : List Nat}
    (h : run o args = .ok items maps) :
    args.any Arg.bad = false ∧ (arts o.isLlvm args).any Art.usable = true ∧
      items = itemsOf o args ∧ maps = candsOf o args := by
  rw [run_cases] at h
  split at h
  · cases h
  · rename_i hb
    split at h
    · rename_i hu
      cases h
      exact ⟨by simpa using hb, hu, rfl, rfl⟩
    · cases h

theorem obs_mem_iff {o : Opts} {args : List Arg} (hw : WF args) {items : List Item}
    {maps : List Nat} (h : run o args = .ok items maps) (x : Obs) :
    x ∈ items.map Item.obs ↔ x ∈ closed o (arts o.isLlvm args) := by
  obtain ⟨_, _, rfl, _⟩ := run_ok_inv h
  exact (itemsOf_obs o args hw).mem_iff

/-! ## the path-mapping component of the outcome -/

/-- what `get_mapping` may return given the candidate list of the run: `None` iff there is no
candidate, otherwise the content of ONE of them (`linked_files_maps.iter().next()`: the first entry
of a hash map, i.e. an arbitrary one) -/
def mappingMay (maps : List Nat) (r : Option Nat) : Prop :=
  match r with
  | none => maps = []
  | some c => c ∈ maps

/-- at most one distinct `linked-files-map.json` content among the artifacts -/
def MapConsistent (as : List Art) : Prop :=
  ∀ c ∈ cidsOf .linkedMap as, ∀ d ∈ cidsOf .linkedMap as, c = d

/-- equivalence of outcomes INCLUDING the path mapping: `OutcomeEquiv`, and whatever the two runs
may return as mapping is the same -/
def MapsAgree : Outcome → Outcome → Prop
  | .ok _ m₁, .ok _ m₂ => ∀ r₁ r₂, mappingMay m₁ r₁ → mappingMay m₂ r₂ → r₁ = r₂
  | _, _ => True

def OutcomeEquivM (a b : Outcome) : Prop := OutcomeEquiv a b ∧ MapsAgree a b

theorem mapsAgree_intro {a b : Outcome}
    (h : ∀ i₁ m₁ i₂ m₂, a = .ok i₁ m₁ → b = .ok i₂ m₂ →
      ∀ r₁ r₂, mappingMay m₁ r₁ → mappingMay m₂ r₂ → r₁ = r₂) : MapsAgree a b := by
  cases a <;> cases b <;> simp only [MapsAgree]
  exact h _ _ _ _ rfl rfl

theorem linkedMap_perm_of_relevant {as bs : List Art}
    (p : (as.filter Art.relevant).Perm (bs.filter Art.relevant)) :
    (cidsOf .linkedMap as).Perm (cidsOf .linkedMap bs) := by
  have := cidsOf_perm .linkedMap p
  rwa [cidsOf_filter_relevant _ (by simp), cidsOf_filter_relevant _ (by simp)] at this

/-- with at most one distinct map content, what a run may return is determined by the artifacts -/
theorem mapping_determined (o : Opts) (args : List Arg) (hw : WF args)
    (hm : MapConsistent (arts o.isLlvm args)) (r : Option Nat)
    (hr : mappingMay (candsOf o args) r) :
    r = (cidsOf .linkedMap (arts o.isLlvm args)).head? := by
  cases r with
  | none =>
    have h : candsOf o args = [] := hr
    rw [(cands_nil_iff o args hw).1 h]; rfl
  | some c =>
    have hc : c ∈ cidsOf .linkedMap (arts o.isLlvm args) := cands_sub o args hw c hr
    cases hl : cidsOf .linkedMap (arts o.isLlvm args) with
    | nil => rw [hl] at hc; cases hc
    | cons d ds =>
      have hd : d ∈ cidsOf .linkedMap (arts o.isLlvm args) := by rw [hl]; exact List.mem_cons_self
      rw [hm c hc d hd]; rfl

theorem run_equivM_of_arts (o : Opts) (args₁ args₂ : List Arg) (w₁ : WF args₁) (w₂ : WF args₂)
    (hb : args₁.any Arg.bad = args₂.any Arg.bad)
    (p : ((arts o.isLlvm args₁).filter Art.relevant).Perm ((arts o.isLlvm args₂).filter Art.relevant))
    (hc : GcnoConsistent (arts o.isLlvm args₁)) (hm : MapConsistent (arts o.isLlvm args₁)) :
    OutcomeEquivM (run o args₁) (run o args₂) := by
  refine ⟨run_equiv_of_arts o args₁ args₂ w₁ w₂ hb p hc, ?_⟩
  have pl := linkedMap_perm_of_relevant p
  have hm₂ : MapConsistent (arts o.isLlvm args₂) := fun c hc' d hd =>
    hm c (pl.mem_iff.2 hc') d (pl.mem_iff.2 hd)
  apply mapsAgree_intro
  intro i₁ m₁ i₂ m₂ e₁ e₂ r₁ r₂ h₁ h₂
  obtain ⟨_, _, _, rfl⟩ := run_ok_inv e₁
  obtain ⟨_, _, _, rfl⟩ := run_ok_inv e₂
  rw [mapping_determined o args₁ w₁ hm r₁ h₁, mapping_determined o args₂ w₂ hm₂ r₂ h₂]
  -- equal heads: the two lists are permutations of each other and constant
  cases h1 : cidsOf .linkedMap (arts o.isLlvm args₁) with
  | nil =>
    rw [h1] at pl
    rw [pl.symm.eq_nil]
  | cons c cs =>
    cases h2 : cidsOf .linkedMap (arts o.isLlvm args₂) with
    | nil => rw [h2] at pl; exact absurd pl.eq_nil (by rw [h1]; simp)
    | cons d ds =>
      have hc1 : c ∈ cidsOf .linkedMap (arts o.isLlvm args₁) := by
        rw [h1]; exact List.mem_cons_self
      have hd1 : d ∈ cidsOf .linkedMap (arts o.isLlvm args₁) :=
        pl.mem_iff.2 (by rw [h2]; exact List.mem_cons_self)
      simp [hm c hc1 d hd1]

/-! ## classification of the arguments -/

theorem toArg_not_bad {r : RawArg} {a : Arg} (hs : r.self.path = r.full) (h : r.toArg = .ok a) :
    a.bad = false := by
  unfold RawArg.toArg at h
  cases hc : classifyArg r.path r.full r.isDir <;> rw [hc] at h <;> simp only at h
  · split at h
    · cases h; rfl
    · cases h
  · cases h; rfl
  · cases h
    unfold classifyArg at hc
    split at hc
    · cases hc
    · split at hc
      · cases hc
      · unfold extClass at hc
        split at hc
        · rename_i s e he
          split at hc
          · rename_i hin
            simp only [Arg.bad, plainOk, hs, he, hin, Bool.not_true]
          · cases hc
        · cases hc
  · cases h
  · cases h

theorem classifyAll_not_bad {raws : List RawArg} {args : List Arg}
    (hs : ∀ r ∈ raws, r.self.path = r.full) (h : classifyAll raws = .ok args) :
    args.any Arg.bad = false := by
  induction raws generalizing args with
  | nil => cases h; rfl
  | cons r rs ih =>
    unfold classifyAll at h
    cases hr : r.toArg with
    | error e => rw [hr] at h; cases h
    | ok a =>
      rw [hr] at h
      simp only at h
      cases hrs : classifyAll rs with
      | error e => rw [hrs] at h; cases h
      | ok as =>
        rw [hrs] at h
        cases h
        rw [List.any_cons, toArg_not_bad (hs r List.mem_cons_self) hr,
          ih (fun r' hr' => hs r' (List.mem_cons_of_mem _ hr')) hrs]
        rfl

theorem classifyArg_zip (path full : Name) (isDir : Bool) (h : endsWith path bDotZip = true) :
    classifyArg path full isDir = .zip := by
  simp [classifyArg, h]

theorem classifyArg_dir (path full : Name) (h : endsWith path bDotZip = false) :
    classifyArg path full true = .dir := by
  simp [classifyArg, h]

theorem classifyArg_file (path full : Name) (h : endsWith path bDotZip = false) :
    classifyArg path full false = extClass full := by
  simp [classifyArg, h]

end Grcov.Producer
