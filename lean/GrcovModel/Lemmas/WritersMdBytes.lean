/-
Lemmas for `Writers/MdBytes.lean`: the strict reader of the markdown report reads back what the
writer wrote (table level and typed level), the layout of the table, the badge template matcher,
coverage.json.
-/
import GrcovModel.Writers.MdBytes
import GrcovModel.Lemmas.WritersJsonBytes
import GrcovModel.Lemmas.WritersDocs
namespace Grcov.Writers.MdBytes
open Grcov Grcov.Writers Grcov.Writers.Docs
open Grcov.Writers.CobBytes (decBytes decVal? decFuel decFuel_digits decFuel_ne_nil decVal?_decBytes)

/-! ## lines -/

theorem splitNl_ne_nil (bs : Bytes) : splitNl bs ≠ [] := by
  cases bs with
  | nil => simp [splitNl]
  | cons b bs =>
    unfold splitNl
    split
    · simp
    · split <;> simp

theorem splitNl_noNl (l : Bytes) (h : 10 ∉ l) : splitNl l = [l] := by
  induction l with
  | nil => rfl
  | cons b l ih =>
    have hb : b ≠ 10 := fun e => h (by simp [e])
    have hl : 10 ∉ l := fun m => h (List.mem_cons_of_mem _ m)
    simp [splitNl, hb, ih hl]

theorem splitNl_append_nl (l rest : Bytes) (h : 10 ∉ l) : splitNl (l ++ 10 :: rest) = l :: splitNl rest := by
  induction l with
  | nil => simp [splitNl]
  | cons b l ih =>
    have hb : b ≠ 10 := fun e => h (by simp [e])
    have hl : 10 ∉ l := fun m => h (List.mem_cons_of_mem _ m)
    simp [splitNl, hb, ih hl]

theorem joinNl_cons_cons (a b : Bytes) (r : List Bytes) : joinNl (a :: b :: r) = a ++ 10 :: joinNl (b :: r) := rfl

theorem splitNl_joinNl (ls : List Bytes) (hne : ls ≠ []) (h : ∀ l ∈ ls, 10 ∉ l) : splitNl (joinNl ls) = ls := by
  induction ls with
  | nil => exact absurd rfl hne
  | cons a r ih =>
    cases r with
    | nil => simpa [joinNl] using splitNl_noNl a (h a (by simp))
    | cons b r =>
      rw [joinNl_cons_cons, splitNl_append_nl _ _ (h a (by simp)), ih (by simp) (fun l hl => h l (List.mem_cons_of_mem _ hl))]

theorem joinNl_append (A B : List Bytes) (hA : A ≠ []) (hB : B ≠ []) :
    joinNl (A ++ B) = joinNl A ++ 10 :: joinNl B := by
  induction A with
  | nil => exact absurd rfl hA
  | cons a r ih =>
    cases r with
    | nil =>
      cases B with
      | nil => exact absurd rfl hB
      | cons b B => simp [joinNl]
    | cons a' r =>
      have := ih (by simp)
      simp only [List.cons_append] at this ⊢
      rw [joinNl_cons_cons, this, joinNl_cons_cons]
      simp

/-! ## the separator line -/

theorem sepFold_dashes (s : SepSt) (w : Nat) :
    (List.replicate w 45).foldl sepStep s = { s with cur := s.cur + w } := by
  induction w generalizing s with
  | zero => simp
  | succ w ih =>
    rw [List.replicate_succ, List.foldl_cons, ih]
    simp [sepStep]; omega

theorem sepFold_cols (acc : List Nat) (ws : List Nat) :
    ((ws.map fun w => List.replicate w 45 ++ [124]).flatten).foldl sepStep ⟨0, acc, true⟩ = ⟨0, acc ++ ws, true⟩ := by
  induction ws generalizing acc with
  | nil => simp
  | cons w ws ih =>
    simp only [List.map_cons, List.flatten_cons, List.foldl_append, sepFold_dashes]
    simp only [List.foldl_cons, List.foldl_nil, sepStep]
    simp [ih]

theorem sepWidths_sepLine (ws : List Nat) : sepWidths (sepLine ws) = some ws := by
  simp [sepWidths, sepLine, sepFold_cols]

/-! ## cells -/

/-- a cell the reader returns unchanged: one line, no blank at the end -/
def CellOK (c : Bytes) : Prop := 10 ∉ c ∧ c.getLast? ≠ some 32

theorem dropWhile_replicate_append (k : Nat) (l : Bytes) (h : l.head? ≠ some 32) :
    (List.replicate k 32 ++ l).dropWhile (· = 32) = l := by
  induction k with
  | zero =>
    cases l with
    | nil => rfl
    | cons a l =>
      have : a ≠ 32 := fun e => h (by simp [e])
      simp [this]
  | succ k ih => simp [List.replicate_succ, ih]

theorem rstrip_append_spaces (c : Bytes) (k : Nat) (h : c.getLast? ≠ some 32) : rstrip (c ++ spaces k) = c := by
  unfold rstrip spaces
  rw [List.reverse_append, List.reverse_replicate, dropWhile_replicate_append, List.reverse_reverse]
  rwa [List.head?_reverse]

theorem cellLine_one (w : Nat) (c : Bytes) (h : 10 ∉ c) :
    cellLine w c 0 = 32 :: c ++ spaces (w - 2 - c.length) ++ [32] := by
  simp [cellLine, splitNl_noNl c h]

theorem takeCell_cellLine (w : Nat) (c rest : Bytes) (hok : CellOK c) (hfit : c.length + 2 ≤ w) :
    takeCell w (cellLine w c 0 ++ [124] ++ rest) = some (c, rest) := by
  rw [cellLine_one w c hok.1]
  have hlen : (32 :: c ++ spaces (w - 2 - c.length) ++ [32]).length = w := by
    simp [spaces]; omega
  unfold takeCell
  have e1 : ((32 :: c ++ spaces (w - 2 - c.length) ++ [32]) ++ [124] ++ rest).take w
      = 32 :: (c ++ spaces (w - 2 - c.length) ++ [32]) := by
    rw [List.append_assoc, List.take_left' hlen]; simp
  have e2 : ((32 :: c ++ spaces (w - 2 - c.length) ++ [32]) ++ [124] ++ rest).drop w = 124 :: rest := by
    rw [List.append_assoc, List.drop_left' hlen]; simp
  rw [e1, e2]
  have hl2 : (c ++ spaces (w - 2 - c.length) ++ [32]).length + 1 = w := by simp [spaces]; omega
  simp only [hl2, List.getLast?_append, List.getLast?_singleton, Option.some_or, true_and, if_true,
    List.dropLast_concat, rstrip_append_spaces c _ hok.2]

/-- every cell is readable and fits its column -/
def Fits : List Nat → List Bytes → Prop
  | [], [] => True
  | w :: ws, c :: r => (CellOK c ∧ c.length + 2 ≤ w) ∧ Fits ws r
  | _, _ => False

theorem rowCells_cells (ws : List Nat) (r : List Bytes) (h : Fits ws r) :
    rowCells ws ((List.zipWith (fun w c => cellLine w c 0 ++ [124]) ws r).flatten) = some r := by
  induction ws generalizing r with
  | nil => cases r with
    | nil => rfl
    | cons c r => exact absurd h (by simp [Fits])
  | cons w ws ih =>
    cases r with
    | nil => exact absurd h (by simp [Fits])
    | cons c r =>
      obtain ⟨hwc, hr⟩ := h
      simp only [List.zipWith_cons_cons, List.flatten_cons, rowCells]
      rw [takeCell_cellLine w c _ hwc.1 hwc.2]
      simp [ih r hr]

theorem parseRow_gridLine (ws : List Nat) (r : List Bytes) (h : Fits ws r) :
    parseRow ws (gridLine ws r 0) = some r := by
  simp [parseRow, gridLine, rowCells_cells ws r h]

/-! ## widths -/

theorem le_maxNat {l : List Nat} {x : Nat} (h : x ∈ l) : x ≤ maxNat l := by
  induction l with
  | nil => cases h
  | cons a l ih =>
    simp only [maxNat, List.foldr_cons] at ih ⊢
    rcases List.mem_cons.1 h with e | m
    · subst e; exact Nat.le_max_left _ _
    · exact Nat.le_trans (ih m) (Nat.le_max_right _ _)

theorem cellW_one (c : Bytes) (h : 10 ∉ c) : cellW c = c.length := by
  simp [cellW, splitNl_noNl c h, maxNat]

theorem cellH_one (c : Bytes) (h : 10 ∉ c) : cellH c = 1 := by
  simp [cellH, splitNl_noNl c h]

theorem fit_col (rows : List (List Bytes)) (r : List Bytes) (hr : r ∈ rows) (j : Nat) (c : Bytes)
    (hc : r.getD j [] = c) (h : 10 ∉ c) : c.length + 2 ≤ colWidth rows j := by
  unfold colWidth
  have : cellW c ∈ rows.map fun r => cellW (r.getD j []) := List.mem_map.2 ⟨r, hr, by rw [hc]⟩
  have := le_maxNat this
  rw [cellW_one c h] at this
  omega

def MdLine.OK (l : MdLine) : Prop := CellOK l.file ∧ CellOK l.coverage ∧ CellOK l.covered ∧ CellOK l.missed

/-- the tables the strict reader returns unchanged -/
def MdTable.WF (t : MdTable) : Prop := (∀ l ∈ t.rows, l.OK) ∧ 10 ∉ t.total

theorem mdHeader_ok : ∀ c ∈ mdHeader, CellOK c := by unfold CellOK; decide

/-- the rows of the grid of a table: header, then the cells of every line -/
def gridRows (t : MdTable) : List (List Bytes) := mdHeader :: t.rows.map MdLine.cells

theorem widths_gridRows (t : MdTable) :
    widths (gridRows t) = [colWidth (gridRows t) 0, colWidth (gridRows t) 1, colWidth (gridRows t) 2, colWidth (gridRows t) 3] := by
  simp [widths, gridRows, mdHeader, List.range, List.range.loop]

theorem fits_four (rows : List (List Bytes)) (a b c d : Bytes) (hr : [a, b, c, d] ∈ rows)
    (ha : CellOK a) (hb : CellOK b) (hc : CellOK c) (hd : CellOK d) :
    Fits [colWidth rows 0, colWidth rows 1, colWidth rows 2, colWidth rows 3] [a, b, c, d] :=
  ⟨⟨ha, fit_col rows _ hr 0 a rfl ha.1⟩, ⟨hb, fit_col rows _ hr 1 b rfl hb.1⟩,
   ⟨hc, fit_col rows _ hr 2 c rfl hc.1⟩, ⟨hd, fit_col rows _ hr 3 d rfl hd.1⟩, trivial⟩

theorem fits_header (t : MdTable) : Fits (widths (gridRows t)) mdHeader := by
  rw [widths_gridRows]
  have h := mdHeader_ok
  exact fits_four _ _ _ _ _ (by simp [gridRows, mdHeader]) (h _ (by simp [mdHeader])) (h _ (by simp [mdHeader]))
    (h _ (by simp [mdHeader])) (h _ (by simp [mdHeader]))

theorem fits_line (t : MdTable) (l : MdLine) (hl : l ∈ t.rows) (hok : l.OK) : Fits (widths (gridRows t)) l.cells := by
  rw [widths_gridRows]
  exact fits_four _ _ _ _ _ (by simp only [gridRows]; exact List.mem_cons_of_mem _ (List.mem_map.2 ⟨l, hl, rfl⟩))
    hok.1 hok.2.1 hok.2.2.1 hok.2.2.2

theorem rowLines_four (ws : List Nat) (a b c d : Bytes) (ha : 10 ∉ a) (hb : 10 ∉ b) (hc : 10 ∉ c) (hd : 10 ∉ d) :
    rowLines ws [a, b, c, d] = [gridLine ws [a, b, c, d] 0] := by
  simp [rowLines, rowH, cellH_one, ha, hb, hc, hd, maxNat, List.range, List.range.loop]

theorem rowLines_header (ws : List Nat) : rowLines ws mdHeader = [gridLine ws mdHeader 0] := by
  have h := mdHeader_ok
  exact rowLines_four ws _ _ _ _ (h _ (by simp [mdHeader])).1 (h _ (by simp [mdHeader])).1
    (h _ (by simp [mdHeader])).1 (h _ (by simp [mdHeader])).1

theorem flatMap_rowLines (ws : List Nat) (ls : List MdLine) (h : ∀ l ∈ ls, l.OK) :
    (ls.map MdLine.cells).flatMap (rowLines ws) = ls.map fun l => gridLine ws l.cells 0 := by
  induction ls with
  | nil => rfl
  | cons l ls ih =>
    have hl := h l (by simp)
    simp only [List.map_cons, List.flatMap_cons, ih (fun x hx => h x (List.mem_cons_of_mem _ hx))]
    rw [show l.cells = [l.file, l.coverage, l.covered, l.missed] from rfl,
      rowLines_four ws _ _ _ _ hl.1.1 hl.2.1.1 hl.2.2.1.1 hl.2.2.2.1]
    rfl

/-- the lines of the table part -/
def tableLines (t : MdTable) : List Bytes :=
  gridLine (widths (gridRows t)) mdHeader 0 :: sepLine (widths (gridRows t)) ::
    t.rows.map fun l => gridLine (widths (gridRows t)) l.cells 0

theorem gridBytes_gridRows (t : MdTable) (h : ∀ l ∈ t.rows, l.OK) : gridBytes (gridRows t) = joinNl (tableLines t) := by
  simp only [gridBytes, gridRows, tableLines]
  rw [rowLines_header, flatMap_rowLines _ _ h]
  rfl

theorem tableBytes_lines (t : MdTable) (h : ∀ l ∈ t.rows, l.OK) :
    tableBytes t = joinNl (tableLines t ++ [[], totalPrefix ++ t.total, []]) := by
  rw [joinNl_append _ _ (by simp [tableLines]) (by simp)]
  have := gridBytes_gridRows t h
  simp only [gridRows] at this
  simp only [tableBytes, this, joinNl]
  simp

/-! no line feed inside a line -/

theorem noNl_spaces (k : Nat) : 10 ∉ spaces k := by
  simp [spaces]

theorem noNl_cells (ws : List Nat) (r : List Bytes) (h : Fits ws r) :
    10 ∉ (List.zipWith (fun w c => cellLine w c 0 ++ [124]) ws r).flatten := by
  induction ws generalizing r with
  | nil => simp
  | cons w ws ih =>
    cases r with
    | nil => simp
    | cons c r =>
      obtain ⟨hwc, hr⟩ := h
      simp only [List.zipWith_cons_cons, List.flatten_cons, List.mem_append, not_or]
      refine ⟨?_, ih r hr⟩
      rw [cellLine_one w c hwc.1.1]
      simp [noNl_spaces, hwc.1.1]

theorem noNl_gridLine (ws : List Nat) (r : List Bytes) (h : Fits ws r) : 10 ∉ gridLine ws r 0 := by
  simp [gridLine, noNl_cells ws r h]

theorem noNl_sepLine (ws : List Nat) : 10 ∉ sepLine ws := by
  simp only [sepLine, List.mem_cons, List.mem_flatten, List.mem_map, not_or, not_exists, not_and]
  refine ⟨by decide, ?_⟩
  rintro l ⟨w, _, rfl⟩
  simp

theorem noNl_totalPrefix : 10 ∉ totalPrefix := by decide

/-! ## the reader on the written table -/

theorem stripPrefix_append (p r : Bytes) : stripPrefix p (p ++ r) = some r := by
  induction p with
  | nil => cases r <;> rfl
  | cons a p ih => simp [stripPrefix, ih]

theorem gridLine_ne_nil (ws : List Nat) (r : List Bytes) (k : Nat) : gridLine ws r k ≠ [] := by simp [gridLine]

theorem parseBody_lines (t : MdTable) (ls : List MdLine) (hsub : ∀ l ∈ ls, l ∈ t.rows) (hok : ∀ l ∈ t.rows, l.OK) :
    parseBody (widths (gridRows t)) ((ls.map fun l => gridLine (widths (gridRows t)) l.cells 0) ++
      [[], totalPrefix ++ t.total, []]) = some (ls, t.total) := by
  induction ls with
  | nil => simp [parseBody, stripPrefix_append]
  | cons l ls ih =>
    have hl := hsub l (by simp)
    simp only [List.map_cons, List.cons_append, parseBody, gridLine_ne_nil, if_false]
    rw [parseRow_gridLine _ _ (fits_line t l hl (hok l hl)), ih (fun x hx => hsub x (List.mem_cons_of_mem _ hx))]
    rfl

theorem parseTable_tableBytes (t : MdTable) (h : t.WF) : parseTable (tableBytes t) = some t := by
  obtain ⟨hok, htot⟩ := h
  rw [tableBytes_lines t hok]
  unfold parseTable
  rw [splitNl_joinNl _ (by simp [tableLines])]
  · simp only [tableLines, List.cons_append, sepWidths_sepLine,
      parseRow_gridLine _ _ (fits_header t), if_true, parseBody_lines t t.rows (fun _ h => h) hok]
    rfl
  · intro l hl
    simp only [tableLines, List.cons_append, List.mem_cons, List.mem_append, List.mem_map] at hl
    rcases hl with rfl | rfl | ⟨x, hx, rfl⟩ | hl
    · exact noNl_gridLine _ _ (fits_header t)
    · exact noNl_sepLine _
    · exact noNl_gridLine _ _ (fits_line t x hx (hok x hx))
    · rcases hl with rfl | rfl | rfl | hl
      · simp
      · simp [noNl_totalPrefix, htot]
      · simp
      · cases hl

/-! ## the typed cells -/

theorem decBytes_isDigit (n : Nat) : ∀ b ∈ decBytes n, isDigit b = true := by
  intro b hb
  have := decFuel_digits _ _ b hb
  simp [isDigit, this]

theorem decBytes_ne_nil (n : Nat) : decBytes n ≠ [] := decFuel_ne_nil n n

/-- what follows a number is not a digit -/
def DigitStop (rest : Bytes) : Prop := ∀ b r, rest = b :: r → isDigit b = false

theorem span_digits (t rest : Bytes) (ht : ∀ b ∈ t, isDigit b = true) (hs : DigitStop rest) :
    (t ++ rest).takeWhile isDigit = t ∧ (t ++ rest).dropWhile isDigit = rest := by
  induction t with
  | nil =>
    cases rest with
    | nil => simp
    | cons c r => simp [hs c r rfl]
  | cons x t ih =>
    have := ih (fun b hb => ht b (List.mem_cons_of_mem _ hb))
    simp [ht x (by simp), this.1, this.2]

theorem takeNat_dec (n : Nat) (rest : Bytes) (hs : DigitStop rest) : takeNat (decBytes n ++ rest) = some (n, rest) := by
  obtain ⟨h1, h2⟩ := span_digits (decBytes n) rest (decBytes_isDigit n) hs
  simp [takeNat, h1, h2, decVal?_decBytes]

theorem digitStop_nil : DigitStop [] := by intro b r h; cases h
theorem digitStop_cons {c : Nat} (r : Bytes) (h : isDigit c = false) : DigitStop (c :: r) := by
  intro b r' e; cases e; exact h

theorem parsePair_coveredCell (c t : Nat) : parsePair (coveredCell c t) = some (c, t) := by
  unfold parsePair coveredCell
  rw [takeNat_dec c _ (digitStop_cons _ (by decide))]
  simp only
  have := takeNat_dec t [] digitStop_nil
  rw [List.append_nil] at this
  rw [this]

theorem parsePct_append (x : Bytes) : parsePct (x ++ [37]) = some x := by
  simp [parsePct]

theorem parseRangesF_rangesBytes (rs : List (Nat × Nat)) (hne : rs ≠ []) (f : Nat) (hf : rs.length ≤ f) :
    parseRangesF f (rangesBytes rs) = some rs := by
  induction rs generalizing f with
  | nil => exact absurd rfl hne
  | cons r rs ih =>
    obtain ⟨a, b⟩ := r
    cases f with
    | zero => simp at hf
    | succ f =>
      have hdash : DigitStop (45 :: (decBytes b ++ [] : Bytes)) := digitStop_cons _ (by decide)
      cases rs with
      | nil =>
        simp only [rangesBytes, pairBytes]
        by_cases e : a = b
        · subst e
          have := takeNat_dec a [] digitStop_nil
          rw [List.append_nil] at this
          simp [parseRangesF, this]
        · have t1 := takeNat_dec a (45 :: decBytes b) (digitStop_cons _ (by decide))
          have t2 := takeNat_dec b [] digitStop_nil
          rw [List.append_nil] at t2
          simp [parseRangesF, e, t1, t2]
      | cons r' rs =>
        have hrec := ih (by simp) f (by simp at hf ⊢; omega)
        simp only [rangesBytes, pairBytes]
        by_cases e : a = b
        · subst e
          have t1 := takeNat_dec a (44 :: 32 :: rangesBytes (r' :: rs)) (digitStop_cons _ (by decide))
          simp only [if_true, parseRangesF]
          rw [t1]
          simp [hrec]
        · have t1 := takeNat_dec a (45 :: (decBytes b ++ 44 :: 32 :: rangesBytes (r' :: rs))) (digitStop_cons _ (by decide))
          have t2 := takeNat_dec b (44 :: 32 :: rangesBytes (r' :: rs)) (digitStop_cons _ (by decide))
          simp only [e, if_false, parseRangesF, List.append_assoc, List.cons_append]
          rw [t1]
          simp only
          rw [t2]
          simp [e, hrec]

theorem pairBytes_ne_nil (r : Nat × Nat) : pairBytes r ≠ [] := by
  unfold pairBytes
  split
  · exact decBytes_ne_nil _
  · have := decBytes_ne_nil r.1
    cases h : decBytes r.1 <;> simp_all

theorem rangesBytes_length (rs : List (Nat × Nat)) : rs.length ≤ (rangesBytes rs).length := by
  induction rs with
  | nil => simp
  | cons r rs ih =>
    cases rs with
    | nil =>
      have := pairBytes_ne_nil r
      cases h : pairBytes r with
      | nil => exact absurd h this
      | cons x xs => simp [rangesBytes, h]
    | cons r' rs =>
      simp only [rangesBytes, List.length_append, List.length_cons] at ih ⊢
      omega

theorem parseRanges_rangesBytes (rs : List (Nat × Nat)) : parseRanges (rangesBytes rs) = some rs := by
  cases rs with
  | nil => rfl
  | cons r rs =>
    unfold parseRanges
    have hne : rangesBytes (r :: rs) ≠ [] := by
      have := rangesBytes_length (r :: rs)
      intro e; rw [e] at this; simp at this
    rw [if_neg hne]
    exact parseRangesF_rangesBytes _ (by simp) _ (rangesBytes_length _)

/-! the generated cells are cells the reader returns unchanged -/

/-- the bytes a generated cell is made of: digits and ` % , - . /` -/
def isFigChar (b : Nat) : Bool := isDigit b || b == 32 || b == 37 || b == 44 || b == 45 || b == 46 || b == 47

theorem cellOK_of_fig (c : Bytes) (h : ∀ b ∈ c, isFigChar b = true) (hl : c.getLast? ≠ some 32) : CellOK c :=
  ⟨fun m => by have := h 10 m; simp [isFigChar, isDigit] at this, hl⟩

theorem decBytes_fig (n : Nat) : ∀ b ∈ decBytes n, isFigChar b = true := by
  intro b hb; simp [isFigChar, decBytes_isDigit n b hb]

theorem getLast?_digits_ne (l : Bytes) (h : ∀ b ∈ l, isDigit b = true) : l.getLast? ≠ some 32 := by
  intro e
  have := h 32 (List.mem_of_getLast? e)
  simp [isDigit] at this

theorem getLast?_append_ne (a l : Bytes) (hne : l ≠ []) (h : l.getLast? ≠ some 32) : (a ++ l).getLast? ≠ some 32 := by
  rw [List.getLast?_append]
  cases hl : l.getLast? with
  | none => exact absurd (List.getLast?_eq_none_iff.1 hl) hne
  | some x => simpa [hl] using h

theorem coveredCell_ok (c t : Nat) : CellOK (coveredCell c t) := by
  apply cellOK_of_fig
  · intro b hb
    simp only [coveredCell, List.mem_append, List.mem_cons] at hb
    rcases hb with hb | rfl | rfl | rfl | hb
    · exact decBytes_fig _ b hb
    · decide
    · decide
    · decide
    · exact decBytes_fig _ b hb
  · unfold coveredCell
    rw [show decBytes c ++ 32 :: 47 :: 32 :: decBytes t = (decBytes c ++ [32, 47, 32]) ++ decBytes t by simp]
    exact getLast?_append_ne _ _ (decBytes_ne_nil t) (getLast?_digits_ne _ (decBytes_isDigit t))

theorem pairBytes_fig (r : Nat × Nat) : ∀ b ∈ pairBytes r, isFigChar b = true := by
  intro b hb
  unfold pairBytes at hb
  split at hb
  · exact decBytes_fig _ b hb
  · simp only [List.mem_append, List.mem_cons] at hb
    rcases hb with hb | rfl | hb
    · exact decBytes_fig _ b hb
    · decide
    · exact decBytes_fig _ b hb

theorem pairBytes_last (r : Nat × Nat) : (pairBytes r).getLast? ≠ some 32 := by
  unfold pairBytes
  split
  · exact getLast?_digits_ne _ (decBytes_isDigit _)
  · rw [show decBytes r.1 ++ 45 :: decBytes r.2 = (decBytes r.1 ++ [45]) ++ decBytes r.2 by simp]
    exact getLast?_append_ne _ _ (decBytes_ne_nil _) (getLast?_digits_ne _ (decBytes_isDigit _))

theorem rangesBytes_ok (rs : List (Nat × Nat)) : CellOK (rangesBytes rs) := by
  apply cellOK_of_fig
  · induction rs with
    | nil => simp [rangesBytes]
    | cons r rs ih =>
      cases rs with
      | nil => exact pairBytes_fig r
      | cons r' rs =>
        intro b hb
        simp only [rangesBytes, List.mem_append, List.mem_cons] at hb
        rcases hb with hb | rfl | rfl | hb
        · exact pairBytes_fig r b hb
        · decide
        · decide
        · exact ih b hb
  · induction rs with
    | nil => simp [rangesBytes]
    | cons r rs ih =>
      cases rs with
      | nil => exact pairBytes_last r
      | cons r' rs =>
        simp only [rangesBytes]
        rw [show pairBytes r ++ 44 :: 32 :: rangesBytes (r' :: rs) = (pairBytes r ++ [44, 32]) ++ rangesBytes (r' :: rs) by simp]
        refine getLast?_append_ne _ _ ?_ ih
        have := rangesBytes_length (r' :: rs)
        intro e; rw [e] at this; simp at this

theorem pad0_fig (p : Nat) (ds : Bytes) (h : ∀ b ∈ ds, isFigChar b = true) : ∀ b ∈ pad0 p ds, isFigChar b = true := by
  intro b hb
  simp only [pad0, List.mem_append, List.mem_replicate] at hb
  rcases hb with ⟨_, rfl⟩ | hb
  · decide
  · exact h b hb

theorem fmtFixed_fig (p : Nat) (x : Fl) : ∀ b ∈ fmtFixed p x, isFigChar b = true := by
  intro b hb
  unfold fmtFixed at hb
  simp only at hb
  split at hb
  · exact decBytes_fig _ b hb
  · simp only [List.mem_append, List.mem_cons] at hb
    rcases hb with hb | rfl | hb
    · exact decBytes_fig _ b hb
    · decide
    · exact pad0_fig _ _ (decBytes_fig _) b hb

theorem pctCell_ok (p c t : Nat) : CellOK (pctCell p c t) := by
  apply cellOK_of_fig
  · intro b hb
    simp only [pctCell, List.mem_append, List.mem_singleton] at hb
    rcases hb with hb | rfl
    · exact fmtFixed_fig _ _ b hb
    · decide
  · simp [pctCell]

theorem mdLine_ok (p : Nat) (r : MdRow) (h : CellOK r.file) : (mdLine p r).OK :=
  ⟨h, pctCell_ok _ _ _, coveredCell_ok _ _, rangesBytes_ok _⟩

theorem mdTable_wf (p : Nat) (rows : List MdRow) (h : ∀ r ∈ rows, CellOK r.file) : (mdTable p rows).WF := by
  refine ⟨?_, (pctCell_ok _ _ _).1⟩
  intro l hl
  simp only [mdTable, List.mem_map] at hl
  obtain ⟨r, hr, rfl⟩ := hl
  exact mdLine_ok p r (h r hr)

theorem readLine_mdLine (p : Nat) (r : MdRow) :
    readLine (mdLine p r) = some ⟨r.file, fmtFixed p (mdPct32 r.covered r.total), r.covered, r.total, r.ranges⟩ := by
  simp [readLine, mdLine, pctCell, parsePct_append, parsePair_coveredCell, parseRanges_rangesBytes]

theorem mapM_readLine (p : Nat) (rows : List MdRow) :
    (rows.map (mdLine p)).mapM readLine =
      some (rows.map fun r => ⟨r.file, fmtFixed p (mdPct32 r.covered r.total), r.covered, r.total, r.ranges⟩) := by
  induction rows with
  | nil => rfl
  | cons r rows ih => simp [List.mapM_cons, readLine_mdLine, ih]

/-- the typed reader returns the document of the rows, for every precision and all rows whose file
cell is readable -/
theorem parseMarkdown_table (p : Nat) (rows : List MdRow) (h : ∀ r ∈ rows, CellOK r.file) :
    parseMarkdown (tableBytes (mdTable p rows)) = some (mdDoc p rows) := by
  unfold parseMarkdown
  rw [parseTable_tableBytes _ (mdTable_wf p rows h)]
  simp only [mdTable, mapM_readLine, pctCell, parsePct_append, mdDoc]

/-! ## layout: every line of the table is as long as the separator -/

theorem mem_le_maxNat_length (c ln : Bytes) (h : ln ∈ splitNl c) : ln.length ≤ cellW c :=
  le_maxNat (List.mem_map.2 ⟨ln, h, rfl⟩)

theorem cellLine_length (w : Nat) (c : Bytes) (k : Nat) (h : cellW c + 2 ≤ w) : (cellLine w c k).length = w := by
  unfold cellLine
  cases hk : (splitNl c)[k]? with
  | none => simp [spaces]
  | some ln =>
    have := mem_le_maxNat_length c ln (List.mem_of_getElem? hk)
    simp [spaces]; omega

theorem colWidth_ge (rows : List (List Bytes)) (r : List Bytes) (hr : r ∈ rows) (j : Nat) (c : Bytes)
    (hc : r.getD j [] = c) : cellW c + 2 ≤ colWidth rows j := by
  unfold colWidth
  have : cellW c ∈ rows.map fun r => cellW (r.getD j []) := List.mem_map.2 ⟨r, hr, by rw [hc]⟩
  have := le_maxNat this
  omega

/-- the length every line of the table has: the bars and the four column widths -/
def lineLen (ws : List Nat) : Nat := 1 + (ws.map (· + 1)).sum

theorem gridLine_length_four (rows : List (List Bytes)) (a b c d : Bytes) (hr : [a, b, c, d] ∈ rows) (k : Nat) :
    (gridLine [colWidth rows 0, colWidth rows 1, colWidth rows 2, colWidth rows 3] [a, b, c, d] k).length
      = lineLen [colWidth rows 0, colWidth rows 1, colWidth rows 2, colWidth rows 3] := by
  have h0 := cellLine_length _ a k (colWidth_ge rows _ hr 0 a rfl)
  have h1 := cellLine_length _ b k (colWidth_ge rows _ hr 1 b rfl)
  have h2 := cellLine_length _ c k (colWidth_ge rows _ hr 2 c rfl)
  have h3 := cellLine_length _ d k (colWidth_ge rows _ hr 3 d rfl)
  simp [gridLine, lineLen, h0, h1, h2, h3]
  omega

theorem sepLine_length (ws : List Nat) : (sepLine ws).length = lineLen ws := by
  simp only [sepLine, lineLen, List.length_cons]
  induction ws with
  | nil => simp
  | cons w ws ih => simp at ih ⊢; omega

/-- all the lines `gridBytes` joins, multi-line cells included -/
def gridLines (rows : List (List Bytes)) : List Bytes :=
  match rows with
  | [] => []
  | h :: body => rowLines (widths rows) h ++ sepLine (widths rows) :: body.flatMap (rowLines (widths rows))

theorem gridBytes_eq (rows : List (List Bytes)) : gridBytes rows = joinNl (gridLines rows) := by
  cases rows <;> rfl

theorem gridLines_length (t : MdTable) : ∀ ln ∈ gridLines (gridRows t), ln.length = lineLen (widths (gridRows t)) := by
  intro ln hln
  have hrow : ∀ r ∈ gridRows t, ∀ x ∈ rowLines (widths (gridRows t)) r, x.length = lineLen (widths (gridRows t)) := by
    intro r hr x hx
    simp only [rowLines, List.mem_map] at hx
    obtain ⟨k, _, rfl⟩ := hx
    rw [widths_gridRows]
    simp only [gridRows, List.mem_cons, List.mem_map] at hr
    rcases hr with rfl | ⟨l, hl, rfl⟩
    · exact gridLine_length_four _ _ _ _ _ (by simp [gridRows, mdHeader]) k
    · exact gridLine_length_four _ _ _ _ _
        (by simp only [gridRows]; exact List.mem_cons_of_mem _ (List.mem_map.2 ⟨l, hl, rfl⟩)) k
  simp only [gridLines, gridRows, List.mem_append, List.mem_cons, List.mem_flatMap] at hln
  rcases hln with h | rfl | ⟨r, hr, h⟩
  · exact hrow _ (by simp [gridRows]) _ h
  · exact sepLine_length _
  · exact hrow r (by simp only [gridRows]; exact List.mem_cons_of_mem _ hr) _ h

theorem maxNat_attained (l : List Nat) (h : l ≠ []) : maxNat l ∈ l := by
  induction l with
  | nil => exact absurd rfl h
  | cons a l ih =>
    cases l with
    | nil => simp [maxNat]
    | cons b l =>
      have := ih (by simp)
      simp only [maxNat, List.foldr_cons] at this ⊢
      rcases Nat.le_total a (max b (List.foldr max 0 l)) with hle | hle
      · rw [Nat.max_eq_right hle]; exact List.mem_cons_of_mem _ this
      · rw [Nat.max_eq_left hle]; simp

/-- a column is as wide as its widest cell needs, not wider -/
theorem colWidth_attained (rows : List (List Bytes)) (hne : rows ≠ []) (j : Nat) :
    ∃ r ∈ rows, cellW (r.getD j []) + 2 = colWidth rows j := by
  have := maxNat_attained (rows.map fun r => cellW (r.getD j [])) (by simpa using hne)
  obtain ⟨r, hr, e⟩ := List.mem_map.1 this
  exact ⟨r, hr, by unfold colWidth; rw [e]⟩

/-! ## badges -/

/-- every hole is followed by a literal that starts with a byte no hole value contains -/
def tplOK : List Seg → Bool
  | [] => true
  | .lit _ :: r => tplOK r
  | .hole _ :: .lit (b :: s) :: r => !isHoleChar b && tplOK (.lit (b :: s) :: r)
  | .hole _ :: _ => false

def holes : List Seg → List Hole
  | [] => []
  | .lit _ :: r => holes r
  | .hole h :: r => h :: holes r

theorem span_holeChars (t rest : Bytes) (ht : ∀ b ∈ t, isHoleChar b = true)
    (hs : ∀ b r, rest = b :: r → isHoleChar b = false) :
    (t ++ rest).takeWhile isHoleChar = t ∧ (t ++ rest).dropWhile isHoleChar = rest := by
  induction t with
  | nil =>
    cases rest with
    | nil => simp
    | cons c r => simp [hs c r rfl]
  | cons x t ih =>
    have := ih (fun b hb => ht b (List.mem_cons_of_mem _ hb))
    simp [ht x (by simp), this.1, this.2]

theorem matchTpl_hole (h : Hole) (r : List Seg) (bs : Bytes) :
    matchTpl (.hole h :: r) bs = (matchTpl r (bs.dropWhile isHoleChar)).map ((h, bs.takeWhile isHoleChar) :: ·) := by
  cases bs <;> rfl

theorem matchTpl_lit (s : Bytes) (r : List Seg) (bs : Bytes) :
    matchTpl (.lit s :: r) bs = (match stripPrefix s bs with | some bs' => matchTpl r bs' | none => none) := by
  cases bs <;> rfl

theorem matchTpl_render (env : Hole → Bytes) (henv : ∀ h, ∀ b ∈ env h, isHoleChar b = true)
    (segs : List Seg) (hok : tplOK segs = true) :
    matchTpl segs (render env segs) = some ((holes segs).map fun h => (h, env h)) := by
  induction segs with
  | nil => rfl
  | cons sg r ih =>
    cases sg with
    | lit s =>
      rw [matchTpl_lit]
      simp only [render, stripPrefix_append, holes]
      exact ih (by simpa [tplOK] using hok)
    | hole h =>
      cases r with
      | nil => simp [tplOK] at hok
      | cons sg' r' =>
        cases sg' with
        | hole h' => simp [tplOK] at hok
        | lit s =>
          cases s with
          | nil => simp [tplOK] at hok
          | cons b s =>
            simp only [tplOK, Bool.and_eq_true, Bool.not_eq_true'] at hok
            have hsp := span_holeChars (env h) (render env (.lit (b :: s) :: r')) (henv h)
              (by intro c r e; simp only [render, List.cons_append] at e; cases e; exact hok.1)
            rw [matchTpl_hole]
            simp only [render] at hsp ⊢
            rw [hsp.1, hsp.2]
            have := ih hok.2
            simp only [render] at this
            rw [this]
            simp [holes]

theorem tplOK_all : ∀ s : BadgeStyle, tplOK s.tpl = true := by
  intro s; cases s <;> decide

theorem decBytes_holeChars (n : Nat) : ∀ b ∈ decBytes n, isHoleChar b = true := by
  intro b hb
  have := decFuel_digits _ _ b hb
  simp [isHoleChar, this]

theorem halfBytes_holeChars (h : Nat) : ∀ b ∈ halfBytes h, isHoleChar b = true := by
  intro b hb
  unfold halfBytes at hb
  split at hb
  · exact decBytes_holeChars _ b hb
  · simp only [List.mem_append, List.mem_cons] at hb
    rcases hb with hb | rfl | rfl | hb
    · exact decBytes_holeChars _ b hb
    · decide
    · decide
    · cases hb

theorem colour_holeChars (lv : Level) : ∀ b ∈ lv.colour, isHoleChar b = true := by
  cases lv <;> decide

theorem holeVal_holeChars (s : BadgeStyle) (cur : Nat) (lv : Level) (h : Hole) :
    ∀ b ∈ holeVal s cur lv h, isHoleChar b = true := by
  cases h <;> simp only [holeVal]
  · exact halfBytes_holeChars _
  · exact halfBytes_holeChars _
  · exact decBytes_holeChars _
  · exact colour_holeChars _
  · exact halfBytes_holeChars _
  · exact halfBytes_holeChars _

theorem matchTpl_badgeSvg (s : BadgeStyle) (cur : Nat) (lv : Level) :
    matchTpl s.tpl (badgeSvg s cur lv) = some ((holes s.tpl).map fun h => (h, holeVal s cur lv h)) :=
  matchTpl_render _ (holeVal_holeChars s cur lv) _ (tplOK_all s)

/-- the holes of the templates, in order -/
def BadgeStyle.holeList : BadgeStyle → List Hole
  | .flat | .plastic =>
    [.width, .current, .current, .width, .rest, .color, .width, .position, .textLength, .current, .position,
     .textLength, .current]
  | .flatSquare | .forTheBadge => [.width, .current, .current, .rest, .color, .position, .textLength, .current]
  | .social => [.width, .current, .current, .rest, .position, .textLength, .current, .position, .textLength, .current]

theorem holes_tpl : ∀ s : BadgeStyle, holes s.tpl = s.holeList := by
  intro s; cases s <;> rfl

/-- the colour a badge of this style carries -/
def BadgeStyle.colourOf (s : BadgeStyle) (lv : Level) : Option Bytes :=
  if s = .social then none else some lv.colour

/-- the reader returns the figure, the colour and the width the badge was rendered with -/
theorem parseBadge_badgeSvg (s : BadgeStyle) (cur : Nat) (lv : Level) :
    parseBadge s (badgeSvg s cur lv) =
      some ⟨cur, s.colourOf lv, halfBytes (s.geometry (bucket cur)).1⟩ := by
  unfold parseBadge
  rw [matchTpl_badgeSvg, holes_tpl]
  cases s <;>
    simp [BadgeStyle.holeList, holesOf, allSame, holeVal, decVal?_decBytes, BadgeStyle.colourOf]

/-! ## coverage.json -/

theorem parseCoverageJson_bytes (p c t : Nat) (hi med : Limit) :
    parseCoverageJson (coverageJsonBytes p c t hi med) =
      some (fmtFixed p (htmlPct64 c t), (levelOf (htmlPct64 c t) hi.f64 med.f64).name) := by
  unfold parseCoverageJson coverageJsonBytes
  rw [JsonBytes.jsonParse_jsonSerialize _ (by simp [coverageJson, JsonBytes.wf, JsonBytes.wfFields])]
  simp [coverageJson, parsePct_append]

end Grcov.Writers.MdBytes
