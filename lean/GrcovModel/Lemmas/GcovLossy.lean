/-
C09 (text form, since /repo 7f9b2b3): facts about `Lcov.utf8Lossy` (the model of
`String::from_utf8_lossy`) that the gcov text reader needs, because `parse_gcov` decodes a whole
LINE before it splits it at ':' and ',':

* the fuel of `utf8LossyAux` is immaterial once it covers the input (`aux_fuel`);
* an ASCII byte is a boundary of the decoding (`lossy_append_ascii`): decoding `a ++ c :: b` is
  decoding `a`, then `c`, then decoding `b` – so the separators of a line are where they were;
* ASCII text is unchanged (`lossy_of_ascii`), and text whose decoding is ASCII was ASCII
  (`lossy_ascii_inv`): a key or token that reads as `file`, `0`, … after decoding was that before;
* every byte of the output is a byte of the input or ≥ 128 (`mem_lossy`): decoding creates no
  ':' ',' CR or LF.
-/
import GrcovModel.Lemmas.LcovUtf8
namespace Grcov.Gcov.Lossy
open Grcov Grcov.Lcov

theorem aux_succ (f : Nat) (bs : Bytes) : bs.length ≤ f →
    utf8LossyAux (f + 1) bs = utf8LossyAux f bs := by
  fun_induction utf8LossyAux f bs <;> intro hf
  all_goals (try (simp only [List.length_cons, List.length_nil, Nat.succ_eq_add_one] at hf))
  all_goals (try omega)
  all_goals (try (simp only [utf8LossyAux]; done))
  case case1 =>
    have : ‹Bytes› = [] := List.eq_nil_of_length_eq_zero (by omega)
    subst this; rfl
  all_goals (
    conv => lhs; rw [utf8LossyAux.eq_def]
    simp +zetaDelta only [*, if_true, if_false, and_self, reduceCtorEq])
  all_goals (
    try simp only [List.length_cons] at *
    grind)

/-- any fuel that covers the input gives `utf8Lossy` -/
theorem aux_fuel (f : Nat) (bs : Bytes) (h : bs.length ≤ f) : utf8LossyAux f bs = utf8Lossy bs := by
  unfold utf8Lossy
  induction f with
  | zero =>
    have : bs = [] := List.eq_nil_of_length_eq_zero (by omega)
    subst this; rfl
  | succ f ih =>
    by_cases hf : bs.length ≤ f
    · rw [aux_succ f bs hf, ih hf]
    · have : bs.length = f + 1 := by omega
      rw [this]

theorem lossy_nil : utf8Lossy [] = [] := rfl

theorem lossy_ascii_cons (c : Nat) (b : Bytes) (hc : c < 128) :
    utf8Lossy (c :: b) = c :: utf8Lossy b := by
  unfold utf8Lossy
  simp [utf8LossyAux, hc]

theorem isCont_ascii {c : Nat} (hc : c < 128) : isCont c = false := by
  simp [isCont]; omega

/-- an ASCII byte is a boundary of the lossy decoding -/
theorem lossy_append_ascii (a : Bytes) (c : Nat) (b : Bytes) (hc : c < 128) :
    utf8Lossy (a ++ c :: b) = utf8Lossy a ++ c :: utf8Lossy b := by
  have key : ∀ f a, a.length ≤ f → ∀ g, (a ++ c :: b).length ≤ g →
      utf8LossyAux g (a ++ c :: b) = utf8LossyAux f a ++ c :: utf8Lossy b := by
    intro f a
    fun_induction utf8LossyAux f a <;> intro hf g hg
    all_goals (try (simp only [List.length_cons, List.length_nil, Nat.succ_eq_add_one] at hf))
    all_goals (try omega)
    case case1 =>
      have : ‹Bytes› = [] := List.eq_nil_of_length_eq_zero (by omega)
      subst this
      rw [aux_fuel _ _ hg]; simp [lossy_ascii_cons c b hc]
    case case2 => rw [aux_fuel _ _ hg]; simp [lossy_ascii_cons c b hc]
    all_goals (
      obtain ⟨g, rfl⟩ : ∃ g', g = g' + 1 := ⟨g - 1, by simp at hg; omega⟩
      have hcb : ∀ n, b.length + 1 ≤ n → utf8LossyAux n (c :: b) = c :: utf8Lossy b := by
        intro n hn; rw [aux_fuel _ _ (by simpa using hn), lossy_ascii_cons c b hc]
      have hcc := isCont_ascii hc
      conv => lhs; simp only [List.cons_append, List.nil_append]; rw [utf8LossyAux.eq_def]
      simp +zetaDelta only [List.length_append, List.length_cons, List.length_nil] at *
      try simp only [List.cons_append, List.append_assoc]
      grind)
  have := key a.length a (Nat.le_refl _) _ (Nat.le_refl _)
  rw [aux_fuel _ _ (Nat.le_refl _)] at this
  exact this

/-- ASCII text is unchanged -/
theorem lossy_of_ascii (bs : Bytes) (h : ∀ b ∈ bs, b < 128) : utf8Lossy bs = bs :=
  utf8Lossy_of_valid bs (validUtf8_ascii bs h)

/-- an ASCII prefix is unchanged and does not influence what follows -/
theorem lossy_ascii_append (p t : Bytes) (h : ∀ b ∈ p, b < 128) :
    utf8Lossy (p ++ t) = p ++ utf8Lossy t := by
  induction p with
  | nil => rfl
  | cons c p ih =>
    rw [List.cons_append, lossy_ascii_cons _ _ (h c (by simp)),
      ih (fun b hb => h b (List.mem_cons_of_mem _ hb))]
    rfl

/-- every byte the decoding yields is a byte of the input or belongs to U+FFFD (≥ 128) -/
theorem mem_aux (f : Nat) (bs : Bytes) : ∀ x ∈ utf8LossyAux f bs, x ∈ bs ∨ 128 ≤ x := by
  fun_induction utf8LossyAux f bs <;> intro x hx
  all_goals (try (simp only [List.not_mem_nil] at hx))
  all_goals (simp only [FFFD, List.mem_cons, List.mem_append, List.not_mem_nil, or_false] at hx ⊢)
  all_goals grind

theorem mem_lossy (bs : Bytes) (x : Nat) (hx : x ∈ utf8Lossy bs) : x ∈ bs ∨ 128 ≤ x :=
  mem_aux _ _ x hx

theorem not_mem_lossy {bs : Bytes} {c : Nat} (hc : c < 128) (h : c ∉ bs) : c ∉ utf8Lossy bs := by
  intro hx
  rcases mem_lossy bs c hx with h1 | h1
  · exact h h1
  · omega

/-- a non-ASCII first byte gives a non-ASCII first byte -/
theorem lossy_head_nonascii (x : Nat) (r : Bytes) (hx : ¬ x < 128) :
    ∃ y t, utf8Lossy (x :: r) = y :: t ∧ ¬ y < 128 := by
  unfold utf8Lossy
  rw [List.length_cons, utf8LossyAux.eq_def]
  simp only [hx, if_false, FFFD, List.cons_append]
  repeat' split
  all_goals first
    | exact ⟨_, _, rfl, hx⟩
    | exact ⟨_, _, rfl, by omega⟩

/-- if the decoding is ASCII, the input was (and is unchanged) -/
theorem lossy_ascii_inv (bs : Bytes) (h : ∀ x ∈ utf8Lossy bs, x < 128) : utf8Lossy bs = bs := by
  induction bs with
  | nil => rfl
  | cons x r ih =>
    by_cases hx : x < 128
    · rw [lossy_ascii_cons x r hx] at h ⊢
      rw [ih (fun y hy => h y (List.mem_cons_of_mem _ hy))]
    · obtain ⟨y, t, e, hy⟩ := lossy_head_nonascii x r hx
      rw [e] at h
      exact absurd (h y (by simp)) hy

/-- a token that reads as the ASCII string `s` after decoding was `s` -/
theorem lossy_eq_ascii_iff (bs s : Bytes) (hs : ∀ x ∈ s, x < 128) : utf8Lossy bs = s ↔ bs = s := by
  constructor
  · intro e
    have := lossy_ascii_inv bs (by rw [e]; exact hs)
    rw [← this, e]
  · intro e; subst e; exact lossy_of_ascii _ hs

end Grcov.Gcov.Lossy
