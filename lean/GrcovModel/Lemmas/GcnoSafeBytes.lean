/-
Byte layer of the gcno/gcda reader, for C14: one iteration of each record loop as a value
(`stepD` for `read_gcda`, `stepN` for `read_functions`), and the primitive facts about the reads
(`readU32`, `skipN`, `readString`, `parseCounters`, `parsePairs`, `parseItems`, `parseFunc`):
how many bytes they consume, what they do on a prefix of the buffer, that they never crash.
-/
import GrcovModel.Gcno.Bin
import GrcovModel.Lemmas.Gcno
namespace Grcov.Gcno
open Outcome

/-! ## primitives: consumed bytes -/

theorem readU32_length {le : Bool} {bs r : List Nat} {a : Nat} (h : readU32 le bs = .ok a r) :
    r.length + 4 = bs.length := by
  match bs, h with
  | b0 :: b1 :: b2 :: b3 :: rest, h =>
    simp only [readU32, PR.ok.injEq] at h
    simp [← h.2]

theorem readU32_ne_crash (le : Bool) (bs : List Nat) (s : Site) : readU32 le bs ≠ .crash s := by
  unfold readU32; split <;> simp

theorem readU64_length {le : Bool} {bs r : List Nat} {a : Nat} (h : readU64 le bs = .ok a r) :
    r.length + 8 = bs.length := by
  unfold readU64 at h
  cases h1 : readU32 le bs with
  | ok lo r1 =>
    cases h2 : readU32 le r1 with
    | ok hi r2 =>
      simp only [h1, h2, PR.bind, PR.ok.injEq] at h
      have := readU32_length h1; have := readU32_length h2
      rw [← h.2]; omega
    | short => simp [h1, h2, PR.bind] at h
    | crash s => simp [h1, h2, PR.bind] at h
  | short => simp [h1, PR.bind] at h
  | crash s => simp [h1, PR.bind] at h

theorem skipN_length {n : Nat} {bs r : List Nat} {u : Unit} (h : skipN n bs = .ok u r) :
    r.length + n = bs.length ∧ n < bs.length := by
  unfold skipN at h
  split at h
  · simp only [PR.ok.injEq] at h
    rw [← h.2, List.length_drop]; omega
  · cases h

theorem skipN_ne_crash (n : Nat) (bs : List Nat) (s : Site) : skipN n bs ≠ .crash s := by
  unfold skipN; split <;> simp

theorem stripZeros_length (l : List Nat) : (stripZeros l).length ≤ l.length := by
  unfold stripZeros
  rw [List.length_reverse]
  exact Nat.le_trans (List.dropWhile_sublist _).length_le (by simp)

theorem readString_length {le : Bool} {bs r : List Nat} {a : Bytes} (h : readString le bs = .ok a r) :
    r.length + a.length + 4 ≤ bs.length := by
  unfold readString at h
  cases h1 : readU32 le bs with
  | ok len r1 =>
    have := readU32_length h1
    simp only [h1, PR.bind] at h
    split at h
    · simp only [PR.ok.injEq] at h
      rw [← h.1, ← h.2]; simp; omega
    · split at h
      · cases h
      · simp only [PR.ok.injEq] at h
        have := stripZeros_length (List.take (4 * len) r1)
        rw [← h.1, ← h.2, List.length_drop]
        rw [List.length_take] at this
        omega
  | short => simp [h1, PR.bind] at h
  | crash s => simp [h1, PR.bind] at h

theorem readString_ne_crash (le : Bool) (bs : List Nat) (s : Site) : readString le bs ≠ .crash s := by
  unfold readString
  cases h1 : readU32 le bs with
  | ok len r1 =>
    simp only [PR.bind]
    split
    · simp
    · split <;> simp
  | short => simp [PR.bind]
  | crash s' => exact absurd h1 (readU32_ne_crash _ _ _)

/-! ## primitives on a prefix of the buffer -/

/-- the same read on a shorter buffer: it fails with `short`, or it returns the same value and a
prefix of the rest -/
def PRPre {α : Type} (x' x : PR α) : Prop :=
  x' = .short ∨ ∃ a r' r, x' = .ok a r' ∧ x = .ok a r ∧ r' <+: r

theorem readU32_prefix (le : Bool) {bs' bs : List Nat} (h : bs' <+: bs) :
    PRPre (readU32 le bs') (readU32 le bs) := by
  obtain ⟨t, rfl⟩ := h
  match bs' with
  | [] => left; rfl
  | [_] => left; rfl
  | [_, _] => left; rfl
  | [_, _, _] => left; rfl
  | b0 :: b1 :: b2 :: b3 :: rest =>
    right
    exact ⟨_, rest, rest ++ t, rfl, rfl, List.prefix_append _ _⟩

theorem skipN_prefix (n : Nat) {bs' bs : List Nat} (h : bs' <+: bs) :
    PRPre (skipN n bs') (skipN n bs) := by
  obtain ⟨t, rfl⟩ := h
  unfold skipN
  by_cases hn : n < bs'.length
  · right
    refine ⟨(), bs'.drop n, (bs' ++ t).drop n, by simp [hn], ?_, ?_⟩
    · have : n < (bs' ++ t).length := by rw [List.length_append]; omega
      rw [if_pos this]
    · rw [List.drop_append_of_le_length (Nat.le_of_lt hn)]
      exact List.prefix_append _ _
  · left; simp [hn]

theorem readU64_prefix (le : Bool) {bs' bs : List Nat} (h : bs' <+: bs) :
    PRPre (readU64 le bs') (readU64 le bs) := by
  unfold readU64
  rcases readU32_prefix le h with h1 | ⟨lo, r1', r1, h1', h1, hp1⟩
  · left; simp [h1, PR.bind]
  · rcases readU32_prefix le hp1 with h2 | ⟨hi, r2', r2, h2', h2, hp2⟩
    · left; simp [h1', h2, PR.bind]
    · right
      exact ⟨hi * 4294967296 + lo, r2', r2, by simp [h1', h2', PR.bind], by simp [h1, h2, PR.bind], hp2⟩

theorem parseCounters_acc_prefix (le : Bool) : ∀ (k : Nat) (bs acc : List Nat),
    acc <+: (parseCounters le k bs acc).1 := by
  intro k
  induction k with
  | zero => intro bs acc; simp [parseCounters]
  | succ k ih =>
    intro bs acc
    simp only [parseCounters]
    split
    · exact List.IsPrefix.trans (List.prefix_append _ _) (ih _ _)
    · simp

/-- the counters of a record on a shorter buffer: all of them and a prefix of the rest, or – the
buffer ended – a prefix of the counters -/
theorem parseCounters_prefix (le : Bool) : ∀ (k : Nat) (bs' bs acc : List Nat), bs' <+: bs →
    (∃ vs r' r, parseCounters le k bs' acc = (vs, some r') ∧ parseCounters le k bs acc = (vs, some r) ∧
      r' <+: r) ∨
    (∃ vs', parseCounters le k bs' acc = (vs', none) ∧ vs' <+: (parseCounters le k bs acc).1) := by
  intro k
  induction k with
  | zero => intro bs' bs acc h; left; exact ⟨acc, bs', bs, rfl, rfl, h⟩
  | succ k ih =>
    intro bs' bs acc h
    simp only [parseCounters]
    rcases readU64_prefix le h with h1 | ⟨v, r', r, h1', h1, hp⟩
    · right
      refine ⟨acc, by simp [h1], ?_⟩
      split
      · exact List.IsPrefix.trans (List.prefix_append _ _) (parseCounters_acc_prefix _ _ _ _)
      · simp
    · simp only [h1', h1]
      exact ih r' r _ hp

/-- length of the unread rest (0 when the read failed) -/
def optLen : Option (List Nat) → Nat
  | some r => r.length
  | none => 0

theorem parseCounters_length (le : Bool) : ∀ (k : Nat) (bs acc : List Nat),
    8 * (parseCounters le k bs acc).1.length + optLen (parseCounters le k bs acc).2 ≤
      bs.length + 8 * acc.length := by
  intro k
  induction k with
  | zero => intro bs acc; simp only [parseCounters, optLen]; omega
  | succ k ih =>
    intro bs acc
    simp only [parseCounters]
    cases h1 : readU64 le bs with
    | ok v r =>
      have hl := readU64_length h1
      have := ih r (acc ++ [v])
      simp only [List.length_append, List.length_cons, List.length_nil] at this
      simp only
      omega
    | short => simp [optLen]
    | crash s => simp [optLen]

end Grcov.Gcno
