/-
Simulation lemmas for the gcno/gcda model: everything after counter accumulation (`stop`,
`finalize`) is run on two counter states related value by value through a relation `ρ` that is
closed under the arithmetic the code performs (`ValRel`).  If the left run succeeds, so does the
right run, with `ρ`-related counts, equal executed flags and equal branch vectors.
Instances: `a = k * b` (k ≥ 1 copies of a gcda) and `a = 0 ∧ b = 0` (no gcda).
-/
import GrcovModel.Lemmas.Gcno
namespace Grcov.Gcno
open Grcov AList Outcome

def absDiff (a b : Nat) : Nat := if a ≥ b then a - b else b - a

/-- a relation between a left and a right count that every arithmetic step of `stop`/`finalize`
preserves; the left value always fits a u64 -/
structure ValRel (ρ : Nat → Nat → Prop) : Prop where
  zero : ρ 0 0
  add : ∀ {a b c d}, ρ a b → ρ c d → a + c ≤ U64MAX → ρ (a + c) (b + d)
  absdiff : ∀ {a b c d}, ρ a b → ρ c d → ρ (absDiff a c) (absDiff b d)
  le_top : ∀ {a b}, ρ a b → a ≤ U64MAX ∧ b ≤ U64MAX
  min : ∀ {a b c d}, ρ a b → ρ c d → ρ (min a c) (min b d)
  sub : ∀ {a b c d}, ρ a b → ρ c d → c ≤ a → d ≤ b ∧ ρ (a - c) (b - d)
  pos : ∀ {a b}, ρ a b → (0 < a ↔ 0 < b)

/-- `k ≥ 1` times -/
def scaleRel (k : Nat) (a b : Nat) : Prop := a = k * b ∧ a ≤ U64MAX

theorem scaleRel_valRel (k : Nat) (hk : 1 ≤ k) : ValRel (scaleRel k) := by
  constructor
  · exact ⟨by simp, Nat.zero_le _⟩
  · rintro a b c d ⟨h1, _⟩ ⟨h2, _⟩ h; exact ⟨by rw [h1, h2, Nat.mul_add], h⟩
  · rintro a b c d ⟨h1, h1'⟩ ⟨h2, h2'⟩
    subst h1 h2
    unfold absDiff
    by_cases hbd : b ≥ d
    · have : k * b ≥ k * d := Nat.mul_le_mul_left k hbd
      simp only [this, hbd, if_true]
      exact ⟨by rw [Nat.mul_sub], by omega⟩
    · have hdb : d > b := by omega
      have h3 : k * b < k * d := Nat.mul_lt_mul_of_pos_left hdb (by omega)
      have : ¬ k * b ≥ k * d := by omega
      simp only [this, hbd, if_false]
      exact ⟨by rw [Nat.mul_sub], by omega⟩
  · rintro a b ⟨h1, h1'⟩
    refine ⟨h1', ?_⟩
    have : b ≤ k * b := Nat.le_mul_of_pos_left b (by omega)
    omega
  · rintro a b c d ⟨h1, h1'⟩ ⟨h2, _⟩
    subst h1 h2
    refine ⟨?_, by omega⟩
    by_cases hbd : b ≤ d
    · have := Nat.mul_le_mul_left k hbd
      rw [Nat.min_eq_left this, Nat.min_eq_left hbd]
    · have hdb : d ≤ b := by omega
      have := Nat.mul_le_mul_left k hdb
      rw [Nat.min_eq_right this, Nat.min_eq_right hdb]
  · rintro a b c d ⟨h1, h1'⟩ ⟨h2, _⟩ h
    subst h1 h2
    have hdb : d ≤ b := Nat.le_of_mul_le_mul_left h (by omega)
    exact ⟨hdb, by rw [Nat.mul_sub], by omega⟩
  · rintro a b ⟨h1, _⟩
    subst h1
    constructor
    · intro h; rcases Nat.eq_zero_or_pos b with hb | hb
      · subst hb; simp at h
      · exact hb
    · intro h; exact Nat.mul_pos (by omega) h

def zeroRel (a b : Nat) : Prop := a = 0 ∧ b = 0

theorem zeroRel_valRel : ValRel zeroRel := by
  constructor
  · exact ⟨rfl, rfl⟩
  · rintro a b c d ⟨h1, h1'⟩ ⟨h2, h2'⟩ _; subst_vars; exact ⟨rfl, rfl⟩
  · rintro a b c d ⟨h1, h1'⟩ ⟨h2, h2'⟩; subst_vars; exact ⟨rfl, rfl⟩
  · rintro a b ⟨h1, h1'⟩; subst_vars; exact ⟨Nat.zero_le _, Nat.zero_le _⟩
  · rintro a b c d ⟨h1, h1'⟩ ⟨h2, h2'⟩; subst_vars; exact ⟨rfl, rfl⟩
  · rintro a b c d ⟨h1, h1'⟩ ⟨h2, h2'⟩ _; subst_vars; exact ⟨Nat.le_refl _, rfl, rfl⟩
  · rintro a b ⟨h1, h1'⟩; subst_vars; simp

variable {ρ : Nat → Nat → Prop}

def FRel (ρ : Nat → Nat → Prop) (a b : Nat → Nat) : Prop := ∀ e, ρ (a e) (b e)

theorem FRel.upd {a b : Nat → Nat} (h : FRel ρ a b) {x y : Nat} (hx : ρ x y) (i : Nat) :
    FRel ρ (upd a i x) (upd b i y) := by
  intro e; simp only [Gcno.upd]; split
  · exact hx
  · exact h e

def PSRel (ρ : Nat → Nat → Prop) (sL sR : PS) : Prop := sL.vis = sR.vis ∧ FRel ρ sL.cnt sR.cnt
def CntRel (ρ : Nat → Nat → Prop) (cL cR : Cnt) : Prop :=
  FRel ρ cL.arc cR.arc ∧ FRel ρ cL.blk cR.blk

/-! ### generic fold -/

theorem foldl_sim {σL σR α : Type} (R : σL → σR → Prop) (stepL : σL → α → Outcome σL)
    (stepR : σR → α → Outcome σR)
    (h : ∀ sL sR a sL', stepL sL a = ok sL' → R sL sR → ∃ sR', stepR sR a = ok sR' ∧ R sL' sR') :
    ∀ (as : List α) (sL : σL) (sR : σR) (tL : σL), Outcome.foldl stepL sL as = ok tL → R sL sR →
      ∃ tR, Outcome.foldl stepR sR as = ok tR ∧ R tL tR := by
  intro as
  induction as with
  | nil => intro sL sR tL hL hR; cases hL; exact ⟨sR, rfl, hR⟩
  | cons a as ih =>
    intro sL sR tL hL hR
    rw [foldl_cons] at hL ⊢
    obtain ⟨sL', h1, h2⟩ := bind_eq_ok.1 hL
    obtain ⟨sR', h1', hR'⟩ := h _ _ _ _ h1 hR
    obtain ⟨tR, h2', hR''⟩ := ih _ _ _ h2 hR'
    exact ⟨tR, by simp only [h1', bind_ok, h2'], hR''⟩

/-! ### propagation -/

theorem sumArcs_sim (hρ : ValRel ρ) (step : PS → Nat → Outcome (PS × Nat))
    (hstep : ∀ sL sR e tL xL, step sL e = ok (tL, xL) → PSRel ρ sL sR →
      ∃ tR xR, step sR e = ok (tR, xR) ∧ PSRel ρ tL tR ∧ ρ xL xR) :
    ∀ (es : List Nat) (sL sR : PS) (aL aR : Nat) (tL : PS) (xL : Nat),
      sumArcs step es sL aL = ok (tL, xL) → PSRel ρ sL sR → ρ aL aR →
      ∃ tR xR, sumArcs step es sR aR = ok (tR, xR) ∧ PSRel ρ tL tR ∧ ρ xL xR := by
  intro es
  induction es with
  | nil =>
    intro sL sR aL aR tL xL h hs ha
    simp only [sumArcs] at h; cases h
    exact ⟨sR, aR, by simp [sumArcs], hs, ha⟩
  | cons e es ih =>
    intro sL sR aL aR tL xL h hs ha
    simp only [sumArcs] at h ⊢
    obtain ⟨⟨s1, x1⟩, h1, h2⟩ := bind_eq_ok.1 h
    simp only at h2
    split at h2; · cases h2
    rename_i hov
    obtain ⟨s1', x1', h1', hs1, hx1⟩ := hstep _ _ _ _ _ h1 hs
    have hsum := hρ.add ha hx1 (by omega)
    have := (hρ.le_top hsum).2
    obtain ⟨tR, xR, h3, h4, h5⟩ := ih _ _ _ _ _ _ h2 hs1 hsum
    refine ⟨tR, xR, ?_, h4, h5⟩
    simp only [h1', bind_ok]
    rw [if_neg (by omega)]
    exact h3

theorem arcStep_sim (arcs : List Arc) (rec : PS → Nat → Nat → Outcome (PS × Nat))
    (hrec : ∀ sL sR w e tL xL, rec sL w e = ok (tL, xL) → PSRel ρ sL sR →
      ∃ tR xR, rec sR w e = ok (tR, xR) ∧ PSRel ρ tL tR ∧ ρ xL xR)
    (hρ : ValRel ρ) (useSrc : Bool) (pred : Option Nat) :
    ∀ sL sR e tL xL, arcStep arcs rec useSrc pred sL e = ok (tL, xL) → PSRel ρ sL sR →
      ∃ tR xR, arcStep arcs rec useSrc pred sR e = ok (tR, xR) ∧ PSRel ρ tL tR ∧ ρ xL xR := by
  intro sL sR e tL xL h hs
  unfold arcStep at h ⊢
  split
  · rename_i hp; rw [if_pos hp] at h; cases h; exact ⟨sR, 0, rfl, hs, hρ.zero⟩
  · rename_i hp; rw [if_neg hp] at h
    cases ha : arcs[e]? with
    | none => rw [ha] at h; cases h
    | some a =>
      rw [ha] at h
      simp only at h ⊢
      split
      · rename_i ht; rw [if_pos ht] at h; exact hrec _ _ _ _ _ _ h hs
      · rename_i ht; rw [if_neg ht] at h; cases h
        exact ⟨sR, sR.cnt e, rfl, hs, hs.2 e⟩

theorem prop_sim (hρ : ValRel ρ) (f : Func) : ∀ (fuel : Nat) (sL sR : PS) (b : Nat)
    (pred : Option Nat) (tL : PS) (xL : Nat),
    prop f fuel sL b pred = ok (tL, xL) → PSRel ρ sL sR →
      ∃ tR xR, prop f fuel sR b pred = ok (tR, xR) ∧ PSRel ρ tL tR ∧ ρ xL xR := by
  intro fuel
  induction fuel with
  | zero => intro sL sR b pred tL xL h _; simp [prop] at h
  | succ fuel ih =>
    intro sL sR b pred tL xL h hs
    unfold prop at h ⊢
    rw [← hs.1]
    split
    · rename_i hv; rw [if_pos hv] at h; cases h; exact ⟨sR, 0, rfl, hs, hρ.zero⟩
    · rename_i hv; rw [if_neg hv] at h
      cases hb : f.blocks[b]? with
      | none => rw [hb] at h; cases h
      | some blk =>
        rw [hb] at h
        simp only at h ⊢
        have hrec : ∀ sL sR w e tL xL,
            (fun s w e => prop f fuel s w (some e)) sL w e = ok (tL, xL) → PSRel ρ sL sR →
            ∃ tR xR, (fun s w e => prop f fuel s w (some e)) sR w e = ok (tR, xR) ∧
              PSRel ρ tL tR ∧ ρ xL xR := fun sL sR w e tL xL h hs => ih sL sR w (some e) tL xL h hs
        obtain ⟨⟨s1, pos⟩, h1, h2⟩ := bind_eq_ok.1 h
        simp only at h2
        obtain ⟨⟨s2, neg⟩, h2, h3⟩ := bind_eq_ok.1 h2
        simp only at h3
        have hs0 : PSRel ρ { cnt := sL.cnt, vis := b :: sL.vis } { cnt := sR.cnt, vis := b :: sL.vis } :=
          ⟨rfl, hs.2⟩
        obtain ⟨s1', pos', h1', hs1, hpos⟩ :=
          sumArcs_sim hρ _ (arcStep_sim f.arcs _ hrec hρ true pred) _ _ _ _ _ _ _ h1 hs0 hρ.zero
        obtain ⟨s2', neg', h2', hs2, hneg⟩ :=
          sumArcs_sim hρ _ (arcStep_sim f.arcs _ hrec hρ false pred) _ _ _ _ _ _ _ h2 hs1 hρ.zero
        simp only [h1', bind_ok, h2']
        have hex := hρ.absdiff hpos hneg
        unfold absDiff at hex
        cases pred with
        | none =>
          simp only at h3 ⊢; cases h3
          exact ⟨_, _, rfl, hs2, hex⟩
        | some id =>
          simp only at h3 ⊢; cases h3
          exact ⟨_, _, rfl, ⟨hs2.1, hs2.2.upd hex id⟩, hex⟩

theorem propAll_sim (hρ : ValRel ρ) (f : Func) (fuel : Nat) : ∀ (bs : List Nat) (sL sR tL : PS),
    propAll f fuel bs sL = ok tL → PSRel ρ sL sR →
      ∃ tR, propAll f fuel bs sR = ok tR ∧ PSRel ρ tL tR := by
  intro bs
  induction bs with
  | nil => intro sL sR tL h hs; simp only [propAll] at h; cases h; exact ⟨sR, rfl, hs⟩
  | cons b bs ih =>
    intro sL sR tL h hs
    simp only [propAll] at h ⊢
    obtain ⟨⟨s1, x1⟩, h1, h2⟩ := bind_eq_ok.1 h
    simp only at h2
    obtain ⟨s1', x1', h1', hs1, _⟩ := prop_sim hρ f _ _ _ _ _ _ _ h1 hs
    obtain ⟨tR, h2', hs2⟩ := ih _ _ _ h2 hs1
    exact ⟨tR, by simp only [h1', bind_ok, h2'], hs2⟩

theorem addTreeCounts_sim (hρ : ValRel ρ) (n : Nat) {cL cR : Nat → Nat} (hc : FRel ρ cL cR) :
    ∀ (l : List (Nat × Arc)) (bL bR tL : Nat → Nat),
      addTreeCounts n cL l bL = ok tL → FRel ρ bL bR →
        ∃ tR, addTreeCounts n cR l bR = ok tR ∧ FRel ρ tL tR := by
  intro l
  induction l with
  | nil => intro bL bR tL h hb; simp only [addTreeCounts] at h; cases h; exact ⟨bR, rfl, hb⟩
  | cons ia l ih =>
    obtain ⟨i, a⟩ := ia
    intro bL bR tL h hb
    simp only [addTreeCounts] at h ⊢
    split
    · rename_i ht; rw [if_pos ht] at h
      split at h; · cases h
      split at h; · cases h
      rename_i h1 h2
      have hsum := hρ.add (hb a.src) (hc i) (by omega)
      have := (hρ.le_top hsum).2
      rw [if_neg h1, if_neg (by omega)]
      exact ih _ _ _ h (hb.upd hsum _)
    · rename_i ht; rw [if_neg ht] at h
      exact ih _ _ _ h hb

theorem countOnTree_sim (hρ : ValRel ρ) (version : Nat) (f : Func) {cL cR : Cnt} {fL : Func}
    {tL : Cnt} (h : countOnTree version f cL = ok (fL, tL)) (hc : CntRel ρ cL cR) :
    ∃ tR, countOnTree version f cR = ok (fL, tR) ∧ CntRel ρ tL tR := by
  unfold countOnTree at h ⊢
  split
  · rename_i hn; rw [if_pos hn] at h
    simp only at h ⊢
    obtain ⟨s, h1, hb2⟩ := bind_eq_ok.1 h
    obtain ⟨blk, h2, h3⟩ := bind_eq_ok.1 hb2
    cases h3
    have hs0 : PSRel ρ ⟨upd cL.arc f.arcs.length 0, []⟩ ⟨upd cR.arc f.arcs.length 0, []⟩ :=
      ⟨rfl, hc.1.upd hρ.zero _⟩
    obtain ⟨s', h1', hs⟩ := propAll_sim hρ _ _ _ _ _ _ h1 hs0
    obtain ⟨blk', h2', hb⟩ := addTreeCounts_sim hρ _ hs.2 _ _ _ _ h2 hc.2
    exact ⟨⟨s'.cnt, blk'⟩, by simp only [h1', bind_ok, h2'], hs.2, hb⟩
  · rename_i hn; rw [if_neg hn] at h; cases h
    exact ⟨cR, rfl, hc⟩

/-- two lists related element by element -/
inductive All2 {α β : Type} (R : α → β → Prop) : List α → List β → Prop where
  | nil : All2 R [] []
  | cons {a : α} {b : β} {l : List α} {r : List β} : R a b → All2 R l r → All2 R (a :: l) (b :: r)

/-- function lists with the same shapes and related counters -/
def FsRel (ρ : Nat → Nat → Prop) (l r : List (Func × Cnt)) : Prop :=
  All2 (fun p q => p.1 = q.1 ∧ CntRel ρ p.2 q.2) l r

theorem stopGo_sim (hρ : ValRel ρ) (version : Nat) {stL stR : State}
    (hst : ∀ i, CntRel ρ (stL i) (stR i)) : ∀ (fs : List Func) (i : Nat) (rL : List (Func × Cnt)),
    stopGo version stL fs i = ok rL → ∃ rR, stopGo version stR fs i = ok rR ∧ FsRel ρ rL rR := by
  intro fs
  induction fs with
  | nil => intro i rL h; simp only [stopGo] at h; cases h; exact ⟨[], rfl, All2.nil⟩
  | cons f fs ih =>
    intro i rL h
    simp only [stopGo] at h ⊢
    obtain ⟨⟨fL, tL⟩, h1, hb2⟩ := bind_eq_ok.1 h
    obtain ⟨r, h2, h3⟩ := bind_eq_ok.1 hb2
    cases h3
    obtain ⟨tR, h1', hc⟩ := countOnTree_sim hρ version f h1 (hst i)
    obtain ⟨rR, h2', hr⟩ := ih _ _ h2
    exact ⟨(fL, tR) :: rR, by simp only [h1', bind_ok, h2'], All2.cons ⟨rfl, hc⟩ hr⟩

/-! ### association lists with related values -/

def ARel {κ α β : Type} (Rv : α → β → Prop) (mL : List (κ × α)) (mR : List (κ × β)) : Prop :=
  All2 (fun p q => p.1 = q.1 ∧ Rv p.2 q.2) mL mR

def ORel {α β : Type} (Rv : α → β → Prop) : Option α → Option β → Prop
  | none, none => True
  | some a, some b => Rv a b
  | _, _ => False

theorem ARel.get? {κ α β : Type} [DecidableEq κ] {Rv : α → β → Prop} {mL : List (κ × α)}
    {mR : List (κ × β)} (h : ARel Rv mL mR) (k : κ) : ORel Rv (get? mL k) (get? mR k) := by
  induction h with
  | nil => simp [ORel]
  | @cons a b l r hab _ ih =>
    obtain ⟨ka, va⟩ := a
    obtain ⟨kb, vb⟩ := b
    obtain ⟨hk, hv⟩ := hab
    simp only at hk hv; subst hk
    simp only [get?_cons]
    split
    · exact hv
    · exact ih

theorem ARel.set {κ α β : Type} [DecidableEq κ] {Rv : α → β → Prop} {mL : List (κ × α)}
    {mR : List (κ × β)} (h : ARel Rv mL mR) (k : κ) {x : α} {y : β} (hxy : Rv x y) :
    ARel Rv (set mL k x) (set mR k y) := by
  induction h with
  | nil => exact All2.cons ⟨rfl, hxy⟩ All2.nil
  | @cons a b l r hab hr ih =>
    obtain ⟨ka, va⟩ := a
    obtain ⟨kb, vb⟩ := b
    obtain ⟨hk, hv⟩ := hab
    simp only at hk hv; subst hk
    simp only [AList.set]
    split
    · exact All2.cons ⟨rfl, hxy⟩ hr
    · exact All2.cons ⟨rfl, hv⟩ ih

theorem ARel.nil {κ α β : Type} {Rv : α → β → Prop} : ARel (κ := κ) Rv [] [] := All2.nil

/-- line maps with the same keys in the same order and related counts -/
abbrev LRel (ρ : Nat → Nat → Prop) := ARel (κ := Nat) ρ

/-! ### line counts -/

theorem sumCounters_sim (hρ : ValRel ρ) (arcs : List Arc) {cL cR : Nat → Nat} (hc : FRel ρ cL cR) :
    ∀ (es : List Nat) (aL aR xL : Nat), sumCounters arcs cL es aL = ok xL → ρ aL aR →
      ∃ xR, sumCounters arcs cR es aR = ok xR ∧ ρ xL xR := by
  intro es
  induction es with
  | nil => intro aL aR xL h ha; simp only [sumCounters] at h; cases h; exact ⟨aR, rfl, ha⟩
  | cons e es ih =>
    intro aL aR xL h ha
    simp only [sumCounters] at h ⊢
    cases hae : arcs[e]? with
    | none => rw [hae] at h; cases h
    | some a =>
      rw [hae] at h; simp only at h ⊢
      split at h; · cases h
      have hsum := hρ.add ha (hc e) (by omega)
      have := (hρ.le_top hsum).2
      rw [if_neg (by omega)]
      exact ih _ _ _ h hsum

theorem sumEntering_sim (hρ : ValRel ρ) (arcs : List Arc) {cL cR : Nat → Nat} (hc : FRel ρ cL cR)
    (bs : List Nat) :
    ∀ (es : List Nat) (aL aR xL : Nat), sumEntering arcs cL bs es aL = ok xL → ρ aL aR →
      ∃ xR, sumEntering arcs cR bs es aR = ok xR ∧ ρ xL xR := by
  intro es
  induction es with
  | nil => intro aL aR xL h ha; simp only [sumEntering] at h; cases h; exact ⟨aR, rfl, ha⟩
  | cons e es ih =>
    intro aL aR xL h ha
    simp only [sumEntering] at h ⊢
    cases hae : arcs[e]? with
    | none => rw [hae] at h; cases h
    | some a =>
      rw [hae] at h; simp only at h ⊢
      split
      · rename_i hm; rw [if_pos hm] at h; exact ih _ _ _ h ha
      · rename_i hm; rw [if_neg hm] at h
        split at h; · cases h
        have hsum := hρ.add ha (hc e) (by omega)
        have := (hρ.le_top hsum).2
        rw [if_neg (by omega)]
        exact ih _ _ _ h hsum

theorem setCycles_sim (arcs : List Arc) {cL cR : Nat → Nat} (hc : FRel ρ cL cR) :
    ∀ (es : List Nat) (yL yR tL : Nat → Nat), setCycles arcs cL es yL = ok tL → FRel ρ yL yR →
      ∃ tR, setCycles arcs cR es yR = ok tR ∧ FRel ρ tL tR := by
  intro es
  induction es with
  | nil => intro yL yR tL h hy; simp only [setCycles] at h; cases h; exact ⟨yR, rfl, hy⟩
  | cons e es ih =>
    intro yL yR tL h hy
    simp only [setCycles] at h ⊢
    cases hae : arcs[e]? with
    | none => rw [hae] at h; cases h
    | some a =>
      rw [hae] at h; simp only at h ⊢
      exact ih _ _ _ h (hy.upd (hc e) _)

/-- related, or both still at the initial `u64::MAX` -/
def TopRel (ρ : Nat → Nat → Prop) (a b : Nat) : Prop := (a = U64MAX ∧ b = U64MAX) ∨ ρ a b

theorem minFold_topRel (hρ : ValRel ρ) {cL cR : Nat → Nat} (hc : FRel ρ cL cR) :
    ∀ (path : List Nat) (a b : Nat), TopRel ρ a b →
      TopRel ρ (path.foldl (fun c e => min c (cL e)) a) (path.foldl (fun c e => min c (cR e)) b) := by
  intro path
  induction path with
  | nil => intro a b h; exact h
  | cons e path ih =>
    intro a b h
    simp only [List.foldl_cons]
    apply ih
    right
    rcases h with ⟨h1, h2⟩ | h
    · subst h1 h2
      have := hρ.le_top (hc e)
      rw [Nat.min_eq_right this.1, Nat.min_eq_right this.2]
      exact hc e
    · exact hρ.min h (hc e)

theorem minFold_rel (hρ : ValRel ρ) {cL cR : Nat → Nat} (hc : FRel ρ cL cR) (p : List Nat)
    (e : Nat) :
    ρ ((p ++ [e]).foldl (fun c e => min c (cL e)) U64MAX)
      ((p ++ [e]).foldl (fun c e => min c (cR e)) U64MAX) := by
  simp only [List.foldl_append, List.foldl_cons, List.foldl_nil]
  rcases minFold_topRel hρ hc p U64MAX U64MAX (Or.inl ⟨rfl, rfl⟩) with ⟨h1, h2⟩ | h
  · rw [h1, h2]
    have := hρ.le_top (hc e)
    rw [Nat.min_eq_right this.1, Nat.min_eq_right this.2]
    exact hc e
  · exact hρ.min h (hc e)

theorem cycleCount_sim (hρ : ValRel ρ) {cL cR : Nat → Nat} (hc : FRel ρ cL cR) (p : List Nat)
    (e : Nat) {tL : Nat → Nat} {nL : Nat} (h : cycleCount cL (p ++ [e]) = ok (tL, nL)) :
    ∃ tR nR, cycleCount cR (p ++ [e]) = ok (tR, nR) ∧ FRel ρ tL tR ∧ ρ nL nR := by
  unfold cycleCount at h ⊢
  simp only at h ⊢
  obtain ⟨cy, h1, h2⟩ := bind_eq_ok.1 h
  cases h2
  have hn := minFold_rel hρ hc p e
  obtain ⟨tR, h1', ht⟩ := foldl_sim (FRel ρ) _
    (subCycle ((p ++ [e]).foldl (fun c e => min c (cR e)) U64MAX))
    (by
      intro sL sR a sL' hs hr
      unfold subCycle at hs ⊢
      split at hs; · cases hs
      cases hs
      rename_i hlt
      obtain ⟨hle, hsub⟩ := hρ.sub (hr a) hn (by omega)
      exact ⟨_, by rw [if_neg (by omega)], hr.upd hsub _⟩) _ _ _ _ h1 hc
  exact ⟨tR, _, by simp only [h1', bind_ok], ht, hn⟩

def CSRel (ρ : Nat → Nat → Prop) (sL sR : CS) : Prop :=
  FRel ρ sL.cyc sR.cyc ∧ sL.path = sR.path ∧ sL.blocked = sR.blocked ∧ sL.lists = sR.lists

theorem CSRel.split {sL sR : CS} (h : CSRel ρ sL sR) :
    ∃ cyR, sR = ⟨cyR, sL.path, sL.blocked, sL.lists⟩ ∧ FRel ρ sL.cyc cyR := by
  obtain ⟨cyR, pR, bR, lR⟩ := sR
  obtain ⟨hc, hp, hb, hl⟩ := h
  simp only at hc hp hb hl
  subst hp hb hl
  exact ⟨cyR, rfl, hc⟩

theorem noteBlocked_sim (arcs : List Arc) (bs : List Nat) (start v : Nat) :
    ∀ (es : List Nat) (sL sR tL : CS), noteBlocked arcs bs start v es sL = ok tL → CSRel ρ sL sR →
      ∃ tR, noteBlocked arcs bs start v es sR = ok tR ∧ CSRel ρ tL tR := by
  intro es
  induction es with
  | nil => intro sL sR tL h hs; simp only [noteBlocked] at h; cases h; exact ⟨sR, rfl, hs⟩
  | cons e es ih =>
    intro sL sR tL h hs
    obtain ⟨cyR, rfl, hc⟩ := hs.split
    simp only [noteBlocked] at h ⊢
    cases hae : arcs[e]? with
    | none => rw [hae] at h; cases h
    | some a =>
      rw [hae] at h; simp only at h ⊢
      split
      · rename_i hw; rw [if_pos hw] at h
        cases hpos : position sL.blocked a.dst with
        | none => rw [hpos] at h; simp only at h ⊢; exact ih _ _ _ h hs
        | some i =>
          rw [hpos] at h; simp only at h ⊢
          cases hli : sL.lists[i]? with
          | none => rw [hli] at h; cases h
          | some l =>
            rw [hli] at h; simp only at h ⊢
            split
            · rename_i hv; rw [if_pos hv] at h; exact ih _ _ _ h hs
            · rename_i hv; rw [if_neg hv] at h
              exact ih _ _ _ h ⟨hc, rfl, rfl, rfl⟩
      · rename_i hw; rw [if_neg hw] at h; exact ih _ _ _ h hs

/-- accumulator of the first loop of `look_for_circuit` -/
def AccRel (ρ : Nat → Nat → Prop) (aL aR : CS × Bool × Nat) : Prop :=
  CSRel ρ aL.1 aR.1 ∧ aL.2.1 = aR.2.1 ∧ ρ aL.2.2 aR.2.2

theorem circuitStep_sim (hρ : ValRel ρ) (arcs : List Arc) (bs : List Nat) (start : Nat)
    (rec : Nat → CS → Outcome (CS × Bool × Nat))
    (hrec : ∀ w sL sR rL, rec w sL = ok rL → CSRel ρ sL sR →
      ∃ rR, rec w sR = ok rR ∧ AccRel ρ rL rR) :
    ∀ aL aR e tL, circuitStep arcs bs start rec aL e = ok tL → AccRel ρ aL aR →
      ∃ tR, circuitStep arcs bs start rec aR e = ok tR ∧ AccRel ρ tL tR := by
  intro aL aR e tL h ha
  obtain ⟨sL, fL, nL⟩ := aL
  obtain ⟨sR, fR, nR⟩ := aR
  obtain ⟨hs, hf, hn⟩ := ha
  simp only at hs hf hn
  subst hf
  obtain ⟨cyR, rfl, hc⟩ := hs.split
  simp only [circuitStep] at h ⊢
  cases hae : arcs[e]? with
  | none => rw [hae] at h; cases h
  | some a =>
    rw [hae] at h; simp only at h ⊢
    split
    · rename_i hw; rw [if_pos hw] at h
      split
      · rename_i hst; rw [if_pos hst] at h
        obtain ⟨⟨cy, c⟩, h1, h2⟩ := bind_eq_ok.1 h
        simp only at h2
        split at h2; · cases h2
        cases h2
        obtain ⟨cy', c', h1', hcy, hcc⟩ := cycleCount_sim hρ hc sL.path e h1
        have hsum := hρ.add hn hcc (by omega)
        have := (hρ.le_top hsum).2
        simp only [h1', bind_ok]
        rw [if_neg (by omega)]
        exact ⟨_, rfl, ⟨hcy, rfl, rfl, rfl⟩, rfl, hsum⟩
      · rename_i hst; rw [if_neg hst] at h
        split
        · rename_i hnb; rw [if_pos hnb] at h
          obtain ⟨⟨s', f', c⟩, h1, h2⟩ := bind_eq_ok.1 h
          simp only at h2
          split at h2; · cases h2
          cases h2
          have hs0 : CSRel ρ { sL with path := sL.path ++ [e] }
              ⟨cyR, sL.path ++ [e], sL.blocked, sL.lists⟩ := ⟨hc, rfl, rfl, rfl⟩
          obtain ⟨⟨s'', f'', c'⟩, h1', hs', hf', hcc⟩ := hrec _ _ _ _ h1 hs0
          simp only at hs' hf' hcc
          subst hf'
          obtain ⟨cy'', rfl, hc''⟩ := hs'.split
          have hsum := hρ.add hn hcc (by omega)
          have := (hρ.le_top hsum).2
          simp only [h1', bind_ok]
          rw [if_neg (by omega)]
          exact ⟨_, rfl, ⟨hc'', rfl, rfl, rfl⟩, rfl, hsum⟩
        · rename_i hnb; rw [if_neg hnb] at h; cases h
          exact ⟨_, rfl, ⟨hc, rfl, rfl, rfl⟩, rfl, hn⟩
    · rename_i hw; rw [if_neg hw] at h; cases h
      exact ⟨_, rfl, ⟨hc, rfl, rfl, rfl⟩, rfl, hn⟩

theorem lookForCircuit_sim (hρ : ValRel ρ) (f : Func) (bs : List Nat) (start : Nat) :
    ∀ (fuel v : Nat) (sL sR : CS) (rL : CS × Bool × Nat),
      lookForCircuit f bs start fuel v sL = ok rL → CSRel ρ sL sR →
        ∃ rR, lookForCircuit f bs start fuel v sR = ok rR ∧ AccRel ρ rL rR := by
  intro fuel
  induction fuel with
  | zero => intro v sL sR rL h _; simp [lookForCircuit] at h
  | succ fuel ih =>
    intro v sL sR rL h hs
    obtain ⟨cyR, rfl, hc⟩ := hs.split
    simp only [lookForCircuit] at h ⊢
    cases hbv : f.blocks[v]? with
    | none => rw [hbv] at h; cases h
    | some blk =>
      rw [hbv] at h; simp only at h ⊢
      obtain ⟨⟨s1, found, count⟩, h1, h2⟩ := bind_eq_ok.1 h
      simp only at h2
      have ha0 : AccRel ρ
          ({ sL with blocked := sL.blocked ++ [v], lists := sL.lists ++ [[]] }, false, 0)
          ((⟨cyR, sL.path, sL.blocked ++ [v], sL.lists ++ [[]]⟩ : CS), false, 0) :=
        ⟨⟨hc, rfl, rfl, rfl⟩, rfl, hρ.zero⟩
      obtain ⟨⟨s1', found', count'⟩, h1', hs1, hf1, hn1⟩ :=
        foldl_sim (AccRel ρ) _ _
          (circuitStep_sim hρ f.arcs bs start _ (fun w sL sR rL h hs => ih w sL sR rL h hs))
          _ _ _ _ h1 ha0
      simp only at hs1 hf1 hn1
      subst hf1
      obtain ⟨cy1, rfl, hc1⟩ := hs1.split
      simp only [h1', bind_ok]
      split
      · rename_i hfound; rw [if_pos hfound] at h2
        obtain ⟨⟨bl, ls⟩, h3, h4⟩ := bind_eq_ok.1 h2
        cases h4
        simp only [h3, bind_ok]
        exact ⟨_, rfl, ⟨hc1, rfl, rfl, rfl⟩, rfl, hn1⟩
      · rename_i hfound; rw [if_neg hfound] at h2
        obtain ⟨s2, h3, h4⟩ := bind_eq_ok.1 h2
        cases h4
        obtain ⟨s2', h3', hs2⟩ := noteBlocked_sim f.arcs bs start v _ _ _ _ h3
          (show CSRel ρ s1 ⟨cy1, s1.path, s1.blocked, s1.lists⟩ from ⟨hc1, rfl, rfl, rfl⟩)
        simp only [h3', bind_ok]
        exact ⟨_, rfl, hs2, rfl, hn1⟩

theorem cyclesStep_sim (hρ : ValRel ρ) (f : Func) (fuel : Nat) (bs : List Nat) :
    ∀ (aL aR : (Nat → Nat) × Nat) (b : Nat) (aL' : (Nat → Nat) × Nat),
      cyclesStep f fuel bs aL b = ok aL' → (FRel ρ aL.1 aR.1 ∧ ρ aL.2 aR.2) →
      ∃ aR', cyclesStep f fuel bs aR b = ok aR' ∧ (FRel ρ aL'.1 aR'.1 ∧ ρ aL'.2 aR'.2) := by
  intro aL aR b aL' hs hr
  unfold cyclesStep at hs ⊢
  obtain ⟨⟨s, fd, c⟩, h1, h2⟩ := bind_eq_ok.1 hs
  simp only at h2
  split at h2; · cases h2
  cases h2
  obtain ⟨⟨s', fd', c'⟩, h1', ⟨hc', _, _, _⟩, _, hcc⟩ :=
    lookForCircuit_sim hρ f bs b fuel b ⟨aL.1, [], [], []⟩ ⟨aR.1, [], [], []⟩ _ h1
      ⟨hr.1, rfl, rfl, rfl⟩
  simp only at hc' hcc
  have hsum := hρ.add hr.2 hcc (by omega)
  have := (hρ.le_top hsum).2
  refine ⟨(s'.cyc, aR.2 + c'), ?_, hc', hsum⟩
  simp only [h1', bind_ok]
  rw [if_neg (by omega)]

theorem cyclesCount_sim (hρ : ValRel ρ) (f : Func) (fuel : Nat) (bs : List Nat) {yL yR : Nat → Nat}
    {tL : Nat → Nat} {nL : Nat} (h : cyclesCount f fuel bs yL = ok (tL, nL)) (hy : FRel ρ yL yR) :
    ∃ tR nR, cyclesCount f fuel bs yR = ok (tR, nR) ∧ FRel ρ tL tR ∧ ρ nL nR := by
  unfold cyclesCount at h ⊢
  obtain ⟨⟨tR, nR⟩, h', hr⟩ := foldl_sim
    (fun (aL aR : (Nat → Nat) × Nat) => FRel ρ aL.1 aR.1 ∧ ρ aL.2 aR.2) _ _
    (cyclesStep_sim hρ f fuel bs) _ (yL, 0) (yR, 0) _ h ⟨hy, hρ.zero⟩
  exact ⟨tR, nR, h', hr.1, hr.2⟩

theorem lineEntryStep_sim (hρ : ValRel ρ) (f : Func) {cL cR : Nat → Nat} (hc : FRel ρ cL cR)
    (bs : List Nat) :
    ∀ (aL aR : (Nat → Nat) × Nat) (b : Nat) (aL' : (Nat → Nat) × Nat),
      lineEntryStep f cL bs aL b = ok aL' → (FRel ρ aL.1 aR.1 ∧ ρ aL.2 aR.2) →
      ∃ aR', lineEntryStep f cR bs aR b = ok aR' ∧ (FRel ρ aL'.1 aR'.1 ∧ ρ aL'.2 aR'.2) := by
  intro aL aR b aL' hs hr
  unfold lineEntryStep at hs ⊢
  cases hb : f.blocks[b]? with
  | none => rw [hb] at hs; cases hs
  | some blk =>
    rw [hb] at hs; simp only at hs ⊢
    obtain ⟨count, g1, gb⟩ := bind_eq_ok.1 hs
    obtain ⟨cyc, g2, g3⟩ := bind_eq_ok.1 gb
    cases g3
    have : ∃ count', (if blk.no = 0 then sumCounters f.arcs cR blk.destination aR.2
        else sumEntering f.arcs cR bs blk.source aR.2) = ok count' ∧ ρ count count' := by
      split
      · rename_i hb0; rw [if_pos hb0] at g1; exact sumCounters_sim hρ _ hc _ _ _ _ g1 hr.2
      · rename_i hb0; rw [if_neg hb0] at g1; exact sumEntering_sim hρ _ hc _ _ _ _ _ g1 hr.2
    obtain ⟨count', g1', hcount⟩ := this
    obtain ⟨cyc', g2', hcyc⟩ := setCycles_sim f.arcs hc _ _ _ _ g2 hr.1
    exact ⟨(cyc', count'), by simp only [g1', bind_ok, g2'], hcyc, hcount⟩

theorem getLineCount_sim (hρ : ValRel ρ) (f : Func) {cL cR : Nat → Nat} (hc : FRel ρ cL cR)
    (bs : List Nat) {yL yR : Nat → Nat} {tL : Nat → Nat} {nL : Nat}
    (h : getLineCount f cL bs yL = ok (tL, nL)) (hy : FRel ρ yL yR) :
    ∃ tR nR, getLineCount f cR bs yR = ok (tR, nR) ∧ FRel ρ tL tR ∧ ρ nL nR := by
  unfold getLineCount at h ⊢
  obtain ⟨⟨y1, n1⟩, h1, hb2⟩ := bind_eq_ok.1 h
  simp only at hb2
  obtain ⟨⟨y2, n2⟩, h2, h3⟩ := bind_eq_ok.1 hb2
  simp only at h3
  split at h3; · cases h3
  cases h3
  obtain ⟨⟨y1', n1'⟩, h1', hr1⟩ := foldl_sim
    (fun (aL aR : (Nat → Nat) × Nat) => FRel ρ aL.1 aR.1 ∧ ρ aL.2 aR.2) _ _
    (lineEntryStep_sim hρ f hc bs) _ (yL, 0) (yR, 0) _ h1 ⟨hy, hρ.zero⟩
  obtain ⟨y2', n2', h2', hy2, hn2⟩ := cyclesCount_sim hρ f _ bs h2 hr1.1
  have hsum := hρ.add hr1.2 hn2 (by omega)
  have := (hρ.le_top hsum).2
  refine ⟨y2', n1' + n2', ?_, hy2, hsum⟩
  simp only [h1', bind_ok, h2']
  rw [if_neg (by omega)]

theorem lineCounts_sim (hρ : ValRel ρ) (f : Func) {cL cR : Cnt} (hc : CntRel ρ cL cR) :
    ∀ (m : List (Nat × List Nat)) (yL yR : Nat → Nat) (lsL : List (Nat × Nat)),
      lineCounts f cL m yL = ok lsL → FRel ρ yL yR →
        ∃ lsR, lineCounts f cR m yR = ok lsR ∧ LRel ρ lsL lsR := by
  intro m
  induction m with
  | nil => intro yL yR lsL h _; simp only [lineCounts] at h; cases h; exact ⟨[], rfl, ARel.nil⟩
  | cons lb m ih =>
    obtain ⟨l, bs⟩ := lb
    intro yL yR lsL h hy
    have single : ∀ b, bs = [b] → ∃ lsR, lineCounts f cR ((l, bs) :: m) yR = ok lsR ∧ LRel ρ lsL lsR := by
      intro b hbs
      subst hbs
      simp only [lineCounts] at h ⊢
      obtain ⟨r, h1, h2⟩ := bind_eq_ok.1 h
      cases h2
      obtain ⟨r', h1', hr⟩ := ih _ _ _ h1 hy
      exact ⟨(l, cR.blk b) :: r', by simp only [h1', bind_ok], All2.cons ⟨rfl, hc.2 b⟩ hr⟩
    have multi : (∀ b, bs ≠ [b]) → ∃ lsR, lineCounts f cR ((l, bs) :: m) yR = ok lsR ∧ LRel ρ lsL lsR := by
      intro hbs
      have e : ∀ (c : Cnt) (y : Nat → Nat), lineCounts f c ((l, bs) :: m) y =
          (getLineCount f c.arc bs y).bind fun (cyc', n) =>
            (lineCounts f c m cyc').bind fun r => ok ((l, n) :: r) := by
        intro c y
        cases bs with
        | nil => simp only [lineCounts]
        | cons b bs' =>
          cases bs' with
          | nil => exact absurd rfl (hbs b)
          | cons b' bs'' => simp only [lineCounts]
      rw [e] at h ⊢
      obtain ⟨⟨y1, n⟩, h1, hb2⟩ := bind_eq_ok.1 h
      simp only at hb2
      obtain ⟨r, h2, h3⟩ := bind_eq_ok.1 hb2
      cases h3
      obtain ⟨y1', n', h1', hy1, hn⟩ := getLineCount_sim hρ f hc.1 bs h1 hy
      obtain ⟨r', h2', hr⟩ := ih _ _ _ h2 hy1
      exact ⟨(l, n') :: r', by simp only [h1', bind_ok, h2'], All2.cons ⟨rfl, hn⟩ hr⟩
    by_cases hb : ∃ b, bs = [b]
    · obtain ⟨b, hb⟩ := hb; exact single b hb
    · exact multi (fun b hbb => hb ⟨b, hbb⟩)

theorem zeroLines_rel (hρ : ValRel ρ) : ∀ (ls : List Nat) (mL mR : List (Nat × Nat)),
    LRel ρ mL mR → LRel ρ (zeroLines ls mL) (zeroLines ls mR) := by
  intro ls
  induction ls with
  | nil => intro mL mR h; exact h
  | cons l ls ih =>
    intro mL mR h
    simp only [zeroLines]
    apply ih
    have := h.get? l
    cases h1 : get? mL l <;> cases h2 : get? mR l <;> simp only [h1, h2, ORel] at this ⊢
    · exact h.set l hρ.zero
    · exact h

theorem addLineCount_sim (hρ : ValRel ρ) (f : Func) {cL cR : Cnt} (hc : CntRel ρ cL cR)
    {ex : Bool} {lsL : List (Nat × Nat)} (h : addLineCount f cL = ok (ex, lsL)) :
    ∃ lsR, addLineCount f cR = ok (ex, lsR) ∧ LRel ρ lsL lsR := by
  unfold addLineCount at h ⊢
  have hpos : entered f cL = entered f cR := by
    have := hρ.pos (hc.1 0)
    unfold entered
    by_cases h0 : cL.arc 0 > 0
    · simp [h0, this.1 h0]
    · have : ¬ cR.arc 0 > 0 := fun h1 => h0 (this.2 h1)
      simp [h0, this]
  rw [← hpos]
  split
  · rename_i hx; rw [if_pos hx] at h
    obtain ⟨ls, h1, h2⟩ := bind_eq_ok.1 h
    cases h2
    obtain ⟨ls', h1', hl⟩ := lineCounts_sim hρ f hc _ _ _ _ h1 (fun _ => hρ.zero)
    exact ⟨ls', by simp only [h1', bind_ok], hl⟩
  · rename_i hx; rw [if_neg hx] at h; cases h
    exact ⟨_, rfl, zeroLines_rel hρ _ _ _ ARel.nil⟩

/-! ### finalize -/

theorem mergeLines_sim (hρ : ValRel ρ) : ∀ {lsL lsR : List (Nat × Nat)}, LRel ρ lsL lsR →
    ∀ (mL mR tL : List (Nat × Nat)), mergeLines mL lsL = ok tL → LRel ρ mL mR →
      ∃ tR, mergeLines mR lsR = ok tR ∧ LRel ρ tL tR := by
  intro lsL lsR hls
  induction hls with
  | nil => intro mL mR tL h hm; simp only [mergeLines] at h; cases h; exact ⟨mR, rfl, hm⟩
  | @cons a b l r hab _ ih =>
    obtain ⟨la, na⟩ := a
    obtain ⟨lb, nb⟩ := b
    obtain ⟨hk, hv⟩ := hab
    simp only at hk hv; subst hk
    intro mL mR tL h hm
    simp only [mergeLines] at h ⊢
    have hg := hm.get? la
    cases h1 : get? mL la <;> cases h2 : get? mR la <;> simp only [h1, h2, ORel] at hg h ⊢
    · exact ih _ _ _ h (hm.set la hv)
    · split at h; · cases h
      have hsum := hρ.add hg hv (by omega)
      have := (hρ.le_top hsum).2
      rw [if_neg (by omega)]
      exact ih _ _ _ h (hm.set la hsum)

theorem mergeZeroLines_sim (hρ : ValRel ρ) : ∀ {lsL lsR : List (Nat × Nat)}, LRel ρ lsL lsR →
    ∀ (mL mR : List (Nat × Nat)), LRel ρ mL mR →
      LRel ρ (mergeZeroLines mL lsL) (mergeZeroLines mR lsR) := by
  intro lsL lsR hls
  induction hls with
  | nil => intro mL mR hm; exact hm
  | @cons a b l r hab _ ih =>
    obtain ⟨la, na⟩ := a
    obtain ⟨lb, nb⟩ := b
    obtain ⟨hk, hv⟩ := hab
    simp only at hk hv; subst hk
    intro mL mR hm
    simp only [mergeZeroLines]
    apply ih
    have hg := hm.get? la
    cases h1 : get? mL la <;> cases h2 : get? mR la <;> simp only [h1, h2, ORel] at hg ⊢
    · exact hm.set la hρ.zero
    · exact hm

theorem takenVec_sim (hρ : ValRel ρ) (f : Func) {cL cR : Nat → Nat} (hc : FRel ρ cL cR) (ex : Bool) :
    ∀ (es : List Nat) (v : List Bool), takenVec f cL ex es = ok v → takenVec f cR ex es = ok v := by
  intro es
  induction es with
  | nil => intro v h; exact h
  | cons e es ih =>
    intro v h
    simp only [takenVec] at h ⊢
    cases hae : f.arcs[e]? with
    | none => rw [hae] at h; cases h
    | some a =>
      rw [hae] at h; simp only at h ⊢
      obtain ⟨r, h1, h2⟩ := bind_eq_ok.1 h
      cases h2
      simp only [ih _ h1, bind_ok]
      have hp := hρ.pos (hc e)
      have : decide (cL e > 0) = decide (cR e > 0) := by
        by_cases h0 : cL e > 0
        · simp [h0, hp.1 h0]
        · have : ¬ cR e > 0 := fun h1 => h0 (hp.2 h1)
          simp [h0, this]
      rw [this]

theorem addBranches_sim (hρ : ValRel ρ) (f : Func) {cL cR : Nat → Nat} (hc : FRel ρ cL cR)
    (ex : Bool) : ∀ (bl : List Block) (m m' : List (Nat × List Bool)),
      addBranches f cL ex bl m = ok m' → addBranches f cR ex bl m = ok m' := by
  intro bl
  induction bl with
  | nil => intro m m' h; exact h
  | cons blk bl ih =>
    intro m m' h
    simp only [addBranches] at h ⊢
    obtain ⟨line, h1, h2⟩ := bind_eq_ok.1 h
    simp only [h1, bind_ok]
    split
    · rename_i h0; rw [if_pos h0] at h2; exact ih _ _ h2
    · rename_i h0; rw [if_neg h0] at h2
      obtain ⟨taken, h3, h4⟩ := bind_eq_ok.1 h2
      simp only [takenVec_sim hρ f hc ex _ _ h3, bind_ok]
      split
      · rename_i h5; rw [if_pos h5] at h4; exact ih _ _ h4
      · rename_i h5; rw [if_neg h5] at h4; exact ih _ _ h4

/-- two `CovResult`s with the same keys, branches and functions and related line counts -/
def CovRel (ρ : Nat → Nat → Prop) (cL cR : Cov) : Prop :=
  LRel ρ cL.lines cR.lines ∧ cL.branches = cR.branches ∧ cL.functions = cR.functions

abbrev ResRel (ρ : Nat → Nat → Prop) := ARel (κ := Bytes) (CovRel ρ)

theorem finStep_sim (hρ : ValRel ρ) (br : Bool) {resL resR resL' : List (Bytes × Cov)} {f : Func}
    {cL cR : Cnt} (h : finStep br resL (f, cL) = ok resL') (hres : ResRel ρ resL resR)
    (hc : CntRel ρ cL cR) :
    ∃ resR', finStep br resR (f, cR) = ok resR' ∧ ResRel ρ resL' resR' := by
  unfold finStep at h ⊢
  simp only at h ⊢
  obtain ⟨⟨ex, lines⟩, h1, h2⟩ := bind_eq_ok.1 h
  simp only at h2
  obtain ⟨lines', h1', hl⟩ := addLineCount_sim hρ f hc h1
  simp only [h1', bind_ok]
  obtain ⟨ls, h3, h4⟩ := bind_eq_ok.1 h2
  obtain ⟨brs, h5, h6⟩ := bind_eq_ok.1 h4
  cases h6
  have hr : CovRel ρ ((get? resL f.fileName).getD {}) ((get? resR f.fileName).getD {}) := by
    have := hres.get? f.fileName
    cases g1 : get? resL f.fileName <;> cases g2 : get? resR f.fileName <;>
      simp only [g1, g2, ORel] at this ⊢
    · exact ⟨ARel.nil, rfl, rfl⟩
    · exact this
  obtain ⟨hrl, hrb, hrf⟩ := hr
  have : ∃ ls', (if ex = true then mergeLines ((get? resR f.fileName).getD {}).lines lines'
      else ok (mergeZeroLines ((get? resR f.fileName).getD {}).lines lines')) = ok ls' ∧
      LRel ρ ls ls' := by
    split
    · rename_i hx; rw [if_pos hx] at h3; exact mergeLines_sim hρ hl _ _ _ h3 hrl
    · rename_i hx; rw [if_neg hx] at h3; cases h3
      exact ⟨_, rfl, mergeZeroLines_sim hρ hl _ _ hrl⟩
  obtain ⟨ls', h3', hls⟩ := this
  simp only [h3', bind_ok]
  have : (if br = true then addBranches f cR.arc ex f.blocks ((get? resR f.fileName).getD {}).branches
      else ok ((get? resR f.fileName).getD {}).branches) = ok brs := by
    rw [← hrb]
    split
    · rename_i hb; rw [if_pos hb] at h5; exact addBranches_sim hρ f hc.1 ex _ _ _ h5
    · rename_i hb; rw [if_neg hb] at h5; exact h5
  simp only [this, bind_ok]
  refine ⟨_, rfl, hres.set f.fileName ⟨hls, rfl, ?_⟩⟩
  simp only [hrf]

theorem finalize_sim (hρ : ValRel ρ) (br : Bool) : ∀ {fsL fsR : List (Func × Cnt)}, FsRel ρ fsL fsR →
    ∀ (resL resR rL : List (Bytes × Cov)), Outcome.foldl (finStep br) resL fsL = ok rL →
      ResRel ρ resL resR → ∃ rR, Outcome.foldl (finStep br) resR fsR = ok rR ∧ ResRel ρ rL rR := by
  intro fsL fsR hfs
  induction hfs with
  | nil => intro resL resR rL h hres; cases h; exact ⟨resR, rfl, hres⟩
  | @cons a b l r hab _ ih =>
    obtain ⟨fa, ca⟩ := a
    obtain ⟨fb, cb⟩ := b
    obtain ⟨hf, hc⟩ := hab
    simp only at hf hc; subst hf
    intro resL resR rL h hres
    rw [foldl_cons] at h ⊢
    obtain ⟨res1, h1, h2⟩ := bind_eq_ok.1 h
    obtain ⟨res1', h1', hres1⟩ := finStep_sim hρ br h1 hres hc
    obtain ⟨rR, h2', hr⟩ := ih _ _ _ h2 hres1
    exact ⟨rR, by simp only [h1', bind_ok, h2'], hr⟩

/-- everything after accumulation, on related states -/
theorem stop_finalize_sim (hρ : ValRel ρ) (g : Notes) (br : Bool) {stL stR : State}
    (hst : ∀ i, CntRel ρ (stL i) (stR i)) {rL : List (Bytes × Cov)}
    (h : (stop g stL).bind (fun fs => finalize br fs) = ok rL) :
    ∃ rR, (stop g stR).bind (fun fs => finalize br fs) = ok rR ∧ ResRel ρ rL rR := by
  obtain ⟨fsL, h1, h2⟩ := bind_eq_ok.1 h
  obtain ⟨fsR, h1', hfs⟩ := stopGo_sim hρ g.version hst _ _ _ h1
  obtain ⟨rR, h2', hr⟩ := finalize_sim hρ br hfs _ _ _ h2 ARel.nil
  refine ⟨rR, ?_, hr⟩
  unfold stop
  simp only [h1', bind_ok]
  exact h2'

/-- line counts multiplied by `k` -/
def scaleLines (k : Nat) (m : List (Nat × Nat)) : List (Nat × Nat) := m.map fun p => (p.1, k * p.2)
def scaleCov (k : Nat) (c : Cov) : Cov := { c with lines := scaleLines k c.lines }
def scaleRes (k : Nat) (rs : List (Bytes × Cov)) : List (Bytes × Cov) :=
  rs.map fun p => (p.1, scaleCov k p.2)

theorem LRel_scale {k : Nat} {mL mR : List (Nat × Nat)} (h : LRel (scaleRel k) mL mR) :
    mL = scaleLines k mR := by
  induction h with
  | nil => rfl
  | @cons a b l r hab _ ih =>
    obtain ⟨la, na⟩ := a
    obtain ⟨lb, nb⟩ := b
    obtain ⟨hk, hv, _⟩ := hab
    simp only at hk hv; subst hk hv
    simp only [scaleLines, List.map_cons] at ih ⊢
    rw [ih]

theorem ResRel_scale {k : Nat} {rL rR : List (Bytes × Cov)} (h : ResRel (scaleRel k) rL rR) :
    rL = scaleRes k rR := by
  induction h with
  | nil => rfl
  | @cons a b l r hab _ ih =>
    obtain ⟨ka, ca⟩ := a
    obtain ⟨kb, cb⟩ := b
    obtain ⟨hk, hl, hb, hf⟩ := hab
    simp only at hk hl hb hf; subst hk
    simp only [scaleRes, List.map_cons] at ih ⊢
    rw [ih]
    congr 1
    congr 1
    cases ca; cases cb
    simp only [scaleCov] at hl hb hf ⊢
    simp only [LRel_scale hl, hb, hf]

end Grcov.Gcno
