/-
C14 for the gcno/gcda reader: sizes of the record streams against the input length, the closed
witness of the non-linear block table, and small closed gcno/gcda files for examples.
-/
import GrcovModel.Lemmas.GcnoSafeRec
namespace Grcov.Gcno
open Outcome

/-! ## observers with decidable equality (for closed examples) -/

def Outcome.crashSite? {α : Type} : Outcome α → Option Site
  | .crash s => some s
  | _ => none

def Outcome.errKind? {α : Type} : Outcome α → Option ErrKind
  | .err k => some k
  | _ => none

theorem Outcome.eq_crash_of {α : Type} {o : Outcome α} {s : Site} (h : o.crashSite? = some s) :
    o = .crash s := by
  cases o <;> simp [Outcome.crashSite?] at h
  exact h ▸ rfl

/-- bytes → well-formed shape (`read_gcno` as a whole) -/
def readBuild (gcno : List Nat) : Outcome Notes :=
  (readGcno gcno).bind fun x => build x.1 x.2.1 x.2.2

/-- the block-table sizes of the functions that `read_gcno` builds -/
def builtBlocks (gcno : List Nat) : Option (List Nat) :=
  match readBuild gcno with
  | .ok g => some (g.funcs.map fun f => f.blocks.length)
  | _ => none

theorem builtBlocks_ok {gcno : List Nat} {l : List Nat} (h : builtBlocks gcno = some l) :
    ∃ g, readBuild gcno = .ok g ∧ (g.funcs.map fun f => f.blocks.length) = l := by
  unfold builtBlocks at h
  split at h
  · rename_i g hg
    exact ⟨g, hg, by simpa using h⟩
  · cases h

/-- notes from bytes, then one gcda from bytes -/
def addTo (gcno gcda : List Nat) : Outcome State :=
  (readBuild gcno).bind fun g => addGcdaBytes g State.zero gcda

/-! ## closed files -/

def w32 (n : Nat) : List Nat := [n % 256, n / 256 % 256, n / 65536 % 256, n / 16777216 % 256]

/-- format 4.2 ("402*"), one function `f` in `a.c`, two blocks, one counted arc 0 → 1, line 5 in
block 0 -/
def tinyGcno : List Nat :=
  [111, 110, 99, 103] ++ [42, 50, 48, 52] ++ w32 7 ++
  w32 TAG_FUNCTION ++ w32 0 ++ w32 1 ++ w32 2 ++ w32 1 ++ [102, 0, 0, 0] ++ w32 1 ++ [97, 46, 99, 0] ++ w32 1 ++
  w32 TAG_BLOCKS ++ w32 2 ++ w32 0 ++ w32 0 ++
  w32 TAG_ARCS ++ w32 3 ++ w32 0 ++ w32 1 ++ w32 0 ++
  w32 TAG_LINES ++ w32 0 ++ w32 0 ++ w32 0 ++ w32 1 ++ [97, 46, 99, 0] ++ w32 5 ++ w32 0 ++ w32 0 ++
  w32 0

/-- the matching gcda: function record, one counter whose low four bytes are `lo` and high four
bytes `hi`, terminating zero word (48 bytes; the counter occupies bytes 36..44) -/
def tinyGcda (lo hi : Nat) : List Nat :=
  [97, 100, 99, 103] ++ [42, 50, 48, 52] ++ w32 7 ++
  w32 TAG_FUNCTION ++ w32 2 ++ w32 1 ++ w32 2 ++
  w32 TAG_COUNTER_ARCS ++ w32 2 ++ [lo, lo, lo, lo, hi, hi, hi, hi] ++
  w32 0

/-- format 12 ("B22*"), one function, then `k` BLOCKS records each announcing as many blocks as
bytes are left after it -/
def blocksRecs : Nat → Nat → List Nat
  | 0, _ => []
  | k + 1, left => w32 TAG_BLOCKS ++ w32 1 ++ w32 (left - 12) ++ blocksRecs k (left - 12)

def blocksGcno (k : Nat) : List Nat :=
  [111, 110, 99, 103] ++ [42, 50, 50, 66] ++ w32 7 ++ w32 0 ++ w32 0 ++
  w32 TAG_FUNCTION ++ w32 0 ++ w32 1 ++ w32 0 ++ w32 0 ++ w32 1 ++ [102, 0, 0, 0] ++ w32 0 ++
    w32 1 ++ [97, 46, 99, 0] ++ w32 1 ++ w32 1 ++ w32 1 ++ w32 1 ++
  blocksRecs k (12 * k + 4) ++ w32 0

def blocksWitness : List Nat := blocksGcno 6

/-! ## gcda: linear -/

def DRec.size : DRec → Nat
  | .arcs _ vs => 1 + vs.length
  | _ => 1

theorem finish_size {P : Bool → List Nat → List DRec}
    (hP : ∀ hf r, ((P hf r).map DRec.size).sum ≤ r.length)
    (len c : Nat) (rec : List DRec) (hf : Bool) (r : List Nat) :
    ((if 4 * len < c then rec ++ [DRec.fail .recordLen]
       else match skipN (4 * len - c) r with
         | .ok _ r' => rec ++ P hf r'
         | _ => rec ++ [.fail .short]).map DRec.size).sum ≤ (rec.map DRec.size).sum + 1 + r.length := by
  split
  · simp [DRec.size]
  · split
    · rename_i u r' h
      have := skipN_length h
      have := hP hf r'
      simp only [List.map_append, List.sum_append]
      omega
    · simp [DRec.size]

/-- the gcda record stream is linear in the input: records + counters ≤ bytes -/
theorem parseDRecs_size (le : Bool) (version : Nat) (fuel : Nat) (hf : Bool) (bs : List Nat) :
    ((parseDRecs le version fuel hf bs).map DRec.size).sum ≤ bs.length := by
  fun_induction parseDRecs le version fuel hf bs
  all_goals (try simp only [List.map_nil, List.sum_nil, List.map_cons, List.sum_cons, DRec.size,
    Nat.zero_le])
  all_goals (try grind [readU32_length, skipN_length])

end Grcov.Gcno
