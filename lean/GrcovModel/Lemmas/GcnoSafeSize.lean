/-
C14 for the gcno/gcda reader: sizes of the record streams against the input length, the closed
witness of the non-linear block table, and small closed gcno/gcda files for examples.
-/
import GrcovModel.Lemmas.GcnoSafeRec
namespace Grcov.Gcno
open Outcome

/-! ## observers with decidable equality (for closed examples) -/

def Outcome.crashSite? {α : Type} : Outcome α → Option Site
  | .crash s => some s
  | _ => none

def Outcome.errKind? {α : Type} : Outcome α → Option ErrKind
  | .err k => some k
  | _ => none

theorem Outcome.eq_crash_of {α : Type} {o : Outcome α} {s : Site} (h : o.crashSite? = some s) :
    o = .crash s := by
  cases o <;> simp [Outcome.crashSite?] at h
  exact h ▸ rfl

/-- bytes → well-formed shape (`read_gcno` as a whole) -/
def readBuild (gcno : List Nat) : Outcome Notes :=
  (readGcno gcno).bind fun x => build x.1 x.2.1 x.2.2

/-- the block-table sizes of the functions that `read_gcno` builds -/
def builtBlocks (gcno : List Nat) : Option (List Nat) :=
  match readBuild gcno with
  | .ok g => some (g.funcs.map fun f => f.blocks.length)
  | _ => none

theorem builtBlocks_ok {gcno : List Nat} {l : List Nat} (h : builtBlocks gcno = some l) :
    ∃ g, readBuild gcno = .ok g ∧ (g.funcs.map fun f => f.blocks.length) = l := by
  unfold builtBlocks at h
  split at h
  · rename_i g hg
    exact ⟨g, hg, by simpa using h⟩
  · cases h

/-- notes from bytes, then one gcda from bytes -/
def addTo (gcno gcda : List Nat) : Outcome State :=
  (readBuild gcno).bind fun g => addGcdaBytes g State.zero gcda

/-! ## closed files -/

def w32 (n : Nat) : List Nat := [n % 256, n / 256 % 256, n / 65536 % 256, n / 16777216 % 256]

/-- format 4.2 ("402*"), one function `f` in `a.c`, two blocks, one counted arc 0 → 1, line 5 in
block 0 -/
def tinyGcno : List Nat :=
  [111, 110, 99, 103] ++ [42, 50, 48, 52] ++ w32 7 ++
  w32 TAG_FUNCTION ++ w32 0 ++ w32 1 ++ w32 2 ++ w32 1 ++ [102, 0, 0, 0] ++ w32 1 ++ [97, 46, 99, 0] ++ w32 1 ++
  w32 TAG_BLOCKS ++ w32 2 ++ w32 0 ++ w32 0 ++
  w32 TAG_ARCS ++ w32 3 ++ w32 0 ++ w32 1 ++ w32 0 ++
  w32 TAG_LINES ++ w32 0 ++ w32 0 ++ w32 0 ++ w32 1 ++ [97, 46, 99, 0] ++ w32 5 ++ w32 0 ++ w32 0 ++
  w32 0

/-- the matching gcda: function record, one counter whose low four bytes are `lo` and high four
bytes `hi`, terminating zero word (48 bytes; the counter occupies bytes 36..44) -/
def tinyGcda (lo hi : Nat) : List Nat :=
  [97, 100, 99, 103] ++ [42, 50, 48, 52] ++ w32 7 ++
  w32 TAG_FUNCTION ++ w32 2 ++ w32 1 ++ w32 2 ++
  w32 TAG_COUNTER_ARCS ++ w32 2 ++ [lo, lo, lo, lo, hi, hi, hi, hi] ++
  w32 0

/-- format 4.2, one function with three blocks: entry 0 → 1, a self loop 1 → 1, 1 → exit 2, all
counted; line 5 lives in blocks 0 and 1 (so its count goes through `get_line_count` and the cycle
search), line 6 in block 1 -/
def loopGcno : List Nat :=
  [111, 110, 99, 103] ++ [42, 50, 48, 52] ++ w32 7 ++
  w32 TAG_FUNCTION ++ w32 0 ++ w32 1 ++ w32 2 ++ w32 1 ++ [102, 0, 0, 0] ++ w32 1 ++ [97, 46, 99, 0] ++ w32 1 ++
  w32 TAG_BLOCKS ++ w32 3 ++ w32 0 ++ w32 0 ++ w32 0 ++
  w32 TAG_ARCS ++ w32 3 ++ w32 0 ++ w32 1 ++ w32 0 ++
  w32 TAG_ARCS ++ w32 5 ++ w32 1 ++ w32 1 ++ w32 0 ++ w32 2 ++ w32 0 ++
  w32 TAG_LINES ++ w32 0 ++ w32 0 ++ w32 0 ++ w32 1 ++ [97, 46, 99, 0] ++ w32 5 ++ w32 0 ++ w32 0 ++
  w32 TAG_LINES ++ w32 0 ++ w32 1 ++ w32 0 ++ w32 1 ++ [97, 46, 99, 0] ++ w32 5 ++ w32 6 ++ w32 0 ++ w32 0 ++
  w32 0

/-- its gcda: the function was entered once and went round the loop three times -/
def loopGcda : List Nat :=
  [97, 100, 99, 103] ++ [42, 50, 48, 52] ++ w32 7 ++
  w32 TAG_FUNCTION ++ w32 2 ++ w32 1 ++ w32 2 ++
  w32 TAG_COUNTER_ARCS ++ w32 6 ++ w32 1 ++ w32 0 ++ w32 3 ++ w32 0 ++ w32 1 ++ w32 0 ++
  w32 0

/-- the count of line `l` of file `a.c` in a result -/
def lineOf (o : Outcome (List (Bytes × Cov))) (l : Nat) : Option Nat :=
  match o with
  | .ok rs => (AList.get? rs [97, 46, 99]).bind fun c => AList.get? c.lines l
  | _ => none

/-- format 12 ("B22*"), one function, then `k` BLOCKS records each announcing as many blocks as
bytes are left after it -/
def blocksRecs : Nat → Nat → List Nat
  | 0, _ => []
  | k + 1, left => w32 TAG_BLOCKS ++ w32 1 ++ w32 (left - 12) ++ blocksRecs k (left - 12)

def blocksGcno (k : Nat) : List Nat :=
  [111, 110, 99, 103] ++ [42, 50, 50, 66] ++ w32 7 ++ w32 0 ++ w32 0 ++
  w32 TAG_FUNCTION ++ w32 0 ++ w32 1 ++ w32 0 ++ w32 0 ++ w32 1 ++ [102, 0, 0, 0] ++ w32 0 ++
    w32 1 ++ [97, 46, 99, 0] ++ w32 1 ++ w32 1 ++ w32 1 ++ w32 1 ++
  blocksRecs k (12 * k + 4) ++ w32 0

def blocksWitness : List Nat := blocksGcno 6

/-! ## gcda: linear -/

def DRec.size : DRec → Nat
  | .arcs _ vs => 1 + vs.length
  | _ => 1

theorem finish_size {P : Bool → List Nat → List DRec}
    (hP : ∀ hf r, ((P hf r).map DRec.size).sum ≤ r.length)
    (len c : Nat) (rec : List DRec) (hf : Bool) (r : List Nat) :
    ((if 4 * len < c then rec ++ [DRec.fail .recordLen]
       else match skipN (4 * len - c) r with
         | .ok _ r' => rec ++ P hf r'
         | _ => rec ++ [.fail .short]).map DRec.size).sum ≤ (rec.map DRec.size).sum + 1 + r.length := by
  split
  · simp [DRec.size]
  · split
    · rename_i u r' h
      have := skipN_length h
      have := hP hf r'
      simp only [List.map_append, List.sum_append]
      omega
    · simp [DRec.size]

theorem parseCounters_some_len {le : Bool} {k : Nat} {bs vs r : List Nat}
    (h : parseCounters le k bs [] = (vs, some r)) : 8 * vs.length + r.length ≤ bs.length := by
  have := parseCounters_length le k bs []
  rw [h] at this
  simpa [optLen] using this

theorem parseCounters_none_len {le : Bool} {k : Nat} {bs vs : List Nat}
    (h : parseCounters le k bs [] = (vs, none)) : 8 * vs.length ≤ bs.length := by
  have := parseCounters_length le k bs []
  rw [h] at this
  simpa [optLen] using this

/-- the gcda record stream is linear in the input: records + counters ≤ bytes -/
theorem parseDRecs_size (le : Bool) (version : Nat) (fuel : Nat) (hf : Bool) (bs : List Nat) :
    ((parseDRecs le version fuel hf bs).map DRec.size).sum ≤ bs.length := by
  fun_induction parseDRecs le version fuel hf bs
  all_goals (try simp only [List.map_nil, List.sum_nil, List.map_cons, List.sum_cons, DRec.size,
    Nat.zero_le])
  all_goals (try (have hpc := parseCounters_some_len ‹parseCounters le _ _ [] = (_, some _)›))
  all_goals (try (have hpn := parseCounters_none_len ‹parseCounters le _ _ [] = (_, none)›))
  all_goals first
    | grind [readU32_length, skipN_length]
    | (have ih := ‹∀ (haveFn' : Bool) (r' : List Nat),
          (List.map DRec.size (parseDRecs le version _ haveFn' r')).sum ≤ r'.length›
       refine Nat.le_trans (finish_size (P := parseDRecs le version _)
         (fun hf r => ih hf r) _ _ _ _ _) ?_
       simp only [List.map_cons, List.map_nil, List.sum_cons, List.sum_nil, DRec.size]
       repeat (have hl := readU32_length ‹readU32 _ _ = PR.ok _ _›; clear ‹readU32 _ _ = PR.ok _ _›)
       repeat (have hl := skipN_length ‹skipN _ _ = PR.ok _ _›; clear ‹skipN _ _ = PR.ok _ _›)
       omega)

/-! ## gcno: linear except for the block tables -/

def LineItem.size : LineItem → Nat
  | .line _ => 1
  | .file nm => 1 + nm.length

def NRec.size : NRec → Nat
  | .func _ _ _ name file _ _ => 1 + name.length + file.length
  | .arcs _ as => 1 + as.length
  | .lines _ items => 1 + (items.map LineItem.size).sum
  | _ => 1

@[simp] theorem NRec.size_func {a b c : Nat} {n f : Bytes} {d e : Nat} :
    (NRec.func a b c n f d e).size = 1 + n.length + f.length := rfl
@[simp] theorem NRec.size_blocks {n : Nat} : (NRec.blocks n).size = 1 := rfl
@[simp] theorem NRec.size_arcs {n : Nat} {l : List (Nat × Nat)} : (NRec.arcs n l).size = 1 + l.length := rfl
@[simp] theorem NRec.size_lines {n : Nat} {l : List LineItem} :
    (NRec.lines n l).size = 1 + (l.map LineItem.size).sum := rfl
@[simp] theorem NRec.size_short : NRec.short.size = 1 := rfl
@[simp] theorem NRec.size_fail {k : ErrKind} : (NRec.fail k).size = 1 := rfl
@[simp] theorem NRec.size_crash {s : Site} : (NRec.crash s).size = 1 := rfl

theorem PR.bind_ok_iff {α β : Type} {x : PR α} {f : α → List Nat → PR β} {b : β} {r : List Nat} :
    x.bind f = .ok b r ↔ ∃ a r1, x = .ok a r1 ∧ f a r1 = .ok b r := by
  cases x with
  | ok a r1 =>
    simp only [PR.bind]
    constructor
    · intro h; exact ⟨_, _, rfl, h⟩
    · rintro ⟨a', r1', h1, h⟩
      simp only [PR.ok.injEq] at h1
      rw [h1.1, h1.2]; exact h
  | short => simp [PR.bind]
  | crash s => simp [PR.bind]

theorem parseFunc_size {le : Bool} {version : Nat} {bs r : List Nat} {rec : NRec}
    (h : parseFunc le version bs = .ok rec r) : rec.size + r.length + 8 ≤ bs.length := by
  unfold parseFunc at h
  obtain ⟨ident, r1, h1, h⟩ := PR.bind_ok_iff.1 h
  obtain ⟨lsum, r2, h2, h⟩ := PR.bind_ok_iff.1 h
  obtain ⟨csum, r3, h3, h⟩ := PR.bind_ok_iff.1 h
  obtain ⟨name, r4, h4, h⟩ := PR.bind_ok_iff.1 h
  have l1 := readU32_length h1
  have l2 := readU32_length h2
  have l3 : r3.length ≤ r2.length := by
    split at h3
    · have := readU32_length h3; omega
    · simp only [PR.ok.injEq] at h3; rw [h3.2]; exact Nat.le_refl _
  have l4 := readString_length h4
  split at h
  · obtain ⟨file, r5, h5, h⟩ := PR.bind_ok_iff.1 h
    obtain ⟨start, r6, h6, h⟩ := PR.bind_ok_iff.1 h
    have l5 := readString_length h5
    have l6 := readU32_length h6
    simp only [PR.ok.injEq] at h
    rw [← h.1, ← h.2]
    simp only [NRec.size_func]
    omega
  · obtain ⟨art, r5, h5, h⟩ := PR.bind_ok_iff.1 h
    obtain ⟨file, r6, h6, h⟩ := PR.bind_ok_iff.1 h
    obtain ⟨start, r7, h7, h⟩ := PR.bind_ok_iff.1 h
    obtain ⟨sc, r8, h8, h⟩ := PR.bind_ok_iff.1 h
    obtain ⟨en, r9, h9, h⟩ := PR.bind_ok_iff.1 h
    have l5 := readU32_length h5
    have l6 := readString_length h6
    have l7 := readU32_length h7
    have l8 := readU32_length h8
    have l9 := readU32_length h9
    split at h
    · obtain ⟨ec, r10, h10, h⟩ := PR.bind_ok_iff.1 h
      have l10 := readU32_length h10
      simp only [PR.ok.injEq] at h
      rw [← h.1, ← h.2]
      simp only [NRec.size_func]
      omega
    · simp only [PR.ok.injEq] at h
      rw [← h.1, ← h.2]
      simp only [NRec.size]
      omega

theorem parsePairs_length (le : Bool) : ∀ (k : Nat) (bs : List Nat) (acc : List (Nat × Nat)),
    8 * (parsePairs le k bs acc).1.length + optLen (parsePairs le k bs acc).2 ≤
      bs.length + 8 * acc.length := by
  intro k
  induction k with
  | zero => intro bs acc; simp only [parsePairs, optLen]; omega
  | succ k ih =>
    intro bs acc
    simp only [parsePairs]
    cases h1 : readU32 le bs with
    | ok d r1 =>
      have l1 := readU32_length h1
      simp only
      cases h2 : readU32 le r1 with
      | ok fl r2 =>
        have l2 := readU32_length h2
        have := ih r2 (acc ++ [(d, fl)])
        simp only [List.length_append, List.length_cons, List.length_nil] at this
        simp only
        omega
      | short => simp [optLen]
      | crash s => simp [optLen]
    | short => simp [optLen]
    | crash s => simp [optLen]

theorem parsePairs_some_len {le : Bool} {k : Nat} {bs r : List Nat} {as : List (Nat × Nat)}
    (h : parsePairs le k bs [] = (as, some r)) : 8 * as.length + r.length ≤ bs.length := by
  have := parsePairs_length le k bs []
  rw [h] at this
  simpa [optLen] using this

theorem parsePairs_none_len {le : Bool} {k : Nat} {bs : List Nat} {as : List (Nat × Nat)}
    (h : parsePairs le k bs [] = (as, none)) : 8 * as.length ≤ bs.length := by
  have := parsePairs_length le k bs []
  rw [h] at this
  simpa [optLen] using this

theorem parseItems_length (le : Bool) : ∀ (fuel : Nat) (bs : List Nat) (acc : List LineItem),
    ((parseItems le fuel bs acc).1.map LineItem.size).sum + optLen (parseItems le fuel bs acc).2.1 ≤
      bs.length + (acc.map LineItem.size).sum := by
  intro fuel
  induction fuel with
  | zero => intro bs acc; simp [parseItems, optLen]
  | succ fuel ih =>
    intro bs acc
    simp only [parseItems]
    cases h1 : readU32 le bs with
    | ok l r1 =>
      have l1 := readU32_length h1
      simp only
      split
      · have := ih r1 (acc ++ [.line l])
        simp only [List.map_append, List.sum_append, List.map_cons, List.map_nil, List.sum_cons,
          List.sum_nil, LineItem.size] at this
        omega
      · cases h2 : readString le r1 with
        | ok nm r2 =>
          have l2 := readString_length h2
          simp only
          split
          · simp only [optLen]; omega
          · have := ih r2 (acc ++ [.file nm])
            simp only [List.map_append, List.sum_append, List.map_cons, List.map_nil, List.sum_cons,
              List.sum_nil, LineItem.size] at this
            omega
        | short => simp [optLen]
        | crash s => simp [optLen]
    | short => simp [optLen]
    | crash s => simp [optLen]

theorem parseItems_some_len {le : Bool} {fuel : Nat} {bs r : List Nat} {items : List LineItem}
    {o : Option Site} (h : parseItems le fuel bs [] = (items, some r, o)) :
    (items.map LineItem.size).sum + r.length ≤ bs.length := by
  have := parseItems_length le fuel bs []
  rw [h] at this
  simpa [optLen] using this

theorem parseItems_none_len {le : Bool} {fuel : Nat} {bs : List Nat} {items : List LineItem}
    {o : Option Site} (h : parseItems le fuel bs [] = (items, none, o)) :
    (items.map LineItem.size).sum ≤ bs.length := by
  have := parseItems_length le fuel bs []
  rw [h] at this
  simpa [optLen] using this

theorem skipWords_length : ∀ (k : Nat) (bs r : List Nat), skipWords k bs = some r →
    r.length + 4 * k = bs.length := by
  intro k
  induction k with
  | zero => intro bs r h; simp only [skipWords, Option.some.injEq] at h; rw [h]; omega
  | succ k ih =>
    intro bs r h
    simp only [skipWords] at h
    split at h
    · rename_i u r1 h1
      have := skipN_length h1
      have := ih _ _ h
      omega
    · cases h

/-- the gcno record stream, block tables aside, is linear in the input: records + name bytes +
arcs + line items ≤ bytes -/
theorem parseRecs_size (le : Bool) (version blen : Nat) (fuel total : Nat) (hf : Bool)
    (bs : List Nat) : ((parseRecs le version blen fuel total hf bs).map NRec.size).sum ≤ bs.length := by
  fun_induction parseRecs le version blen fuel total hf bs
  all_goals (try simp only [List.map_nil, List.sum_nil, List.map_cons, List.sum_cons, NRec.size_func,
    NRec.size_blocks, NRec.size_arcs, NRec.size_lines, NRec.size_short, NRec.size_fail,
    NRec.size_crash, Nat.zero_le])
  all_goals (try (have hpf := parseFunc_size ‹parseFunc le version _ = PR.ok _ _›))
  all_goals (try (have hpp := parsePairs_some_len ‹parsePairs le _ _ [] = (_, some _)›))
  all_goals (try (have hpp := parsePairs_none_len ‹parsePairs le _ _ [] = (_, none)›))
  all_goals (try (have hpi := parseItems_some_len ‹parseItems le _ _ [] = (_, some _, _)›))
  all_goals (try (have hpi := parseItems_none_len ‹parseItems le _ _ [] = (_, none, _)›))
  all_goals (try (have hsw := skipWords_length _ _ _ ‹skipWords _ _ = some _›))
  all_goals grind [readU32_length, skipN_length]

theorem parseFunc_not_blocks (le : Bool) (version : Nat) (bs : List Nat) :
    PR.All (fun rec => ∀ n, rec ≠ NRec.blocks n) (parseFunc le version bs) := by
  unfold parseFunc
  refine PR.All.bind fun ident r1 => ?_
  refine PR.All.bind fun lsum r2 => ?_
  refine PR.All.bind fun csum r3 => ?_
  refine PR.All.bind fun name r4 => ?_
  split
  · refine PR.All.bind fun file r5 => ?_
    refine PR.All.bind fun start r6 => ?_
    exact PR.All.ok (fun n h => by cases h)
  · refine PR.All.bind fun _ r5 => ?_
    refine PR.All.bind fun file r6 => ?_
    refine PR.All.bind fun start r7 => ?_
    refine PR.All.bind fun _ r8 => ?_
    refine PR.All.bind fun en r9 => ?_
    split
    · refine PR.All.bind fun _ r10 => ?_
      exact PR.All.ok (fun n h => by cases h)
    · exact PR.All.ok (fun n h => by cases h)

/-- every BLOCKS record announces at most as many blocks as the file has bytes -/
theorem parseRecs_blocks (le : Bool) (version blen : Nat) (fuel total : Nat) (hf : Bool)
    (bs : List Nat) : ∀ n, NRec.blocks n ∈ parseRecs le version blen fuel total hf bs → n ≤ bs.length := by
  fun_induction parseRecs le version blen fuel total hf bs
  all_goals (try simp only [List.mem_cons, List.not_mem_nil, NRec.blocks.injEq, reduceCtorEq,
    false_or, or_false, false_imp_iff, implies_true])
  all_goals (try (have hpf := parseFunc_size ‹parseFunc le version _ = PR.ok _ _›))
  all_goals (try (have hnb := parseFunc_not_blocks le version _ _ _ ‹parseFunc le version _ = PR.ok _ _›))
  all_goals (try (have hpp := parsePairs_some_len ‹parsePairs le _ _ [] = (_, some _)›))
  all_goals (try (have hpi := parseItems_some_len ‹parseItems le _ _ [] = (_, some _, _)›))
  all_goals (try (have hsw := skipWords_length _ _ _ ‹skipWords _ _ = some _›))
  all_goals grind [readU32_length, skipN_length]

/-! ## the closed witnesses, evaluated -/

theorem blocksWitness_length : blocksWitness.length = 152 := by decide +kernel

/-- since the fix "a gcno file cannot announce more blocks in total than it has bytes" the former
witness of the quadratic block table (six BLOCKS records, 204 blocks for 152 bytes) is rejected -/
theorem blocksWitness_rejected : (readBuild blocksWitness).errKind? = some .blockCount := by
  decide +kernel

end Grcov.Gcno
