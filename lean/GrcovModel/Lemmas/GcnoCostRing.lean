/-
The cycle search is exponential: on `ringFunc k` (a ring of `k` blocks on one line, two parallel
arcs from each block to the next) `look_for_circuit` started at block 0 runs `get_cycle_count`
exactly 2^k times – for every `k ≥ 1` – while the function has `k` blocks and `2k` arcs.
-/
import GrcovModel.Lemmas.GcnoCost
import GrcovModel.Lemmas.GcnoSafeJohnson
namespace Grcov.Gcno
open Outcome

theorem ringFunc_block {k i : Nat} (hi : i < k) :
    (ringFunc k).blocks[i]? =
      some { no := i,
             source := [2 * (if i = 0 then k - 1 else i - 1), 2 * (if i = 0 then k - 1 else i - 1) + 1],
             destination := [2 * i, 2 * i + 1], lines := [5], lineMax := 5 } := by
  simp [ringFunc, List.getElem?_map, List.getElem?_range hi]

theorem ringFunc_arc {k e : Nat} (he : e < 2 * k) :
    (ringFunc k).arcs[e]? = some ⟨e / 2, if e / 2 + 1 < k then e / 2 + 1 else 0, 0⟩ := by
  simp [ringFunc, List.getElem?_map, List.getElem?_range he]

/-! ### small facts about lists -/

theorem position_of_getElem? : ∀ (l : List Nat) (i x : Nat), l.Nodup → l[i]? = some x →
    position l x = some i := by
  intro l
  induction l with
  | nil => intro i x _ h; simp at h
  | cons a l ih =>
    intro i x hn h
    have hn' := List.nodup_cons.1 hn
    cases i with
    | zero =>
      simp only [List.getElem?_cons_zero, Option.some.injEq] at h
      subst h
      simp [position, List.findIdx_cons]
    | succ i =>
      simp only [List.getElem?_cons_succ] at h
      have hx : x ∈ l := List.mem_of_getElem? h
      have hax : a ≠ x := fun e => hn'.1 (e ▸ hx)
      have := ih i x hn'.2 h
      unfold position at this ⊢
      simp only at this ⊢
      have hbeq : (a == x) = false := by simpa using hax
      rw [List.findIdx_cons, hbeq]
      simp only [cond_false, List.length_cons]
      split at this
      · rename_i hlt
        simp only [Option.some.injEq] at this
        rw [if_pos (by omega), this]
      · cases this

theorem eraseIdx_concat {α : Type} : ∀ (l : List α) (a : α), (l ++ [a]).eraseIdx l.length = l := by
  intro l
  induction l with
  | nil => intro a; rfl
  | cons b l ih => intro a; simp [ih]

theorem range_nodup' (n : Nat) : (List.range n).Nodup := List.nodup_range

/-! ### `get_cycle_count` when every `cycles` field is 0 -/

theorem subCycle_zero : ∀ (path : List Nat) (cy : Nat → Nat), (∀ e, cy e = 0) →
    ∃ cy', Outcome.foldl (subCycle 0) cy path = ok cy' ∧ ∀ e, cy' e = 0 := by
  intro path
  induction path with
  | nil => intro cy h; exact ⟨cy, rfl, h⟩
  | cons a path ih =>
    intro cy h
    rw [foldl_cons]
    unfold subCycle
    rw [if_neg (by omega)]
    simp only [bind_ok]
    apply ih
    intro e
    simp only [upd]
    split
    · rw [h]
    · exact h e

theorem cycleCount_zero (cyc : Nat → Nat) (h : ∀ e, cyc e = 0) (path : List Nat) (e0 : Nat)
    (he : e0 ∈ path) : ∃ cy, cycleCount cyc path = ok (cy, 0) ∧ ∀ e, cy e = 0 := by
  unfold cycleCount
  have hz : path.foldl (fun c e => min c (cyc e)) U64MAX = 0 := by
    have := (foldl_min_le cyc path U64MAX).2 e0 he
    rw [h] at this; omega
  simp only [hz]
  obtain ⟨cy, h1, h2⟩ := subCycle_zero path cyc h
  exact ⟨cy, by rw [h1]; rfl, h2⟩

/-! ### the search on the ring -/

/-- the state of the search when it stands at block `i`: the blocks `0 … i-1` are on the stack and
blocked, their lists are empty, all `cycles` fields are 0 -/
structure RingInv (i : Nat) (s : CS) : Prop where
  blocked : s.blocked = List.range i
  lists : s.lists = List.replicate i []
  cyc : ∀ e, s.cyc e = 0

/-- what a call `look_for_circuit(i)` on the ring returns -/
def RingPost (k i : Nat) (s : CS) (r : (CS × Bool × Nat) × CCost) : Prop :=
  RingInv i r.1.1 ∧ r.1.1.path = s.path ∧ r.1.2.1 = true ∧ r.1.2.2 = 0 ∧ r.2.circuits = 2 ^ (k - i)

/-- one of the two arcs out of block `i`, given what the call for block `i+1` returns -/
theorem ring_step (k i : Nat) (hi : i < k) (fuel : Nat)
    (IH : i + 1 < k → ∀ s, RingInv (i + 1) s →
      ∃ r, lookForCircuitC (ringFunc k) (List.range k) 0 fuel (i + 1) s = ok r ∧ RingPost k (i + 1) s r)
    (e : Nat) (he : e = 2 * i ∨ e = 2 * i + 1) (s : CS) (found : Bool) (kc : CCost)
    (hs : RingInv (i + 1) s) :
    ∃ s' kc', circuitStepC (ringFunc k).arcs (List.range k) 0
        (lookForCircuitC (ringFunc k) (List.range k) 0 fuel) ((s, found, 0), kc) e =
          ok ((s', true, 0), kc') ∧ RingInv (i + 1) s' ∧ s'.path = s.path ∧
        kc'.circuits = kc.circuits + 2 ^ (k - i - 1) := by
  have hek : e < 2 * k := by omega
  have he2 : e / 2 = i := by omega
  simp only [circuitStepC, ringFunc_arc hek, he2]
  by_cases hlast : i + 1 < k
  · -- the arc leads to block i+1, which is not blocked
    have hw : (0 ≤ i + 1) ∧ i + 1 ∈ List.range k := ⟨by omega, List.mem_range.2 hlast⟩
    have hnb : i + 1 ∉ s.blocked := by rw [hs.blocked]; simp
    simp only [if_pos hlast, ge_iff_le, Nat.zero_le, true_and, List.mem_range, if_true,
      Nat.add_one_ne_zero, if_false, hnb, not_false_eq_true]
    obtain ⟨r, hr, hpost⟩ := IH hlast { s with path := s.path ++ [e] }
      ⟨hs.blocked, hs.lists, hs.cyc⟩
    obtain ⟨hinv, hpath, hfound, hcount, hcirc⟩ := hpost
    rw [hr]
    simp only [bind_ok, hcount, Nat.add_zero]
    rw [if_neg (by simp [U64MAX])]
    refine ⟨{ r.1.1 with path := r.1.1.path.dropLast },
      ⟨kc.cost.seq r.2.cost, kc.circuits + r.2.circuits⟩, by rw [hfound, Bool.or_true],
      ⟨hinv.blocked, hinv.lists, hinv.cyc⟩, ?_, ?_⟩
    · show r.1.1.path.dropLast = s.path
      rw [hpath]; simp
    · show kc.circuits + r.2.circuits = kc.circuits + 2 ^ (k - i - 1)
      rw [hcirc]
      have : k - (i + 1) = k - i - 1 := by omega
      rw [this]
  · -- the last block: the arc closes a circuit at the start block 0
    have hk : k - i - 1 = 0 := by omega
    simp only [if_neg hlast, ge_iff_le, Nat.le_refl, List.mem_range, true_and, if_true]
    have hk0 : 0 < k := by omega
    simp only [hk0, if_true]
    obtain ⟨cy, hcy, hz⟩ := cycleCount_zero s.cyc hs.cyc (s.path ++ [e]) e (by simp)
    rw [hcy]
    simp only [bind_ok, Nat.add_zero]
    rw [if_neg (by simp [U64MAX])]
    refine ⟨_, _, rfl, ⟨hs.blocked, hs.lists, hz⟩, by simp, ?_⟩
    simp only [hk, Nat.pow_zero]

/-- **the call for block `i`** enumerates 2^(k-i) circuits -/
theorem ring_call (k : Nat) : ∀ (d i : Nat), i < k → k - i = d → ∀ (fuel : Nat) (s : CS), d ≤ fuel →
    RingInv i s →
    ∃ r, lookForCircuitC (ringFunc k) (List.range k) 0 fuel i s = ok r ∧ RingPost k i s r := by
  intro d
  induction d with
  | zero => intro i hi hd; omega
  | succ d ih =>
    intro i hi hd fuel s hfuel hs
    obtain ⟨fuel, rfl⟩ : ∃ f, fuel = f + 1 := ⟨fuel - 1, by omega⟩
    have IH : i + 1 < k → ∀ s, RingInv (i + 1) s →
        ∃ r, lookForCircuitC (ringFunc k) (List.range k) 0 fuel (i + 1) s = ok r ∧ RingPost k (i + 1) s r :=
      fun h s hs' => ih (i + 1) h (by omega) fuel s (by omega) hs'
    simp only [lookForCircuitC, ringFunc_block hi, foldl_cons, foldl_nil]
    -- the state after blocking `i`
    have hs1 : RingInv (i + 1) { s with blocked := s.blocked ++ [i], lists := s.lists ++ [[]] } :=
      ⟨by simp [hs.blocked, List.range_succ], by simp [hs.lists, List.replicate_succ'], hs.cyc⟩
    obtain ⟨s2, kc2, h2, hs2, hp2, hc2⟩ := ring_step k i hi fuel IH (2 * i) (.inl rfl) _ false {} hs1
    rw [h2]
    simp only [bind_ok]
    obtain ⟨s3, kc3, h3, hs3, hp3, hc3⟩ := ring_step k i hi fuel IH (2 * i + 1) (.inr rfl) s2 true kc2 hs2
    rw [h3]
    simp only [bind_ok, if_true]
    -- a circuit was found: unblock `i`
    have hpos : position s3.blocked i = some i := by
      rw [hs3.blocked]
      exact position_of_getElem? _ _ _ (range_nodup' _) (by simp [List.getElem?_range])
    have hl : s3.lists[i]? = some [] := by
      rw [hs3.lists]; simp [List.getElem?_replicate]
    have hbl : s3.blocked.eraseIdx i = List.range i := by
      rw [hs3.blocked, List.range_succ]
      have := eraseIdx_concat (List.range i) i
      simpa using this
    have hls : s3.lists.eraseIdx i = List.replicate i [] := by
      rw [hs3.lists, List.replicate_succ']
      have := eraseIdx_concat (List.replicate i ([] : List Nat)) []
      simpa using this
    have hlen : s3.blocked.length + 2 = (i + 2) + 1 := by rw [hs3.blocked]; simp
    rw [hlen]
    simp only [unblockC, hpos, hl, foldl_nil, bind_ok, hbl, hls]
    refine ⟨_, rfl, ⟨rfl, rfl, hs3.cyc⟩, ?_, rfl, rfl, ?_⟩
    · simp only; rw [hp3, hp2]
    · show kc3.circuits = 2 ^ (k - i)
      obtain ⟨m, hm⟩ : ∃ m, k - i = m + 1 := ⟨k - i - 1, by omega⟩
      have e1 : k - i - 1 = m := by omega
      rw [e1] at hc2 hc3
      rw [hc3, hc2, hm, Nat.pow_succ]
      show 0 + 2 ^ m + 2 ^ m = 2 ^ m * 2
      omega

/-- **`look_for_circuit` enumerates exponentially many circuits**: started at block 0 of the ring
of `k ≥ 1` blocks (with the fuel `get_cycles_count` gives it, all `cycles` fields 0) it runs
`get_cycle_count` exactly 2^k times. -/
theorem ring_circuits (k : Nat) (hk : 1 ≤ k) :
    ∃ r, lookForCircuitC (ringFunc k) (List.range k) 0 (circuitFuel (ringFunc k)) 0
        ⟨fun _ => 0, [], [], []⟩ = ok r ∧ r.2.circuits = 2 ^ k := by
  have hlen : (ringFunc k).blocks.length = k := by simp [ringFunc]
  obtain ⟨r, hr, hpost⟩ := ring_call k k 0 (by omega) rfl (circuitFuel (ringFunc k))
    ⟨fun _ => 0, [], [], []⟩ (by simp [circuitFuel, hlen]) ⟨rfl, rfl, fun _ => rfl⟩
  exact ⟨r, hr, hpost.2.2.2.2⟩

/-- 2^k outgrows every quadratic -/
theorem four_sq_lt_two_pow : ∀ k, 10 ≤ k → 4 * (k * k) < 2 ^ k := by
  have aux : ∀ d, 4 * ((10 + d) * (10 + d)) < 2 ^ (10 + d) := by
    intro d
    induction d with
    | zero => decide
    | succ d ih =>
      have e : (10 + (d + 1)) * (10 + (d + 1)) = (10 + d) * (10 + d) + (10 + d) + (10 + d + 1) := by
        have : 10 + (d + 1) = (10 + d) + 1 := by omega
        rw [this, Nat.add_mul, Nat.mul_add, Nat.one_mul, Nat.mul_one]
      have h10 : 10 * (10 + d) ≤ (10 + d) * (10 + d) := Nat.mul_le_mul_right _ (by omega)
      have hp : 2 ^ (10 + (d + 1)) = 2 ^ (10 + d) * 2 := by
        have : 10 + (d + 1) = (10 + d) + 1 := by omega
        rw [this, Nat.pow_succ]
      rw [e, hp]
      omega
  intro k hk
  have := aux (k - 10)
  have e : 10 + (k - 10) = k := by omega
  rw [e] at this
  exact this

end Grcov.Gcno
