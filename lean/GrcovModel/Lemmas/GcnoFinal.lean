/-
Facts about `finalize` results: nothing is reported as run when no function was entered; the
executed flag of a function is "its first arc was taken"; which lines are instrumented.
-/
import GrcovModel.Lemmas.GcnoSim
import GrcovModel.Lemmas.GcnoStruct
namespace Grcov.Gcno
open Grcov AList Outcome

/-- `stop` after all gcda: the functions (with their virtual arc) and their completed counters -/
def stopped (g : Notes) (ds : List Gcda) : Outcome (List (Func × Cnt)) :=
  (addGcdas g State.zero ds).bind fun st => stop g st

theorem compute_eq (g : Notes) (ds : List Gcda) (br : Bool) :
    compute g ds br = (stopped g ds).bind fun fs => finalize br fs := by
  unfold compute stopped
  cases addGcdas g State.zero ds <;> rfl

/-! ### nothing entered ⇒ nothing run -/

/-- every count is zero, no function is executed, no branch is taken -/
def NotRun (res : List (Bytes × Cov)) : Prop :=
  ∀ p ∈ res, (∀ q ∈ p.2.lines, q.2 = 0) ∧ (∀ q ∈ p.2.functions, q.2.executed = false) ∧
    (∀ q ∈ p.2.branches, ∀ t ∈ q.2, t = false)

theorem mergeZeroLines_zero : ∀ (ls m : List (Nat × Nat)), (∀ q ∈ m, q.2 = 0) →
    ∀ q ∈ mergeZeroLines m ls, q.2 = 0 := by
  intro ls
  induction ls with
  | nil => intro m hm; exact hm
  | cons ln ls ih =>
    obtain ⟨l, n⟩ := ln
    intro m hm
    simp only [mergeZeroLines]
    apply ih
    cases get? m l with
    | some v => exact hm
    | none =>
      intro q hq
      rcases mem_set hq with h | h
      · subst h; rfl
      · exact hm q h

theorem takenVec_false {f : Func} {cnt : Nat → Nat} : ∀ (es : List Nat) (v : List Bool),
    takenVec f cnt false es = ok v → ∀ t ∈ v, t = false := by
  intro es
  induction es with
  | nil => intro v h; cases h; simp
  | cons e es ih =>
    intro v h
    simp only [takenVec] at h
    cases ha : f.arcs[e]? with
    | none => rw [ha] at h; cases h
    | some a =>
      rw [ha] at h; simp only at h
      obtain ⟨r, h1, h2⟩ := bind_eq_ok.1 h
      cases h2
      intro t ht
      split at ht
      · exact ih _ h1 t ht
      · rcases List.mem_cons.1 ht with h | h
        · subst h; simp
        · exact ih _ h1 t h

theorem addBranches_false {f : Func} {cnt : Nat → Nat} : ∀ (bl : List Block)
    (m m' : List (Nat × List Bool)), addBranches f cnt false bl m = ok m' →
      (∀ q ∈ m, ∀ t ∈ q.2, t = false) → ∀ q ∈ m', ∀ t ∈ q.2, t = false := by
  intro bl
  induction bl with
  | nil => intro m m' h hm; cases h; exact hm
  | cons blk bl ih =>
    intro m m' h hm
    simp only [addBranches] at h
    obtain ⟨line, _, h2⟩ := bind_eq_ok.1 h
    split at h2
    · exact ih _ _ h2 hm
    · obtain ⟨taken, h3, h4⟩ := bind_eq_ok.1 h2
      have htk := takenVec_false _ _ h3
      split at h4
      · exact ih _ _ h4 hm
      · apply ih _ _ h4
        cases hg : get? m line with
        | none =>
          intro q hq
          rcases mem_set hq with h | h
          · subst h; exact htk
          · exact hm q h
        | some v =>
          intro q hq
          rcases mem_set hq with h | h
          · subst h
            intro t ht
            rcases List.mem_append.1 ht with h | h
            · exact hm _ (mem_of_get?' hg) t h
            · exact htk t h
          · exact hm q h

theorem zeroLines_zero : ∀ (ls : List Nat) (m : List (Nat × Nat)), (∀ q ∈ m, q.2 = 0) →
    ∀ q ∈ zeroLines ls m, q.2 = 0 := by
  intro ls
  induction ls with
  | nil => intro m hm; exact hm
  | cons l ls ih =>
    intro m hm
    simp only [zeroLines]
    apply ih
    cases get? m l with
    | some v => exact hm
    | none =>
      intro q hq
      rcases mem_set hq with h | h
      · subst h; rfl
      · exact hm q h

theorem addLineCount_executed {f : Func} {c : Cnt} {ex : Bool} {ls : List (Nat × Nat)}
    (h : addLineCount f c = ok (ex, ls)) : ex = entered f c := by
  unfold addLineCount at h
  split at h
  · rename_i hx
    obtain ⟨l, _, h2⟩ := bind_eq_ok.1 h
    cases h2; exact hx.symm
  · rename_i hx; cases h; simpa using hx

theorem finStep_notRun {br : Bool} {res res' : List (Bytes × Cov)} {f : Func} {c : Cnt}
    (h : finStep br res (f, c) = ok res') (hc : c.arc 0 = 0) (hres : NotRun res) : NotRun res' := by
  unfold finStep at h
  simp only at h
  obtain ⟨⟨ex, lines⟩, h1, h2⟩ := bind_eq_ok.1 h
  simp only at h2
  have hex : ex = false := by rw [addLineCount_executed h1]; simp [entered, hc]
  subst hex
  obtain ⟨ls, h3, h4⟩ := bind_eq_ok.1 h2
  obtain ⟨brs, h5, h6⟩ := bind_eq_ok.1 h4
  cases h6
  have hr : (∀ q ∈ ((get? res f.fileName).getD {}).lines, q.2 = 0) ∧
      (∀ q ∈ ((get? res f.fileName).getD {}).functions, q.2.executed = false) ∧
      (∀ q ∈ ((get? res f.fileName).getD {}).branches, ∀ t ∈ q.2, t = false) := by
    cases hg : get? res f.fileName with
    | none => simp
    | some cov => exact hres _ (mem_of_get?' hg)
  intro p hp
  rcases mem_set hp with h | h
  · subst h
    refine ⟨?_, ?_, ?_⟩
    · simp only [Bool.false_eq_true, if_false] at h3; cases h3
      exact mergeZeroLines_zero _ _ hr.1
    · intro q hq
      rcases mem_set hq with h | h
      · subst h; rfl
      · exact hr.2.1 q h
    · split at h5
      · exact addBranches_false _ _ _ h5 hr.2.2
      · cases h5; exact hr.2.2
  · exact hres p h

theorem foldl_finStep_notRun (br : Bool) : ∀ (fcs : List (Func × Cnt)) (res r : List (Bytes × Cov)),
    Outcome.foldl (finStep br) res fcs = ok r → (∀ fc ∈ fcs, fc.2.arc 0 = 0) → NotRun res →
      NotRun r := by
  intro fcs
  induction fcs with
  | nil => intro res r h _ hres; cases h; exact hres
  | cons fc fcs ih =>
    obtain ⟨f, c⟩ := fc
    intro res r h hz hres
    rw [foldl_cons] at h
    obtain ⟨res1, h1, h2⟩ := bind_eq_ok.1 h
    exact ih _ _ h2 (fun fc hfc => hz fc (List.mem_cons_of_mem _ hfc))
      (finStep_notRun h1 (hz (f, c) List.mem_cons_self) hres)

theorem All2.left {α β : Type} {R : α → β → Prop} {l : List α} {r : List β} (h : All2 R l r) :
    ∀ a ∈ l, ∃ b, R a b := by
  induction h with
  | nil => intro a ha; cases ha
  | @cons a b l r hab _ ih =>
    intro x hx
    rcases List.mem_cons.1 hx with h | h
    · subst h; exact ⟨b, hab⟩
    · exact ih x h

/-- with no gcda every counter is still zero after `stop` -/
theorem stopped_nil_zero {g : Notes} {fs : List (Func × Cnt)} (h : stopped g [] = ok fs) :
    ∀ fc ∈ fs, ∀ e, fc.2.arc e = 0 := by
  unfold stopped at h
  simp only [addGcdas_nil, bind_ok] at h
  unfold stop at h
  have hz : ∀ i, CntRel zeroRel (State.zero i) (State.zero i) :=
    fun _ => ⟨fun _ => ⟨rfl, rfl⟩, fun _ => ⟨rfl, rfl⟩⟩
  obtain ⟨fs', _, hrel⟩ := stopGo_sim zeroRel_valRel g.version hz _ _ _ h
  intro fc hfc e
  obtain ⟨b, _, hc⟩ := All2.left hrel fc hfc
  exact (hc.1 e).1

/-! ### the executed flag -/

/-- the `Function` entry reported for function `n` of file `k` -/
def fnAt (res : List (Bytes × Cov)) (k : Bytes) (n : Name) : Option Fn :=
  (get? res k).bind fun cov => get? cov.functions n

theorem finStep_fnAt {br : Bool} {res res' : List (Bytes × Cov)} {f : Func} {c : Cnt}
    (h : finStep br res (f, c) = ok res') (k : Bytes) (n : Name) :
    fnAt res' k n = if f.fileName = k ∧ f.name = n then some ⟨f.startLine, entered f c⟩
      else fnAt res k n := by
  unfold finStep at h
  simp only at h
  obtain ⟨⟨ex, lines⟩, h1, h2⟩ := bind_eq_ok.1 h
  simp only at h2
  obtain ⟨ls, h3, h4⟩ := bind_eq_ok.1 h2
  obtain ⟨brs, h5, h6⟩ := bind_eq_ok.1 h4
  cases h6
  rw [addLineCount_executed h1]
  unfold fnAt
  rw [get?_set]
  by_cases hk : f.fileName = k
  · subst hk
    simp only [if_true, Option.bind_some, true_and]
    rw [get?_set]
    by_cases hn : f.name = n
    · simp only [hn, if_true]
    · simp only [hn, if_false]
      cases get? res f.fileName <;> rfl
  · simp only [hk, if_false, false_and]

theorem foldl_finStep_fnAt_other (br : Bool) (k : Bytes) (n : Name) :
    ∀ (fcs : List (Func × Cnt)) (res r : List (Bytes × Cov)),
      Outcome.foldl (finStep br) res fcs = ok r →
      (∀ fc ∈ fcs, ¬ (fc.1.fileName = k ∧ fc.1.name = n)) → fnAt r k n = fnAt res k n := by
  intro fcs
  induction fcs with
  | nil => intro res r h _; cases h; rfl
  | cons fc fcs ih =>
    obtain ⟨f, c⟩ := fc
    intro res r h hne
    rw [foldl_cons] at h
    obtain ⟨res1, h1, h2⟩ := bind_eq_ok.1 h
    rw [ih _ _ h2 (fun fc hfc => hne fc (List.mem_cons_of_mem _ hfc)), finStep_fnAt h1]
    have := hne (f, c) List.mem_cons_self
    simp only at this
    rw [if_neg this]

/-- the function at position `i`, unless a later function has the same file and name, is reported
with its own start line and `executed = entered` (it has an arc and its first arc count is > 0) -/
theorem foldl_finStep_fnAt (br : Bool) : ∀ (fcs : List (Func × Cnt)) (res r : List (Bytes × Cov))
    (pre post : List (Func × Cnt)) (f : Func) (c : Cnt), fcs = pre ++ (f, c) :: post →
    Outcome.foldl (finStep br) res fcs = ok r →
    (∀ fc ∈ post, ¬ (fc.1.fileName = f.fileName ∧ fc.1.name = f.name)) →
      fnAt r f.fileName f.name = some ⟨f.startLine, entered f c⟩ := by
  intro fcs res r pre
  induction pre generalizing fcs res with
  | nil =>
    intro post f c e h hne
    subst e
    rw [List.nil_append, foldl_cons] at h
    obtain ⟨res1, h1, h2⟩ := bind_eq_ok.1 h
    rw [foldl_finStep_fnAt_other br _ _ _ _ _ h2 hne, finStep_fnAt h1]
    simp
  | cons p pre ih =>
    intro post f c e h hne
    subst e
    rw [List.cons_append, foldl_cons] at h
    obtain ⟨res1, _, h2⟩ := bind_eq_ok.1 h
    exact ih _ _ post f c rfl h2 hne

/-! ### instrumented lines -/

theorem get?_finStepS (br : Bool) (S : List (Bytes × CovS)) (f : Func) (k : Bytes) :
    get? (finStepS br S f) k =
      if f.fileName = k then
        some (dedupKeys (funLines f) ((get? S f.fileName).getD ([], [], [])).1,
              (if br then addBranchesS f f.blocks ((get? S f.fileName).getD ([], [], [])).2.1
               else ((get? S f.fileName).getD ([], [], [])).2.1),
              set ((get? S f.fileName).getD ([], [], [])).2.2 f.name f.startLine)
      else get? S k := by
  unfold finStepS
  simp only [get?_set]

theorem mem_funLines (f : Func) (l : Nat) : l ∈ funLines f ↔ ∃ b ∈ f.blocks, l ∈ b.lines := by
  unfold funLines
  rw [mem_dedupKeys]
  simp [List.mem_flatMap]

theorem foldl_finStepS_lines (br : Bool) (k : Bytes) (l : Nat) : ∀ (fs : List Func)
    (S0 : List (Bytes × CovS)),
    (match get? (fs.foldl (finStepS br) S0) k with
     | some S => l ∈ S.1
     | none => False) ↔
    ((match get? S0 k with | some S => l ∈ S.1 | none => False) ∨
      ∃ f ∈ fs, f.fileName = k ∧ l ∈ funLines f) := by
  intro fs
  induction fs with
  | nil => intro S0; simp
  | cons f fs ih =>
    intro S0
    rw [List.foldl_cons, ih, get?_finStepS]
    by_cases hk : f.fileName = k
    · subst hk
      simp only [if_true, mem_dedupKeys, List.mem_cons, exists_eq_or_imp, true_and]
      cases get? S0 f.fileName with
      | none =>
        simp only [Option.getD_none, List.not_mem_nil, or_false, false_or]
      | some S =>
        simp only [Option.getD_some]
        constructor
        · rintro ((h | h) | h)
          · exact Or.inr (Or.inl h)
          · exact Or.inl h
          · exact Or.inr (Or.inr h)
        · rintro (h | h | h)
          · exact Or.inl (Or.inr h)
          · exact Or.inl (Or.inl h)
          · exact Or.inr h
    · simp only [hk, if_false, List.mem_cons, exists_eq_or_imp, false_and, false_or]

theorem modifyAt_lines (g : Block → Block) (hg : ∀ b, (g b).lines = b.lines) :
    ∀ (bl : List Block) (i : Nat), (modifyAt g bl i).flatMap (·.lines) = bl.flatMap (·.lines) := by
  intro bl
  induction bl with
  | nil => intro i; rfl
  | cons b bl ih =>
    intro i
    cases i with
    | zero => simp only [modifyAt, List.flatMap_cons, hg]
    | succ i => simp only [modifyAt, List.flatMap_cons, ih]

theorem addVirtualArc_lines (version : Nat) (f : Func) :
    (addVirtualArc version f).blocks.flatMap (·.lines) = f.blocks.flatMap (·.lines) := by
  unfold addVirtualArc
  split
  · simp only
    rw [modifyAt_lines (fun b => { b with source := b.source ++ [f.arcs.length] }) (fun b => rfl),
      modifyAt_lines _ (fun b => by simp [insertDest])]
  · rfl

theorem addVirtualArc_fileName (version : Nat) (f : Func) :
    (addVirtualArc version f).fileName = f.fileName := by
  unfold addVirtualArc; split <;> rfl

theorem addVirtualArc_funLines (version : Nat) (f : Func) :
    funLines (addVirtualArc version f) = funLines f := by
  unfold funLines; rw [addVirtualArc_lines]

/-- which lines of file `k` a result reports: exactly the lines of the blocks of the functions
whose file name is `k` -/
theorem compute_lines_iff {g : Notes} {ds : List Gcda} {br : Bool} {r : List (Bytes × Cov)}
    (h : compute g ds br = ok r) {k : Bytes} {cov : Cov} (hk : get? r k = some cov) (l : Nat) :
    l ∈ keys cov.lines ↔ ∃ f ∈ g.funcs, f.fileName = k ∧ ∃ b ∈ f.blocks, l ∈ b.lines := by
  have hs := compute_struct h
  have h1 : get? (structOf r) k = some (covStruct cov) := by
    unfold structOf; rw [get?_map, hk]; rfl
  rw [hs] at h1
  unfold gcnoStructure finalizeS at h1
  have h2 := foldl_finStepS_lines br k l (g.funcs.map (addVirtualArc g.version)) []
  rw [h1] at h2
  simp only [get?_nil, false_or, covStruct] at h2
  rw [h2]
  constructor
  · rintro ⟨f', hf', hk', hl⟩
    obtain ⟨f, hf, rfl⟩ := List.mem_map.1 hf'
    rw [addVirtualArc_fileName] at hk'
    rw [addVirtualArc_funLines, mem_funLines] at hl
    exact ⟨f, hf, hk', hl⟩
  · rintro ⟨f, hf, hk', hl⟩
    refine ⟨addVirtualArc g.version f, List.mem_map.2 ⟨f, hf, rfl⟩, ?_, ?_⟩
    · rw [addVirtualArc_fileName]; exact hk'
    · rw [addVirtualArc_funLines, mem_funLines]; exact hl

/-- a line that lives in exactly one block gets that block's counter -/
theorem lineCounts_single (f : Func) (c : Cnt) (l b : Nat) : ∀ (m : List (Nat × List Nat))
    (y : Nat → Nat) (ls : List (Nat × Nat)), lineCounts f c m y = ok ls → (l, [b]) ∈ m →
      (l, c.blk b) ∈ ls := by
  intro m
  induction m with
  | nil => intro y ls _ hm; cases hm
  | cons lb m ih =>
    obtain ⟨l', bs⟩ := lb
    intro y ls h hm
    have key : ∃ n y' r, lineCounts f c m y' = ok r ∧ ls = (l', n) :: r ∧
        (∀ b', bs = [b'] → n = c.blk b') := by
      cases bs with
      | nil =>
        simp only [lineCounts] at h
        obtain ⟨⟨y1, n⟩, _, h2⟩ := bind_eq_ok.1 h
        obtain ⟨r, h3, h4⟩ := bind_eq_ok.1 h2
        cases h4; exact ⟨n, y1, r, h3, rfl, fun b' hb => by cases hb⟩
      | cons b0 bs' =>
        cases bs' with
        | nil =>
          simp only [lineCounts] at h
          obtain ⟨r, h3, h4⟩ := bind_eq_ok.1 h
          cases h4
          exact ⟨_, y, r, h3, rfl, fun b' hb => by cases hb; rfl⟩
        | cons b1 bs'' =>
          simp only [lineCounts] at h
          obtain ⟨⟨y1, n⟩, _, h2⟩ := bind_eq_ok.1 h
          obtain ⟨r, h3, h4⟩ := bind_eq_ok.1 h2
          cases h4; exact ⟨n, y1, r, h3, rfl, fun b' hb => by cases hb⟩
    obtain ⟨n, y', r, h1, rfl, hn⟩ := key
    rcases List.mem_cons.1 hm with e | hm
    · cases e
      rw [hn b rfl]; exact List.mem_cons_self
    · exact List.mem_cons_of_mem _ (ih _ _ h1 hm)

end Grcov.Gcno
