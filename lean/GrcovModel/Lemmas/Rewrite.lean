/-
Helper lemmas about Rewrite: what `collect` / `rewritePaths` return, the selection conditions of
one key, the partition lemma, and the path facts behind C11 / C12.
-/
import GrcovModel.Rewrite
import GrcovModel.Lemmas.UPath
namespace Grcov.Rewrite
open Grcov Grcov.UPath Grcov.Glob AList

/-- the record a non-panicking key contributes -/
def okPart : Res (Option Rec) → Option Rec
  | .ok o => o
  | .panic _ => none

theorem collect_eq_ok (l : List (Res (Option Rec))) (rs : List Rec) :
    collect l = .ok rs ↔ (∀ x ∈ l, ∃ o, x = .ok o) ∧ rs = l.filterMap okPart := by
  induction l generalizing rs with
  | nil => simp [collect, eq_comm]
  | cons x l ih =>
    cases x with
    | panic s => simp [collect]
    | ok o =>
      simp only [collect]
      cases hc : collect l with
      | panic s =>
        simp only [reduceCtorEq, false_iff]
        rintro ⟨hall, _⟩
        have := (ih (l.filterMap okPart)).2 ⟨fun x hx => hall x (List.mem_cons_of_mem _ hx), rfl⟩
        rw [hc] at this; cases this
      | ok l' =>
        have ih' := (ih l').1 hc
        simp only [Res.ok.injEq, List.mem_cons, forall_eq_or_imp, List.filterMap_cons, okPart]
        constructor
        · intro h; subst h
          refine ⟨⟨⟨o, rfl⟩, ih'.1⟩, ?_⟩
          cases o <;> simp [ih'.2]
        · rintro ⟨_, h⟩; subst h
          cases o <;> simp [ih'.2]

/-- the per-key function of the `filter_map` closure, panics seen as "no record" -/
def keyRec (cfg : Cfg) (fs : FS) (kc : Bytes × Cov) : Option Rec := okPart (rewriteKey cfg fs kc)

theorem rewritePaths_eq_ok (cfg : Cfg) (fs : FS) (m : List (Bytes × Cov)) (rep : List Rec) :
    rewritePaths cfg fs m = .ok rep ↔
      (∀ s, cfg.sourceDir = some s → isAbsolute s = true) ∧
      (∀ kc ∈ m, ∃ o, rewriteKey cfg fs kc = .ok o) ∧ rep = m.filterMap (keyRec cfg fs) := by
  have hc := collect_eq_ok (m.map (rewriteKey cfg fs)) rep
  simp only [List.mem_map, forall_exists_index, and_imp, forall_apply_eq_imp_iff₂,
    List.filterMap_map] at hc
  unfold rewritePaths
  cases hs : cfg.sourceDir with
  | none =>
    simp only [hc]
    have : (okPart ∘ rewriteKey cfg fs) = keyRec cfg fs := rfl
    simp [this]
  | some s =>
    simp only
    have : (okPart ∘ rewriteKey cfg fs) = keyRec cfg fs := rfl
    by_cases ha : isAbsolute s = true
    · simp only [ha, if_true, hc]; simp [this, ha]
    · simp only [ha]; simp [ha]

theorem keyRec_eq_some (cfg : Cfg) (fs : FS) (kc : Bytes × Cov) (r : Rec) :
    keyRec cfg fs kc = some r ↔ rewriteKey cfg fs kc = .ok (some r) := by
  unfold keyRec
  cases rewriteKey cfg fs kc with
  | panic s => simp [okPart]
  | ok o => simp [okPart]

theorem mem_rewritePaths {cfg : Cfg} {fs : FS} {m : List (Bytes × Cov)} {rep : List Rec}
    (h : rewritePaths cfg fs m = .ok rep) (r : Rec) :
    r ∈ rep ↔ ∃ kc ∈ m, rewriteKey cfg fs kc = .ok (some r) := by
  obtain ⟨_, _, e⟩ := (rewritePaths_eq_ok cfg fs m rep).1 h
  subst e
  simp [List.mem_filterMap, keyRec_eq_some]

theorem rewriteKey_some_iff (cfg : Cfg) (fs : FS) (kc : Bytes × Cov) (r : Rec) :
    rewriteKey cfg fs kc = .ok (some r) ↔
      ∃ abs rel, resolveKey cfg fs kc.1 = .ok (some (abs, rel)) ∧
        selectRec cfg fs abs rel kc.2 = some r := by
  unfold rewriteKey
  cases h : resolveKey cfg fs kc.1 with
  | panic s => simp
  | ok o =>
    cases o with
    | none => simp
    | some ar =>
      obtain ⟨a, rl⟩ := ar
      simp only [Res.ok.injEq, Option.some.injEq, Prod.mk.injEq]
      constructor
      · intro h; exact ⟨a, rl, ⟨rfl, rfl⟩, h⟩
      · rintro ⟨_, _, ⟨rfl, rfl⟩, h⟩; exact h

theorem selectRec_some_iff (cfg : Cfg) (fs : FS) (abs rel : Bytes) (cov : Cov) (r : Rec) :
    selectRec cfg fs abs rel cov = some r ↔
      setMatch cfg.ignore rel = false ∧ (cfg.keep = [] ∨ setMatch cfg.keep rel = true) ∧
      (cfg.ignoreNotExisting = true → fs.exists abs = true) ∧ filterOk cfg.filter cov = true ∧
      r = ⟨abs, rel, cov⟩ := by
  unfold selectRec
  by_cases h1 : setMatch cfg.ignore rel = true
  · simp [h1]
  · simp only [h1, Bool.false_eq_true, if_false]
    by_cases h2 : (!cfg.keep.isEmpty && !setMatch cfg.keep rel) = true
    · simp only [h2, if_true]
      simp only [Bool.and_eq_true, Bool.not_eq_eq_eq_not, Bool.not_true, List.isEmpty_eq_false_iff] at h2
      simp [h2.1, h2.2]
    · simp only [h2, Bool.false_eq_true, if_false]
      have h2' : cfg.keep = [] ∨ setMatch cfg.keep rel = true := by
        simp only [Bool.and_eq_true, Bool.not_eq_eq_eq_not, Bool.not_true, List.isEmpty_eq_false_iff,
          not_and, Bool.not_eq_false] at h2
        by_cases hk : cfg.keep = []
        · exact Or.inl hk
        · exact Or.inr (h2 hk)
      by_cases h3 : (cfg.ignoreNotExisting && !fs.exists abs) = true
      · simp only [h3, if_true]
        simp only [Bool.and_eq_true, Bool.not_eq_eq_eq_not, Bool.not_true] at h3
        simp [h3.1, h3.2]
      · simp only [h3, Bool.false_eq_true, if_false]
        have h3' : cfg.ignoreNotExisting = true → fs.exists abs = true := by
          intro hi; simp [hi] at h3; exact h3
        by_cases h4 : filterOk cfg.filter cov = true
        · simp only [h4, Bool.not_true, Bool.false_eq_true, if_false, Option.some.injEq]
          constructor
          · intro e; exact ⟨by simp, h2', h3', trivial, e.symm⟩
          · rintro ⟨_, _, _, _, e⟩; exact e.symm
        · simp [h4]

/-- `resolveKey` only reads the three path options -/
theorem resolveKey_congr {c c' : Cfg} (h1 : c.sourceDir = c'.sourceDir)
    (h2 : c.prefixDir = c'.prefixDir) (h3 : c.mapping = c'.mapping) (fs : FS) (key : Bytes) :
    resolveKey c fs key = resolveKey c' fs key := by
  unfold resolveKey keyPath; rw [h1, h2, h3]

/-! ### partitions -/

theorem perm_filterMap_split {α β : Type} (f g h : α → Option β) (l : List α)
    (H : ∀ a ∈ l, (g a = f a ∧ h a = none) ∨ (g a = none ∧ h a = f a)) :
    (l.filterMap g ++ l.filterMap h).Perm (l.filterMap f) := by
  induction l with
  | nil => simp
  | cons a l ih =>
    have ih := ih fun x hx => H x (List.mem_cons_of_mem _ hx)
    rcases H a (by simp) with ⟨e1, e2⟩ | ⟨e1, e2⟩
    · simp only [List.filterMap_cons, e1, e2]
      cases f a with
      | none => exact ih
      | some b => exact List.Perm.cons b ih
    · simp only [List.filterMap_cons, e1, e2]
      cases f a with
      | none => exact ih
      | some b => exact (List.perm_middle).trans (List.Perm.cons b ih)

theorem setMatch_append (a b : GlobSet) (p : Bytes) :
    setMatch (a ++ b) p = (setMatch a p || setMatch b p) := by
  simp [setMatch, List.any_append]

/-- one key under `--ignore (I ++ G)` / `--keep-only G` versus the unfiltered configuration -/
theorem rewriteKey_ignore_keep (cfg : Cfg) (hk : cfg.keep = []) (G : GlobSet) (hG : G ≠ [])
    (fs : FS) (kc : Bytes × Cov) :
    let cI := { cfg with ignore := cfg.ignore ++ G }
    let cK := { cfg with keep := G }
    (∀ s, rewriteKey cfg fs kc = .panic s →
        (∃ s, rewriteKey cI fs kc = .panic s) ∧ ∃ s, rewriteKey cK fs kc = .panic s) ∧
    (∀ o, rewriteKey cfg fs kc = .ok o →
      (rewriteKey cI fs kc = .ok o ∧ rewriteKey cK fs kc = .ok none) ∨
      (rewriteKey cI fs kc = .ok none ∧ rewriteKey cK fs kc = .ok o)) := by
  intro cI cK
  have eI : resolveKey cI fs kc.1 = resolveKey cfg fs kc.1 := resolveKey_congr rfl rfl rfl fs _
  have eK : resolveKey cK fs kc.1 = resolveKey cfg fs kc.1 := resolveKey_congr rfl rfl rfl fs _
  unfold rewriteKey
  rw [eI, eK]
  cases hr : resolveKey cfg fs kc.1 with
  | panic s => simp
  | ok o =>
    cases o with
    | none => simp
    | some ar =>
      obtain ⟨a, rl⟩ := ar
      simp only [reduceCtorEq, false_implies, implies_true, true_and, Res.ok.injEq, forall_eq']
      have hGe : G.isEmpty = false := by cases G <;> simp_all
      unfold selectRec
      simp only [cI, cK, hk, setMatch_append, List.isEmpty_nil, Bool.not_true, Bool.false_and,
        Bool.false_eq_true, if_false, hGe, Bool.not_false, Bool.true_and]
      by_cases h1 : setMatch cfg.ignore rl = true
      · simp [h1]
      · simp only [h1, Bool.false_eq_true, if_false, Bool.false_or]
        by_cases hg : setMatch G rl = true
        · simp [hg]
        · simp [hg]

theorem rewriteKey_filter (cfg : Cfg) (hf : cfg.filter = none) (fs : FS) (kc : Bytes × Cov) :
    let cT := { cfg with filter := some true }
    let cF := { cfg with filter := some false }
    (∀ s, rewriteKey cfg fs kc = .panic s →
        (∃ s, rewriteKey cT fs kc = .panic s) ∧ ∃ s, rewriteKey cF fs kc = .panic s) ∧
    (∀ o, rewriteKey cfg fs kc = .ok o →
      (rewriteKey cT fs kc = .ok o ∧ rewriteKey cF fs kc = .ok none) ∨
      (rewriteKey cT fs kc = .ok none ∧ rewriteKey cF fs kc = .ok o)) := by
  intro cT cF
  have eT : resolveKey cT fs kc.1 = resolveKey cfg fs kc.1 := resolveKey_congr rfl rfl rfl fs _
  have eF : resolveKey cF fs kc.1 = resolveKey cfg fs kc.1 := resolveKey_congr rfl rfl rfl fs _
  unfold rewriteKey
  rw [eT, eF]
  cases hr : resolveKey cfg fs kc.1 with
  | panic s => simp
  | ok o =>
    cases o with
    | none => simp
    | some ar =>
      obtain ⟨a, rl⟩ := ar
      simp only [reduceCtorEq, false_implies, implies_true, true_and, Res.ok.injEq, forall_eq']
      unfold selectRec
      simp only [cT, cF, hf, filterOk]
      by_cases h1 : setMatch cfg.ignore rl = true
      · simp [h1]
      · simp only [h1, Bool.false_eq_true, if_false]
        by_cases h2 : (!cfg.keep.isEmpty && !setMatch cfg.keep rl) = true
        · simp [h2]
        · simp only [h2, Bool.false_eq_true, if_false]
          by_cases h3 : (cfg.ignoreNotExisting && !fs.exists a) = true
          · simp [h3]
          · simp only [h3, Bool.false_eq_true, if_false]
            by_cases hcv : isCovered kc.2 = true <;> simp [hcv]

/-- lifting a per-key "exactly one of the two" to whole reports -/
theorem partition_reports (cfg cA cB : Cfg) (fs : FS) (m : List (Bytes × Cov))
    (hsd : cA.sourceDir = cfg.sourceDir ∧ cB.sourceDir = cfg.sourceDir)
    (H : ∀ kc ∈ m,
      (∀ s, rewriteKey cfg fs kc = .panic s →
        (∃ s, rewriteKey cA fs kc = .panic s) ∧ ∃ s, rewriteKey cB fs kc = .panic s) ∧
      (∀ o, rewriteKey cfg fs kc = .ok o →
        (rewriteKey cA fs kc = .ok o ∧ rewriteKey cB fs kc = .ok none) ∨
        (rewriteKey cA fs kc = .ok none ∧ rewriteKey cB fs kc = .ok o)))
    (rep : List Rec) (h : rewritePaths cfg fs m = .ok rep) :
    ∃ ra rb, rewritePaths cA fs m = .ok ra ∧ rewritePaths cB fs m = .ok rb ∧
      (ra ++ rb).Perm rep := by
  obtain ⟨habs, hok, e⟩ := (rewritePaths_eq_ok cfg fs m rep).1 h
  refine ⟨m.filterMap (keyRec cA fs), m.filterMap (keyRec cB fs), ?_, ?_, ?_⟩
  · rw [rewritePaths_eq_ok]
    refine ⟨fun s hs => habs s (hsd.1 ▸ hs), ?_, rfl⟩
    intro kc hkc
    obtain ⟨o, ho⟩ := hok kc hkc
    rcases (H kc hkc).2 o ho with ⟨h1, _⟩ | ⟨h1, _⟩ <;> exact ⟨_, h1⟩
  · rw [rewritePaths_eq_ok]
    refine ⟨fun s hs => habs s (hsd.2 ▸ hs), ?_, rfl⟩
    intro kc hkc
    obtain ⟨o, ho⟩ := hok kc hkc
    rcases (H kc hkc).2 o ho with ⟨_, h1⟩ | ⟨_, h1⟩ <;> exact ⟨_, h1⟩
  · subst e
    apply perm_filterMap_split
    intro kc hkc
    obtain ⟨o, ho⟩ := hok kc hkc
    rcases (H kc hkc).2 o ho with ⟨h1, h2⟩ | ⟨h1, h2⟩
    · left; simp [keyRec, h1, h2, ho, okPart]
    · right; simp [keyRec, h1, h2, ho, okPart]


/-! ### the path part -/

theorem getAbsPath_some_iff (fs : FS) (src : Option Bytes) (rel a r : Bytes) :
    getAbsPath fs src rel = .ok (some (a, r)) ↔
      ∃ ac, absCanon fs src rel = some ac ∧ normalizePath ac = some a ∧
        normalizePath (fixupRelPath src ac rel) = some r := by
  unfold getAbsPath absCanon
  cases h : absGuess fs src rel with
  | none => simp
  | some abs0 =>
    simp only [Option.bind_some]
    cases hc : canonOrNorm fs abs0 with
    | none => simp
    | some ac =>
      simp only [Option.some.injEq, exists_eq_left']
      cases h1 : normalizePath ac <;> cases h2 : normalizePath (fixupRelPath src ac rel) <;> simp

/-! ### the canonicalised-or-normalised absolute path is clean -/

theorem walk_real (fs : FS) (n lf : Nat) (segs : List Bytes) (hs : ∀ s ∈ segs, 47 ∉ s)
    (cur : List Bytes) (k : Kind) (hcur : ∀ x ∈ cur, RealName x) (r : List Bytes × Kind)
    (h : walk fs n lf cur k segs = some r) : ∀ x ∈ r.1, RealName x := by
  induction n generalizing lf segs cur k with
  | zero =>
    cases segs with
    | nil => simp [walk] at h; subst h; exact hcur
    | cons seg segs => simp [walk] at h
  | succ n ih =>
    cases segs with
    | nil => simp [walk] at h; subst h; exact hcur
    | cons seg segs =>
      have hs' : ∀ s ∈ segs, 47 ∉ s := fun s h' => hs s (List.mem_cons_of_mem _ h')
      cases k with
      | file => simp [walk] at h
      | dir =>
        simp only [walk] at h
        split at h
        · exact ih lf segs hs' cur _ hcur h
        · rename_i hskip
          split at h
          · exact ih lf segs hs' _ _ (fun x hx => hcur x (List.dropLast_subset _ hx)) h
          · rename_i hdd
            cases hl : fs.linkAt (cur ++ [seg]) with
            | some t =>
              simp only [hl] at h
              split at h
              · cases h
              · cases lf with
                | zero => simp at h
                | succ lf' =>
                  simp only at h
                  refine ih lf' _ ?_ _ _ ?_ h
                  · intro s hs2
                    rcases List.mem_append.1 hs2 with hs2 | hs2
                    · exact mem_split_noSlash hs2
                    · exact hs' s hs2
                  · split
                    · simp
                    · exact hcur
            | none =>
              simp only [hl] at h
              cases hk : fs.kind (cur ++ [seg]) with
              | none => simp [hk] at h
              | some k' =>
                simp only [hk] at h
                refine ih lf segs hs' _ _ ?_ h
                intro x hx
                rcases List.mem_append.1 hx with hx | hx
                · exact hcur x hx
                · simp at hx; subst hx
                  simp only [Bool.or_eq_true, decide_eq_true_eq, not_or] at hskip
                  exact ⟨hskip.1, hs x (by simp), hskip.2, hdd⟩

theorem realpath_clean_of_abs {fs : FS} {p c : Bytes} (hp : hasRoot p = true)
    (h : fs.realpath p = some c) : ∃ names, (∀ n ∈ names, RealName n) ∧ c = render ⟨true, names⟩ := by
  unfold FS.realpath FS.resolve at h
  have hne : p ≠ [] := by intro e; subst e; simp [hasRoot] at hp
  simp only [hne, if_false, hp, if_true] at h
  cases hw : walk fs (fs.fuel (split p)) maxLinks [] Kind.dir (split p) with
  | none => simp [hw] at h
  | some r =>
    simp [hw] at h
    exact ⟨r.1, walk_real fs _ _ _ (fun s hs => mem_split_noSlash hs) [] _ (by simp) r hw, h.symm⟩

theorem hasRoot_push {a : Bytes} (ha : hasRoot a = true) (b : Bytes) : hasRoot (push a b) = true := by
  unfold push
  split
  · assumption
  · have hne : a ≠ [] := by intro e; subst e; simp [hasRoot] at ha
    rw [if_neg hne]
    cases a with
    | nil => exact absurd rfl hne
    | cons x t => split <;> simpa [hasRoot] using ha

theorem absGuess_hasRoot {fs : FS} {s rel a : Bytes} (hs : hasRoot s = true)
    (h : absGuess fs (some s) rel = some a) : hasRoot a = true := by
  unfold absGuess at h
  split at h
  · rename_i hr; cases h; simpa [isRelative] using hr
  · simp only [guessAbsPath] at h
    split at h
    · cases h; exact hasRoot_push hs _
    · split at h
      · simp only [Option.map_eq_some_iff] at h
        obtain ⟨t, _, e⟩ := h
        subst e; exact hasRoot_push hs _
      · cases h; exact hasRoot_push hs _

/-- with an absolute source dir, the path after "canonicalize or normalize" is a clean absolute
path, hence already its own normal form -/
theorem absCanon_clean {fs : FS} {s rel ac : Bytes} (hs : hasRoot s = true)
    (h : absCanon fs (some s) rel = some ac) :
    ∃ np : NPath, (∀ n ∈ np.names, RealName n) ∧ ac = render np := by
  unfold absCanon at h
  cases hg : absGuess fs (some s) rel with
  | none => simp [hg] at h
  | some abs0 =>
    simp only [hg, Option.bind_some, canonOrNorm] at h
    have hroot := absGuess_hasRoot hs hg
    cases hr : fs.realpath abs0 with
    | some c =>
      simp only [hr] at h; cases h
      obtain ⟨names, hreal, e⟩ := realpath_clean_of_abs hroot hr
      exact ⟨⟨true, names⟩, hreal, e⟩
    | none =>
      simp only [hr] at h
      obtain ⟨np, e, hreal, _⟩ := normalizePath_shape h
      exact ⟨np, hreal, e⟩

/-! ### the final step: backslashes to '/', normalised again (fix 568afd2) -/

theorem finishPath_some_iff (x : Res (Option (Bytes × Bytes))) (a r : Bytes) :
    finishPath x = .ok (some (a, r)) ↔ ∃ r0, x = .ok (some (a, r0)) ∧ finalRel r0 = some r := by
  unfold finishPath
  cases x with
  | panic s => simp
  | ok o =>
    cases o with
    | none => simp
    | some ar =>
      obtain ⟨a', r0⟩ := ar
      simp only
      cases hf : finalRel r0 with
      | none => simp [hf]
      | some r' =>
        simp only [Res.ok.injEq, Option.some.injEq, Prod.mk.injEq]
        constructor
        · rintro ⟨rfl, rfl⟩; exact ⟨r0, ⟨rfl, rfl⟩, hf⟩
        · rintro ⟨r1, ⟨rfl, rfl⟩, h⟩; rw [hf] at h; exact ⟨rfl, Option.some.inj h⟩

theorem mem_of_mem_split {bs s : Bytes} (h : s ∈ split bs) : ∀ b ∈ s, b ∈ bs := by
  induction bs generalizing s with
  | nil => simp [split] at h; subst h; simp
  | cons c t ih =>
    simp only [split] at h
    split at h
    · rcases List.mem_cons.1 h with e | h'
      · subst e; simp
      · intro b hb; exact List.mem_cons_of_mem _ (ih h' b hb)
    · split at h
      · rename_i s0 ss heq
        rcases List.mem_cons.1 h with e | h'
        · subst e
          intro b hb
          rcases List.mem_cons.1 hb with e | hb'
          · exact e ▸ List.mem_cons_self
          · exact List.mem_cons_of_mem _ (ih (by rw [heq]; simp) b hb')
        · intro b hb
          exact List.mem_cons_of_mem _ (ih (by rw [heq]; exact List.mem_cons_of_mem _ h') b hb)
      · simp at h; subst h; simp

theorem normGo_pred (P : Bytes → Prop) {st : NPath} {cs : List Comp} {r : NPath}
    (hst : ∀ n ∈ st.names, P n) (hcs : ∀ n, Comp.normal n ∈ cs → P n)
    (h : normGo st cs = some r) : ∀ n ∈ r.names, P n := by
  induction cs generalizing st with
  | nil => simp [normGo] at h; subst h; exact hst
  | cons c cs ih =>
    have hcs' : ∀ n, Comp.normal n ∈ cs → P n := fun n hn => hcs n (List.mem_cons_of_mem _ hn)
    cases c with
    | root => simp only [normGo] at h; exact ih (by simp) hcs' h
    | cur => simp only [normGo] at h; exact ih hst hcs' h
    | parent =>
      simp only [normGo] at h
      split at h
      · simp at h
      · exact ih (fun n hn => hst n (List.dropLast_subset _ hn)) hcs' h
    | normal c =>
      simp only [normGo] at h
      refine ih ?_ hcs' h
      intro n hn
      simp only [List.mem_append, List.mem_singleton] at hn
      rcases hn with hn | hn
      · exact hst n hn
      · rw [hn]; exact hcs c (by simp)

theorem normal_mem_components_bytes {p n : Bytes} (h : Comp.normal n ∈ components p) :
    ∀ b ∈ n, b ∈ p := by
  unfold components at h
  simp only [List.mem_append, List.mem_filterMap] at h
  rcases h with h | ⟨s, hs, hc⟩
  · split at h
    · simp at h
    · split at h <;> simp at h
  · obtain ⟨e, _⟩ := segComp_normal hc (mem_split_noSlash hs)
    subst e; exact mem_of_mem_split hs

/-- normalising introduces no byte except '/' -/
theorem normalizePath_noBackslash {p r : Bytes} (hp : 92 ∉ p) (h : normalizePath p = some r) :
    92 ∉ r := by
  obtain ⟨np, e, _, hn⟩ := normalizePath_shape h
  rw [e]
  apply noBackslash_render
  unfold normalizeN normalizeC at hn
  exact normGo_pred (fun n => 92 ∉ n) (by simp)
    (fun n hn' hb => hp (normal_mem_components_bytes hn' 92 hb)) hn

theorem bsl_noBackslash (p : Bytes) : 92 ∉ bsl p := by
  unfold bsl
  intro h
  obtain ⟨b, _, hb⟩ := List.mem_map.1 h
  split at hb <;> simp_all

/-- the final path is a stack of real names, and contains no backslash -/
theorem finalRel_shape {x r : Bytes} (h : finalRel x = some r) :
    (∃ np : NPath, r = render np ∧ ∀ n ∈ np.names, RealName n) ∧ 92 ∉ r := by
  unfold finalRel at h
  obtain ⟨np, e, hreal, _⟩ := normalizePath_shape h
  exact ⟨⟨np, e, hreal⟩, normalizePath_noBackslash (bsl_noBackslash x) h⟩

/-- a clean path without backslash is its own final path -/
theorem finalRel_render {np : NPath} (hreal : ∀ n ∈ np.names, RealName n) (hbs : ∀ n ∈ np.names, 92 ∉ n) :
    finalRel (render np) = some (render np) := by
  unfold finalRel
  rw [bsl_id (noBackslash_render hbs), normalizePath_render hreal]

theorem resolveKey_some {cfg : Cfg} {fs : FS} {key a r : Bytes}
    (h : resolveKey cfg fs key = .ok (some (a, r))) :
    ∃ r0, getAbsPath fs cfg.sourceDir (keyPath cfg key) = .ok (some (a, r0)) ∧ finalRel r0 = some r := by
  unfold resolveKey at h
  split at h
  · cases h
  · exact (finishPath_some_iff _ _ _).1 h

theorem root_not_mem_tail (p : Bytes) : Comp.root ∉ (components p).tail := by
  have hf : Comp.root ∉ (split p).filterMap segComp := by
    intro hm
    obtain ⟨s, _, hs⟩ := List.mem_filterMap.1 hm
    exact segComp_ne_root s hs
  rw [components_eq]
  split
  · simpa using hf
  · split
    · simpa using hf
    · intro hm; exact hf (List.mem_of_mem_tail hm)

/-- what is left after stripping a prefix with at least one component contains no `RootDir` -/
theorem root_not_mem_stripped {p base r : Bytes} (h : stripPrefix p base = some r)
    (hb : components base ≠ []) : Comp.root ∉ components r := by
  have hc := stripPrefix_components h hb
  intro hm
  apply root_not_mem_tail p
  rw [hc]
  cases hcb : components base with
  | nil => exact absurd hcb hb
  | cons c cs => simp [hm]

theorem normGo_normals_append (st : NPath) (ns : List Bytes) (cs : List Comp) :
    normGo st (ns.map Comp.normal ++ cs) = normGo { st with names := st.names ++ ns } cs := by
  induction ns generalizing st with
  | nil => simp
  | cons a t ih => simp only [List.map_cons, List.cons_append, normGo]; rw [ih]; simp

/-- below a clean source directory: if the canonicalised path lies under it, the reported pair is
(source_dir/rel, rel) -/
theorem under_clean_source {sn : List Bytes} (hsn : ∀ n ∈ sn, RealName n) {ac t a r : Bytes}
    (hstrip : stripPrefix ac (render ⟨true, sn⟩) = some t)
    (ha : normalizePath ac = some a) (hr : normalizePath t = some r) :
    ∃ names, (∀ n ∈ names, RealName n) ∧ r = render ⟨false, names⟩ ∧
      a = render ⟨true, sn ++ names⟩ := by
  have hS := components_render (np := ⟨true, sn⟩) hsn
  have hSne : components (render ⟨true, sn⟩) ≠ [] := by rw [hS]; simp
  have hc := stripPrefix_components hstrip hSne
  have hnr := root_not_mem_stripped hstrip hSne
  obtain ⟨npr, er, hreal, hnN⟩ := normalizePath_shape hr
  obtain ⟨r0, names⟩ := npr
  unfold normalizeN normalizeC at hnN
  have hst := normGo_on_stack hnr hnN true sn
  have hr0 : r0 = false := by
    -- no RootDir is read, so the flag stays what it was
    have := normGo_on_stack hnr hnN false []
    simp only [List.nil_append] at this
    rw [hnN] at this
    simpa using this
  subst hr0
  refine ⟨names, hreal, er, ?_⟩
  unfold normalizePath normalizeN normalizeC at ha
  rw [hc, hS] at ha
  simp only [if_true, List.cons_append, List.nil_append, normGo, normGo_normals_append,
    List.append_nil] at ha hst
  rw [hst] at ha
  simpa using ha.symm


/-- the whole "relative under the source dir" argument: the pair after `get_abs_path` is
(source_dir/names, names); the reported relative path is the final form of `names`, and `names`
itself when no name on disk contains a backslash -/
theorem relative_under_source {cfg : Cfg} {fs : FS} {key : Bytes} {sn : List Bytes} {abs rel : Bytes}
    (hsn : ∀ n ∈ sn, RealName n) (hS : cfg.sourceDir = some (render ⟨true, sn⟩))
    (h : resolveKey cfg fs key = .ok (some (abs, rel)))
    (hunder : startsWith abs (render ⟨true, sn⟩) = true) :
    ∃ names, (∀ n ∈ names, RealName n) ∧ abs = render ⟨true, sn ++ names⟩ ∧
      stripPrefix abs (render ⟨true, sn⟩) = some (render ⟨false, names⟩) ∧
      finalRel (render ⟨false, names⟩) = some rel ∧
      ((∀ n ∈ names, 92 ∉ n) → rel = render ⟨false, names⟩) := by
  obtain ⟨r0, hg, hf⟩ := resolveKey_some h
  obtain ⟨ac, h1, h2, h3⟩ := (getAbsPath_some_iff _ _ _ _ _).1 hg
  rw [hS] at h1
  obtain ⟨np, hreal, e⟩ := absCanon_clean (hasRoot_render_true sn) h1
  -- the path is clean, so normalising it changes nothing: abs = ac
  have hid : abs = ac := by
    rw [e, normalizePath_render hreal] at h2
    rw [e]; exact (Option.some.inj h2).symm
  subst hid
  have hst : (stripPrefix abs (render ⟨true, sn⟩)).isSome = true := by
    rw [stripPrefix_isSome_iff]; exact hunder
  obtain ⟨t, ht⟩ := Option.isSome_iff_exists.1 hst
  simp only [hS, fixupRelPath, ht] at h3
  obtain ⟨names, hreal', e1, e2⟩ := under_clean_source hsn ht h2 h3
  subst e1
  refine ⟨names, hreal', e2, ?_, hf, ?_⟩
  · rw [e2, ← join_eq_render]
    exact stripPrefix_render hsn hreal'
  · intro hbs
    have := finalRel_render (np := ⟨false, names⟩) hreal' hbs
    rw [hf] at this
    exact Option.some.inj this

/-! ### uniqueness of reported paths (C12) -/

theorem keyPath_plain {cfg : Cfg} (hP : cfg.prefixDir = none) (hM : cfg.mapping = none) (key : Bytes) :
    keyPath cfg key = bsl key := by
  simp [keyPath, hP, hM, removePrefix, applyMapping]

/-- no source dir, prefix or mapping: a key that is already a clean path is reported as itself -/
theorem rewriteKey_rel_of_normal_key {cfg : Cfg} {fs : FS} (hS : cfg.sourceDir = none)
    (hP : cfg.prefixDir = none) (hM : cfg.mapping = none) {np : NPath}
    (hreal : ∀ n ∈ np.names, RealName n) (hbs : ∀ n ∈ np.names, 92 ∉ n) {cov : Cov} {r : Rec}
    (h : rewriteKey cfg fs (render np, cov) = .ok (some r)) : r.rel = render np := by
  obtain ⟨a, rl, hres, hsel⟩ := (rewriteKey_some_iff _ _ _ _).1 h
  obtain ⟨_, _, _, _, er⟩ := (selectRec_some_iff _ _ _ _ _ _).1 hsel
  obtain ⟨r0, hg, hf⟩ := resolveKey_some hres
  have hb : bsl (render np) = render np := bsl_id (noBackslash_render hbs)
  simp only [keyPath_plain hP hM, hb, hS] at hg
  obtain ⟨ac, _, _, hn⟩ := (getAbsPath_some_iff _ _ _ _ _).1 hg
  simp only [fixupRelPath] at hn
  rw [normalizePath_render hreal] at hn
  cases hn
  rw [finalRel_render hreal hbs] at hf
  cases hf
  rw [er]

theorem nodup_rel_of_injective (f : Bytes × Cov → Option Rec) (G : Bytes → Bytes)
    (m : List (Bytes × Cov)) (hm : NodupKeys m)
    (hrel : ∀ kc ∈ m, ∀ r, f kc = some r → r.rel = G kc.1)
    (hinj : ∀ k1 ∈ keys m, ∀ k2 ∈ keys m, G k1 = G k2 → k1 = k2) :
    ((m.filterMap f).map (·.rel)).Nodup := by
  induction m with
  | nil => simp
  | cons kc m ih =>
    have hm' : NodupKeys m := by unfold NodupKeys keys at *; simp at hm; exact hm.2
    have hnotin : kc.1 ∉ keys m := by unfold NodupKeys keys at *; simp at hm; simpa using hm.1
    have ih := ih hm' (fun x hx => hrel x (List.mem_cons_of_mem _ hx))
      (fun k1 h1 k2 h2 => hinj k1 (by unfold keys at *; simp [h1]) k2 (by unfold keys at *; simp [h2]))
    rw [List.filterMap_cons]
    cases hf : f kc with
    | none => exact ih
    | some r =>
      simp only [List.map_cons, List.nodup_cons]
      refine ⟨?_, ih⟩
      intro hmem
      obtain ⟨r', hr', e⟩ := List.mem_map.1 hmem
      obtain ⟨kc', hkc', hf'⟩ := List.mem_filterMap.1 hr'
      have e1 := hrel kc (by simp) r hf
      have e2 := hrel kc' (List.mem_cons_of_mem _ hkc') r' hf'
      have hk' : kc'.1 ∈ keys m := by unfold keys; exact List.mem_map.2 ⟨kc', hkc', rfl⟩
      have := hinj kc.1 (by unfold keys; simp) kc'.1 (by unfold keys at *; simp [hk'])
        (by rw [← e1, ← e2, e])
      exact hnotin (this ▸ hk')

theorem keys_addResults_subset (canon : Key → Key) (m : List (Key × Cov)) (batch : List (Key × Cov)) :
    ∀ k ∈ keys (addResults canon m batch), k ∈ keys m ∨ ∃ kc ∈ batch, canon kc.1 = k := by
  induction batch generalizing m with
  | nil => intro k hk; exact Or.inl hk
  | cons kc batch ih =>
    intro k hk
    have step : addResults canon m (kc :: batch) = addResults canon (addOne canon m kc) batch := rfl
    rw [step] at hk
    rcases ih _ k hk with h | ⟨kc', h1, h2⟩
    · unfold addOne at h
      rw [keys_set] at h
      split at h
      · exact Or.inl h
      · simp only [List.mem_append, List.mem_singleton] at h
        rcases h with h | h
        · exact Or.inl h
        · exact Or.inr ⟨kc, by simp, h.symm⟩
    · exact Or.inr ⟨kc', List.mem_cons_of_mem _ h1, h2⟩

theorem join_last_ne_slash {S : List Bytes} (hne : S ≠ []) (h : ∀ n ∈ S, RealName n) :
    ∃ init x, join S = init ++ [x] ∧ x ≠ 47 := by
  induction S with
  | nil => exact absurd rfl hne
  | cons s t ih =>
    cases t with
    | nil =>
      have hs := h s (by simp)
      refine ⟨s.dropLast, s.getLast hs.1, ?_, ?_⟩
      · simp only [join]; exact (List.dropLast_concat_getLast hs.1).symm
      · intro e; exact hs.2.1 (e ▸ List.getLast_mem hs.1)
    | cons t' ts =>
      obtain ⟨init, x, e, hx⟩ := ih (by simp) (fun n hn => h n (List.mem_cons_of_mem _ hn))
      refine ⟨s ++ 47 :: init, x, ?_, hx⟩
      simp only [join]; rw [e]; simp

theorem push_render {sn names : List Bytes} (hsn : ∀ n ∈ sn, RealName n)
    (hn : ∀ n ∈ names, RealName n) (hne : names ≠ []) :
    push (render ⟨true, sn⟩) (join names) = render ⟨true, sn ++ names⟩ := by
  have hrel : hasRoot (join names) = false := by
    cases names with
    | nil => exact absurd rfl hne
    | cons a t =>
      unfold hasRoot
      simpa using head_join_ne_slash (hn a (by simp)).1 (hn a (by simp)).2.1
  unfold push
  rw [hrel]
  simp only [Bool.false_eq_true, if_false]
  cases sn with
  | nil => simp [render, join]
  | cons s t =>
    obtain ⟨init, x, e, hx⟩ := join_last_ne_slash (S := s :: t) (by simp) hsn
    have hlast : (render ⟨true, s :: t⟩).getLast? = some x := by
      simp only [render, if_true]
      rw [e]
      show (47 :: init ++ [x]).getLast? = some x
      rw [List.getLast?_append]; simp
    have hne' : render ⟨true, s :: t⟩ ≠ [] := by simp [render]
    rw [if_neg hne', hlast, if_neg (by simpa using hx)]
    simp only [render, if_true]
    rw [join_append (A := s :: t) (by simp) hne]
    simp

/-- a key that `add_results` canonicalised to an existing file below a clean source dir is
reported relative to that source dir -/
theorem rewriteKey_canonical_key {cfg : Cfg} {fs : FS} {sn names : List Bytes} {cov : Cov} {r : Rec}
    (hS : cfg.sourceDir = some (render ⟨true, sn⟩)) (hM : cfg.mapping = none)
    (hP : cfg.prefixDir = none ∨ cfg.prefixDir = some (render ⟨true, sn⟩))
    (hsn : ∀ n ∈ sn, RealName n ∧ 92 ∉ n) (hn : ∀ n ∈ names, RealName n ∧ 92 ∉ n)
    (hne : names ≠ [])
    (hres : fs.resolve (render ⟨true, sn ++ names⟩) = some (sn ++ names, .file))
    (h : rewriteKey cfg fs (render ⟨true, sn ++ names⟩, cov) = .ok (some r)) :
    r.rel = join names := by
  have hsn1 : ∀ n ∈ sn, RealName n := fun n hn' => (hsn n hn').1
  have hn1 : ∀ n ∈ names, RealName n := fun n hn' => (hn n hn').1
  have hall2 : ∀ n ∈ sn ++ names, 92 ∉ n := by
    intro n h; rcases List.mem_append.1 h with h | h
    · exact (hsn n h).2
    · exact (hn n h).2
  obtain ⟨a, rl, hrs, hsel⟩ := (rewriteKey_some_iff _ _ _ _).1 h
  obtain ⟨_, _, _, _, er⟩ := (selectRec_some_iff _ _ _ _ _ _).1 hsel
  obtain ⟨r0, hg, hf⟩ := resolveKey_some hrs
  have hb : bsl (render ⟨true, sn ++ names⟩) = render ⟨true, sn ++ names⟩ :=
    bsl_id (noBackslash_render (np := ⟨true, sn ++ names⟩) hall2)
  have hstrip := stripPrefix_render hsn1 hn1
  have hreal : fs.realpath (render ⟨true, sn ++ names⟩) = some (render ⟨true, sn ++ names⟩) := by
    simp [FS.realpath, hres]
  have hfile : fs.isFile (render ⟨true, sn ++ names⟩) = true := by simp [FS.isFile, hres]
  -- the canonicalised absolute path is the key itself, whichever way the prefix is set
  have hac : absCanon fs cfg.sourceDir (keyPath cfg (render ⟨true, sn ++ names⟩))
      = some (render ⟨true, sn ++ names⟩) := by
    rcases hP with hP | hP
    · simp [keyPath, hP, hM, removePrefix, applyMapping, hb, absCanon, absGuess, isRelative,
        hasRoot_render_true, canonOrNorm, hreal]
    · have hrelj : isRelative (join names) = true := by
        cases names with
        | nil => exact absurd rfl hne
        | cons x t =>
          unfold isRelative hasRoot
          simpa using head_join_ne_slash (hn1 x (by simp)).1 (hn1 x (by simp)).2.1
      simp [keyPath, hP, hM, removePrefix, applyMapping, hb, hS, hstrip, absCanon, absGuess,
        hrelj, guessAbsPath, push_render hsn1 hn1 hne, hfile, canonOrNorm, hreal]
  obtain ⟨ac, hac', _, hnr⟩ := (getAbsPath_some_iff _ _ _ _ _).1 hg
  rw [hac] at hac'; cases hac'
  simp only [hS, fixupRelPath, hstrip] at hnr
  rw [join_eq_render, normalizePath_render (np := ⟨false, names⟩) hn1] at hnr
  cases hnr
  rw [finalRel_render (np := ⟨false, names⟩) hn1 fun n h => (hn n h).2] at hf
  cases hf
  rw [er, ← join_eq_render]


/-! ### globs -/

theorem nil_mem_tails (q : Bytes) : [] ∈ tails q := by
  induction q with
  | nil => simp [tails]
  | cons b q ih => simp [tails, ih]

theorem matchToks_star_nil (p : Bytes) : matchToks [Tok.star] p = true := by
  simp only [matchToks, List.any_eq_true]
  exact ⟨[], nil_mem_tails p, by simp⟩

theorem matchToks_lits (lits p : Bytes) : matchToks (lits.map Tok.lit) p = true ↔ p = lits := by
  induction lits generalizing p with
  | nil =>
    cases p with
    | nil => simp [matchToks]
    | cons b p => simp [matchToks]
  | cons c lits ih =>
    cases p with
    | nil => simp [matchToks]
    | cons b p =>
      simp only [List.map_cons, matchToks, Bool.and_eq_true, beq_iff_eq, ih, List.cons.injEq]


/-! ### totals -/

theorem shown_of_nodup (rep : List Rec) (h : (rep.map Rec.treePath).Nodup) : shown rep = rep := by
  induction rep with
  | nil => rfl
  | cons r rest ih =>
    simp only [List.map_cons, List.nodup_cons] at h
    have hno : rest.any (fun r' => decide (r'.treePath = r.treePath)) = false := by
      rw [Bool.eq_false_iff]
      intro hany
      obtain ⟨r', hr', e⟩ := List.any_eq_true.1 hany
      exact h.1 (List.mem_map.2 ⟨r', hr', by simpa using e⟩)
    simp only [shown, hno, Bool.false_eq_true, if_false]
    rw [ih h.2]

/-- the whole uniqueness argument for canonicalised keys -/
theorem unique_canonical (cfg : Cfg) (fs : FS) (sn : List Bytes) (batch : List (Bytes × Cov))
    (rep : List Rec)
    (hS : cfg.sourceDir = some (render ⟨true, sn⟩)) (hM : cfg.mapping = none)
    (hP : cfg.prefixDir = none ∨ cfg.prefixDir = some (render ⟨true, sn⟩))
    (hsn : ∀ n ∈ sn, RealName n ∧ 92 ∉ n)
    (hex : ∀ kc ∈ batch, ∃ names, names ≠ [] ∧ (∀ n ∈ names, RealName n ∧ 92 ∉ n) ∧
      fs.realpath (push (render ⟨true, sn⟩) kc.1) = some (render ⟨true, sn ++ names⟩) ∧
      fs.resolve (render ⟨true, sn ++ names⟩) = some (sn ++ names, .file))
    (h : addThenRewrite cfg fs batch = .ok rep) : (rep.map (·.rel)).Nodup := by
  unfold addThenRewrite at h
  obtain ⟨_, _, e⟩ := (rewritePaths_eq_ok _ _ _ _).1 h
  subst e
  have hsn1 : ∀ n ∈ sn, RealName n := fun n hn' => (hsn n hn').1
  let m := addResults (addCanon fs cfg.sourceDir) [] batch
  have hm : NodupKeys m := nodupKeys_addResults _ _ _ (by simp [NodupKeys, keys])
  -- every key of the map is the canonical path of an existing file below the source dir
  have hkeys : ∀ k ∈ keys m, ∃ names, names ≠ [] ∧ (∀ n ∈ names, RealName n ∧ 92 ∉ n) ∧
      k = render ⟨true, sn ++ names⟩ ∧
      fs.resolve (render ⟨true, sn ++ names⟩) = some (sn ++ names, .file) := by
    intro k hk
    rcases keys_addResults_subset _ _ _ k hk with h0 | ⟨kc, hkc, ek⟩
    · simp [keys] at h0
    · obtain ⟨names, hne, hn, hreal, hres⟩ := hex kc hkc
      refine ⟨names, hne, hn, ?_, hres⟩
      rw [← ek]; simp [addCanon, hS, hreal]
  let G : Bytes → Bytes := fun c => (stripPrefix c (render ⟨true, sn⟩)).getD []
  have hG : ∀ names, (∀ n ∈ names, RealName n ∧ 92 ∉ n) →
      G (render ⟨true, sn ++ names⟩) = join names := by
    intro names hn
    simp [G, stripPrefix_render hsn1 (fun n hn' => (hn n hn').1)]
  apply nodup_rel_of_injective (keyRec cfg fs) G m hm
  · intro kc hkc r hr
    have hk : kc.1 ∈ keys m := List.mem_map.2 ⟨kc, hkc, rfl⟩
    obtain ⟨names, hne, hn, ek, hres⟩ := hkeys _ hk
    rw [ek, hG names hn]
    have hr' := (keyRec_eq_some _ _ _ _).1 hr
    have : kc = (render ⟨true, sn ++ names⟩, kc.2) := by rw [← ek]
    rw [this] at hr'
    exact rewriteKey_canonical_key hS hM hP hsn hn hne hres hr'
  · intro k1 h1 k2 h2 e
    obtain ⟨n1, _, hn1, e1, _⟩ := hkeys _ h1
    obtain ⟨n2, _, hn2, e2, _⟩ := hkeys _ h2
    rw [e1, e2, hG n1 hn1, hG n2 hn2] at e
    have := join_injective (fun n h => (hn1 n h).1) (fun n h => (hn2 n h).1) e
    rw [e1, e2, this]

/-! ### a file below a clean source dir -/

/-- `get_abs_path(source_dir, rel)` for the source-relative path of an existing file: the pair is
(source_dir/rel, rel) -/
theorem getAbsPath_under_source {fs : FS} {sn names : List Bytes}
    (hsn : ∀ n ∈ sn, RealName n) (hn : ∀ n ∈ names, RealName n) (hne : names ≠ [])
    (hres : fs.resolve (render ⟨true, sn ++ names⟩) = some (sn ++ names, .file)) :
    getAbsPath fs (some (render ⟨true, sn⟩)) (join names) =
      .ok (some (render ⟨true, sn ++ names⟩, join names)) := by
  have hstrip := stripPrefix_render hsn hn
  have hreal : fs.realpath (render ⟨true, sn ++ names⟩) = some (render ⟨true, sn ++ names⟩) := by
    simp [FS.realpath, hres]
  have hfile : fs.isFile (render ⟨true, sn ++ names⟩) = true := by simp [FS.isFile, hres]
  have hrelj : isRelative (join names) = true := by
    cases names with
    | nil => exact absurd rfl hne
    | cons x t =>
      unfold isRelative hasRoot
      simpa using head_join_ne_slash (hn x (by simp)).1 (hn x (by simp)).2.1
  have hall : ∀ n ∈ sn ++ names, RealName n := by
    intro n h; rcases List.mem_append.1 h with h | h
    · exact hsn n h
    · exact hn n h
  rw [getAbsPath_some_iff]
  refine ⟨render ⟨true, sn ++ names⟩, ?_, normalizePath_render (np := ⟨true, sn ++ names⟩) hall, ?_⟩
  · simp [absCanon, absGuess, hrelj, guessAbsPath, push_render hsn hn hne, hfile, canonOrNorm, hreal]
  · simp only [fixupRelPath, hstrip]
    rw [join_eq_render, normalizePath_render (np := ⟨false, names⟩) hn]

end Grcov.Rewrite
