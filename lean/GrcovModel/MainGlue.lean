/-
MainGlue — model of the CLI glue of `src/main.rs`: what `main` does between `Opt::parse()` and the
calls into the library (`producer`, `consumer`, `rewrite_paths`, `output_*`).

Three layers, each following the code program point by program point:

* `parse : Raw → Except UsageErr Opts` — the part of clap's work that is decided by the attributes
  of `struct Opt` (main.rs 126-310): `OutputType::from_str` (37-55), `value_delimiter = ','` with
  repeated occurrences appended in order, the defaults (`lcov`, `markdown`, precision 2,
  `master`, `stderr`, `ERROR`), the value enums of `--filter` and `--log-level`, `required` paths,
  `requires_ifs` (coveralls / coveralls+ need `--token` or `--service-job-id`) and `requires`
  (`--service-job-id` needs `--service-name`). A usage error is exit status 2, nothing is run.
* `plan : Env → Opts → Except PanicSite Plan` — main.rs 315-533: which value reaches which
  parameter of which library function, the thread count and queue capacity, the per-consumer
  working directories, the path-mapping source, and the list of reports with destination, record
  order and writer parameters. A `PanicSite` is a run that ends without writing ANY report
  (`exitCode`: 101 for a panic of the main thread, 1 for `process::exit(1)` after a producer /
  worker panic).
* `resultsFor` / `sortRecs` — main.rs 537-547: the record list a writer receives.

The world that `main` looks at is the parameter `Env`: `num_cpus::get()`, `canonicalize_path` of
the source directory, `Path::is_dir` of the output path, readability of the `--path-mapping` file.
Also in the plan: the resolution of the external tools (`llvmToolPath`: `--llvm-path`, else the
rustc sysroot; the environment variable `LLVM_PATH` is NOT read; `GCOV`), the route of every
notes file (`--llvm` or an LLVM header ⇒ in-process reader, else the gcov tool) and the log target
with its fall-back. Outside the model: the tcmalloc feature, the text of log lines, what happens inside
the library calls (their own models: Pipeline, Producer, Consumer, Rewrite, Writers) — in
particular a run whose inputs contain no usable file ends in the producer (`No input files found`,
exit 1) whatever the plan says.
Core Lean only.
-/
import GrcovModel.Rewrite
import GrcovModel.FileFilter
import GrcovModel.Lcov
namespace Grcov.MainGlue
open Grcov Grcov.UPath

/-! ### output types (main.rs 23-79) -/

inductive OutputType where
  | ade | lcov | coveralls | coverallsPlus | files | covdir | html | cobertura | coberturaPretty
  | markdown
deriving DecidableEq, Repr

def OutputType.all : List OutputType :=
  [.ade, .lcov, .coveralls, .coverallsPlus, .files, .covdir, .html, .cobertura, .coberturaPretty,
   .markdown]

/-- the spelling accepted by `OutputType::from_str` (main.rs 41-52) -/
def OutputType.cliName : OutputType → Bytes
  | .ade => [97, 100, 101]                                                          -- "ade"
  | .lcov => [108, 99, 111, 118]                                                    -- "lcov"
  | .coveralls => [99, 111, 118, 101, 114, 97, 108, 108, 115]                       -- "coveralls"
  | .coverallsPlus => [99, 111, 118, 101, 114, 97, 108, 108, 115, 43]               -- "coveralls+"
  | .files => [102, 105, 108, 101, 115]                                             -- "files"
  | .covdir => [99, 111, 118, 100, 105, 114]                                        -- "covdir"
  | .html => [104, 116, 109, 108]                                                   -- "html"
  | .cobertura => [99, 111, 98, 101, 114, 116, 117, 114, 97]                        -- "cobertura"
  | .coberturaPretty =>
    [99, 111, 98, 101, 114, 116, 117, 114, 97, 45, 112, 114, 101, 116, 116, 121]    -- "cobertura-pretty"
  | .markdown => [109, 97, 114, 107, 100, 111, 119, 110]                            -- "markdown"

/-- `OutputType::from_str`: exact, case-sensitive match of the ten names -/
def OutputType.ofCliName (s : Bytes) : Option OutputType :=
  OutputType.all.find? fun t => t.cliName == s

/-- the file name a type gets inside an output DIRECTORY (main.rs 61-73) -/
def fixedName : OutputType → Bytes
  | .ade => [97, 99, 116, 105, 118, 101, 100, 97, 116, 97]                          -- "activedata"
  | .lcov => [108, 99, 111, 118]                                                    -- "lcov"
  | .coveralls => [99, 111, 118, 101, 114, 97, 108, 108, 115]                       -- "coveralls"
  | .coverallsPlus => [99, 111, 118, 101, 114, 97, 108, 108, 115, 43]               -- "coveralls+"
  | .files => [102, 105, 108, 101, 115]                                             -- "files"
  | .covdir => [99, 111, 118, 100, 105, 114]                                        -- "covdir"
  | .html => [104, 116, 109, 108]                                                   -- "html"
  | .cobertura => [99, 111, 98, 101, 114, 116, 117, 114, 97, 46, 120, 109, 108]     -- "cobertura.xml"
  | .coberturaPretty => [99, 111, 98, 101, 114, 116, 117, 114, 97, 46, 120, 109, 108] -- "cobertura.xml"
  | .markdown => [109, 97, 114, 107, 100, 111, 119, 110, 46, 109, 100]              -- "markdown.md"

/-- the two types that main.rs 69-71 sends to the same file -/
def isCoberturaKind : OutputType → Bool
  | .cobertura | .coberturaPretty => true
  | _ => false

/-! ### the parsed command line -/

inductive Filter where
  | covered | uncovered
deriving DecidableEq, Repr

inductive LogLevel where
  | off | error | warn | info | debug | trace
deriving DecidableEq, Repr

inductive HtmlRes where
  | bundled | cdn
deriving DecidableEq, Repr

/-- the options that clap hands over unchanged (no default, no value list, no enum) -/
structure Rest where
  paths : List Bytes := []
  binaryPath : Option Bytes := none
  llvmPath : Option Bytes := none
  outputPath : Option Bytes := none
  outputConfigFile : Option Bytes := none
  sourceDir : Option Bytes := none
  prefixDir : Option Bytes := none
  ignoreNotExisting : Bool := false
  ignoreDir : List Bytes := []
  keepDir : List Bytes := []
  pathMapping : Option Bytes := none
  branch : Bool := false
  llvm : Bool := false
  token : Option Bytes := none
  commitSha : Option Bytes := none
  serviceName : Option Bytes := none
  serviceNumber : Option Bytes := none
  serviceJobId : Option Bytes := none
  servicePullRequest : Option Bytes := none
  serviceFlagName : Option Bytes := none
  parallel : Bool := false
  threads : Option Nat := none
  guessDirectory : Bool := false
  exclLine : Option Bytes := none
  exclStart : Option Bytes := none
  exclStop : Option Bytes := none
  exclBrLine : Option Bytes := none
  exclBrStart : Option Bytes := none
  exclBrStop : Option Bytes := none
  noDemangle : Bool := false
  absLinkPrefix : Option Bytes := none
  noDate : Bool := false
  htmlResources : HtmlRes := .bundled
deriving DecidableEq, Repr

/-- the command line as typed: every occurrence of `-t` / `--sort-output-types` with its
comma-separated values, enum options by their spelling, defaulted options as `Option` -/
structure Raw where
  typeArgs : List (List Bytes) := []
  sortArgs : List (List Bytes) := []
  filter : Option Bytes := none
  precision : Option Nat := none
  vcsBranch : Option Bytes := none
  log : Option Bytes := none
  logLevel : Option Bytes := none
  rest : Rest := {}
deriving DecidableEq, Repr

/-- `struct Opt` after `Opt::parse()` -/
structure Opts where
  outputTypes : List OutputType
  sortOutputTypes : List OutputType
  filter : Option Filter
  precision : Nat
  vcsBranch : Bytes
  log : Bytes
  logLevel : LogLevel
  rest : Rest
deriving DecidableEq, Repr

inductive UsageErr where
  | noPaths                 -- `#[arg(required = true)] paths`
  | invalidOutputType       -- `OutputType::from_str` error, in `-t` or `--sort-output-types`
  | invalidFilter
  | invalidLogLevel
  | coverallsAuthMissing    -- requires_ifs ("coveralls" | "coveralls+", "coveralls-auth")
  | serviceNameMissing      -- `--service-job-id` requires `--service-name`
  | emptyPath               -- clap's `PathBuf` parser rejects an empty value (`-s ""`, `-o ""`, …)
deriving DecidableEq, Repr

def bCovered : Bytes := [99, 111, 118, 101, 114, 101, 100]
def bUncovered : Bytes := [117, 110, 99, 111, 118, 101, 114, 101, 100]
def bMaster : Bytes := [109, 97, 115, 116, 101, 114]
def bStderr : Bytes := [115, 116, 100, 101, 114, 114]
def bStdout : Bytes := [115, 116, 100, 111, 117, 116]

def parseFilter (s : Bytes) : Option Filter :=
  if s = bCovered then some .covered else if s = bUncovered then some .uncovered else none

/-- `LevelFilterArg::to_possible_value` (main.rs 114-123): upper-case names, case-sensitive -/
def parseLogLevel (s : Bytes) : Option LogLevel :=
  if s = [79, 70, 70] then some .off
  else if s = [69, 82, 82, 79, 82] then some .error
  else if s = [87, 65, 82, 78] then some .warn
  else if s = [73, 78, 70, 79] then some .info
  else if s = [68, 69, 66, 85, 71] then some .debug
  else if s = [84, 82, 65, 67, 69] then some .trace
  else none

/-- a multi-valued option: all occurrences appended in order; absent ⇒ the default -/
def parseTypeList (args : List (List Bytes)) (dflt : List OutputType) : Option (List OutputType) :=
  if args.flatten = [] then some dflt else args.flatten.mapM OutputType.ofCliName

/-- is `coveralls` or `coveralls+` among the values of `-t` -/
def wantsCoveralls (ts : List OutputType) : Bool :=
  ts.contains .coveralls || ts.contains .coverallsPlus

/-- the `PathBuf` options; clap's `PathBufValueParser` refuses the empty string, so the
`filter(|source_dir| source_dir != Path::new(""))` of main.rs 387 never sees one -/
def pathOptions (r : Raw) : List (Option Bytes) :=
  [r.rest.binaryPath, r.rest.llvmPath, r.rest.outputPath, r.rest.outputConfigFile, r.rest.sourceDir,
   r.rest.prefixDir, r.rest.pathMapping, r.log]

def parse (r : Raw) : Except UsageErr Opts :=
  match parseTypeList r.typeArgs [.lcov], parseTypeList r.sortArgs [.markdown] with
  | none, _ => .error .invalidOutputType
  | _, none => .error .invalidOutputType
  | some ts, some ss =>
    match (match r.filter with | none => some none | some f => (parseFilter f).map some) with
    | none => .error .invalidFilter
    | some flt =>
      match (match r.logLevel with | none => some LogLevel.error | some l => parseLogLevel l) with
      | none => .error .invalidLogLevel
      | some lvl =>
        if r.rest.paths = [] then .error .noPaths
        else if (pathOptions r).contains (some []) then .error .emptyPath
        else if r.rest.serviceJobId.isSome && r.rest.serviceName.isNone then .error .serviceNameMissing
        else if wantsCoveralls ts && r.rest.token.isNone && r.rest.serviceJobId.isNone then
          .error .coverallsAuthMissing
        else
          .ok { outputTypes := ts, sortOutputTypes := ss, filter := flt
                precision := r.precision.getD 2
                vcsBranch := r.vcsBranch.getD bMaster
                log := r.log.getD bStderr
                logLevel := lvl
                rest := r.rest }

/-! ### the world main looks at -/

structure Env where
  /-- `num_cpus::get()` -/
  cpus : Nat
  /-- `canonicalize_path` (an existing path ↦ its absolute canonical form) -/
  canon : Bytes → Option Bytes
  /-- `Path::is_dir` -/
  isDir : Bytes → Bool
  /-- the `--path-mapping` file can be opened and holds JSON -/
  mappingReadable : Bytes → Bool
  /-- `<sysroot>/lib/rustlib/<host>/bin` as answered by `$RUSTC` (default `rustc`)
  `--print sysroot` / `-vV` (llvm_tools.rs 183-200); `none`: rustc cannot be run -/
  rustlibBin : Option Bytes := none
  /-- the ENVIRONMENT variable `LLVM_PATH`. `LLVM_PATH` in the code is a `static OnceLock` that only
  `--llvm-path` sets (main.rs 315-317): the variable is never read. Kept here to state that. -/
  envLlvmPath : Option Bytes := none
  /-- `Path::exists` of a tool path -/
  toolExists : Bytes → Bool := fun _ => false
  /-- the environment variable `GCOV` (gcov.rs 27-33) -/
  envGcov : Option Bytes := none
  /-- `File::create` of the `--log` value succeeds -/
  logCreatable : Bytes → Bool := fun _ => true
  /-- the first eight bytes of every `.gcno` the producer will find, in any order -/
  gcnoHeaders : List Bytes := []

/-! ### the plan -/

/-- arguments 3-8 of `rewrite_paths` (main.rs 501-511) -/
structure RewriteArgs where
  sourceDir : Option Bytes
  prefixDir : Option Bytes
  ignoreNotExisting : Bool
  ignore : List Bytes
  keep : List Bytes
  filter : Option Bool
deriving DecidableEq, Repr

/-- the six arguments of `FileFilter::new`, by position (file_filter.rs 21-28) -/
structure FileFilterArgs where
  exclLine : Option Bytes
  exclStart : Option Bytes
  exclStop : Option Bytes
  exclBrLine : Option Bytes
  exclBrStart : Option Bytes
  exclBrStop : Option Bytes
deriving DecidableEq, Repr

/-- which of the six regexes are configured: the input of C16's model -/
def FileFilterArgs.toOpts (a : FileFilterArgs) : FileFilter.Opts :=
  ⟨a.exclLine.isSome, a.exclStart.isSome, a.exclStop.isSome, a.exclBrLine.isSome,
   a.exclBrStart.isSome, a.exclBrStop.isSome⟩

/-- main.rs 422-429: the mapping handed to `rewrite_paths` -/
inductive MappingSrc where
  | file (p : Bytes)     -- the `--path-mapping` file (what the producer found is dropped)
  | producer             -- `linked-files-map.json` of the inputs, if any
deriving DecidableEq, Repr

inductive LogTarget where
  | stdout | stderr | file (p : Bytes)
  /-- the file cannot be created: the terminal logger on stderr, and one error line saying so -/
  | stderrFallback (p : Bytes)
deriving DecidableEq, Repr

/-- the two LLVM tools of source-based coverage (llvm_tools.rs 208-236) -/
inductive LlvmTool where
  | profdata | cov
deriving DecidableEq, Repr

def LlvmTool.exe : LlvmTool → Bytes
  | .profdata => [108, 108, 118, 109, 45, 112, 114, 111, 102, 100, 97, 116, 97]     -- "llvm-profdata"
  | .cov => [108, 108, 118, 109, 45, 99, 111, 118]                                  -- "llvm-cov"

/-- outcome of `get_profdata_path` / `get_cov_path` -/
inductive ToolRes where
  | found (p : Bytes)
  | notFound (p : Bytes)     -- "We couldn't find llvm-…": the profile item is skipped with an error line
  | noRustc                  -- the sysroot cannot be asked for: same effect
deriving DecidableEq, Repr

/-- where a notes file goes: the in-process reader (LLVM format) or the external gcov tool -/
inductive GcnoRoute where
  | buffers | gcovTool
deriving DecidableEq, Repr

structure CoverallsArgs where
  token : Option Bytes
  serviceName : Option Bytes
  serviceNumber : Bytes
  serviceJobId : Option Bytes
  servicePullRequest : Bytes
  serviceFlagName : Option Bytes
  commitSha : Bytes
  withFunctionInfo : Bool
  vcsBranch : Bytes
  parallel : Bool
  demangle : Bool
deriving DecidableEq, Repr

structure HtmlArgs where
  threads : Nat
  branch : Bool
  configFile : Option Bytes
  precision : Nat
  absLinkPrefix : Option Bytes
  noDate : Bool
  resources : HtmlRes
deriving DecidableEq, Repr

/-- the library call of one report with every parameter except the record list and the
destination (main.rs 549-610) -/
inductive Writer where
  | ade (demangle : Bool)
  | lcov (demangle : Bool)
  | coveralls (a : CoverallsArgs)
  | files
  | covdir (precision : Nat)
  | html (a : HtmlArgs)
  | cobertura (sourceRoot : Option Bytes) (demangle : Bool) (pretty : Bool)
  | markdown (precision : Nat)
deriving DecidableEq, Repr

structure Output where
  ty : OutputType
  /-- `none` = standard output (for html: the writer's own default `./html`) -/
  dest : Option Bytes
  /-- the writer receives the list sorted by absolute path -/
  sorted : Bool
  writer : Writer
deriving DecidableEq, Repr

/-- arguments of `consumer` that main fixes (main.rs 436-457), one record per worker -/
structure ConsumerArgs where
  /-- working directory = `<tmp dir>/<index>` -/
  index : Nat
  sourceRoot : Option Bytes
  branch : Bool
  guessDirectory : Bool
  binaryPath : Option Bytes
deriving DecidableEq, Repr

structure Plan where
  log : LogTarget
  logLevel : LogLevel
  threads : Nat
  queueCap : Nat
  /-- 4th argument of `producer` (`ignore_orphan_gcno`): `filter_option == Some(true)` -/
  producerCoveredOnly : Bool
  llvm : Bool
  inputs : List Bytes
  mapping : MappingSrc
  consumers : List ConsumerArgs
  rewrite : RewriteArgs
  fileFilter : FileFilterArgs
  outputs : List Output
  /-- `--llvm-path`, stored in the static `LLVM_PATH` before anything else runs -/
  llvmPath : Option Bytes
  profdataTool : ToolRes
  covTool : ToolRes
  /-- the command `run_gcov` starts -/
  gcovExe : Bytes
  /-- one route per notes file of `Env.gcnoHeaders` -/
  gcnoRoutes : List GcnoRoute
deriving DecidableEq, Repr

inductive PanicSite where
  | sourceDirMissing     -- main.rs 388 `expect("Source directory does not exist.")`
  | noWorker             -- `--threads 0`: nobody receives, the producer's `send(..).unwrap()` fails
  | mappingFile          -- main.rs 423-424 `File::open(path).unwrap()` / `from_reader(..).unwrap()`
  | outputNotDir         -- main.rs 528
deriving DecidableEq, Repr

/-- process exit status: a panic of the main thread is 101, a dead producer is `process::exit(1)` -/
def PanicSite.exitCode : PanicSite → Nat
  | .sourceDirMissing => 101
  | .noWorker => 1
  | .mappingFile => 1
  | .outputNotDir => 101

/-- main.rs 319-322 -/
def filterOption : Option Filter → Option Bool
  | none => none
  | some .covered => some true
  | some .uncovered => some false

/-- main.rs 323-353: the literal values `stdout` / `stderr`, else a file; a file that cannot be
created falls back to stderr -/
def logTarget (env : Env) (p : Bytes) : LogTarget :=
  if p = bStdout then .stdout else if p = bStderr then .stderr
  else if env.logCreatable p then .file p else .stderrFallback p

/-- where log lines go -/
inductive Stream where
  | out | err | file (p : Bytes)
deriving DecidableEq, Repr

def LogTarget.stream : LogTarget → Stream
  | .stdout => .out
  | .stderr => .err
  | .file p => .file p
  | .stderrFallback _ => .err

/-- `get_profdata_path` / `get_cov_path` (llvm_tools.rs 208-236): the directory is `--llvm-path`
when given — and then ONLY that, there is no fall-back — else the rustc sysroot's tool directory -/
def llvmToolPath (env : Env) (o : Opts) (t : LlvmTool) : ToolRes :=
  match o.rest.llvmPath with
  | some d => let p := push d t.exe; if env.toolExists p then .found p else .notFound p
  | none =>
    match env.rustlibBin with
    | none => .noRustc
    | some d => let p := push d t.exe; if env.toolExists p then .found p else .notFound p

def bGcov : Bytes := [103, 99, 111, 118]

/-- gcov.rs 27-33 -/
def gcovExe (env : Env) : Bytes := env.envGcov.getD bGcov

/-- `Archive::is_gcno_llvm` (producer.rs 115-120): magic `oncg`, `*`, version `204` or `804` -/
def headerIsLlvm (h : Bytes) : Bool :=
  h.take 8 == [111, 110, 99, 103, 42, 50, 48, 52] || h.take 8 == [111, 110, 99, 103, 42, 56, 48, 52]

/-- producer.rs 69 and 319-396: `llvm = is_llvm || is_gcno_llvm(file)` -/
def gcnoRoute (isLlvm : Bool) (header : Bytes) : GcnoRoute :=
  if isLlvm || headerIsLlvm header then .buffers else .gcovTool

/-- main.rs 384: `opt.threads.unwrap_or_else(|| 1.max(num_cpus::get() - 1))` -/
def threadsOf (env : Env) (o : Opts) : Nat :=
  match o.rest.threads with
  | some n => n
  | none => max 1 (env.cpus - 1)

/-- main.rs 385-388 -/
def sourceRoot (env : Env) (o : Opts) : Except PanicSite (Option Bytes) :=
  match o.rest.sourceDir with
  | none => .ok none
  | some s =>
    if s = [] then .ok none
    else match env.canon s with
      | none => .error .sourceDirMissing
      | some c => .ok (some c)

/-- main.rs 390 -/
def prefixOf (o : Opts) (sr : Option Bytes) : Option Bytes :=
  match o.rest.prefixDir with
  | some p => some p
  | none => sr

/-- main.rs 405, 422-429 -/
def mappingSrc (env : Env) (o : Opts) : Except PanicSite MappingSrc :=
  match o.rest.pathMapping with
  | none => .ok .producer
  | some p => if env.mappingReadable p then .ok (.file p) else .error .mappingFile

/-- main.rs 520-533: the path handed to `to_file_name` -/
def outBase (env : Env) (o : Opts) : Except PanicSite (Option Bytes) :=
  match o.outputTypes with
  | [_] => .ok o.rest.outputPath
  | _ =>
    match o.rest.outputPath with
    | none => .ok none
    | some p => if env.isDir p then .ok (some p) else .error .outputNotDir

/-- `OutputType::to_file_name` (main.rs 58-78) -/
def toFileName (env : Env) (ty : OutputType) (outputPath : Option Bytes) : Option Bytes :=
  outputPath.map fun p => if env.isDir p then push p (fixedName ty) else p

def demangleOf (o : Opts) : Bool := !o.rest.noDemangle

def coverallsArgs (o : Opts) (plus : Bool) : CoverallsArgs :=
  { token := o.rest.token
    serviceName := o.rest.serviceName
    serviceNumber := o.rest.serviceNumber.getD []
    serviceJobId := o.rest.serviceJobId
    servicePullRequest := o.rest.servicePullRequest.getD []
    serviceFlagName := o.rest.serviceFlagName
    commitSha := o.rest.commitSha.getD []
    withFunctionInfo := plus
    vcsBranch := o.vcsBranch
    parallel := o.rest.parallel
    demangle := demangleOf o }

/-- main.rs 549-610: the `match output_type` -/
def writerOf (o : Opts) (sr : Option Bytes) (threads : Nat) : OutputType → Writer
  | .ade => .ade (demangleOf o)
  | .lcov => .lcov (demangleOf o)
  | .coveralls => .coveralls (coverallsArgs o false)
  | .coverallsPlus => .coveralls (coverallsArgs o true)
  | .files => .files
  | .covdir => .covdir o.precision
  | .html => .html { threads := threads, branch := o.rest.branch
                     configFile := o.rest.outputConfigFile, precision := o.precision
                     absLinkPrefix := o.rest.absLinkPrefix, noDate := o.rest.noDate
                     resources := o.rest.htmlResources }
  | .cobertura => .cobertura sr (demangleOf o) false
  | .coberturaPretty => .cobertura sr (demangleOf o) true
  | .markdown => .markdown o.precision

def outputOf (env : Env) (o : Opts) (sr : Option Bytes) (threads : Nat) (ob : Option Bytes)
    (ty : OutputType) : Output :=
  { ty := ty, dest := toFileName env ty ob, sorted := o.sortOutputTypes.contains ty
    writer := writerOf o sr threads ty }

def consumersOf (o : Opts) (sr : Option Bytes) (threads : Nat) : List ConsumerArgs :=
  (List.range threads).map fun i =>
    { index := i, sourceRoot := sr, branch := o.rest.branch
      guessDirectory := o.rest.guessDirectory, binaryPath := o.rest.binaryPath }

def mkPlan (env : Env) (o : Opts) (sr : Option Bytes) (ms : MappingSrc) (ob : Option Bytes) : Plan :=
  let threads := threadsOf env o
  { log := logTarget env o.log
    logLevel := o.logLevel
    threads := threads
    queueCap := 2 * threads
    producerCoveredOnly := filterOption o.filter == some true
    llvm := o.rest.llvm
    inputs := o.rest.paths
    mapping := ms
    consumers := consumersOf o sr threads
    rewrite := { sourceDir := sr, prefixDir := prefixOf o sr
                 ignoreNotExisting := o.rest.ignoreNotExisting
                 ignore := o.rest.ignoreDir, keep := o.rest.keepDir
                 filter := filterOption o.filter }
    fileFilter := ⟨o.rest.exclLine, o.rest.exclStart, o.rest.exclStop, o.rest.exclBrLine,
                   o.rest.exclBrStart, o.rest.exclBrStop⟩
    outputs := o.outputTypes.map (outputOf env o sr threads ob)
    llvmPath := o.rest.llvmPath
    profdataTool := llvmToolPath env o .profdata
    covTool := llvmToolPath env o .cov
    gcovExe := gcovExe env
    gcnoRoutes := env.gcnoHeaders.map (gcnoRoute o.rest.llvm) }

/-- what main does with the libraries, or the point at which the run ends without a report; the
checks come in the order of the code (source dir → pipeline → output path) -/
def plan (env : Env) (o : Opts) : Except PanicSite Plan :=
  match sourceRoot env o with
  | .error e => .error e
  | .ok sr =>
    if threadsOf env o = 0 then .error .noWorker
    else match mappingSrc env o with
      | .error e => .error e
      | .ok ms =>
        match outBase env o with
        | .error e => .error e
        | .ok ob => .ok (mkPlan env o sr ms ob)

/-- the whole front end: usage error (exit 2), panic (exit 101 / 1) or plan -/
inductive Outcome where
  | usage (e : UsageErr)
  | panic (s : PanicSite)
  | run (p : Plan)
deriving DecidableEq, Repr

def front (env : Env) (r : Raw) : Outcome :=
  match parse r with
  | .error e => .usage e
  | .ok o =>
    match plan env o with
    | .error s => .panic s
    | .ok p => .run p

def Outcome.exitCode : Outcome → Nat
  | .usage _ => 2
  | .panic s => s.exitCode
  | .run _ => 0

/-! ### record order (main.rs 537-547) -/

/-- `String`'s `Ord`: lexicographic on the UTF-8 bytes -/
def bytesLe : Bytes → Bytes → Bool
  | [], _ => true
  | _ :: _, [] => false
  | a :: as, b :: bs => if a < b then true else if b < a then false else bytesLe as bs

/-- `result.0.display().to_string()`: the absolute path, lossily decoded -/
def sortKey (r : Rewrite.Rec) : Bytes := Lcov.utf8Lossy r.abs

/-- insert before the first element whose key is not smaller -/
def insertRec (r : Rewrite.Rec) : List Rewrite.Rec → List Rewrite.Rec
  | [] => [r]
  | x :: xs => if bytesLe (sortKey r) (sortKey x) then r :: x :: xs else x :: insertRec r xs

/-- `results.sort_by_key(..)`: a STABLE sort (records with equal keys keep their order), written
as an insertion sort so that it reduces in the kernel -/
def sortRecs (l : List Rewrite.Rec) : List Rewrite.Rec := l.foldr insertRec []

/-- the list one writer receives: `sorted_iterator` or `iterator` -/
def resultsFor (out : Output) (l : List Rewrite.Rec) : List Rewrite.Rec :=
  if out.sorted then sortRecs l else l

/-! ### the configuration of the `Rewrite` model that a plan stands for -/

/-- `Rewrite.Cfg` of a plan, given the content of the mapping (a JSON object of strings) and the
compiled globs (`none`: a glob outside the model's subset) -/
def Plan.rewriteCfg (p : Plan) (mapping : Option (List (Bytes × Bytes))) : Option Rewrite.Cfg :=
  match Glob.compile p.rewrite.ignore, Glob.compile p.rewrite.keep with
  | some ig, some kp =>
    some { sourceDir := p.rewrite.sourceDir, prefixDir := p.rewrite.prefixDir, mapping := mapping
           ignore := ig, keep := kp, ignoreNotExisting := p.rewrite.ignoreNotExisting
           filter := p.rewrite.filter }
  | _, _ => none

end Grcov.MainGlue
