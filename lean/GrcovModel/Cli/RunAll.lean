/-
RunAll — one whole grcov RUN as a function from the bytes of the inputs to the bytes of the report,
beyond the lcov→lcov case of `GrcovModel/Cli.lean`:

  grcov <inputs…> -t <type> [--sort-output-types …] [--branch] [-s …] [-p …] [--ignore …]
        [--keep-only …] [--filter …] [--ignore-not-existing] [--excl-line R] [--excl-start R]
        [--excl-stop R] [--excl-br-line R] [--excl-br-start R] [--excl-br-stop R] --no-demangle

It is a COMPOSITION of the component models, in the order of `main` (src/main.rs 355-610) and
`consumer` (src/lib.rs 199-392); nothing is re-implemented here:

* an input is an lcov tracefile (`Lcov.parse`, with the branch flag) or a JaCoCo XML report
  (`Jacoco.Bytes.parseBytes`: quick-xml's reader + `parse_jacoco_xml_report`; the branch flag is
  not looked at, known finding C06-jacoco-branches-without-branch-flag). An input its parser
  rejects is logged and skipped (`try_parse!` … `continue`): it contributes nothing. A parser that
  CRASHES (the allocation sites of C14) kills its worker: the process ends with status 1 and no
  report (`crash`).
* the records of every input are filed by `add_results` under the canonicalised key
  (`Merge.addResults (Rewrite.addCanon fs source_dir)`), input after input;
* `rewrite_paths` (`Rewrite.resolveKey`, `Rewrite.selectRec`) with the exclusion markers wired in
  at path_rewriting.rs 373-386: after the `--ignore` / `--keep-only` / `--ignore-not-existing`
  tests and BEFORE the `--filter covered|uncovered` test, the filter list of the file
  (`FileFilter.createSrc` on the text `read_to_string(abs_path)` returns) is applied to the record
  (`FileFilter.applyFilters`). main.rs 355-362 hands the six regex options to `FileFilter::new` by
  position: `MainGlue.FileFilterArgs` ↦ `FileFilter.Opts` (`toOpts`) and `rxOf`;
* main.rs 537-547: the writer receives the list as `rewrite_paths` returned it (the iteration
  order of the result map, a hash map: the parameter `HashOrder.recs`), or – iff the type is listed
  in `--sort-output-types` (default: `markdown` only, so NONE of the seven types below is sorted
  unless asked for) – that list stably sorted by the displayed absolute path (`MainGlue.sortRecs`);
* the writer: `output_lcov` (`Lcov.printLcov`), `output_files` (`Docs.filesBytes`), `output_covdir`
  (`Docs.covdirTree` + `JsonBytes.covdirJson`), `output_coveralls` with and without function
  information (`Docs.coverallsDoc` + `JsonBytes.coverallsJson`), `output_cobertura`
  (`CobAde.cobertura` + `CobBytes.reportBytes`), `output_activedata_etl` (`CobAde.ade` +
  `JsonBytes.adeBytes`), each walking the lines and branches of a record in ascending line order
  (`BTreeMap`s) and its functions in NAME order (`output.rs sorted_functions`, fix 73c9152: byte-wise
  `String` order of the table names): `Cli.sortCov`. Nothing about the order of the function records
  is a parameter any more.

Parameters of the model, as in the component models: the file system (`Rewrite.FS`) and the text
of the source files (`World.text`: `none` = `read_to_string` fails – missing, a directory, not
UTF-8); `Regex::is_match` (`Opts.isMatch`: regex text ↦ line ↦ Bool); the iteration order of the
result map (`HashOrder.recs`: the order of the FILE records of an unsorted type); everything the writers print that is not coverage (`Printed`: floats, the
cobertura timestamp, the coveralls `git` object and source digests – C13's and C03's subjects);
the order in which the inputs are merged (here: as listed; `Props/C02Run.lean` shows what it can
change).

Fifth session (package X1) – every input kind that needs no external tool, every report type:
* INPUTS. `Input.gcno stem gcno gcdas`: an LLVM-mode notes file with the run data files of the same
  stem (`--llvm`, or a notes file whose header says `*204` / `*804`: producer.rs 96-106, 381-398 –
  `ItemType::Buffers`), computed by `Gcno::compute` (`Gcno.computeBytes`, the byte-level model of
  C08/C14/C15). `Err` ⇒ logged, the item contributes nothing (lib.rs 318-322); the debug-build counter
  overflow (known finding C14-gcno-counter-overflow) kills the worker (`crash`).
  gcov JSON (`.gcov.json.gz`) is NOT an input kind of the binary: `producer` only classifies
  `gcno gcda profdata profraw info xml` and `linked-files-map.json` (producer.rs 94-140); the JSON
  reader `parse_gcov_gz` is only reached behind the external `gcov` tool (lib.rs 240-292, `ItemType::
  Path`), which C20's Consumer model covers with a scripted gcov. It stays outside `run`.
* OUTPUTS. `OutType.markdown` (`output_markdown`: `MdBytes.markdownBytes`; the one type sorted by
  default) is a stream type like the seven; `html` is a DIRECTORY: `runHtml` = every page and index
  (`HtmlBytes.site`: one job per record in list order, the source bytes `World.raw`), the five badges
  and `coverage.json` (`MdBytes.badgeBytes`, `coverageJsonBytes` on `global.stats`); the date is a
  parameter (`Opts.htmlDate`, `none` = `--no-date`), limits are the defaults (no
  `--output-config-file`). With a single `-t html -o <dir>` the directory is `<dir>` itself when it does
  not exist yet and `<dir>/html` when `<dir>` exists (`to_file_name`, main.rs 58-78): `runHtml` lists the
  files relative to that directory. The bundled style sheet (`--html-resources bundled`) is a constant of the
  crate: named (`bundledNames`), not modelled. Several `-t` with `-o <existing directory>`
  (main.rs 519-547): `runMulti` = per type, in command-line order, the file `to_file_name` names
  (`MainGlue.fixedName`) or the html directory `html`; `rewrite_paths` runs once, each type is sorted
  or not on its own.
Not in this model: profraw/profdata inputs and GCC-mode gcno (external tools: C20), the Java/Kotlin
partial-path lookup (`Rewrite/Partial.lean`; `C11_partial_conservative` says when it is the
identity: every key exists below the source directory), path mapping files found in the inputs,
demangling (`--no-demangle`), `--guess-directory-when-missing`, `cobertura-pretty`, the html
configuration file, what `output_html` does when a page file and a directory collide on disk
(`Writers/HtmlDisk.lean`, C03's `C03_htmldisk_*`: under its guards the flat map of `site` IS the disk).
Core Lean only: linked into the native driver `gmodel`.
-/
import GrcovModel.Cli
import GrcovModel.FileFilter
import GrcovModel.MainGlue
import GrcovModel.Jacoco.Bytes
import GrcovModel.Writers.JsonBytes
import GrcovModel.Writers.HtmlBytes
import GrcovModel.Writers.MdBytes
import GrcovModel.Gcno.Bin
namespace Grcov.Cli.RunAll
open Grcov AList Grcov.Lcov Grcov.Rewrite Grcov.FileFilter
open Grcov.Writers Grcov.Writers.Docs Grcov.Writers.JsonBytes

/-! ### inputs -/

/-- one work item as the producer hands it to a consumer: `ItemFormat::Info` or
`ItemFormat::JacocoXml` with the bytes of the file, or `ItemFormat::Gcno` with `ItemType::Buffers`
(LLVM mode): the stem, the bytes of the notes file and of every run data file of that stem -/
inductive Input where
  | lcov (bytes : Bytes)
  | jacoco (bytes : Bytes)
  | gcno (stem : Bytes) (gcno : Bytes) (gcdas : List Bytes)
deriving DecidableEq, Repr

/-- the records an input contributes; a rejected input contributes nothing -/
def contents (branch : Bool) : Input → List (Bytes × Cov)
  | .lcov b => Cli.parseInput branch b
  | .jacoco b =>
    match Jacoco.Bytes.parseBytes b with
    | .ok rs => rs
    | _ => []
  | .gcno _ g ds =>
    -- lib.rs 306-323: `Gcno::compute(&stem, gcno_buf, gcda_buf, branch_enabled)`; `Err` ⇒ `Vec::new()`
    match Gcno.computeBytes g ds branch with
    | .ok rs => rs
    | _ => []

/-- the parser does not return: the worker thread dies, `main` exits with status 1 -/
def crash (branch : Bool) : Input → Option String
  | .lcov b =>
    match Lcov.parse branch b with
    | .panic s => some s
    | _ => none
  | .jacoco b =>
    match Jacoco.Bytes.parseBytes b with
    | .alloc => some "jacoco: capacity overflow"
    | .diverge => some "jacoco: diverge"
    | _ => none
  | .gcno _ g ds =>
    match Gcno.computeBytes g ds branch with
    | .crash _ => some "gcno: counter overflow"
    | .diverge => some "gcno: diverge"
    | _ => none

/-- the parser returns `Err`: `try_parse!` logs and skips the input -/
def rejected (branch : Bool) : Input → Prop
  | .lcov b => ∃ k, Lcov.parse branch b = .err k
  | .jacoco b => ∃ k, Jacoco.Bytes.parseBytes b = .err k
  | .gcno _ g ds => ∃ k, Gcno.computeBytes g ds branch = .err k

/-! ### the world and the options -/

structure World where
  fs : FS
  /-- `std::fs::read_to_string` of an absolute path as `rewrite_paths` computed it -/
  text : Bytes → Option (List Nat)
  /-- `File::open` + `read_to_end` of an absolute path (html.rs 406-453: the source of a page):
  the bytes, whatever they are; `none` = the file cannot be opened -/
  raw : Bytes → Option (List Nat) := fun _ => none

/-- the report types of this model that are ONE byte stream (a file or standard output): the seven
of the fourth session and markdown; html is a directory (`runHtml`) -/
inductive OutType where
  | lcov | covdir | coveralls | coverallsPlus | cobertura | ade | files | markdown
deriving DecidableEq, Repr

def OutType.toMain : OutType → MainGlue.OutputType
  | .lcov => .lcov
  | .covdir => .covdir
  | .coveralls => .coveralls
  | .coverallsPlus => .coverallsPlus
  | .cobertura => .cobertura
  | .ade => .ade
  | .files => .files
  | .markdown => .markdown

/-- the iteration order of the result map, an `FxHashMap` (`rewrite_paths` returns its entries in
that order): a rearrangement of what it is given (`HashOrder.OK` in Lemmas/CliRunAll.lean). The
function table of a record is a hash map too, but every writer walks it through
`sorted_functions` (name order), so its iteration order is not a parameter. -/
structure HashOrder where
  recs : List Rec → List Rec := id

/-- what the writers print besides coverage -/
structure Printed where
  /-- covdir `coveragePercent` of the node at a path -/
  cdFill : JsonBytes.Fill := fun _ => [48, 46, 48]
  /-- coveralls: everything outside `source_files` -/
  cvTop : CvTop := ⟨.null, false, none, none, [], none, [], none⟩
  /-- coveralls `source_digest`, one per file in document order -/
  cvDigests : List Bytes := []
  /-- ActiveData `percentage_covered`, in document order -/
  adePcts : List Json := []
  /-- cobertura float attributes and timestamp -/
  cobFill : CobBytes.Fill := fun _ _ => [48]

structure Opts where
  cfg : Cfg := {}
  branch : Bool := false
  /-- the six `--excl-*` regex texts, as main.rs 355-362 passes them to `FileFilter::new` -/
  excl : MainGlue.FileFilterArgs := ⟨none, none, none, none, none, none⟩
  /-- `Regex::new(text).is_match(line)` -/
  isMatch : Bytes → List Nat → Bool := fun _ _ => false
  out : OutType := .lcov
  /-- `--sort-output-types` -/
  sortTypes : List MainGlue.OutputType := [.markdown]
  hash : HashOrder := {}
  pr : Printed := {}
  /-- `--precision` as `output_markdown` and `output_html` receive it (covdir's figures are `pr.cdFill`) -/
  precision : Nat := 2
  /-- html: `conf.date` as printed (`%Y-%m-%d %H:%M`); `none` = `--no-date` -/
  htmlDate : Option Bytes := none
  /-- html: `--html-resources bundled` -/
  htmlBundled : Bool := false
  /-- html: `--abs-link-prefix` -/
  absPrefix : Option Bytes := none

/-! ### exclusion markers inside `rewrite_paths` -/

/-- the six `Option<Regex>` fields of `FileFilter` as predicates on a line: option `--excl-line`
reaches field `excl_line`, … (main.rs 355-362, file_filter.rs 21-37: same order) -/
def rxOf (isMatch : Bytes → List Nat → Bool) (a : MainGlue.FileFilterArgs) : Rx :=
  ⟨isMatch (a.exclLine.getD []), isMatch (a.exclStart.getD []), isMatch (a.exclStop.getD []),
   isMatch (a.exclBrLine.getD []), isMatch (a.exclBrStart.getD []), isMatch (a.exclBrStop.getD [])⟩

/-- `file_filter.create(&abs_path)` -/
def filterList (o : Opts) (w : World) (abs : Bytes) : List FT :=
  createSrc o.excl.toOpts (rxOf o.isMatch o.excl) (w.text abs)

/-- path_rewriting.rs 365-403 for one resolved key, in the order of the code: ignore, keep-only,
ignore-not-existing, exclusion markers, covered filter -/
def selectRecF (cfg : Cfg) (fs : FS) (flt : Bytes → List FT) (abs rel : Bytes) (cov : Cov) :
    Option Rec :=
  if Glob.setMatch cfg.ignore rel then none
  else if !cfg.keep.isEmpty && !Glob.setMatch cfg.keep rel then none
  else if cfg.ignoreNotExisting && !fs.exists abs then none
  else
    let cov' := applyFilters (flt abs) cov
    if !filterOk cfg.filter cov' then none else some ⟨abs, rel, cov'⟩

/-- the `filter_map` closure (path_rewriting.rs 335-403) for one map entry -/
def rewriteKeyF (cfg : Cfg) (fs : FS) (flt : Bytes → List FT) (kc : Bytes × Cov) : Res (Option Rec) :=
  match resolveKey cfg fs kc.1 with
  | .panic s => .panic s
  | .ok none => .ok none
  | .ok (some (abs, rel)) => .ok (selectRecF cfg fs flt abs rel kc.2)

/-- `rewrite_paths` with a `FileFilter` -/
def rewritePathsF (cfg : Cfg) (fs : FS) (flt : Bytes → List FT) (m : List (Bytes × Cov)) :
    Res (List Rec) :=
  match cfg.sourceDir with
  | some s =>
    if UPath.isAbsolute s then collect (m.map (rewriteKeyF cfg fs flt)) else .panic "assert_absolute"
  | none => collect (m.map (rewriteKeyF cfg fs flt))

/-! ### one run -/

/-- the result map after all inputs: `add_results` per input, in the order listed -/
def resultMap (o : Opts) (w : World) (inputs : List Input) : List (Key × Cov) :=
  inputs.foldl (fun m i => addResults (addCanon w.fs o.cfg.sourceDir) m (contents o.branch i)) []

/-- what `rewrite_paths` returns, in the model's map order -/
def records (o : Opts) (w : World) (inputs : List Input) : Res (List Rec) :=
  rewritePathsF o.cfg w.fs (filterList o w) (resultMap o w inputs)

/-- main.rs 537: `opt.sort_output_types.contains(output_type)` -/
def sortedFor (o : Opts) : Bool := o.sortTypes.contains o.out.toMain

/-- main.rs 537-547: the list the writer receives -/
def ordered (o : Opts) (rs : List Rec) : List Rec :=
  if sortedFor o then MainGlue.sortRecs (o.hash.recs rs) else o.hash.recs rs

/-- a record as a writer walks it: lines and branch lines ascending (`BTreeMap`s), functions in name
order (`sorted_functions`) -/
def present (_o : Opts) (r : Rec) : Rec := { r with cov := sortCov r.cov }

def toRes (r : Rec) : Docs.Res := ⟨r.abs, r.rel, r.cov⟩
def relCov (r : Rec) : Bytes × Cov := (r.rel, r.cov)

/-- main.rs 549-610: the writer of the type on the list it is given (overflow checks on) -/
def render (o : Opts) (rs : List Rec) : Res Bytes :=
  match o.out with
  | .lcov => .ok (printLcov (rs.map relCov))
  | .files => .ok (filesBytes (rs.map toRes))
  | .covdir =>
    match covdirTree true (rs.map toRes) with
    | none => .panic "output_covdir"
    | some t => .ok (jsonSerialize (covdirJson o.pr.cdFill t))
  | .coveralls =>
    match coverallsDoc true false (rs.map toRes) with
    | none => .panic "output_coveralls: last + 1"
    | some d => .ok (jsonSerialize (coverallsJson o.pr.cvTop o.pr.cvDigests d))
  | .coverallsPlus =>
    match coverallsDoc true true (rs.map toRes) with
    | none => .panic "output_coveralls: last + 1"
    | some d => .ok (jsonSerialize (coverallsJson o.pr.cvTop o.pr.cvDigests d))
  | .cobertura =>
    match CobAde.cobertura o.cfg.sourceDir (rs.map relCov) with
    | .panic s => .panic s
    | .ok d => .ok (CobBytes.reportBytes o.pr.cobFill d)
  | .ade =>
    match CobAde.ade (rs.map relCov) with
    | .panic s => .panic s
    | .ok recs => .ok (adeBytes o.pr.adePcts recs)
  | .markdown => .ok (MdBytes.markdownBytes o.precision (rs.map toRes))

/-- the report of a record list: order, present, write -/
def report (o : Opts) (rs : List Rec) : Res Bytes := render o ((ordered o rs).map (present o))

/-- **One run**: input bytes to report bytes. `panic`: a parser crashed (exit status 1), or one
of the panic sites of `rewrite_paths` / of the writer (exit status 101); no report in either case. -/
def run (o : Opts) (w : World) (inputs : List Input) : Res Bytes :=
  match inputs.findSome? (crash o.branch) with
  | some s => .panic s
  | none =>
    match records o w inputs with
    | .panic s => .panic s
    | .ok rs => report o rs

/-- the same options without any `--excl-*` option -/
def Opts.noMarkers (o : Opts) : Opts := { o with excl := ⟨none, none, none, none, none, none⟩ }

/-! ### html: a directory of files (`output_html`, src/output.rs 532-629)

The record list goes to the consumer threads of `output_html` one job per record (here: in list
order, one thread; `C03_htmldisk_pages_any_order` and the commutativity of `HtmlStats::add` are why
the thread count does not matter when no two records share a destination). A job whose rel path is
not relative or whose source cannot be opened writes nothing and is not counted (html.rs 403-414).
Then `gen_index` (global index, directory indexes), the five badges, `coverage.json`, and – only with
`--html-resources bundled` – the style sheet. -/

/-- a file below the output directory: component names, content -/
abbrev OutFile := List Name × Bytes

def htmlConf (o : Opts) : HtmlBytes.Conf :=
  { branch := o.branch, precision := o.precision, date := o.htmlDate, bundled := o.htmlBundled }

def htmlOpts (o : Opts) : HtmlBytes.Opts := ⟨htmlConf o, o.absPrefix⟩

/-- one job per record: the record and the bytes of its source file -/
def htmlJobs (w : World) (rs : List Rec) : List (Docs.Res × Option Bytes) :=
  rs.map fun r => (toRes r, w.raw r.abs)

def badgesDir : Name := [98, 97, 100, 103, 101, 115]                                   -- "badges"
def coverageJsonName : Name := [99, 111, 118, 101, 114, 97, 103, 101, 46, 106, 115, 111, 110] -- "coverage.json"

/-- `BadgeStyle::path` (html.rs 500-509) -/
def badgeFile : MdBytes.BadgeStyle → Name
  | .flat => [102, 108, 97, 116, 46, 115, 118, 103]                                     -- "flat.svg"
  | .flatSquare => [102, 108, 97, 116, 95, 115, 113, 117, 97, 114, 101, 46, 115, 118, 103]
  | .forTheBadge => [102, 111, 114, 95, 116, 104, 101, 95, 98, 97, 100, 103, 101, 46, 115, 118, 103]
  | .plastic => [112, 108, 97, 115, 116, 105, 99, 46, 115, 118, 103]
  | .social => [115, 111, 99, 105, 97, 108, 46, 115, 118, 103]

/-- the files `gen_bundled_resources` adds with `--html-resources bundled` (a constant of the crate:
named, not modelled) -/
def bundledNames : List (List Name) := [[[98, 117, 108, 109, 97, 46, 109, 105, 110, 46, 99, 115, 115]]] -- "bulma.min.css"

/-- `gen_badge` × 5 and `gen_coverage_json` on `global.stats` (default limits 90 / 75) -/
def htmlExtras (o : Opts) (covered total : Nat) : List OutFile :=
  MdBytes.BadgeStyle.all.map (fun s =>
    ([badgesDir, badgeFile s], MdBytes.badgeBytes s covered total MdBytes.defaultHi MdBytes.defaultMed)) ++
  [([coverageJsonName], MdBytes.coverageJsonBytes o.precision covered total MdBytes.defaultHi MdBytes.defaultMed)]

/-- `output_html` on the list it is given: every `.html` file (a later write to the same path
replaces an earlier one), then badges and `coverage.json`. `panic`: a consumer thread panics
(`rel.parent()` / `file_name()` of a rel path without a file name): `process::exit(1)`. -/
def renderHtml (o : Opts) (w : World) (rs : List Rec) : Res (List OutFile) :=
  match HtmlBytes.runJobs (htmlOpts o) (htmlJobs w rs) ⟨[], .zero, o.absPrefix⟩,
        HtmlBytes.site (htmlOpts o) (htmlJobs w rs) with
  | some (g, _), some pages => .ok (pages ++ htmlExtras o g.stats.coveredLines g.stats.totalLines)
  | _, _ => .panic "output_html: consumer thread"

/-- main.rs 537 for html -/
def sortedHtml (o : Opts) : Bool := o.sortTypes.contains .html

def orderedHtml (o : Opts) (rs : List Rec) : List Rec :=
  if sortedHtml o then MainGlue.sortRecs (o.hash.recs rs) else o.hash.recs rs

def reportHtml (o : Opts) (w : World) (rs : List Rec) : Res (List OutFile) :=
  renderHtml o w ((orderedHtml o rs).map (present o))

/-- **One run with `-t html`**: input bytes to the files below the output directory -/
def runHtml (o : Opts) (w : World) (inputs : List Input) : Res (List OutFile) :=
  match inputs.findSome? (crash o.branch) with
  | some s => .panic s
  | none =>
    match records o w inputs with
    | .panic s => .panic s
    | .ok rs => reportHtml o w rs

/-! ### several `-t` with `-o <existing directory>` (main.rs 519-610) -/

/-- a report type of the command line -/
inductive OutKind where
  | stream (t : OutType)
  | html
deriving DecidableEq, Repr

def OutKind.toMain : OutKind → MainGlue.OutputType
  | .stream t => t.toMain
  | .html => .html

/-- what one `-t` leaves in the output directory: a file named by `to_file_name`
(`MainGlue.fixedName`), or the directory `html` -/
inductive Artifact where
  | file (name : Bytes) (bytes : Bytes)
  | dir (name : Bytes) (files : List OutFile)
deriving DecidableEq, Repr

/-- the writers of the listed types, in order, on ONE record list (`rewrite_paths` runs once; each
type gets the sorted or the unsorted list: main.rs 535-547); the first panic ends the process -/
def writeKinds (o : Opts) (w : World) (rs : List Rec) : List OutKind → Res (List Artifact)
  | [] => .ok []
  | k :: ks =>
    let one : Res Artifact :=
      match k with
      | .stream t =>
        match report { o with out := t } rs with
        | .ok b => .ok (.file (MainGlue.fixedName t.toMain) b)
        | .panic s => .panic s
      | .html =>
        match reportHtml o w rs with
        | .ok fs => .ok (.dir (MainGlue.fixedName .html) fs)
        | .panic s => .panic s
    match one with
    | .panic s => .panic s
    | .ok a =>
      match writeKinds o w rs ks with
      | .panic s => .panic s
      | .ok as => .ok (a :: as)

/-- **One run with several `-t` and `-o <existing directory>`** -/
def runMulti (o : Opts) (w : World) (inputs : List Input) (kinds : List OutKind) : Res (List Artifact) :=
  match inputs.findSome? (crash o.branch) with
  | some s => .panic s
  | none =>
    match records o w inputs with
    | .panic s => .panic s
    | .ok rs => writeKinds o w rs kinds

/-! ### the hash order given by a reference listing (what the driver uses)

The harness reads the order of the FILE records off the real report and passes it in; the model
then arranges its records accordingly. Entries the listing does not mention keep their model order,
after the listed ones. (Before fix 73c9152 the order of the function records of each file had to be
read off the real report as well; now it is computed: `sortFns`.) -/

/-- position of `k` in `ref`, or `ref.length` -/
def posIn {α : Type} [DecidableEq α] (ref : List α) (k : α) : Nat := ref.findIdx (· == k)

/-- stable insertion by position in the reference listing -/
def insertByPos {α β : Type} [DecidableEq α] (ref : List α) (key : β → α) (x : β) : List β → List β
  | [] => [x]
  | y :: ys => if posIn ref (key x) ≤ posIn ref (key y) then x :: y :: ys
               else y :: insertByPos ref key x ys

def sortByPos {α β : Type} [DecidableEq α] (ref : List α) (key : β → α) (l : List β) : List β :=
  l.foldr (insertByPos ref key) []

/-- the hash order determined by a listing of rel paths -/
def HashOrder.ofListing (recOrder : List Bytes) : HashOrder where
  recs := sortByPos recOrder (·.rel)

end Grcov.Cli.RunAll
