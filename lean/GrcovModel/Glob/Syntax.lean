/-
Glob/Syntax — the WHOLE pattern language of `globset` 0.4.16 (the version locked in
/repo/Cargo.lock) with the options grcov uses (`Glob::new`: case sensitive, `literal_separator =
false`, `backslash_escape = true` on Unix, `empty_alternates = false`), followed program point by
program point from globset-0.4.16/src/glob.rs:

* `parse`      = `GlobBuilder::build` = `Parser::{parse, parse_star, parse_class, push_alternate,
                 pop_alternate, parse_comma, parse_backslash}` + the stack check of `build`;
* `toRegex`    = `Tokens::to_regex_with` / `tokens_to_regex` / `char_to_escaped_literal` (the text
                 handed to regex-automata; compared byte for byte with `Glob::regex()` by the harness);
* `AtomDen` / `Den` / `GlobDen` = the language of that regular expression, given directly as a set
                 of byte strings (regex flags of `new_regex`: `(?-u)`, `utf8(false)`,
                 `dot_matches_new_line(true)`, anchored `^…$`): THE SPECIFICATION of "p matches g";
* `matchT` / `regexMatch` = an executable backtracking matcher (proved equal to `GlobDen` in
                 Lemmas/GlobSyntax.lean).

A pattern is a Rust `&str`: the parser walks `glob.chars()`, so the model takes the list of
Unicode scalar values (`Chars`); `enc` is `char::encode_utf8`. Paths are byte strings (globset
matches `Path` bytes, no decoding). Consequences that are modelled, not smoothed over:
* a class works on BYTES of the path but is written in CHARS: `[é]` is the byte class
  `[\xc3\xa9]` (it matches the single byte 0xC3 or 0xA9, never the two-byte string "é"); a range
  `[à-é]` is `[\xc3\xa0-\xc3\xa9]`; range validity (`InvalidRange`) is decided on chars;
* `{a,b}`: alternatives are stored last first; an EMPTY alternative is dropped (`a{,b}` does not
  match "a"); alternates cannot nest (`NestedAlternates`); a `}` without `{` is accepted and
  means nothing (`ErrorKind::UnopenedAlternates` is unreachable: the bottom stack entry is never
  popped); `,` outside braces is a literal;
* `**` is recursive only as a whole component (`**/` first, `/**` last, `/**/` inside; inside
  braces also right after `{` `,` and right before `,` `}`); anywhere else it is two `*`; the
  token before it is popped and replaced WHATEVER it is, so `{a\,**}` loses its comma;
* `\c` is the literal `c` for every `c` (also inside braces, NOT inside a class); a trailing `\`
  is `DanglingEscape`.
The `unwrap`/`assert!` sites of the parser are explicit (`GlobErr.panic`); Lemmas/GlobSyntax.lean
proves that none is reachable.
Core Lean only.
-/
import GrcovModel.Glob
namespace Grcov.GlobSyntax
open Grcov.UPath (Bytes)
open Grcov.Glob (tails afterSlashes)

/-- a pattern as `str::chars()` yields it -/
abbrev Chars := List Nat

/-- `char::encode_utf8` -/
def enc (c : Nat) : Bytes :=
  if c < 128 then [c]
  else if c < 2048 then [192 + c / 64, 128 + c % 64]
  else if c < 65536 then [224 + c / 4096, 128 + c / 64 % 64, 128 + c % 64]
  else [240 + c / 262144, 128 + c / 4096 % 64, 128 + c / 64 % 64, 128 + c % 64]

/-- the bytes of a `&str` -/
def encPat (cs : Chars) : Bytes := cs.flatMap enc

/-- `globset::ErrorKind` as far as `Glob::new` can answer it, plus `panic` for the parser's own
`unwrap`/`assert!` sites -/
inductive GlobErr where
  | unclosedClass
  | invalidRange (lo hi : Nat)
  | unopenedAlternates
  | unclosedAlternates
  | nestedAlternates
  | danglingEscape
  | panic
deriving DecidableEq, Repr

/-- `Token` without `Alternates` (alternates cannot nest: `push_alternate` refuses) -/
inductive Atom where
  | lit (c : Nat)                                  -- Token::Literal(char)
  | any                                            -- `?`   regex `.`
  | star                                           -- `*`   regex `.*`
  | recPrefix                                      -- `**/` regex `(?:/?|.*/)`
  | recSuffix                                      -- `/**` regex `/.*`
  | recZOM                                         -- `/**/` regex `(?:/|/.*/)`
  | cls (neg : Bool) (ranges : List (Nat × Nat))   -- Token::Class
deriving DecidableEq, Repr

/-- `Token` -/
inductive Tok where
  | atom (a : Atom)
  | alt (alts : List (List Atom))                  -- Token::Alternates, in the order of the Vec
deriving DecidableEq, Repr

abbrev Tokens := List Tok

/-! ### the parser -/

/-- where `Parser::parse` is between two `bump`s; the look-ahead of `parse_star` and of
`parse_class` (`peek`) becomes a mode that waits for the next char -/
inductive Mode where
  | normal
  | star1 (prev : Option Nat)      -- `parse_star` entered (`prev` captured), before `peek() != Some('*')`
  | star2 (prev : Option Nat)      -- the second '*' bumped, before the next `peek()`
  | esc                            -- `parse_backslash` before its `bump`
  | clsOpen                        -- `parse_class` before the peek for '!' / '^'
  | cls (neg : Bool) (ranges : List (Nat × Nat)) (first inRange : Bool)   -- the loop; ranges reversed
  | failed (e : GlobErr)
deriving DecidableEq, Repr

/-- `Parser`: `stack[0]` reversed, `stack[1..]` (the open alternatives, current one first, each
reversed), `cur` -/
structure PSt where
  top : List Tok := []
  alts : List (List Atom) := []
  cur : Option Nat := none
  mode : Mode := .normal
deriving DecidableEq, Repr

def isSep (c : Nat) : Bool := c = 47

/-- `push_token` of a token that is not `Alternates` -/
def pushAtom (st : PSt) (a : Atom) : PSt :=
  match st.alts with
  | cur :: rest => { st with alts := (a :: cur) :: rest }
  | [] => { st with top := .atom a :: st.top }

/-- `have_tokens` -/
def haveTokens (st : PSt) : Bool :=
  match st.alts with
  | cur :: _ => !cur.isEmpty
  | [] => !st.top.isEmpty

/-- the `match self.pop_token()?` at the end of `parse_star` -/
def replaceAtom (isSuffix : Bool) : Atom → Atom
  | .recPrefix => .recPrefix
  | .recSuffix => .recSuffix
  | _ => if isSuffix then .recSuffix else .recZOM

/-- `pop_token` (`pat.pop().unwrap()`) and the push that follows -/
def replaceLast (st : PSt) (isSuffix : Bool) : PSt :=
  match st.alts with
  | (a :: cur) :: rest => { st with alts := (replaceAtom isSuffix a :: cur) :: rest }
  | [] :: _ => { st with mode := .failed .panic }
  | [] => match st.top with
    | .atom a :: r => { st with top := .atom (replaceAtom isSuffix a) :: r }
    | .alt _ :: r => { st with top := .atom (if isSuffix then .recSuffix else .recZOM) :: r }
    | [] => { st with mode := .failed .panic }

def twoStars (st : PSt) : PSt := pushAtom (pushAtom st .star) .star

/-- `parse_star` after the second '*' was bumped: `prev` is the char before the first '*', `peek`
the next char if any. Answers the new state and whether the peeked char was bumped. -/
def star2 (st : PSt) (prev peek : Option Nat) : PSt × Bool :=
  if !haveTokens st then
    if peek.all isSep then (pushAtom st .recPrefix, true)
    else (twoStars st, false)
  else if !(prev.any isSep) && (st.alts.isEmpty || (prev != some 44 && prev != some 123)) then
    (twoStars st, false)
  else match peek with
    | none => (replaceLast st true, true)
    | some c =>
      if (c = 44 || c = 125) && !st.alts.isEmpty then (replaceLast st true, false)
      else if isSep c then (replaceLast st false, true)
      else (twoStars st, false)

/-- one char of `Parser::parse`'s own dispatch (`c` has just been bumped) -/
def stepNormal (st : PSt) (c : Nat) : PSt :=
  let st' := { st with cur := some c }
  if c = 63 then pushAtom st' .any
  else if c = 42 then { st' with mode := .star1 st.cur }
  else if c = 91 then { st' with mode := .clsOpen }
  else if c = 123 then
    if st.alts.isEmpty then { st' with alts := [[]] } else { st' with mode := .failed .nestedAlternates }
  else if c = 125 then { st' with top := .alt (st.alts.map List.reverse) :: st.top, alts := [] }
  else if c = 44 then
    if st.alts.isEmpty then pushAtom st' (.lit 44) else { st' with alts := [] :: st.alts }
  else if c = 92 then { st' with mode := .esc }
  else pushAtom st' (.lit c)

/-- `add_to_last_range` on `ranges.last_mut().unwrap()` -/
def addRange (st : PSt) (neg : Bool) (rs : List (Nat × Nat)) (c : Nat) : PSt :=
  match rs with
  | (lo, _) :: r =>
    if c < lo then { st with mode := .failed (.invalidRange lo c) }
    else { st with mode := .cls neg ((lo, c) :: r) false false }
  | [] => { st with mode := .failed .panic }

/-- one iteration of the loop of `parse_class` -/
def stepCls (st : PSt) (neg : Bool) (rs : List (Nat × Nat)) (first inR : Bool) (c : Nat) : PSt :=
  let st := { st with cur := some c }
  if c = 93 then
    if first then { st with mode := .cls neg ((93, 93) :: rs) false inR }
    else { pushAtom st (.cls neg (if inR then (45, 45) :: rs else rs).reverse) with mode := .normal }
  else if c = 45 then
    if first then { st with mode := .cls neg ((45, 45) :: rs) false inR }
    else if inR then addRange st neg rs 45
    else if rs.isEmpty then { st with mode := .failed .panic }     -- assert!(!ranges.is_empty())
    else { st with mode := .cls neg rs false true }
  else if inR then addRange st neg rs c
  else { st with mode := .cls neg ((c, c) :: rs) false false }

/-- `parse_star` has decided: the peeked char was bumped by it, or goes through the dispatch -/
def afterStar2 (r : PSt × Bool) (c : Nat) : PSt :=
  if r.2 then { r.1 with cur := some c }
  else match r.1.mode with
    | .failed _ => r.1
    | _ => stepNormal r.1 c

/-- the parser, one char at a time -/
def step (st : PSt) (c : Nat) : PSt :=
  match st.mode with
  | .failed _ => st
  | .normal => stepNormal st c
  | .star1 p =>
    if c = 42 then { st with mode := .star2 p, cur := some 42 }
    else stepNormal { pushAtom st .star with mode := .normal } c
  | .star2 p => afterStar2 (star2 { st with mode := .normal } p (some c)) c
  | .esc => { pushAtom st (.lit c) with mode := .normal, cur := some c }
  | .clsOpen =>
    if c = 33 || c = 94 then { st with mode := .cls true [] true false, cur := some c }
    else stepCls st false [] true false c
  | .cls neg rs first inR => stepCls st neg rs first inR c

/-- the stack check of `build` (`stack.len() > 1`: an alternate is still open) -/
def closeAlts (st : PSt) : Except GlobErr Tokens :=
  match st.mode with
  | .failed e => .error e
  | _ => if st.alts.isEmpty then .ok st.top.reverse else .error .unclosedAlternates

/-- end of the chars: the rest of the function that was waiting, then the stack check of `build` -/
def finish (st : PSt) : Except GlobErr Tokens :=
  match st.mode with
  | .failed e => .error e
  | .normal => closeAlts st
  | .star1 _ => closeAlts { pushAtom st .star with mode := .normal }
  | .star2 p => closeAlts (star2 { st with mode := .normal } p none).1
  | .esc => .error .danglingEscape
  | .clsOpen => .error .unclosedClass
  | .cls _ _ _ _ => .error .unclosedClass

/-- `Glob::new(g)`: the tokens or the error kind -/
def parse (g : Chars) : Except GlobErr Tokens := finish (g.foldl step {})

/-! ### the regular expression text (`Glob::regex()`) -/

def hexDigit (n : Nat) : Nat := if n < 10 then 48 + n else 87 + n

/-- `regex_syntax::is_meta_character` -/
def isMeta (b : Nat) : Bool :=
  b = 92 || b = 46 || b = 43 || b = 42 || b = 63 || b = 40 || b = 41 || b = 124 || b = 91 ||
  b = 93 || b = 123 || b = 125 || b = 94 || b = 36 || b = 35 || b = 38 || b = 45 || b = 126

/-- `bytes_to_escaped_literal` for one byte -/
def escByte (b : Nat) : Bytes :=
  if b ≤ 127 then (if isMeta b then [92, b] else [b])
  else [92, 120, hexDigit (b / 16 % 16), hexDigit (b % 16)]

/-- `char_to_escaped_literal` -/
def escChar (c : Nat) : Bytes := (enc c).flatMap escByte

def rangeRegex (r : Nat × Nat) : Bytes :=
  if r.1 = r.2 then escChar r.1 else escChar r.1 ++ 45 :: escChar r.2

def atomRegex : Atom → Bytes
  | .lit c => escChar c
  | .any => [46]
  | .star => [46, 42]
  | .recPrefix => [40, 63, 58, 47, 63, 124, 46, 42, 47, 41]          -- (?:/?|.*/)
  | .recSuffix => [47, 46, 42]                                        -- /.*
  | .recZOM => [40, 63, 58, 47, 124, 47, 46, 42, 47, 41]              -- (?:/|/.*/)
  | .cls neg rs => 91 :: (if neg then [94] else []) ++ rs.flatMap rangeRegex ++ [93]

def atomsRegex (as : List Atom) : Bytes := as.flatMap atomRegex

def joinBar : List Bytes → Bytes
  | [] => []
  | [p] => p
  | p :: q :: r => p ++ 124 :: joinBar (q :: r)

def tokRegex : Tok → Bytes
  | .atom a => atomRegex a
  | .alt alts =>
    let parts := (alts.map atomsRegex).filter fun s => !s.isEmpty
    if parts.isEmpty then [] else [40, 63, 58] ++ joinBar parts ++ [41]

/-- `Tokens::to_regex_with` -/
def toRegex (ts : Tokens) : Bytes :=
  [40, 63, 45, 117, 41, 94] ++          -- (?-u)^
  (if ts = [.atom .recPrefix] then [46, 42] else ts.flatMap tokRegex) ++ [36]

/-! ### what the regular expression denotes -/

/-- the bytes one class item `lo-hi` admits: the regex text is the escaped UTF-8 bytes of `lo`,
'-', those of `hi`, read by a BYTE-mode regex: every byte of `lo` but the last and every byte of
`hi` but the first stand for themselves, the two in the middle make a byte range -/
def rangeMatch (r : Nat × Nat) (b : Nat) : Bool :=
  if r.1 = r.2 then (enc r.1).contains b
  else (enc r.1).dropLast.contains b
    || (((enc r.1).getLast?.getD 0) ≤ b && b ≤ ((enc r.2).head?.getD 0))
    || (enc r.2).tail.contains b

/-- `[…]` / `[^…]` on one byte -/
def classMatch (neg : Bool) (rs : List (Nat × Nat)) (b : Nat) : Bool :=
  (rs.any fun r => rangeMatch r b) != neg

/-- the language of one token's regex -/
def AtomDen : Atom → Bytes → Prop
  | .lit c, s => s = enc c
  | .any, s => ∃ b, s = [b]
  | .star, _ => True
  | .recPrefix, s => s = [] ∨ ∃ m, s = m ++ [47]
  | .recSuffix, s => ∃ m, s = 47 :: m
  | .recZOM, s => s = [47] ∨ ∃ m, s = 47 :: (m ++ [47])
  | .cls neg rs, s => ∃ b, s = [b] ∧ classMatch neg rs b = true

/-- concatenation -/
def AtomsDen : List Atom → Bytes → Prop
  | [], s => s = []
  | a :: as, s => ∃ u v, s = u ++ v ∧ AtomDen a u ∧ AtomsDen as v

/-- the alternatives that survive `if !altre.is_empty()` (an alternative's regex is empty iff it
has no token) -/
def liveAlts (alts : List (List Atom)) : List (List Atom) := alts.filter fun a => !a.isEmpty

def TokDen : Tok → Bytes → Prop
  | .atom a, s => AtomDen a s
  | .alt alts, s => if liveAlts alts = [] then s = [] else ∃ p ∈ liveAlts alts, AtomsDen p s

def Den : Tokens → Bytes → Prop
  | [], s => s = []
  | t :: ts, s => ∃ u v, s = u ++ v ∧ TokDen t u ∧ Den ts v

/-- THE SPECIFICATION: path `p` matches the parsed glob `ts` (the lone `**` is special-cased by
`to_regex_with` to `.*`) -/
def GlobDen (ts : Tokens) (p : Bytes) : Prop := ts = [.atom .recPrefix] ∨ Den ts p

/-! ### an executable matcher -/

/-- `s` without the prefix `pre` -/
def stripPre : Bytes → Bytes → Option Bytes
  | [], s => some s
  | _ :: _, [] => none
  | a :: pre, b :: s => if a = b then stripPre pre s else none

/-- backtracking matcher with a continuation for what follows -/
def matchA : List Atom → (Bytes → Bool) → Bytes → Bool
  | [], k, bs => k bs
  | .lit c :: as, k, bs => match stripPre (enc c) bs with
    | some r => matchA as k r
    | none => false
  | .any :: as, k, bs => match bs with
    | _ :: r => matchA as k r
    | [] => false
  | .star :: as, k, bs => (tails bs).any (matchA as k)
  | .recPrefix :: as, k, bs => matchA as k bs || (afterSlashes bs).any (matchA as k)
  | .recSuffix :: as, k, bs => match bs with
    | b :: r => b == 47 && (tails r).any (matchA as k)
    | [] => false
  | .recZOM :: as, k, bs => match bs with
    | b :: r => b == 47 && (matchA as k r || (afterSlashes r).any (matchA as k))
    | [] => false
  | .cls neg rs :: as, k, bs => match bs with
    | b :: r => classMatch neg rs b && matchA as k r
    | [] => false

def matchT : Tokens → Bytes → Bool
  | [], bs => bs.isEmpty
  | .atom a :: ts, bs => matchA [a] (matchT ts) bs
  | .alt alts :: ts, bs =>
    if (liveAlts alts).isEmpty then matchT ts bs
    else (liveAlts alts).any fun p => matchA p (matchT ts) bs

/-- `GlobMatcher::is_match`: the regex of the glob on the bytes of the path -/
def regexMatch (ts : Tokens) (p : Bytes) : Bool :=
  if ts = [.atom .recPrefix] then true else matchT ts p

/-- `Glob::new(g).map(|g| g.compile_matcher().is_match(p))` -/
def globMatch (g : Chars) (p : Bytes) : Except GlobErr Bool :=
  match parse g with
  | .error e => .error e
  | .ok ts => .ok (regexMatch ts p)

end Grcov.GlobSyntax
