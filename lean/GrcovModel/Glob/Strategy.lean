/-
Glob/Strategy — what `globset::GlobSet::is_match` does (globset-0.4.16/src/lib.rs `GlobSet::new`,
`GlobSetMatchStrategy::is_match`, `Candidate::new`; src/glob.rs `MatchStrategy::new`,
`Glob::{basename_literal, literal, ext, prefix, suffix, required_ext}`; src/pathutil.rs
`file_name`, `file_name_ext`) — the function grcov calls on every rewritten path
(src/path_rewriting.rs 223-231, 365-371), and grcov's handling of a pattern that does not parse
(`Glob::new(..).unwrap()` in `to_globset`: a panic of the main thread before any key is looked at).

A `GlobSet` does not run one regex per glob: each glob is classified (`strategy`) and looked up in
a hash map of literals / basenames / extensions, an Aho-Corasick automaton of prefixes / suffixes,
or, failing all that, a regex. `setIsMatch` follows that classification glob by glob (`is_match`
is the disjunction over the seven strategy tables, so it is the disjunction over the globs of
`stratMatch`). Trusted here: the hash maps, Aho-Corasick (`starts_with` / `ends_with`) and
regex-automata implement their textbook meaning (`Glob/Syntax.lean` `regexMatch`).

The basename and the extension of the candidate path come from `pathutil`, NOT from `std::path`:
`file_name` answers `None` for a path whose last byte is '.', so such a path has the empty
basename and the empty extension, and the basename-literal / extension / required-extension
tables can never match it (Lemmas/GlobStrategy.lean: this is the only place where `setIsMatch`
differs from the regular expressions of the globs; finding C11-globset-trailing-dot-path).
Core Lean only.
-/
import GrcovModel.Glob.Syntax
import GrcovModel.Rewrite
namespace Grcov.GlobSyntax
open Grcov.UPath (Bytes)

/-! ### the candidate -/

/-- the part after the last `d`, or the whole string -/
def afterLast (d : Nat) : Bytes → Bytes
  | [] => []
  | b :: bs => if bs.contains d then afterLast d bs else if b = d then bs else b :: bs

/-- the part from the last `d` on, if there is a `d` -/
def fromLast (d : Nat) : Bytes → Option Bytes
  | [] => none
  | b :: bs => match fromLast d bs with
    | some r => some r
    | none => if b = d then some (b :: bs) else none

/-- `pathutil::file_name(path).unwrap_or("")` -/
def baseName (p : Bytes) : Bytes :=
  match p.getLast? with
  | none => []
  | some l => if l = 46 then [] else afterLast 47 p

/-- `pathutil::file_name_ext(basename).unwrap_or("")`: from the last '.' of the basename on -/
def extName (p : Bytes) : Bytes := (fromLast 46 (baseName p)).getD []

/-! ### `MatchStrategy::new` -/

inductive Strat where
  | literal (lit : Bytes)
  | basenameLiteral (lit : Bytes)
  | extension (ext : Bytes)
  | pre (lit : Bytes)
  | suffix (lit : Bytes) (component : Bool)
  | requiredExt (ext : Bytes)
  | regex
deriving DecidableEq, Repr

def litOf : Tok → Option Nat
  | .atom (.lit c) => some c
  | _ => none

/-- `let Token::Literal(c) = *t else { return None }` over a slice -/
def allLits (ts : Tokens) : Option Chars := ts.mapM litOf

/-- `basename_literal` (with `basename_tokens`; `literal_separator` is off, so `?` and `*` give up) -/
def basenameLit (ts : Tokens) : Option Bytes :=
  match ts with
  | .atom .recPrefix :: rest =>
    if rest.isEmpty then none
    else match allLits rest with
      | some cs => if cs.contains 47 then none else some (encPat cs)
      | none => none
  | _ => none

/-- `literal` -/
def literalOf (ts : Tokens) : Option Bytes :=
  match allLits ts with
  | some cs => if cs.isEmpty then none else some (encPat cs)
  | none => none

/-- `ext` -/
def extOf (ts : Tokens) : Option Bytes :=
  let rest := match ts with
    | .atom .recPrefix :: r => r
    | r => r
  match rest with
  | .atom .star :: .atom (.lit 46) :: tail =>
    (match allLits tail with
     | some cs => if cs.contains 46 || cs.contains 47 then none else some (46 :: encPat cs)
     | none => none)
  | _ => none

/-- `prefix` -/
def prefixOf (ts : Tokens) : Option Bytes :=
  match ts.getLast? with
  | none => none
  | some last =>
    let body := if last = .atom .star || last = .atom .recSuffix then ts.dropLast else ts
    match allLits body with
    | some cs =>
      let lit := encPat cs ++ (if last = .atom .recSuffix then [47] else [])
      if lit.isEmpty then none else some lit
    | none => none

/-- the first lines of `suffix`: the literal so far ("/" when the glob is `**/` + a literal), the
tokens from `start` on, and `entire` -/
def suffixParts : Tokens → Bytes × Tokens × Bool
  | .atom .recPrefix :: .atom (.lit c) :: r => ([47], .atom (.lit c) :: r, true)
  | .atom .recPrefix :: r => ([], r, false)
  | r => ([], r, false)

/-- the rest of `suffix`: an optional `*`, then literals only -/
def suffixTail (pre : Bytes) (t : Tok) (r : Tokens) (entire : Bool) : Option (Bytes × Bool) :=
  match allLits (if t = .atom .star then r else t :: r) with
  | some cs =>
    if (pre ++ encPat cs).isEmpty || decide (pre ++ encPat cs = [47]) then none
    else some (pre ++ encPat cs, entire)
  | none => none

/-- `suffix` -/
def suffixOf (ts : Tokens) : Option (Bytes × Bool) :=
  if ts.isEmpty then none
  else match (suffixParts ts).2.1 with
    | [] => none
    | t :: r => suffixTail (suffixParts ts).1 t r (suffixParts ts).2.2

/-- the loop of `required_ext` over the reversed tokens; `acc` is the extension so far -/
def reqExtAux : Tokens → Chars → Option Chars
  | [], _ => none
  | .atom (.lit c) :: r, acc =>
    if c = 47 then none else if c = 46 then some (46 :: acc) else reqExtAux r (c :: acc)
  | _ :: _, _ => none

/-- `required_ext` -/
def requiredExtOf (ts : Tokens) : Option Bytes := (reqExtAux ts.reverse []).map encPat

/-- `MatchStrategy::new` -/
def strategy (ts : Tokens) : Strat :=
  match basenameLit ts with
  | some l => .basenameLiteral l
  | none => match literalOf ts with
    | some l => .literal l
    | none => match extOf ts with
      | some e => .extension e
      | none => match prefixOf ts with
        | some l => .pre l
        | none => match suffixOf ts with
          | some (l, c) => .suffix l c
          | none => match requiredExtOf ts with
            | some e => .requiredExt e
            | none => .regex

/-! ### `GlobSet::is_match` -/

def isSuffixOfB (l p : Bytes) : Bool := l.reverse.isPrefixOf p.reverse

/-- what the table this glob was put into answers for the path -/
def stratMatch (ts : Tokens) (p : Bytes) : Bool :=
  match strategy ts with
  | .literal l => p == l
  | .basenameLiteral l => !(baseName p).isEmpty && baseName p == l
  | .extension e => !(extName p).isEmpty && extName p == e
  | .pre l => l.isPrefixOf p
  | .suffix l comp => (comp && p == l.tail) || isSuffixOfB l p
  | .requiredExt e => !(extName p).isEmpty && extName p == e && regexMatch ts p
  | .regex => regexMatch ts p

/-- `GlobSet::is_match` (an empty set matches nothing) -/
def setIsMatch (gs : List Tokens) (p : Bytes) : Bool := gs.any fun ts => stratMatch ts p

/-- the specification of a set: some glob's regular expression matches -/
def setRegexMatch (gs : List Tokens) (p : Bytes) : Bool := gs.any fun ts => regexMatch ts p

/-- `to_globset`: `Glob::new(dir).unwrap()` for every pattern, in order -/
def compileSet : List Chars → Except GlobErr (List Tokens)
  | [] => .ok []
  | g :: gs => match parse g with
    | .error e => .error e
    | .ok t => match compileSet gs with
      | .error e => .error e
      | .ok ts => .ok (t :: ts)

/-! ### `rewrite_paths` with patterns of the whole language -/

open Grcov Grcov.Rewrite

/-- `rewrite_paths`' arguments with the glob sets as the user wrote them -/
structure GCfg where
  sourceDir : Option Bytes := none
  prefixDir : Option Bytes := none
  mapping : Option (List (Bytes × Bytes)) := none
  ignore : List Chars := []
  keep : List Chars := []
  ignoreNotExisting : Bool := false
  filter : Option Bool := none

/-- the same with compiled sets -/
structure XCfg where
  sourceDir : Option Bytes := none
  prefixDir : Option Bytes := none
  mapping : Option (List (Bytes × Bytes)) := none
  ignore : List Tokens := []
  keep : List Tokens := []
  ignoreNotExisting : Bool := false
  filter : Option Bool := none

/-- the path part of the pipeline does not look at the globs -/
def XCfg.base (x : XCfg) : Cfg :=
  { sourceDir := x.sourceDir, prefixDir := x.prefixDir, mapping := x.mapping,
    ignoreNotExisting := x.ignoreNotExisting, filter := x.filter }

/-- lines 365-405 of path_rewriting.rs (`Rewrite.selectRec` with `GlobSet::is_match` of the whole
language) -/
def selectRecX (x : XCfg) (fs : FS) (abs rel : Bytes) (cov : Cov) : Option Rec :=
  if setIsMatch x.ignore rel then none
  else if !x.keep.isEmpty && !setIsMatch x.keep rel then none
  else if x.ignoreNotExisting && !fs.exists abs then none
  else if !filterOk x.filter cov then none
  else some ⟨abs, rel, cov⟩

def rewriteKeyX (x : XCfg) (fs : FS) (kc : Bytes × Cov) : Res (Option Rec) :=
  match resolveKey x.base fs kc.1 with
  | .panic s => .panic s
  | .ok none => .ok none
  | .ok (some (abs, rel)) => .ok (selectRecX x fs abs rel kc.2)

def rewritePathsX (x : XCfg) (fs : FS) (m : List (Bytes × Cov)) : Res (List Rec) :=
  match x.sourceDir with
  | some s => if UPath.isAbsolute s then collect (m.map (rewriteKeyX x fs)) else .panic "assert_absolute"
  | none => collect (m.map (rewriteKeyX x fs))

/-- the configuration with its two sets compiled -/
def GCfg.withSets (g : GCfg) (ig kp : List Tokens) : XCfg :=
  { sourceDir := g.sourceDir, prefixDir := g.prefixDir, mapping := g.mapping, ignore := ig, keep := kp,
    ignoreNotExisting := g.ignoreNotExisting, filter := g.filter }

/-- the configuration of the old model (GrcovModel/Rewrite.lean) with the same options -/
def GCfg.withOld (g : GCfg) (ig kp : Glob.GlobSet) : Cfg :=
  { sourceDir := g.sourceDir, prefixDir := g.prefixDir, mapping := g.mapping, ignore := ig, keep := kp,
    ignoreNotExisting := g.ignoreNotExisting, filter := g.filter }

/-- `rewrite_paths` from its first line: both sets are compiled (ignore first), a pattern that
does not parse is `unwrap`ped — before the `assert!` on the source directory and before any key -/
def rewritePathsG (g : GCfg) (fs : FS) (m : List (Bytes × Cov)) : Res (List Rec) :=
  match compileSet g.ignore with
  | .error _ => .panic "glob_unwrap"
  | .ok ig => match compileSet g.keep with
    | .error _ => .panic "glob_unwrap"
    | .ok kp => rewritePathsX (g.withSets ig kp) fs m

end Grcov.GlobSyntax
