/-
UPath — Unix `std::path` over byte strings, as far as `src/path_rewriting.rs` uses it.

A path is its byte string (`PathBuf` is an `OsString`); everything `std::path` computes is a
function of the '/'-separated *segments* of that string (`split`), so the model works on segment
lists and joins them back. Followed program point by program point from
library/std/src/path.rs (`Components::{next, next_back, as_path, trim_left, trim_right,
len_before_body, include_cur_dir}`, `iter_after`, `Path::{parent, ancestors, starts_with,
ends_with, strip_prefix, is_absolute}`, `PathBuf::push`), Unix flavour (no prefixes, '/' is the only
separator). The harness checks every operation here against `std::path` itself (ops `comps`,
`parent`, `strip`, `push`, `ends`) and `normalizePath` against `grcov::normalize_path`.
Core Lean only.
-/
import GrcovModel.Base
namespace Grcov.UPath

abbrev Bytes := List Nat

/-- the segments between '/' bytes; never empty; `split "" = [""]`, `split "/a" = ["", "a"]` -/
def split : Bytes → List Bytes
  | [] => [[]]
  | b :: bs =>
    if b = 47 then [] :: split bs
    else match split bs with
      | s :: ss => (b :: s) :: ss
      | [] => [[b]]

/-- inverse of `split`: segments joined by '/' -/
def join : List Bytes → Bytes
  | [] => []
  | [s] => s
  | s :: t :: ss => s ++ 47 :: join (t :: ss)

inductive Comp where
  | root
  | cur
  | parent
  | normal (name : Bytes)
deriving DecidableEq, Repr

/-- `parse_single_component`: "" and "." vanish, ".." is `ParentDir`, anything else is `Normal` -/
def segComp (s : Bytes) : Option Comp :=
  if s = [] then none
  else if s = [46] then none
  else if s = [46, 46] then some .parent
  else some (.normal s)

def isSkip (s : Bytes) : Bool := s = [] || s = [46]

/-- `has_root` = `is_absolute` on Unix -/
def hasRoot (p : Bytes) : Bool := p.head? = some 47

/-- `include_cur_dir`: the path is "." or starts with "./" -/
def leadCur (p : Bytes) : Bool := !hasRoot p && (split p).head? = some [46]

/-- `Path::components().collect()` -/
def components (p : Bytes) : List Comp :=
  (if hasRoot p then [Comp.root] else if leadCur p then [Comp.cur] else [])
    ++ (split p).filterMap segComp

def isAbsolute (p : Bytes) : Bool := hasRoot p
def isRelative (p : Bytes) : Bool := !hasRoot p

/-- `PathBuf::push` / `Path::join`: an absolute argument replaces; otherwise a separator is added
unless the buffer is empty or already ends with one -/
def push (a b : Bytes) : Bytes :=
  if hasRoot b then b
  else if a = [] then b
  else if a.getLast? = some 47 then a ++ b
  else a ++ 47 :: b

/-- drop trailing "" and "." segments (`trim_right`) -/
def trimR : List Bytes → List Bytes
  | [] => []
  | s :: t => match trimR t with
    | [] => if isSkip s then [] else [s]
    | r => s :: r
/-- drop leading "" and "." segments (`trim_left`) -/
def trimL (segs : List Bytes) : List Bytes := segs.dropWhile isSkip

/-- the segments that follow the first `j` real (non-skipped) segments -/
def dropComps : Nat → List Bytes → List Bytes
  | 0, segs => segs
  | _ + 1, [] => []
  | j + 1, s :: segs => if isSkip s then dropComps (j + 1) segs else dropComps j segs

/-- `Components::as_path` of an iterator from which nothing was consumed: only `trim_right`, which
never cuts into the root / leading "." (`len_before_body`) -/
def trimRightKeepLead (p : Bytes) : Bytes :=
  match split p with
  | [] => p
  | s0 :: t =>
    if hasRoot p then 47 :: join (trimR t)
    else if s0 = [46] then join (s0 :: trimR t)
    else join (trimR (s0 :: t))

/-- what is left of `p` after `k` components were taken from the front (`iter_after` +
`as_path`): both ends trimmed once the front has entered the body -/
def remainder (p : Bytes) (k : Nat) : Bytes :=
  if k = 0 then trimRightKeepLead p
  else
    let j := if hasRoot p || leadCur p then k - 1 else k
    join (trimR (trimL (dropComps j (split p))))

def isPrefixOfC : List Comp → List Comp → Bool
  | [], _ => true
  | _ :: _, [] => false
  | a :: as, b :: bs => decide (a = b) && isPrefixOfC as bs

/-- `Path::strip_prefix`: component-wise prefix test, the result is the remaining *substring* -/
def stripPrefix (p base : Bytes) : Option Bytes :=
  if isPrefixOfC (components base) (components p) then some (remainder p (components base).length)
  else none

/-- `Path::starts_with` is `iter_after(..).is_some()`, i.e. exactly "strip_prefix succeeds" -/
def startsWith (p base : Bytes) : Bool := isPrefixOfC (components base) (components p)

/-- `Path::ends_with`: component-wise suffix test -/
def endsWith (p child : Bytes) : Bool :=
  isPrefixOfC (components child).reverse (components p).reverse

/-- `Path::parent`: `next_back` removes the last `Normal`/`..` component, then `as_path` trims the
right end; `None` for "/", "" and anything without a body component except a lone leading "." -/
def parent (p : Bytes) : Option Bytes :=
  match split p with
  | [] => none
  | s0 :: t =>
    if hasRoot p then
      match trimR t with
      | [] => none
      | b1 => some (47 :: join (trimR b1.dropLast))
    else if s0 = [46] then
      match trimR t with
      | [] => some []
      | b1 => some (join (s0 :: trimR b1.dropLast))
    else
      match trimR (s0 :: t) with
      | [] => none
      | b1 => some (join (trimR b1.dropLast))

/-- `Path::ancestors`: the path, its parent, … (every step is strictly shorter, so `length + 1`
steps of fuel are enough) -/
def ancestorsAux : Nat → Bytes → List Bytes
  | 0, p => [p]
  | f + 1, p => match parent p with
    | none => [p]
    | some q => p :: ancestorsAux f q

def ancestors (p : Bytes) : List Bytes := ancestorsAux (p.length + 1) p

/-! ### normalize_path (path_rewriting.rs 44-76)

`ret` is only ever changed by `push(one component)` and `pop()`, so it is kept as the stack of
pushed `Normal` names plus "a RootDir was pushed"; `render` is the `PathBuf` that stack denotes. -/

structure NPath where
  root : Bool
  names : List Bytes
deriving DecidableEq, Repr

def render (n : NPath) : Bytes := (if n.root then [47] else []) ++ join n.names

/-- the `for component in components` loop; `none` = the `return None` after a failed `pop` -/
def normGo : NPath → List Comp → Option NPath
  | st, [] => some st
  | _, .root :: cs => normGo ⟨true, []⟩ cs                     -- ret.push("/") replaces `ret`
  | st, .cur :: cs => normGo st cs
  | st, .parent :: cs =>
    if st.names = [] then none                                  -- pop() is false on "" and on "/"
    else normGo { st with names := st.names.dropLast } cs
  | st, .normal c :: cs => normGo { st with names := st.names ++ [c] } cs

def normalizeC (cs : List Comp) : Option NPath := normGo ⟨false, []⟩ cs

def normalizeN (p : Bytes) : Option NPath := normalizeC (components p)

def normalizePath (p : Bytes) : Option Bytes := (normalizeN p).map render

/-- `path.replace('\\', "/")` -/
def bsl (p : Bytes) : Bytes := p.map fun b => if b = 92 then 47 else b

end Grcov.UPath
