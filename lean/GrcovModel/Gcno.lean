/-
Model of the gcno/gcda reader `src/reader.rs` (`Gcno::compute` and everything below it) above the
byte level: the in-memory control-flow graph built by `read_gcno`, counter accumulation
(`read_gcda`), spanning-tree propagation (`count_on_tree`/`propagate_counts`), line counts
(`add_line_count`/`get_line_count`/`get_cycles_count`/`look_for_circuit`/`unblock`) and `finalize`.

Representation choices (all observable behaviour is tied to the Rust by the harness):
* `GcovEdge {source, destination, flags}` / `GcovBlock {source, destination, lines, line_max}` are
  never written after `read_gcno` (except for the virtual exit→entry arc pushed by
  `count_on_tree`): they are the immutable `Arc`/`Block`/`Func` ("shape").  The mutable fields
  `GcovEdge.counter`, `GcovEdge.cycles`, `GcovBlock.counter` are total functions `Nat → Nat`
  indexed by arc / block number (`Cnt`), all zero after `read_gcno`.  Index panics are decided on
  the shape (`blocks[i]?`, `arcs[i]?`), exactly where the Rust indexes.
* u64 `+`/`+=`/`-=` are overflow-checked (the harness builds with overflow checks on): a sum
  above 2^64-1 is `crash overflow` (a Rust panic).
* Hash maps are association lists in first-insertion order, observed through `get?`; the driver
  prints them sorted.
* Recursion (`propagate_counts`, `look_for_circuit`, `unblock`) is fuelled by recursion depth;
  running out of fuel is `diverge`.
* Names: the records (`NRec`, `LineItem.file`) carry the name BYTES of the file (NUL padding
  stripped); `read_string` decodes them with `String::from_utf8_lossy` (/repo 7f9b2b3; before, they
  were passed through `from_utf8_unchecked`), which is `Lcov.utf8Lossy`: `buildStep` stores the
  decoded function and file names, `takeLines` compares the decoded file name of a LINES record
  with the decoded file name of the function (two different ill-formed byte strings can decode to
  the same name). A name is empty iff its bytes are.
Core Lean only.
-/
import GrcovModel.Merge
import GrcovModel.Lcov
namespace Grcov.Gcno
open Grcov AList

abbrev Bytes := List Nat

inductive ErrKind where
  | fileType | version | versionMismatch | checksumMismatch | headerLen | fnIdent | fnChecksum
  | edgeCount | short | blockNo | recordLen | blockCount
deriving DecidableEq, Repr

inductive Site where
  | overflow | underflow | idxBlock | idxArc | idxFunc | noArcs | str | idxList
deriving DecidableEq, Repr

inductive Outcome (α : Type) where
  | ok (a : α)
  | err (k : ErrKind)
  | crash (s : Site)
  | diverge
deriving Repr

namespace Outcome
@[inline] def bind {α β : Type} (x : Outcome α) (f : α → Outcome β) : Outcome β :=
  match x with
  | ok a => f a
  | err k => err k
  | crash s => crash s
  | diverge => diverge

instance : Monad Outcome where
  pure := ok
  bind := bind

/-- left fold with early exit on the first non-`ok` -/
def foldl {σ α : Type} (step : σ → α → Outcome σ) : σ → List α → Outcome σ
  | s, [] => ok s
  | s, a :: as => (step s a).bind fun s' => foldl step s' as

def isOk {α : Type} : Outcome α → Bool
  | ok _ => true
  | _ => false
end Outcome
open Outcome

/-! ## Shape: what `read_gcno` builds -/

/-- `GcovEdge` without its counters. `flags & 1` = on the spanning tree (not instrumented),
`flags & 2` = fake. -/
structure Arc where
  src : Nat
  dst : Nat
  flags : Nat
deriving DecidableEq, Repr, Inhabited

def Arc.onTree (a : Arc) : Bool := a.flags % 2 == 1
def Arc.fake (a : Arc) : Bool := a.flags / 2 % 2 == 1

/-- `GcovBlock` without its counter: `no` = `GcovBlock.no`, the number `read_blocks` gave the block:
its index WITHIN ITS BLOCKS RECORD (`for no in 0..length { push(GcovBlock::new(no)) }`), which is
its position in `Func.blocks` only when the function has a single BLOCKS record – the compilers
write exactly one; `add_line_count`/`get_line_count` key on `no`, everything else on the position;
ids of incoming arcs (push order), ids of outgoing arcs (sorted by destination block), the lines
kept by `read_lines`, their maximum. -/
structure Block where
  no : Nat := 0
  source : List Nat := []
  destination : List Nat := []
  lines : List Nat := []
  lineMax : Nat := 0
deriving DecidableEq, Repr, Inhabited

structure Func where
  ident : Nat
  startLine : Nat
  endLine : Nat
  lineChecksum : Nat
  cfgChecksum : Nat
  fileName : Bytes
  name : Bytes
  blocks : List Block := []
  arcs : List Arc := []
deriving DecidableEq, Repr

structure Notes where
  version : Nat
  checksum : Nat
  funcs : List Func := []
deriving DecidableEq, Repr

/-- `real_edge_count`: incremented by `read_edges` once per arc that is not on the tree -/
def Func.realEdgeCount (f : Func) : Nat := (f.arcs.filter fun a => !a.onTree).length

def modifyAt {α : Type} (g : α → α) : List α → Nat → List α
  | [], _ => []
  | a :: l, 0 => g a :: l
  | a :: l, i + 1 => a :: modifyAt g l i

/-- `Vec::insert(i, x)` for `i ≤ len` -/
def insertAt : List Nat → Nat → Nat → List Nat
  | l, 0, x => x :: l
  | [], _ + 1, x => [x]
  | a :: l, i + 1, x => a :: insertAt l i x

/-- the loop of `slice::binary_search_by` (Rust 1.9x): halve `size`, keep `base` when the probe
compares `Greater` -/
def bsLoop (gt : Nat → Bool) : Nat → Nat → Nat → Nat
  | 0, _, base => base
  | fuel + 1, size, base =>
    if size > 1 then
      let half := size / 2
      let mid := base + half
      bsLoop gt fuel (size - half) (if gt mid then base else mid)
    else base

/-- `match binary_search_by(|x| key(x).cmp(&k)) { Ok(i) => i, Err(i) => i }` on the key list -/
def bsearchPos (keys : List Nat) (k : Nat) : Nat :=
  if keys.length = 0 then 0
  else
    let base := bsLoop (fun i => decide (keys.getD i 0 > k)) keys.length keys.length 0
    let kb := keys.getD base 0
    if kb = k then base else if kb < k then base + 1 else base

/-- insert arc id `id` (already pushed on `arcs`) into the destination list of block `b`, at the
binary-search position of its destination block `dst` -/
def insertDest (arcs : List Arc) (b : Block) (id dst : Nat) : Block :=
  let keys := b.destination.map fun e => (arcs.getD e default).dst
  { b with destination := insertAt b.destination (bsearchPos keys dst) id }

/-- one iteration of the loop of `read_edges`; `src < blocks.len()` was established by the
caller; a destination block number out of range is an error ("Unexpected destination block
number"). -/
def addArc (f : Func) (src dst flags : Nat) : Outcome Func :=
  if dst < f.blocks.length then
    let id := f.arcs.length
    let arcs := f.arcs ++ [⟨src, dst, flags⟩]
    let blocks := modifyAt (fun b => insertDest arcs b id dst) f.blocks src
    ok { f with arcs := arcs
                blocks := modifyAt (fun b => { b with source := b.source ++ [id] }) blocks dst }
  else err .blockNo

/-! ### gcno records (the byte layer produces these) -/

inductive LineItem where
  | line (n : Nat)          -- a non-zero line number
  | file (name : Bytes)     -- `0` followed by a string (its bytes); the empty string ends the record
deriving DecidableEq, Repr

inductive NRec where
  | func (ident lineSum cfgSum : Nat) (name file : Bytes) (startLine endLine : Nat)
  | blocks (n : Nat)
  | arcs (src : Nat) (as : List (Nat × Nat))
  | lines (blk : Nat) (items : List LineItem)
  | short                   -- the buffer ends inside this record (`?` on a failed read)
  | fail (k : ErrKind)      -- the byte reader rejects the record (`blockCount`: more blocks
                            -- announced than bytes left in the file)
  | crash (s : Site)        -- the byte reader panics here (all-NUL string, `count - 1` underflow)
deriving DecidableEq, Repr

/-- the loop of `read_lines`: `must_take` follows the last file name seen -/
def takeLines (version : Nat) (f : Func) : Bool → List LineItem → Block → Block
  | _, [], b => b
  | mt, .line n :: rest, b =>
    if !mt || (decide (version ≥ 80) && (decide (n < f.startLine) || decide (n > f.endLine))) then
      takeLines version f mt rest b
    else
      takeLines version f mt rest
        { b with lines := b.lines ++ [n], lineMax := if n > b.lineMax then n else b.lineMax }
  | _, .file nm :: rest, b =>
    if nm = [] then b else takeLines version f (decide (Lcov.utf8Lossy nm = f.fileName)) rest b

def replaceLast {α : Type} : List α → α → List α
  | [], _ => []
  | [_], x => [x]
  | a :: b :: l, x => a :: replaceLast (b :: l) x

/-- one record of `read_functions`; records before the first function are skipped -/
def buildStep (g : Notes) (r : NRec) : Outcome Notes :=
  match r with
  | .short => err .short
  | .fail k => err k
  | .crash s => crash s
  | .func ident ls cs name file st en =>
    ok { g with funcs := g.funcs ++ [{ ident := ident, startLine := st, endLine := en,
                                        lineChecksum := ls, cfgChecksum := cs,
                                        fileName := Lcov.utf8Lossy file,
                                        name := Lcov.utf8Lossy name }] }
  | .blocks n =>
    match g.funcs.getLast? with
    | none => ok g
    | some f =>
      let f' : Func := { f with blocks := f.blocks ++ (List.range n).map fun i => ({ no := i } : Block) }
      ok { g with funcs := replaceLast g.funcs f' }
  | .arcs src as =>
    match g.funcs.getLast? with
    | none => ok g
    | some f =>
      if src < f.blocks.length then
        (Outcome.foldl (fun f (df : Nat × Nat) => addArc f src df.1 df.2) f as).bind fun f' =>
          ok { g with funcs := replaceLast g.funcs f' }
      else err .blockNo
  | .lines blk items =>
    match g.funcs.getLast? with
    | none => ok g
    | some f =>
      if blk < f.blocks.length then
        let f' : Func := { f with blocks := modifyAt (takeLines g.version f true items) f.blocks blk }
        ok { g with funcs := replaceLast g.funcs f' }
      else err .blockNo

def build (version checksum : Nat) (recs : List NRec) : Outcome Notes :=
  Outcome.foldl buildStep { version := version, checksum := checksum } recs

/-! ## Counters -/

def upd (f : Nat → Nat) (i v : Nat) : Nat → Nat := fun j => if j = i then v else f j

/-- `GcovEdge.counter` by arc id and `GcovBlock.counter` by block number, of one function -/
structure Cnt where
  arc : Nat → Nat
  blk : Nat → Nat

def Cnt.zero : Cnt := ⟨fun _ => 0, fun _ => 0⟩

/-- counters of every function of a notes file, by function position -/
abbrev State := Nat → Cnt
def State.zero : State := fun _ => Cnt.zero
def State.set (st : State) (i : Nat) (c : Cnt) : State := fun j => if j = i then c else st j

/-! ### gcda records -/

inductive DRec where
  | func (len ident lineSum cfgSum : Nat)   -- `len` = record length in words
  | arcs (len : Nat) (vals : List Nat)      -- `vals` = the counters present in the record
  | other                                   -- summaries and unknown tags (skipped)
  | fail (k : ErrKind)                      -- the byte reader fails here: `short` = the buffer ends
                                            -- inside or right after this record, `recordLen` = the
                                            -- record is shorter than its content
  | crash (s : Site)                        -- the byte reader panics here
deriving DecidableEq, Repr

structure Gcda where
  version : Nat
  checksum : Nat
  recs : List DRec
deriving DecidableEq, Repr

/-- reader.rs 746-753: walk all arcs in order; every arc that is not on the tree consumes one
counter and adds it to its own count and to the count of its source block -/
def accArcs (nblocks : Nat) : Nat → List Arc → Cnt → List Nat → Outcome Cnt
  | _, [], c, _ => ok c
  | i, a :: rest, c, vs =>
    if a.onTree then accArcs nblocks (i + 1) rest c vs
    else match vs with
      | [] => err .short
      | v :: vs =>
        if c.arc i + v > U64MAX then crash .overflow
        else if nblocks ≤ a.src then crash .idxBlock
        else if c.blk a.src + v > U64MAX then crash .overflow
        else accArcs nblocks (i + 1) rest
              ⟨upd c.arc i (c.arc i + v), upd c.blk a.src (c.blk a.src + v)⟩ vs

/-- `ident_to_fun`: a later function with the same identifier replaces the earlier entry -/
def identToFunGo (id : Nat) : List Func → Nat → Option Nat → Option Nat
  | [], _, r => r
  | f :: fs, i, r => identToFunGo id fs (i + 1) (if f.ident = id then some i else r)

def identToFun (fs : List Func) (id : Nat) : Option Nat := identToFunGo id fs 0 none

/-- the record loop of `read_gcda` (reader.rs 686-772) -/
def goRecs (g : Notes) : Option Nat → List DRec → State → Outcome State
  | _, [], st => ok st
  | cur, .func len id ls cs :: rest, st =>
    if len = 0 then goRecs g cur rest st
    else if len = 1 then err .headerLen
    else match identToFun g.funcs id with
      | none => err .fnIdent
      | some i =>
        match g.funcs[i]? with
        | none => crash .idxFunc
        | some f =>
          if ls ≠ f.lineChecksum ∨ cs ≠ f.cfgChecksum then err .fnChecksum
          else goRecs g (some i) rest st
  | cur, .arcs len vs :: rest, st =>
    match cur with
    | none => goRecs g none rest st
    | some i =>
      match g.funcs[i]? with
      | none => crash .idxFunc
      | some f =>
        if f.realEdgeCount % 4294967296 ≠ len / 2 then err .edgeCount
        else
          (accArcs f.blocks.length 0 f.arcs (st i) vs).bind fun c =>
            goRecs g cur rest (st.set i c)
  | cur, .other :: rest, st => goRecs g cur rest st
  | _, .fail k :: _, _ => err k
  | _, .crash s :: _, _ => crash s

/-- `read_gcda`: version and checksum guards, then the records -/
def addGcda (g : Notes) (st : State) (d : Gcda) : Outcome State :=
  if d.version ≠ g.version then err .versionMismatch
  else if d.checksum ≠ g.checksum then err .checksumMismatch
  else goRecs g none d.recs st

def addGcdas (g : Notes) (st : State) (ds : List Gcda) : Outcome State :=
  Outcome.foldl (addGcda g) st ds

/-! ## `count_on_tree` / `propagate_counts` -/

def sinkNo (version nblocks : Nat) : Nat := if version < 48 then nblocks - 1 else 1

/-- reader.rs 1099-1115: the virtual on-tree arc from the exit block to block 0 -/
def addVirtualArc (version : Nat) (f : Func) : Func :=
  if f.blocks.length ≥ 2 then
    let sink := sinkNo version f.blocks.length
    let id := f.arcs.length
    let arcs := f.arcs ++ [⟨sink, 0, 1⟩]
    let blocks := modifyAt (fun b => insertDest arcs b id 0) f.blocks sink
    { f with arcs := arcs
             blocks := modifyAt (fun b => { b with source := b.source ++ [id] }) blocks 0 }
  else f

/-- state of the propagation: arc counters and the `visited` set -/
structure PS where
  cnt : Nat → Nat
  vis : List Nat

/-- contribution of one incident arc `e` (reader.rs 1185-1192 / 1196-1203): nothing for the arc we
came through; a tree arc is resolved recursively at its other end; otherwise its counter -/
def arcStep (arcs : List Arc) (rec : PS → Nat → Nat → Outcome (PS × Nat)) (useSrc : Bool)
    (pred : Option Nat) (s : PS) (e : Nat) : Outcome (PS × Nat) :=
  if pred = some e then ok (s, 0)
  else match arcs[e]? with
    | none => crash .idxArc
    | some a =>
      if a.onTree then rec s (if useSrc then a.src else a.dst) e
      else ok (s, s.cnt e)

/-- `excess += …` over a list of arc ids, overflow-checked -/
def sumArcs (step : PS → Nat → Outcome (PS × Nat)) : List Nat → PS → Nat → Outcome (PS × Nat)
  | [], s, acc => ok (s, acc)
  | e :: es, s, acc =>
    (step s e).bind fun (s', x) =>
      if acc + x > U64MAX then crash .overflow else sumArcs step es s' (acc + x)

/-- `propagate_counts` (reader.rs 1165-1216), fuelled by recursion depth -/
def prop (f : Func) : Nat → PS → Nat → Option Nat → Outcome (PS × Nat)
  | 0, _, _, _ => diverge
  | fuel + 1, s, b, pred =>
    if b ∈ s.vis then ok (s, 0)
    else
      let s : PS := { s with vis := b :: s.vis }
      match f.blocks[b]? with
      | none => crash .idxBlock
      | some blk =>
        (sumArcs (arcStep f.arcs (fun s w e => prop f fuel s w (some e)) true pred)
            blk.source s 0).bind fun (s, pos) =>
        (sumArcs (arcStep f.arcs (fun s w e => prop f fuel s w (some e)) false pred)
            blk.destination s 0).bind fun (s, neg) =>
          let excess := if pos ≥ neg then pos - neg else neg - pos
          match pred with
          | some id => ok ({ s with cnt := upd s.cnt id excess }, excess)
          | none => ok (s, excess)

/-- `for block_no in 0..blocks.len() { propagate_counts(block_no, None) }` -/
def propAll (f : Func) (fuel : Nat) : List Nat → PS → Outcome PS
  | [], s => ok s
  | b :: bs, s =>
    (prop f fuel s b none).bind fun (s', _) => propAll f fuel bs s'

def indexed {α : Type} : List α → Nat → List (Nat × α)
  | [], _ => []
  | a :: l, i => (i, a) :: indexed l (i + 1)

/-- reader.rs 1121-1125: tree arcs (now resolved) add their count to their source block -/
def addTreeCounts (nblocks : Nat) (cnt : Nat → Nat) : List (Nat × Arc) → (Nat → Nat) →
    Outcome (Nat → Nat)
  | [], blk => ok blk
  | (i, a) :: rest, blk =>
    if a.onTree then
      if nblocks ≤ a.src then crash .idxBlock
      else if blk a.src + cnt i > U64MAX then crash .overflow
      else addTreeCounts nblocks cnt rest (upd blk a.src (blk a.src + cnt i))
    else addTreeCounts nblocks cnt rest blk

/-- depth fuel that `propagate_counts` cannot exhaust: every level marks a new block -/
def propFuel (f : Func) : Nat := f.blocks.length + 2

/-- `count_on_tree` (reader.rs 1091-1127): returns the function with its virtual arc and the
completed counters -/
def countOnTree (version : Nat) (f : Func) (c : Cnt) : Outcome (Func × Cnt) :=
  if f.blocks.length ≥ 2 then
    let f' := addVirtualArc version f
    let cnt0 := upd c.arc f.arcs.length 0
    (propAll f' (propFuel f') (List.range f'.blocks.length) ⟨cnt0, []⟩).bind fun s =>
    (addTreeCounts f'.blocks.length s.cnt (indexed f'.arcs 0).reverse c.blk).bind fun blk =>
      ok (f', ⟨s.cnt, blk⟩)
  else ok (f, c)

/-- `stop`: every function, in order -/
def stopGo (version : Nat) (st : State) : List Func → Nat → Outcome (List (Func × Cnt))
  | [], _ => ok []
  | f :: fs, i =>
    (countOnTree version f (st i)).bind fun fc =>
    (stopGo version st fs (i + 1)).bind fun r => ok (fc :: r)

def stop (g : Notes) (st : State) : Outcome (List (Func × Cnt)) := stopGo g.version st g.funcs 0

/-! ## Line counts -/

/-- `lines_to_block` (reader.rs 1132-1145): line ↦ block numbers (`block.no`), one entry per
occurrence -/
def linesToBlockLines (n : Nat) : List Nat → List (Nat × List Nat) → List (Nat × List Nat)
  | [], m => m
  | l :: ls, m =>
    linesToBlockLines n ls (match get? m l with
      | some v => set m l (v ++ [n])
      | none => set m l [n])

def linesToBlockGo : List Block → List (Nat × List Nat) → List (Nat × List Nat)
  | [], m => m
  | b :: bs, m => linesToBlockGo bs (linesToBlockLines b.no b.lines m)

def linesToBlock (f : Func) : List (Nat × List Nat) := linesToBlockGo f.blocks []

/-- state of the cycle search: `GcovEdge.cycles`, `path`, `blocked`, `block_lists` -/
structure CS where
  cyc : Nat → Nat
  path : List Nat
  blocked : List Nat
  lists : List (List Nat)

def position (l : List Nat) (x : Nat) : Option Nat :=
  let i := l.findIdx (· == x)
  if i < l.length then some i else none

/-- `get_cycle_count` (reader.rs 946-955) -/
def subCycle (count : Nat) (cy : Nat → Nat) (e : Nat) : Outcome (Nat → Nat) :=
  if cy e < count then crash .underflow else ok (upd cy e (cy e - count))

def cycleCount (cyc : Nat → Nat) (path : List Nat) : Outcome ((Nat → Nat) × Nat) :=
  let count := path.foldl (fun c e => min c (cyc e)) U64MAX
  (Outcome.foldl (subCycle count) cyc path).bind fun cy => ok (cy, count)

/-- `unblock` (reader.rs 957-968), fuelled by recursion depth -/
def unblock : Nat → Nat → List Nat × List (List Nat) → Outcome (List Nat × List (List Nat))
  | 0, _, _ => diverge
  | fuel + 1, b, (blocked, lists) =>
    match position blocked b with
    | none => ok (blocked, lists)
    | some i =>
      match lists[i]? with
      | none => crash .idxList
      | some l =>
        Outcome.foldl (fun bl b' => unblock fuel b' bl) (blocked.eraseIdx i, lists.eraseIdx i) l

/-- second loop of `look_for_circuit` (reader.rs 1016-1026): note the `||` -/
def noteBlocked (arcs : List Arc) (bs : List Nat) (start v : Nat) :
    List Nat → CS → Outcome CS
  | [], s => ok s
  | e :: es, s =>
    match arcs[e]? with
    | none => crash .idxArc
    | some a =>
      let w := a.dst
      if w ≥ start ∨ w ∈ bs then
        match position s.blocked w with
        | some i =>
          match s.lists[i]? with
          | none => crash .idxList
          | some l =>
            if v ∈ l then noteBlocked arcs bs start v es s
            else noteBlocked arcs bs start v es { s with lists := s.lists.set i (l ++ [v]) }
        | none => noteBlocked arcs bs start v es s
      else noteBlocked arcs bs start v es s

/-- first loop of `look_for_circuit` (reader.rs 986-1011) for one outgoing arc -/
def circuitStep (arcs : List Arc) (bs : List Nat) (start : Nat)
    (rec : Nat → CS → Outcome (CS × Bool × Nat))
    (acc : CS × Bool × Nat) (e : Nat) : Outcome (CS × Bool × Nat) :=
  let (s, found, count) := acc
  match arcs[e]? with
  | none => crash .idxArc
  | some a =>
    let w := a.dst
    if w ≥ start ∧ w ∈ bs then
      let s : CS := { s with path := s.path ++ [e] }
      if w = start then
        (cycleCount s.cyc s.path).bind fun (cy, c) =>
          if count + c > U64MAX then crash .overflow
          else ok ({ s with cyc := cy, path := s.path.dropLast }, true, count + c)
      else if w ∉ s.blocked then
        (rec w s).bind fun (s', f', c) =>
          if count + c > U64MAX then crash .overflow
          else ok ({ s' with path := s'.path.dropLast }, found || f', count + c)
      else ok ({ s with path := s.path.dropLast }, found, count)
    else ok (s, found, count)

/-- `look_for_circuit` (reader.rs 970-1030), fuelled by recursion depth -/
def lookForCircuit (f : Func) (bs : List Nat) (start : Nat) :
    Nat → Nat → CS → Outcome (CS × Bool × Nat)
  | 0, _, _ => diverge
  | fuel + 1, v, s =>
    let s : CS := { s with blocked := s.blocked ++ [v], lists := s.lists ++ [[]] }
    match f.blocks[v]? with
    | none => crash .idxBlock
    | some blk =>
      (Outcome.foldl (circuitStep f.arcs bs start (lookForCircuit f bs start fuel))
          (s, false, 0) blk.destination).bind fun (s, found, count) =>
        if found then
          (unblock (s.blocked.length + 2) v (s.blocked, s.lists)).bind fun (bl, ls) =>
            ok ({ s with blocked := bl, lists := ls }, found, count)
        else
          (noteBlocked f.arcs bs start v blk.destination s).bind fun s => ok (s, found, count)

/-- `get_cycles_count` (reader.rs 1032-1058) -/
def cyclesStep (f : Func) (fuel : Nat) (bs : List Nat) (acc : (Nat → Nat) × Nat) (b : Nat) :
    Outcome ((Nat → Nat) × Nat) :=
  (lookForCircuit f bs b fuel b ⟨acc.1, [], [], []⟩).bind fun (s, _, c) =>
    if acc.2 + c > U64MAX then crash .overflow else ok (s.cyc, acc.2 + c)

def cyclesCount (f : Func) (fuel : Nat) (bs : List Nat) (cyc : Nat → Nat) :
    Outcome ((Nat → Nat) × Nat) :=
  Outcome.foldl (cyclesStep f fuel bs) (cyc, 0) bs

/-- `acc + counter[e]` over a list of arc ids (reader.rs 1069-1072) -/
def sumCounters (arcs : List Arc) (cnt : Nat → Nat) : List Nat → Nat → Outcome Nat
  | [], acc => ok acc
  | e :: es, acc =>
    match arcs[e]? with
    | none => crash .idxArc
    | some _ => if acc + cnt e > U64MAX then crash .overflow else sumCounters arcs cnt es (acc + cnt e)

/-- entering arcs of a block from outside the line's block set (reader.rs 1074-1080) -/
def sumEntering (arcs : List Arc) (cnt : Nat → Nat) (bs : List Nat) : List Nat → Nat → Outcome Nat
  | [], acc => ok acc
  | e :: es, acc =>
    match arcs[e]? with
    | none => crash .idxArc
    | some a =>
      if a.src ∈ bs then sumEntering arcs cnt bs es acc
      else if acc + cnt e > U64MAX then crash .overflow
      else sumEntering arcs cnt bs es (acc + cnt e)

/-- `e.cycles = e.counter` for the outgoing arcs of a block (reader.rs 1082-1085) -/
def setCycles (arcs : List Arc) (cnt : Nat → Nat) : List Nat → (Nat → Nat) → Outcome (Nat → Nat)
  | [], cyc => ok cyc
  | e :: es, cyc =>
    match arcs[e]? with
    | none => crash .idxArc
    | some _ => setCycles arcs cnt es (upd cyc e (cnt e))

/-- fuel for the cycle search: every level of `look_for_circuit` blocks a block of the line -/
def circuitFuel (f : Func) : Nat := f.blocks.length + 2

/-- `get_line_count` (reader.rs 1060-1089) for a line that lives in the blocks `bs` (numbers `no`
used as indices into `fun_blocks`, as the Rust does; the entry test is `block.no == 0`) -/
def lineEntryStep (f : Func) (cnt : Nat → Nat) (bs : List Nat) (acc : (Nat → Nat) × Nat)
    (b : Nat) : Outcome ((Nat → Nat) × Nat) :=
  match f.blocks[b]? with
  | none => crash .idxBlock
  | some blk =>
    (if blk.no = 0 then sumCounters f.arcs cnt blk.destination acc.2
     else sumEntering f.arcs cnt bs blk.source acc.2).bind fun count =>
    (setCycles f.arcs cnt blk.destination acc.1).bind fun cyc => ok (cyc, count)

def getLineCount (f : Func) (cnt : Nat → Nat) (bs : List Nat) (cyc : Nat → Nat) :
    Outcome ((Nat → Nat) × Nat) :=
  (Outcome.foldl (lineEntryStep f cnt bs) (cyc, 0) bs).bind fun (cyc, count) =>
  (cyclesCount f (circuitFuel f) bs cyc).bind fun (cyc, c) =>
    if count + c > U64MAX then crash .overflow else ok (cyc, count + c)

/-- the executed branch of `add_line_count` (reader.rs 1148-1155): one count per line -/
def lineCounts (f : Func) (c : Cnt) :
    List (Nat × List Nat) → (Nat → Nat) → Outcome (List (Nat × Nat))
  | [], _ => ok []
  | (l, bs) :: rest, cyc =>
    match bs with
    | [b] => (lineCounts f c rest cyc).bind fun r => ok ((l, c.blk b) :: r)
    | _ =>
      (getLineCount f c.arc bs cyc).bind fun (cyc', n) =>
        (lineCounts f c rest cyc').bind fun r => ok ((l, n) :: r)

/-- the not-executed branch (reader.rs 1157-1161): `lines.entry(line).or_insert(0)` -/
def zeroLines : List Nat → List (Nat × Nat) → List (Nat × Nat)
  | [], m => m
  | l :: ls, m => zeroLines ls (match get? m l with | some _ => m | none => set m l 0)

/-- `self.edges.first().is_some_and(|edge| edge.counter > 0)`: the function has an arc and its
first arc (entry block → body) was taken; a function without arcs counts as not executed -/
def entered (f : Func) (c : Cnt) : Bool := !f.arcs.isEmpty && decide (c.arc 0 > 0)

/-- `add_line_count`: the executed flag and `fun.lines` -/
def addLineCount (f : Func) (c : Cnt) : Outcome (Bool × List (Nat × Nat)) :=
  if entered f c then
    (lineCounts f c (linesToBlock f) (fun _ => 0)).bind fun ls => ok (true, ls)
  else ok (false, zeroLines (f.blocks.flatMap (·.lines)) [])

/-! ## `finalize` -/

/-- reader.rs 879-888: add the function's line counts into the file's map -/
def mergeLines : List (Nat × Nat) → List (Nat × Nat) → Outcome (List (Nat × Nat))
  | m, [] => ok m
  | m, (l, n) :: rest =>
    match get? m l with
    | some v => if v + n > U64MAX then crash .overflow else mergeLines (set m l (v + n)) rest
    | none => mergeLines (set m l n) rest

/-- reader.rs 890-892 -/
def mergeZeroLines : List (Nat × Nat) → List (Nat × Nat) → List (Nat × Nat)
  | m, [] => m
  | m, (l, _) :: rest => mergeZeroLines (match get? m l with | some _ => m | none => set m l 0) rest

/-- the line a block's branches are attributed to (reader.rs 896-905) -/
def branchLine (f : Func) (blk : Block) : Outcome Nat :=
  if blk.lines.isEmpty then
    Outcome.foldl (fun (m : Nat) e =>
      match f.arcs[e]? with
      | none => crash .idxArc
      | some a =>
        match f.blocks[a.src]? with
        | none => crash .idxBlock
        | some sb => ok (max m sb.lineMax)) 0 blk.source
  else ok blk.lineMax

/-- reader.rs 910-921: one slot per outgoing arc that is not fake -/
def takenVec (f : Func) (cnt : Nat → Nat) (executed : Bool) : List Nat → Outcome (List Bool)
  | [] => ok []
  | e :: es =>
    match f.arcs[e]? with
    | none => crash .idxArc
    | some a =>
      (takenVec f cnt executed es).bind fun r =>
        ok (if a.fake then r else (executed && decide (cnt e > 0)) :: r)

/-- reader.rs 895-934 for the blocks of one function -/
def addBranches (f : Func) (cnt : Nat → Nat) (executed : Bool) :
    List Block → List (Nat × List Bool) → Outcome (List (Nat × List Bool))
  | [], m => ok m
  | blk :: rest, m =>
    (branchLine f blk).bind fun line =>
      if line = 0 then addBranches f cnt executed rest m
      else
        (takenVec f cnt executed blk.destination).bind fun taken =>
          if taken.length ≤ 1 then addBranches f cnt executed rest m
          else addBranches f cnt executed rest
            (match get? m line with
             | some v => set m line (v ++ taken)
             | none => set m line taken)

/-- one iteration of the loop of `finalize` (reader.rs 861-935) -/
def finStep (branch : Bool) (res : List (Bytes × Cov)) (fc : Func × Cnt) :
    Outcome (List (Bytes × Cov)) :=
  let (f, c) := fc
  (addLineCount f c).bind fun (executed, lines) =>
    let r : Cov := (get? res f.fileName).getD {}
    let fns := set r.functions f.name ⟨f.startLine, executed⟩
    (if executed then mergeLines r.lines lines else ok (mergeZeroLines r.lines lines)).bind fun ls =>
    (if branch then addBranches f c.arc executed f.blocks r.branches else ok r.branches).bind
      fun brs => ok (set res f.fileName { lines := ls, branches := brs, functions := fns })

def finalize (branch : Bool) (fs : List (Func × Cnt)) : Outcome (List (Bytes × Cov)) :=
  Outcome.foldl (finStep branch) [] fs

/-- `Gcno::compute` after `read_gcno`: all gcda, `stop`, `finalize` -/
def compute (g : Notes) (ds : List Gcda) (branch : Bool) : Outcome (List (Bytes × Cov)) :=
  (addGcdas g State.zero ds).bind fun st =>
    (stop g st).bind fun fs => finalize branch fs

/-- `Gcno::compute` from the record level -/
def computeRecs (version checksum : Nat) (recs : List NRec) (ds : List Gcda) (branch : Bool) :
    Outcome (List (Bytes × Cov)) :=
  (build version checksum recs).bind fun g => compute g ds branch

end Grcov.Gcno
