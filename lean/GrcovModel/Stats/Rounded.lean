/-
C13 — the printed rate, second part (second review, item 24): WHICH figure a format prints.

`Stats/Printed.lean` bounds the distance between a printed figure and the exact rate
(`printedOK`). That accepts, at a tie, both neighbours, and any number of decimals. This file adds
what the formats actually do, still over exact rationals:

  figure                         computed as                              rounding           decimals
  covdir  coveragePercent        f64::round(x/y·10^(p+2)) / 10^p, serde   half away from 0   ≤ max p 1, on the 10^-p grid
  html    page percentages       c/t·100, Tera `round(precision=p)`       half away from 0   ≤ max p 1, on the 10^-p grid
  html    coverage.json message  `{:.p$}` of the f64 c/t·100             half to even       exactly p
  markdown percentages           `{:.p$}` of the f32 c·100/t             half to even       exactly p
  badge                          integer division c·100/t                  truncation         0
(`f64::round` rounds half away from zero; Rust's `{:.p$}` prints the exact binary value rounded half
to even; serde_json and Tera print a whole f64 as `98.0`, which is why `max p 1`.)

`roundedTo mode p r` is the correctly rounded numerator ⌊r·10^p⌉ under the mode; the two modes
agree unless `atTie p r` (the exact rate lies exactly between two printable values) and the floor is
even. A float computation reproduces the exact rounding whenever the exact rate is not within the
float noise of a tie (`nearTie`), and at a tie whenever the computation is exact (dyadic totals):
both are checked in the correspondence run (harness/c13 `printed.rs`), which sends every figure to
`printedExact` / `shapeOK` below. Consequence recorded as an observation of the run: at a tie with an
even floor index.html (half away) and coverage.json (half even) print DIFFERENT figures for the same
global totals (1 of 8 lines at precision 0: `13 %` and `12%`).
Core Lean only (driver `gm_c13`).
-/
import GrcovModel.Stats.Printed
namespace Grcov.Stats
open Grcov

inductive RMode where
  | halfAway
  | halfEven
deriving DecidableEq, Repr

/-- how a figure is formatted: the rounding of its last place, and whether it always carries
exactly `p` decimals (`{:.p$}`) or the shortest representation of a value rounded to `p` decimals
(`round` + serde/Tera: at most `max p 1` decimals) -/
structure Fmt where
  mode : RMode
  exactPlaces : Bool
deriving DecidableEq, Repr

def fmtOf (figure : String) : Option Fmt :=
  if figure = "covdir" ∨ figure = "html" then some ⟨.halfAway, false⟩
  else if figure = "json" ∨ figure = "markdown" then some ⟨.halfEven, true⟩
  else none

/-- ⌊r·10^p⌋ and the remainder, over the exact rational -/
def scaledFloor (p : Nat) (r : Rate) : Nat := r.num * 10 ^ p / r.den
def scaledRem (p : Nat) (r : Rate) : Nat := r.num * 10 ^ p % r.den

/-- the exact rate is exactly half way between two values with `p` decimals -/
def atTie (p : Nat) (r : Rate) : Bool := decide (2 * scaledRem p r = r.den)

/-- r·10^p correctly rounded to an integer under the mode (r.den ≠ 0) -/
def roundedTo (mode : RMode) (p : Nat) (r : Rate) : Nat :=
  let q := scaledFloor p r
  let rem := scaledRem p r
  if 2 * rem < r.den then q
  else if r.den < 2 * rem then q + 1
  else match mode with
    | .halfAway => q + 1
    | .halfEven => if q % 2 = 0 then q else q + 1

/-- the distance of r·10^p to the nearest tie is at most `slack·10^p` (cross-multiplied): inside
this band a float computation may land on either side -/
def nearTie (t : Tol) (p : Nat) (r : Rate) : Bool :=
  decide (absDiff (2 * scaledRem p r) r.den * t.slackDen ≤ 2 * t.slackNum * 10 ^ p * r.den)

/-- the numeral has the shape the format prints: no sign, no exponent, exactly `p` decimals — or at
most `max p 1` decimals with every decimal beyond the `p`-th equal to 0 -/
def shapeOK (f : Fmt) (p : Nat) (d : Dec) : Bool :=
  !d.neg && decide (d.exp = 0) &&
    (if f.exactPlaces then decide (d.scale = p)
     else decide (d.scale ≤ max p 1) && decide (p < d.scale → d.mant % 10 ^ (d.scale - p) = 0))

/-- the numeral's value times 10^p as an integer, when it is one -/
def Dec.scaledTo (d : Dec) (p : Nat) : Option Nat :=
  if d.neg ∨ d.exp ≠ 0 then none
  else if d.scale ≤ p then some (d.mant * 10 ^ (p - d.scale))
  else if d.mant % 10 ^ (d.scale - p) = 0 then some (d.mant / 10 ^ (d.scale - p)) else none

/-- the printed figure IS the exact rate rounded to `p` decimals under the format's mode, in the
format's shape -/
def printedExact (f : Fmt) (p : Nat) (r : Rate) (s : List Nat) : Bool :=
  match parseDec s with
  | some d => shapeOK f p d && decide (r.den ≠ 0) && decide (d.scaledTo p = some (roundedTo f.mode p r))
  | none => false

/-- the second-generation admissibility of a printed figure: the shape of the format, the bound of
`printedOK` (half a unit of the last place + float noise) and — unless the exact rate is within the
float noise of a tie, where the bound leaves the two neighbours — THE correctly rounded value -/
def printedOK2 (t : Tol) (f : Fmt) (p : Nat) (r : Rate) (s : List Nat) : Bool :=
  printedOK t r s &&
    (match parseDec s with
     | some d => shapeOK f p d
     | none => false) &&
    (nearTie t p r || printedExact f p r s)

end Grcov.Stats
