/-
C13 — the PRINTED rate. Rust's float arithmetic and formatting are not modelled; what the property
demands of a printed figure is modelled instead, as the set of admissible decimal strings:

  `printedOK tol r s`  ⇔  `s` is a decimal number `[-]digits[.digits][e[+-]digits]` and
                          |value(s) − r| ≤ bound(tol), over exact rationals,

with `bound = 10^-p / 2 + slack` for the formats that take `--precision p` (the figure is rounded
to `p` decimals: half a unit of the last printed place) and `bound = slack` for the formats that
print a float in full. `slack` is the documented float noise of the computation, the ONE place
where the tolerance of the C13 check lives (`tolOf`; the harness sends every printed figure here):

  covdir     coveragePercent   f64: x/y·10^(p+2) rounded, /10^p      p = --precision, slack 1e-9
  html       percentages       f64: c/t·100, Tera `round(precision)`  p = --precision, slack 1e-9
  markdown   percentages       f32: c·100/t, `{:.p$}`                 p = --precision, slack 2e-5
  cobertura  line-rate/branch-rate  f64 c/t printed in full           slack 1e-12
  ade        percentage_covered     f32 c/(c+u) printed in full       slack 1e-6
Core Lean only (driver `gm_c13`).
-/
import GrcovModel.Stats
namespace Grcov.Stats
open Grcov

/-- a decimal numeral: value = (-1)^neg · mant / 10^scale · 10^exp -/
structure Dec where
  neg : Bool
  mant : Nat
  scale : Nat
  exp : Int
deriving DecidableEq, Repr

def digitsVal : List Nat → Option Nat
  | [] => some 0
  | ds => ds.foldl (fun acc b => match acc with
      | some a => if 48 ≤ b ∧ b ≤ 57 then some (a * 10 + (b - 48)) else none
      | none => none) (some 0)

def splitAtByte (c : Nat) : List Nat → List Nat × Option (List Nat)
  | [] => ([], none)
  | b :: r => if b = c then ([], some r) else
    let (a, t) := splitAtByte c r
    (b :: a, t)

/-- `[-]digits[.digits][(e|E)[+|-]digits]`, at least one digit before the point -/
def parseDec (s : List Nat) : Option Dec :=
  let (neg, body) := match s with
    | 45 :: r => (true, r)
    | r => (false, r)
  let body := body.map fun b => if b = 69 then 101 else b
  let (m, e) := splitAtByte 101 body
  let (ip, fp) := splitAtByte 46 m
  let fpd := fp.getD []
  if ip = [] ∨ (fp = some []) then none else
  match digitsVal (ip ++ fpd), e with
  | none, _ => none
  | some mant, none => some ⟨neg, mant, fpd.length, 0⟩
  | some mant, some ex =>
    let (eneg, eds) := match ex with
      | 45 :: r => (true, r)
      | 43 :: r => (false, r)
      | r => (false, r)
    if eds = [] then none else
    match digitsVal eds with
    | some x => some ⟨neg, mant, fpd.length, if eneg then -(x : Int) else x⟩
    | none => none

/-- numerator and denominator of |value| (`10^exp` goes to the side it belongs to) -/
def Dec.absNum (d : Dec) : Nat := if 0 ≤ d.exp then d.mant * 10 ^ d.exp.toNat else d.mant
def Dec.den (d : Dec) : Nat := if 0 ≤ d.exp then 10 ^ d.scale else 10 ^ d.scale * 10 ^ (-d.exp).toNat

structure Tol where
  /-- `some p`: rounded to `p` decimals (half a unit of the last place is allowed) -/
  places : Option Nat
  slackNum : Nat
  slackDen : Nat
deriving DecidableEq, Repr

/-- bound = boundNum / boundDen -/
def Tol.boundNum (t : Tol) : Nat :=
  match t.places with
  | some p => t.slackDen + 2 * 10 ^ p * t.slackNum
  | none => t.slackNum
def Tol.boundDen (t : Tol) : Nat :=
  match t.places with
  | some p => 2 * 10 ^ p * t.slackDen
  | none => t.slackDen

/-- the tolerance of each format (see the header) -/
def tolOf (writer : String) (precision : Nat) : Option Tol :=
  if writer = "covdir" ∨ writer = "html" then some ⟨some precision, 1, 10 ^ 9⟩
  else if writer = "markdown" then some ⟨some precision, 2, 10 ^ 5⟩
  else if writer = "cobertura" then some ⟨none, 1, 10 ^ 12⟩
  else if writer = "ade" then some ⟨none, 1, 10 ^ 6⟩
  else none

/-- |a − b| on naturals -/
def absDiff (a b : Nat) : Nat := if a ≤ b then b - a else a - b

/-- |value(d) − r| ≤ bound, cross-multiplied; a negative numeral is only close to 0 -/
def Dec.closeTo (d : Dec) (r : Rate) (t : Tol) : Bool :=
  let diffNum := if d.neg then d.absNum * r.den + r.num * d.den else absDiff (d.absNum * r.den) (r.num * d.den)
  decide (r.den ≠ 0 ∧ diffNum * t.boundDen ≤ t.boundNum * (d.den * r.den))

/-- the set of admissible printed figures for the exact rate `r` -/
def printedOK (t : Tol) (r : Rate) (s : List Nat) : Bool :=
  match parseDec s with
  | some d => d.closeTo r t
  | none => false

end Grcov.Stats
