/-
The REPORT view of the covdir tree (C13 ∩ C03): `CDDirStats::into_json` (src/covdir.rs 108-127)
puts the files and then the sub-directories of a node into ONE `serde_json::Map` keyed by name; a
later `insert` replaces an earlier one. So the `children` object of a directory lists
* of several files with the same name only the last,
* no file that has the name of a sub-directory of the same node,
* every sub-directory (they are created through the `relative` map: one per name),
while `set_stats` has summed ALL files and sub-directories of the internal `Vec`s. `Stats.lean`
models the internal tree; this file adds what the report lists. Core Lean only (driver `gm_c13`).
-/
import GrcovModel.Stats
namespace Grcov.Stats
open Grcov AList

/-- names of the directories of one level -/
def Forest.dirNames : Forest → List Name
  | .nil => []
  | .dir n _ _ _ next => n :: next.dirNames

/-- (name, figures) of the directories of one level -/
def Forest.levelStats : Forest → List (Name × CDStats)
  | .nil => []
  | .dir n st _ _ next => (n, st) :: next.levelStats

/-- the `children` object of a directory with files `fs` and sub-directories `sub`: key ↦ figures of
the entry that survives (`Map::insert` of the files, then of the directories) -/
def childrenStats (fs : List CDFile) (sub : Forest) : List (Name × CDStats) :=
  (fs.map (fun f => (f.name, f.stats)) ++ sub.levelStats).foldl (fun m kv => set m kv.1 kv.2) []

/-- the files of a node that are listed in its `children` object: not replaced by a later file of
the same name nor by a sub-directory of that name -/
def listedFiles (fs : List CDFile) (subNames : List Name) : List CDFile :=
  match fs with
  | [] => []
  | f :: rest =>
    if rest.any (fun g => g.name = f.name) || subNames.contains f.name then listedFiles rest subNames
    else f :: listedFiles rest subNames

/-- the guard of the report view: the children of every directory have pairwise distinct names -/
def Forest.NamesOK : Forest → Prop
  | .nil => True
  | .dir _ _ fs sub next => (fs.map (·.name) ++ sub.dirNames).Nodup ∧ sub.NamesOK ∧ next.NamesOK

def CDRoot.NamesOK (r : CDRoot) : Prop := (r.files.map (·.name) ++ r.sub.dirNames).Nodup ∧ r.sub.NamesOK

end Grcov.Stats
